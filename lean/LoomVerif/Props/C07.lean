/-
Property C07: "Mutex and RwLock provide exclusion, blocking and hand-over ordering.  In every
explored execution at most one thread holds a Mutex or an RwLock write guard, readers coexist only
with readers, a blocking acquire returns only when the lock is compatible, try_lock/try_read/
try_write succeed exactly when the lock is compatible at that instant, and everything done before
a release happens-before everything after the next acquire.  get_mut/into_inner return the
protected value."

Headline theorems about the twin's model of `src/rt/mutex.rs`, `src/rt/rwlock.rs` and of the API
glue `src/sync/{mutex,rwlock}.rs` (`World.postAcquire`, `releaseLock`, `postAcquireRead`,
`postAcquireWrite`, `releaseRead`, `releaseWrite`, and the stages of `World.runOp`).  They are
ONE-STEP LAWS, valid in EVERY state `w : World` of the twin (no reachability assumption), plus
monotone invariants over arbitrary sequences of steps.

Reading a successor state.  The successor states are given outright as record updates of `w`:
`objs := w.exec.objs.set o x` replaces object `o`, and
`threads := w.exec.threads.threads.mapIdx fun i th => …` rewrites thread `i` (`th` is its old
record): `Table.read` below reads such a table pointwise.  `w.tid` is the active thread,
`th.operation.any (fun op => op.obj == o)` says "thread `th` has a pending operation on object `o`",
`op.blocking` that this operation WAITS for the object (`lock`, `read`, `write`) as opposed to an attempt
(`try_lock`, `try_read`, `try_write`): `World.branch obj act blk wt` records `⟨obj, act, wt⟩`
(`Lock.branch_records`).

Vocabulary (definitions in `LoomVerif/Proofs/C07Rw.lean`, `C07Handover.lean`, `C07SC.lean`,
`C07RwSC.lean`; each is spelled out by a theorem below):

* `readersOf l`, `writerOf l`  reader list / writer of a `Option RwLocked` lock state.
* `StrictSorted l`             `l.Pairwise (· < ·)`: sorted and duplicate-free.
* `RwWF s`                     the reader list is strictly sorted and not empty while read-locked.
* `MutexStep m m'`, `RwStep s s'`   one step in the life of a lock object, seen from the object:
                               SOME world holding the object performs a release / a post-acquire
                               on it (any world: arbitrary thread tables), or the scheduler
                               records an access (`set_last_access`).  `MutexSteps`, `RwSteps`:
                               any number of steps.
* `bodyOf w t`                 the DSL thread index run by loom thread `t` (`(w.ctlOf t).body`).
* `absMutex w mi`, `absRwWriter w li`, `absRwReaders w li`   the reference semantics' view of the
                               twin's lock objects (thread ids mapped through `bodyOf`).
* `MutexRel w s`, `RwRel w s`  the lock components of the `SC` state `s` are these abstractions
                               (readers compared as sets).

REPAIRED finding F9 (old theorem `Lock.blocks_try_acquirers`: a thread whose pending operation is a
`try_lock` was disabled by another thread's acquisition although the reference semantics never
disables a `try_lock`).  The pending operation now records whether it waits (`Operation.blocking`), and an
acquisition blocks only the OTHER threads that wait for the lock: `Lock.never_blocks_try_acquirers`,
`Lock.blocks_waiters`, `Lock.branch_records`, `Lock.try_acquirer_keeps_running` (kernel-checked example).
`Lock.release_wakes`: a release wakes (`Thread.wake`) every other thread with a
pending operation on the lock: a BLOCKED one becomes `runnable`, any other state is left alone (since
the repair of finding F18; before it every such thread was set runnable whatever its state), and nobody's
unpark token (`Thread.token`) is touched — see `Release.keeps_token` in `Props/C08.lean`.
-/
import LoomVerif.Proofs.SyncExamples
import LoomVerif.Proofs.C07Try

namespace LoomVerif
open C12 Sy C07

/-! ## 0. reading the tables -/

/-- pointwise reading of a thread table written with `mapIdx` -/
theorem Table.read (s : Threads) (F : Nat → Thread → Thread) (i : Nat) (h : i < s.threads.length) :
    ({ s with threads := s.threads.mapIdx F } : Threads).get i = F i (s.get i) :=
  Sy.get_mapIdx s F i h

/-- pointwise reading of an object table after `set` -/
theorem Table.read_objs (os : List Obj) (o j : Nat) (x y : Obj) (h : os[o]? = some y) :
    (os.set o x)[j]? = if j = o then some x else os[j]? := by
  by_cases e : j = o
  · subst e; simp [getElem?_set_self' _ _ _ _ h]
  · simp [e, getElem?_set_ne' _ _ _ _ e]

/-! ## 1. `Lock.try_exact`: `post_acquire` succeeds exactly when the mutex is free -/

/-- `Mutex::post_acquire` on mutex `m` (object `o`) returns `m.lock.isNone`.  Held: nothing
changes.  Free: the mutex is now held by the active thread, the active thread acquires the mutex's
clock (`causality := causality ⊔ m.sync.hb`), every OTHER thread whose pending operation is on `o`
AND waits for it (`op.blocking`: a `lock`, not a `try_lock` — repair of finding F9) is `blocked`; all
remaining threads, all other objects, and everything else are unchanged. -/
theorem Lock.try_exact (w : World) (o : Nat) (m : MutexSt)
    (h : w.exec.objs[o]? = some (.mutex m)) :
    ∃ w', w.postAcquire o = .ok (w', m.lock.isNone) ∧
      (m.lock.isNone = false → w' = w) ∧
      (m.lock.isNone = true → w' =
        { w with exec := { w.exec with
            objs := w.exec.objs.set o (.mutex { m with lock := some w.tid })
            threads := { w.exec.threads with threads :=
              (w.exec.threads.threads.mapIdx fun i th =>
                if i = w.tid then { th with causality := th.causality.join m.sync.hb }
                else if th.operation.any (fun op => op.obj == o && op.blocking) then th.setBlocked
                else th) } } }) := by
  cases hl : m.lock with
  | some t =>
    exact ⟨w, postAcquire_held h (by simp [hl]), fun _ => rfl, fun e => (by simp at e)⟩
  | none =>
    exact ⟨_, by rw [postAcquire_free h hl]; rfl, fun e => (by simp at e), fun _ => rfl⟩

/-- `try_lock`, second stage (after its branch point): completes with `1` iff the mutex was free
at that instant, with `0` otherwise; the state is the one `post_acquire` produced. -/
theorem Lock.tryLock_result (w : World) (c : TCtl) (mi : Nat) (m : MutexSt)
    (h : w.exec.objs[w.mutexObj mi]? = some (.mutex m)) (hs : c.stage ≠ 0) :
    ∃ w1, w.postAcquire (w.mutexObj mi) = .ok (w1, m.lock.isNone) ∧
      w.runOp c (.tryLock mi) = .ok (w1.complete (.val (if m.lock.isNone then 1 else 0))) := by
  obtain ⟨w1, h1, _⟩ := Lock.try_exact w _ m h
  refine ⟨w1, h1, ?_⟩
  rw [runOp_tryLock]
  simp only [hs, beq_iff_eq, if_false, h1]
  rfl

/-- `lock`, first stage: a branch point on the mutex; the thread is blocked iff the mutex is held
at that instant.  Second stage: raises "expected to be able to acquire lock" iff the mutex is held
at THAT instant, otherwise completes holding the mutex. -/
theorem Lock.lock_stages (w : World) (c : TCtl) (mi : Nat) (m : MutexSt)
    (h : w.exec.objs[w.mutexObj mi]? = some (.mutex m)) :
    (c.stage = 0 → w.runOp c (.lock mi) =
      (w.setStage 1).branch (w.mutexObj mi) .opaque (block := m.lock.isSome) (wait := true)) ∧
    (c.stage ≠ 0 →
      (w.runOp c (.lock mi) = .error .expectedLock ↔ m.lock.isSome = true) ∧
      (m.lock = none → ∃ w1, w.postAcquire (w.mutexObj mi) = .ok (w1, true) ∧
        w.runOp c (.lock mi) = .ok (w1.complete .unit))) := by
  constructor
  · intro hs
    rw [runOp_lock]; simp only [hs, getMutex_of h, bind, Except.bind]; rfl
  · intro hs
    rw [runOp_lock]
    simp only [hs, beq_iff_eq, if_false]
    cases hl : m.lock with
    | some t =>
      rw [postAcquire_held h (by simp [hl])]
      exact ⟨⟨fun _ => rfl, fun _ => rfl⟩, fun e => (by cases e)⟩
    | none =>
      rw [postAcquire_free h hl]
      refine ⟨⟨fun e => (by cases e), fun e => (by cases e)⟩, fun _ => ⟨_, rfl, rfl⟩⟩

/-! ## 2. `RwLock.try_exact`, `RwLock.exclusion` -/

theorem readersOf_spelled_out :
    readersOf none = [] ∧ (∀ rs, readersOf (some (.read rs)) = rs) ∧
    (∀ t, readersOf (some (.write t)) = []) ∧
    writerOf none = none ∧ (∀ rs, writerOf (some (.read rs)) = none) ∧
    (∀ t, writerOf (some (.write t)) = some t) := ⟨rfl, fun _ => rfl, fun _ => rfl, rfl, fun _ => rfl, fun _ => rfl⟩

/-- `post_acquire_read_lock` succeeds iff the lock is not write-locked.  On success the active
thread joins the reader set (sorted insert), acquires the lock's clock, and every other thread with
a pending WRITE on the lock that waits (`write`, not `try_write`) is blocked (pending readers are not). -/
theorem RwLock.try_exact_read (w : World) (o : Nat) (s : RwSt)
    (h : w.exec.objs[o]? = some (.rwlock s)) :
    ∃ w', w.postAcquireRead o = .ok (w', (writerOf s.lock).isNone) ∧
      ((writerOf s.lock).isNone = false → w' = w) ∧
      ((writerOf s.lock).isNone = true → w' =
        { w with exec := { w.exec with
            objs := w.exec.objs.set o (.rwlock { s with
              lock := some (.read (World.insertSorted w.tid (readersOf s.lock))) })
            threads := { w.exec.threads with threads :=
              (w.exec.threads.threads.mapIdx fun i th =>
                if i = w.tid then { th with causality := th.causality.join s.sync.hb }
                else if th.operation.any (fun op => op.obj == o && op.action == .rwWrite && op.blocking)
                then th.setBlocked else th) } } }) := by
  cases hl : writerOf s.lock with
  | some t =>
    have : s.lock = some (.write t) := by
      rcases hs : s.lock with _ | ⟨rs | x⟩ <;> simp [hs, writerOf] at hl
      rw [hl]
    exact ⟨w, postAcquireRead_writer h this, fun _ => rfl, fun e => (by simp at e)⟩
  | none =>
    exact ⟨_, by rw [postAcquireRead_ok h hl]; rfl, fun e => (by simp at e), fun _ => rfl⟩

/-- `post_acquire_write_lock` succeeds iff the lock is unlocked (no writer AND no reader).  On
success the active thread is the writer, acquires the lock's clock, and every other thread with a
pending operation on the lock that waits (`read`, `write`; not `try_read`, `try_write`) is blocked. -/
theorem RwLock.try_exact_write (w : World) (o : Nat) (s : RwSt)
    (h : w.exec.objs[o]? = some (.rwlock s)) :
    ∃ w', w.postAcquireWrite o = .ok (w', s.lock.isNone) ∧
      (s.lock.isNone = false → w' = w) ∧
      (s.lock.isNone = true → w' =
        { w with exec := { w.exec with
            objs := w.exec.objs.set o (.rwlock { s with lock := some (.write w.tid) })
            threads := { w.exec.threads with threads :=
              (w.exec.threads.threads.mapIdx fun i th =>
                if i = w.tid then { th with causality := th.causality.join s.sync.hb }
                else if th.operation.any (fun op => op.obj == o && op.blocking) then th.setBlocked
                else th) } } }) := by
  cases hl : s.lock with
  | some t =>
    exact ⟨w, postAcquireWrite_locked h (by simp [hl]), fun _ => rfl, fun e => (by simp at e)⟩
  | none =>
    exact ⟨_, by rw [postAcquireWrite_free h hl]; rfl, fun e => (by simp at e), fun _ => rfl⟩

/-- `try_read` / `try_write` complete with `1` exactly when the lock is compatible at that instant;
`read` / `write` raise "expected to be able to acquire read/write lock" exactly when it is not. -/
theorem RwLock.try_results (w : World) (c : TCtl) (li : Nat) (s : RwSt)
    (h : w.exec.objs[w.rwObj li]? = some (.rwlock s)) (hs : c.stage ≠ 0) :
    (∃ w1, w.postAcquireRead (w.rwObj li) = .ok (w1, (writerOf s.lock).isNone) ∧
      w.runOp c (.tryRead li) =
        .ok (w1.complete (.val (if (writerOf s.lock).isNone then 1 else 0)))) ∧
    (∃ w1, w.postAcquireWrite (w.rwObj li) = .ok (w1, s.lock.isNone) ∧
      w.runOp c (.tryWrite li) = .ok (w1.complete (.val (if s.lock.isNone then 1 else 0)))) ∧
    (w.runOp c (.read li) = .error .expectedRead ↔ (writerOf s.lock).isNone = false) ∧
    (w.runOp c (.write li) = .error .expectedWrite ↔ s.lock.isNone = false) := by
  obtain ⟨w1, h1, _⟩ := RwLock.try_exact_read w _ s h
  obtain ⟨w2, h2, _⟩ := RwLock.try_exact_write w _ s h
  refine ⟨⟨w1, h1, ?_⟩, ⟨w2, h2, ?_⟩, ?_, ?_⟩
  · rw [runOp_tryRead]; simp only [hs, beq_iff_eq, if_false, h1]; rfl
  · rw [runOp_tryWrite]; simp only [hs, beq_iff_eq, if_false, h2]; rfl
  · rw [runOp_read]; simp only [hs, beq_iff_eq, if_false, h1]
    cases (writerOf s.lock).isNone
    · exact ⟨fun _ => rfl, fun _ => rfl⟩
    · exact ⟨fun e => (by cases e), fun e => (by cases e)⟩
  · rw [runOp_write]; simp only [hs, beq_iff_eq, if_false, h2]
    cases s.lock.isNone
    · exact ⟨fun _ => rfl, fun _ => rfl⟩
    · exact ⟨fun e => (by cases e), fun e => (by cases e)⟩

/-- the reader set: `insertSorted` inserts (set semantics: no duplicate), keeps the list strictly
sorted; on a strictly sorted list `filter (· != t)` (the twin's removal) is `List.erase t`. -/
theorem RwLock.readers_sorted (x : Nat) (l : List Nat) (hl : l.Pairwise (· < ·)) :
    (∀ y, y ∈ World.insertSorted x l ↔ y = x ∨ y ∈ l) ∧
    (World.insertSorted x l).Pairwise (· < ·) ∧ (World.insertSorted x l).Nodup ∧
    (x ∈ l → World.insertSorted x l = l) ∧
    l.filter (· != x) = l.erase x ∧ (l.filter (· != x)).Pairwise (· < ·) :=
  ⟨fun y => mem_insertSorted x y l, insertSorted_sorted x l hl,
    StrictSorted.nodup (insertSorted_sorted x l hl), insertSorted_of_mem x l hl,
    filter_ne_eq_erase x l (StrictSorted.nodup hl), filter_sorted _ l hl⟩

theorem RwWF_spelled_out (s : RwSt) :
    RwWF s ↔ (readersOf s.lock).Pairwise (· < ·) ∧ s.lock ≠ some (.read []) := Iff.rfl

theorem RwStep_spelled_out (s s' : RwSt) :
    RwStep s s' ↔
      (∃ (w w' : World) (o : Nat), w.exec.objs[o]? = some (.rwlock s) ∧
        w'.exec.objs[o]? = some (.rwlock s') ∧
        (w.releaseRead o = .ok w' ∨ w.releaseWrite o = .ok w' ∨
          (∃ b, w.postAcquireRead o = .ok (w', b)) ∨ (∃ b, w.postAcquireWrite o = .ok (w', b)))) ∨
      (∃ a, s' = { s with lastAccess := a }) := by
  constructor
  · intro h
    cases h with
    | releaseRead h hr h' => exact .inl ⟨_, _, _, h, h', .inl hr⟩
    | releaseWrite h hr h' => exact .inl ⟨_, _, _, h, h', .inr (.inl hr)⟩
    | acquireRead h hr h' => exact .inl ⟨_, _, _, h, h', .inr (.inr (.inl ⟨_, hr⟩))⟩
    | acquireWrite h hr h' => exact .inl ⟨_, _, _, h, h', .inr (.inr (.inr ⟨_, hr⟩))⟩
    | touch s a => exact .inr ⟨a, rfl⟩
  · rintro (⟨w, w', o, h, h', hr | hr | ⟨b, hr⟩ | ⟨b, hr⟩⟩ | ⟨a, rfl⟩)
    · exact .releaseRead h hr h'
    · exact .releaseWrite h hr h'
    · exact .acquireRead h hr h'
    · exact .acquireWrite h hr h'
    · exact .touch s a

/-- Exclusion.  By the type of `RwSt.lock` the state is always one of: unlocked / a set of readers
/ ONE writer.  A write acquisition never succeeds while a reader or a writer exists, a read
acquisition never while a writer exists; after a successful write acquisition the active thread is
the only holder, after a successful read acquisition there is no writer.  The representation
invariant `RwWF` (reader list strictly sorted, never empty while read-locked) holds for a new
lock and is preserved by every step; under it "unlocked" = "no writer and no reader". -/
theorem RwLock.exclusion :
    (∀ s : RwSt, s.lock = none ∨ (∃ rs, s.lock = some (.read rs)) ∨ (∃ t, s.lock = some (.write t))) ∧
    (∀ (w w' : World) (o : Nat) (s : RwSt), w.exec.objs[o]? = some (.rwlock s) →
      w.postAcquireWrite o = .ok (w', true) →
        readersOf s.lock = [] ∧ writerOf s.lock = none ∧
        w'.exec.objs[o]? = some (.rwlock { s with lock := some (.write w.tid) })) ∧
    (∀ (w w' : World) (o : Nat) (s : RwSt), w.exec.objs[o]? = some (.rwlock s) →
      w.postAcquireRead o = .ok (w', true) →
        writerOf s.lock = none ∧ ∃ s', w'.exec.objs[o]? = some (.rwlock s') ∧
          writerOf s'.lock = none ∧ w.tid ∈ readersOf s'.lock) ∧
    RwWF {} ∧
    (∀ s s', RwSteps s s' → RwWF s → RwWF s') ∧
    (∀ s, RwWF s → (s.lock = none ↔ writerOf s.lock = none ∧ readersOf s.lock = [])) := by
  refine ⟨?_, ?_, ?_, RwWF_new, fun _ _ h => h.wf, fun _ h => h.lock_none_iff⟩
  · intro s
    rcases s.lock with _ | ⟨rs | t⟩
    · exact .inl rfl
    · exact .inr (.inl ⟨rs, rfl⟩)
    · exact .inr (.inr ⟨t, rfl⟩)
  · intro w w' o s h hr
    rcases postAcquireWrite_cases h hr with ⟨hb, _⟩ | ⟨_, hl, h', _⟩
    · cases hb
    · rw [hl]; exact ⟨rfl, rfl, h'⟩
  · intro w w' o s h hr
    rcases postAcquireRead_cases h hr with ⟨hb, _⟩ | ⟨_, hl, h', _⟩
    · cases hb
    · exact ⟨hl, _, h', rfl, (mem_insertSorted _ _ _).2 (.inl rfl)⟩

/-! ## 3. `Lock.release_wakes` -/

/-- `Mutex::release_lock` by the active thread: the mutex is free, its clock becomes
`old ⊔ released ⊔ causality` of the releasing thread (`Sync.store … .rel`), and every other thread
whose pending operation is on the mutex is woken (`Thread.wake`: `runnable` if it is BLOCKED, left
alone in any other state — yielded, runnable, terminated; the unpark token is never touched; repair of
finding F18).  All other threads and objects are unchanged.  (When no thread is active — "execution
has deadlocked" — only the lock flag is cleared.) -/
theorem Lock.release_wakes (w : World) (o : Nat) (m : MutexSt)
    (h : w.exec.objs[o]? = some (.mutex m)) :
    (w.ths.isActive = true → w.releaseLock o = .ok
      { w with exec := { w.exec with
          objs := w.exec.objs.set o (.mutex { m with
            lock := none, sync := m.sync.store w.ths.activeT.released w.ths.caus .rel })
          threads := { w.exec.threads with threads :=
            (w.exec.threads.threads.mapIdx fun i th =>
              if i = w.tid then th
              else if th.operation.any (fun op => op.obj == o) then th.wake else th) } } }) ∧
    (w.ths.isActive = false →
      w.releaseLock o = .ok (w.setObj o (.mutex { m with lock := none }))) ∧
    (m.sync.store w.ths.activeT.released w.ths.caus .rel).hb =
      (m.sync.hb.join w.ths.activeT.released).join w.ths.caus :=
  ⟨releaseLock_active h, releaseLock_inactive h, by rw [store_rel]⟩

/-- `release_write_lock`: as for the mutex. -/
theorem RwLock.release_write_wakes (w : World) (o : Nat) (s : RwSt)
    (h : w.exec.objs[o]? = some (.rwlock s)) :
    w.releaseWrite o = .ok
      { w with exec := { w.exec with
          objs := w.exec.objs.set o (.rwlock { s with
            lock := none, sync := s.sync.store w.ths.activeT.released w.ths.caus .rel })
          threads := { w.exec.threads with threads :=
            (w.exec.threads.threads.mapIdx fun i th =>
              if i = w.tid then th
              else if th.operation.any (fun op => op.obj == o) then th.wake else th) } } } :=
  releaseWrite_eq h

/-- `release_read_lock`: the reader is removed and the clock released; ONLY when the reader set
becomes empty the lock becomes free and the pending threads are woken (`Thread.wake`); if the lock is not
read-locked: "invalid internal loom state". -/
theorem RwLock.release_read (w : World) (o : Nat) (s : RwSt)
    (h : w.exec.objs[o]? = some (.rwlock s)) :
    (∀ rs, s.lock = some (.read rs) → rs.filter (· != w.tid) = [] →
      w.releaseRead o = .ok
        { w with exec := { w.exec with
            objs := w.exec.objs.set o (.rwlock { s with
              lock := none, sync := s.sync.store w.ths.activeT.released w.ths.caus .rel })
            threads := { w.exec.threads with threads :=
              (w.exec.threads.threads.mapIdx fun i th =>
                if i = w.tid then th
                else if th.operation.any (fun op => op.obj == o) then th.wake
                else th) } } }) ∧
    (∀ rs, s.lock = some (.read rs) → rs.filter (· != w.tid) ≠ [] →
      w.releaseRead o = .ok
        (w.setObj o (.rwlock { s with
          lock := some (.read (rs.filter (· != w.tid))),
          sync := s.sync.store w.ths.activeT.released w.ths.caus .rel }))) ∧
    ((∀ rs, s.lock ≠ some (.read rs)) → w.releaseRead o = .error .invalidRw) :=
  ⟨fun _ hl he => releaseRead_last h hl he, fun _ hl he => releaseRead_more h hl he,
    releaseRead_invalid h⟩

/-! ## 4. `Lock.handover_hb` -/

theorem MutexStep_spelled_out (m m' : MutexSt) :
    MutexStep m m' ↔
      (∃ (w w' : World) (o : Nat), w.exec.objs[o]? = some (.mutex m) ∧
        w'.exec.objs[o]? = some (.mutex m') ∧
        (w.releaseLock o = .ok w' ∨ ∃ b, w.postAcquire o = .ok (w', b))) ∨
      (∃ a, m' = { m with lastAccess := a }) := by
  constructor
  · intro h
    cases h with
    | release h hr h' => exact .inl ⟨_, _, _, h, h', .inl hr⟩
    | acquire h hr h' => exact .inl ⟨_, _, _, h, h', .inr ⟨_, hr⟩⟩
    | touch m a => exact .inr ⟨a, rfl⟩
  · rintro (⟨w, w', o, h, h', hr | ⟨b, hr⟩⟩ | ⟨a, rfl⟩)
    · exact .release h hr h'
    · exact .acquire h hr h'
    · exact .touch m a

theorem MutexSteps_spelled_out (m m' : MutexSt) :
    MutexSteps m m' ↔ m = m' ∨ ∃ m1, MutexSteps m m1 ∧ MutexStep m1 m' := by
  constructor
  · intro h
    cases h with
    | refl => exact .inl rfl
    | tail h s => exact .inr ⟨_, h, s⟩
  · rintro (rfl | ⟨m1, h, s⟩)
    · exact .refl _
    · exact .tail h s

/-- the three ingredients: (a) a release by the active thread puts its causality into the mutex's
clock; (b) every step of the mutex's life is monotone on that clock; (c) a successful
`post_acquire` puts the clock into the acquirer's causality. -/
theorem Lock.handover_parts :
    (∀ (w w' : World) (o : Nat) (m : MutexSt), w.exec.objs[o]? = some (.mutex m) →
      w.ths.isActive = true → w.releaseLock o = .ok w' →
      ∃ m', w'.exec.objs[o]? = some (.mutex m') ∧ m'.lock = none ∧ w.ths.caus.le m'.sync.hb) ∧
    (∀ m m', MutexSteps m m' → m.sync.hb.le m'.sync.hb) ∧
    (∀ (w w' : World) (o : Nat) (m : MutexSt), w.exec.objs[o]? = some (.mutex m) →
      w.tid < w.ths.threads.length → w.postAcquire o = .ok (w', true) →
      m.sync.hb.le w'.ths.caus ∧ w.ths.caus.le w'.ths.caus) := by
  refine ⟨?_, fun _ _ h => h.mono, fun w w' o m h hin hr => postAcquire_hb h hin hr⟩
  intro w w' o m h ha hr
  obtain ⟨m', h', hl, hle, _⟩ := releaseLock_hb h ha hr
  exact ⟨m', h', hl, hle⟩

/-- Hand-over ordering: thread A (active in ANY world `wA` holding the mutex as `m0`) releases;
LATER — after any number of further release / post-acquire steps on the same mutex object by any
threads in any worlds — thread B (active in ANY world `wB` holding the mutex as `m2`) acquires
successfully.  Then B's causality after the acquire is above A's causality at the release:
everything A did before the release happens-before everything B does after the acquire. -/
theorem Lock.handover_hb {wA wA' wB wB' : World} {oA oB : Nat} {m0 m1 m2 : MutexSt}
    (hA : wA.exec.objs[oA]? = some (.mutex m0)) (hact : wA.ths.isActive = true)
    (hrel : wA.releaseLock oA = .ok wA') (hA' : wA'.exec.objs[oA]? = some (.mutex m1))
    (hsteps : MutexSteps m1 m2)
    (hB : wB.exec.objs[oB]? = some (.mutex m2)) (hin : wB.tid < wB.ths.threads.length)
    (hacq : wB.postAcquire oB = .ok (wB', true)) :
    wA.ths.caus.le wB'.ths.caus :=
  mutex_handover hA hact hrel hA' hsteps hB hin hacq

/-- the same three ingredients for the rwlock operations -/
theorem RwLock.handover_parts :
    (∀ (w w' : World) (o : Nat) (s : RwSt), w.exec.objs[o]? = some (.rwlock s) →
      (w.releaseRead o = .ok w' ∨ w.releaseWrite o = .ok w') →
      ∃ s', w'.exec.objs[o]? = some (.rwlock s') ∧ w.ths.caus.le s'.sync.hb) ∧
    (∀ s s', RwSteps s s' → s.sync.hb.le s'.sync.hb) ∧
    (∀ (w w' : World) (o : Nat) (s : RwSt), w.exec.objs[o]? = some (.rwlock s) →
      w.tid < w.ths.threads.length →
      (w.postAcquireRead o = .ok (w', true) ∨ w.postAcquireWrite o = .ok (w', true)) →
      s.sync.hb.le w'.ths.caus ∧ w.ths.caus.le w'.ths.caus) := by
  refine ⟨?_, fun _ _ h => h.mono, ?_⟩
  · rintro w w' o s h (hr | hr)
    · obtain ⟨_, s', _, h', _, _, _, hle, _⟩ := releaseRead_hb h hr
      exact ⟨s', h', hle⟩
    · obtain ⟨s', h', _, hle, _⟩ := releaseWrite_hb h hr
      exact ⟨s', h', hle⟩
  · rintro w w' o s h hin (hr | hr)
    · exact postAcquireRead_hb h hin hr
    · exact postAcquireWrite_hb h hin hr

/-- Hand-over ordering through an rwlock: a release of a read or write guard by A, any steps, a
successful read or write acquisition by B: B's causality is above A's at the release. -/
theorem RwLock.handover_hb {wA wA' wB wB' : World} {oA oB : Nat} {s0 s1 s2 : RwSt}
    (hA : wA.exec.objs[oA]? = some (.rwlock s0))
    (hrel : wA.releaseRead oA = .ok wA' ∨ wA.releaseWrite oA = .ok wA')
    (hA' : wA'.exec.objs[oA]? = some (.rwlock s1))
    (hsteps : RwSteps s1 s2)
    (hB : wB.exec.objs[oB]? = some (.rwlock s2)) (hin : wB.tid < wB.ths.threads.length)
    (hacq : wB.postAcquireRead oB = .ok (wB', true) ∨ wB.postAcquireWrite oB = .ok (wB', true)) :
    wA.ths.caus.le wB'.ths.caus :=
  rw_handover hA hrel hA' hsteps hB hin hacq

/-! ## 5. correspondence with the reference semantics (`Spec/SC.lean`) -/

theorem abs_spelled_out (w : World) (i : Nat) :
    (∀ t, bodyOf w t = (w.ctlOf t).body) ∧
    absMutex w i = (match w.exec.objs[w.mutexObj i]? with
      | some (.mutex m) => m.lock.map (bodyOf w) | _ => none) ∧
    absRwWriter w i = (match w.exec.objs[w.rwObj i]? with
      | some (.rwlock s) => (writerOf s.lock).map (bodyOf w) | _ => none) ∧
    absRwReaders w i = (match w.exec.objs[w.rwObj i]? with
      | some (.rwlock s) => (readersOf s.lock).map (bodyOf w) | _ => []) :=
  ⟨fun _ => rfl, rfl, rfl, rfl⟩

theorem Rel_spelled_out (w : World) (s : SC.St) :
    (MutexRel w s ↔ ∀ mj, s.mutex.getD mj none = absMutex w mj) ∧
    (RwRel w s ↔ ∀ l, s.rwWriter.getD l none = absRwWriter w l ∧
      ∀ x, x ∈ s.rwReaders.getD l [] ↔ x ∈ absRwReaders w l) := ⟨Iff.rfl, Iff.rfl⟩

/-- `try_lock`: the twin returns `1` exactly when `SC.step` does
(`(s.mutex.getD m none).isNone`), and the successor mutex components correspond
(`s.mutex.set m (some t)` on success, unchanged otherwise).  `t = bodyOf w w.tid` is the DSL thread
run by the active loom thread. -/
theorem Lock.sim_tryLock {w : World} {c : TCtl} {mi : Nat} {m : MutexSt} {p : Prog} {s : SC.St}
    (h : w.exec.objs[w.mutexObj mi]? = some (.mutex m)) (hs : c.stage ≠ 0)
    (hrel : MutexRel w s) (hmi : mi < s.mutex.length)
    (hcv : (s.th (bodyOf w w.tid)).cvNotified = none)
    (hop : SC.opOf p s (bodyOf w w.tid) = some (.tryLock mi)) :
    ∃ w1 s1, w.postAcquire (w.mutexObj mi) = .ok (w1, (s.mutex.getD mi none).isNone) ∧
      w.runOp c (.tryLock mi) =
        .ok (w1.complete (.val (if (s.mutex.getD mi none).isNone then 1 else 0))) ∧
      SC.step p s (bodyOf w w.tid) =
        [s1.ret (bodyOf w w.tid) (.val (if (s.mutex.getD mi none).isNone then 1 else 0))] ∧
      MutexRel (w1.complete (.val (if (s.mutex.getD mi none).isNone then 1 else 0))) s1 :=
  tryLock_sim h hs hrel hmi hcv hop

/-- `lock`: stage 0 blocks exactly when `SC.enabled` is false; stage 1 on a free mutex (the only
case in which the reference semantics lets the thread step) yields corresponding successors
(`s.mutex.set m (some t)`); on a held mutex the twin raises `expectedLock`. -/
theorem Lock.sim_lock {w : World} {c : TCtl} {mi : Nat} {m : MutexSt} {p : Prog} {s : SC.St}
    (h : w.exec.objs[w.mutexObj mi]? = some (.mutex m))
    (hrel : MutexRel w s) (hmi : mi < s.mutex.length)
    (hv : s.verdict = none) (hst : (s.th (bodyOf w w.tid)).started = true)
    (hfin : (s.th (bodyOf w w.tid)).finished = false)
    (hw : (s.th (bodyOf w w.tid)).cvWaiting = none)
    (hcv : (s.th (bodyOf w w.tid)).cvNotified = none)
    (hop : SC.opOf p s (bodyOf w w.tid) = some (.lock mi)) :
    SC.enabled p s (bodyOf w w.tid) = (s.mutex.getD mi none).isNone ∧
    (c.stage = 0 → w.runOp c (.lock mi) =
      (w.setStage 1).branch (w.mutexObj mi) .opaque
        (block := !(SC.enabled p s (bodyOf w w.tid))) (wait := true)) ∧
    (c.stage ≠ 0 →
      ((s.mutex.getD mi none).isNone = false → w.runOp c (.lock mi) = .error .expectedLock) ∧
      ((s.mutex.getD mi none).isNone = true →
        ∃ (w1 : World) (s1 : SC.St), w.runOp c (.lock mi) = .ok (w1.complete .unit) ∧
          SC.step p s (bodyOf w w.tid) = [s1.ret (bodyOf w w.tid) .unit] ∧
          MutexRel (w1.complete .unit) s1)) :=
  ⟨SC_enabled_lock hv hst hfin hw hcv hop,
    fun hs => lock_block_iff_disabled h hs hrel hv hst hfin hw hcv hop,
    fun hs => lock_sim h hs hrel hmi hcv hop⟩

/-- `unlock`: corresponding successors (`s.mutex.set m none`). -/
theorem Lock.sim_unlock {w : World} {c : TCtl} {mi : Nat} {m : MutexSt} {p : Prog} {s : SC.St}
    (h : w.exec.objs[w.mutexObj mi]? = some (.mutex m)) (ha : w.ths.isActive = true)
    (hrel : MutexRel w s) (hmi : mi < s.mutex.length)
    (hcv : (s.th (bodyOf w w.tid)).cvNotified = none)
    (hop : SC.opOf p s (bodyOf w w.tid) = some (.unlock mi)) :
    ∃ w1 s1, w.releaseLock (w.mutexObj mi) = .ok w1 ∧
      w.runOp c (.unlock mi) = .ok (w1.complete .unit) ∧
      SC.step p s (bodyOf w w.tid) = [s1.ret (bodyOf w w.tid) .unit] ∧
      MutexRel (w1.complete .unit) s1 ∧ absMutex (w1.complete .unit) mi = none :=
  unlock_sim h ha hrel hmi hcv hop

/-- `try_read`: same result as `SC.step` (`(s.rwWriter.getD l none).isNone`), corresponding
successors (the reader SET gains `t`). -/
theorem RwLock.sim_tryRead {w : World} {c : TCtl} {li : Nat} {st : RwSt} {p : Prog} {s : SC.St}
    (h : w.exec.objs[w.rwObj li]? = some (.rwlock st)) (hs : c.stage ≠ 0)
    (hrel : RwRel w s) (hli : li < s.rwReaders.length)
    (hcv : (s.th (bodyOf w w.tid)).cvNotified = none)
    (hop : SC.opOf p s (bodyOf w w.tid) = some (.tryRead li)) :
    ∃ (w1 : World) (s1 : SC.St),
      w.postAcquireRead (w.rwObj li) = .ok (w1, (s.rwWriter.getD li none).isNone) ∧
      w.runOp c (.tryRead li) =
        .ok (w1.complete (.val (if (s.rwWriter.getD li none).isNone then 1 else 0))) ∧
      SC.step p s (bodyOf w w.tid) =
        [s1.ret (bodyOf w w.tid) (.val (if (s.rwWriter.getD li none).isNone then 1 else 0))] ∧
      RwRel (w1.complete (.val (if (s.rwWriter.getD li none).isNone then 1 else 0))) s1 :=
  tryRead_sim h hs hrel hli hcv hop

/-- `try_write`: same result as `SC.step` (no writer and no reader), corresponding successors. -/
theorem RwLock.sim_tryWrite {w : World} {c : TCtl} {li : Nat} {st : RwSt} {p : Prog} {s : SC.St}
    (h : w.exec.objs[w.rwObj li]? = some (.rwlock st)) (hs : c.stage ≠ 0) (hwf : RwWF st)
    (hrel : RwRel w s) (hli : li < s.rwWriter.length)
    (hcv : (s.th (bodyOf w w.tid)).cvNotified = none)
    (hop : SC.opOf p s (bodyOf w w.tid) = some (.tryWrite li)) :
    ∃ (w1 : World) (s1 : SC.St),
      w.postAcquireWrite (w.rwObj li) = .ok (w1,
        ((s.rwWriter.getD li none).isNone && (s.rwReaders.getD li []).isEmpty)) ∧
      w.runOp c (.tryWrite li) = .ok (w1.complete (.val
        (if ((s.rwWriter.getD li none).isNone && (s.rwReaders.getD li []).isEmpty) then 1 else 0))) ∧
      SC.step p s (bodyOf w w.tid) = [s1.ret (bodyOf w w.tid) (.val
        (if ((s.rwWriter.getD li none).isNone && (s.rwReaders.getD li []).isEmpty) then 1 else 0))] ∧
      RwRel (w1.complete (.val
        (if ((s.rwWriter.getD li none).isNone && (s.rwReaders.getD li []).isEmpty) then 1 else 0))) s1 :=
  tryWrite_sim h hs hwf hrel hli hcv hop

/-- `read` / `write`, first stage: blocked exactly when `SC.enabled` is false. -/
theorem RwLock.sim_blocking {w : World} {c : TCtl} {li : Nat} {st : RwSt} {p : Prog} {s : SC.St}
    (h : w.exec.objs[w.rwObj li]? = some (.rwlock st)) (hs : c.stage = 0) (hwf : RwWF st)
    (hrel : RwRel w s)
    (hv : s.verdict = none) (hst : (s.th (bodyOf w w.tid)).started = true)
    (hfin : (s.th (bodyOf w w.tid)).finished = false)
    (hw : (s.th (bodyOf w w.tid)).cvWaiting = none)
    (hcv : (s.th (bodyOf w w.tid)).cvNotified = none) :
    (SC.opOf p s (bodyOf w w.tid) = some (.read li) →
      w.runOp c (.read li) = (w.setStage 1).branch (w.rwObj li) .rwRead
        (block := !(SC.enabled p s (bodyOf w w.tid))) (wait := true)) ∧
    (SC.opOf p s (bodyOf w w.tid) = some (.write li) →
      w.runOp c (.write li) = (w.setStage 1).branch (w.rwObj li) .rwWrite
        (block := !(SC.enabled p s (bodyOf w w.tid))) (wait := true)) :=
  ⟨fun hop => read_block_iff_disabled h hs hrel hv hst hfin hw hcv hop,
    fun hop => write_block_iff_disabled h hs hwf hrel hv hst hfin hw hcv hop⟩

/-- `unwrite` (no reader, as when the caller holds the write guard): corresponding successors
(`s.rwWriter.set l none`).  `unread`: the twin's reader list after the release is `List.erase` of
the list before — the operation `SC.step` applies to its reader list. -/
theorem RwLock.sim_release {w : World} {c : TCtl} {li : Nat} {st : RwSt} {p : Prog} {s : SC.St}
    (h : w.exec.objs[w.rwObj li]? = some (.rwlock st)) :
    (readersOf st.lock = [] → RwRel w s → li < s.rwWriter.length →
      (s.th (bodyOf w w.tid)).cvNotified = none →
      SC.opOf p s (bodyOf w w.tid) = some (.unwrite li) →
      ∃ (w1 : World) (s1 : SC.St), w.releaseWrite (w.rwObj li) = .ok w1 ∧
        w.runOp c (.unwrite li) = .ok (w1.complete .unit) ∧
        SC.step p s (bodyOf w w.tid) = [s1.ret (bodyOf w w.tid) .unit] ∧
        RwRel (w1.complete .unit) s1 ∧ absRwWriter (w1.complete .unit) li = none) ∧
    (∀ w', RwWF st → w.releaseRead (w.rwObj li) = .ok w' →
      ∃ st', w'.exec.objs[w.rwObj li]? = some (.rwlock st') ∧ writerOf st'.lock = none ∧
        readersOf st'.lock = (readersOf st.lock).erase w.tid ∧ RwWF st') :=
  ⟨fun hnr hrel hli hcv hop => unwrite_sim h hnr hrel hli hcv hop,
    fun _ hwf hr => unread_erase h hwf hr⟩

/-! ## 6. wake-exactness of the acquisitions: finding F9, repaired -/

theorem NotWaiting_spelled_out (th : Thread) :
    NotWaiting th ↔ ∀ op, th.operation = some op → op.blocking = false := Iff.rfl

/-- `Lock.never_blocks_try_acquirers` (finding F9, repaired).  In ANY world, for ANY of the three acquisitions
(`Mutex::post_acquire`, `post_acquire_read_lock`, `post_acquire_write_lock`) on ANY object, whatever the
outcome: a thread other than the caller that is NOT WAITING — it has no pending operation, or its pending
operation is an attempt (`blocking = false`: `try_lock`, `try_read`, `try_write`, or any operation of another
kind) — keeps its WHOLE entry (state, token, clocks, …): it is never blocked.  The exact table, for every other
thread: it is `set_blocked` iff the acquisition succeeded and its pending operation names the object and waits
(for a read acquisition: and is a write). -/
theorem Lock.never_blocks_try_acquirers (w w' : World) (o : Nat) (b : Bool) (i : Nat) (hi : i ≠ w.tid) :
    (NotWaiting (w.ths.get i) →
      (w.postAcquire o = .ok (w', b) → w'.ths.get i = w.ths.get i) ∧
      (w.postAcquireRead o = .ok (w', b) → w'.ths.get i = w.ths.get i) ∧
      (w.postAcquireWrite o = .ok (w', b) → w'.ths.get i = w.ths.get i)) ∧
    (w.postAcquire o = .ok (w', b) → w'.ths.get i =
      if b && (w.ths.get i).operation.any (fun op => op.obj == o && op.blocking)
      then (w.ths.get i).setBlocked else w.ths.get i) ∧
    (w.postAcquireRead o = .ok (w', b) → w'.ths.get i =
      if b && (w.ths.get i).operation.any (fun op => op.obj == o && op.action == .rwWrite && op.blocking)
      then (w.ths.get i).setBlocked else w.ths.get i) ∧
    (w.postAcquireWrite o = .ok (w', b) → w'.ths.get i =
      if b && (w.ths.get i).operation.any (fun op => op.obj == o && op.blocking)
      then (w.ths.get i).setBlocked else w.ths.get i) :=
  ⟨fun hn => try_never_blocked hi hn, fun h => postAcquire_get h i hi,
    fun h => postAcquireRead_get h i hi, fun h => postAcquireWrite_get h i hi⟩

/-- … and a thread that WAITS for the lock (`blocking = true`) is blocked by a successful acquisition: by
`post_acquire` and `post_acquire_write_lock` always, by `post_acquire_read_lock` iff it waits to WRITE (waiting
readers coexist with the new reader). -/
theorem Lock.blocks_waiters (w w' : World) (o : Nat) (i : Nat) (op : Operation) (hi : i ≠ w.tid)
    (hop : (w.ths.get i).operation = some op) (ho : op.obj = o) (hb : op.blocking = true) :
    (w.postAcquire o = .ok (w', true) → w'.ths.get i = (w.ths.get i).setBlocked) ∧
    (w.postAcquireWrite o = .ok (w', true) → w'.ths.get i = (w.ths.get i).setBlocked) ∧
    (op.action = .rwWrite → w.postAcquireRead o = .ok (w', true) →
      w'.ths.get i = (w.ths.get i).setBlocked) ∧
    (op.action ≠ .rwWrite → w.postAcquireRead o = .ok (w', true) → w'.ths.get i = w.ths.get i) :=
  waiter_blocked hi hop ho hb

/-- What the branch points record.  `World.branch obj act blk wt` leaves `⟨obj, act, wt⟩` as the caller's
pending operation (`Exec.schedule` never touches the field) and nobody else's pending operation changes; the
first stage of `try_lock` / `try_read` / `try_write` branches with `wt = false`, that of `lock` / `read` /
`write` with `wt = true` (whether or not it blocks). -/
theorem Lock.branch_records :
    (∀ (w w' : World) (obj : Nat) (act : Action) (blk wt : Bool), w.branch obj act blk wt = .ok w' →
      (w.tid < w.ths.threads.length → (w'.ths.get w.tid).operation = some ⟨obj, act, wt⟩) ∧
      (∀ i, i ≠ w.tid → (w'.ths.get i).operation = (w.ths.get i).operation)) ∧
    (∀ (w : World) (c : TCtl) (i : Nat), c.stage = 0 →
      w.runOp c (.tryLock i) = (w.setStage 1).branch (w.mutexObj i) .opaque false false ∧
      w.runOp c (.tryRead i) = (w.setStage 1).branch (w.rwObj i) .rwRead false false ∧
      w.runOp c (.tryWrite i) = (w.setStage 1).branch (w.rwObj i) .rwWrite false false ∧
      (∀ m, w.exec.objs[w.mutexObj i]? = some (.mutex m) →
        w.runOp c (.lock i) = (w.setStage 1).branch (w.mutexObj i) .opaque m.lock.isSome true) ∧
      (∀ s, w.exec.objs[w.rwObj i]? = some (.rwlock s) →
        w.runOp c (.read i) = (w.setStage 1).branch (w.rwObj i) .rwRead
          (match s.lock with | some (.write _) => true | _ => false) true ∧
        w.runOp c (.write i) = (w.setStage 1).branch (w.rwObj i) .rwWrite s.lock.isSome true)) := by
  refine ⟨fun w w' obj act blk wt h => C07.branch_records h, fun w c i hs => ⟨?_, ?_, ?_, ?_, ?_⟩⟩
  · rw [runOp_tryLock]; simp [hs]
  · rw [runOp_tryRead]; simp [hs]
  · rw [runOp_tryWrite]; simp [hs]
  · intro m h
    rw [runOp_lock]; simp only [hs, getMutex_of h, bind, Except.bind]; rfl
  · intro s h
    constructor
    · rw [runOp_read]; simp only [hs, getRw_of h, bind, Except.bind]; rfl
    · rw [runOp_write]; simp only [hs, getRw_of h, bind, Except.bind]; rfl

/-- Finding F9, repaired, concretely (kernel-checked; the refuted form was `Lock.blocks_try_acquirers`).
`Ex.wF9s`: the first stage of `try_lock` records `⟨mutex, opaque, false⟩`, that of `lock`
`⟨mutex, opaque, true⟩`.  `Ex.wF9`: thread 1 is runnable with a pending `try_lock`; thread 0's `try_lock` then
succeeds (result `1`) and thread 1 STAYS `runnable` — its whole entry is unchanged — exactly as in the
corresponding state of the reference semantics (`Ex.sF9`, mutex held by thread 0), where thread 1, being at a
`try_lock`, is enabled; scheduled, its own `try_lock` returns `0` while thread 0 holds the mutex (`Ex.wF9run`).
`Ex.wF9w`: the same state with thread 1 waiting in `lock`: the acquisition blocks it. -/
theorem Lock.try_acquirer_keeps_running :
    ((Ex.wF9s.runOp { body := 1 } (.tryLock 0)).toOption.map (fun w' => (w'.ths.get 1).operation) =
        some (some ⟨0, .opaque, false⟩) ∧
      (Ex.wF9s.runOp { body := 1 } (.lock 0)).toOption.map (fun w' => (w'.ths.get 1).operation) =
        some (some ⟨0, .opaque, true⟩)) ∧
    ((Ex.wF9.ths.get 1).state = .runnable ∧
      (Ex.wF9.ths.get 1).operation = some ⟨Ex.wF9.mutexObj 0, .opaque, false⟩) ∧
    (Ex.wF9.runOp { stage := 1 } (.tryLock 0)).toOption.map
      (fun w' => ((w'.ths.get 1).state, decide (w'.ths.get 1 = Ex.wF9.ths.get 1),
        w'.events.head?.map (·.ret))) =
      some (.runnable, true, some (.val 1)) ∧
    Ex.wF9run.toOption.map (fun w' => (w'.events.head?.map (·.ret),
      (w'.getMutex 0).toOption.map (·.lock), (w'.ths.get 1).state)) =
      some (some (.val 0), some (some 0), .runnable) ∧
    (SC.enabled Ex.wF9.prog Ex.sF9 1 = true ∧
      SC.opOf Ex.wF9.prog Ex.sF9 1 = some (.tryLock 0) ∧
      Ex.sF9.mutex = [some 0]) ∧
    (Ex.wF9w.runOp { stage := 1 } (.tryLock 0)).toOption.map
      (fun w' => ((w'.ths.get 1).state, (w'.ths.get 1).parked, w'.events.head?.map (·.ret))) =
      some (.blocked, false, some (.val 1)) :=
  ⟨Ex.F9_records, Ex.F9_before, Ex.F9_after, Ex.F9_later_try_fails,
    ⟨Ex.F9_reference.1, Ex.F9_reference.2, rfl⟩, Ex.F9_waiter_blocked⟩

/-- the reference semantics never disables a `try_lock` (in any state in which the thread can run
at all) -/
theorem Lock.reference_never_disables_tryLock {p : Prog} {s : SC.St} {t mi : Nat}
    (hv : s.verdict = none) (hst : (s.th t).started = true) (hfin : (s.th t).finished = false)
    (hw : (s.th t).cvWaiting = none) (hcv : (s.th t).cvNotified = none)
    (hop : SC.opOf p s t = some (.tryLock mi)) : SC.enabled p s t = true :=
  SC_enabled_tryLock hv hst hfin hw hcv hop

/-! ## 7. non-vacuity -/

/-- hand-over, concretely: in `Ex.wF18` thread 0 (causality `[2,0,0,0,0]`) holds the mutex and
releases it; thread 1 (made active) then acquires it successfully and ends with causality
`[2,0,0,0,0] ⊔ its own` — the hypotheses of `Lock.handover_hb` are satisfiable. -/
theorem Lock.handover_example :
    Ex.wF18.ths.caus = Ex.vv [2, 0, 0, 0, 0] ∧
    (Ex.wF18.releaseLock 0).toOption.bind (fun wA' =>
      ((wA'.setThs { wA'.ths with active := some 1 }).postAcquire 0).toOption.map
        (fun r => (r.2, r.1.ths.caus))) = some (true, Ex.vv [2, 0, 0, 0, 0]) := by
  constructor <;> decide +kernel

/-- both outcomes of `try_lock` occur: on the free mutex of `Ex.wF9` it returns 1, on the held
mutex of `Ex.wF5'` (thread 1 active, mutex held by thread 0) it returns 0 and changes no lock. -/
theorem Lock.tryLock_examples :
    (Ex.wF9.runOp { stage := 1 } (.tryLock 0)).toOption.map
      (fun w' => (w'.events.head?.map (·.ret), (w'.getMutex 0).toOption.map (·.lock))) =
      some (some (.val 1), some (some 0)) ∧
    (Ex.wF5'.runOp { body := 1, stage := 1 } (.tryLock 0)).toOption.map
      (fun w' => (w'.events.head?.map (·.ret), (w'.getMutex 0).toOption.map (·.lock))) =
      some (some (.val 0), some (some 0)) := by
  constructor <;> decide +kernel

end LoomVerif

/-
REFINEMENT of the reference interleaving semantics by the twin, for the FUTURES fragment of the DSL
(property C20 "block_on and AtomicWaker never lose a wake-up").

Every run of the twin (`World.runLoop` from `World.init`) that ends without a panic and satisfies the run-level
hypothesis `okRun4` is an execution of the reference semantics `Spec/SC.lean`: there is a reference execution from
`SC.init prog` — each step `SC.step` of a thread that is `SC.enabled` (in particular `blockOn` in phase 4 only when the
call's `notified` flag is set), or the one modelled spurious return `SC.spurious` of the `Notify` inside a
`block_on` — to a state related (`R4`) to the final world: every twin thread has recorded exactly the results of the
reference thread of its body (the result of `blockOn`: 7, or 0 for a poll-once that found the future pending, is the
reference's), every future has the reference's registration state, flag and spurious budget.

Fragment: `spawn`, `join`, `ifEq`, the end of a thread, the flag store `Op.atom x (.store 1 .rel)`, `blockOn f mode` for the
modes 0 (waker slot), 1 (`AtomicWaker`, registration taken back on return), 3 (registration stays), 4 (poll once),
5 (self-waking future), `wake`, `wakeRef`, `wakeQ`, `dropWaker`, `awWake`, `awTake`.  NOT covered: mode 2 (Relaxed
payload) and `fetch_add` on a flag, `wClone`, `wakeH` (the `held` clones).

THE RELATION `R4 w s := RV (view4 w) (data4 s)` (`Proofs/Refine4Rel.lean`).  `data4` is the data projection of a
reference state (no clocks): per thread `pc`, `started`, `finished`, `rets`, `phase`, `held`; `atoms`; per future `slot`,
`notified`, `spurUsed`, `wakers`, `polled`, `gen`, `slotGen`; the verdict.  `view4` is what the relation reads of a world.
Per future `f` (`GS`, `GC`, `GA`, `GW`):
* a waker clone is registered (`FutSt.slot` for the waker slot, `FutSt.awWaker` for the `AtomicWaker`) ⟺ `slot`;
* it belongs to the current call ⟺ `slotGen = gen` (the slot: always; the `AtomicWaker`: `awNotify = notify`);
* for a call in progress: the call's own `rt::Notify` exists, its `did_spur` ⟺ `spurUsed`, and
  `notified` ⟺ its flag is raised OR a notification to it is in flight (`pendN`);
* the flag atomic: every store to it stores 1, and `atoms[f] = 1` ⟺ more stores have been performed than are still
  in flight (`inflS`, `nInfl`: between the store stage of a wake and the stage where the reference performs it);
  the LATEST value of the twin's atomic is 1 iff a store has been performed at all;
* the `AtomicWaker`'s mutex is free except while the registering call drops the waker it has replaced.
NOT in the relation: `wakers` ⟷ the `Arc`'s `ref_cnt` (the simulation does not need it; `Waker.refcount_balance`,
`Waker.dropWaker_drops_the_waker_taken` of `Props/C20.lean` have the one-step laws.  The defect of the twin that stood
in the way — its `dropWaker` did not always drop the waker it took, old finding
`Counter.dropWaker_drops_the_current_arc` — is REPAIRED: `Counter.dropWaker_drops_the_waker_it_took`).

WHERE THE REFERENCE STEPS.  The reference performs `wake f` in ONE step (store the flag, take the registered waker,
notify its call, drop it); the twin in five stages with a branch point before each.  The reference step is taken at the
stage that takes the waker under the mutex (stage 2).  Before it the flag store is "in flight" (stage 1 → 2), after it
the notification is "in flight" (stage 2 → 3) and the reference thread is AHEAD of the twin thread: it has already
recorded the result the twin records at its last stage (`aheadOf`).  Likewise for the other wakers and for the return
stages of `blockOn`.  Consequence (FINDING, `Counter.event_order`): the order in which the twin LOGS the completions
(`World.events`) is not the order of the reference steps — the relation is about the results per thread.

HYPOTHESES.
* `WF4 prog` (decidable): a main body; only fragment operations with declared futures (`f < nFutures ≤ nAtomics`);
  each body spawned at most once; every future is used in ONE way by the whole text (`KindsOk`: slot / `AtomicWaker`
  / self-waking — the reference keeps one registration flag per future, the twin two); all `blockOn` of a future are
  in one body (`BlockOnce`: the calls are sequential).
* `FreshExec exec`; any path.
* `okRun4 fuel w0 = true` (computable by running the twin): at every step `resumeOk4`:
  (a) the flag load of a poll READS THE VALUE THE REFERENCE READS.  That value is computed from the twin's world
      (`refFlag`): every store to a flag stores 1, and the reference performs the store of a wake at the stage that
      takes the waker, so its flag is 1 iff more stores have been performed than are still in flight.  The clause
      fails in two ways.
      FINDING (`Counter.stale_read`): the twin's Acquire load may read the initial 0 although a `wake` has stored
      1 and COMPLETED, when the store is not ordered before the load by happens-before; the reference's flag reads
      are sequentially consistent, so this poll has no counterpart.  (The call still returns 7: it registers, and
      the slot's mutex then orders the store before the second poll.  `Counter.staleOrdered` is the test "a poll
      reads a stale value although the most recent store is ordered before it by happens-before": it never holds in
      the 303 iterations of the exploration of `Example.wakeProg` (`#eval`, not kernel-checked: too slow); 157 of
      them satisfy `okIter4`, 59 contain a poll that reads 0 where the reference reads 1, 87 one that reads 1 where
      the reference reads 0; `block_on` returns 7 in all of them.)
      `Counter.store_window`: the poll reads the 1 of a store that is in flight: the reference, which performs the
      whole `wake` in one step at the take, has not performed it yet.
  (b) the second half of the `Notify::wait` of a `block_on` does not consume the notification while ANOTHER
      notification to the same `Notify` is still in flight (`Counter.pending_consume`).
  Each of them excludes runs whose per-thread results are still those of a reference execution; they are what a
  FORWARD simulation against a reference with atomic `wake` and sequentially consistent flags needs.

Headlines: `Refine4.step_simulation`, `Refine4.init_related`, `Refine4.run_is_reference_execution`,
`Refine4.runIter_is_reference_execution`, `Refine4.related_results`, `Refine4.related_results_ahead`,
`Refine4.no_lost_wakeup`.
-/
import LoomVerif.Proofs.Refine4Run
import LoomVerif.Oracle.SCEnum
import LoomVerif.Model.Check

namespace LoomVerif
namespace Refine4
open Refine Refine2

/-! ## 1. the relation is a relation between a world and the DATA of a reference state -/

theorem R4_is_data (w : World) (s : SC.St) : R4 w s ↔ RV (view4 w) (data4 s) := Iff.rfl

/-- two reference states with the same data are related to the same worlds -/
theorem R4_congr {w : World} {s s' : SC.St} (h : data4 s = data4 s') : R4 w s ↔ R4 w s' := by
  unfold R4; rw [h]

/-! ## 2. one-step simulation -/

/-- **One-step simulation.**  `w` is related to the reference state `s`, its active thread exists and `resumeOk4`
holds; one stage of that thread succeeds.  Then the program is kept, the new active thread (if any) is in the thread
table, and the reference semantics takes ZERO OR MORE steps — each `SC.step` of a thread that is `SC.enabled`, or
`SC.spurious` (`SCExec2`) — to a state related to the new world.  (Zero steps: branch points, the stages before /
after the reference step of an operation.  Two steps: a flag poll that finds the future pending and whose
`Notify::wait` returns spuriously.) -/
theorem step_simulation {w w' : World} {s : SC.St} (hwf : WF4 w.prog) (hR : R4 w s)
    (hact : w.tid < w.ctl.length) (hok : resumeOk4 w = true) (h : w.stepActive = .ok w') :
    w'.prog = w.prog ∧ (∃ s', SCExec2 w.prog s s' ∧ R4 w' s') ∧ InRange w' :=
  step_sim4 hwf hR hact hok h

/-! ## 3. runs -/

/-- the initial world is related to the initial reference state -/
theorem init_related {prog : Prog} {exec : Exec} {w0 : World} (hwf : WF4 prog) (hfresh : FreshExec exec)
    (hinit : World.init prog exec = .ok w0) : R4 w0 (SC.init prog) :=
  (init_R4 hwf hfresh hinit).1

/-- **Every complete run of the twin is an execution of the reference.**  From ANY execution record with a fresh
thread table (any path to replay, hence any schedule, any choice of the stores the loads read, any spurious
returns), if the run of the twin ends without a panic and satisfies `okRun4`, then there is an execution of
`Spec/SC.lean` from `SC.init prog` (`SCExec2`: steps of enabled threads and spurious returns) to a state without
verdict that is related to the final world. -/
theorem run_is_reference_execution {prog : Prog} {exec : Exec} {w0 w : World} {fuel : Nat}
    (hwf : WF4 prog) (hfresh : FreshExec exec) (hinit : World.init prog exec = .ok w0)
    (hok : okRun4 fuel w0 = true) (hrun : World.runLoop fuel w0 = (w, none)) :
    ∃ s, SCExec2 prog (SC.init prog) s ∧ s.verdict = none ∧ R4 w s := by
  obtain ⟨hR, hp⟩ := init_R4 hwf hfresh hinit
  obtain ⟨s, h1, h2, _⟩ := runLoop_sim4 prog (SC.init prog) hwf fuel w0 w _ hp hR
    (init_inRange hfresh hinit) (.nil _) hok hrun
  exact ⟨s, h1, h2.verdict, h2⟩

/-- `okRun4` for `runIter` -/
def okIter4 (prog : Prog) (exec : Exec) (fuel : Nat := 200000) : Bool :=
  match World.init prog exec with
  | .ok w0 => okRun4 fuel w0
  | .error _ => false

/-- the same for `runIter`: an iteration that ends without a panic (a leak report of `check_for_leaks` included: it
comes after the run) -/
theorem runIter_is_reference_execution {prog : Prog} {exec : Exec} {fuel : Nat}
    (hwf : WF4 prog) (hfresh : FreshExec exec) (hok : okIter4 prog exec fuel = true)
    {w0 w : World} (hinit : World.init prog exec = .ok w0) (hrun : World.runLoop fuel w0 = (w, none)) :
    (runIter prog exec fuel).events = w.events.reverse ∧
    ∃ s, SCExec2 prog (SC.init prog) s ∧ s.verdict = none ∧ R4 w s := by
  have hok' : okRun4 fuel w0 = true := by
    unfold okIter4 at hok; rw [hinit] at hok; exact hok
  refine ⟨?_, run_is_reference_execution hwf hfresh hinit hok' hrun⟩
  unfold runIter
  rw [hinit]; simp only; rw [hrun]; simp only
  split <;> rfl

/-- **in a related state every twin thread has the results of its reference thread** — unless the reference
thread is one step ahead (see `related_results_ahead`): the same `pc`, the same recorded results (the result of
`blockOn` among them), the phase of the reference `blockOn` its stage stands for, finished ⟺ the epilogue has
notified -/
theorem related_results {w : World} {s : SC.St} (hR : R4 w s) (i : Nat) (hi : i < w.ctl.length)
    (hah : aheadOf (opOfCtl w.prog (w.ctlOf i)) (w.ctlOf i).stage = none) :
    (s.th (w.ctlOf i).body).rets = (w.ctlOf i).results ∧ (s.th (w.ctlOf i).body).pc = (w.ctlOf i).pc ∧
    (s.th (w.ctlOf i).body).phase = phaseOf (opOfCtl w.prog (w.ctlOf i)) (w.ctlOf i).stage ∧
    ((s.th (w.ctlOf i).body).finished = true ↔ 10 ≤ (w.ctlOf i).fin) :=
  hR.results i hi hah

/-- … in particular a thread whose body is exhausted -/
theorem related_results_done {w : World} {s : SC.St} (hR : R4 w s) (i : Nat) (hi : i < w.ctl.length)
    (hfin : (w.ctlOf i).fin ≠ 0) :
    (s.th (w.ctlOf i).body).rets = (w.ctlOf i).results ∧ (s.th (w.ctlOf i).body).pc = (w.ctlOf i).pc :=
  hR.results_done i hi hfin

/-- … and when the reference thread is ahead (the twin thread is in a stage after the reference step of its
operation: stages 3, 4 of `wake` / `awWake`, 5 of `wakeRef` / `wakeQ`, 2 of `dropWaker` / `awTake`, 41 / 43 / 46 of
`blockOn`) it has recorded one more result: the one the twin thread is about to record -/
theorem related_results_ahead {w : World} {s : SC.St} (hR : R4 w s) (i : Nat) (hi : i < w.ctl.length) {r : Ret}
    (hah : aheadOf (opOfCtl w.prog (w.ctlOf i)) (w.ctlOf i).stage = some r) :
    (s.th (w.ctlOf i).body).rets = ((w.ctlOf i).pc, r) :: (w.ctlOf i).results ∧
    (s.th (w.ctlOf i).body).pc = (w.ctlOf i).pc + 1 :=
  hR.results_ahead i hi hah

/-- the stages in which the reference thread is ahead, and the result it has recorded; never at stage 0 (the start
of an operation), hence never at the end of a thread -/
theorem aheadOf_table (f m : Nat) :
    aheadOf (some (.blockOn f m)) 41 = some (.val 0) ∧ aheadOf (some (.blockOn f m)) 43 = some (.val 7) ∧
    aheadOf (some (.blockOn f m)) 46 = some (.val 7) ∧
    aheadOf (some (.wake f)) 3 = some .unit ∧ aheadOf (some (.wake f)) 4 = some .unit ∧
    aheadOf (some (.awWake f)) 3 = some .unit ∧ aheadOf (some (.awWake f)) 4 = some .unit ∧
    aheadOf (some (.wakeRef f)) 5 = some .unit ∧ aheadOf (some (.wakeQ f)) 5 = some .unit ∧
    aheadOf (some (.dropWaker f)) 2 = some .unit ∧ aheadOf (some (.awTake f)) 2 = some .unit ∧
    (∀ o, aheadOf o 0 = none) ∧ (∀ st, aheadOf none st = none) :=
  ⟨rfl, rfl, rfl, rfl, rfl, rfl, rfl, rfl, rfl, rfl, rfl, aheadOf_zero, fun _ => rfl⟩

/-! ## 4. no wake-up is lost -/

/-- **No wake-up is lost.**  In a related pair, a twin thread in the second half of the `Notify::wait` of
`blockOn f mode` (stage 16; 53 for a self-waking future) has its reference thread in phase 4; the call's
`rt::Notify` is an object of the twin; the reference's `notified` flag of the call is set IF AND ONLY IF the flag
of that object is raised or a thread that has already taken the reference step of its wake is about to raise it
(`pendN`: such a thread stands at a branch point and is runnable); and if the flag is not raised and no
notification is in flight then the reference thread is NOT `SC.enabled`: the reference is blocked exactly where the
twin is (when, moreover, no thread of the twin can run, no step of that reference thread is possible: the reference
has not been notified either). -/
theorem no_lost_wakeup {w : World} {s : SC.St} (hwf : WF4 w.prog) (hR : R4 w s) (i : Nat)
    (hi : i < w.ctl.length) {f mode : Nat} (hop : opOfCtl w.prog (w.ctlOf i) = some (.blockOn f mode))
    (hst : (w.ctlOf i).stage = 16 ∨ (w.ctlOf i).stage = 53) :
    (s.th (w.ctlOf i).body).phase = 4 ∧
    ∃ nt ds, (view4 w).objs[(w.futs.getD f {}).notify]? = some (.notify true nt ds) ∧
      ((s.futs.getD f {}).notified = true ↔
        (nt = true ∨ ∃ j, j < w.ctl.length ∧ pendN w.prog (w.ctlOf j) = some (w.futs.getD f {}).notify)) ∧
      (nt = false → (∀ j, j < w.ctl.length → pendN w.prog (w.ctlOf j) ≠ some (w.futs.getD f {}).notify) →
        SC.enabled w.prog s (w.ctlOf i).body = false) :=
  hR.no_lost_wakeup hwf i hi hop hst

/-! ## 5. examples (`decide +kernel`) -/

/-- the world a run ends in, and the panic that ended it (if any) -/
def finalW (prog : Prog) (exec : Exec) (fuel : Nat := 200000) : World × Option Panic :=
  match World.init prog exec with
  | .ok w0 => World.runLoop fuel w0
  | .error e => (default, some e)

/-- the theorem for a concrete run: the hypotheses are computed -/
theorem finalW_is_reference_execution {prog : Prog} {exec : Exec} {fuel : Nat} (hwf : WF4 prog)
    (hfresh : FreshExec exec) (hok : okIter4 prog exec fuel = true) (hnp : (finalW prog exec fuel).2 = none) :
    ∃ s, SCExec2 prog (SC.init prog) s ∧ s.verdict = none ∧ R4 (finalW prog exec fuel).1 s := by
  unfold finalW at hnp ⊢
  unfold okIter4 at hok
  cases hi : World.init prog exec with
  | error e => rw [hi] at hnp; cases hnp
  | ok w0 =>
    rw [hi] at hnp hok
    simp only at hnp hok ⊢
    cases hr : World.runLoop fuel w0 with
    | mk w r =>
      rw [hr] at hnp
      simp only at hnp
      subst hnp
      exact run_is_reference_execution hwf hfresh hi hok hr

namespace Example

abbrev V := ThSt.visited
abbrev A := ThSt.active
abbrev D := ThSt.disabled
abbrev P := ThSt.pending
abbrev S := ThSt.skip
abbrev Y := ThSt.yield

/-- a scheduling decision of a path to replay -/
def sc (pre : Nat) (ini : Option Nat) (ths : List ThSt) (prev : Option Nat) : Entry :=
  .sched { preemptions := pre, initialActive := ini, threads := ths, prev := prev, exploring := true }
/-- the choice of the store a load reads: candidate number `pos` of `len` -/
def ld (vals : List Nat) (pos len : Nat) : Entry := .load { values := vals, pos := pos, len := len, exploring := true }
/-- the decision about a spurious return -/
def sp (b : Bool) : Entry := .spur { spur := b, exploring := true }

/-- the execution record that replays the decisions `br` -/
def execOn (prog : Prog) (br : List Entry) : Exec :=
  { Check.initExec prog.cfg with path := { Path.new 1000 none true with branches := br } }

theorem freshExec_execOn (prog : Prog) (br : List Entry) : FreshExec (execOn prog br) := ⟨rfl, rfl⟩

/-- the main thread blocks on future 0 (mode 0: the mutex-protected waker slot); thread 1 wakes it -/
def wakeProg : Prog :=
  { cfg := { nAtomics := 1, nFutures := 1 }, threads := [[.spawn 1, .blockOn 0 0, .join 1], [.wake 0]] }

theorem wakeProg_wf : WF4 wakeProg := by decide +kernel

/-- the first iteration of the exploration: the main thread polls (pending), registers its waker, polls again and
waits; only then thread 1 runs: WAKE AFTER REGISTRATION -/
def execAfter : Exec := Check.initExec wakeProg.cfg
/-- thread 1 stores the flag and looks into the (empty) slot between the main thread's first poll (pending) and its
registration; the main thread's second poll, ordered after the store by the slot's mutex, sees the flag: WAKE
DURING REGISTRATION -/
def execDuring : Exec :=
  execOn wakeProg [sc 0 (some 0) [A, P, D, D, D] none, ld [0, 0, 0, 0, 0, 0, 0] 0 1,
    sc 0 (some 0) [A, S, D, D, D] (some 0), sc 0 (some 0) [V, A, D, D, D] (some 2)]
/-- thread 1 runs its whole `wake` before the main thread's first poll, which reads the flag: WAKE BEFORE
REGISTRATION (nothing is ever registered) -/
def execBefore : Exec :=
  execOn wakeProg [sc 0 (some 0) [V, A, D, D, D] none, sc 1 (some 1) [P, A, D, D, D] (some 0),
    sc 1 (some 1) [P, A, D, D, D] (some 1), sc 1 (some 1) [P, A, D, D, D] (some 2), sc 1 none [A, D, D, D, D] (some 3),
    ld [0, 1, 0, 0, 0, 0, 0] 1 2]

/-- **wake before / during / after registration: `block_on` returns the output 7**, the run satisfies `okIter4` -/
theorem wake_after : (runIter wakeProg execAfter).term = none ∧ okIter4 wakeProg execAfter = true ∧
    (runIter wakeProg execAfter).events.map triple =
      [(0, 0, .unit), (1, 0, .unit), (0, 1, .val 7), (0, 2, .unit)] := by
  refine ⟨by decide +kernel, by decide +kernel, by decide +kernel⟩

theorem wake_during : (runIter wakeProg execDuring).term = none ∧ okIter4 wakeProg execDuring = true ∧
    (runIter wakeProg execDuring).events.map triple =
      [(0, 0, .unit), (1, 0, .unit), (0, 1, .val 7), (0, 2, .unit)] := by
  refine ⟨by decide +kernel, by decide +kernel, by decide +kernel⟩

theorem wake_before : (runIter wakeProg execBefore).term = none ∧ okIter4 wakeProg execBefore = true ∧
    (runIter wakeProg execBefore).events.map triple =
      [(0, 0, .unit), (1, 0, .unit), (0, 1, .val 7), (0, 2, .unit)] := by
  refine ⟨by decide +kernel, by decide +kernel, by decide +kernel⟩

/-- … so, by the theorem, each of these runs is an execution of the reference semantics in which the reference's
`blockOn` of the main thread (pc 1) returns 7 too -/
theorem wake_runs_are_reference_executions (e : Exec) (he : e = execAfter ∨ e = execDuring ∨ e = execBefore) :
    ∃ s, SCExec2 wakeProg (SC.init wakeProg) s ∧ s.verdict = none ∧ R4 (finalW wakeProg e).1 s ∧
      (s.th 0).rets = [(2, .unit), (1, .val 7), (0, .unit)] ∧ (s.th 1).rets = [(0, .unit)] := by
  have key : FreshExec e ∧ okIter4 wakeProg e = true ∧ (finalW wakeProg e).2 = none ∧
      2 ≤ (finalW wakeProg e).1.ctl.length ∧
      (((finalW wakeProg e).1.ctlOf 0).fin ≠ 0 ∧ ((finalW wakeProg e).1.ctlOf 0).body = 0 ∧
        ((finalW wakeProg e).1.ctlOf 0).results = [(2, .unit), (1, .val 7), (0, .unit)]) ∧
      (((finalW wakeProg e).1.ctlOf 1).fin ≠ 0 ∧ ((finalW wakeProg e).1.ctlOf 1).body = 1 ∧
        ((finalW wakeProg e).1.ctlOf 1).results = [(0, .unit)]) := by
    rcases he with rfl | rfl | rfl
    · exact ⟨⟨rfl, rfl⟩, by decide +kernel, by decide +kernel, by decide +kernel, by decide +kernel,
        by decide +kernel⟩
    · exact ⟨⟨rfl, rfl⟩, by decide +kernel, by decide +kernel, by decide +kernel, by decide +kernel,
        by decide +kernel⟩
    · exact ⟨⟨rfl, rfl⟩, by decide +kernel, by decide +kernel, by decide +kernel, by decide +kernel,
        by decide +kernel⟩
  obtain ⟨hfr, hok, hnp, hlen, ⟨f0, b0, r0⟩, ⟨f1, b1, r1⟩⟩ := key
  obtain ⟨s, hex, hv, hR⟩ := finalW_is_reference_execution wakeProg_wf hfr hok hnp
  refine ⟨s, hex, hv, hR, ?_, ?_⟩
  · have := (related_results_done hR 0 (by omega) f0).1
    rw [b0, r0] at this; exact this
  · have := (related_results_done hR 1 (by omega) f1).1
    rw [b1, r1] at this; exact this

/-- `block_on(poll_once(f))` finds the future pending and returns 0 (its registration stays in the `AtomicWaker`);
thread 1 wakes (taking that registration, which belongs to the FIRST call); the second call (mode 3) polls the flag
and returns 7 -/
def pollOnce : Prog :=
  { cfg := { nAtomics := 1, nFutures := 1 },
    threads := [[.spawn 1, .blockOn 0 4, .join 1, .blockOn 0 3], [.awWake 0]] }

theorem pollOnce_run : WF4 pollOnce ∧ (runIter pollOnce (Check.initExec pollOnce.cfg)).term = none ∧
    okIter4 pollOnce (Check.initExec pollOnce.cfg) = true ∧
    (runIter pollOnce (Check.initExec pollOnce.cfg)).events.map triple =
      [(0, 0, .unit), (0, 1, .val 0), (1, 0, .unit), (0, 2, .unit), (0, 3, .val 7)] := by
  refine ⟨by decide +kernel, by decide +kernel, by decide +kernel, by decide +kernel⟩

/-- … and the reference returns 0 and then 7 as well -/
theorem pollOnce_is_reference_execution :
    ∃ s, SCExec2 pollOnce (SC.init pollOnce) s ∧ s.verdict = none ∧
      (s.th 0).rets = [(3, .val 7), (2, .unit), (1, .val 0), (0, .unit)] := by
  have key : (finalW pollOnce (Check.initExec pollOnce.cfg)).2 = none ∧
      1 ≤ (finalW pollOnce (Check.initExec pollOnce.cfg)).1.ctl.length ∧
      ((finalW pollOnce (Check.initExec pollOnce.cfg)).1.ctlOf 0).fin ≠ 0 ∧
      ((finalW pollOnce (Check.initExec pollOnce.cfg)).1.ctlOf 0).body = 0 ∧
      ((finalW pollOnce (Check.initExec pollOnce.cfg)).1.ctlOf 0).results =
        [(3, .val 7), (2, .unit), (1, .val 0), (0, .unit)] := by
    refine ⟨by decide +kernel, by decide +kernel, by decide +kernel, by decide +kernel, by decide +kernel⟩
  obtain ⟨hnp, hlen, f0, b0, r0⟩ := key
  obtain ⟨s, hex, hv, hR⟩ := finalW_is_reference_execution (exec := Check.initExec pollOnce.cfg) pollOnce_run.1
    ⟨rfl, rfl⟩ pollOnce_run.2.2.1 hnp
  refine ⟨s, hex, hv, ?_⟩
  have := (related_results_done hR 0 (by omega) f0).1
  rw [b0, r0] at this; exact this

/-- the `AtomicWaker` with take-back on return (mode 1), and the self-waking future (mode 5) -/
def awProg : Prog :=
  { cfg := { nAtomics := 1, nFutures := 1 }, threads := [[.spawn 1, .blockOn 0 1, .join 1], [.awWake 0]] }
def selfProg : Prog := { cfg := { nAtomics := 1, nFutures := 1 }, threads := [[.blockOn 0 5]] }

theorem aw_run : WF4 awProg ∧ (runIter awProg (Check.initExec awProg.cfg)).term = none ∧
    okIter4 awProg (Check.initExec awProg.cfg) = true ∧
    (runIter awProg (Check.initExec awProg.cfg)).events.map triple =
      [(0, 0, .unit), (1, 0, .unit), (0, 1, .val 7), (0, 2, .unit)] := by
  refine ⟨by decide +kernel, by decide +kernel, by decide +kernel, by decide +kernel⟩

/-- the self-waking future: both iterations of its exploration (with and without the spurious return of the wait)
return 7 and satisfy `okIter4` -/
theorem self_runs : WF4 selfProg ∧ (Check.run selfProg).2 = .completed ∧ (Check.run selfProg).1.length = 2 ∧
    (Check.run selfProg).1.all (fun it => it.result.term.isNone &&
      okIter4 selfProg { Check.initExec selfProg.cfg with path := it.start } &&
      it.result.events.map triple == [(0, 0, .val 7)]) = true := by
  refine ⟨by decide +kernel, by decide +kernel, by decide +kernel, by decide +kernel⟩

/-- a `block_on` nobody wakes -/
def lone : Prog := { cfg := { nAtomics := 1, nFutures := 1 }, threads := [[.blockOn 0 0]] }

/-- **a lone `blockOn` deadlocks in both**: the exploration of the twin stops at its first iteration with "deadlock"
(the run satisfies `okIter4` up to there), and EVERY execution of the reference semantics ends with the verdict
`deadlock` (there are two: with and without the spurious return) -/
theorem lone_deadlocks : WF4 lone ∧ (runIter lone (Check.initExec lone.cfg)).term = some .deadlock ∧
    okIter4 lone (Check.initExec lone.cfg) = true ∧ (Check.run lone).2 = .panicked .deadlock ∧
    (SC.outcomesNaive lone 40 (SC.init lone)).map (fun l => (l.length, l.all fun o => o.verdict == .deadlock)) =
      some (2, true) := by
  refine ⟨by decide +kernel, by decide +kernel, by decide +kernel, by decide +kernel, by decide +kernel⟩

end Example

/-! ## 6. the run-level hypothesis cannot be dropped from the (forward) simulation: witnesses -/

namespace Counter
open Example

/-- which clause of `resumeOk4` fails in world `w`: 1 = the poll reads 1 where the reference reads 0 (a store in
flight), 2 = the poll reads 0 where the reference reads 1 (a stale read), 3 = another notification is in flight when a
`block_on` consumes one -/
def why4 (w : World) : List Nat :=
  match opAt w with
  | some (.blockOn f mode) =>
    let st := (w.ctlOf w.tid).stage
    if st == 11 || st == 15 then
      (match w.primEffect f (World.pollPrim mode), refFlag w f with
       | .ok (_, r), some v => if r == .val v then [] else if v == 0 then [1] else [2]
       | _, _ => [])
    else if st == 16 || st == 53 then (if noPending w (w.futs.getD f {}).notify then [] else [3])
    else []
  | _ => []

/-- the violations along a run -/
def violations : Nat → World → List Nat
  | 0, _ => []
  | fuel + 1, w =>
    if !w.ths.isActive then []
    else why4 w ++
      match w.stepActive with
      | .error _ => []
      | .ok w' => violations fuel w'

def violationsOf (prog : Prog) (exec : Exec) : List Nat :=
  match World.init prog exec with
  | .ok w0 => violations 200000 w0
  | .error _ => []

/-- a stale poll: the poll reads a value other than the most recent store although that store is ORDERED BEFORE it by
happens-before (the store's clock is below the reader's) -/
def staleOrdered (w : World) : Bool :=
  match opAt w with
  | some (.blockOn f mode) =>
    let st := (w.ctlOf w.tid).stage
    if st == 11 || st == 15 then
      match w.primEffect f (World.pollPrim mode), w.exec.objs[f]? with
      | .ok (_, r), some (.atomic a) =>
        r != .val (w.cfg.ty.fromU64 a.latestValue) && (a.storeAt (Atomic.index (a.cnt - 1))).hb.ble w.ths.caus
      | _, _ => false
    else false
  | _ => false

def anyStaleOrdered : Nat → World → Bool
  | 0, _ => false
  | fuel + 1, w =>
    if !w.ths.isActive then false
    else staleOrdered w ||
      match w.stepActive with
      | .error _ => false
      | .ok w' => anyStaleOrdered fuel w'

/-- the main thread registers and is about to poll the second time; thread 1 runs its whole `wake` (the flag store, an
empty… no: the registered waker is taken and notified); the main thread's second poll then reads the INITIAL 0 -/
def execStale : Exec :=
  execOn wakeProg [sc 0 (some 0) [A, P, D, D, D] none, ld [0, 0, 0, 0, 0, 0, 0] 0 1,
    sc 0 (some 0) [A, S, D, D, D] (some 0), sc 0 (some 0) [A, P, D, D, D] (some 2),
    sc 0 (some 0) [V, A, D, D, D] (some 3), sc 1 (some 1) [P, A, D, D, D] (some 4),
    sc 1 (some 1) [S, A, D, D, D] (some 5), sc 1 (some 1) [P, A, D, D, D] (some 6),
    sc 1 (some 1) [P, A, D, D, D] (some 7), sc 1 (some 1) [P, A, D, D, D] (some 8),
    sc 1 none [A, D, D, D, D] (some 9), ld [0, 1, 0, 0, 0, 0, 0] 0 2, sp true]

/-- **FINDING (stale flag read).**  `wakeProg` is well-formed; on this path the run of the twin completes without a
panic and `block_on` returns 7 — but the main thread's second poll (stage 15) reads the flag 0 AFTER thread 1's `wake`
has stored 1, taken the registered waker, notified it and completed: the twin's Acquire load may read any store that
is not overwritten, in happens-before terms, by one the reader has seen, and nothing orders the store before this load
(the main thread released the slot's mutex BEFORE thread 1 took it).  The reference semantics reads the flag
sequentially consistently (1: the call returns at once); the twin's thread goes to wait, finds the notification and
polls again.  The run violates `okRun4` — clause (a) only, reading 0 where the reference reads 1. -/
theorem stale_read : WF4 wakeProg ∧ FreshExec execStale ∧ (runIter wakeProg execStale).term = none ∧
    (runIter wakeProg execStale).events.map triple =
      [(0, 0, .unit), (1, 0, .unit), (0, 1, .val 7), (0, 2, .unit)] ∧
    okIter4 wakeProg execStale = false ∧ violationsOf wakeProg execStale = [2] := by
  refine ⟨by decide +kernel, ⟨rfl, rfl⟩, by decide +kernel, by decide +kernel, by decide +kernel, by decide +kernel⟩

/-- the main thread waits; its wait returns spuriously; thread 1 has performed the flag store of its `wake` but not yet
looked into the slot when the main thread polls again and reads 1 -/
def execWindow : Exec :=
  execOn wakeProg [sc 0 (some 0) [A, S, D, D, D] none, ld [0, 0, 0, 0, 0, 0, 0] 0 1,
    sc 0 (some 0) [A, S, D, D, D] (some 0), sc 0 (some 0) [A, S, D, D, D] (some 2),
    sc 0 (some 0) [A, P, D, D, D] (some 3), ld [0, 0, 0, 0, 0, 0, 0] 0 1, sp true,
    sc 0 none [Y, A, D, D, D] (some 4), sc 0 (some 1) [P, A, D, D, D] (some 7), sc 0 (some 1) [A, V, D, D, D] (some 8)]

/-- **The window between the flag store and the take of a `wake`.**  On this path the main thread's poll reads the 1
that thread 1 has stored, while thread 1 is still before the stage that takes the waker: the call returns 7 (taking its
own registration back), and thread 1 then finds the slot empty.  The reference performs the store and the take in one
step: at the time of the poll its flag is still 0.  The run violates `okRun4` — clause (a) only, reading 1 where the
reference reads 0. -/
theorem store_window : FreshExec execWindow ∧ (runIter wakeProg execWindow).term = none ∧
    (runIter wakeProg execWindow).events.map triple =
      [(0, 0, .unit), (0, 1, .val 7), (1, 0, .unit), (0, 2, .unit)] ∧
    okIter4 wakeProg execWindow = false ∧ violationsOf wakeProg execWindow = [1] := by
  refine ⟨⟨rfl, rfl⟩, by decide +kernel, by decide +kernel, by decide +kernel, by decide +kernel⟩

/-- two wakers: `wake` (by value) and `wakeQ` (by reference, no flag store) -/
def twoWakers : Prog :=
  { cfg := { nAtomics := 1, nFutures := 1 },
    threads := [[.spawn 1, .spawn 2, .blockOn 0 0, .join 1, .join 2], [.wake 0], [.wakeQ 0]] }

def execPending : Exec :=
  execOn twoWakers [sc 0 (some 0) [A, S, S, D, D] none, ld [0, 0, 0, 0, 0, 0, 0] 0 1,
    sc 0 (some 0) [A, S, S, D, D] (some 0), sc 0 (some 0) [A, S, P, D, D] (some 2),
    sc 0 (some 0) [A, P, S, D, D] (some 3), ld [0, 0, 0, 0, 0, 0, 0] 0 1, sp false,
    sc 0 none [D, A, S, D, D] (some 4), sc 0 (some 1) [D, A, P, D, D] (some 7), sc 0 (some 1) [D, V, A, D, D] (some 8),
    sc 1 (some 2) [D, P, A, D, D] (some 9), sc 1 (some 2) [D, D, A, D, D] (some 10),
    sc 1 (some 2) [P, S, A, D, D] (some 11), sc 1 none [V, A, D, D, D] (some 12),
    sc 1 (some 1) [A, V, D, D, D] (some 13), sc 2 (some 0) [A, S, D, D, D] (some 14), ld [0, 1, 0, 0, 0, 0, 0] 1 2]

/-- **A notification consumed while another one is in flight.**  Both wakers find the call's waker (the second one by
reference, while the first one — which has taken it — is between its take and its `notify`); the `block_on` consumes
the first notification while the other waker has not delivered its own yet.  The reference, which notifies at the
reference step of each waker, has `notified = false` after the consumption; the twin's flag is raised once more later.
The run completes with 7 and violates `okRun4` — clause (b) only. -/
theorem pending_consume : WF4 twoWakers ∧ FreshExec execPending ∧ (runIter twoWakers execPending).term = none ∧
    (runIter twoWakers execPending).events.map triple =
      [(0, 0, .unit), (0, 1, .unit), (2, 0, .unit), (0, 2, .val 7), (1, 0, .unit), (0, 3, .unit), (0, 4, .unit)] ∧
    okIter4 twoWakers execPending = false ∧ violationsOf twoWakers execPending = [3] := by
  refine ⟨by decide +kernel, ⟨rfl, rfl⟩, by decide +kernel, by decide +kernel, by decide +kernel, by decide +kernel⟩

/-- thread 1 takes the waker and notifies; the main thread returns from `block_on` BEFORE thread 1 drops the waker and
completes -/
def execOrder : Exec :=
  execOn wakeProg [sc 0 (some 0) [A, S, D, D, D] none, ld [0, 0, 0, 0, 0, 0, 0] 0 1,
    sc 0 (some 0) [A, S, D, D, D] (some 0), sc 0 (some 0) [A, S, D, D, D] (some 2),
    sc 0 (some 0) [A, P, D, D, D] (some 3), ld [0, 0, 0, 0, 0, 0, 0] 0 1, sp false,
    sc 0 none [D, A, D, D, D] (some 4), sc 0 (some 1) [D, A, D, D, D] (some 7), sc 0 (some 1) [D, A, D, D, D] (some 8),
    sc 0 (some 1) [D, A, D, D, D] (some 9), sc 0 (some 1) [A, V, D, D, D] (some 10)]

/-- **FINDING (completion order).**  This run satisfies `okIter4` (the theorem applies: it is an execution of the
reference), yet the twin LOGS the completion of `block_on` (`(0, 1, 7)`) before the completion of the `wake`
(`(1, 0, unit)`) that woke it: the reference's `wake` is one step, which comes before the return of the `blockOn` it
enables.  The event log of the twin is ordered by completion, not by the reference steps; the relation (and the
theorem) is about the results per thread. -/
theorem event_order : FreshExec execOrder ∧ (runIter wakeProg execOrder).term = none ∧
    okIter4 wakeProg execOrder = true ∧
    (runIter wakeProg execOrder).events.map triple =
      [(0, 0, .unit), (0, 1, .val 7), (1, 0, .unit), (0, 2, .unit)] := by
  refine ⟨⟨rfl, rfl⟩, by decide +kernel, by decide +kernel, by decide +kernel⟩

/-- two calls of `block_on` on the same future; thread 1 drops the registered waker; thread 2 sets the flag -/
def twoCalls : Prog :=
  { cfg := { nAtomics := 1, nFutures := 1 },
    threads := [[.spawn 1, .spawn 2, .blockOn 0 0, .blockOn 0 0, .join 1, .join 2], [.dropWaker 0],
                [.atom 0 (.store 1 .rel)]] }

def execDrop : Exec :=
  execOn twoCalls [sc 0 (some 0) [A, S, S, D, D] none, ld [0, 0, 0, 0, 0, 0, 0] 0 1,
    sc 0 (some 0) [A, S, S, D, D] (some 0), sc 0 (some 0) [A, P, S, D, D] (some 2),
    sc 0 (some 0) [A, S, P, D, D] (some 3), ld [0, 0, 0, 0, 0, 0, 0] 0 1, sp true,
    sc 0 none [Y, A, S, D, D] (some 4), sc 0 (some 1) [P, A, S, D, D] (some 7), sc 0 (some 1) [A, V, S, D, D] (some 8),
    sc 1 (some 0) [A, S, P, D, D] (some 9), ld [0, 0, 0, 0, 0, 0, 0] 0 1, sc 1 (some 0) [A, S, S, D, D] (some 10),
    sc 1 (some 0) [A, S, S, D, D] (some 12), sc 1 (some 0) [V, S, A, D, D] (some 13),
    sc 2 (some 2) [P, S, A, D, D] (some 14), sc 2 (some 2) [P, S, A, D, D] (some 15),
    sc 2 none [A, V, D, D, D] (some 16)]

/-- **REPAIRED (a defect of the TWIN, found while relating `wakers` to the `Arc` counts): `dropWaker` drops the
waker it took.**  The last stage of the twin's `dropWaker f` used to drop `(w.futs.getD f {}).arc` — the `Arc` of the call
in progress AT THAT STAGE — and not the waker it took out of the slot one stage earlier; on this path (thread 1 takes
the waker of the FIRST call, the first call returns — the flag is set —, the SECOND call starts and returns, and
thread 1 then drops) it "dropped" the second call's `Arc`, whose count was already 0, and the twin panicked "Arc is
already released" (old finding `Counter.dropWaker_drops_the_current_arc`).  Now stage 1 hands the waker taken over in
`TCtl.taken`, as `wake`, `awWake`, `awTake` do (`Waker.dropWaker_drops_the_waker_taken` in `Props/C20.lean`), like
`drop(slot.lock().take())` in Rust: along the SAME path the run completes without a panic, thread 1's `dropWaker`
completes (event `(1, 0, unit)`) after both calls have returned 7, the run satisfies `okIter4` (so the theorem applies:
`dropWaker_run_is_reference_execution`), and at the end BOTH `Arc`s — the first call's, dropped last by thread 1, and
the second call's — have `ref_cnt` 0 and are unregistered: every reference is dropped exactly once. -/
theorem dropWaker_drops_the_waker_it_took : WF4 twoCalls ∧ FreshExec execDrop ∧
    (runIter twoCalls execDrop).term = none ∧
    (runIter twoCalls execDrop).events.map triple =
      [(0, 0, .unit), (0, 1, .unit), (2, 0, .unit), (0, 2, .val 7), (0, 3, .val 7), (1, 0, .unit), (0, 4, .unit),
        (0, 5, .unit)] ∧
    okIter4 twoCalls execDrop = true ∧
    ((finalW twoCalls execDrop).1.arcs.map fun a =>
      (match (finalW twoCalls execDrop).1.exec.objs[a.obj]? with
       | some (.arc st) => some st.refCnt
       | _ => none, a.stdCount, a.registered)) = [(some 0, 0, false), (some 0, 0, false)] := by
  refine ⟨by decide +kernel, ⟨rfl, rfl⟩, by decide +kernel, by decide +kernel, by decide +kernel, by decide +kernel⟩

/-- … and by the theorem that run is an execution of the reference semantics -/
theorem dropWaker_run_is_reference_execution :
    ∃ s, SCExec2 twoCalls (SC.init twoCalls) s ∧ s.verdict = none ∧ R4 (finalW twoCalls execDrop).1 s :=
  finalW_is_reference_execution dropWaker_drops_the_waker_it_took.1 dropWaker_drops_the_waker_it_took.2.1
    dropWaker_drops_the_waker_it_took.2.2.2.2.1 (by decide +kernel)

end Counter

end Refine4
end LoomVerif

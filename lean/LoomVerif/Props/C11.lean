/-
C11 — "loom::sync::Arc behaves like std::sync::Arc under every interleaving.  strong_count,
get_mut, try_unwrap, ptr_eq, into_raw/from_raw and increment/decrement_strong_count return what a
reference-counting model returns for the interleaving that was executed, the inner value is
dropped exactly once and only by the handle that brings the count to zero, and every earlier drop
of a handle happens-before that final drop."

Headline theorems only.  The model is `Model/Objs.lean` (`ArcSt`) and `Model/Interp.lean`
(`World.refDecEffect`, `World.afterDec`, `runOp` cases `.arcNew … .arcPtrEq`); the reference
semantics is `Spec/SC.lean` (the counter `SC.St.arcs[a].1`); the proofs are in
`Proofs/C11Arc.lean`, `Proofs/C11Inv.lean`, `Proofs/C11SC.lean`.

Scope.  The theorems are one-step statements about the EFFECT stage of each operation (the part
after its branch point), for an arbitrary world, plus histories of one Arc object
(`ArcObj.Run`).  "For the interleaving that was executed" is: whatever order the scheduler ran the
effect stages in, each computes the reference model's result from the count it finds.  Whether
the scheduler explores all orders is C01 (see `Dep.arc` for the repair of finding F10).
-/
import LoomVerif.Proofs.C11SC

namespace LoomVerif
open C11 WB World

/-! ## 1. the Arc object is a reference counter -/

/-- The bookkeeping invariant, spelled out: allocation `a` is known, its `rt::Arc` object is in
state `s`, the strong count of the wrapped `std::sync::Arc` (on which loom asserts) equals
`ref_cnt`, and the allocation is registered in `arc_objs` exactly while the count is positive. -/
theorem ArcObj.ArcInv_spelled_out (w : World) (a : Nat) (s : ArcSt) :
    ArcInv w a s ↔
      a < w.arcs.length ∧ w.getArc (w.arcInfo a).obj = .ok s ∧
      (w.arcInfo a).stdCount = s.refCnt ∧ ((w.arcInfo a).registered = true ↔ s.refCnt ≠ 0) :=
  ⟨fun h => ⟨h.1, h.2, h.3, h.4⟩, fun h => ⟨h.1, h.2.1, h.2.2.1, h.2.2.2⟩⟩

/-- `C11.arcDecSt`, what `ref_dec` does to the object, and `C11.retOf`, the value the last
completed operation returned, spelled out. -/
theorem ArcObj.defs_spelled_out (s : ArcSt) (released caus : VV) (w : World) :
    arcDecSt s released caus =
      { s with refCnt := s.refCnt - 1, sync := s.sync.store released caus .rel } ∧
    retOf w = w.events.head?.map (·.ret) := ⟨rfl, rfl⟩

/-- `Arc::new`: a fresh object with count 1 is appended to the store, the handle names the new
allocation, the invariant holds. -/
theorem ArcObj.refines_refcount_new (w : World) (c : TCtl) (h : Nat) :
    ∃ w', w.runOp c (.arcNew h) = .ok w' ∧
      w'.exec.objs = w.exec.objs ++ [.arc { refCnt := 1 }] ∧
      w'.handle h = .ok { arc := w.arcs.length } ∧
      ArcInv w' w.arcs.length { refCnt := 1 } ∧ retOf w' = some .unit :=
  arcNew_effect w c h

/-- **C11.1 (clone).**  Effect stage of `clone`: count + 1, no other object, thread table or path
changes, the new handle names the same allocation, returns `()`; the invariant is preserved when
the handle is live.  (`ref_inc` itself does not check liveness.) -/
theorem ArcObj.refines_refcount_clone {w : World} {c : TCtl} {h : Nat} {hs : HandleSt}
    {s : ArcSt} (h2 : Nat) (hh : w.handle h = .ok hs) (hc : c.stage ≠ 0)
    (hg : w.getArc (w.arcInfo hs.arc).obj = .ok s) :
    ∃ w', w.runOp c (.arcClone h h2) = .ok w' ∧
      w'.getArc (w.arcInfo hs.arc).obj = .ok { s with refCnt := s.refCnt + 1 } ∧
      (∀ o', o' ≠ (w.arcInfo hs.arc).obj → w'.exec.objs[o']? = w.exec.objs[o']?) ∧
      w'.ths = w.ths ∧ w'.exec.path = w.exec.path ∧
      w'.handle h2 = .ok { arc := hs.arc } ∧ retOf w' = some .unit ∧
      (ArcInv w hs.arc s → s.refCnt ≠ 0 → ArcInv w' hs.arc { s with refCnt := s.refCnt + 1 }) :=
  arcClone_effect h2 hh hc hg

/-- **C11.1 (increment_strong_count).**  The same without a new handle. -/
theorem ArcObj.refines_refcount_inc {w : World} {c : TCtl} {h : Nat} {hs : HandleSt}
    {s : ArcSt} (hh : w.handle h = .ok hs) (hc : c.stage ≠ 0)
    (hg : w.getArc (w.arcInfo hs.arc).obj = .ok s) :
    ∃ w', w.runOp c (.arcInc h) = .ok w' ∧
      w'.getArc (w.arcInfo hs.arc).obj = .ok { s with refCnt := s.refCnt + 1 } ∧
      (∀ o', o' ≠ (w.arcInfo hs.arc).obj → w'.exec.objs[o']? = w.exec.objs[o']?) ∧
      w'.ths = w.ths ∧ w'.exec.path = w.exec.path ∧ retOf w' = some .unit ∧
      (ArcInv w hs.arc s → s.refCnt ≠ 0 → ArcInv w' hs.arc { s with refCnt := s.refCnt + 1 }) :=
  arcInc_effect hh hc hg

/-- **C11.1 (`ref_dec`).**  `refDecEffect` fails with "Arc is already released" iff the count is
0; otherwise it decrements, releases the dropper's causality into `synchronize`, returns `last`
with `last ↔ the new count is 0` (i.e. the count was 1), and touches no other object. -/
theorem ArcObj.refines_refcount_refDec (w : World) (o : Nat) (s : ArcSt)
    (hg : w.getArc o = .ok s) :
    (w.refDecEffect o = .error .arcReleased ↔ s.refCnt = 0) ∧
    (s.refCnt ≠ 0 → ∃ w', w.refDecEffect o = .ok (w', decide (s.refCnt = 1))) ∧
    (∀ w' last, w.refDecEffect o = .ok (w', last) →
      s.refCnt ≠ 0 ∧
      w'.getArc o = .ok (arcDecSt s w.ths.activeT.released w.ths.caus) ∧
      (last = true ↔ (arcDecSt s w.ths.activeT.released w.ths.caus).refCnt = 0) ∧
      (∀ o', o' ≠ o → w'.exec.objs[o']? = w.exec.objs[o']?) ∧
      w'.exec.path = w.exec.path ∧ w'.arcs = w.arcs ∧ w'.handles = w.handles) := by
  refine ⟨?_, refDecEffect_ok w o s hg, fun w' last hr => ?_⟩
  · rw [refDecEffect_eq w o s hg]
    by_cases h0 : s.refCnt = 0 <;> simp [h0]
  · have f := refDecEffect_inv hg hr
    refine ⟨f.live, f.arc, ?_, f.others, f.path, f.arcs, f.handles⟩
    rw [f.last_iff]
    have := f.live
    simp only [arcDecSt]; omega

/-- **C11.1 (drop).**  Effect stage of `drop`: "Arc is already released" iff the count is 0;
otherwise, under the invariant, count − 1, the handle is consumed, the operation reports whether
it was the last one (`count = 1`), no other object changes, the invariant is preserved — so
neither `assert_eq!(1, strong_count)` (`internal 71`) nor "Arc object was removed before dropping
last Arc" (`internal 72`) can fire — and the allocation is unregistered iff this was the last. -/
theorem ArcObj.refines_refcount_drop {w : World} {c : TCtl} {h : Nat} {hs : HandleSt}
    {s : ArcSt} (hh : w.handle h = .ok hs) (hc : c.stage ≠ 0)
    (hg : w.getArc (w.arcInfo hs.arc).obj = .ok s) :
    (s.refCnt = 0 → w.runOp c (.arcDrop h) = .error .arcReleased) ∧
    (s.refCnt ≠ 0 → ArcInv w hs.arc s →
      ∃ w', w.runOp c (.arcDrop h) = .ok w' ∧
        w'.getArc (w.arcInfo hs.arc).obj = .ok (arcDecSt s w.ths.activeT.released w.ths.caus) ∧
        (∀ o', o' ≠ (w.arcInfo hs.arc).obj → w'.exec.objs[o']? = w.exec.objs[o']?) ∧
        w'.exec.path = w.exec.path ∧
        w'.handle h = .error (.internal 70) ∧
        retOf w' = some (boolRet (decide (s.refCnt = 1))) ∧
        ArcInv w' hs.arc (arcDecSt s w.ths.activeT.released w.ths.caus) ∧
        ((w'.arcInfo hs.arc).registered = false ↔ s.refCnt = 1)) :=
  ⟨arcDrop_released hh hc hg, arcDrop_effect hh hc hg⟩

/-- **C11.1 (decrement_strong_count).**  The same; the handle (a raw pointer) stays. -/
theorem ArcObj.refines_refcount_dec {w : World} {c : TCtl} {h : Nat} {hs : HandleSt}
    {s : ArcSt} (hh : w.handle h = .ok hs) (hc : c.stage ≠ 0)
    (hg : w.getArc (w.arcInfo hs.arc).obj = .ok s) :
    (s.refCnt = 0 → w.runOp c (.arcDec h) = .error .arcReleased) ∧
    (s.refCnt ≠ 0 → ArcInv w hs.arc s →
      ∃ w', w.runOp c (.arcDec h) = .ok w' ∧
        w'.getArc (w.arcInfo hs.arc).obj = .ok (arcDecSt s w.ths.activeT.released w.ths.caus) ∧
        (∀ o', o' ≠ (w.arcInfo hs.arc).obj → w'.exec.objs[o']? = w.exec.objs[o']?) ∧
        w'.exec.path = w.exec.path ∧
        retOf w' = some (boolRet (decide (s.refCnt = 1))) ∧
        ArcInv w' hs.arc (arcDecSt s w.ths.activeT.released w.ths.caus) ∧
        ((w'.arcInfo hs.arc).registered = false ↔ s.refCnt = 1)) :=
  ⟨arcDec_released hh hc hg, arcDec_effect hh hc hg⟩

/-- **C11.1 (strong_count).**  Returns the count ("Arc is already released" iff it is 0); no
object changes; the thread acquires `synchronize` with `SeqCst`.  (Stronger than std, whose
`strong_count` is a relaxed load: loom's `strong_count` creates a happens-before edge from every
earlier `drop` that a std program does not get.) -/
theorem ArcObj.refines_refcount_count {w : World} {c : TCtl} {h : Nat} {hs : HandleSt}
    {s : ArcSt} (hh : w.handle h = .ok hs) (hc : c.stage ≠ 0)
    (hg : w.getArc (w.arcInfo hs.arc).obj = .ok s) :
    (s.refCnt = 0 → w.runOp c (.arcCount h) = .error .arcReleased) ∧
    (s.refCnt ≠ 0 → ∃ w', w.runOp c (.arcCount h) = .ok w' ∧
      retOf w' = some (.val s.refCnt) ∧ w'.exec.objs = w.exec.objs ∧ w'.arcs = w.arcs ∧
      w'.exec.path = w.exec.path ∧
      (ActiveOk w.ths → w'.ths.caus = w.ths.caus.join s.sync.hb)) :=
  arcCount_effect hh hc hg

/-- **C11.1 (get_mut).**  Returns `count = 1` ("Arc is released" iff the count is 0); under
`std strong count = ref_cnt` the assertion `assert_eq!(1, strong_count)` (`internal 73`) cannot
fire; no object changes; the thread acquires `synchronize`. -/
theorem ArcObj.refines_refcount_getMut {w : World} {c : TCtl} {h : Nat} {hs : HandleSt}
    {s : ArcSt} (hh : w.handle h = .ok hs) (hc : c.stage ≠ 0)
    (hg : w.getArc (w.arcInfo hs.arc).obj = .ok s) :
    (s.refCnt = 0 → w.runOp c (.arcGetMut h) = .error .arcReleased) ∧
    (s.refCnt ≠ 0 → (w.arcInfo hs.arc).stdCount = s.refCnt →
      ∃ w', w.runOp c (.arcGetMut h) = .ok w' ∧
      retOf w' = some (boolRet (s.refCnt == 1)) ∧ w'.exec.objs = w.exec.objs ∧ w'.arcs = w.arcs ∧
      w'.exec.path = w.exec.path ∧
      (ActiveOk w.ths → w'.ths.caus = w.ths.caus.join s.sync.hb)) :=
  arcGetMut_effect hh hc hg

/-- **C11.1 (try_unwrap, first half).**  `Err` iff `count ≠ 1` (nothing changes); if the count is
1 the operation goes to a SECOND branch point (stage 2) before decrementing. -/
theorem ArcObj.refines_refcount_unwrap1 {w : World} {c : TCtl} {h : Nat} {hs : HandleSt}
    {s : ArcSt} (hh : w.handle h = .ok hs) (hc : c.stage = 1)
    (hg : w.getArc (w.arcInfo hs.arc).obj = .ok s) :
    (s.refCnt = 0 → w.runOp c (.arcUnwrap h) = .error .arcReleased) ∧
    (s.refCnt ≠ 0 → s.refCnt ≠ 1 → ∃ w', w.runOp c (.arcUnwrap h) = .ok w' ∧
      retOf w' = some (.err 0) ∧ w'.exec.objs = w.exec.objs ∧ w'.arcs = w.arcs ∧
      w'.handles = w.handles ∧ w'.exec.path = w.exec.path) ∧
    (s.refCnt = 1 → (w.arcInfo hs.arc).stdCount = s.refCnt →
      w.runOp c (.arcUnwrap h) =
        ((w.setThs (w.ths.syncLoad s.sync .acq)).setStage 2).branch (w.arcInfo hs.arc).obj .arcDec) :=
  arcUnwrap_effect1 hh hc hg

/-- **C11.1 (try_unwrap, second half).**  With the count still 1: decrement to 0, the handle is
consumed, the allocation is unregistered, `Ok`; invariant preserved, `internal 72` cannot fire. -/
theorem ArcObj.refines_refcount_unwrap2 {w : World} {c : TCtl} {h : Nat} {hs : HandleSt}
    {s : ArcSt} (hh : w.handle h = .ok hs) (hc : c.stage = 2)
    (hg : w.getArc (w.arcInfo hs.arc).obj = .ok s) (h1 : s.refCnt = 1) (hi : ArcInv w hs.arc s) :
    ∃ w', w.runOp c (.arcUnwrap h) = .ok w' ∧
      w'.getArc (w.arcInfo hs.arc).obj = .ok (arcDecSt s w.ths.activeT.released w.ths.caus) ∧
      (arcDecSt s w.ths.activeT.released w.ths.caus).refCnt = 0 ∧
      (∀ o', o' ≠ (w.arcInfo hs.arc).obj → w'.exec.objs[o']? = w.exec.objs[o']?) ∧
      w'.handle h = .error (.internal 70) ∧
      retOf w' = some (.ok 0) ∧
      ArcInv w' hs.arc (arcDecSt s w.ths.activeT.released w.ths.caus) ∧
      (w'.arcInfo hs.arc).registered = false :=
  arcUnwrap_effect2 hh hc hg h1 hi

/-- **C11.1 (ptr_eq, into_raw, from_raw).**  `ptr_eq` compares the allocations behind the two
handles; `into_raw`/`from_raw` only flip the handle's `raw` flag (`from_raw` of an unregistered
allocation is `internal 74`, the `arc_objs[&ptr]` lookup); none of them touches the execution
state (no branch point, no object, no clock). -/
theorem ArcObj.refines_refcount_pure (w : World) (c : TCtl) (h h2 : Nat) (hs hs2 : HandleSt)
    (hh : w.handle h = .ok hs) (hh2 : w.handle h2 = .ok hs2) :
    w.runOp c (.arcPtrEq h h2) = .ok (w.complete (boolRet (hs.arc == hs2.arc))) ∧
    w.runOp c (.arcIntoRaw h) =
      .ok ((w.setHandle h (some { hs with raw := true })).complete .unit) ∧
    w.runOp c (.arcFromRaw h) =
      (if (w.arcInfo hs.arc).registered = false then .error (.internal 74)
       else .ok ((w.setHandle h (some { hs with raw := false })).complete .unit)) ∧
    (w.complete (boolRet (hs.arc == hs2.arc))).exec = w.exec ∧
    (∀ x r, ((w.setHandle h x).complete r).exec = w.exec) :=
  ⟨runOp_arcPtrEq w c h hs h2 hs2 hh hh2, runOp_arcIntoRaw w c h hs hh,
    runOp_arcFromRaw w c h hs hh, rfl, fun x r => by simp⟩

/-! ## 2. the payload is released exactly once, by the decrement that reaches zero -/

/-- **C11.2.**  (a) The `Drop` glue `afterDec a last` unregisters the allocation exactly when
`last = true`.  (b) `refDecEffect` returns `last = true` only when the count reaches 0.
(c) Once the count is 0 every further `refDecEffect` on the object panics with "Arc is already
released" — so no second operation can be "the last one". -/
theorem ArcObj.drop_once :
    (∀ (w w' : World) (a : Nat) (last : Bool), a < w.arcs.length → w.afterDec a last = .ok w' →
      (w'.arcInfo a).registered = ((w.arcInfo a).registered && !last) ∧
      (last = true → (w.arcInfo a).registered = true ∧ (w.arcInfo a).stdCount = 1)) ∧
    (∀ (w w' : World) (o : Nat) (s : ArcSt) (last : Bool), w.getArc o = .ok s →
      w.refDecEffect o = .ok (w', last) →
      ∃ s', w'.getArc o = .ok s' ∧ s'.refCnt + 1 = s.refCnt ∧ (last = true ↔ s'.refCnt = 0)) ∧
    (∀ (w : World) (o : Nat) (s : ArcSt), w.getArc o = .ok s → s.refCnt = 0 →
      w.refDecEffect o = .error .arcReleased) := by
  refine ⟨?_, ?_, ?_⟩
  · intro w w' a last ha h
    rw [afterDec_eq] at h
    cases last with
    | false =>
      simp only [Bool.false_eq_true, if_false, Except.ok.injEq] at h
      subst h
      rw [arcInfo_modArc_self w a _ ha]
      simp
    | true =>
      simp only [if_true] at h
      by_cases h1 : (w.arcInfo a).stdCount = 1
      · cases h2 : (w.arcInfo a).registered with
        | false => simp [h1, h2] at h
        | true =>
          simp only [h1, h2, ne_eq, not_true_eq_false, if_false, Bool.true_eq_false,
            Except.ok.injEq] at h
          subst h
          rw [arcInfo_modArc_self w a _ ha]
          simp [h1]
      · simp [h1] at h
  · intro w w' o s last hg hr
    have f := refDecEffect_inv hg hr
    refine ⟨_, f.arc, ?_, ?_⟩
    · have := f.live; simp only [arcDecSt]; omega
    · rw [f.last_iff]; have := f.live; simp only [arcDecSt]; omega
  · intro w o s hg h0
    rw [refDecEffect_eq w o s hg]; simp [h0]

/-! ## 3. every earlier drop happens-before the final drop -/

/-- Histories of one Arc object: creation, increments, `refDecEffect`s executed in arbitrary
worlds satisfying `ok`, and the scheduler's `set_last_access` bookkeeping.  The list records the
causality of every dropper at its drop, oldest first. -/
inductive ArcObj.Run (ok : World → Prop) : ArcSt → List VV → Prop
  | fresh : ArcObj.Run ok {} []
  | inc {s : ArcSt} {drops : List VV} :
      ArcObj.Run ok s drops → ArcObj.Run ok { s with refCnt := s.refCnt + 1 } drops
  | dec {s : ArcSt} {drops : List VV} (w w' : World) (o : Nat) (last : Bool) (s' : ArcSt) :
      ArcObj.Run ok s drops → ok w → w.getArc o = .ok s → w.refDecEffect o = .ok (w', last) →
      w'.getArc o = .ok s' → ArcObj.Run ok s' (drops ++ [w.ths.caus])
  | access {s : ArcSt} {drops : List VV} (act : Action) (pid : Nat) (vv : VV) :
      ArcObj.Run ok s drops → ArcObj.Run ok (s.setLastAccess act pid vv) drops

/-- every decrement released: `synchronize` is above the causality every dropper had at its drop -/
theorem ArcObj.Run.released {ok : World → Prop} {s : ArcSt} {drops : List VV}
    (h : ArcObj.Run ok s drops) : ∀ c ∈ drops, c.le s.sync.hb := by
  induction h with
  | fresh => intro c hc; cases hc
  | inc _ ih => exact ih
  | dec w w' o last s' _ _ hg hr hg' ih =>
    have f := refDecEffect_inv hg hr
    have := f.arc.symm.trans hg'
    cases this
    intro c hc
    simp only [List.mem_append, List.mem_singleton] at hc
    rcases hc with hc | hc
    · exact C12.VV.le_trans (ih c hc) (arcDecSt_releases _ _ _).2
    · subst hc; exact (arcDecSt_releases _ _ _).1
  | access act pid vv _ ih => cases act <;> exact ih

/-- **C11.3.**  One step: every `refDecEffect` releases (the new `synchronize` clock is above the
dropper's causality and above the old clock, so it only grows), and the one that reaches 0
acquires (its thread's causality afterwards is above the new clock).  In every history: the
thread performing the FINAL decrement ends with a causality above the causality that every
earlier dropper had at its drop (and above its own). -/
theorem ArcObj.drops_hb_final :
    (∀ (w w' : World) (o : Nat) (s s' : ArcSt) (last : Bool), w.getArc o = .ok s →
      w.refDecEffect o = .ok (w', last) → w'.getArc o = .ok s' →
      w.ths.caus.le s'.sync.hb ∧ s.sync.hb.le s'.sync.hb ∧
      (last = true → ActiveOk w.ths → w'.ths.caus = w.ths.caus.join s'.sync.hb) ∧
      (last = false → w'.ths = w.ths)) ∧
    (∀ (ok : World → Prop) (s : ArcSt) (drops : List VV), ArcObj.Run ok s drops →
      ∀ (w w' : World) (o : Nat), ActiveOk w.ths → w.getArc o = .ok s →
        w.refDecEffect o = .ok (w', true) →
        (∀ c ∈ drops, c.le w'.ths.caus) ∧ w.ths.caus.le w'.ths.caus) := by
  constructor
  · intro w w' o s s' last hg hr hg'
    have f := refDecEffect_inv hg hr
    have := f.arc.symm.trans hg'
    cases this
    refine ⟨(arcDecSt_releases _ _ _).1, (arcDecSt_releases _ _ _).2, ?_, ?_⟩
    · intro hl hact; subst hl; exact f.caus_last hact
    · intro hl; subst hl; exact f.threads_notlast
  · intro ok s drops hrun w w' o hact hg hr
    have f := refDecEffect_inv hg hr
    have hc := f.caus_last hact
    rw [hc]
    refine ⟨fun c hcm => ?_, C12.VV.le_join_left _ _⟩
    exact C12.VV.le_trans (hrun.released c hcm)
      (C12.VV.le_trans (arcDecSt_releases _ _ _).2 (C12.VV.le_join_right _ _))

/-- `get_mut`, `try_unwrap` (first half) and `strong_count` acquire as well: afterwards the
thread's causality is above the causality of every earlier dropper.  (For `strong_count` this is
stronger than std, which uses a relaxed load.) -/
theorem ArcObj.inspect_acquires {ok : World → Prop} {s : ArcSt} {drops : List VV}
    (hrun : ArcObj.Run ok s drops) {w : World} {c : TCtl} {h : Nat} {hs : HandleSt}
    (hh : w.handle h = .ok hs) (hc : c.stage ≠ 0) (hg : w.getArc (w.arcInfo hs.arc).obj = .ok s)
    (live : s.refCnt ≠ 0) (hact : ActiveOk w.ths) :
    (∃ w', w.runOp c (.arcCount h) = .ok w' ∧ ∀ d ∈ drops, d.le w'.ths.caus) ∧
    ((w.arcInfo hs.arc).stdCount = s.refCnt →
      ∃ w', w.runOp c (.arcGetMut h) = .ok w' ∧ ∀ d ∈ drops, d.le w'.ths.caus) := by
  constructor
  · obtain ⟨w', hw, _, _, _, _, hcaus⟩ := (arcCount_effect hh hc hg).2 live
    refine ⟨w', hw, fun d hd => ?_⟩
    rw [hcaus hact]
    exact C12.VV.le_trans (hrun.released d hd) (C12.VV.le_join_right _ _)
  · intro hstd
    obtain ⟨w', hw, _, _, _, _, hcaus⟩ := (arcGetMut_effect hh hc hg).2 live hstd
    refine ⟨w', hw, fun d hd => ?_⟩
    rw [hcaus hact]
    exact C12.VV.le_trans (hrun.released d hd) (C12.VV.le_join_right _ _)

/-! ## 4. the dependence tables of the Arc object -/

/-- **C11.4.**  `last_dependent_access` / `set_last_access` of `rt/arc.rs` as equations.  The last
dependent access of a `RefDec` is the LATER (by position in the path) of `last_ref_dec` and
`last_ref_inspect` (repair of finding F10: before, it was `last_ref_dec` alone, so that
`strong_count(&a) ‖ drop(a2)` explored one order only); it never depends on `last_ref_inc`. -/
theorem Dep.arc (s : ArcSt) (pid : Nat) (v : VV) :
    s.lastDependentAccess .arcInc = s.lastInspect ∧
    s.lastDependentAccess .arcDec =
      (match s.lastDec, s.lastInspect with
       | some d, some i => if i.pathId > d.pathId then some i else some d
       | some d, none => some d
       | none, i => i) ∧
    s.lastDependentAccess .arcInspect =
      (match s.lastMod with
       | some .inc => s.lastInc
       | some .dec => s.lastDec
       | none => none) ∧
    s.setLastAccess .arcInc pid v = { s with lastMod := some .inc, lastInc := some ⟨pid, v⟩ } ∧
    s.setLastAccess .arcDec pid v = { s with lastMod := some .dec, lastDec := some ⟨pid, v⟩ } ∧
    s.setLastAccess .arcInspect pid v = { s with lastInspect := some ⟨pid, v⟩ } ∧
    -- what a `RefDec` is compared against is a function of `last_ref_dec` and `last_ref_inspect`
    -- alone (never of `last_ref_inc`) …
    (∀ s' : ArcSt, s'.lastDec = s.lastDec → s'.lastInspect = s.lastInspect →
      s'.lastDependentAccess .arcDec = s.lastDependentAccess .arcDec) ∧
    -- … and it is one of the two, the one with the larger path position
    (∀ acc, s.lastDependentAccess .arcDec = some acc →
      (s.lastDec = some acc ∨ s.lastInspect = some acc) ∧
      (∀ d, s.lastDec = some d → d.pathId ≤ acc.pathId) ∧
      (∀ i, s.lastInspect = some i → i.pathId ≤ acc.pathId)) := by
  refine ⟨rfl, rfl, rfl, rfl, rfl, rfl, fun s' h1 h2 => ?_, fun acc h => ?_⟩
  · unfold ArcSt.lastDependentAccess
    simp only [h1, h2]
  · unfold ArcSt.lastDependentAccess at h
    cases hd : s.lastDec with
    | none =>
      rw [hd] at h
      simp only at h
      refine ⟨Or.inr h, fun d hd' => (by cases hd'), fun i hi => ?_⟩
      rw [h] at hi; cases hi; exact Nat.le_refl _
    | some d =>
      cases hi : s.lastInspect with
      | none =>
        rw [hd, hi] at h
        simp only [Option.some.injEq] at h
        subst h
        exact ⟨Or.inl rfl, fun d' hd' => by cases hd'; exact Nat.le_refl _,
          fun i hi' => by cases hi'⟩
      | some i =>
        rw [hd, hi] at h
        simp only at h
        by_cases hlt : i.pathId > d.pathId
        · rw [if_pos hlt] at h
          cases h
          exact ⟨Or.inr rfl, fun d' hd' => by cases hd'; exact Nat.le_of_lt hlt,
            fun i' hi' => by cases hi'; exact Nat.le_refl _⟩
        · rw [if_neg hlt] at h
          cases h
          exact ⟨Or.inl rfl, fun d' hd' => by cases hd'; exact Nat.le_refl _,
            fun i' hi' => by cases hi'; exact Nat.le_of_not_lt hlt⟩

/-- … spelled out on histories of accesses: after an `Inspect` is recorded at a path position later
than the last decrement, the dependent access of a later `RefDec` is that `Inspect`; after a `RefDec` is
recorded, the dependent access of a later `Inspect` is that `RefDec`: the relation between `Inspect`
and `RefDec` is symmetric (it was asymmetric before the repair of finding F10).  A `RefInc` still
never changes what a later `RefDec` is compared against, nor a `RefDec` what a later `RefInc` is. -/
theorem Dep.arc_symmetric (s : ArcSt) (pid : Nat) (v : VV) :
    ((∀ d, s.lastDec = some d → d.pathId < pid) →
      (s.setLastAccess .arcInspect pid v).lastDependentAccess .arcDec = some ⟨pid, v⟩) ∧
    (s.setLastAccess .arcInc pid v).lastDependentAccess .arcDec = s.lastDependentAccess .arcDec ∧
    (s.setLastAccess .arcDec pid v).lastDependentAccess .arcInspect = some ⟨pid, v⟩ ∧
    (s.setLastAccess .arcDec pid v).lastDependentAccess .arcInc = s.lastDependentAccess .arcInc := by
  refine ⟨fun hl => ?_, rfl, rfl, rfl⟩
  unfold ArcSt.setLastAccess ArcSt.lastDependentAccess
  cases hd : s.lastDec with
  | none => simp
  | some d => simp [hl d hd]

/-! ## 5. agreement with the reference semantics `Spec/SC.lean` (counter component) -/

/-- `C11.ArcAgree`, `C11.ScAt`, `C11.scCount`, `C11.scRet`, spelled out. -/
theorem ArcObj.sc_defs_spelled_out (w : World) (sc : SC.St) (h t a : Nat) (hs : HandleSt)
    (s : ArcSt) (p : Prog) (op : Op) :
    (ArcAgree w sc h hs s ↔
      w.handle h = .ok hs ∧ SC.arcOf sc h = some hs.arc ∧
      w.getArc (w.arcInfo hs.arc).obj = .ok s ∧ ArcInv w hs.arc s ∧
      hs.arc < sc.arcs.length ∧ s.refCnt = scCount sc hs.arc) ∧
    (ScAt p sc t op ↔
      (sc.th t).cvNotified = none ∧ SC.opOf p sc t = some op ∧ t < sc.ths.length) ∧
    scCount sc a = (sc.arcs.getD a (0, VV.zero)).1 ∧
    scRet sc t = (sc.th t).rets.head?.map (·.2) :=
  ⟨⟨fun x => ⟨x.1, x.2, x.3, x.4, x.5, x.6⟩, fun x => ⟨x.1, x.2.1, x.2.2.1, x.2.2.2.1, x.2.2.2.2.1,
      x.2.2.2.2.2⟩⟩,
    ⟨fun x => ⟨x.1, x.2, x.3⟩, fun x => ⟨x.1, x.2.1, x.2.2⟩⟩, rfl, rfl⟩

/-- **C11.5 (clone).** -/
theorem ArcObj.clone_matches_SC {p : Prog} {w : World} {sc : SC.St} {c : TCtl} {t h : Nat}
    {hs : HandleSt} {s : ArcSt} (h2 : Nat) (ag : ArcAgree w sc h hs s) (hc : c.stage ≠ 0)
    (live : s.refCnt ≠ 0) (at_ : ScAt p sc t (.arcClone h h2)) :
    ∃ w' sc' s', w.runOp c (.arcClone h h2) = .ok w' ∧ SC.step p sc t = [sc'] ∧
      w'.getArc (w.arcInfo hs.arc).obj = .ok s' ∧ ArcInv w' hs.arc s' ∧
      s'.refCnt = s.refCnt + 1 ∧ s'.refCnt = scCount sc' hs.arc ∧
      retOf w' = scRet sc' t ∧
      w'.handle h2 = .ok { arc := hs.arc } ∧ SC.arcOf sc' h2 = some hs.arc :=
  clone_agrees h2 ag hc live at_

/-- **C11.5 (increment_strong_count).** -/
theorem ArcObj.inc_matches_SC {p : Prog} {w : World} {sc : SC.St} {c : TCtl} {t h : Nat}
    {hs : HandleSt} {s : ArcSt} (ag : ArcAgree w sc h hs s) (hc : c.stage ≠ 0)
    (live : s.refCnt ≠ 0) (at_ : ScAt p sc t (.arcInc h)) :
    ∃ w' sc' s', w.runOp c (.arcInc h) = .ok w' ∧ SC.step p sc t = [sc'] ∧
      w'.getArc (w.arcInfo hs.arc).obj = .ok s' ∧ ArcInv w' hs.arc s' ∧
      s'.refCnt = s.refCnt + 1 ∧ s'.refCnt = scCount sc' hs.arc ∧
      retOf w' = scRet sc' t :=
  inc_agrees ag hc live at_

/-- **C11.5 (drop).**  Same new count, same "was last" result, handle consumed on both sides. -/
theorem ArcObj.drop_matches_SC {p : Prog} {w : World} {sc : SC.St} {c : TCtl} {t h : Nat}
    {hs : HandleSt} {s : ArcSt} (ag : ArcAgree w sc h hs s) (hc : c.stage ≠ 0)
    (live : s.refCnt ≠ 0) (at_ : ScAt p sc t (.arcDrop h)) :
    ∃ w' sc' s', w.runOp c (.arcDrop h) = .ok w' ∧ SC.step p sc t = [sc'] ∧
      w'.getArc (w.arcInfo hs.arc).obj = .ok s' ∧ ArcInv w' hs.arc s' ∧
      s'.refCnt = s.refCnt - 1 ∧ s'.refCnt = scCount sc' hs.arc ∧
      retOf w' = scRet sc' t ∧ retOf w' = some (boolRet (decide (s.refCnt = 1))) ∧
      w'.handle h = .error (.internal 70) ∧ SC.arcOf sc' h = none :=
  drop_agrees ag hc live at_

/-- **C11.5 (drop of a released Arc).**  The twin panics "Arc is already released", the reference
machine stops with `misuse 2`. -/
theorem ArcObj.drop_released_matches_SC {p : Prog} {w : World} {sc : SC.St} {c : TCtl}
    {t h : Nat} {hs : HandleSt} {s : ArcSt} (ag : ArcAgree w sc h hs s) (hc : c.stage ≠ 0)
    (dead : s.refCnt = 0) (at_ : ScAt p sc t (.arcDrop h)) :
    w.runOp c (.arcDrop h) = .error .arcReleased ∧
      ∃ sc', SC.step p sc t = [sc'] ∧ sc'.verdict = some (.misuse 2) :=
  drop_released_agrees ag hc dead at_

/-- **C11.5 (decrement_strong_count).** -/
theorem ArcObj.dec_matches_SC {p : Prog} {w : World} {sc : SC.St} {c : TCtl} {t h : Nat}
    {hs : HandleSt} {s : ArcSt} (ag : ArcAgree w sc h hs s) (hc : c.stage ≠ 0)
    (live : s.refCnt ≠ 0) (at_ : ScAt p sc t (.arcDec h)) :
    ∃ w' sc' s', w.runOp c (.arcDec h) = .ok w' ∧ SC.step p sc t = [sc'] ∧
      w'.getArc (w.arcInfo hs.arc).obj = .ok s' ∧ ArcInv w' hs.arc s' ∧
      s'.refCnt = s.refCnt - 1 ∧ s'.refCnt = scCount sc' hs.arc ∧
      retOf w' = scRet sc' t ∧ retOf w' = some (boolRet (decide (s.refCnt = 1))) :=
  dec_agrees ag hc live at_

/-- **C11.5 (strong_count).** -/
theorem ArcObj.count_matches_SC {p : Prog} {w : World} {sc : SC.St} {c : TCtl} {t h : Nat}
    {hs : HandleSt} {s : ArcSt} (ag : ArcAgree w sc h hs s) (hc : c.stage ≠ 0)
    (live : s.refCnt ≠ 0) (at_ : ScAt p sc t (.arcCount h)) :
    ∃ w' sc', w.runOp c (.arcCount h) = .ok w' ∧ SC.step p sc t = [sc'] ∧
      w'.exec.objs = w.exec.objs ∧ w'.arcs = w.arcs ∧ sc'.arcs = sc.arcs ∧
      retOf w' = scRet sc' t ∧ retOf w' = some (.val s.refCnt) :=
  count_agrees ag hc live at_

/-- **C11.5 (get_mut).** -/
theorem ArcObj.getMut_matches_SC {p : Prog} {w : World} {sc : SC.St} {c : TCtl} {t h : Nat}
    {hs : HandleSt} {s : ArcSt} (ag : ArcAgree w sc h hs s) (hc : c.stage ≠ 0)
    (live : s.refCnt ≠ 0) (at_ : ScAt p sc t (.arcGetMut h)) :
    ∃ w' sc', w.runOp c (.arcGetMut h) = .ok w' ∧ SC.step p sc t = [sc'] ∧
      w'.exec.objs = w.exec.objs ∧ w'.arcs = w.arcs ∧ sc'.arcs = sc.arcs ∧
      retOf w' = scRet sc' t ∧ retOf w' = some (boolRet (s.refCnt == 1)) :=
  getMut_agrees ag hc live at_

/-- **C11.5 (try_unwrap, shared).**  `Err` on both sides, nothing changes. -/
theorem ArcObj.unwrap_shared_matches_SC {p : Prog} {w : World} {sc : SC.St} {c : TCtl}
    {t h : Nat} {hs : HandleSt} {s : ArcSt} (ag : ArcAgree w sc h hs s) (hc : c.stage = 1)
    (live : s.refCnt ≠ 0) (shared : s.refCnt ≠ 1) (at_ : ScAt p sc t (.arcUnwrap h)) :
    ∃ w' sc', w.runOp c (.arcUnwrap h) = .ok w' ∧ SC.step p sc t = [sc'] ∧
      w'.exec.objs = w.exec.objs ∧ w'.arcs = w.arcs ∧ w'.handles = w.handles ∧
      sc'.arcs = sc.arcs ∧ sc'.handles = sc.handles ∧
      retOf w' = scRet sc' t ∧ retOf w' = some (.err 0) :=
  unwrap_shared_agrees ag hc live shared at_

/-- **C11.5 (try_unwrap, unique).**  The twin's second half completes what the reference machine
does in one step: count 0, handle consumed, `Ok`. -/
theorem ArcObj.unwrap_unique_matches_SC {p : Prog} {w : World} {sc : SC.St} {c : TCtl}
    {t h : Nat} {hs : HandleSt} {s : ArcSt} (ag : ArcAgree w sc h hs s) (hc : c.stage = 2)
    (unique : s.refCnt = 1) (at_ : ScAt p sc t (.arcUnwrap h)) :
    ∃ w' sc' s', w.runOp c (.arcUnwrap h) = .ok w' ∧ SC.step p sc t = [sc'] ∧
      w'.getArc (w.arcInfo hs.arc).obj = .ok s' ∧ ArcInv w' hs.arc s' ∧
      s'.refCnt = 0 ∧ scCount sc' hs.arc = 0 ∧
      retOf w' = scRet sc' t ∧ retOf w' = some (.ok 0) ∧
      w'.handle h = .error (.internal 70) ∧ SC.arcOf sc' h = none :=
  unwrap_unique_agrees ag hc unique at_

/-- **C11.5 (ptr_eq).** -/
theorem ArcObj.ptrEq_matches_SC {p : Prog} {w : World} {sc : SC.St} {c : TCtl} {t h : Nat}
    {hs : HandleSt} (h2 : Nat) (hs2 : HandleSt) (hh : w.handle h = .ok hs)
    (hh2 : w.handle h2 = .ok hs2) (ha : SC.arcOf sc h = some hs.arc)
    (ha2 : SC.arcOf sc h2 = some hs2.arc) (at_ : ScAt p sc t (.arcPtrEq h h2)) :
    ∃ w' sc', w.runOp c (.arcPtrEq h h2) = .ok w' ∧ SC.step p sc t = [sc'] ∧
      w'.exec = w.exec ∧ sc'.arcs = sc.arcs ∧
      retOf w' = scRet sc' t ∧ retOf w' = some (boolRet (hs.arc == hs2.arc)) :=
  ptrEq_agrees h2 hs2 hh hh2 ha ha2 at_

/-! ## 6. non-vacuity -/

section NonVacuity

/-- new, clone, count, drop, get_mut, drop — one thread -/
def ArcObj.demo : Prog :=
  { cfg := {}
    threads := [[.arcNew 0, .arcClone 0 1, .arcCount 0, .arcDrop 0, .arcGetMut 1, .arcDrop 1]] }

/-- the twin: count 2, first drop not last, then unique, second drop last; no leak -/
theorem ArcObj.demo_twin :
    (runIter ArcObj.demo (Exec.new 5 1000 none true)).events.map (·.ret) =
      [.unit, .unit, .val 2, .val 0, .val 1, .val 1] ∧
    (runIter ArcObj.demo (Exec.new 5 1000 none true)).term = none := by decide +kernel

/-- the same program keeping one handle: "Arc leaked" -/
theorem ArcObj.demo_leak :
    (runIter { cfg := {}, threads := [[.arcNew 0, .arcClone 0 1, .arcDrop 0]] }
      (Exec.new 5 1000 none true)).term = some .leakArc := by decide +kernel

/-- two threads: the clone is dropped by the other thread; first iteration of the twin -/
theorem ArcObj.demo_two_threads :
    ((runIter { cfg := {}, threads := [[.arcNew 0, .arcClone 0 1, .spawn 1, .arcDrop 0, .join 1],
        [.arcDrop 1]] } (Exec.new 5 1000 none true)).events.map fun e => (e.tid, e.pc, e.ret)) =
      [(0, 0, .unit), (0, 1, .unit), (0, 2, .unit), (0, 3, .val 0), (1, 0, .val 1),
        (0, 4, .unit)] := by decide +kernel

end NonVacuity

end LoomVerif

/-
Property C14: "Exploration terminates and never repeats an execution.  For every program whose
threads terminate, `loom::model` returns after finitely many iterations, each iteration follows
a different sequence of scheduling / read / spurious decisions from every other, and the
decision sequences advance in depth-first order, so the iteration count equals the number of
distinct explored paths."

Headline theorems about the model of `src/rt/path.rs` (`LoomVerif.Path`).  Vocabulary
(definitions in `LoomVerif/Proofs/PathDefs.lean`, `PathDfs.lean`, `PathApi.lean`,
`PathTerm.lean`):

* `Entry.dec e`      the decision taken at a stack entry; `Path.D p` the decision vector.
* `Entry.tried e`    decisions exhausted at the entry (visited threads / earlier stores / `[0]`).
* `Entry.excl e`     `tried`, plus the pseudo decision `NT` ("no thread active") for a schedule
                     that has an active thread.
* `Entry.alt e`      number of alternatives still open.
* `Entry.WF`, `Path.WF`, `Path.LenOk` (`branches.length ≤ cap`).
* `Path.Frame p q`   what API calls may do to the stack (entries are appended; old entries keep
                     constructor, `dec`, `tried`, `exploring`, `alt`; `WF` is preserved).
* `Path.Call pk p p'` one successful call of an API function (`pk` = `thread::panicking()`),
  `Path.Iter np p q`  a finite sequence of calls (`np = true`: none made while panicking).
* `Path.Explore R p qs` a run `p —R→ q₀ —step→ p₁ —R→ q₁ —step→ …`; `qs = [q₀, q₁, …]` are the
                     stacks at the ends of the iterations.  Runs need not be complete, so every
                     statement also covers all prefixes of a complete run (`Path.Finished`).
-/
import LoomVerif.Proofs.PathExample

namespace LoomVerif.C14
open LoomVerif LoomVerif.Path

/-! ## A. `Path.step` -/

/-- `step` succeeds iff some entry can be advanced; it advances the deepest such entry `m`,
drops everything below it and resets the cursor and the flags. -/
theorem step_spec (q p' : Path) :
    q.step = some p' ↔ ∃ (m : Nat) (hm : m < q.branches.length) (e' : Entry),
      q.branches[m].advance = some e' ∧
      (∀ j (hj : j < q.branches.length), m < j → q.branches[j].advance = none) ∧
      p' = { q with pos := 0, exploring := q.exploringOnStart, skipping := false,
                    branches := q.branches.take m ++ [e'] } :=
  step_eq_some_idx q p'

/-- `step` fails (exploration is over) iff no entry can be advanced. -/
theorem step_none (q : Path) : q.step = none ↔ ∀ e ∈ q.branches, e.advance = none :=
  step_eq_none q

/-- What advancing an entry does to decision, exhausted set and open alternatives. -/
theorem advance_spec {e e' : Entry} (h : e.advance = some e') (hw : e.WF) :
    e'.WF ∧ e'.kind = e.kind ∧ e.exploring = true ∧ e'.exploring = true ∧
    e'.alt + 1 = e.alt ∧
    (∀ d, d ∈ e'.tried → d = e.dec ∨ d ∈ e.tried) ∧
    (∀ d, d ∈ e.tried → d ∈ e'.tried) ∧
    ((∀ s, e = .sched s → s.activeIdx.isSome = true) → e.dec ∈ e'.tried) ∧
    (∀ d, d = e.dec ∨ d ∈ e.excl → d ∈ e'.excl) ∧
    e'.dec ≠ e.dec ∧ e'.dec ∉ e.tried ∧ e'.dec ∉ e.excl ∧
    e'.dec ∉ e'.tried ∧ e'.dec ∉ e'.excl := by
  have hx := Entry.advance_exploring h
  have hn := Entry.advance_dec_new h hw
  have hw' := Entry.advance_wf h hw
  exact ⟨hw', Entry.advance_kind h, hx, by rw [Entry.advance_exploring_eq h, hx],
    Entry.advance_alt h, Entry.advance_tried_inv h, Entry.advance_tried_mono h,
    Entry.advance_dec_tried h, Entry.advance_excl h, hn.1, hn.2.2.1, hn.2.1,
    Entry.dec_not_mem_tried hw', hn.2.2.2⟩

/-- For a schedule the next decision is the leftmost pending thread. -/
theorem advance_sched_leftmost {s : Sched} {e' : Entry} (h : (Entry.sched s).advance = some e')
    (hw : s.WF) : e'.dec = (findIdx? ThSt.isPending s.threads).getD NT := by
  obtain ⟨_, s', hs, rfl⟩ := Entry.advance_sched h
  exact Entry.advance_sched_dec hs hw

/-! ## B. API frame lemmas -/

theorem frame_refl (p : Path) : Frame p p := Frame.refl p

theorem frame_trans {p q r : Path} (h1 : Frame p q) (h2 : Frame q r) : Frame p r := h1.trans h2

theorem branchThread_frame {p p' : Path} {seed : List ThSt} {pk : Bool} {r : Option Nat}
    (h : p.branchThread seed pk = .ok (p', r)) :
    Frame p p' ∧ (p.WF → p'.WF) ∧ (pk = false → p.LenOk → p'.LenOk) :=
  have := Path.branchThread_frame h; ⟨this.1, this.1.wf, this.2⟩

theorem pushLoad_frame {p p' : Path} {seed : List Nat} {pk : Bool}
    (h : p.pushLoad seed pk = .ok p') :
    Frame p p' ∧ (p.WF → p'.WF) ∧ (pk = false → p.LenOk → p'.LenOk) :=
  have := Path.pushLoad_frame h; ⟨this.1, this.1.wf, this.2⟩

theorem branchSpurious_frame {p p' : Path} {pk b : Bool}
    (h : p.branchSpurious pk = .ok (p', b)) :
    Frame p p' ∧ (p.WF → p'.WF) ∧ (pk = false → p.LenOk → p'.LenOk) :=
  have := Path.branchSpurious_frame h; ⟨this.1, this.1.wf, this.2⟩

theorem branchLoad_frame {p p' : Path} {v : Nat} (h : p.branchLoad = .ok (p', v)) :
    Frame p p' ∧ (p.WF → p'.WF) ∧ p'.branches = p.branches :=
  have := Path.branchLoad_frame h; ⟨this.1, this.1.wf, this.2⟩

theorem backtrack_frame {p p' : Path} {point tid : Nat} (h : p.backtrack point tid = .ok p') :
    Frame p p' ∧ (p.WF → p'.WF) ∧ p'.branches.length = p.branches.length :=
  have := Path.backtrack_frame h; ⟨this.1, this.1.wf, this.2⟩

theorem exploreState_frame {p p' : Path} (h : p.exploreState = .ok p') :
    Frame p p' ∧ (p.WF → p'.WF) ∧ p'.branches = p.branches :=
  have := Path.exploreState_frame h; ⟨this.1, this.1.wf, this.2⟩

theorem critical_frame {p p' : Path} (h : p.critical = .ok p') :
    Frame p p' ∧ (p.WF → p'.WF) ∧ p'.branches = p.branches :=
  have := Path.critical_frame h; ⟨this.1, this.1.wf, this.2⟩

theorem skipBranch_frame (p : Path) :
    Frame p p.skipBranch ∧ (p.WF → p.skipBranch.WF) ∧ p.skipBranch.branches = p.branches :=
  have := Path.skipBranch_frame p; ⟨this.1, this.1.wf, this.2⟩

/-- Entries pushed by the API start with an empty exhausted set (for `branchThread`: when the
seed contains no `Visited` thread, as is the case for the seeds built by
`Execution::schedule`) and carry the stack's current `exploring` flag. -/
theorem pushed_entries_fresh (p : Path) :
    (∀ seed pk p', p.pushLoad seed pk = .ok p' →
      ∃ l, p'.branches = p.branches ++ [.load l] ∧ (Entry.load l).tried = [] ∧
        l.exploring = p.exploring) ∧
    (∀ pk b p', p.branchSpurious pk = .ok (p', b) →
      p'.branches = p.branches ∨
      ∃ s, p'.branches = p.branches ++ [.spur s] ∧ (Entry.spur s).tried = [] ∧
        s.exploring = p.exploring) ∧
    (∀ seed pk r p', p.branchThread seed pk = .ok (p', r) → ThSt.visited ∉ seed →
      p'.branches = p.branches ∨
      ∃ s, p'.branches = p.branches ++ [.sched s] ∧ (Entry.sched s).tried = [] ∧
        s.exploring = p.exploring) := by
  refine ⟨?_, ?_, ?_⟩
  · intro seed pk p' h
    obtain ⟨_, _, rfl⟩ := pushLoad_ok h
    exact ⟨_, rfl, newLoad_tried p seed, rfl⟩
  · intro pk b p' h
    rcases branchSpurious_ok h with rfl | ⟨_, rfl⟩
    · exact Or.inl rfl
    · exact Or.inr ⟨_, rfl, rfl, rfl⟩
  · intro seed pk r p' h hv
    rcases branchThread_ok h with rfl | ⟨_, _, _, rfl⟩
    · exact Or.inl rfl
    · exact Or.inr ⟨_, rfl, newSched_tried p seed hv, rfl⟩

/-- Every API call, and every iteration, satisfies the frame condition; without panicking
they respect the branch limit. -/
theorem iteration_frame {np : Bool} {p q : Path} (h : Iter np p q) :
    Frame p q ∧ (p.WF → q.WF) ∧ (np = true → p.LenOk → q.LenOk) :=
  ⟨h.frame, h.frame.wf, fun hnp => by subst hnp; exact h.lenOk⟩

/-! ## C. no execution is repeated -/

/-- The decision vectors of the iterations of a run are pairwise different. -/
theorem no_repeat {cap : Nat} {bound : Option Nat} {expl : Bool} {np : Bool} {qs : List Path}
    (h : Explore (Iter np) (Path.new cap bound expl) qs) :
    (qs.map D).Pairwise (· ≠ ·) :=
  no_repeat_frame (h.mono fun _ _ hi => hi.frame) (by intro e he; cases he)

/-- The same for any relation between the start and the end of an iteration that satisfies
the frame condition, from any well-formed stack (e.g. one restored from a checkpoint). -/
theorem no_repeat_general {R : Path → Path → Prop} (hR : ∀ p q, R p q → Frame p q)
    {p : Path} {qs : List Path} (h : Explore R p qs) (hw : p.WF) :
    (qs.map D).Pairwise (· ≠ ·) :=
  no_repeat_frame (h.mono hR) hw

/-! ## D. depth-first order -/

/-- Consecutive iterations: with `m` the deepest entry that still had an alternative at the
end of iteration `i`, iteration `i + 1` repeats the decisions above `m` and takes at `m` a
decision that differs from the old one and from everything exhausted (excluded) there
before; the old decision and the old exhausted set are excluded from then on. -/
theorem dfs_order {cap : Nat} {bound : Option Nat} {expl : Bool} {np : Bool} {qs : List Path}
    (h : Explore (Iter np) (Path.new cap bound expl) qs) :
    ∀ i (hi : i + 1 < qs.length),
      ∃ (m : Nat) (hm : m < qs[i].branches.length) (hm' : m < qs[i + 1].branches.length),
        (qs[i].branches[m].advance).isSome = true ∧
        (∀ j (hj : j < qs[i].branches.length), m < j → qs[i].branches[j].advance = none) ∧
        (D qs[i + 1]).take m = (D qs[i]).take m ∧
        qs[i + 1].branches[m].dec ≠ qs[i].branches[m].dec ∧
        qs[i + 1].branches[m].dec ∉ qs[i].branches[m].tried ∧
        qs[i + 1].branches[m].dec ∉ qs[i].branches[m].excl ∧
        (∀ d, d = qs[i].branches[m].dec ∨ d ∈ qs[i].branches[m].tried →
          d ∈ qs[i + 1].branches[m].excl) :=
  dfs_order_frame (h.mono fun _ _ hi => hi.frame) (by intro e he; cases he)

/-! ## E. termination -/

/-- The measure: the stack read as a base-8 number with `cap` digits, digit `i` being the
number of open alternatives of entry `i` (7 for a slot not yet in use). -/
theorem measure_eq (p : Path) : w p = wt p.cap (p.branches.map Entry.alt) := rfl

/-- API calls never increase the measure, `step` decreases it, and it is below `8 ^ cap`. -/
theorem measure_spec :
    (∀ p q, Frame p q → p.WF → w q ≤ w p) ∧
    (∀ q p', q.step = some p' → q.LenOk → w p' < w q) ∧
    (∀ p, p.WF → w p < 8 ^ p.cap) :=
  ⟨fun _ _ => w_frame, fun _ _ => w_step, fun _ hw => w_lt hw⟩

/-- A run has at most `8 ^ cap` iterations. -/
theorem terminates {cap : Nat} {bound : Option Nat} {expl : Bool} {qs : List Path}
    (h : Explore (Iter true) (Path.new cap bound expl) qs) : qs.length ≤ 8 ^ cap :=
  terminates_frame (p := Path.new cap bound expl) (h.mono fun _ _ hi => hi.frameL)
    (by intro e he; cases he) (Nat.zero_le _)

/-- There is no infinite run: `Path.step` cannot succeed for ever. -/
theorem no_infinite_run {cap : Nat} {bound : Option Nat} {expl : Bool} (ps qs : Nat → Path)
    (h0 : ps 0 = Path.new cap bound expl)
    (hrun : ∀ i, Iter true (ps i) (qs i) ∧ (qs i).step = some (ps (i + 1))) : False :=
  no_infinite_frame ps qs (by rw [h0]; intro e he; cases he)
    (by rw [h0]; exact Nat.zero_le _) (fun i => ⟨(hrun i).1.frameL, (hrun i).2⟩)

/-! ## F. the iteration count is the number of distinct paths -/

theorem count_is_paths {cap : Nat} {bound : Option Nat} {expl : Bool} {np : Bool}
    {qs : List Path} (h : Explore (Iter np) (Path.new cap bound expl) qs) :
    distinctCount (qs.map D) = qs.length :=
  count_frame (h.mono fun _ _ hi => hi.frame) (by intro e he; cases he)

/-- `distinctCount` counts distinct elements: it is the length of a duplicate-free list with
the same members. -/
theorem distinctCount_spec {α} [DecidableEq α] (l : List α) :
    distinctCount l = (dedup l).length ∧ (dedup l).Nodup ∧ ∀ a, a ∈ dedup l ↔ a ∈ l :=
  ⟨rfl, nodup_dedup l, mem_dedup l⟩

/-! ## G. non-vacuity -/

/-- A complete run of four iterations built from the API functions (two threads, one
spurious-wakeup decision): it satisfies the hypotheses of C–F. -/
example : ∃ qs, Explore (Iter true) (Path.new 4 none true) qs ∧ Finished qs ∧
    qs.map D = [[0, 0], [0, 1], [1, 0], [1, 1]] :=
  ⟨_, Example.run, Example.finished, Example.decisions⟩

example : ([[0, 0], [0, 1], [1, 0], [1, 1]] : List (List Nat)).Pairwise (· ≠ ·) := by
  have := no_repeat (Example.run)
  rwa [Example.decisions] at this

end LoomVerif.C14

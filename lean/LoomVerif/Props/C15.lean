/-
Property C15: "A preemption bound restricts exploration soundly and monotonically.  With
`preemption_bound = Some(n)` every explored execution contains at most n switches away from a
thread that could have continued, every result found is also found by the unbounded run, the
result set grows monotonically with n, and for n at least the number of operations of the
program it equals the unbounded result set."

What the model of `src/rt/path.rs` (`LoomVerif.Path`) carries of this property; the statements
about result sets are evaluated elsewhere.  Vocabulary (definitions in
`LoomVerif/Proofs/PathPreempt.lean`):

* `Sched.preempted s`   `s.initialActive = some a` and `s.activeIdx ≠ some a`: the branch point
                        was switched away from the thread that was running and could have
                        continued.
* `refCount l`          the reference preemption count of a stack (prefix) `l`: the number of
                        schedule entries that are `preempted`.
* `lastSched l`         index of the last schedule entry of `l`; `schedCount l` their number.
* `Path.PreInv p`       every schedule entry `s` at index `i` has
                        `s.prev = lastSched (take i)` and `s.preemptions = refCount (take i)`.
* `Sched.BoundOk n s`   `s.preemptions ≤ n`, and if `s.preemptions = n` then `s` has no `Pending`
                        thread and is not `preempted`.
* `Path.BoundInv p`     with `p.bound = some n` every schedule entry is `BoundOk n`.
* `Path.SeedOk seed`    the seed handed to `branch_thread` contains no `Pending` thread
                        (`Execution::schedule` only produces `Active/Skip/Yield/Disabled`:
                        `seed_ok`).
* `Path.CallS`, `Path.IterS`  `Path.Call` / `Path.Iter` with `SeedOk` seeds;
  `Path.Reach cap bound expl p`  `p` is reachable from `Path.new cap bound expl` by such API
                        calls and `Path.step` (every stack `Builder::check` can ever hold).
-/
import LoomVerif.Proofs.PathPreempt

namespace LoomVerif.C15
open LoomVerif LoomVerif.Path

/-! ## 1. the stored `preemptions` fields count preemptions -/

/-- `Schedule::preemptions()` is the stored count plus one if the entry is preempted. -/
theorem preemptionsNow_spec (s : Sched) :
    s.preemptionsNow = s.preemptions + (if s.preempted then 1 else 0) :=
  s.preemptionsNow_eq

theorem preInv_new (cap : Nat) (bound : Option Nat) (expl : Bool) :
    (Path.new cap bound expl).PreInv := Path.preInv_new cap bound expl

/-- Every API function preserves `PreInv` (no hypothesis on seeds is needed). -/
theorem preInv_api (p : Path) (hi : p.PreInv) :
    (∀ seed pk p' r, p.branchThread seed pk = .ok (p', r) → p'.PreInv) ∧
    (∀ seed pk p', p.pushLoad seed pk = .ok p' → p'.PreInv) ∧
    (∀ pk p' b, p.branchSpurious pk = .ok (p', b) → p'.PreInv) ∧
    (∀ p' v, p.branchLoad = .ok (p', v) → p'.PreInv) ∧
    (∀ point tid p', p.backtrack point tid = .ok p' → p'.PreInv) ∧
    (∀ p', p.exploreState = .ok p' → p'.PreInv) ∧
    (∀ p', p.critical = .ok p' → p'.PreInv) ∧
    p.skipBranch.PreInv :=
  ⟨fun _ _ _ _ h => branchThread_preInv h hi, fun _ _ _ h => pushLoad_preInv h hi,
   fun _ _ _ h => branchSpurious_preInv h hi, fun _ _ h => branchLoad_preInv h hi,
   fun _ _ _ h => backtrack_preInv h hi, fun _ h => exploreState_preInv h hi,
   fun _ h => critical_preInv h hi, skipBranch_preInv hi⟩

/-- `Path::step` preserves `PreInv`: it only changes which thread is active in the last
remaining entry, whose stored fields (and prefix) stay the same. -/
theorem preInv_step {q p' : Path} (h : q.step = some p') (hi : q.PreInv) : p'.PreInv :=
  step_preInv h hi

/-- `PreInv` holds at the end of every iteration of every run from `Path::new`. -/
theorem preInv_run {cap : Nat} {bound : Option Nat} {expl np : Bool} {qs : List Path}
    (h : Explore (Iter np) (Path.new cap bound expl) qs) : ∀ q ∈ qs, q.PreInv :=
  Explore.preInv h (Path.preInv_new cap bound expl)

/-- `Sched.preemptions_counts`: under `PreInv` (hence in every run) the schedule entry at index
`i` points to the previous schedule entry, stores the reference preemption count of the
entries strictly before it, and its `preemptions()` is the reference count up to and including
itself; the value stored into a new schedule (`nowOfLast`) is the count of the whole stack. -/
theorem preemptions_counts {p : Path} (hi : p.PreInv) :
    (∀ i s, p.branches[i]? = some (.sched s) →
      s.prev = lastSched (p.branches.take i) ∧
      s.preemptions = refCount (p.branches.take i) ∧
      s.preemptionsNow = refCount (p.branches.take (i + 1))) ∧
    p.nowOfLast = refCount p.branches :=
  ⟨fun i s hs => ⟨(hi i s hs).1, (hi.entry hs).1, (hi.entry hs).2.1⟩, hi.nowOfLast⟩

/-- `lastSched` is what `Path::last_schedule` computes, and it points to a schedule entry after
which there is no other schedule entry. -/
theorem lastSched_spec (p : Path) :
    p.lastSchedule = lastSched p.branches ∧
    (∀ j, lastSched p.branches = some j → ∃ s, p.branches[j]? = some (.sched s)) ∧
    (∀ l e, lastSched (l ++ [e]) = if e.isSched then some l.length else lastSched l) :=
  ⟨rfl, fun _ h => lastSched_sched h, lastSched_snoc⟩

/-! ## 2. the bound invariant -/

/-- The seeds `Execution::schedule` hands to `branch_thread` never contain `Pending`. -/
theorem seed_ok (ths : List Thread) (ini : Option Nat) : SeedOk (Exec.seed ths ini) :=
  Exec.seed_ok ths ini

/-- Everything reachable satisfies both invariants and keeps the configured bound. -/
theorem reach_inv {cap : Nat} {bound : Option Nat} {expl : Bool} {p : Path}
    (h : Reach cap bound expl p) : p.PreInv ∧ p.BoundInv ∧ p.bound = bound := h.inv

/-- The ends of the iterations of a run (with `SeedOk` seeds) are reachable. -/
theorem reach_run {cap : Nat} {bound : Option Nat} {expl np : Bool} {qs : List Path}
    (h : Explore (IterS np) (Path.new cap bound expl) qs) : ∀ q ∈ qs, Reach cap bound expl q :=
  Reach.explore .init h

/-- `Sched.bound_invariant`: with `preemption_bound = Some(n)`, every schedule entry of every
reachable stack stores at most `n` preemptions, reports at most `n` preemptions
(`Schedule::preemptions()`), and once it stores exactly `n` it has no `Pending` thread (so
`Path::step` never advances it) and is not preempted. -/
theorem bound_invariant {cap n : Nat} {expl : Bool} {p : Path}
    (h : Reach cap (some n) expl p) :
    ∀ s, Entry.sched s ∈ p.branches →
      s.preemptions ≤ n ∧ s.preemptionsNow ≤ n ∧
      (s.preemptions = n → (∀ t ∈ s.threads, t.isPending = false) ∧ s.preempted = false ∧
        (Entry.sched s).advance = none) := by
  intro s hs
  obtain ⟨_, hb, hbd⟩ := h.inv
  have ok := hb n hbd s hs
  refine ⟨ok.1, ok.now_le, fun heq => ⟨(ok.2 heq).1, (ok.2 heq).2, ?_⟩⟩
  cases ha : (Entry.sched s).advance with
  | none => rfl
  | some e' =>
    obtain ⟨_, s', hs', _⟩ := Entry.advance_sched ha
    obtain ⟨t, ht, hp⟩ := Sched.advance_pending hs'
    rw [(ok.2 heq).1 t ht] at hp; cases hp

/-- The assertion `self.preemptions <= bound` of `Schedule::backtrack` (error `.internal 2` of
the model) cannot fail on a reachable stack, neither directly nor inside `Path::backtrack`;
and the `debug_assert!` of `branch_thread` (the value stored into a new schedule is within the
bound; not part of the model) holds as well. -/
theorem bound_assert_unreachable {cap n : Nat} {expl : Bool} {p : Path}
    (h : Reach cap (some n) expl p) :
    (∀ s tid, Entry.sched s ∈ p.branches → s.backtrack tid p.bound ≠ .error (.internal 2)) ∧
    (∀ point tid, p.backtrack point tid ≠ .error (.internal 2)) ∧
    (∀ seed, (p.newSched seed).preemptions ≤ n) := by
  obtain ⟨_, hb, hbd⟩ := h.inv
  refine ⟨?_, fun _ _ => backtrack_ne_assert hb, ?_⟩
  · intro s tid hs; rw [hbd]; exact (hb n hbd s hs).backtrack_ne_assert
  · intro seed; rw [newSched_preemptions]; exact hb.nowOfLast_le hbd

/-! ## 3. every explored execution is within the bound -/

/-- `C15_each_execution_bounded`: with `preemption_bound = Some(n)` the reference preemption
count of every reachable stack — in particular of the stack at the end of every iteration, which
is the sequence of decisions of that execution — is at most `n`. -/
theorem C15_each_execution_bounded {cap n : Nat} {expl : Bool} {p : Path}
    (h : Reach cap (some n) expl p) : refCount p.branches ≤ n := by
  obtain ⟨hp, hb, hbd⟩ := h.inv
  rw [← hp.nowOfLast]; exact hb.nowOfLast_le hbd

theorem C15_each_execution_bounded_run {cap n : Nat} {expl np : Bool} {qs : List Path}
    (h : Explore (IterS np) (Path.new cap (some n) expl) qs) :
    ∀ q ∈ qs, refCount q.branches ≤ n :=
  fun q hq => C15_each_execution_bounded (reach_run h q hq)

/-- The same for every prefix of the stack. -/
theorem C15_each_prefix_bounded {cap n : Nat} {expl : Bool} {p : Path}
    (h : Reach cap (some n) expl p) (k : Nat) : refCount (p.branches.take k) ≤ n := by
  have := C15_each_execution_bounded h
  have h2 : refCount (p.branches.take k) ≤ refCount p.branches :=
    (List.take_sublist k p.branches).countP_le
  omega

/-! ## 4. a bound that is not reached never cuts -/

/-- `Sched.large_bound_never_cuts`: on an entry that stores fewer than `n` preemptions,
`Schedule::backtrack` with bound `n` does exactly what it does without a bound; on an entry
that stores exactly `n` it returns without marking anything. -/
theorem large_bound_never_cuts {s : Sched} {n : Nat} (tid : Nat) (hx : s.exploring = true) :
    (s.preemptions < n →
      s.backtrack tid (some n) = .ok (Sched.backtrack.mark tid s) ∧
      s.backtrack tid (some n) = s.backtrack tid none) ∧
    (s.preemptions = n → s.backtrack tid (some n) = .ok s) :=
  ⟨fun h => ⟨Sched.backtrack_of_lt tid hx h,
    by rw [Sched.backtrack_of_lt tid hx h, Sched.backtrack_none tid hx]⟩,
   fun h => Sched.backtrack_of_eq tid hx h⟩

/-- Lifted to stacks: under `PreInv` (hence in every run) a schedule entry stores fewer
preemptions than there are schedule entries; so on a stack with at most `n` schedule entries
`Schedule::backtrack` never returns early, on any entry. -/
theorem large_bound_never_cuts_path {p : Path} (hi : p.PreInv) {n : Nat}
    (hn : schedCount p.branches ≤ n) :
    ∀ (i : Nat) (s : Sched) (tid : Nat), p.branches[i]? = some (Entry.sched s) →
      s.exploring = true →
      s.preemptions < n ∧ s.backtrack tid (some n) = s.backtrack tid none := by
  intro i s tid hs hx
  have h1 := (hi.entry hs).2.2
  have hlt : s.preemptions < n := by omega
  exact ⟨hlt, ((large_bound_never_cuts tid hx).1 hlt).2⟩

/-! ## 5. non-vacuity -/

namespace Ex
abbrev get {α} [Inhabited α] := @Path.Example.get α _

/-- thread 0 running, thread 1 runnable -/
def seedA : List ThSt := [.active, .skip]
/-- thread 1 running, thread 0 runnable -/
def seedB : List ThSt := [.skip, .active]

theorem seedA_ok : SeedOk seedA := by unfold SeedOk seedA; decide
theorem seedB_ok : SeedOk seedB := by unfold SeedOk seedB; decide

/-- two threads, bound 1 -/
def p0 : Path := Path.new 8 (some 1) true
def a1 : Path := (get (p0.branchThread seedA)).1   -- entry 0
def a2 : Path := get (a1.backtrack 0 1)            -- DPOR: also try thread 1 at entry 0
def a3 : Path := (get (a2.branchThread seedA)).1   -- entry 1
def q0 : Path := get (a3.backtrack 1 1)            -- DPOR: also try thread 1 at entry 1
def p1 : Path := q0.step.getD default              -- entry 1 switched to thread 1: a preemption
def b1 : Path := (get (p1.branchThread seedA)).1   -- replay entry 0
def b2 : Path := (get (b1.branchThread seedA)).1   -- replay entry 1
def b3 : Path := (get (b2.branchThread seedB)).1   -- entry 2 stores 1 = bound
def q1 : Path := get (b3.backtrack 2 0)            -- DPOR at entry 2 is cut by the bound

theorem reach_q1 : Reach 8 (some 1) true q1 :=
  (((((((((Reach.init.call false (.branchThread seedA (some 0) seedA_ok rfl)).call false
    (.backtrack 0 1 rfl)).call false (.branchThread seedA (some 0) seedA_ok rfl)).call false
    (.backtrack 1 1 rfl)).step (p' := p1) rfl).call false
    (.branchThread seedA (some 0) seedA_ok rfl)).call false
    (.branchThread seedA (some 1) seedA_ok rfl)).call false
    (.branchThread seedB (some 1) seedB_ok rfl)).call false (.backtrack 2 0 rfl))

/-- the reference counts of the two executions: no preemption, then one -/
example : refCount q0.branches = 0 ∧ refCount p1.branches = 1 ∧ refCount q1.branches = 1 := by
  decide

/-- the stored fields agree with the counts (`PreInv` in action) -/
example : (q1.branches.filterMap fun e => match e with
      | .sched s => some (s.prev, s.preemptions, s.preemptionsNow) | _ => none) =
    [(none, 0, 0), (some 0, 0, 1), (some 1, 1, 1)] := by decide

/-- the cut: entry 2 is at the bound and is left untouched, an unbounded stack would have
marked thread 0 there -/
example : q1.schedAt 2 = b3.schedAt 2 ∧
    (get ({ b3 with bound := none }.backtrack 2 0)).schedAt 2 ≠ b3.schedAt 2 := by decide

example : refCount q1.branches ≤ 1 := C15_each_execution_bounded reach_q1

/-- `SeedOk` is needed: a seed that contains `Pending` lets `step` switch a schedule that is at
the bound (bound 0), the count exceeds the bound and the assertion of `Schedule::backtrack`
fails.  (`Execution::schedule` never builds such a seed: `seed_ok`.) -/
def w0 : Path := Path.new 8 (some 0) true
def w1 : Path := (get (w0.branchThread [.active, .pending])).1
def w2 : Path := w1.step.getD default
def w3 : Path := (get (w2.branchThread seedA)).1
def w4 : Path := (get (w3.branchThread seedB)).1

example : refCount w2.branches = 1 ∧ w4.backtrack 1 0 = .error (.internal 2) := ⟨by decide, rfl⟩

end Ex

end LoomVerif.C15

/-
REFINEMENT of the reference interleaving semantics by the twin, for the lock fragment of the DSL.

Every run of the twin (`World.runLoop` from `World.init`) is, operation by operation, an execution of the
reference semantics `Spec/SC.lean` as far as VALUES and BLOCKING are concerned: the results the twin records
(`World.complete`, the `(thread, pc, result)` triples of `World.events`) are exactly the results of a run of the
reference, each of whose steps is a step of a thread that is ENABLED in the reference state (a `lock` step only
on a free mutex, a `join` step only on a finished thread).  Data-race verdicts (the only use of the vector clocks
of `Spec/SC.lean`) are outside this statement, as are the runs in which the twin panics.

Fragment (operations covered, each at full strength): `spawn`, `join`, `lock`, `unlock`, `tryLock`, `cellRead`,
`cellWrite`, `ifEq`, and the end of a thread.  Not covered: `send`/`recv`, `nNotify`/`nWait` and all other
operations.

Hypotheses, all explicit:
* `Refine.WF prog` (decidable; `Proofs/RefineData.lean`): there is a main body; every operation of every body is
  a fragment operation whose cell / mutex index is declared (`c < nCells`, `m < nMutexes`) and every `spawn t`
  names an existing body `0 < t < threads.length`; each body is spawned by at most one operation of the program
  text (`SpawnOnce`; bodies have no loops).  NOT needed: `unlock` only by the holder (neither side checks the
  holder), `maxThreads` large enough (the twin panics otherwise: outside the statement), `join` only of spawned
  bodies (the twin fails with an internal error otherwise).
* `Refine.FreshExec exec`: the execution handed to `World.init` has the thread table of the start of an iteration
  (the main thread alone, active), as `Exec.new` and `Exec.step` produce it.  The path is arbitrary.
* NO LONGER a hypothesis: `Refine.saneRun fuel w0 = true` (computable): at every step of the run the ACTIVE thread
  EXISTS (has a control record).  A path to replay can name any thread index in a `Schedule` entry; real loom indexes
  its thread vector with it and panics, and so does the twin since `Exec.schedule` checks the index (`.internal 31`).
  Before that check the twin's `World.ctlOf` returned the default record, i.e. a phantom thread that ran the main
  body again (old counterexample `Refine.phantom_thread`: a run that completed without a panic and logged the
  result of one operation twice); the same execution now panics: `Refine.phantom_thread_panics`.  The property is
  now a theorem for every run from a fresh execution: `Refine.run_sane`.

Headlines: `Refine.step_data`, `Refine.enabled_data` (the data-only projection of the reference),
`Refine.R` (the abstraction relation, `Proofs/RefineRel.lean`), `Refine.step_simulation`,
`Refine.run_is_reference_execution`, `Refine.runIter_is_reference_execution`.
-/
import LoomVerif.Proofs.RefineRun
import LoomVerif.Proofs.RefineLift
import LoomVerif.Model.Check

namespace LoomVerif
namespace Refine

/-! ## 1. the data-only projection of the reference -/

/-- `SC.enabled` only reads the data (thread pcs / started / finished, mutex owners) -/
theorem enabled_data {p : Prog} {s : SC.St} {t : Nat} (hv : s.verdict = none) (hf : FragTh (s.th t))
    (hop : ∀ op, SC.opOf p s t = some op → isFrag op = true) :
    SC.enabled p s t = SCData.enabled p (data s) t :=
  SC.enabled_data hv hf hop

/-- `SC.step` on a fragment operation either stops with a verdict (a data race) or is `SCData.step` on the data -/
theorem step_data {p : Prog} {s s' : SC.St} {t : Nat} (hf : FragTh (s.th t))
    (hop : ∀ op, SC.opOf p s t = some op → isFrag op = true)
    (h : s' ∈ SC.step p s t) (hv : s'.verdict = none) : data s' ∈ SCData.step p (data s) t :=
  SC.step_data hf hop h hv

/-- the label of a step of `SCData.stepL` is the `(pc, result)` the step records in the thread's `rets`
(`St.ret`) -/
theorem label_is_recorded_result {p : Prog} {d d' : SCData} {t pc : Nat} {r : Ret}
    (ht : t < d.ths.length) (h : (some (pc, r), d') ∈ SCData.stepL p d t) :
    pc = (d.th t).pc ∧ (d'.th t).rets = (pc, r) :: (d.th t).rets ∧ (d'.th t).pc = pc + 1 :=
  SCData.stepL_label ht h

/-- conversely, every step of the data semantics from the data of a reference state (no verdict yet) is the data
of a step of `SC.step` of the same thread, unless that step stops with a data-race verdict -/
theorem step_lift {p : Prog} {s : SC.St} {t : Nat} {l : Option (Nat × Ret)} {d' : SCData}
    (hs : FragSt s) (h : (l, d') ∈ SCData.stepL p (data s) t) :
    ∃ s', s' ∈ SC.step p s t ∧ ((FragSt s' ∧ data s' = d') ∨ ∃ k, s'.verdict = some (.race k)) :=
  SC.step_lift hs h

theorem WF.fragProg {p : Prog} (h : WF p) : FragProg p := by
  intro a k op hop
  have := h.opOk hop
  cases op <;> first | rfl | (simp [Refine.opOk] at this)

/-! ## 3. one-step simulation -/

/-- **One-step simulation.**  `w` is related to the reference data `s`, its active thread exists and runs body
`t`; one stage of that thread succeeds (`stepActive = .ok w'`; panics are outside the statement).  Then the
program is kept and

* either `w'` is related to the same `s` and logs nothing (a stuttering step: branch points, blocking,
  scheduling, the epilogue stages other than the notification of the joiner),
* or `w'` is related to a successor `s'` of `s` by a step of thread `t` of the data semantics, ENABLED in `s`,
  and what the twin logs (`complete r`: the event `(t, pc, r)`) is exactly the label of that step, i.e. the
  `(pc, r)` the reference step records (`label_is_recorded_result`). -/
theorem step_simulation {w w' : World} {s : SCData} (hwf : WF w.prog) (hR : R w s)
    (hact : w.tid < w.ctl.length) (h : w.stepActive = .ok w') :
    w'.prog = w.prog ∧
    ((R w' s ∧ w'.events = w.events) ∨
     ∃ l s', SCData.enabled w.prog s (w.ctlOf w.tid).body = true ∧
       (l, s') ∈ SCData.stepL w.prog s (w.ctlOf w.tid).body ∧ R w' s' ∧
       w'.events.map triple = SCData.label (w.ctlOf w.tid).body l ++ w.events.map triple) :=
  step_sim hwf hR hact h

/-! ## 4. runs -/

/-- **Every complete run of the twin is an execution of the reference.**  From ANY execution record with a fresh
thread table (any path to replay, hence any schedule), if the run of the twin ends without a panic then there is
a run of the data semantics from the initial reference state — each step a step of a thread enabled in the
reference state — whose trace of recorded `(thread, pc, result)` triples is exactly the event log of the twin,
in order, and whose final state is related to the final world. -/
theorem run_is_reference_execution {prog : Prog} {exec : Exec} {w0 w : World} {fuel : Nat}
    (hwf : WF prog) (hfresh : FreshExec exec) (hinit : World.init prog exec = .ok w0)
    (hrun : World.runLoop fuel w0 = (w, none)) :
    ∃ s, SCData.Run prog (data (SC.init prog)) (w.events.reverse.map triple) s ∧ R w s := by
  obtain ⟨hR, hp, hev⟩ := init_R hwf hfresh hinit
  obtain ⟨s, h1, h2, _⟩ := runLoop_sim prog (data (SC.init prog)) hwf fuel w0 w _ hp hR
    (init_inRange hfresh hinit) (by rw [hev]; exact SCData.Run.nil _) hrun
  exact ⟨s, h1, h2⟩

/-- **Every run from a fresh execution is sane** (the former hypothesis of `run_is_reference_execution`): at
every step taken — whether the run completes, panics or runs out of fuel — the active thread has a control record.
(`Exec.schedule` refuses to activate a thread that is not in the thread table, and the thread table and the
control table have the same length in every world related to a reference state.) -/
theorem run_sane {prog : Prog} {exec : Exec} {w0 : World} (fuel : Nat)
    (hwf : WF prog) (hfresh : FreshExec exec) (hinit : World.init prog exec = .ok w0) :
    saneRun fuel w0 = true := by
  obtain ⟨hR, hp, _⟩ := init_R hwf hfresh hinit
  exact saneRun_of_R prog hwf fuel w0 _ hp hR (init_inRange hfresh hinit)

/-- … and hence an execution of `Spec/SC.lean` itself (`SCExec`: every step is `SC.step` of a thread that is
`SC.enabled`), with clocks: there is a reference execution from `SC.init prog` that either ends in a state whose
data is related to the final world of the twin (and the twin's event log is the trace of the corresponding data
run), or — a prefix of the run — ends in a data-race verdict. -/
theorem run_is_SC_execution {prog : Prog} {exec : Exec} {w0 w : World} {fuel : Nat}
    (hwf : WF prog) (hfresh : FreshExec exec) (hinit : World.init prog exec = .ok w0)
    (hrun : World.runLoop fuel w0 = (w, none)) :
    ∃ s, SCExec prog (SC.init prog) s ∧
      ((s.verdict = none ∧ R w (data s) ∧
          SCData.Run prog (data (SC.init prog)) (w.events.reverse.map triple) (data s)) ∨
        ∃ k, s.verdict = some (.race k)) := by
  obtain ⟨d, hr, hR⟩ := run_is_reference_execution hwf hfresh hinit hrun
  obtain ⟨s, hex, hc⟩ := Run.lift hwf.fragProg hr
  refine ⟨s, hex, ?_⟩
  rcases hc with ⟨hfs, hd⟩ | hrace
  · subst hd
    exact .inl ⟨hfs.1, hR, hr⟩
  · exact .inr hrace

/-- the same for `runIter`: the events it reports are the trace of a reference run -/
theorem runIter_is_reference_execution {prog : Prog} {exec : Exec} {fuel : Nat}
    (hwf : WF prog) (hfresh : FreshExec exec) (hterm : (runIter prog exec fuel).term = none) :
    ∃ s, SCData.Run prog (data (SC.init prog)) ((runIter prog exec fuel).events.map triple) s := by
  unfold runIter at hterm ⊢
  cases hi : World.init prog exec with
  | error e => rw [hi] at hterm; cases hterm
  | ok w0 =>
    rw [hi] at hterm
    simp only at hterm ⊢
    cases hr : World.runLoop fuel w0 with
    | mk w r =>
      rw [hr] at hterm
      cases r with
      | some e => cases hterm
      | none =>
        obtain ⟨s, h1, _⟩ := run_is_reference_execution hwf hfresh hi hr
        simp only
        refine ⟨s, ?_⟩
        split <;> exact h1

/-- in a related final state every twin thread has recorded exactly the results of the reference thread of its
body, mutexes have the same owner, cells the same value -/
theorem related_results {w : World} {s : SCData} (hR : R w s) (i : Nat) (hi : i < w.ctl.length) :
    (s.th (w.ctlOf i).body).rets = (w.ctlOf i).results ∧ (s.th (w.ctlOf i).body).pc = (w.ctlOf i).pc ∧
    ((s.th (w.ctlOf i).body).finished = true ↔ 10 ≤ (w.ctlOf i).fin) := by
  obtain ⟨_, h⟩ := hR.x.thr i hi
  refine ⟨h.2.2.1, h.2.1, ?_⟩
  have := h.2.2.2.1
  show (s.ths.getD (w.ctl.getD i {}).body {}).finished = true ↔ 10 ≤ (w.ctl.getD i {}).fin
  rw [this]; simp

/-! ## 5. non-vacuity -/

namespace Example

/-- two threads contend for a mutex that protects a cell; the second thread's write depends on what it read -/
def prog : Prog :=
  { cfg := { nCells := 1, nMutexes := 1 },
    threads := [[.spawn 1, .lock 0, .cellWrite 0 1, .unlock 0, .join 1, .cellRead 0, .tryLock 0],
                [.lock 0, .cellRead 0, .ifEq 1 (.val 1) 1, .cellWrite 0 2, .unlock 0]] }

/-- the program satisfies the well-formedness hypotheses -/
example : WF prog := by decide +kernel

/-- the first iteration of the exploration (nothing to replay) -/
def exec0 : Exec := Check.initExec prog.cfg

example : FreshExec exec0 := freshExec_new _ _ _ _

/-- the hypotheses of `runIter_is_reference_execution` hold for it: the run completes (and is sane: computed
here, proved in general by `run_sane`) -/
theorem run0 : (runIter prog exec0).term = none ∧
    (match World.init prog exec0 with | .ok w0 => saneRun 200000 w0 | .error _ => false) = true := by
  decide +kernel

/-- … so its events are the trace of a reference run (by the theorem) -/
example : ∃ s, SCData.Run prog (data (SC.init prog)) ((runIter prog exec0).events.map triple) s :=
  runIter_is_reference_execution (by decide +kernel) (freshExec_new _ _ _ _) run0.1

/-- the trace in question: thread 1 blocks on the mutex, reads the value written by the main thread, overwrites
it; the main thread joins it and reads 2 -/
example : (runIter prog exec0).events.map triple =
    [(0, 0, .unit), (0, 1, .unit), (0, 2, .unit), (0, 3, .unit), (1, 0, .unit), (1, 1, .val 1), (1, 3, .unit),
     (1, 4, .unit), (0, 4, .unit), (0, 5, .val 2), (0, 6, .val 1)] := by
  decide +kernel

/-- a second iteration: the path the first one leaves behind (`Exec.step`), which schedules thread 1 first -/
def exec1 : Exec := ((runIter prog exec0).exec.step).getD exec0

theorem run1 : (runIter prog exec1).term = none ∧
    (match World.init prog exec1 with | .ok w0 => saneRun 200000 w0 | .error _ => false) = true ∧
    FreshExec exec1 := by
  refine ⟨by decide +kernel, by decide +kernel, by unfold FreshExec; decide +kernel⟩

example : (runIter prog exec1).events.map triple ≠ (runIter prog exec0).events.map triple := by
  decide +kernel

example : ∃ s, SCData.Run prog (data (SC.init prog)) ((runIter prog exec1).events.map triple) s :=
  runIter_is_reference_execution (by decide +kernel) run1.2.2 run1.1

end Example

/-! ### a path that names a thread that does not exist -/

namespace Phantom

def prog : Prog :=
  { cfg := { nCells := 1, nMutexes := 1 }, threads := [[.spawn 1, .lock 0, .unlock 0], [.cellWrite 0 1]] }

/-- a schedule entry that activates thread 2 at the first branch point, where only threads 0 and 1 exist -/
def sched : Sched :=
  { preemptions := 0, initialActive := some 0, threads := [.skip, .skip, .active, .disabled, .disabled],
    prev := none, exploring := true }

def exec : Exec :=
  { Check.initExec prog.cfg with path := { Path.new 1000 none true with branches := [.sched sched] } }

end Phantom

/-- **The twin refuses a path that activates a thread that does not exist** (as real loom does: "index out of
bounds").  `Phantom.prog` is well-formed and `Phantom.exec` has a fresh thread table; its path names thread 2 at
the first branch point, where only threads 0 and 1 exist: the run stops there with `.internal 31`, after the
single event `(0, 0, unit)` (the `spawn`); the run is sane up to that point.  (Before `Exec.schedule` checked the
index the run COMPLETED: the phantom thread 2 ran the main body's `spawn 1` a second time and the event
`(1, 0, unit)` was logged twice, which no run of the reference does — the old counterexample
`Refine.phantom_thread` to dropping the hypothesis `saneRun`.) -/
theorem phantom_thread_panics :
    WF Phantom.prog ∧ FreshExec Phantom.exec ∧
    (runIter Phantom.prog Phantom.exec).term = some (.internal 31) ∧
    (runIter Phantom.prog Phantom.exec).events.map triple = [(0, 0, .unit)] ∧
    (match World.init Phantom.prog Phantom.exec with | .ok w0 => saneRun 200000 w0 | .error _ => false) = true := by
  refine ⟨by decide +kernel, ⟨rfl, rfl⟩, by decide +kernel, by decide +kernel, by decide +kernel⟩

end Refine
end LoomVerif

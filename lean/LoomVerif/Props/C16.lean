/-
C16 — "Iterations are isolated from one another."

In the twin isolation holds by construction: an iteration is a function of the program, the
configuration and the path (`runIter`), and `Exec.step` rebuilds everything else.  The theorems
below state exactly that; the substance of C16 is the correspondence run (the implementation is
*not* stateless), see `checks/c16.py`.
-/
import LoomVerif.Props.C13

namespace LoomVerif.C16
open LoomVerif

/-- `Execution::step` keeps nothing but the (stepped) path: thread table with the main thread only
and zero clocks, empty object store, empty live lazy statics. -/
theorem step_resets {e e' : Exec} (h : e.step = some e') :
    e.path.step = some e'.path ∧ e'.threads = Threads.new e.maxThreads ∧ e'.objs = [] ∧
    e'.lazyStatics = some [] ∧ e'.maxThreads = e.maxThreads := by
  have := C13.step_resets h
  exact ⟨this.1, this.2.1, this.2.2.1, this.2.2.2.1, this.2.2.2.2.1⟩

/-- the first execution of a model run starts from the same state -/
theorem init_fresh (c : Cfg) :
    (Check.initExec c).threads = Threads.new c.maxThreads ∧ (Check.initExec c).objs = [] ∧
    (Check.initExec c).lazyStatics = some [] := by
  simp [Check.initExec, Exec.new]

/-- an iteration's result depends only on program, configuration and the path it starts from -/
theorem run_depends_on_path_only {prog : Prog} {fuel : Nat} {its : List Iteration} {o : Outcome}
    (h : Check.loop prog fuel 1 (Check.initExec prog.cfg) = (its, o)) (k : Nat) (hk : k < its.length) :
    its[k].result = runIter prog (Check.freshE prog.cfg.maxThreads its[k].start) :=
  (C13.run_depends_on_path_only h k hk).1

/-- the main thread is thread 0 with zero clocks at the start of every iteration -/
theorem fresh_threads (n : Nat) :
    (Threads.new n).threads = [{}] ∧ (Threads.new n).active = some 0 ∧ (Threads.new n).seqCst = VV.zero := by
  simp [Threads.new]

/-- a model run takes nothing from earlier runs: it is a function of the program alone -/
theorem independent_of_history (prog : Prog) (fuel : Nat) :
    ∀ r1 r2, r1 = Check.run prog fuel → r2 = Check.run prog fuel → r1 = r2 := by
  intro r1 r2 h1 h2; rw [h1, h2]

end LoomVerif.C16

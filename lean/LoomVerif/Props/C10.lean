/-
C10 — "Leaks are reported exactly at the end of every execution.  An iteration ends with a leak
panic if and only if, when the last thread finishes, some `loom::sync::Arc` still has a positive
count, some `alloc::Track` value or `alloc::alloc` block has not been dropped/deallocated, or a
channel still holds messages. …"

Headline theorems only.  The model is `Model/Objs.lean` (`Objs.checkForLeaks`) and
`Model/Interp.lean` (`runOp` cases `.trackNew .trackDrop .alloc .dealloc`, `runLoop`, `runIter`);
the proofs are in `Proofs/C10Leak.lean`, `Proofs/C10Alloc.lean`, `Proofs/C10NoLeak.lean`, `Proofs/C10End.lean`.

Scope: what is proved is (1) the exact meaning of the check on an object store, (2) that the
`is_dropped` flag of an allocation object is `false` from its creation until exactly its own
drop/dealloc, and (3) that `runIter` consults the check exactly when the run ended without an
active thread and reports its verdict unchanged.  Arc counts and channel counts are treated in
C11 / C09.
-/
import LoomVerif.Proofs.C10End

namespace LoomVerif
open C10

/-! ## 1. the check -/

/-- `C10.leakOf` (the complaint of `check_for_leaks` about one entry), spelled out. -/
theorem Leak.leakOf_spelled_out (o : Obj) :
    (leakOf o = none ↔
      (∀ s, o = .alloc s → s.isDropped = true) ∧ (∀ s, o = .arc s → s.refCnt = 0) ∧
      (∀ s, o = .chan s → s.msgCnt = 0)) ∧
    (∀ e, leakOf o = some e ↔
      (∃ s, o = .alloc s ∧ s.isDropped = false ∧ e = .leakAlloc) ∨
      (∃ s, o = .arc s ∧ s.refCnt ≠ 0 ∧ e = .leakArc) ∨
      (∃ s, o = .chan s ∧ s.msgCnt ≠ 0 ∧ e = .leakMsg)) :=
  ⟨leakOf_eq_none o, leakOf_eq_some o⟩

/-- **C10.1 (pass).**  The check passes iff every allocation is dropped, every Arc has count 0 and
every channel is empty.  Objects of the other kinds are ignored. -/
theorem Leak.check_iff (os : Objs) :
    Objs.checkForLeaks os = .ok () ↔
      ∀ o ∈ os, (∀ s, o = .alloc s → s.isDropped = true) ∧ (∀ s, o = .arc s → s.refCnt = 0) ∧
        (∀ s, o = .chan s → s.msgCnt = 0) := by
  rw [check_ok_iff]
  exact forall_congr' fun o => imp_congr_right fun _ => leakOf_eq_none o

/-- **C10.1 (fail).**  The check fails with `e` iff `e` is the complaint about the FIRST (lowest
index) offending entry: `leakAlloc` for an undropped allocation, `leakArc` for an Arc with a
positive count, `leakMsg` for a non-empty channel. -/
theorem Leak.check_first (os : Objs) (e : Panic) :
    Objs.checkForLeaks os = .error e ↔
      ∃ i, ∃ h : i < os.length,
        ((∃ s, os[i] = .alloc s ∧ s.isDropped = false ∧ e = .leakAlloc) ∨
         (∃ s, os[i] = .arc s ∧ s.refCnt ≠ 0 ∧ e = .leakArc) ∨
         (∃ s, os[i] = .chan s ∧ s.msgCnt ≠ 0 ∧ e = .leakMsg)) ∧
        ∀ j, (hj : j < i) → leakOf (os[j]'(Nat.lt_trans hj h)) = none := by
  rw [check_error_iff]
  constructor
  · rintro ⟨i, h, he, hj⟩; exact ⟨i, h, (leakOf_eq_some _ _).1 he, hj⟩
  · rintro ⟨i, h, he, hj⟩; exact ⟨i, h, (leakOf_eq_some _ _).2 he, hj⟩

/-- The check is "find the first complaint"; it can raise nothing but the three leak panics. -/
theorem Leak.check_eq_findSome (os : Objs) :
    Objs.checkForLeaks os =
      match os.findSome? leakOf with
      | some e => .error e
      | none => .ok () :=
  C10.check_eq_findSome os

theorem Leak.check_error_kind (os : Objs) (e : Panic) :
    Objs.checkForLeaks os = .error e → e = .leakAlloc ∨ e = .leakArc ∨ e = .leakMsg :=
  C10.check_error_kind os e

/-! ## 2. `is_dropped` is the flag of exactly that allocation -/

/-- `Track::new(k)`: a fresh allocation object with `is_dropped = false` is appended to the store
and recorded under slot `k`.  Cannot fail. -/
theorem Alloc.trackNew_pushes (w : World) (c : TCtl) (k : Nat) :
    ∃ w', w.runOp c (.trackNew k) = .ok w' ∧
      w'.exec.objs = w.exec.objs ++ [.alloc { isDropped := false }] ∧
      w'.tracks = (k, w.exec.objs.length) :: w.tracks ∧
      w'.tracks.lookup k = some w.exec.objs.length ∧
      w'.rawAllocs = w.rawAllocs ∧ w'.ths = w.ths ∧ w'.exec.path = w.exec.path :=
  trackNew_effect w c k

/-- `alloc::alloc` into slot `k`: "pointer already tracked" (`internal 76`) if the slot is in use,
otherwise a fresh allocation object with `is_dropped = false` is appended and recorded. -/
theorem Alloc.alloc_pushes (w : World) (c : TCtl) (k : Nat) :
    ((w.rawAllocs.lookup k).isSome = true → w.runOp c (.alloc k) = .error (.internal 76)) ∧
    ((w.rawAllocs.lookup k) = none → ∃ w', w.runOp c (.alloc k) = .ok w' ∧
      w'.exec.objs = w.exec.objs ++ [.alloc { isDropped := false }] ∧
      w'.rawAllocs = (k, w.exec.objs.length) :: w.rawAllocs ∧
      w'.rawAllocs.lookup k = some w.exec.objs.length ∧
      w'.tracks = w.tracks ∧ w'.ths = w.ths ∧ w'.exec.path = w.exec.path) :=
  alloc_effect w c k

/-- **C10.2.**  Dropping the `Track` of slot `k` sets the flag of exactly the object recorded for
`k`; every other object, the thread table and the path are untouched.  (An unknown slot is a
harness error, `internal 75`.) -/
theorem Alloc.flag_is_dropped_track (w : World) (c : TCtl) (k : Nat) :
    (w.tracks.lookup k = none → w.runOp c (.trackDrop k) = .error (.internal 75)) ∧
    (∀ o, w.tracks.lookup k = some o → ∃ w', w.runOp c (.trackDrop k) = .ok w' ∧
      w'.exec.objs = w.exec.objs.set o (.alloc { isDropped := true }) ∧
      (∀ s, w.exec.objs[o]? = some (.alloc s) →
        w'.exec.objs[o]? = some (.alloc { s with isDropped := true })) ∧
      (∀ o', o' ≠ o → w'.exec.objs[o']? = w.exec.objs[o']?) ∧
      w'.exec.objs.length = w.exec.objs.length ∧
      w'.tracks = w.tracks ∧ w'.rawAllocs = w.rawAllocs ∧ w'.ths = w.ths ∧
      w'.exec.path = w.exec.path) :=
  trackDrop_effect w c k

/-- **C10.2.**  `alloc::dealloc` of slot `k`: "pointer not tracked" (`internal 77`) for an unknown
slot; otherwise the slot is forgotten (a second `dealloc` is again "not tracked") and the flag of
exactly the recorded object is set; nothing else changes. -/
theorem Alloc.flag_is_dropped_raw (w : World) (c : TCtl) (k : Nat) :
    (w.rawAllocs.lookup k = none → w.runOp c (.dealloc k) = .error (.internal 77)) ∧
    (∀ o, w.rawAllocs.lookup k = some o → ∃ w', w.runOp c (.dealloc k) = .ok w' ∧
      w'.exec.objs = w.exec.objs.set o (.alloc { isDropped := true }) ∧
      (∀ s, w.exec.objs[o]? = some (.alloc s) →
        w'.exec.objs[o]? = some (.alloc { s with isDropped := true })) ∧
      (∀ o', o' ≠ o → w'.exec.objs[o']? = w.exec.objs[o']?) ∧
      w'.exec.objs.length = w.exec.objs.length ∧
      w'.rawAllocs = w.rawAllocs.filter (·.1 != k) ∧ w'.rawAllocs.lookup k = none ∧
      w'.tracks = w.tracks ∧ w'.ths = w.ths ∧ w'.exec.path = w.exec.path) :=
  dealloc_effect w c k

/-! ## 3. the iteration -/

/-- `Execution::schedule` leaves no active thread only if every thread has terminated (otherwise
it panics with "deadlock"). -/
theorem Sched.none_only_when_all_terminated (e e' : Exec) (p b : Bool) :
    e.schedule p = .ok (e', b) → e'.threads.active = none →
      e'.threads.threads.all Thread.isTerminated = true :=
  schedule_none e e' p b

/-- **C10.3.**  `runIter`, unfolded.  If the set-up fails, or the run ends with a panic of a step
(or out of fuel), that panic is the result and `check_for_leaks` is not consulted.  If the run
ends without a panic — which `runLoop` does only when no thread is active — the result is exactly
the verdict of `check_for_leaks` on the final object store. -/
theorem C10_iteration (prog : Prog) (exec : Exec) (fuel : Nat) :
    (∀ e, World.init prog exec = .error e → (runIter prog exec fuel).term = some e) ∧
    (∀ w0, World.init prog exec = .ok w0 → ∀ w r, World.runLoop fuel w0 = (w, r) →
      (runIter prog exec fuel).exec = w.exec ∧
      (runIter prog exec fuel).events = w.events.reverse ∧
      match r with
      | some e => (runIter prog exec fuel).term = some e
      | none =>
        w.ths.isActive = false ∧
        (runIter prog exec fuel).term =
          match w.exec.objs.checkForLeaks with
          | .error e => some e
          | .ok () => none) := by
  rw [runIter_eq]
  refine ⟨fun e he => by rw [he], fun w0 h0 w r hr => ?_⟩
  rw [h0]
  dsimp only
  rw [hr]
  cases r with
  | some e => exact ⟨rfl, rfl, rfl⟩
  | none => exact ⟨rfl, rfl, runLoop_none fuel w0 w hr, rfl⟩

/-- `term = none` means: the program ran to the end and the leak check passed on the final
store — every allocation dropped, every Arc count 0, every channel empty. -/
theorem C10_iteration_clean (prog : Prog) (exec : Exec) (fuel : Nat)
    (h : (runIter prog exec fuel).term = none) :
    ∃ w0 w, World.init prog exec = .ok w0 ∧ World.runLoop fuel w0 = (w, none) ∧
      w.ths.isActive = false ∧ (runIter prog exec fuel).exec = w.exec ∧
      w.exec.objs.checkForLeaks = .ok () ∧
      ∀ o ∈ w.exec.objs, (∀ s, o = .alloc s → s.isDropped = true) ∧
        (∀ s, o = .arc s → s.refCnt = 0) ∧ (∀ s, o = .chan s → s.msgCnt = 0) := by
  obtain ⟨h1, h2⟩ := C10_iteration prog exec fuel
  cases hi : World.init prog exec with
  | error e => rw [h1 e hi] at h; cases h
  | ok w0 =>
    rcases hr : World.runLoop fuel w0 with ⟨w, r⟩
    obtain ⟨he, _, h3⟩ := h2 w0 hi w r hr
    cases r with
    | some e => dsimp only at h3; rw [h3] at h; cases h
    | none =>
      dsimp only at h3
      obtain ⟨ha, ht⟩ := h3
      rw [h] at ht
      cases hc : w.exec.objs.checkForLeaks with
      | error e => rw [hc] at ht; cases ht
      | ok u =>
        cases u
        exact ⟨w0, w, rfl, hr, ha, he, hc, (Leak.check_iff _).1 hc⟩

/-- After a run that ended without a panic, the iteration ends with panic `e` iff `e` is the
complaint of `check_for_leaks` about the first offending object of the final store. -/
theorem C10_iteration_leak (prog : Prog) (exec : Exec) (fuel : Nat) (w0 w : World)
    (hi : World.init prog exec = .ok w0) (hr : World.runLoop fuel w0 = (w, none)) (e : Panic) :
    (runIter prog exec fuel).term = some e ↔ w.exec.objs.checkForLeaks = .error e := by
  obtain ⟨_, _, _, ht⟩ := (C10_iteration prog exec fuel).2 w0 hi w none hr
  rw [ht]
  cases w.exec.objs.checkForLeaks with
  | error e' => simp
  | ok u => simp

/-- `C10.isLeak`, spelled out: the three panics of `check_for_leaks`. -/
theorem Leak.isLeak_spelled_out (e : Panic) :
    isLeak e = true ↔ e = .leakAlloc ∨ e = .leakArc ∨ e = .leakMsg := by
  cases e <;> simp [isLeak]

/-- No stage of the interpreter (no operation of any kind, no scheduling decision, no thread
epilogue), nor the set-up, can raise one of the three leak panics: a syntactic fact about the
model, obtained by walking every function reachable from `World.stepActive`. -/
theorem C10_no_stage_reports_a_leak (w : World) (e : Panic) :
    w.stepActive = .error e → isLeak e = false :=
  (stepActive_noLeak w).h e

/-- **C10.3, "only if".**  An iteration ends with a leak panic ONLY through `check_for_leaks`
applied to the final object store of a run that ended with no active thread — in particular never
while a thread is still running, and never instead of another panic. -/
theorem C10_leak_only_from_check (prog : Prog) (exec : Exec) (fuel : Nat) (e : Panic) :
    (runIter prog exec fuel).term = some e → isLeak e = true →
    ∃ w0 w, World.init prog exec = .ok w0 ∧ World.runLoop fuel w0 = (w, none) ∧
      w.ths.isActive = false ∧ w.exec.objs.checkForLeaks = .error e :=
  runIter_leak prog exec fuel e

/-- A stage run by an active thread leaves the execution without an active thread only if every
thread has terminated: the only assignment of `None` to `active` is the one in
`Execution::schedule`, which panics with "deadlock" otherwise, and no stage touches the thread
table after its `schedule` call. -/
theorem C10_stage_deactivates_only_at_end (w w' : World) :
    w.ths.isActive = true → w.stepActive = .ok w' → w'.exec.threads.active = none →
      w'.exec.threads.threads.all Thread.isTerminated = true :=
  fun ha hs hn => (stepActive_post (w := w) ha).h w' hs hn

/-- **C10.3, "at the end".**  From an execution with an active thread (`Execution::new`, and
every execution produced by `Execution::step`, has thread 0 active), a run that ends without a
panic — the only case in which `check_for_leaks` is consulted — ends with no active thread and
EVERY thread terminated: the check looks at the object store as the last thread left it. -/
theorem C10_check_at_the_end (prog : Prog) (exec : Exec) (fuel : Nat)
    (hact : exec.threads.active.isSome = true) (w0 w : World)
    (hi : World.init prog exec = .ok w0) (hr : World.runLoop fuel w0 = (w, none)) :
    w.exec.threads.active = none ∧ w.exec.threads.threads.all Thread.isTerminated = true := by
  have ht := (init_threads prog exec).h w0 hi
  refine runLoop_allTerm fuel w0 w (GoodT.of_act ?_) hr
  rw [ht]; exact hact

/-- `Execution::new` and `Execution::step` produce executions with an active thread. -/
theorem C10_fresh_exec_active (maxThreads maxBranches : Nat) (bound : Option Nat) (exploring : Bool)
    (e e' : Exec) :
    (Exec.new maxThreads maxBranches bound exploring).threads.active.isSome = true ∧
    (e.step = some e' → e'.threads.active.isSome = true) := by
  refine ⟨rfl, fun h => ?_⟩
  unfold Exec.step at h
  cases hp : e.path.step with
  | none => rw [hp] at h; cases h
  | some p => rw [hp] at h; cases h; rfl

end LoomVerif

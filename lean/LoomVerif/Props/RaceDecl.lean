/-
END-TO-END RACE EXACTNESS WITH A DECLARATIVE REFERENCE SIDE

  a causality report of the twin  ⇒  a DECLARATIVE data race of the corresponding reference trace
  a completed run of the twin     ⇒  the corresponding reference trace is DECLARATIVELY race-free

This file composes
* `Props/Race.lean` / `Props/Race2.lean` — race exactness of the twin (the Lean model of loom's runtime,
  `Model/Interp.lean`) against the reference semantics `Spec/SC.lean`, whose notion of "race" is the verdict
  `Verdict.race k` computed by the reference's own vector clocks — with
* `Props/VCSound.lean` — that verdict IS the declarative data race: two conflicting accesses of one cell by different
  threads that are not ordered by happens-before `VCSound.HB`, the transitive closure of program order, spawn, join,
  release → every later acquire of the same object, send → the receive of that message, defined on the EVENTS of a
  trace without any clock.

After the composition no clock is left on the reference side of the statements: neither loom's (`Thread.causality`,
`Synchronize`) nor the reference's (`St.vc`, `cellW`, `cellR`, …).  READ the header of `Props/VCSound.lean` for what
"happens-before" is for `Notify` and channels (release → EVERY later acquire; it is the relation loom's objects and
the reference decide).

THE CORRESPONDING TRACE.  `Race.reported_race_is_real` gives an execution `Refine.SCExec` without history, and
`VCSound.run_iff_SCExec` turns such an execution into SOME trace that ends in the same state.  That would leave the
trace connected to the run of the twin only through its final state.  The theorems here say more: the simulation
along `World.runLoop` is redone carrying the trace (`Proofs/RaceDeclLog.lean`, `Proofs/RaceDeclLog2.lean`), and

    `RaceDecl.recorded tr = w.events.reverse.map Refine.triple`:

the `(thread, pc, result)` triples the steps of the reference trace record (`VCSound.Step.res`, with the thread and the
pc of the step), in order, are EXACTLY the event log of the twin: same operations, same threads, same order, same
results.  (`recorded_events`: in terms of `VCSound.events`.)  In addition the relation of `Props/Race.lean` /
`Props/Race2.lean` (`Race.RC w s` / `Race2.RC2 w s`, which contains `Refine.R w (data s)`: per thread the pc and ALL
recorded results of the twin are those of `s`) holds between the final world of the twin and the state `s` of the trace
(for a report: the state in which the racing step starts).

DEFINITIONS (`Proofs/RaceDecl.lean`, `Proofs/RaceDeclLog.lean`; the headline statements spell the first two out):
* `DataRace evs j i a b`: `j < i`, `evs[j]? = some a`, `evs[i]? = some b`, `a.thr ≠ b.thr`, `VCSound.Conflict a b`,
  `¬ VCSound.HB evs j i`;
* `RaceFree evs`: any two conflicting events of different threads are ordered by `VCSound.HB`
  (`raceFree_iff_no_dataRace`);
* `RaceKind k a b`: what the number of the report says: `9`: `b` reads a cell `a` wrote; `10`: both write it;
  `11`: `b` writes a cell `a` read;
* `stepRec`, `recorded`: what a trace records.

1. LOCK FRAGMENT (`spawn`, `join`, `lock`, `tryLock`, `unlock`, `cellRead`, `cellWrite`, `ifEq`).  Hypotheses: those of
   `Race.reported_race_is_real` — `Refine.WF prog`, `prog.threads.length ≤ 5`, `Race.FreshClocks exec`,
   `World.init prog exec = .ok w0` — nothing else (`VCSound.WFX.of_wf : Refine.WF p → WFX p`; `VCSound` needs the same
   bound `≤ 5`).  `twin_report_is_declarative_race`, `twin_completed_run_is_declaratively_race_free`, and their
   `runIter` forms `iter_report_is_declarative_race`, `iter_completed_is_declaratively_race_free`.

2. WAIT FRAGMENT (`_sync`): the operations BOTH developments cover — the lock fragment plus `send`, `recv`, `tryRecv`,
   `nNotify`, `nWait`, `park`, `unpark`.  Hypotheses: those of `Race2.reported_race_is_real` — `Race2.WF3 prog`
   (= `Refine2.WF2` and no `dropRx`), `≤ 5`, `Refine2.FreshExec2 exec`, `Refine2.okRun fuel w0` — and TWO RESTRICTIONS,
   both explicit and decidable / computable:
   * `NoCondvar prog`: no `cvWait` / `cvOne` / `cvAll` (`Race2` covers them, `VCSound.WFX` does not).  With it
     `Refine2.WF2 prog → VCSound.WFX prog` (`wfx_of_wf2`): no other well-formedness hypothesis is needed.
     (`dropRx`: covered by `VCSound`, not by `Race2`.  rwlocks: covered by `VCSound`, not by `Race2`.)
   * `noSpur w = true` for the FINAL world `w` of the run (computable by running the twin): no `Notify` object of the
     program has `didSpur` set, i.e. the run took no spurious return of `nWait`.  `Refine2.SCExec2` has `spur` steps
     for them, `VCSound.Run` has not (`SC.spurious` is not a step of `SC.step`), so the bridge is RESTRICTED TO RUNS
     WITHOUT SPURIOUS STEPS; `VCSound` was not extended.  (A spurious return acquires nothing on both sides, so the
     exactness of `Props/Race2.lean` holds for such runs; only the declarative reading is not available here.)
     `Example.ntf_spurious_outside`: the second iteration of `Race2.Example.ntf` is such a run.

3. NON-VACUITY (`Example`): the theorems applied to the two programs of the examples of `Props/VCSound.lean` with the
   first iteration of the twin: `VCSound.Example.Racy` (report `causality 9`; the unordered pair is NAMED: the
   `cellWrite 0 1` of thread 0 and the `cellRead 0` of thread 1, and the trace records exactly the twin's two events)
   and `VCSound.Example.Locked` (completes; race-free, the trace records the twin's eight events — the very log the
   trace `VCSound.Example.Locked.trace` records); and to message passing through a channel and a `Notify`.
-/
import LoomVerif.Proofs.RaceDeclLog2
import LoomVerif.Model.Check

namespace LoomVerif
namespace RaceDecl
open Refine Refine2 VCSound

/-- the step of body `t` from `s` that stops with the verdict `race k` -/
abbrev raceStep (s : SC.St) (t k : Nat) : Step := ⟨t, s, (s.tick t).stop (.race k)⟩

/-! ## 1. the lock fragment -/

/-- **A causality report of the twin is a declarative data race of the reference trace (lock fragment).**
If a run of the twin ends with the panic `causality k`, then there are a run WITH HISTORY `tr` of the reference
semantics to a state `s` related (`Race.RC`) to the world `w` in which the panicking stage started, and the next step of
the body `t` of the thread that panicked, which stops with `race k`, such that
* the `(thread, pc, result)` triples the trace records are exactly the event log of the twin, and
* the trace contains two events `j < i` (`i` the last one, the step of `t`) of DIFFERENT threads that CONFLICT — of the
  kind the number `k` says — and are NOT related by happens-before `VCSound.HB`. -/
theorem twin_report_is_declarative_race {prog : Prog} {exec : Exec} {w0 w : World} {fuel k : Nat}
    (hwf : WF prog) (hnt : prog.threads.length ≤ 5) (hfresh : Race.FreshClocks exec)
    (hinit : World.init prog exec = .ok w0)
    (hrun : World.runLoop fuel w0 = (w, some (.causality k))) :
    ∃ (tr : List Step) (s : SC.St) (t : Nat),
      Run prog tr s ∧ Race.RC w s ∧ t = Race.body w w.tid ∧
      Run prog (tr ++ [raceStep s t k]) ((s.tick t).stop (.race k)) ∧
      recorded (tr ++ [raceStep s t k]) = w.events.reverse.map triple ∧
      ∃ (j i : Nat) (a b : VCSound.Event), j < i ∧ i = tr.length ∧
        (events prog (tr ++ [raceStep s t k]))[j]? = some a ∧
        (events prog (tr ++ [raceStep s t k]))[i]? = some b ∧
        a.thr ≠ b.thr ∧ b.thr = t ∧ Conflict a b ∧ RaceKind k a b ∧
        ¬ HB (events prog (tr ++ [raceStep s t k])) j i := by
  obtain ⟨tr, s, t, h1, h2, h3, h4, h5, j, a, b, hb, ⟨d1, d2, d3, d4, d5, d6⟩, hk⟩ :=
    lock_report hwf hnt hfresh hinit hrun
  exact ⟨tr, s, t, h1, h2, h3, h4, h5, j, tr.length, a, b, d1, rfl, d2, d3, d4, hb, d5, hk, d6⟩

/-- **A completed run of the twin is declaratively race-free (lock fragment).**  If a run of the twin completes,
there is a run with history `tr` of the reference semantics, to a state `s` without verdict related (`Race.RC`) to the
final world, that records exactly the event log of the twin and in which EVERY pair of conflicting accesses of
different threads is ordered by happens-before `VCSound.HB`. -/
theorem twin_completed_run_is_declaratively_race_free {prog : Prog} {exec : Exec} {w0 w : World} {fuel : Nat}
    (hwf : WF prog) (hnt : prog.threads.length ≤ 5) (hfresh : Race.FreshClocks exec)
    (hinit : World.init prog exec = .ok w0) (hrun : World.runLoop fuel w0 = (w, none)) :
    ∃ (tr : List Step) (s : SC.St),
      Run prog tr s ∧ s.verdict = none ∧ Race.RC w s ∧ recorded tr = w.events.reverse.map triple ∧
      ∀ (j i : Nat) (a b : VCSound.Event), j < i → (events prog tr)[j]? = some a → (events prog tr)[i]? = some b →
        a.thr ≠ b.thr → Conflict a b → HB (events prog tr) j i :=
  lock_completed hwf hnt hfresh hinit hrun

/-! ### the same for `runIter` -/

/-- an iteration that reports a race: a reference trace that records the events of the iteration and ends with a
declarative data race of the kind reported -/
theorem iter_report_is_declarative_race {prog : Prog} {exec : Exec} {w0 : World} {fuel k : Nat}
    (hwf : WF prog) (hnt : prog.threads.length ≤ 5) (hfresh : Race.FreshClocks exec)
    (hinit : World.init prog exec = .ok w0)
    (hterm : (runIter prog exec fuel).term = some (.causality k)) :
    ∃ (tr : List Step) (s : SC.St) (j i : Nat) (a b : VCSound.Event),
      Run prog tr s ∧ s.verdict = some (.race k) ∧
      recorded tr = (runIter prog exec fuel).events.map triple ∧
      DataRace (events prog tr) j i a b ∧ i + 1 = tr.length ∧ RaceKind k a b := by
  unfold runIter at hterm ⊢
  rw [hinit] at hterm ⊢
  simp only at hterm ⊢
  cases hr : World.runLoop fuel w0 with
  | mk w r =>
    rw [hr] at hterm
    cases r with
    | some e =>
      simp only at hterm ⊢
      cases hterm
      obtain ⟨tr, s, t, _, _, _, h4, h5, j, a, b, _, hd, hk⟩ := lock_report hwf hnt hfresh hinit hr
      exact ⟨_, _, j, tr.length, a, b, h4, rfl, h5, hd, by simp, hk⟩
    | none =>
      exfalso
      simp only at hterm
      split at hterm
      · next e he =>
        cases hterm
        exact Race.checkForLeaks_not_causality _ _ he
      · cases hterm

/-- a completed iteration: a reference trace that records the events of the iteration and is declaratively
race-free -/
theorem iter_completed_is_declaratively_race_free {prog : Prog} {exec : Exec} {fuel : Nat}
    (hwf : WF prog) (hnt : prog.threads.length ≤ 5) (hfresh : Race.FreshClocks exec)
    (hterm : (runIter prog exec fuel).term = none) :
    ∃ (tr : List Step) (s : SC.St),
      Run prog tr s ∧ s.verdict = none ∧ recorded tr = (runIter prog exec fuel).events.map triple ∧
      RaceFree (events prog tr) := by
  unfold runIter at hterm ⊢
  cases hi : World.init prog exec with
  | error e => rw [hi] at hterm; cases hterm
  | ok w0 =>
    rw [hi] at hterm
    simp only at hterm ⊢
    cases hr : World.runLoop fuel w0 with
    | mk w r =>
      rw [hr] at hterm
      cases r with
      | some e => cases hterm
      | none =>
        obtain ⟨tr, s, h1, h2, _, h4, h5⟩ := lock_completed hwf hnt hfresh hi hr
        simp only
        refine ⟨tr, s, h1, h2, ?_, h5⟩
        split <;> exact h4

/-! ## 2. the wait fragment (without condvars, runs without spurious return) -/

/-- **A causality report of the twin is a declarative data race of the reference trace (wait fragment).**
As `twin_report_is_declarative_race`, for programs with channels (`send`, `recv`, `tryRecv`), `Notify` (`nNotify`,
`nWait`) and `park` / `unpark`, under the hypotheses of `Race2.reported_race_is_real` and the two restrictions
`NoCondvar prog` (decidable) and `noSpur w = true` (no `Notify` took its spurious return in this run; computable). -/
theorem twin_report_is_declarative_race_sync {prog : Prog} {exec : Exec} {w0 w : World} {fuel k : Nat}
    (hwf : Race2.WF3 prog) (hcv : NoCondvar prog) (hnt : prog.threads.length ≤ 5) (hfresh : FreshExec2 exec)
    (hinit : World.init prog exec = .ok w0) (hok : okRun fuel w0 = true)
    (hrun : World.runLoop fuel w0 = (w, some (.causality k))) (hns : noSpur w = true) :
    ∃ (tr : List Step) (s : SC.St) (t : Nat),
      Run prog tr s ∧ Race2.RC2 w s ∧ t = Race.body w w.tid ∧
      Run prog (tr ++ [raceStep s t k]) ((s.tick t).stop (.race k)) ∧
      recorded (tr ++ [raceStep s t k]) = w.events.reverse.map triple ∧
      ∃ (j i : Nat) (a b : VCSound.Event), j < i ∧ i = tr.length ∧
        (events prog (tr ++ [raceStep s t k]))[j]? = some a ∧
        (events prog (tr ++ [raceStep s t k]))[i]? = some b ∧
        a.thr ≠ b.thr ∧ b.thr = t ∧ Conflict a b ∧ RaceKind k a b ∧
        ¬ HB (events prog (tr ++ [raceStep s t k])) j i := by
  obtain ⟨tr, s, t, h1, h2, h3, h4, h5, j, a, b, hb, ⟨d1, d2, d3, d4, d5, d6⟩, hk⟩ :=
    wait_report hwf hcv hnt hfresh hinit hok hrun hns
  exact ⟨tr, s, t, h1, h2, h3, h4, h5, j, tr.length, a, b, d1, rfl, d2, d3, d4, hb, d5, hk, d6⟩

/-- **A completed run of the twin is declaratively race-free (wait fragment)**, under the hypotheses of
`Race2.no_missed_race_on_this_path` and the restrictions `NoCondvar prog`, `noSpur w = true`. -/
theorem twin_completed_run_is_declaratively_race_free_sync {prog : Prog} {exec : Exec} {w0 w : World} {fuel : Nat}
    (hwf : Race2.WF3 prog) (hcv : NoCondvar prog) (hnt : prog.threads.length ≤ 5) (hfresh : FreshExec2 exec)
    (hinit : World.init prog exec = .ok w0) (hok : okRun fuel w0 = true)
    (hrun : World.runLoop fuel w0 = (w, none)) (hns : noSpur w = true) :
    ∃ (tr : List Step) (s : SC.St),
      Run prog tr s ∧ s.verdict = none ∧ Race2.RC2 w s ∧ recorded tr = w.events.reverse.map triple ∧
      ∀ (j i : Nat) (a b : VCSound.Event), j < i → (events prog tr)[j]? = some a → (events prog tr)[i]? = some b →
        a.thr ≠ b.thr → Conflict a b → HB (events prog tr) j i :=
  wait_completed hwf hcv hnt hfresh hinit hok hrun hns

/-! ### the same for `runIter` -/

/-- `noSpur` of the final world of an iteration (computable) -/
def noSpurIter (prog : Prog) (exec : Exec) (fuel : Nat := 200000) : Bool :=
  match World.init prog exec with
  | .ok w0 => noSpur (World.runLoop fuel w0).1
  | .error _ => false

/-- an iteration that reports a race (wait fragment) -/
theorem iter_report_is_declarative_race_sync {prog : Prog} {exec : Exec} {fuel k : Nat}
    (hwf : Race2.WF3 prog) (hcv : NoCondvar prog) (hnt : prog.threads.length ≤ 5) (hfresh : FreshExec2 exec)
    (hok : okIter prog exec fuel = true) (hns : noSpurIter prog exec fuel = true)
    (hterm : (runIter prog exec fuel).term = some (.causality k)) :
    ∃ (tr : List Step) (s : SC.St) (j i : Nat) (a b : VCSound.Event),
      Run prog tr s ∧ s.verdict = some (.race k) ∧
      recorded tr = (runIter prog exec fuel).events.map triple ∧
      DataRace (events prog tr) j i a b ∧ i + 1 = tr.length ∧ RaceKind k a b := by
  unfold runIter at hterm ⊢
  unfold okIter at hok
  unfold noSpurIter at hns
  cases hinit : World.init prog exec with
  | error e => rw [hinit] at hok; cases hok
  | ok w0 =>
    rw [hinit] at hterm hok hns
    simp only at hterm hok hns ⊢
    cases hr : World.runLoop fuel w0 with
    | mk w r =>
      rw [hr] at hterm hns
      cases r with
      | some e =>
        simp only at hterm ⊢
        cases hterm
        obtain ⟨tr, s, t, _, _, _, h4, h5, j, a, b, _, hd, hk⟩ := wait_report hwf hcv hnt hfresh hinit hok hr hns
        exact ⟨_, _, j, tr.length, a, b, h4, rfl, h5, hd, by simp, hk⟩
      | none =>
        exfalso
        simp only at hterm
        split at hterm
        · next e he =>
          cases hterm
          exact Race.checkForLeaks_not_causality _ _ he
        · cases hterm

/-- a completed iteration (wait fragment) -/
theorem iter_completed_is_declaratively_race_free_sync {prog : Prog} {exec : Exec} {fuel : Nat}
    (hwf : Race2.WF3 prog) (hcv : NoCondvar prog) (hnt : prog.threads.length ≤ 5) (hfresh : FreshExec2 exec)
    (hok : okIter prog exec fuel = true) (hns : noSpurIter prog exec fuel = true)
    (hterm : (runIter prog exec fuel).term = none) :
    ∃ (tr : List Step) (s : SC.St),
      Run prog tr s ∧ s.verdict = none ∧ recorded tr = (runIter prog exec fuel).events.map triple ∧
      RaceFree (events prog tr) := by
  unfold runIter at hterm ⊢
  unfold okIter at hok
  unfold noSpurIter at hns
  cases hi : World.init prog exec with
  | error e => rw [hi] at hterm; cases hterm
  | ok w0 =>
    rw [hi] at hterm hok hns
    simp only at hterm hok hns ⊢
    cases hr : World.runLoop fuel w0 with
    | mk w r =>
      rw [hr] at hterm hns
      cases r with
      | some e => cases hterm
      | none =>
        obtain ⟨tr, s, h1, h2, _, h4, h5⟩ := wait_completed hwf hcv hnt hfresh hi hok hr hns
        simp only
        refine ⟨tr, s, h1, h2, ?_, h5⟩
        split <;> exact h4

/-! ## 3. non-vacuity -/

namespace Example
open VCSound.Example

/-! ### `VCSound.Example.Racy`: the report of the twin is the declarative race of the write and the read -/

/-- the first iteration of the twin on `Racy.prog` reports `causality 9`, after the two events `spawn 1` and
`cellWrite 0 1` of the main thread -/
theorem racy_twin : (runIter Racy.prog (Check.initExec Racy.prog.cfg)).term = some (.causality 9) ∧
    (runIter Racy.prog (Check.initExec Racy.prog.cfg)).events.map triple = [(0, 0, .unit), (0, 1, .unit)] := by
  decide +kernel

/-- where a `cellWrite` / a `cellRead` stands in the text of `Racy.prog` -/
theorem racy_write {t x : Nat} {v : Int} (h : Op.cellWrite x v ∈ Racy.prog.threads.getD t []) :
    t = 0 ∧ x = 0 ∧ v = 1 := by
  match t with
  | 0 => simpa [Racy.prog, List.getD] using h
  | 1 => simp [Racy.prog, List.getD] at h
  | n + 2 => simp [Racy.prog, List.getD] at h

theorem racy_read {t x : Nat} (h : Op.cellRead x ∈ Racy.prog.threads.getD t []) : t = 1 ∧ x = 0 := by
  match t with
  | 0 => simp [Racy.prog, List.getD] at h
  | 1 => simpa [Racy.prog, List.getD] using h
  | n + 2 => simp [Racy.prog, List.getD] at h

/-- **the theorem applied to that run**: there is a reference trace of `Racy.prog` that ends with the verdict `race 9`,
records exactly the two events of the twin, and whose last step — THE `cellRead 0` OF THREAD 1 — and an earlier event
— THE `cellWrite 0 1` OF THREAD 0 — conflict and are NOT ordered by happens-before. -/
theorem racy_named_pair :
    ∃ (tr : List Step) (s : SC.St) (j i : Nat) (a b : VCSound.Event),
      Run Racy.prog tr s ∧ s.verdict = some (.race 9) ∧ recorded tr = [(0, 0, .unit), (0, 1, .unit)] ∧
      j < i ∧ i + 1 = tr.length ∧ (events Racy.prog tr)[j]? = some a ∧ (events Racy.prog tr)[i]? = some b ∧
      a.thr = 0 ∧ a.op = some (.cellWrite 0 1) ∧ b.thr = 1 ∧ b.op = some (.cellRead 0) ∧
      Conflict a b ∧ ¬ HB (events Racy.prog tr) j i := by
  have hok : (match World.init Racy.prog (Check.initExec Racy.prog.cfg) with
      | .ok _ => true | .error _ => false) = true := by decide +kernel
  cases hi : World.init Racy.prog (Check.initExec Racy.prog.cfg) with
  | error e => rw [hi] at hok; cases hok
  | ok w0 =>
    obtain ⟨tr, s, j, i, a, b, h1, h2, h3, ⟨d1, d2, d3, d4, d5, d6⟩, h5, hk⟩ :=
      iter_report_is_declarative_race Racy.wf.1 Racy.wf.2 (Race.freshClocks_new _ _ _ _) hi racy_twin.1
    replace h3 := h3.trans racy_twin.2
    rcases hk with ⟨_, x, ⟨v, ha⟩, hb⟩ | ⟨h9, _⟩ | ⟨h9, _⟩
    · obtain ⟨ta, xa, va⟩ := racy_write (event_op_mem d2 ha)
      obtain ⟨tb, _⟩ := racy_read (event_op_mem d3 hb)
      subst xa va
      exact ⟨tr, s, j, i, a, b, h1, h2, h3, d1, h5, d2, d3, ta, ha, tb, hb, d5, d6⟩
    · cases h9
    · cases h9

/-- the trace `VCSound.Example.Racy.trace` exhibited in `Props/VCSound.lean` records the same two events -/
theorem racy_trace_records :
    recorded Racy.trace = (runIter Racy.prog (Check.initExec Racy.prog.cfg)).events.map triple := by
  decide +kernel

/-! ### `VCSound.Example.Locked`: the completed run of the twin is declaratively race-free -/

/-- the first iteration of the twin on `Locked.prog` completes (the main thread takes the lock first), with eight
events; the whole exploration has four iterations, none reports anything -/
theorem locked_twin : (runIter Locked.prog (Check.initExec Locked.prog.cfg)).term = none ∧
    (runIter Locked.prog (Check.initExec Locked.prog.cfg)).events.map triple =
      [(0, 0, .unit), (0, 1, .unit), (0, 2, .unit), (0, 3, .unit), (1, 0, .unit), (1, 1, .val 1), (1, 2, .unit),
       (0, 4, .unit)] ∧
    ((Check.run Locked.prog 10).1.map fun it => it.result.term) = [none, none, none, none] := by
  decide +kernel

/-- **the theorem applied to that run**: there is a reference trace of `Locked.prog` without verdict that records
exactly the eight events of the twin — thread 1 reads the value `1` the main thread wrote — and in which every pair of
conflicting accesses of different threads is ordered by happens-before -/
theorem locked_race_free :
    ∃ (tr : List Step) (s : SC.St), Run Locked.prog tr s ∧ s.verdict = none ∧
      recorded tr = [(0, 0, .unit), (0, 1, .unit), (0, 2, .unit), (0, 3, .unit), (1, 0, .unit), (1, 1, .val 1),
        (1, 2, .unit), (0, 4, .unit)] ∧
      RaceFree (events Locked.prog tr) := by
  obtain ⟨tr, s, h1, h2, h3, h4⟩ :=
    iter_completed_is_declaratively_race_free Locked.wf.1 Locked.wf.2 (Race.freshClocks_new _ _ _ _) locked_twin.1
  replace h3 := h3.trans locked_twin.2.1
  exact ⟨tr, s, h1, h2, h3, h4⟩

/-- the trace `VCSound.Example.Locked.trace` exhibited in `Props/VCSound.lean` (with its `unlock → lock` edge and
`write_hb_read`) records exactly the log of this run of the twin -/
theorem locked_trace_records :
    recorded Locked.trace = (runIter Locked.prog (Check.initExec Locked.prog.cfg)).events.map triple := by
  decide +kernel

/-! ### the wait fragment -/

open Race2.Example in
/-- the programs of the examples of `Props/Race2.lean` without condvar, and the two programs above, are in the common
fragment -/
theorem common_fragment :
    (Race2.WF3 mp ∧ NoCondvar mp) ∧ (Race2.WF3 mpLate ∧ NoCondvar mpLate) ∧ (Race2.WF3 ntf ∧ NoCondvar ntf) ∧
    (Race2.WF3 handOff ∧ NoCondvar handOff) ∧ (Race2.WF3 Racy.prog ∧ NoCondvar Racy.prog) ∧
    (Race2.WF3 Locked.prog ∧ NoCondvar Locked.prog) ∧ ¬ NoCondvar cvp := by
  decide +kernel

open Race2.Example in
/-- **message passing through a channel**: the completed run of the twin is a reference trace in which the write of
the main thread happens before the read of thread 1 (the only conflicting pair), by `send → recv` -/
theorem mp_race_free :
    ∃ (tr : List Step) (s : SC.St), Run mp tr s ∧ s.verdict = none ∧
      recorded tr = (runIter mp (Check.initExec mp.cfg)).events.map triple ∧ RaceFree (events mp tr) :=
  iter_completed_is_declaratively_race_free_sync common_fragment.1.1 common_fragment.1.2 (by decide +kernel)
    (freshExec2_new _ _ _ _) (by decide +kernel) (by decide +kernel) (by decide +kernel)

open Race2.Example in
/-- **the cell written after the `send`**: the report of the twin is a declarative data race (`race 9`: the later
access reads) -/
theorem mpLate_race :
    ∃ (tr : List Step) (s : SC.St) (j i : Nat) (a b : VCSound.Event),
      Run mpLate tr s ∧ s.verdict = some (.race 9) ∧
      recorded tr = (runIter mpLate (Check.initExec mpLate.cfg)).events.map triple ∧
      DataRace (events mpLate tr) j i a b ∧ i + 1 = tr.length ∧ RaceKind 9 a b :=
  iter_report_is_declarative_race_sync common_fragment.2.1.1 common_fragment.2.1.2 (by decide +kernel)
    (freshExec2_new _ _ _ _) mpLate_reported.2 (by decide +kernel) mpLate_reported.1

open Race2.Example in
/-- **`Notify`**: the first iteration of `ntf` (the wait is notified) completes without spurious return: the theorem
applies, the trace is race-free (`nnotify → nwait`) -/
theorem ntf_race_free :
    ∃ (tr : List Step) (s : SC.St), Run ntf tr s ∧ s.verdict = none ∧
      recorded tr = (runIter ntf (iter ntf 0)).events.map triple ∧ RaceFree (events ntf tr) :=
  iter_completed_is_declaratively_race_free_sync common_fragment.2.2.1.1 common_fragment.2.2.1.2 (by decide +kernel)
    (freshExec2_new _ _ _ _) ntf_runs.2.1 (by decide +kernel) (by decide +kernel)

open Race2.Example in
/-- **the restriction is a real one**: the second iteration of `ntf` takes the spurious return of `nWait` (and reports
`causality 9`, correctly: `Race2.Example.ntf_runs`); `noSpurIter` is false for it, the theorems of this file do not
apply (the reference execution has a `spur` step, which `VCSound.Run` does not have) -/
theorem ntf_spurious_outside :
    (runIter ntf (iter ntf 1)).term = some (.causality 9) ∧ noSpurIter ntf (iter ntf 1) = false ∧
    noSpurIter ntf (iter ntf 0) = true := by
  decide +kernel

end Example

end RaceDecl
end LoomVerif

/-
DEADLOCK SOUNDNESS (the "only if" half of property C05) for the FUTURES fragment of the DSL (property C20), as
theorems about the twin.

C05: "`loom::model` fails with a deadlock panic iff the program can reach a state in which some thread has not
finished and no thread can take a step."  Here: **whenever the twin reports a deadlock on a program of the futures
fragment, the reference execution the run corresponds to (`Props/Refine4.lean`) has reached — or reaches by one more
enabled step — a deadlocked state of `Spec/SC.lean`**: no verdict, no thread is `SC.enabled`, some started thread has
not finished (`Dead4`), so that `SC.finalVerdict` is `deadlock`.

Fragment (every operation and every mode of `Props/Refine4.lean`, nothing is `…_partial`): `spawn`, `join`, `ifEq`,
the end of a thread, the flag store `Op.atom x (.store 1 .rel)`, `blockOn f mode` for the modes 0 (waker slot),
1, 3, 4 (`AtomicWaker`; 4: poll once), 5 (self-waking future), `wake`, `wakeRef`, `wakeQ`, `dropWaker`, `awWake`,
`awTake`.

1. THE STRENGTHENED RELATION `Deadlock3.RB4 w s := R4 w s ∧ JB4 w ∧ ReplayOK w.exec.path`
   (`Proofs/Deadlock3Defs.lean`).  `JB4` is a twin-side invariant:
   * `GBlk` — a loom thread in state `blocked` has a pending operation that WAITS (`blocking`) on an object that is
     UNAVAILABLE (`Unavail`): a held mutex, a `Notify` whose flag is clear.  (An invariant of the execution record
     alone; every helper of the interpreter keeps it.)
   * the pending operation of a thread that is not running (or is blocked) is the one of the place where it stopped
     (`OpAt4`): past the branch point of `join b` it is on the `JoinHandle`'s `Notify`; in the second half of the
     `Notify::wait` of `blockOn f _` (stages 16, 53) on the call's `Notify`; past the branch point of a lock of the
     slot's / the `AtomicWaker`'s mutex (`blockOn` 30, 45 / 44, `wake` / `wakeRef` / `wakeQ` 2, `dropWaker` 1 /
     `awWake` 2, `awTake` 1) it waits on that mutex; ANYWHERE ELSE it is not a waiting one — so a thread is never
     blocked anywhere else (`never_blocked_elsewhere`), in particular not while it holds a mutex across a branch
     point (`blockOn` 13, 25, `wakeRef` / `wakeQ` 5: `holder_is_not_blocked`) and not between the stage that takes
     a waker and the stage that notifies it (`notifier_is_not_blocked`);
   * a held mutex is held by a thread that stands at one of these three places (`hold`);
   * a thread is `terminated` only at the end of its epilogue; a `JoinHandle` stays notified until joined;
   * `avail`: a thread other than the running one that stands past the branch point of a wait and is NOT blocked
     waits on a `Notify` whose flag is raised.
   Read through `R4`: `blocked_in_block_on_means_disabled`, `blocked_in_join_means_disabled`,
   `blocked_on_mutex_means_holder_runs`, `runnable_means_enabled4`, `terminated_means_finished4`.
   `RB4` holds initially (`rb4_initial`) and is preserved by every successful stage (`step_preserves4`).
2. `deadlock_stage_is_real4` (one stage), `reported_deadlock_is_real` (`runLoop`), `runIter_deadlock_is_real`,
   `check_deadlock_is_real` (`Check.run`).  WHERE THE DEADLOCK IS.  The twin reports a deadlock at a scheduling
   point at which the running thread blocks or terminates and no other thread can run.  In this fragment that is
   (a) the branch point of `join`; (b) the branch point of the `Notify::wait` of a `block_on`, which comes at the
   END of the stage that polls the flag (stage 15): the reference thread is still in phase 3 (enabled!) in the
   state related to the world before that stage, and the deadlocked state is its successor by the step phase
   3 → 4 (`Refine4.step_simulation` takes that step at the same stage); (c) `thread_done`.  It is never the branch
   point of a lock (`lock_never_deadlocks`: the holder can run).  The theorems therefore say "`s`, or its successor
   by one step of a thread enabled in `s`, is deadlocked" (`DeadFrom`).
3. The converse on a path: `no_missed_deadlock_on_this_path` — a run that completes corresponds to a reference
   execution that ends with every started thread finished (no thread enabled, `SC.finalVerdict ≠ deadlock`).
4. Non-vacuity (`decide +kernel`): `Example.*` — the lone `block_on` nobody wakes; `block_on` while the only other
   thread just ends; a `wake_by_ref` that does not set the flag (woken, polls, waits for ever); the three wake-ups
   of `Props/Refine4.lean` before / during / after registration and the self-waking futures do not deadlock.
5. The hypotheses, all explicit:
   * `Deadlock3.WFD prog` = `Refine4.WF4 prog` ∧ `Deadlock.JoinOnce prog` (decidable).  `JoinOnce` is NECESSARY:
     `double_join_false_deadlock4` (the twin reports a deadlock, NO execution of the reference semantics ends in a
     deadlocked state: `SC.outcomesNaive` is complete, `Props/Oracle.lean`).
   * `Refine2.FreshExec2 exec` (the thread table of `Exec.new` / `Exec.step`: one thread, runnable).
   * `Deadlock.ReplayOK exec.path` (decidable): every `Schedule` entry still to be replayed names a thread.
     NECESSARY: `empty_schedule_false_deadlock4`.
   * `Refine4.okRun4 fuel w0 = true` (computable by running the twin), the run-level hypothesis of
     `Props/Refine4.lean`: the flag load of a poll reads the value the reference reads; a `block_on` does not consume
     a notification while another one to the same `Notify` is in flight.  It is what makes the run "correspond to"
     a reference execution at all (`Refine4.Counter.stale_read`, `store_window`, `pending_consume`: without it the
     forward simulation fails); it is INHERITED, and I have NOT shown it necessary for the deadlock verdict itself
     (no run is known that violates it and reports a deadlock while no reference execution deadlocks; such a run
     would be a lost wake-up of loom's `block_on`).  `check_deadlock_is_real` asks it of every iteration `Check.run`
     has run (`okCheck4`, computable).  It only constrains the flag polls of the modes other than 5 and the
     notifications of `wake` / `wakeRef` / `wakeQ` / `awWake`: for programs whose only `block_on`s are self-waking
     futures and that contain none of these wakers (`SelfOnly`, decidable) it holds of every run
     (`okRun4_of_selfOnly`) and the theorems need no run-level hypothesis at all:
     `reported_deadlock_is_real_selfWaking`, `check_deadlock_is_real_selfWaking`.
-/
import LoomVerif.Proofs.Deadlock3Lift
import LoomVerif.Props.Refine4
import LoomVerif.Props.Deadlock
import LoomVerif.Props.Oracle
import LoomVerif.Model.Check

namespace LoomVerif
namespace Deadlock3
open Refine Refine4 Deadlock

/-! ## 1. the strengthened relation -/

/-- `RB4` holds between the initial world and the initial reference state -/
theorem rb4_initial {prog : Prog} {exec : Exec} {w0 : World} (hwf : WFD prog) (hfresh : Refine2.FreshExec2 exec)
    (hpath : ReplayOK exec.path) (hinit : World.init prog exec = .ok w0) : RB4 w0 (SC.init prog) :=
  (init_RB4 hwf hfresh hpath hinit).1

/-- **`RB4` is preserved by every successful stage of the active thread** over the futures fragment (under the
per-step condition `resumeOk4` of `Props/Refine4.lean`): the reference semantics takes zero or more steps — each a
step of a thread that is `SC.enabled`, or the spurious return of the `Notify` inside a `block_on` — to a state that
is related (`RB4`) to the world reached -/
theorem step_preserves4 {w w' : World} {s : SC.St} (hwf : WFD w.prog) (hRB : RB4 w s)
    (hactive : w.ths.isActive = true) (hact : w.tid < w.ctl.length) (hok : resumeOk4 w = true)
    (h : w.stepActive = .ok w') :
    w'.prog = w.prog ∧ (∃ s', Refine2.SCExec2 w.prog s s' ∧ RB4 w' s') ∧ InRange w' := by
  obtain ⟨hp, ⟨s', hex, hR'⟩, hr⟩ := step_sim4 hwf.1 hRB.r hact hok h
  have hout := step_out hwf hRB hactive hact hok
  rw [h] at hout
  obtain ⟨hJ', hrp', _⟩ : JB4 w' ∧ ReplayOK w'.exec.path ∧ _ := hout
  exact ⟨hp, ⟨s', hex, hR', hJ', hrp'⟩, hr⟩

/-! ## 2. the invariants, read through the relation -/

/-- **blocked means waiting** (twin side): a loom thread in state `blocked` has a pending operation that WAITS on
an object that is unavailable (a held mutex, a `Notify` whose flag is clear), and it stands at a waiting position,
with the pending operation that position prescribes -/
theorem blocked_means_waiting4 {w : World} {s : SC.St} (hRB : RB4 w s) {i : Nat} (hi : i < w.ctl.length)
    (hb : (w.ths.get i).state = .blocked) :
    ∃ op, (w.ths.get i).operation = some op ∧ op.blocking = true ∧ Unavail (ovW w) op.obj ∧
      wpos w.prog (w.ctlOf i) ≠ none ∧ OpAt4 w.prog w.spawned w.futs (w.ctlOf i) (some op) :=
  blocked_waiting hRB.j hi hb

/-- **a thread is never blocked anywhere else** than at a waiting position -/
theorem never_blocked_elsewhere {w : World} {s : SC.St} (hRB : RB4 w s) {i : Nat} (hi : i < w.ctl.length)
    (hw : wpos w.prog (w.ctlOf i) = none) : (w.ths.get i).state ≠ .blocked := by
  intro hb
  obtain ⟨_, _, _, _, h, _⟩ := blocked_waiting hRB.j hi hb
  exact h hw

/-- **blocked inside `block_on` means disabled** (the future has not been woken since the last poll).  A loom thread
that is blocked in the second half of the `Notify::wait` of `blockOn f _` (stages 16, 53) stands for a started,
unfinished reference thread in phase 4, which is `SC.enabled` EXACTLY WHEN a notification to the call is in flight:
some thread has taken the reference step of its `wake` (the reference's `notified` flag is set) and stands at the
branch point before the stage that raises the flag of the call's `Notify` — such a thread is never blocked
(`notifier_is_not_blocked`).  In particular, when no thread can run, the reference thread is not enabled. -/
theorem blocked_in_block_on_means_disabled {w : World} {s : SC.St} (hwf : WFD w.prog) (hRB : RB4 w s) {i f : Nat}
    (hi : i < w.ctl.length) (hb : (w.ths.get i).state = .blocked)
    (hw : wpos w.prog (w.ctlOf i) = some (.call f)) :
    (s.th (w.ctlOf i).body).phase = 4 ∧
    (SC.enabled w.prog s (w.ctlOf i).body = true ↔
      ∃ j, j < w.ctl.length ∧ pendN w.prog (w.ctlOf j) = some (w.futs.getD f {}).notify) ∧
    (s.th (w.ctlOf i).body).started = true ∧ (s.th (w.ctlOf i).body).finished = false :=
  blocked_call_disabled hwf hRB.r hRB.j hi hb hw

/-- … hence disabled when no notification is in flight -/
theorem blocked_in_block_on_disabled_of_no_pending {w : World} {s : SC.St} (hwf : WFD w.prog) (hRB : RB4 w s)
    {i f : Nat} (hi : i < w.ctl.length) (hb : (w.ths.get i).state = .blocked)
    (hw : wpos w.prog (w.ctlOf i) = some (.call f))
    (hno : ∀ j, j < w.ctl.length → pendN w.prog (w.ctlOf j) ≠ some (w.futs.getD f {}).notify) :
    SC.enabled w.prog s (w.ctlOf i).body = false := by
  cases he : SC.enabled w.prog s (w.ctlOf i).body with
  | false => rfl
  | true =>
    obtain ⟨j, hj, hp⟩ := (blocked_call_disabled hwf hRB.r hRB.j hi hb hw).2.1.1 he
    exact absurd hp (hno j hj)

/-- **a thread about to deliver a notification is neither blocked nor terminated** (it stands at a branch point
that does not wait) -/
theorem notifier_is_not_blocked {w : World} {s : SC.St} (hRB : RB4 w s) {j k : Nat} (hj : j < w.ctl.length)
    (hp : pendN w.prog (w.ctlOf j) = some k) :
    (w.ths.get j).state ≠ .blocked ∧ (w.ths.get j).state ≠ .terminated :=
  notifier_runs hRB.r hRB.j hj hp

/-- **blocked in `join b` means disabled**: the joined thread has not finished in the reference state -/
theorem blocked_in_join_means_disabled {w : World} {s : SC.St} (hwf : WFD w.prog) (hRB : RB4 w s) {i b : Nat}
    (hi : i < w.ctl.length) (hb : (w.ths.get i).state = .blocked)
    (hw : wpos w.prog (w.ctlOf i) = some (.join b)) :
    SC.enabled w.prog s (w.ctlOf i).body = false ∧ (s.th b).finished = false ∧
    (s.th (w.ctlOf i).body).started = true ∧ (s.th (w.ctlOf i).body).finished = false :=
  blocked_join_disabled hwf hRB.r hRB.j hi hb hw

/-- **blocked on the mutex of a slot or of an `AtomicWaker` means that the holder can run**: the mutex is held by
a thread that holds it across a branch point (`blockOn` 13 / 25, `wakeRef` / `wakeQ` 5) and is neither blocked nor
terminated.  (The reference thread of the blocked thread IS enabled — `wake` is one step of the reference —: the
twin is blocked where the reference is not, but it does not report a deadlock there.) -/
theorem blocked_on_mutex_means_holder_runs {w : World} {s : SC.St} (hwf : WFD w.prog) (hRB : RB4 w s) {i f : Nat}
    (hi : i < w.ctl.length) (hb : (w.ths.get i).state = .blocked)
    (hw : wpos w.prog (w.ctlOf i) = some (.slotM f) ∨ wpos w.prog (w.ctlOf i) = some (.awM f)) :
    ∃ o t, (ovW w)[o]? = some (.mutex (some t)) ∧ t < w.ctl.length ∧ holdsAt w.prog (w.ctlOf t) = some o ∧
      (w.ths.get t).state ≠ .blocked ∧ (w.ths.get t).state ≠ .terminated :=
  blocked_mutex_holder hwf hRB.r hRB.j hi hb hw

/-- **the holder of a mutex is neither blocked nor terminated** -/
theorem holder_is_not_blocked {w : World} {s : SC.St} (hRB : RB4 w s) {o t : Nat}
    (hl : (ovW w)[o]? = some (.mutex (some t))) :
    t < w.ctl.length ∧ holdsAt w.prog (w.ctlOf t) = some o ∧
    (w.ths.get t).state ≠ .blocked ∧ (w.ths.get t).state ≠ .terminated :=
  holder_runs hRB.r hRB.j hl

/-- **runnable past the branch point of a wait means enabled.**  A thread other than the running one that stands
past the branch point of `join b`, or in the second half of the `Notify::wait` of a `block_on`, and is NOT blocked,
stands for a reference thread that is `SC.enabled`: the joined thread has finished, resp. the call has been
notified (the flag of its `Notify` is raised: no wake-up is lost).  (Before the branch point of a `join` of an
unfinished thread a thread is runnable and not yet enabled: it blocks AT the branch point; a thread whose reference
thread is one step ahead — `Refine4.related_results_ahead` — stutters.  At any other place a successful stage is a
sequence of steps of enabled reference threads: `Refine4.step_simulation`.) -/
theorem runnable_means_enabled4 {w : World} {s : SC.St} (hwf : WFD w.prog) (hRB : RB4 w s) {i : Nat}
    (hi : i < w.ctl.length) (hne : i ≠ w.tid) (hnb : (w.ths.get i).state ≠ .blocked)
    (hw : isNotifyPos (wpos w.prog (w.ctlOf i)) = true) : SC.enabled w.prog s (w.ctlOf i).body = true :=
  runnable_enabled hwf hRB.r hRB.j hi hne hnb hw

/-- a terminated loom thread has finished in the reference state -/
theorem terminated_means_finished4 {w : World} {s : SC.St} (hRB : RB4 w s) {i : Nat} (hi : i < w.ctl.length)
    (ht : (w.ths.get i).state = .terminated) : (s.th (w.ctlOf i).body).finished = true := by
  have hf : (s.th (w.ctlOf i).body).finished = decide (10 ≤ (w.ctlOf i).fin) := (thr4 hRB.r hi).2.1
  rw [hf, (hRB.j.thr i hi).term ht]; rfl

/-! ## 3. deadlock soundness -/

/-- **a stage that panics with "deadlock" does so in a deadlocked reference state**: `RB4 w s` and
`w.stepActive = .error .deadlock` imply that `s` — or, when the panic comes from the `Notify::wait` that ends the
stage of the second poll of a `block_on`, the successor of `s` by the step phase 3 → 4 of that `blockOn`, a step of a
thread enabled in `s` — has no verdict, no enabled thread, and a started thread that has not finished -/
theorem deadlock_stage_is_real4 {w : World} {s : SC.St} (hwf : WFD w.prog) (hRB : RB4 w s)
    (hactive : w.ths.isActive = true) (hact : w.tid < w.ctl.length) (hok : resumeOk4 w = true)
    (h : w.stepActive = .error .deadlock) :
    ∃ s', (s' = s ∨ ∃ t, SC.enabled w.prog s t = true ∧ s' ∈ SC.step w.prog s t) ∧
      s'.verdict = none ∧ (∀ t, SC.enabled w.prog s' t = false) ∧
      ∃ t, (s'.th t).started = true ∧ (s'.th t).finished = false := by
  have hout := step_out hwf hRB hactive hact hok
  rw [h] at hout
  exact hout rfl

/-- **the branch point of a lock never reports a deadlock**: `Exec.schedule` called at the branch point of the lock
of a mutex (the entry of the active thread rewritten by `branchF o .opaque b true`, `b`: the mutex is held) in the
middle of a stage does not panic with "deadlock" — the holder of the mutex can run -/
theorem lock_never_deadlocks {w w1 : World} {s : SC.St} {G : TCtl → TCtl} {K : List Nat} {Fu : List FutSt}
    (c : Ctx w s) (m : Mid w w1 G none K Fu) {o : Nat} {b : Bool}
    (hheld : b = true → ∃ t, (ovW w1)[o]? = some (.mutex (some t))) :
    schedOn w1 (branchF o .opaque b true) ≠ .error .deadlock :=
  fun hs => lock_no_dl c m hheld hs

/-- **Every deadlock the twin reports is real.**  If a run of the twin over a well-formed program of the futures
fragment, from a fresh execution, satisfies `okRun4` and ends with the panic "deadlock", then there is an execution
of `Spec/SC.lean` from `SC.init prog` (`SCExec2`: steps of enabled threads, spurious returns) to a state `s0` that
is related (`R4`) to the world `w` reached before the panicking stage — the reference execution the run corresponds
to, `Refine4.run_is_reference_execution` — and `s0`, or its successor `s` by one step of a thread enabled in `s0`,
is a DEADLOCK of the reference semantics: no verdict, no thread is `SC.enabled`, some started thread has not
finished, `SC.finalVerdict s = deadlock`. -/
theorem reported_deadlock_is_real {prog : Prog} {exec : Exec} {w0 w : World} {fuel : Nat}
    (hwf : WFD prog) (hfresh : Refine2.FreshExec2 exec) (hpath : ReplayOK exec.path)
    (hinit : World.init prog exec = .ok w0) (hok : okRun4 fuel w0 = true)
    (hrun : World.runLoop fuel w0 = (w, some .deadlock)) :
    ∃ s0 s, Refine2.SCExec2 prog (SC.init prog) s0 ∧ R4 w s0 ∧
      (s = s0 ∨ ∃ t, SC.enabled prog s0 t = true ∧ s ∈ SC.step prog s0 t) ∧
      Refine2.SCExec2 prog (SC.init prog) s ∧ s.verdict = none ∧ (∀ t, SC.enabled prog s t = false) ∧
      (∃ t, (s.th t).started = true ∧ (s.th t).finished = false) ∧ SC.finalVerdict s = .deadlock :=
  runLoop_deadlock4 hwf hfresh hpath hinit hok hrun

/-- the same for one iteration `runIter` (run, then the leak check, which never reports a deadlock) -/
theorem runIter_deadlock_is_real {prog : Prog} {exec : Exec} {fuel : Nat}
    (hwf : WFD prog) (hfresh : Refine2.FreshExec2 exec) (hpath : ReplayOK exec.path)
    (hok : okIter4 prog exec fuel = true) (hterm : (runIter prog exec fuel).term = some .deadlock) :
    ∃ s, Refine2.SCExec2 prog (SC.init prog) s ∧ s.verdict = none ∧ (∀ t, SC.enabled prog s t = false) ∧
      (∃ t, (s.th t).started = true ∧ (s.th t).finished = false) ∧ SC.finalVerdict s = .deadlock :=
  runIter_deadlock4 hwf hfresh hpath hok hterm

/-- the run-level condition for `Check.run`: every iteration it has run satisfies `okRun4` (computable) -/
def okCheck4 (prog : Prog) (fuel : Nat := 1000000) : Bool :=
  (Check.run prog fuel).1.all fun it => okIter4 prog (Check.freshE prog.cfg.maxThreads it.start)

/-- the loop of `Builder::check`; the run-level condition is asked of the iterations the loop runs -/
theorem loop_deadlock_is_real {prog : Prog} (hwf : WFD prog) :
    ∀ (fuel i : Nat) (e : Exec), Deadlock2.IterInv2 prog.cfg.maxThreads e → ∀ (its : List Iteration) (o : Outcome),
      Check.loop prog fuel i e = (its, o) →
      (∀ e' w0, Deadlock2.IterInv2 prog.cfg.maxThreads e' → e'.path ∈ its.map (·.start) →
        World.init prog e' = .ok w0 → okRun4 200000 w0 = true) →
      o = .panicked .deadlock →
      ∃ it ∈ its, it.result.term = some .deadlock ∧
        ∃ s, Refine2.SCExec2 prog (SC.init prog) s ∧ s.verdict = none ∧ (∀ t, SC.enabled prog s t = false) ∧
          (∃ t, (s.th t).started = true ∧ (s.th t).finished = false) ∧ SC.finalVerdict s = .deadlock :=
  loop_deadlock4 hwf

/-- **Every deadlock `Check.run` reports is real**: if `Builder::check` (the twin's `Check.run`) ends with the panic
"deadlock" on a well-formed program of the futures fragment and every iteration it has run satisfies the run-level
condition (`okCheck4`, computable), then the iteration that panicked reports the deadlock of an execution of the
reference semantics: an execution from `SC.init prog` to a state without verdict in which no thread is
`SC.enabled`, some started thread has not finished, and whose final verdict is `deadlock`.  (No hypothesis on paths
or execution records: the ones `Check.run` hands to its iterations are fresh and their paths name a thread at
every scheduling point, `runIter_iterInv4`.) -/
theorem check_deadlock_is_real {prog : Prog} {fuel : Nat} (hwf : WFD prog) (hok : okCheck4 prog fuel = true)
    (h : (Check.run prog fuel).2 = .panicked .deadlock) :
    ∃ it ∈ (Check.run prog fuel).1, it.result.term = some .deadlock ∧
      ∃ s, Refine2.SCExec2 prog (SC.init prog) s ∧ s.verdict = none ∧ (∀ t, SC.enabled prog s t = false) ∧
        (∃ t, (s.th t).started = true ∧ (s.th t).finished = false) ∧ SC.finalVerdict s = .deadlock := by
  unfold okCheck4 at hok
  rw [List.all_eq_true] at hok
  unfold Check.run at h hok ⊢
  cases hl : Check.loop prog fuel 1 (Check.initExec prog.cfg) with
  | mk its o =>
    rw [hl] at h hok
    refine loop_deadlock_is_real hwf fuel 1 _ (Deadlock2.iterInv2_initExec _) its o hl ?_ h
    intro e' w0 hi hm hinit
    obtain ⟨it, hit, hst⟩ := List.mem_map.1 hm
    have := hok it hit
    rw [hst, ← hi.1] at this
    unfold okIter4 at this
    rw [hinit] at this
    exact this

/-- **… without any run-level condition for programs whose only `block_on`s are self-waking futures** (mode 5) and
that contain no `wake`, `wakeRef`, `wakeQ`, `awWake` (`SelfOnly`, decidable): `okRun4` only constrains the flag
polls of the other modes and the notifications of these wakers (`okRun4_of_selfOnly`) -/
theorem check_deadlock_is_real_selfWaking {prog : Prog} {fuel : Nat} (hwf : WFD prog) (hso : SelfOnly prog)
    (h : (Check.run prog fuel).2 = .panicked .deadlock) :
    ∃ it ∈ (Check.run prog fuel).1, it.result.term = some .deadlock ∧
      ∃ s, Refine2.SCExec2 prog (SC.init prog) s ∧ s.verdict = none ∧ (∀ t, SC.enabled prog s t = false) ∧
        (∃ t, (s.th t).started = true ∧ (s.th t).finished = false) ∧ SC.finalVerdict s = .deadlock := by
  unfold Check.run at h ⊢
  cases hl : Check.loop prog fuel 1 (Check.initExec prog.cfg) with
  | mk its o =>
    rw [hl] at h
    exact loop_deadlock_is_real hwf fuel 1 _ (Deadlock2.iterInv2_initExec _) its o hl
      (fun e' w0 hi _ hinit => okRun4_init_of_selfOnly hwf.1 hso hi.fresh hinit) h

/-- the same for one run: no run-level condition for such programs -/
theorem reported_deadlock_is_real_selfWaking {prog : Prog} {exec : Exec} {w0 w : World} {fuel : Nat}
    (hwf : WFD prog) (hso : SelfOnly prog) (hfresh : Refine2.FreshExec2 exec) (hpath : ReplayOK exec.path)
    (hinit : World.init prog exec = .ok w0) (hrun : World.runLoop fuel w0 = (w, some .deadlock)) :
    ∃ s0 s, Refine2.SCExec2 prog (SC.init prog) s0 ∧ R4 w s0 ∧
      (s = s0 ∨ ∃ t, SC.enabled prog s0 t = true ∧ s ∈ SC.step prog s0 t) ∧
      Refine2.SCExec2 prog (SC.init prog) s ∧ s.verdict = none ∧ (∀ t, SC.enabled prog s t = false) ∧
      (∃ t, (s.th t).started = true ∧ (s.th t).finished = false) ∧ SC.finalVerdict s = .deadlock :=
  reported_deadlock_is_real hwf hfresh hpath hinit (okRun4_init_of_selfOnly hwf.1 hso hfresh hinit) hrun

/-! ## 4. the converse on a path: no deadlock is missed -/

/-- **A run that completes corresponds to a reference execution that does not end in a deadlock.**  If a run of
the twin from a fresh execution satisfies `okRun4` and ends without a panic, the reference execution it corresponds
to (`Refine4.run_is_reference_execution`) ends in a state — related (`R4`) to the final world — in which EVERY
started thread has finished: no thread is enabled (the execution is maximal), `SC.allDone` holds, and the final
verdict is not `deadlock`. -/
theorem no_missed_deadlock_on_this_path {prog : Prog} {exec : Exec} {w0 w : World} {fuel : Nat}
    (hwf : WFD prog) (hfresh : Refine2.FreshExec2 exec) (hpath : ReplayOK exec.path)
    (hinit : World.init prog exec = .ok w0) (hok : okRun4 fuel w0 = true)
    (hrun : World.runLoop fuel w0 = (w, none)) :
    ∃ s, Refine2.SCExec2 prog (SC.init prog) s ∧ R4 w s ∧ s.verdict = none ∧
      (∀ t, SC.enabled prog s t = false) ∧ (∀ t, (s.th t).started = true → (s.th t).finished = true) ∧
      SC.allDone s = true ∧ SC.finalVerdict s ≠ .deadlock :=
  no_missed4 hwf hfresh hpath hinit hok hrun

/-! ## 5. non-vacuity -/

namespace Example
open Refine4.Example

/-- **the lone `block_on` nobody wakes** (`cfg x=1 f=1 | T0: blockon 0 0`, `Refine4.Example.lone`): the exploration
of the twin stops at its first iteration with "deadlock"; the hypotheses of the theorem hold -/
theorem lone_deadlocks :
    WFD lone ∧ (Check.run lone).2 = .panicked .deadlock ∧ okCheck4 lone = true ∧
    (Check.run lone).1.map (·.result.term) = [some .deadlock] := by
  refine ⟨by decide +kernel, by decide +kernel, by decide +kernel, by decide +kernel⟩

/-- … so the deadlock is a deadlock of the reference semantics (by the theorem) -/
theorem lone_is_real :
    ∃ it ∈ (Check.run lone).1, it.result.term = some .deadlock ∧
      ∃ s, Refine2.SCExec2 lone (SC.init lone) s ∧ s.verdict = none ∧ (∀ t, SC.enabled lone s t = false) ∧
        (∃ t, (s.th t).started = true ∧ (s.th t).finished = false) ∧ SC.finalVerdict s = .deadlock :=
  check_deadlock_is_real lone_deadlocks.1 lone_deadlocks.2.2.1 lone_deadlocks.2.1

/-- … and indeed EVERY execution of the reference semantics of `lone` ends with the verdict `deadlock`
(`Refine4.Example.lone_deadlocks`: there are two, with and without the spurious return) -/
theorem lone_reference_deadlocks :
    (SC.outcomesNaive lone 40 (SC.init lone)).map (fun l => (l.length, l.all fun o => o.verdict == .deadlock)) =
      some (2, true) := Refine4.Example.lone_deadlocks.2.2.2.2

/-- the main thread blocks on a future while the only other thread just ends -/
def loneSpawn : Prog :=
  { cfg := { nAtomics := 1, nFutures := 1 }, threads := [[.spawn 1, .blockOn 0 0, .join 1], []] }

theorem loneSpawn_deadlocks :
    WFD loneSpawn ∧ (Check.run loneSpawn).2 = .panicked .deadlock ∧ okCheck4 loneSpawn = true := by
  refine ⟨by decide +kernel, by decide +kernel, by decide +kernel⟩

theorem loneSpawn_is_real :
    ∃ it ∈ (Check.run loneSpawn).1, it.result.term = some .deadlock ∧
      ∃ s, Refine2.SCExec2 loneSpawn (SC.init loneSpawn) s ∧ s.verdict = none ∧
        (∀ t, SC.enabled loneSpawn s t = false) ∧
        (∃ t, (s.th t).started = true ∧ (s.th t).finished = false) ∧ SC.finalVerdict s = .deadlock :=
  check_deadlock_is_real loneSpawn_deadlocks.1 loneSpawn_deadlocks.2.2 loneSpawn_deadlocks.2.1

/-- **woken but not ready**: thread 1 wakes the registered waker by reference WITHOUT setting the flag
(`wakeQ`); the main thread is notified, polls the flag again (still 0) and waits for ever -/
def wokenNotReady : Prog :=
  { cfg := { nAtomics := 1, nFutures := 1 }, threads := [[.spawn 1, .blockOn 0 0, .join 1], [.wakeQ 0]] }

theorem wokenNotReady_deadlocks :
    WFD wokenNotReady ∧ (Check.run wokenNotReady).2 = .panicked .deadlock ∧ okCheck4 wokenNotReady = true ∧
    (Check.run wokenNotReady).1.map (fun it => it.result.events.map triple) =
      [[(0, 0, .unit), (1, 0, .unit)]] := by
  refine ⟨by decide +kernel, by decide +kernel, by decide +kernel, by decide +kernel⟩

theorem wokenNotReady_is_real :
    ∃ it ∈ (Check.run wokenNotReady).1, it.result.term = some .deadlock ∧
      ∃ s, Refine2.SCExec2 wokenNotReady (SC.init wokenNotReady) s ∧ s.verdict = none ∧
        (∀ t, SC.enabled wokenNotReady s t = false) ∧
        (∃ t, (s.th t).started = true ∧ (s.th t).finished = false) ∧ SC.finalVerdict s = .deadlock :=
  check_deadlock_is_real wokenNotReady_deadlocks.1 wokenNotReady_deadlocks.2.2.1 wokenNotReady_deadlocks.2.1

/-- **a program with a waker does not deadlock**: the three runs of `Refine4.Example.wakeProg` (the main thread
blocks on future 0, thread 1 wakes it: wake before / during / after registration) complete; the hypotheses of
`no_missed_deadlock_on_this_path` hold -/
theorem wake_runs_complete (e : Exec) (he : e = execAfter ∨ e = execDuring ∨ e = execBefore) :
    WFD wakeProg ∧ Refine2.FreshExec2 e ∧ ReplayOK e.path ∧ okIter4 wakeProg e = true ∧
    (finalW wakeProg e).2 = none := by
  rcases he with rfl | rfl | rfl
  · exact ⟨by decide +kernel, ⟨rfl, rfl⟩, by decide +kernel, by decide +kernel, by decide +kernel⟩
  · exact ⟨by decide +kernel, ⟨rfl, rfl⟩, by decide +kernel, by decide +kernel, by decide +kernel⟩
  · exact ⟨by decide +kernel, ⟨rfl, rfl⟩, by decide +kernel, by decide +kernel, by decide +kernel⟩

/-- … so, by the theorem, each of them corresponds to a reference execution that ends with every started thread
finished: not a deadlock -/
theorem wake_runs_do_not_deadlock (e : Exec) (he : e = execAfter ∨ e = execDuring ∨ e = execBefore) :
    ∃ s, Refine2.SCExec2 wakeProg (SC.init wakeProg) s ∧ R4 (finalW wakeProg e).1 s ∧ s.verdict = none ∧
      (∀ t, SC.enabled wakeProg s t = false) ∧ SC.allDone s = true ∧ SC.finalVerdict s ≠ .deadlock := by
  obtain ⟨hwf, hfr, hrp, hok, hnp⟩ := wake_runs_complete e he
  unfold finalW at hnp ⊢
  unfold okIter4 at hok
  cases hi : World.init wakeProg e with
  | error err => rw [hi] at hnp; cases hnp
  | ok w0 =>
    rw [hi] at hnp hok
    simp only at hnp hok ⊢
    cases hr : World.runLoop 200000 w0 with
    | mk w r =>
      rw [hr] at hnp
      simp only at hnp
      subst hnp
      obtain ⟨s, h1, h2, h3, h4, _, h6, h7⟩ := no_missed_deadlock_on_this_path hwf hfr hrp hi hok hr
      exact ⟨s, h1, h2, h3, h4, h6, h7⟩

/-- two self-waking futures (mode 5: the first poll wakes itself), one per thread: the exploration completes in
five iterations, none reports a deadlock, every iteration satisfies `okRun4` -/
def selfJoin : Prog :=
  { cfg := { nAtomics := 2, nFutures := 2 }, threads := [[.spawn 1, .blockOn 0 5, .join 1], [.blockOn 1 5]] }

theorem selfJoin_never_deadlocks :
    WFD selfJoin ∧ (Check.run selfJoin).2 = .completed ∧ (Check.run selfJoin).1.length = 5 ∧
    okCheck4 selfJoin = true ∧ ((Check.run selfJoin).1.all fun it => it.result.term == none) = true := by
  refine ⟨by decide +kernel, by decide +kernel, by decide +kernel, by decide +kernel, by decide +kernel⟩

/-- a thread that joins itself, next to a self-waking future: a deadlock found without any run-level condition
(`check_deadlock_is_real_selfWaking`) -/
def joinSelf : Prog :=
  { cfg := { nAtomics := 1, nFutures := 1 }, threads := [[.spawn 1, .blockOn 0 5], [.join 1]] }

theorem joinSelf_deadlocks :
    WFD joinSelf ∧ SelfOnly joinSelf ∧ (Check.run joinSelf).2 = .panicked .deadlock := by
  refine ⟨by decide +kernel, by decide +kernel, by decide +kernel⟩

theorem joinSelf_is_real :
    ∃ it ∈ (Check.run joinSelf).1, it.result.term = some .deadlock ∧
      ∃ s, Refine2.SCExec2 joinSelf (SC.init joinSelf) s ∧ s.verdict = none ∧
        (∀ t, SC.enabled joinSelf s t = false) ∧
        (∃ t, (s.th t).started = true ∧ (s.th t).finished = false) ∧ SC.finalVerdict s = .deadlock :=
  check_deadlock_is_real_selfWaking joinSelf_deadlocks.1 joinSelf_deadlocks.2.1 joinSelf_deadlocks.2.2

end Example

/-! ## 6. the hypotheses are necessary -/

/-- **`JoinOnce` is necessary.**  `Deadlock.Counter.dj` joins body 1 twice; it satisfies `WF4` (and the run-level
hypothesis); from the fresh execution with the empty path the twin reports a deadlock (the second `join` blocks on
the notification the first one consumed) — but NO execution of the reference semantics ends in a deadlocked state:
the enumerator of `Spec/SC.lean` (complete: `Oracle.outcomesNaive_spec`) finds the verdict `ok` only. -/
theorem double_join_false_deadlock4 :
    WF4 Deadlock.Counter.dj ∧ ¬ WFD Deadlock.Counter.dj ∧
    Refine2.FreshExec2 (Check.initExec Deadlock.Counter.dj.cfg) ∧
    ReplayOK (Check.initExec Deadlock.Counter.dj.cfg).path ∧
    okIter4 Deadlock.Counter.dj (Check.initExec Deadlock.Counter.dj.cfg) = true ∧
    (runIter Deadlock.Counter.dj (Check.initExec Deadlock.Counter.dj.cfg)).term = some .deadlock ∧
    ¬ ∃ s, Refine2.SCExec2 Deadlock.Counter.dj (SC.init Deadlock.Counter.dj) s ∧ Dead4 Deadlock.Counter.dj s := by
  refine ⟨by decide +kernel, by decide +kernel, Refine2.freshExec2_new _ _ _ _, replayOK_new _ _ _,
    by decide +kernel, by decide +kernel, ?_⟩
  have h : ∃ l, SC.outcomesNaive Deadlock.Counter.dj 20 (SC.init Deadlock.Counter.dj) = some l ∧
      (l.all fun o => o.verdict != .deadlock) = true := by
    cases hh : SC.outcomesNaive Deadlock.Counter.dj 20 (SC.init Deadlock.Counter.dj) with
    | none =>
      have : (SC.outcomesNaive Deadlock.Counter.dj 20 (SC.init Deadlock.Counter.dj)).isSome = true := by
        decide +kernel
      rw [hh] at this; cases this
    | some l =>
      refine ⟨l, rfl, ?_⟩
      have : ((SC.outcomesNaive Deadlock.Counter.dj 20 (SC.init Deadlock.Counter.dj)).all
          fun l => l.all fun o => o.verdict != .deadlock) = true := by decide +kernel
      rw [hh] at this
      exact this
  obtain ⟨l, hl, hno⟩ := h
  exact no_dead_of_outcomes hl hno

namespace Counter

/-- a path whose first `Schedule` entry has no active thread -/
def emptyExec4 : Exec :=
  { Check.initExec Refine4.Example.selfProg.cfg with
    path := { Path.new 1000 none true with branches := [.sched Deadlock.Counter.emptySched] } }

end Counter

/-- **`ReplayOK` is necessary.**  `Refine4.Example.selfProg` (one self-waking future) is well-formed; on a path whose
first `Schedule` entry has no active thread the twin (like loom) reports a deadlock at the first branch point,
before any event — but no execution of the reference semantics of that program ends in a deadlocked state (its two
executions end with the verdict `ok`). -/
theorem empty_schedule_false_deadlock4 :
    WFD Refine4.Example.selfProg ∧ Refine2.FreshExec2 Counter.emptyExec4 ∧ ¬ ReplayOK Counter.emptyExec4.path ∧
    okIter4 Refine4.Example.selfProg Counter.emptyExec4 = true ∧
    (runIter Refine4.Example.selfProg Counter.emptyExec4).term = some .deadlock ∧
    (runIter Refine4.Example.selfProg Counter.emptyExec4).events = [] ∧
    ¬ ∃ s, Refine2.SCExec2 Refine4.Example.selfProg (SC.init Refine4.Example.selfProg) s ∧
      Dead4 Refine4.Example.selfProg s := by
  refine ⟨by decide +kernel, ⟨rfl, rfl⟩, by decide +kernel, by decide +kernel, by decide +kernel,
    by decide +kernel, ?_⟩
  have h : ∃ l, SC.outcomesNaive Refine4.Example.selfProg 20 (SC.init Refine4.Example.selfProg) = some l ∧
      (l.all fun o => o.verdict != .deadlock) = true := by
    cases hh : SC.outcomesNaive Refine4.Example.selfProg 20 (SC.init Refine4.Example.selfProg) with
    | none =>
      have : (SC.outcomesNaive Refine4.Example.selfProg 20 (SC.init Refine4.Example.selfProg)).isSome = true := by
        decide +kernel
      rw [hh] at this; cases this
    | some l =>
      refine ⟨l, rfl, ?_⟩
      have : ((SC.outcomesNaive Refine4.Example.selfProg 20 (SC.init Refine4.Example.selfProg)).all
          fun l => l.all fun o => o.verdict != .deadlock) = true := by decide +kernel
      rw [hh] at this
      exact this
  obtain ⟨l, hl, hno⟩ := h
  exact no_dead_of_outcomes hl hno

end Deadlock3
end LoomVerif

/-
Property C08: "Waiting primitives wake exactly on notification.  A thread in Condvar::wait,
Notify::wait, thread::park or JoinHandle::join resumes only after the matching notify_one/
notify_all, notify, unpark or thread exit (plus the single spurious return loom models per Notify),
a notification issued before the wait is not lost where the primitive stores it (park token,
Notify flag), notify_one releases one waiter and notify_all all of them, condvar waiters re-acquire
the mutex before returning, and the notifier's prior writes happen-before the woken thread's
continuation."

Headline theorems about the twin's model of `src/rt/notify.rs`, `src/rt/condvar.rs`, `rt::park`, `rt::block`,
`thread::Set::unpark`, `thread::Set::wake`, `src/thread.rs` (`World.notifyEffect`, `notifyWait1`, `notifyWait2`,
`parkNow`, `blockNow`, `Threads.unpark`, `Threads.wake`, `Thread.setUnparked`, `Thread.wakeFrom`, the stages of `World.runOp` for `cvWait`,
`cvOne`, `cvAll`, `nWait`, `nNotify`, `park`, `unpark`, `spawn`, `join`, and `World.runEpilogue`).
As in `Props/C07.lean` they are ONE-STEP LAWS valid in EVERY state of the twin, plus monotone
invariants over arbitrary sequences of steps; successor states are given outright (see
`Table.read` in `Props/C07.lean` for reading them).

Vocabulary (definitions in `LoomVerif/Proofs/C08Notify.lean`, `C08Only.lean`; spelled out below):

* `NotifyKeep s s'`   one step in the life of a notify object that does not consume the flag: SOME
                      world holding the object performs `notifyEffect` or `notifyWait1` on it, or
                      the scheduler records an access.  `NotifyStep`: such a step or `notifyWait2`.
                      `NotifyKeeps`, `NotifySteps`: any number of steps.
* `NotifyKept os os'` every notify object of `os` is in `os'`, unchanged up to `lastAccess`.
* `FlagNotRaised os os'` every notify object of `os` is in `os'` and its `notified` did not go
                      from `false` to `true`.
* `lockOrWaitNotNotify op`  `op` is one of lock, tryLock, unlock, read, write, tryRead, tryWrite,
                      unread, unwrite, cvWait, cvOne, cvAll, nWait, park, unpark, join.
* `EpiRun t w w' ks`  a run of the epilogue of the spawned thread `t` before its common tail: stages of
                      `t` itself interleaved with arbitrary changes that keep `t`'s control record; `ks`
                      lists the keys whose destructor store was performed (`EpiRun_spelled_out`).
* `liveKeys w`        the keys with a live thread-local in the active thread, in initialisation order
                      (`Proofs/C17Tls.lean`, `liveKeys_spelled_out` in `Props/C17.lean`).

* `Tok.toks s i`       the `park` token of thread `i` in the thread table `s` (`false` outside the table);
                      `Tok.tokenOp op`: `op` is `park` or `unpark`;
                      `Tok.parksAt c op`, `Tok.parkStage w`: the stage (about to be run by the active thread)
                      calls `rt::park` (stage 0 of `park`); `Tok.NoParkRun t w w'`: a run of stages in which thread `t` runs no
                      such stage (all in `Proofs/C08Token.lean`, spelled out in `Park.frame_defs`).

REPAIRED findings F17 and F15 (concrete witness states in `Proofs/SyncExamples.lean`).  F17 — `unpark` used to
join the unparker's causality into the target immediately, even if the target never parks (old theorem
`Park.unpark_raises_causality_at_once`); it is now stored with the token (`Thread.unparkCaus`) and acquired by the
`park` that consumes the token or is woken by the unpark: `Park.unpark_orders_nothing_until_park` (one-step
laws), `Park.unpark_happens_before_park` (the run-level law: `causality ⊔ unparkCaus` of every thread never shrinks
under any stage of any operation, so the unparker's causality reaches the target's causality at the consuming
`park` however many stages lie in between; `Hb.covT`, `Hb.Steps` in `Proofs/C08Hb.lean`, spelled out in
`Hb_spelled_out`), `Park.setUnparked_table`, `Park.park_consumes_token`, `Park.unpark`.  F15 — `Condvar::wait` used to block through
`rt::park` and `notify_one` / `notify_all` to wake through `Set::unpark`, so that a stored unpark made a `wait`
return without any notification and an `unpark` woke a condvar waiter; the waiter now blocks with `rt::block`
(blocked, not parked, token not looked at) and is woken with `Set::wake`: `Condvar.unpark_is_no_notification`,
`Condvar.wake_table`, `Condvar.wait_enqueues_releases_blocks`, `Condvar.notify_one_fifo`, `Condvar.notify_all`;
the condvar operations no longer touch any token (`Park.op_frame`).

REPAIRED findings (the theorems now state the repaired behaviour).  F5/F6 — `unpark` used to make a thread
that is blocked on a mutex or in a `join` runnable although nothing released / notified; when it ran, loom
panicked ("expected to be able to acquire lock" / `assert!(state.notified)`; old theorem
`Park.unpark_wakes_lock_waiter`).  The token is now a field of its own (`Thread.token`), a thread blocked in
`park` is marked (`Thread.parked`), and `unpark` wakes ONLY a parked thread; every other live thread keeps
the unpark as a token: `Park.unpark_wakes_only_parked`, `Park.unpark_keeps_lock_waiter_blocked`.  F18 — a lock
release (and any blocking in between) used to destroy a stored token (old theorem
`Park.release_loses_token`); now no helper but `set_unparked` and `rt::park` writes a token:
`Park.token_survives_blocking`, `Park.op_frame`, `Park.step_frame`, `Release.keeps_token`,
`Park.release_keeps_token`, and an `unpark` that comes before the `park` is never lost:
`Park.unpark_then_park_never_blocks`.  `Notify::notify` no longer goes through `Thread::unpark`: it wakes a
blocked waiter and hands out no token: `Notify.wakes_blocked_waiter_only`.  F26 — `Notify::notify` used to join
the notifier's causality into EVERY other thread whose pending operation names the object, also into another
notifier about to `notify` the same object (which then did not race with what the first notifier had done); it
now only wakes, and the waiter acquires the notifiers' release from the object's `sync` when it returns from
`wait`: `Notify.notify_acquires_nothing`, `Wait.notifier_hb`.  F20 — the epilogue of a spawned
thread used to notify the `JoinHandle` BEFORE `drop_locals` and the thread-local destructors; it now runs them
first: `Join.after_destructors`, `Join.after_exit`.
-/
import LoomVerif.Proofs.SyncExamples
import LoomVerif.Proofs.C08Release
import LoomVerif.Proofs.C08Epilogue
import LoomVerif.Proofs.C08Token
import LoomVerif.Proofs.C08Block
import LoomVerif.Proofs.C08Hb

namespace LoomVerif
open C12 Sy C07 C08 C17

/-! ## 1. `Notify.flag_not_lost`, `Wait.notifier_hb` -/

/-- `Notify::notify` after its branch point: `notified := true`, the notifier's clocks are released
into the object (`Sync.store … .rel`), and every OTHER thread whose pending operation is on the
object is woken if it is blocked (`Thread.wake`; not `Thread::unpark`: see
`Notify.wakes_blocked_waiter_only`); nothing is acquired by the threads woken (repair of finding F26:
`Notify.notify_acquires_nothing`). -/
theorem Notify.notify_effect (w : World) (o : Nat) (s : NotifySt)
    (h : w.exec.objs[o]? = some (.notify s)) :
    w.notifyEffect o = .ok
      { w with exec := { w.exec with
          objs := w.exec.objs.set o (.notify { s with
            sync := s.sync.store w.ths.activeT.released w.ths.caus .rel, notified := true })
          threads := { w.exec.threads with threads :=
            (w.exec.threads.threads.mapIdx fun i th =>
              if i = w.tid then th
              else if th.operation.any (fun op => op.obj == o) then th.wake
              else th) } } } ∧
    w.ths.caus.le (s.sync.store w.ths.activeT.released w.ths.caus .rel).hb :=
  ⟨notifyEffect_eq h, (le_store_rel _ _ _).2.2⟩

/-- What `notify` does to the threads, entry by entry.  A thread OTHER than the notifier whose pending
operation is on the object goes through `Thread.wake` (and acquires nothing); every other entry
is unchanged.  Hence: NOBODY receives a `park` token from a `notify` (every thread's token is what it was);
thread `i` is woken — its state changes — EXACTLY IF it is not the notifier, its pending operation is on the
object and it is blocked, and then it is `runnable` and not `parked`. -/
theorem Notify.wakes_blocked_waiter_only {w w' : World} {o : Nat} {s : NotifySt}
    (h : w.exec.objs[o]? = some (.notify s)) (hr : w.notifyEffect o = .ok w') (i : Nat) :
    w'.ths.get i =
      (if i ≠ w.tid ∧ ∃ op, (w.ths.get i).operation = some op ∧ op.obj = o then (w.ths.get i).wake
      else w.ths.get i) ∧
    (w'.ths.get i).token = (w.ths.get i).token ∧
    ((w'.ths.get i).state ≠ (w.ths.get i).state ↔
      i ≠ w.tid ∧ (∃ op, (w.ths.get i).operation = some op ∧ op.obj = o) ∧
        (w.ths.get i).state = .blocked) ∧
    ((w'.ths.get i).state ≠ (w.ths.get i).state →
      (w'.ths.get i).state = .runnable ∧ (w'.ths.get i).parked = false) ∧
    ((w'.ths.get i).state = (w.ths.get i).state → (w'.ths.get i).parked = (w.ths.get i).parked) :=
  ⟨notifyEffect_get h hr i, notifyEffect_wakes h hr i⟩

/-- REPAIRED finding F26: `Notify::notify` acquires nothing for anybody.  Every thread — in particular every
thread OTHER than the notifier, whatever its pending operation: a waiter, or another notifier whose own pending
`notify` names the same object — has after `notifyEffect` the `causality` it had before (and the same `released`,
`unparkCaus`, pending `operation` and `park` token); the only thing that changes in the thread table is the
`state` of a BLOCKED thread other than the notifier whose pending operation names the object (it becomes
`runnable` and is not `parked`); a thread whose state does not change is the entry it was.  The notifier → waiter
edge goes through the object's `sync` instead: `Wait.notifier_hb`. -/
theorem Notify.notify_acquires_nothing {w w' : World} {o : Nat} {s : NotifySt}
    (h : w.exec.objs[o]? = some (.notify s)) (hr : w.notifyEffect o = .ok w') (i : Nat) :
    (w'.ths.get i).causality = (w.ths.get i).causality ∧
    (w'.ths.get i).released = (w.ths.get i).released ∧
    (w'.ths.get i).unparkCaus = (w.ths.get i).unparkCaus ∧
    (w'.ths.get i).operation = (w.ths.get i).operation ∧
    (w'.ths.get i).token = (w.ths.get i).token ∧
    ((w'.ths.get i).state ≠ (w.ths.get i).state ↔
      i ≠ w.tid ∧ (∃ op, (w.ths.get i).operation = some op ∧ op.obj = o) ∧
        (w.ths.get i).state = .blocked) ∧
    ((w'.ths.get i).state ≠ (w.ths.get i).state →
      (w'.ths.get i).state = .runnable ∧ (w'.ths.get i).parked = false) ∧
    ((w'.ths.get i).state = (w.ths.get i).state → w'.ths.get i = w.ths.get i) := by
  obtain ⟨c1, c2, c3, c4⟩ := notifyEffect_caus h hr i
  obtain ⟨k1, k2, k3, _⟩ := notifyEffect_wakes h hr i
  refine ⟨c1, c2, c3, c4, k1, k2, k3, ?_⟩
  rw [notifyEffect_get h hr i]
  split
  · unfold Thread.wake
    split
    · next hb =>
      intro he
      have hb' : (w.ths.get i).state = .blocked := by simpa [Thread.isBlocked] using hb
      have he' : (w.ths.get i).setRunnable.state = (w.ths.get i).state := he
      rw [hb'] at he'
      cases he'
    · exact fun _ => rfl
  · exact fun _ => rfl

/-- first half of `Notify::wait` when no spurious return is possible (`spurious = false` or
`did_spur = true`): the path is not consulted; the waiter branches on the object and is blocked
exactly when the flag is NOT set — with the flag set it is not blocked. -/
theorem Notify.wait_first_half (w : World) (o : Nat) (s : NotifySt)
    (h : w.exec.objs[o]? = some (.notify s)) (hs : s.spurious = false ∨ s.didSpur = true) :
    w.notifyWait1 o = (w.branch o .opaque (block := !s.notified) (wait := !s.notified)).map (·, 1) := by
  apply notifyWait1_plain h
  rcases hs with e | e <;> simp [e]

/-- second half of `Notify::wait`: `assert!(state.notified)`; if set, the waiter acquires the
object's clock and clears the flag. -/
theorem Notify.wait_second_half (w : World) (o : Nat) (s : NotifySt)
    (h : w.exec.objs[o]? = some (.notify s)) :
    (s.notified = false → w.notifyWait2 o = .error .notNotified) ∧
    (s.notified = true → w.notifyWait2 o = .ok
      ((w.setThs (w.ths.setCaus (w.ths.caus.join s.sync.hb))).setObj o
        (.notify { s with notified := false }))) ∧
    (w.tid < w.ths.threads.length → (w.ths.setCaus (w.ths.caus.join s.sync.hb)).caus =
      w.ths.caus.join s.sync.hb) :=
  ⟨notifyWait2_unnotified h, notifyWait2_notified h, fun hin => caus_setCaus _ _ hin⟩

theorem NotifyKeep_spelled_out (s s' : NotifySt) :
    NotifyKeep s s' ↔
      (∃ (w w' : World) (o : Nat), w.exec.objs[o]? = some (.notify s) ∧
        w'.exec.objs[o]? = some (.notify s') ∧
        (w.notifyEffect o = .ok w' ∨ ∃ st, w.notifyWait1 o = .ok (w', st))) ∨
      (∃ a, s' = { s with lastAccess := a }) := by
  constructor
  · intro h
    cases h with
    | effect h hr h' => exact .inl ⟨_, _, _, h, h', .inl hr⟩
    | wait1 h hr h' => exact .inl ⟨_, _, _, h, h', .inr ⟨_, hr⟩⟩
    | touch s a => exact .inr ⟨a, rfl⟩
  · rintro (⟨w, w', o, h, h', hr | ⟨st, hr⟩⟩ | ⟨a, rfl⟩)
    · exact .effect h hr h'
    · exact .wait1 h hr h'
    · exact .touch s a

theorem NotifyStep_spelled_out (s s' : NotifySt) :
    NotifyStep s s' ↔ NotifyKeep s s' ∨
      ∃ (w w' : World) (o : Nat), w.exec.objs[o]? = some (.notify s) ∧
        w'.exec.objs[o]? = some (.notify s') ∧ w.notifyWait2 o = .ok w' := by
  constructor
  · intro h
    cases h with
    | keep k => exact .inl k
    | wait2 h hr h' => exact .inr ⟨_, _, _, h, h', hr⟩
  · rintro (k | ⟨w, w', o, h, h', hr⟩)
    · exact .keep k
    · exact .wait2 h hr h'

theorem NotifySteps_spelled_out (s s' : NotifySt) :
    (NotifyKeeps s s' ↔ s = s' ∨ ∃ s1, NotifyKeeps s s1 ∧ NotifyKeep s1 s') ∧
    (NotifySteps s s' ↔ s = s' ∨ ∃ s1, NotifySteps s s1 ∧ NotifyStep s1 s') := by
  refine ⟨⟨?_, ?_⟩, ⟨?_, ?_⟩⟩
  · intro h
    cases h with
    | refl => exact .inl rfl
    | tail h k => exact .inr ⟨_, h, k⟩
  · rintro (rfl | ⟨s1, h, k⟩)
    · exact .refl _
    · exact .tail h k
  · intro h
    cases h with
    | refl => exact .inl rfl
    | tail h k => exact .inr ⟨_, h, k⟩
  · rintro (rfl | ⟨s1, h, k⟩)
    · exact .refl _
    · exact .tail h k

/-- A notification issued before the wait is not lost: `notify` sets the flag; the flag stays set
through any non-consuming steps (further `notify`s, first halves of `wait`, access records); a
`wait` that then starts without a spurious return is NOT blocked (`block := false`), and its second
half succeeds (no `notNotified`). -/
theorem Notify.flag_not_lost {wN wN' wW : World} {oN oW : Nat} {s0 s1 s2 : NotifySt}
    (h0 : wN.exec.objs[oN]? = some (.notify s0)) (hn : wN.notifyEffect oN = .ok wN')
    (h1 : wN'.exec.objs[oN]? = some (.notify s1)) (hsteps : NotifyKeeps s1 s2)
    (h2 : wW.exec.objs[oW]? = some (.notify s2)) :
    s2.notified = true ∧
    ((s2.spurious && !s2.didSpur) = false →
      wW.notifyWait1 oW = (wW.branch oW .opaque (block := false)).map (·, 1)) ∧
    (∃ wW', wW.notifyWait2 oW = .ok wW') :=
  C08.flag_not_lost h0 hn h1 hsteps h2

/-- With the flag not set and no spurious return the waiter IS blocked. -/
theorem Notify.blocks_without_flag (w : World) (o : Nat) (s : NotifySt)
    (h : w.exec.objs[o]? = some (.notify s)) (hs : (s.spurious && !s.didSpur) = false)
    (hn : s.notified = false) :
    w.notifyWait1 o = (w.branch o .opaque (block := true) (wait := true)).map (·, 1) := by
  rw [notifyWait1_plain h hs, hn]; rfl

/-- `Wait.notifier_hb` for `Notify` (and hence `join`): `notify` by N in any world, then any steps
of the object's life, then the second half of `wait` by W returns: W's causality afterwards is
above N's causality at the `notify`.  The edge goes through the object's `sync` (released into by
`notifyEffect`, acquired by `notifyWait2`): `notifyEffect` itself hands nothing to the thread it wakes
(`Notify.notify_acquires_nothing`). -/
theorem Wait.notifier_hb {wN wN' wW wW' : World} {oN oW : Nat} {s0 s1 s2 : NotifySt}
    (h0 : wN.exec.objs[oN]? = some (.notify s0)) (hn : wN.notifyEffect oN = .ok wN')
    (h1 : wN'.exec.objs[oN]? = some (.notify s1)) (hsteps : NotifySteps s1 s2)
    (h2 : wW.exec.objs[oW]? = some (.notify s2)) (hin : wW.tid < wW.ths.threads.length)
    (hw : wW.notifyWait2 oW = .ok wW') :
    wN.ths.caus.le wW'.ths.caus :=
  C08.notifier_hb h0 hn h1 hsteps h2 hin hw

/-! ## 2. `Notify.single_spurious` -/

/-- first half of `Notify::wait` when a spurious return is possible (`spurious ∧ ¬did_spur`): only
then the path is consulted (`branch_spurious`).  Spurious branch: `did_spur := true`, the thread
yields and `wait` returns (stage 2).  Otherwise as `Notify.wait_first_half`. -/
theorem Notify.wait_first_half_may_spur (w : World) (o : Nat) (s : NotifySt)
    (h : w.exec.objs[o]? = some (.notify s)) (hs : s.spurious = true) (hd : s.didSpur = false) :
    w.notifyWait1 o =
      match w.exec.path.branchSpurious w.panicking with
      | .error e => .error e
      | .ok (p, true) =>
        (((w.setPath p).setObj o (.notify { s with didSpur := true })).yieldNow).map (·, 2)
      | .ok (p, false) => ((w.setPath p).branch o .opaque (block := !s.notified) (wait := !s.notified)).map (·, 1) :=
  notifyWait1_maySpur h hs hd

/-- what `notifyWait1` does to the object: nothing but (possibly) setting `did_spur`; the spurious
return (stage 2) happens exactly when `did_spur` goes from `false` to `true`, and needs
`spurious`. -/
theorem Notify.wait_first_half_object {w w' : World} {o st : Nat} {s : NotifySt}
    (h : w.exec.objs[o]? = some (.notify s)) (hr : w.notifyWait1 o = .ok (w', st)) :
    ∃ a d, w'.exec.objs[o]? = some (.notify { s with lastAccess := a, didSpur := d }) ∧
      ((st = 1 ∧ d = s.didSpur) ∨ (st = 2 ∧ d = true ∧ s.didSpur = false ∧ s.spurious = true)) :=
  notifyWait1_obj h hr

/-- no step of a notify object's life resets `did_spur` or changes `spurious` -/
theorem Notify.didSpur_monotone {s s' : NotifySt} (h : NotifySteps s s') :
    (s.didSpur = true → s'.didSpur = true) ∧ s'.spurious = s.spurious :=
  ⟨h.facts.1, h.facts.2.1⟩

/-- At most one spurious return per `Notify` per execution: after a `wait` returned spuriously
(stage 2), whatever happens to the object afterwards, no later `wait` on it does. -/
theorem Notify.single_spurious {w1 w1' w2 w2' : World} {o1 o2 st : Nat} {s0 s1 s2 : NotifySt}
    (h0 : w1.exec.objs[o1]? = some (.notify s0)) (hr1 : w1.notifyWait1 o1 = .ok (w1', 2))
    (h1 : w1'.exec.objs[o1]? = some (.notify s1)) (hsteps : NotifySteps s1 s2)
    (h2 : w2.exec.objs[o2]? = some (.notify s2)) (hr2 : w2.notifyWait1 o2 = .ok (w2', st)) :
    st = 1 :=
  C08.single_spurious h0 hr1 h1 hsteps h2 hr2

/-- `spawn` creates the `JoinHandle`'s notify with `spurious := false`
(`rt::Notify::new(true, false)`), as a fresh last object, and records it in `spawned`; a wait on an
object whose life started like that never returns spuriously — `join` has no spurious return. -/
theorem Join.never_spurious :
    (∀ (w w' : World) (c : TCtl) (b : Nat), w.runOp c (.spawn b) = .ok w' →
      ∃ id, w'.exec.objs = w.exec.objs ++ [.notify { seqCst := true, spurious := false }] ∧
        w'.spawned = (b, id, w.exec.objs.length) :: w.spawned) ∧
    (∀ (w w' : World) (o st : Nat) (s : NotifySt),
      NotifySteps { seqCst := true, spurious := false } s →
      w.exec.objs[o]? = some (.notify s) → w.notifyWait1 o = .ok (w', st) → st = 1) :=
  ⟨fun _ _ _ _ h => spawn_notify h, fun _ _ _ _ _ hs h hr => join_never_spurious hs h hr⟩

/-! ## 3. `Wait.only_after_notify` -/

theorem NotifyKept_spelled_out (os os' : List Obj) :
    (NotifyKept os os' ↔ ∀ (n : Nat) (s : NotifySt), os[n]? = some (.notify s) →
      ∃ a, os'[n]? = some (.notify { s with lastAccess := a })) ∧
    (FlagNotRaised os os' ↔ ∀ (n : Nat) (s : NotifySt), os[n]? = some (.notify s) →
      ∃ s', os'[n]? = some (.notify s') ∧ (s'.notified = true → s.notified = true)) :=
  ⟨Iff.rfl, Iff.rfl⟩

/-- The waiter resumes only after a notification: the second half of `Notify::wait` returns
normally ONLY IF the flag is set at that moment (then it clears it and acquires). -/
theorem Wait.only_after_notify {w w' : World} {o : Nat} {s : NotifySt}
    (h : w.exec.objs[o]? = some (.notify s)) (hr : w.notifyWait2 o = .ok w') :
    s.notified = true ∧
    w'.exec.objs[o]? = some (.notify { s with notified := false }) ∧
    (w.tid < w.ths.threads.length → w'.ths.caus = w.ths.caus.join s.sync.hb) :=
  notifyWait2_ok h hr

/-- … and nothing but `notifyEffect` sets a flag.  Every other world transformer used by the lock,
wait, channel and arc operations and by the epilogue leaves every notify object unchanged (up to
the scheduler's access record). -/
theorem Wait.helpers_keep_flags (w w' : World) (o : Nat) :
    (∀ b, w.postAcquire o = .ok (w', b) → NotifyKept w.exec.objs w'.exec.objs) ∧
    (w.releaseLock o = .ok w' → NotifyKept w.exec.objs w'.exec.objs) ∧
    (∀ b, w.postAcquireRead o = .ok (w', b) → NotifyKept w.exec.objs w'.exec.objs) ∧
    (∀ b, w.postAcquireWrite o = .ok (w', b) → NotifyKept w.exec.objs w'.exec.objs) ∧
    (w.releaseRead o = .ok w' → NotifyKept w.exec.objs w'.exec.objs) ∧
    (w.releaseWrite o = .ok w' → NotifyKept w.exec.objs w'.exec.objs) ∧
    (∀ v, w.sendEffect o v = .ok w' → NotifyKept w.exec.objs w'.exec.objs) ∧
    (∀ v, w.recvEffect o = .ok (w', v) → NotifyKept w.exec.objs w'.exec.objs) ∧
    (∀ b, w.refDecEffect o = .ok (w', b) → NotifyKept w.exec.objs w'.exec.objs) ∧
    (∀ a blk wt, w.branch o a blk wt = .ok w' → NotifyKept w.exec.objs w'.exec.objs) ∧
    (w.parkNow = .ok w' → NotifyKept w.exec.objs w'.exec.objs) ∧
    (w.blockNow = .ok w' → NotifyKept w.exec.objs w'.exec.objs) ∧
    (w.yieldNow = .ok w' → NotifyKept w.exec.objs w'.exec.objs) ∧
    (w.threadDone = .ok w' → NotifyKept w.exec.objs w'.exec.objs) :=
  ⟨fun _ h => postAcquire_keeps h, releaseLock_keeps, fun _ h => postAcquireRead_keeps h,
    fun _ h => postAcquireWrite_keeps h, releaseRead_keeps, releaseWrite_keeps,
    fun _ h => sendEffect_keeps h, fun _ h => recvEffect_keeps h, fun _ h => refDecEffect_keeps h,
    fun _ _ _ h => branch_keeps h, parkNow_keeps, blockNow_keeps, yieldNow_keeps, threadDone_keeps⟩

/-- Full case analysis of the stage machine: no stage of lock, tryLock, unlock, read, write,
tryRead, tryWrite, unread, unwrite, cvWait, cvOne, cvAll, nWait, park, unpark, join — in any
state — raises the flag of any notify object.  (The two callers of `notifyEffect` are `nnotify`
and the epilogue of a spawned thread.) -/
theorem Wait.no_other_op_notifies {w w' : World} {c : TCtl} {op : Op}
    (hop : lockOrWaitNotNotify op = true) (h : w.runOp c op = .ok w') :
    FlagNotRaised w.exec.objs w'.exec.objs :=
  runOp_flags hop h

/-! ## 4. `Park.*`: the token -/

/-- `Thread::set_unparked`, the decision table: a thread blocked in `park` (`parked`) is woken — `runnable`,
no longer `parked`, its token field untouched — and ACQUIRES what its unparkers had done (`acquire_unpark`:
`causality := causality ⊔ unparkCaus`, `unparkCaus := 0`); any other live thread — running, yielded, blocked on a
lock, a join, a receive, a notify-wait, a condvar — keeps its state AND its causality and stores the token; a
terminated thread is unchanged.  Nothing but `state`, `parked`, `token`, `causality`, `unparkCaus` ever
changes. -/
theorem Park.setUnparked_table (t : Thread) :
    (t.parked = true → t.setUnparked =
      { t with state := .runnable, parked := false,
               causality := t.causality.join t.unparkCaus, unparkCaus := VV.zero }) ∧
    (t.parked = false → t.state ≠ .terminated → t.setUnparked = { t with token := true }) ∧
    (t.parked = false → t.state = .terminated → t.setUnparked = t) ∧
    t.setUnparked = { t with state := t.setUnparked.state, parked := t.setUnparked.parked,
                             token := t.setUnparked.token, causality := t.setUnparked.causality,
                             unparkCaus := t.setUnparked.unparkCaus } :=
  ⟨setUnparked_parked, setUnparked_live, setUnparked_terminated, setUnparked_fields t⟩

/-- `unpark` wakes ONLY a parked thread (findings F5/F6, repaired).  For every thread `t` (and unparker `u`):
`set_unparked` / `Thread::unpark` change `state` only when `t.parked`; a thread blocked with `parked = false`
— on a lock, a join, a receive, a notify-wait, a condvar — STAYS blocked, stays un-parked and gets
`token = true` (through `Thread::unpark` the unparker's causality is stored in `unparkCaus`; its `causality` is
not touched: repair of finding F17).  The same at the level of the thread table, for the target `id` of
`Set::unpark` (active thread or not). -/
theorem Park.unpark_wakes_only_parked :
    (∀ t u : Thread,
      (t.setUnparked.state ≠ t.state → t.parked = true) ∧
      ((t.unpark u).state ≠ t.state → t.parked = true) ∧
      (t.parked = false → t.state = .blocked →
        t.setUnparked = { t with token := true } ∧
        t.unpark u = { t with token := true, unparkCaus := t.unparkCaus.join u.causality } ∧
        (t.unpark u).state = .blocked ∧ (t.unpark u).parked = false ∧ (t.unpark u).token = true)) ∧
    (∀ (s : Threads) (id : Nat), id < s.threads.length →
      ((s.get id).parked = false →
        ((s.unpark id).get id).state = (s.get id).state ∧ ((s.unpark id).get id).parked = false ∧
        ((s.unpark id).get id).token = ((s.get id).token || !(s.get id).isTerminated)) ∧
      ((s.get id).parked = true →
        ((s.unpark id).get id).state = .runnable ∧ ((s.unpark id).get id).parked = false ∧
        ((s.unpark id).get id).token = (s.get id).token)) := by
  refine ⟨fun t u => ⟨setUnparked_state_ne, fun h => ?_, fun hp hb => ?_⟩, fun s id hin => ?_⟩
  · rw [unpark_state] at h; exact setUnparked_state_ne h
  · have hl : t.state ≠ .terminated := by rw [hb]; simp
    have e1 := setUnparked_live hp hl
    have e2 : t.unpark u = { t with token := true, unparkCaus := t.unparkCaus.join u.causality } := by
      unfold Thread.unpark
      rw [setUnparked_live (t := { t with unparkCaus := t.unparkCaus.join u.causality }) hp hl]
    refine ⟨e1, e2, ?_, ?_, ?_⟩ <;> rw [e2]
    · exact hb
    · exact hp
  · obtain ⟨f1, f2, f3⟩ := unpark_get_fields s id hin
    rw [f1, f2, f3]
    refine ⟨fun hp => ?_, fun hp => ?_⟩
    · exact setUnparked_state_of_not_parked hp
    · rw [setUnparked_parked hp]; exact ⟨rfl, rfl, rfl⟩

/-- No blocking and no waking touches the token (finding F18, repaired).  The state setters `set_blocked`,
`Thread.wake`, `set_runnable`, `set_parked`, `set_terminated`, `set_yield` keep `token`; hence every world
transformer used by the lock, wait, channel and arc operations and by the epilogue — the acquisitions (which
block the other contenders), the four release sites and `notify` (which wake them), the scheduling points
`branch` / `yield_now` / `rt::block` / `thread_done` (which block, yield or terminate the caller and run
`schedule`), both halves of `Notify::wait` — leaves EVERY thread's token what it was; so does `Execution::schedule` itself. -/
theorem Park.token_survives_blocking :
    (∀ t : Thread, t.setBlocked.token = t.token ∧ t.wake.token = t.token ∧
      t.setRunnable.token = t.token ∧ t.setParked.token = t.token ∧
      t.setTerminated.token = t.token ∧ ∀ id, (t.setYield id).token = t.token) ∧
    (∀ (w w' : World) (o : Nat),
      (∀ b, w.postAcquire o = .ok (w', b) → ∀ i, (w'.ths.get i).token = (w.ths.get i).token) ∧
      (w.releaseLock o = .ok w' → ∀ i, (w'.ths.get i).token = (w.ths.get i).token) ∧
      (∀ b, w.postAcquireRead o = .ok (w', b) → ∀ i, (w'.ths.get i).token = (w.ths.get i).token) ∧
      (∀ b, w.postAcquireWrite o = .ok (w', b) → ∀ i, (w'.ths.get i).token = (w.ths.get i).token) ∧
      (w.releaseRead o = .ok w' → ∀ i, (w'.ths.get i).token = (w.ths.get i).token) ∧
      (w.releaseWrite o = .ok w' → ∀ i, (w'.ths.get i).token = (w.ths.get i).token) ∧
      (∀ v, w.sendEffect o v = .ok w' → ∀ i, (w'.ths.get i).token = (w.ths.get i).token) ∧
      (∀ v, w.recvEffect o = .ok (w', v) → ∀ i, (w'.ths.get i).token = (w.ths.get i).token) ∧
      (∀ b, w.refDecEffect o = .ok (w', b) → ∀ i, (w'.ths.get i).token = (w.ths.get i).token) ∧
      (w.notifyEffect o = .ok w' → ∀ i, (w'.ths.get i).token = (w.ths.get i).token) ∧
      (∀ st, w.notifyWait1 o = .ok (w', st) → ∀ i, (w'.ths.get i).token = (w.ths.get i).token) ∧
      (w.notifyWait2 o = .ok w' → ∀ i, (w'.ths.get i).token = (w.ths.get i).token) ∧
      (∀ a blk wt, w.branch o a blk wt = .ok w' → ∀ i, (w'.ths.get i).token = (w.ths.get i).token) ∧
      (w.yieldNow = .ok w' → ∀ i, (w'.ths.get i).token = (w.ths.get i).token) ∧
      (w.blockNow = .ok w' → ∀ i, (w'.ths.get i).token = (w.ths.get i).token) ∧
      (w.threadDone = .ok w' → ∀ i, (w'.ths.get i).token = (w.ths.get i).token)) ∧
    (∀ (e : Exec) (pk : Bool) (r : Exec × Bool), e.schedule pk = .ok r →
      ∀ i, (r.1.threads.get i).token = (e.threads.get i).token) := by
  refine ⟨fun t => ⟨rfl, wake_token t, rfl, rfl, rfl, fun _ => rfl⟩, fun w w' o => ?_,
    fun e pk r h i => congrFun (Tok.schedule_toks h) i⟩
  exact ⟨fun _ h => (Tok.Keep_iff _ _).1 (Tok.postAcquire_keep h),
    fun h => (Tok.Keep_iff _ _).1 (Tok.releaseLock_keep h),
    fun _ h => (Tok.Keep_iff _ _).1 (Tok.postAcquireRead_keep h),
    fun _ h => (Tok.Keep_iff _ _).1 (Tok.postAcquireWrite_keep h),
    fun h => (Tok.Keep_iff _ _).1 (Tok.releaseRead_keep h),
    fun h => (Tok.Keep_iff _ _).1 (Tok.releaseWrite_keep h),
    fun _ h => (Tok.Keep_iff _ _).1 (Tok.sendEffect_keep h),
    fun _ h => (Tok.Keep_iff _ _).1 (Tok.recvEffect_keep h),
    fun _ h => (Tok.Keep_iff _ _).1 (Tok.refDecEffect_keep h),
    fun h => (Tok.Keep_iff _ _).1 (Tok.notifyEffect_keep h),
    fun _ h => (Tok.Keep_iff _ _).1 (Tok.notifyWait1_keep h),
    fun h => (Tok.Keep_iff _ _).1 (Tok.notifyWait2_keep h),
    fun _ _ _ h => (Tok.Keep_iff _ _).1 (Tok.branch_keep h),
    fun h => (Tok.Keep_iff _ _).1 (Tok.yieldNow_keep h),
    fun h => (Tok.Keep_iff _ _).1 (Tok.blockNow_keep h),
    fun h => (Tok.Keep_iff _ _).1 (Tok.threadDone_keep h)⟩

/-- `rt::park`.  With a stored token the token is consumed: `token := false`, the stored unpark causality is
acquired (`acquire_unpark`: `causality := causality ⊔ unparkCaus`, `unparkCaus := 0` — THIS is where an unpark
that found the thread not parked orders something: repair of finding F17) and NOTHING else — `schedule` is not
called, so the path, the objects, the active thread and every thread's `state`, `parked`, `operation` are what
they were (in particular the parker's state is unchanged: it does not block), and every other thread's whole
entry.  Without a token the thread is blocked in `park` — before `schedule` runs it is `parked`, `blocked`, its
pending operation cleared — and the scheduler runs. -/
theorem Park.park_consumes_token (w : World) :
    (w.ths.activeT.token = true →
      w.parkNow = .ok (w.setThs (w.ths.modifyActive fun th =>
        ({ th with token := false }).acquireUnpark)) ∧
      ∀ w', w.parkNow = .ok w' →
        w'.exec.path = w.exec.path ∧ w'.exec.objs = w.exec.objs ∧ w'.ths.active = w.ths.active ∧
        w'.ths.activeT.token = false ∧
        w'.ths.activeT.causality = w.ths.activeT.causality.join w.ths.activeT.unparkCaus ∧
        w'.ths.activeT.unparkCaus = VV.zero ∧
        ∀ i, (w'.ths.get i).state = (w.ths.get i).state ∧ (w'.ths.get i).parked = (w.ths.get i).parked ∧
          (w'.ths.get i).operation = (w.ths.get i).operation ∧
          (i ≠ w.tid → w'.ths.get i = w.ths.get i)) ∧
    (w.ths.activeT.token = false →
      w.parkNow = (do
        let (e, _) ← ({ w.exec with threads :=
            (w.ths.modifyActive fun th => { th.setParked with operation := none }) }).schedule
              w.panicking
        pure { w with exec := e }) ∧
      (w.tid < w.ths.threads.length →
        (w.ths.modifyActive fun th => { th.setParked with operation := none }).activeT =
          { w.ths.activeT with state := .blocked, parked := true, operation := none })) := by
  refine ⟨fun ht => ⟨parkNow_token ht, fun w' hw' => ?_⟩, fun ht => ⟨parkNow_block ht, fun hin => ?_⟩⟩
  · rw [parkNow_token ht] at hw'
    cases hw'
    have hin : w.ths.activeId < w.ths.threads.length := Tok.toks_lt (s := w.ths) (i := w.tid) ht
    have hact : (w.setThs (w.ths.modifyActive fun th =>
        ({ th with token := false }).acquireUnpark)).ths.activeT =
        ({ w.ths.activeT with token := false }).acquireUnpark := by
      show (w.ths.modify w.ths.activeId _).get w.ths.activeId = _
      rw [get_modify_self _ _ _ hin]; rfl
    refine ⟨rfl, rfl, rfl, ?_, ?_, ?_, fun i => ?_⟩
    · rw [hact]; rfl
    · rw [hact]; rfl
    · rw [hact]; rfl
    · obtain ⟨a, b, c⟩ := Tok.state_modifyActive_token w.ths i
      exact ⟨a, b, c, fun hi => get_modify_ne _ _ _ _ hi⟩
  · have hin' : w.ths.activeId < w.ths.threads.length := hin
    show (w.ths.modify w.ths.activeId _).get w.ths.activeId = _
    rw [get_modify_self _ _ _ hin']
    rfl

/-- `Set::unpark id`: for `id ≠ active` the unparker's causality is joined into the target's `unparkCaus` (NOT
into its `causality`) and `set_unparked` applied — which moves `unparkCaus` into `causality` exactly when the
target was blocked in `park`; so the unparker's causality is below the target's `causality ⊔ unparkCaus`, below
its `causality` only if it was parked (see `Park.unpark_orders_nothing_until_park`); for `id = active` only
`set_unparked`.  Nobody else changes. -/
theorem Park.unpark (s : Threads) (id : Nat) :
    (id ≠ s.activeId → s.unpark id = s.modify id fun t =>
      ({ t with unparkCaus := t.unparkCaus.join s.activeT.causality }).setUnparked) ∧
    (id = s.activeId → s.unpark id = s.modifyActive Thread.setUnparked) ∧
    (id ≠ s.activeId → id < s.threads.length →
      s.caus.le (((s.unpark id).get id).causality.join ((s.unpark id).get id).unparkCaus) ∧
      ((s.unpark id).get id).state = (s.get id).setUnparked.state ∧
      ((s.unpark id).get id).parked = (s.get id).setUnparked.parked ∧
      ((s.unpark id).get id).token = (s.get id).setUnparked.token ∧
      ∀ j, j ≠ id → (s.unpark id).get j = s.get j) := by
  refine ⟨fun h => unpark_other h, fun h => by rw [h]; exact unpark_self s, fun h hin => ?_⟩
  obtain ⟨h1, h2, h3⟩ := unpark_other_get h hin
  exact ⟨h2, by rw [h1, unpark_state], by rw [h1, unpark_parked], by rw [h1, unpark_token], h3⟩

/-- The vocabulary of the frame theorem, spelled out. -/
theorem Park.frame_defs (s : Threads) (w w' : World) (c : TCtl) (op : Op) (t i : Nat) :
    Tok.toks s i = (s.get i).token ∧
    (Tok.tokenOp op = true ↔ op = .park ∨ (∃ b, op = .unpark b)) ∧
    (Tok.parksAt c op = true ↔ (op = .park ∧ c.stage = 0)) ∧
    Tok.parkStage w =
      (match (w.prog.threads.getD (w.ctlOf w.tid).body [])[(w.ctlOf w.tid).pc]? with
       | some op => Tok.parksAt (w.ctlOf w.tid) op
       | none => false) ∧
    (Tok.NoParkRun t w w' ↔ w' = w ∨ ∃ w1, Tok.NoParkRun t w w1 ∧ w1.stepActive = .ok w' ∧
      (w1.tid = t → Tok.parkStage w1 = false)) := by
  refine ⟨rfl, ?_, ?_, rfl, ?_⟩
  · cases op <;> simp [Tok.tokenOp]
  · cases op <;> simp [Tok.parksAt]
  · constructor
    · intro h
      cases h with
      | refl => exact .inl rfl
      | step hr hs hp => exact .inr ⟨_, hr, hs, hp⟩
    · rintro (rfl | ⟨w1, hr, hs, hp⟩)
      · exact .refl _
      · exact .step hr hs hp

/-- The frame theorem of the token, per operation.  (a) every stage of every operation other than `park` and
`unpark` keeps EVERY thread's token — `cvwait`, `notify_one`, `notify_all` included: since the repair of finding
F15 the condvar blocks with `rt::block` and wakes with `Set::wake`, which neither look at nor write a token;
(b) `unpark b` takes no token away and changes at most the target's (the thread table becomes `Set::unpark t`);
(c) `park` keeps the tokens of all OTHER threads; its stage that calls `rt::park` (stage 0) leaves the parker
without a token, its other stage keeps its token too. -/
theorem Park.op_frame {w w' : World} {c : TCtl} {op : Op} (h : w.runOp c op = .ok w') :
    (Tok.tokenOp op = false → ∀ i, (w'.ths.get i).token = (w.ths.get i).token) ∧
    ((∃ vi mi, op = .cvWait vi mi) ∨ (∃ vi, op = .cvOne vi) ∨ (∃ vi, op = .cvAll vi) →
      ∀ i, (w'.ths.get i).token = (w.ths.get i).token) ∧
    (∀ b, op = .unpark b →
      (∀ i, (w.ths.get i).token = true → (w'.ths.get i).token = true) ∧
      ∃ t, w.threadOf b = .ok t ∧ w'.ths = w.ths.unpark t ∧
        ∀ i, i ≠ t → (w'.ths.get i).token = (w.ths.get i).token) ∧
    (op = .park →
      (∀ i, i ≠ w.tid → (w'.ths.get i).token = (w.ths.get i).token) ∧
      (Tok.parksAt c op = false → ∀ i, (w'.ths.get i).token = (w.ths.get i).token) ∧
      (Tok.parksAt c op = true → (w'.ths.get w.tid).token = false)) := by
  refine ⟨fun hop => (Tok.Keep_iff _ _).1 (Tok.runOp_keep hop h), ?_, ?_, ?_⟩
  · rintro (⟨vi, mi, rfl⟩ | ⟨vi, rfl⟩ | ⟨vi, rfl⟩) <;>
      exact (Tok.Keep_iff _ _).1 (Tok.runOp_keep rfl h)
  · rintro b rfl
    exact Tok.runOp_unpark h
  · rintro rfl
    obtain ⟨h1, h2, h3⟩ := Tok.runOp_park h
    refine ⟨h1, fun hp => (Tok.Keep_iff _ _).1 (h2 (by simpa [Tok.parksAt] using hp)),
      fun hp => h3 (by simpa [Tok.parksAt] using hp)⟩

/-- The frame theorem of the token, per step: ONE stage of the active thread (`World.stepActive`: any stage of
any operation — atomics, cells, locks, condvars, notifies, channels, `Arc`s, thread-locals, lazy statics,
futures, `spawn`, `join`, `yield` … — or of the epilogue), in any world, takes NO token away — except that the
stage that calls `rt::park` consumes the parker's own; and a stage of an operation other than `park` and
`unpark` changes no token at all. -/
theorem Park.step_frame {w w' : World} (h : w.stepActive = .ok w') :
    (∀ i, (i = w.tid → Tok.parkStage w = false) → (w.ths.get i).token = true →
      (w'.ths.get i).token = true) ∧
    ((∀ op, (w.prog.threads.getD (w.ctlOf w.tid).body [])[(w.ctlOf w.tid).pc]? = some op →
        Tok.tokenOp op = false) →
      ∀ i, (w'.ths.get i).token = (w.ths.get i).token) :=
  ⟨fun i hp hi => Tok.stepActive_mono h i hp hi,
    fun hop => (Tok.Keep_iff _ _).1 (Tok.stepActive_keep h hop)⟩

/-- **An `unpark` that comes before the `park` is never lost** (findings F5/F6/F18, repaired).  Thread `t` is
live and not blocked in `park` in `w0` (running, yielded, or blocked on a lock / join / receive / notify-wait);
`w1` is any world whose thread table is `Set::unpark t` of that of `w0`; from `w1` the twin runs ANY stages of
ANY threads (`Tok.NoParkRun`: lock, unlock, join, … stages of the other threads and of `t` itself, blocking
and waking `t` any number of times) among which `t` runs no stage that calls `rt::park`; then `t`, active in
`w`, calls `rt::park`: it still has the token, and `park` returns at once — the token is cleared, the stored
unpark causality is acquired (`acquire_unpark`) and nothing else happens: no scheduling point, the path, the
objects, the active thread and every thread's state are what they were; `t` does not block. -/
theorem Park.unpark_then_park_never_blocks {w0 w1 w : World} {t : Nat}
    (hin : t < w0.ths.threads.length) (hp : (w0.ths.get t).parked = false)
    (hl : (w0.ths.get t).state ≠ .terminated)
    (hu : w1.ths = w0.ths.unpark t) (hrun : Tok.NoParkRun t w1 w) (ht : w.tid = t) :
    (w1.ths.get t).token = true ∧ (w.ths.get t).token = true ∧
    w.parkNow = .ok (w.setThs (w.ths.modifyActive fun th =>
      ({ th with token := false }).acquireUnpark)) ∧
    ∀ w', w.parkNow = .ok w' →
      w'.exec.path = w.exec.path ∧ w'.exec.objs = w.exec.objs ∧ w'.ths.active = w.ths.active ∧
      (w'.ths.get t).token = false ∧
      (w'.ths.get t).causality = (w.ths.get t).causality.join (w.ths.get t).unparkCaus ∧
      ∀ i, (w'.ths.get i).state = (w.ths.get i).state ∧ (w'.ths.get i).parked = (w.ths.get i).parked := by
  obtain ⟨h2, h3⟩ := Tok.unpark_then_park hin hp hl hu hrun ht
  have h1 : (w1.ths.get t).token = true := by
    show Tok.toks w1.exec.threads t = true
    rw [show w1.exec.threads = w0.exec.threads.unpark t from hu]
    exact Tok.toks_unpark_target hin hp hl
  have hact : w.ths.activeT.token = true := by
    have : (w.ths.get w.tid).token = true := by rw [ht]; exact h2
    exact this
  obtain ⟨_, hcons⟩ := (Park.park_consumes_token w).1 hact
  refine ⟨h1, h2, h3, fun w' hw' => ?_⟩
  obtain ⟨a, b, c, d, d2, _, e⟩ := hcons w' hw'
  have this : w'.ths.activeT = w'.ths.get t := by
    show w'.ths.get w'.ths.activeId = _
    have : w'.ths.activeId = w.ths.activeId := by unfold Threads.activeId; rw [c]
    rw [this]; exact congrArg _ ht
  have this2 : w.ths.activeT = w.ths.get t := congrArg _ ht
  refine ⟨a, b, c, ?_, ?_, fun i => ⟨(e i).1, (e i).2.1⟩⟩
  · rw [← this]; exact d
  · rw [← this, ← this2]; exact d2

/-- … in particular when the unpark is the operation `unpark b` (run by any thread, `t` itself included). -/
theorem Park.unpark_op_then_park_never_blocks {w0 w1 w : World} {c : TCtl} {b t : Nat}
    (hb : w0.threadOf b = .ok t) (hin : t < w0.ths.threads.length)
    (hp : (w0.ths.get t).parked = false) (hl : (w0.ths.get t).state ≠ .terminated)
    (hu : w0.runOp c (.unpark b) = .ok w1) (hrun : Tok.NoParkRun t w1 w) (ht : w.tid = t) :
    (w1.ths.get t).token = true ∧ (w1.ths.get t).state = (w0.ths.get t).state ∧
    w.parkNow = .ok (w.setThs (w.ths.modifyActive fun th =>
      ({ th with token := false }).acquireUnpark)) := by
  obtain ⟨_, t', ht', hth, _⟩ := Tok.runOp_unpark hu
  rw [hb] at ht'; cases ht'
  obtain ⟨a, _, c', _⟩ := Park.unpark_then_park_never_blocks hin hp hl hth hrun ht
  refine ⟨a, ?_, c'⟩
  show (w1.exec.threads.get t).state = _
  rw [hth]
  exact ((Park.unpark_wakes_only_parked.2 w0.ths t hin).1 hp).1

/-- Findings F5/F6, repaired, concretely (kernel-checked).  `Ex.wF5`: thread 1 is blocked in `lock` on a mutex
held by thread 0; thread 0's `unpark 1` leaves it BLOCKED (not parked), with the token, the mutex still held;
thread 0's `release_lock` then wakes it, token kept (`Ex.wF5r`); scheduled, its `lock` acquires the mutex and
its next `park` consumes the token and returns without blocking (`Ex.wF5run`).  `Ex.wF6`: thread 0 is blocked in
`join 1`; thread 2's `unpark 0` leaves it blocked with the token; when thread 1 notifies the `JoinHandle`,
thread 0 is woken and its `join` returns normally, token kept (`Ex.wF6run`).  The states the old defect led to
(`Ex.wF5'`, `Ex.wF6old`: runnable in the second stage of `lock` / `join` with the mutex held / the flag not set)
still panic in the model; `unpark` no longer produces them. -/
theorem Park.unpark_keeps_lock_waiter_blocked :
    ((Ex.wF5.ths.get 1).state = .blocked ∧ (Ex.wF5.ths.get 1).parked = false ∧
      (Ex.wF5.ths.get 1).operation = some ⟨Ex.wF5.mutexObj 0, .opaque, true⟩) ∧
    (Ex.wF5.runOp {} (.unpark 1)).toOption.map
      (fun w' => ((w'.ths.get 1).state, (w'.ths.get 1).token, (w'.ths.get 1).parked,
        (w'.getMutex 0).toOption.map (·.lock))) =
      some (.blocked, true, false, some (some 0)) ∧
    Ex.wF5r.toOption.map (fun w' => ((w'.ths.get 1).state, (w'.ths.get 1).token)) =
      some (.runnable, true) ∧
    Ex.wF5run.toOption.map (fun w' => ((w'.ths.get 1).state, (w'.ths.get 1).token, w'.ths.active,
        (w'.getMutex 0).toOption.map (·.lock))) =
      some (.runnable, false, some 1, some (some 1)) ∧
    ((Ex.wF6.ths.get 0).state = .blocked ∧ (Ex.wF6.ths.get 0).parked = false ∧
      (Ex.wF6.ths.get 0).operation = some ⟨4, .opaque, true⟩) ∧
    (Ex.wF6.runOp { body := 2 } (.unpark 0)).toOption.map
      (fun w' => ((w'.ths.get 0).state, (w'.ths.get 0).token, (w'.ths.get 0).parked)) =
      some (.blocked, true, false) ∧
    Ex.wF6run.toOption.map (fun w' => ((w'.ths.get 0).state, (w'.ths.get 0).token,
      w'.events.head?.map (·.ret))) = some (.runnable, true, some .unit) ∧
    (match Ex.wF5'.runOp { body := 1, stage := 1 } (.lock 0) with
      | .error .expectedLock => true | _ => false) = true ∧
    (match Ex.wF6old.runOp { stage := 1 } (.join 1) with
      | .error .notNotified => true | _ => false) = true :=
  ⟨by decide, Ex.F5_unpark, Ex.F5_no_panic.1, Ex.F5_no_panic.2, by decide, Ex.F6_unpark,
    Ex.F6_no_panic, Ex.F5_old_state_panics, Ex.F6_old_state_panics⟩

/-- **An `unpark` orders nothing until a `park` consumes it** (finding F17, repaired; the refuted form was
`Park.unpark_raises_causality_at_once`).  One-step laws, valid for ALL threads / thread tables / worlds.
(1) `Thread::unpark` of a thread that is NOT blocked in `park`: its `causality` is UNCHANGED; the unparker's
causality is joined into `unparkCaus` (nothing stored before is lost).  (2) `Thread::unpark` of a thread blocked
in `park`: it is woken and acquires: its causality becomes `causality ⊔ unparkCaus ⊔ unparker's`, `unparkCaus` is
reset.  (3) the same for the target `id ≠ active` of `Set::unpark` (the unparker is the active thread).  (4) the
consuming `park` (token path): the parker's causality becomes `causality ⊔ unparkCaus` — hence it dominates
every `u` that was below `unparkCaus`, in particular the causality every unparker had at the time of its
`unpark` (whatever happened in between: `Park.unpark_happens_before_park`) — and `unparkCaus` is reset.  (5) immediate
composition: `Set::unpark t` by the active thread followed by `t`'s consuming `park` in the resulting table:
`t`'s causality dominates the unparker's causality at the time of the `unpark`, and before that `park` it was
what it had been.  Concretely (`Ex.wF17`, kernel-checked): thread 1 (causality `[1,1,0,0,0]`) is runnable; after
thread 0 (causality `[5,0,0,0,0]`) unparks it its causality is still `[1,1,0,0,0]`, `unparkCaus = [5,0,0,0,0]`,
it is runnable and holds the token; when it then calls `park` the call returns at once with causality
`[5,1,0,0,0]`, `unparkCaus = 0`, token cleared. -/
theorem Park.unpark_orders_nothing_until_park :
    (∀ t u : Thread, t.parked = false →
      (t.unpark u).causality = t.causality ∧
      (t.unpark u).unparkCaus = t.unparkCaus.join u.causality ∧
      t.unparkCaus.le (t.unpark u).unparkCaus ∧ u.causality.le (t.unpark u).unparkCaus) ∧
    (∀ t u : Thread, t.parked = true →
      (t.unpark u).causality = t.causality.join (t.unparkCaus.join u.causality) ∧
      (t.unpark u).unparkCaus = VV.zero ∧ (t.unpark u).state = .runnable ∧
      u.causality.le (t.unpark u).causality) ∧
    (∀ (s : Threads) (id : Nat), id ≠ s.activeId → id < s.threads.length →
      ((s.get id).parked = false →
        ((s.unpark id).get id).causality = (s.get id).causality ∧
        ((s.unpark id).get id).unparkCaus = (s.get id).unparkCaus.join s.caus) ∧
      ((s.get id).parked = true →
        s.caus.le ((s.unpark id).get id).causality ∧ ((s.unpark id).get id).state = .runnable ∧
        ((s.unpark id).get id).unparkCaus = VV.zero)) ∧
    (∀ (w w' : World), w.ths.activeT.token = true → w.parkNow = .ok w' →
      w'.ths.activeT.causality = w.ths.activeT.causality.join w.ths.activeT.unparkCaus ∧
      w'.ths.activeT.unparkCaus = VV.zero ∧
      ∀ u : VV, u.le w.ths.activeT.unparkCaus → u.le w'.ths.activeT.causality) ∧
    (∀ (w0 w w' : World) (t : Nat), t ≠ w0.tid → t < w0.ths.threads.length →
      (w0.ths.get t).parked = false → (w0.ths.get t).state ≠ .terminated →
      w.ths = { w0.ths.unpark t with active := some t } → w.parkNow = .ok w' →
      (w.ths.get t).causality = (w0.ths.get t).causality ∧
      w0.ths.caus.le (w'.ths.get t).causality ∧ (w'.ths.get t).token = false ∧
      (w'.ths.get t).state = (w0.ths.get t).state) ∧
    ((Ex.wF17.ths.get 1).causality = Ex.vv [1, 1, 0, 0, 0] ∧
      ((Ex.wF17.ths.unpark 1).get 1).causality = Ex.vv [1, 1, 0, 0, 0] ∧
      ((Ex.wF17.ths.unpark 1).get 1).unparkCaus = Ex.vv [5, 0, 0, 0, 0] ∧
      ((Ex.wF17.ths.unpark 1).get 1).state = .runnable ∧
      ((Ex.wF17.ths.unpark 1).get 1).token = true ∧
      Ex.wF17park.toOption.map (fun w' => ((w'.ths.get 1).causality, (w'.ths.get 1).unparkCaus,
        (w'.ths.get 1).token, (w'.ths.get 1).state, w'.ths.active)) =
      some (Ex.vv [5, 1, 0, 0, 0], VV.zero, false, .runnable, some 1)) := by
  refine ⟨fun t u hp => ?_, fun t u hp => ?_, fun s id hne hin => ⟨fun hp => ?_, fun hp => ?_⟩,
    fun w w' ht hw' => ?_, fun w0 w w' t hne hin hp hl hw hw' => ?_,
    ⟨by decide +kernel, Ex.F17_unpark.1, Ex.F17_unpark.2.1, Ex.F17_unpark.2.2.1, Ex.F17_unpark.2.2.2,
      Ex.F17_park_acquires⟩⟩
  · obtain ⟨h1, h2⟩ := unpark_causality_not_parked u hp
    exact ⟨h1, h2, by rw [h2]; exact VV.le_join_left _ _, by rw [h2]; exact VV.le_join_right _ _⟩
  · obtain ⟨h1, h2⟩ := unpark_causality_parked u hp
    refine ⟨h1, h2, ?_, ?_⟩
    · rw [unpark_state, setUnparked_parked hp]
    · rw [h1]; exact VV.le_trans (VV.le_join_right _ _) (VV.le_join_right _ _)
  · rw [(unpark_other_get hne hin).1]
    exact unpark_causality_not_parked _ hp
  · rw [(unpark_other_get hne hin).1]
    obtain ⟨h1, h2⟩ := unpark_causality_parked s.activeT hp
    refine ⟨?_, ?_, h2⟩
    · rw [h1]; exact VV.le_trans (VV.le_join_right _ _) (VV.le_join_right _ _)
    · rw [unpark_state, setUnparked_parked hp]
  · obtain ⟨_, hc⟩ := (Park.park_consumes_token w).1 ht
    obtain ⟨_, _, _, _, h5, h6, _⟩ := hc w' hw'
    exact ⟨h5, h6, fun u hu => by rw [h5]; exact VV.le_trans hu (VV.le_join_right _ _)⟩
  · have hne' : t ≠ w0.ths.activeId := hne
    obtain ⟨e1, _, _⟩ := unpark_other_get hne' hin
    obtain ⟨c1, c2⟩ := unpark_causality_not_parked w0.ths.activeT hp
    have hget : w.ths.get t = (w0.ths.get t).unpark w0.ths.activeT := by rw [hw]; exact e1
    have hact : w.ths.activeT = w.ths.get t := by
      show w.ths.get w.ths.activeId = _
      rw [hw]; rfl
    have htok : w.ths.activeT.token = true := by
      rw [hact, hget, unpark_token, setUnparked_live hp hl]
    obtain ⟨_, hc⟩ := (Park.park_consumes_token w).1 htok
    obtain ⟨_, _, h3, h4, h5, _, h7⟩ := hc w' hw'
    have hact' : w'.ths.activeT = w'.ths.get t := by
      show w'.ths.get w'.ths.activeId = _
      have : w'.ths.activeId = t := by unfold Threads.activeId; rw [h3, hw]; rfl
      rw [this]
    refine ⟨by rw [hget]; exact c1, ?_, by rw [← hact']; exact h4, ?_⟩
    · rw [← hact', h5, hact, hget, c1, c2]
      exact VV.le_trans (VV.le_join_right _ _) (VV.le_join_right _ _)
    · rw [(h7 t).1, hget, unpark_state, setUnparked_live hp hl]

theorem Hb_spelled_out (u : VV) (t : Thread) (w w' : World) :
    (Hb.covT u t ↔ u.le (t.causality.join t.unparkCaus)) ∧
    (Hb.Steps w w' ↔ w' = w ∨ ∃ w1, Hb.Steps w w1 ∧ w1.stepActive = .ok w') := by
  refine ⟨Iff.rfl, ?_⟩
  constructor
  · intro h
    cases h with
    | refl => exact .inl rfl
    | step hr hs => exact .inr ⟨_, hr, hs⟩
  · rintro (rfl | ⟨w1, hr, hs⟩)
    · exact .refl _
    · exact .step hr hs

/-- **The unparker's past happens-before the continuation of the `park` that consumes the unpark — however far
apart they are** (finding F17, repaired: the run-level law).  What a thread knows or WILL know at its next `park` —
`causality ⊔ unparkCaus` — never shrinks: ONE stage of the active thread (`World.stepActive`: any stage of any
operation — atomics, cells, locks, condvars, notifies, channels, `Arc`s, thread-locals, lazy statics, futures,
`spawn`, `join`, `park`, `unpark`, `yield` … — or of the epilogue), in ANY world, keeps every `u` that was below
it below it, for EVERY thread.  Hence: thread `t` is in the thread table of `w0`; `w1` is any world whose thread
table is `Set::unpark t` of that of `w0` (the unparker is `w0`'s active thread, `t` itself or another one; `t` may
be parked, running, blocked on something else …); from `w1` the twin runs ANY stages of ANY threads (`Hb.Steps`:
`t` may park and be woken, block, be unparked again …) up to `w`.  Then (a) the causality the unparker had at the
time of the `unpark` is below `t`'s `causality ⊔ unparkCaus` in `w`; (b) if `t` is active in `w`, holds a token and
calls `rt::park`, the call returns at once and `t`'s causality is above the unparker's causality at the time of
the `unpark`; (c) if `t` is blocked in `park` in `w` and is unparked (`Set::unpark t`, by any thread), it wakes up
with its causality above it. -/
theorem Park.unpark_happens_before_park :
    (∀ (w w' : World) (u : VV), w.stepActive = .ok w' →
      ∀ i, Hb.covT u (w.ths.get i) → Hb.covT u (w'.ths.get i)) ∧
    (∀ (w0 w1 w : World) (t : Nat), t < w0.ths.threads.length → w1.ths = w0.ths.unpark t → Hb.Steps w1 w →
      w0.ths.caus.le ((w.ths.get t).causality.join (w.ths.get t).unparkCaus) ∧
      (∀ w', w.tid = t → (w.ths.get t).token = true → w.parkNow = .ok w' →
        w0.ths.caus.le (w'.ths.get t).causality ∧ (w'.ths.get t).state = (w.ths.get t).state ∧
        w'.ths.active = w.ths.active) ∧
      ((w.ths.get t).parked = true →
        w0.ths.caus.le ((w.ths.unpark t).get t).causality ∧ ((w.ths.unpark t).get t).state = .runnable)) := by
  refine ⟨fun w w' u h i hi => Hb.stepActive_le h (Hb.Le.refl u _) i hi, fun w0 w1 w t hin hu hrun => ?_⟩
  have h1 : Hb.covT w0.ths.caus (w1.exec.threads.get t) := by
    rw [show w1.exec.threads = w0.ths.unpark t from hu]
    exact Hb.covT_after_unpark hin
  have h2 : Hb.covT w0.ths.caus (w.ths.get t) := hrun.covT h1
  refine ⟨h2, fun w' ht htok hp => ?_, fun hpk => ?_⟩
  · have hact : w.ths.activeT = w.ths.get t := congrArg _ ht
    obtain ⟨_, hc⟩ := (Park.park_consumes_token w).1 (by rw [hact]; exact htok)
    obtain ⟨_, _, h3, _, h5, _, h7⟩ := hc w' hp
    have hact' : w'.ths.activeT = w'.ths.get t := by
      show w'.ths.get w'.ths.activeId = _
      have : w'.ths.activeId = w.ths.activeId := by unfold Threads.activeId; rw [h3]
      rw [this]; exact congrArg _ ht
    refine ⟨?_, (h7 t).1, h3⟩
    rw [← hact', h5, hact]
    exact h2
  · refine ⟨Hb.covT_unpark_parked h2 hpk, ?_⟩
    have hin' := Hb.get_parked_lt hpk
    exact ((Park.unpark_wakes_only_parked.2 w.ths t hin').2 hpk).1

/-- The four release sites — `Mutex::release_lock`, `RwLock::release_read_lock`,
`RwLock::release_write_lock` and the send into an empty channel — in ANY world, on ANY object: EVERY thread's
unpark token is what it was (the wake-up is `Thread.wake`: `if t.isBlocked then t.setRunnable else t`, and
`set_runnable` does not touch the token) — whether the thread is left alone or woken: its next `park` returns
at once if it held a token.  A thread that is not blocked keeps its whole entry, whatever its pending
operation names.  Conversely a BLOCKED thread other than the active one whose pending operation is on the
released object is made `runnable`, not `parked` (and nothing else of it changes). -/
theorem Release.keeps_token (w w' : World) (o i : Nat) :
    ((w.releaseLock o = .ok w' → (w'.ths.get i).token = (w.ths.get i).token) ∧
      (w.releaseRead o = .ok w' → (w'.ths.get i).token = (w.ths.get i).token) ∧
      (w.releaseWrite o = .ok w' → (w'.ths.get i).token = (w.ths.get i).token) ∧
      (∀ v, w.sendEffect o v = .ok w' → (w'.ths.get i).token = (w.ths.get i).token)) ∧
    ((w.ths.get i).state ≠ .blocked →
      (w.releaseLock o = .ok w' → w'.ths.get i = w.ths.get i) ∧
      (w.releaseRead o = .ok w' → w'.ths.get i = w.ths.get i) ∧
      (w.releaseWrite o = .ok w' → w'.ths.get i = w.ths.get i) ∧
      (∀ v, w.sendEffect o v = .ok w' → w'.ths.get i = w.ths.get i)) ∧
    (∀ p, ((w.forOthers p Thread.wake).ths.get i).token = (w.ths.get i).token) ∧
    (∀ p, (w.ths.get i).state ≠ .blocked →
      (w.forOthers p Thread.wake).ths.get i = w.ths.get i) ∧
    (∀ p op, i ≠ w.tid → (w.ths.get i).operation = some op → p op = true →
      (w.ths.get i).state = .blocked →
      (w.forOthers p Thread.wake).ths.get i =
        { w.ths.get i with state := .runnable, parked := false }) :=
  ⟨⟨fun h => (Tok.Keep_iff _ _).1 (Tok.releaseLock_keep h) i,
      fun h => (Tok.Keep_iff _ _).1 (Tok.releaseRead_keep h) i,
      fun h => (Tok.Keep_iff _ _).1 (Tok.releaseWrite_keep h) i,
      fun _ h => (Tok.Keep_iff _ _).1 (Tok.sendEffect_keep h) i⟩,
    fun hb => ⟨releaseLock_keeps_unblocked hb, releaseRead_keeps_unblocked hb,
      releaseWrite_keeps_unblocked hb, fun _ => sendEffect_keeps_unblocked hb⟩,
    fun p => forOthers_token w p _ wake_token i,
    fun p hb => forOthers_wake_get w p i hb,
    fun p op hi hop hp hb => forOthers_wake_blocked w p i op hi hop hp hb⟩

/-- Finding F18, repaired, concretely (the refuted form was `Park.release_loses_token`).  `Ex.wF18`: thread 1
is runnable with a token pending and its stale pending operation names the mutex; after thread 0's
`release_lock` it is unchanged: runnable, token kept.  `Ex.wF18b`: thread 1 is BLOCKED on the mutex and holds a
token (it was unparked while blocked): the release wakes it and the token is kept.  `Ex.wF18c`: thread 1, active
with a token stored, runs the first stage of `lock` on the mutex held by thread 0: it blocks (not parked) and
keeps the token. -/
theorem Park.release_keeps_token :
    ((Ex.wF18.ths.get 1).state = .runnable ∧ (Ex.wF18.ths.get 1).token = true ∧
      (Ex.wF18.ths.get 1).operation = some ⟨Ex.wF18.mutexObj 0, .opaque, true⟩) ∧
    (Ex.wF18.releaseLock 0).toOption.map (fun w' => ((w'.ths.get 1).state, (w'.ths.get 1).token)) =
      some (.runnable, true) ∧
    ((Ex.wF18b.ths.get 1).state = .blocked ∧ (Ex.wF18b.ths.get 1).token = true ∧
      (Ex.wF18b.ths.get 1).operation = some ⟨Ex.wF18b.mutexObj 0, .opaque, true⟩) ∧
    (Ex.wF18b.releaseLock 0).toOption.map (fun w' => ((w'.ths.get 1).state, (w'.ths.get 1).token)) =
      some (.runnable, true) ∧
    (Ex.wF18c.runOp { body := 1 } (.lock 0)).toOption.map
      (fun w' => ((w'.ths.get 1).state, (w'.ths.get 1).token, (w'.ths.get 1).parked, w'.ths.active)) =
      some (.blocked, true, false, some 0) :=
  ⟨by decide, Ex.F18_token_kept, by decide, Ex.F18_blocked_woken, Ex.F18_token_survives_blocking⟩

/-! ## 5. `Condvar` -/

/-- `notify_one`, second stage: the FIRST element of `waiters` is removed and woken (`Set::wake` — not
`Set::unpark`: no token is handed out, repair of finding F15), the rest keeps its order; with no waiter nothing
changes. -/
theorem Condvar.notify_one_fifo (w : World) (c : TCtl) (vi : Nat) (s : CondvarSt)
    (h : w.exec.objs[w.cvObj vi]? = some (.condvar s)) (hs : c.stage ≠ 0) :
    (s.waiters = [] → w.runOp c (.cvOne vi) = .ok (w.complete .unit)) ∧
    (∀ t rest, s.waiters = t :: rest →
      w.runOp c (.cvOne vi) = .ok
        (((w.setObj (w.cvObj vi) (.condvar { s with waiters := rest })).setThs
          (w.ths.wake t)).complete .unit)) :=
  ⟨cvOne_empty h hs, fun _ _ hw => cvOne_first h hs hw⟩

/-- `notify_all`, second stage: `waiters` becomes `[]` and every former waiter is woken (`Set::wake`), one
after the other in queue order.  If the queue has no duplicates, each former waiter other than the notifier has
been woken exactly once by the notifier (`Thread.wakeFrom`) and nobody else changed (the notifier itself, should
it be in the queue, is left alone). -/
theorem Condvar.notify_all (w : World) (c : TCtl) (vi : Nat) (s : CondvarSt)
    (h : w.exec.objs[w.cvObj vi]? = some (.condvar s)) (hs : c.stage ≠ 0) :
    w.runOp c (.cvAll vi) = .ok
      (((w.setObj (w.cvObj vi) (.condvar { s with waiters := [] })).setThs
        (s.waiters.foldl (fun ths t => ths.wake t) w.ths)).complete .unit) ∧
    (s.waiters.Nodup →
      (∀ t, t ∈ s.waiters → t ≠ w.ths.activeId → t < w.ths.threads.length →
        (s.waiters.foldl (fun ths t => ths.wake t) w.ths).get t =
          (w.ths.get t).wakeFrom w.ths.activeT) ∧
      (∀ j, j ∉ s.waiters ∨ j = w.ths.activeId →
        (s.waiters.foldl (fun ths t => ths.wake t) w.ths).get j = w.ths.get j)) :=
  ⟨cvAll_eq h hs, fun hnd => foldl_wake _ _ hnd⟩

/-- `Set::wake id` and `Thread.wakeFrom`, the decision table (what `notify_one` / `notify_all` do to a waiter).
For `id = active` nothing happens.  For `id ≠ active` (in the table) the waker's causality is joined into the
target's `causality` AT ONCE (the notifier's prior writes happen-before the waiter's continuation); a thread that
blocked itself with `rt::block` — `blocked`, NOT `parked`: a condvar waiter — becomes `runnable`; any other
thread (running, yielded, terminated, or blocked in `park`) keeps its state; the token and `unparkCaus` are never
touched; nobody else changes. -/
theorem Condvar.wake_table :
    (∀ t u : Thread, t.state = .blocked → t.parked = false →
      t.wakeFrom u = { t with state := .runnable, parked := false,
                              causality := t.causality.join u.causality }) ∧
    (∀ t u : Thread, t.state ≠ .blocked ∨ t.parked = true →
      t.wakeFrom u = { t with causality := t.causality.join u.causality }) ∧
    (∀ t u : Thread, (t.wakeFrom u).token = t.token ∧ (t.wakeFrom u).unparkCaus = t.unparkCaus ∧
      (t.wakeFrom u).causality = t.causality.join u.causality) ∧
    (∀ s : Threads, s.wake s.activeId = s) ∧
    (∀ (s : Threads) (id : Nat), id ≠ s.activeId → id < s.threads.length →
      (s.wake id).get id = (s.get id).wakeFrom s.activeT ∧
      s.caus.le ((s.wake id).get id).causality ∧
      (∀ j, j ≠ id → (s.wake id).get j = s.get j)) :=
  ⟨fun _ _ hb hp => wakeFrom_blocked hb hp, fun _ _ h => wakeFrom_other h,
    fun t u => ⟨C08.wakeFrom_token t u, wakeFrom_unparkCaus t u, wakeFrom_causality t u⟩,
    wake_self, fun _ _ h hin => wake_other_get h hin⟩

/-- **`unpark` does not wake a condvar waiter, and a stored unpark is not a notification** (finding F15,
repaired).  (1) `rt::block`: whatever the caller's token, it blocks itself — before `schedule` runs it is
`blocked`, its pending operation cleared, its `parked` flag (`false` for a thread that runs: `set_runnable` clears
it) and its token untouched — and the scheduler runs: the result
does not depend on `token` (two worlds that differ only in the caller's token take the same step, up to that
token).  (2) `Set::unpark` / `Thread::unpark` of such a waiter (blocked, not parked) leaves it `blocked`, not
parked, its causality unchanged, and stores a token.  (3) `Set::wake` makes it `runnable` and joins the
notifier's causality.  Concretely (kernel-checked): `Ex.wF15` — thread 1 waits on the condvar; thread 0's
`unpark 1` leaves it blocked and in the queue (token stored, causality unchanged); thread 0's `notify_one` wakes
it (runnable, causality `[4,1,0,0,0]`, queue empty, no token).  `Ex.wF15t` — thread 1 holds a token and runs
stage 1 of `wait`: it enqueues itself, releases the mutex and blocks (not parked), token kept; thread 0 runs. -/
theorem Condvar.unpark_is_no_notification :
    (∀ w : World, w.blockNow = (do
        let (e, _) ← ({ w.exec with threads :=
            (w.ths.modifyActive fun th => { th.setBlocked with operation := none }) }).schedule
              w.panicking
        pure { w with exec := e }) ∧
      (w.tid < w.ths.threads.length →
        (w.ths.modifyActive fun th => { th.setBlocked with operation := none }).activeT =
          { w.ths.activeT with state := .blocked, operation := none })) ∧
    (∀ (w w' : World) (b : Bool), w.blockNow = .ok w' →
      (w.setThs (w.ths.modifyActive fun th => { th with token := b })).blockNow =
        .ok (w'.setThs (w'.ths.modify w.tid fun th => { th with token := b }))) ∧
    (∀ t u : Thread, t.state = .blocked → t.parked = false →
      t.unpark u = { t with token := true, unparkCaus := t.unparkCaus.join u.causality } ∧
      (t.unpark u).state = .blocked ∧ (t.unpark u).causality = t.causality) ∧
    (∀ (s : Threads) (id : Nat), id < s.threads.length → (s.get id).state = .blocked →
      (s.get id).parked = false →
      ((s.unpark id).get id).state = .blocked ∧ ((s.unpark id).get id).parked = false ∧
      ((s.unpark id).get id).token = true ∧
      (id ≠ s.activeId → ((s.wake id).get id).state = .runnable ∧
        s.caus.le ((s.wake id).get id).causality ∧
        ((s.wake id).get id).token = (s.get id).token)) ∧
    ((Ex.wF15.ths.get 1).state = .blocked ∧ (Ex.wF15.ths.get 1).parked = false ∧
      (Ex.wF15.runOp {} (.unpark 1)).toOption.map
        (fun w' => ((w'.ths.get 1).state, (w'.ths.get 1).token, (w'.ths.get 1).parked)) =
        some (.blocked, true, false) ∧
      (Ex.wF15.runOp {} (.unpark 1)).toOption.map
        (fun w' => ((w'.ths.get 1).causality, (w'.getCv 2).toOption.map (·.waiters))) =
        some (Ex.vv [1, 1, 0, 0, 0], some [1]) ∧
      (Ex.wF15.runOp { stage := 1 } (.cvOne 0)).toOption.map
        (fun w' => ((w'.ths.get 1).state, (w'.ths.get 1).token, (w'.ths.get 1).causality,
          (w'.getCv 2).toOption.map (·.waiters))) =
        some (.runnable, false, Ex.vv [4, 1, 0, 0, 0], some []) ∧
      (Ex.wF15t.runOp { body := 1, stage := 1 } (.cvWait 0 0)).toOption.map
        (fun w' => ((w'.ths.get 1).state, (w'.ths.get 1).parked, (w'.ths.get 1).token, w'.ths.active)) =
        some (.blocked, false, true, some 0) ∧
      (Ex.wF15t.runOp { body := 1, stage := 1 } (.cvWait 0 0)).toOption.map
        (fun w' => ((w'.getCv 2).toOption.map (·.waiters), (w'.getMutex 0).toOption.map (·.lock))) =
        some (some [1], some none)) := by
  refine ⟨fun w => ⟨blockNow_eq w, fun hin => ?_⟩, fun w w' b h => blockNow_token_independent h b,
    fun t u hb hp => ?_, fun s id hin hb hp => ?_,
    ⟨by decide, by decide, Ex.F15_unpark_does_not_wake.1, Ex.F15_unpark_does_not_wake.2,
      Ex.F15_notify_wakes, Ex.F15_token_is_no_notification.1, Ex.F15_token_is_no_notification.2⟩⟩
  · have hin' : w.ths.activeId < w.ths.threads.length := hin
    show (w.ths.modify w.ths.activeId _).get w.ths.activeId = _
    rw [get_modify_self _ _ _ hin']
    rfl
  · have hl : t.state ≠ .terminated := by rw [hb]; simp
    have e2 : t.unpark u = { t with token := true, unparkCaus := t.unparkCaus.join u.causality } := by
      unfold Thread.unpark
      rw [setUnparked_live (t := { t with unparkCaus := t.unparkCaus.join u.causality }) hp hl]
    exact ⟨e2, by rw [e2]; exact hb, (unpark_causality_not_parked u hp).1⟩
  · obtain ⟨f1, f2, f3⟩ := unpark_get_fields s id hin
    obtain ⟨g1, g2, g3⟩ := setUnparked_state_of_not_parked hp
    have hterm : (s.get id).isTerminated = false := by
      unfold Thread.isTerminated; rw [hb]; rfl
    refine ⟨by rw [f1, g1]; exact hb, by rw [f2, g2], by rw [f3, g3, hterm]; simp, fun hne => ?_⟩
    obtain ⟨e1, e2, _⟩ := wake_other_get hne hin
    refine ⟨?_, e2, ?_⟩
    · rw [e1, wakeFrom_blocked hb hp]
    · rw [e1, C08.wakeFrom_token]

/-- `wait`, stage 1 (after its branch point): the caller is appended at the END of `waiters`, the
mutex is released (`release_lock`), then the caller blocks itself with `rt::block` (NOT `rt::park`: repair of
finding F15 — see `Condvar.unpark_is_no_notification`).  Stage 2: the branch point of `acquire_lock`, blocked
exactly when the mutex is held. -/
theorem Condvar.wait_enqueues_releases_blocks (w : World) (c : TCtl) (vi mi : Nat) :
    (∀ s, w.exec.objs[w.cvObj vi]? = some (.condvar s) → c.stage = 1 →
      w.runOp c (.cvWait vi mi) = (do
        let w2 ← (w.setObj (w.cvObj vi)
          (.condvar { s with waiters := s.waiters ++ [w.tid] })).releaseLock (w.mutexObj mi)
        (w2.setStage 2).blockNow)) ∧
    (∀ m, w.exec.objs[w.mutexObj mi]? = some (.mutex m) → c.stage = 2 →
      w.runOp c (.cvWait vi mi) =
        (w.setStage 3).branch (w.mutexObj mi) .opaque (block := m.lock.isSome) (wait := true)) :=
  ⟨fun _ h hs => cvWait_stage1 h hs, fun _ h hs => cvWait_stage2 h hs⟩

/-- Condvar waiters re-acquire the mutex before returning: the last stage of `wait` is
`post_acquire` on the mutex — held: "expected to be able to acquire lock"; free: the operation
completes and the caller owns the mutex.  And the `wait` completes (the caller's program counter
moves) in NO other stage: whenever `cvwait` completes, the caller owns the mutex. -/
theorem Condvar.reacquires (w : World) (c : TCtl) (vi mi : Nat) (m : MutexSt)
    (h : w.exec.objs[w.mutexObj mi]? = some (.mutex m)) :
    (3 ≤ c.stage → m.lock.isSome = true → w.runOp c (.cvWait vi mi) = .error .expectedLock) ∧
    (3 ≤ c.stage → m.lock = none → ∃ w1, w.postAcquire (w.mutexObj mi) = .ok (w1, true) ∧
      w.runOp c (.cvWait vi mi) = .ok (w1.complete .unit) ∧
      (w1.complete .unit).exec.objs[w.mutexObj mi]? =
        some (.mutex { m with lock := some w.tid })) ∧
    (∀ w', w.runOp c (.cvWait vi mi) = .ok w' → (w'.ctlOf w.tid).pc ≠ (w.ctlOf w.tid).pc →
      3 ≤ c.stage ∧ m.lock = none ∧
      w'.exec.objs[w.mutexObj mi]? = some (.mutex { m with lock := some w.tid })) :=
  ⟨fun hs => (cvWait_stage3 h hs).1, fun hs => (cvWait_stage3 h hs).2,
    fun _ hr hpc => cvWait_completes_only_locked h hr hpc⟩

/-! ## 6. `Join.after_exit`, `Join.after_destructors` -/

/-- The epilogue of a spawned thread `t ≠ 0` whose `JoinHandle` notify is `n` (since the repair of finding
F20): first `drop_locals` and the loop of the thread-local destructors' stores (`fin = 0`, then
`3 ≤ fin < 10`), ending — when the queue of destructors is empty (`fin = 4`, `dtorQueue = []`) — with the
branch point of `notify`; none of these stages terminates anybody or changes a notify object.  Then
`notifyEffect n` (`fin = 1`: the flag of `n` is set and `n`'s clock is above the exiting thread's causality;
the thread enters the common tail, `fin := 10`), and only THEN the tail `finishThread` (a second
`drop_locals` for values initialised by the destructors, their destructors, `thread_done`), which leaves
every notify object alone: in the state in which the thread has exited the flag of `n` is still set. -/
theorem Join.after_exit {w w' : World} {c : TCtl} {b n : Nat} {s : NotifySt}
    (ht : w.tid ≠ 0) (hsp : w.spawned.find? (·.2.1 == w.tid) = some (b, w.tid, n))
    (hn : w.exec.objs[n]? = some (.notify s)) (h : w.runEpilogue c = .ok w') :
    (c.fin = 0 → w' = w.dropLocals.modCtl w.tid (fun c => { c with fin := 4 }) ∧ w'.exec = w.exec) ∧
    (c.fin = 0 ∨ 3 ≤ c.fin → c.fin < 10 →
      NotifyKept w.exec.objs w'.exec.objs ∧
      ∀ i, (w'.ths.get i).isTerminated = true → (w.ths.get i).isTerminated = true) ∧
    (c.fin = 4 → c.dtorQueue = [] →
      (w.modCtl w.tid fun c => { c with fin := 1 }).branch n .opaque = .ok w') ∧
    (c.fin ≠ 0 → c.fin < 3 →
      ∃ w1 s1, w.notifyEffect n = .ok w1 ∧
        w' = w1.modCtl w.tid (fun c => { c with fin := 10 }) ∧
        w1.exec.objs[n]? = some (.notify s1) ∧ s1.notified = true ∧ w.ths.caus.le s1.sync.hb ∧
        w'.exec.objs[n]? = some (.notify s1)) ∧
    (10 ≤ c.fin → w.finishThread c = .ok w' ∧ NotifyKept w.exec.objs w'.exec.objs) :=
  ⟨fun hf => epilogue_first_stage ht hsp hf h,
    fun hf hlt => epilogue_before_notify ht hsp hf hlt h,
    fun hf hq => (epilogue_branch_stage ht hsp hf hq h).1,
    fun hf hlt => epilogue_notifies_then_exits ht hsp hn hf hlt h,
    fun hge => epilogue_tail_keeps hge h⟩

theorem EpiRun_spelled_out (t : Nat) (w w' : World) (ks : List Nat) :
    EpiRun t w w' ks ↔
      (w' = w ∧ ks = []) ∨
      (∃ w1, EpiRun t w w1 ks ∧ w1.tid = t ∧ (w1.ctlOf t).fin < 5 ∧
        w1.runEpilogue (w1.ctlOf t) = .ok w') ∨
      (∃ w1 ks1 k rest, ks = ks1 ++ [k] ∧ EpiRun t w w1 ks1 ∧ w1.tid = t ∧ 5 ≤ (w1.ctlOf t).fin ∧
        (w1.ctlOf t).fin < 10 ∧ (w1.ctlOf t).dtorQueue = k :: rest ∧
        w1.runEpilogue (w1.ctlOf t) = .ok w') ∨
      (∃ w1, EpiRun t w w1 ks ∧ w'.ctl[t]? = w1.ctl[t]?) := by
  constructor
  · intro h
    cases h with
    | refl => exact .inl ⟨rfl, rfl⟩
    | stage hr h1 h2 h3 => exact .inr (.inl ⟨_, hr, h1, h2, h3⟩)
    | store hr h1 h2 h3 h4 h5 => exact .inr (.inr (.inl ⟨_, _, _, _, rfl, hr, h1, h2, h3, h4, h5⟩))
    | other hr h1 => exact .inr (.inr (.inr ⟨_, hr, h1⟩))
  · rintro (⟨rfl, rfl⟩ | ⟨w1, hr, h1, h2, h3⟩ | ⟨w1, ks1, k, rest, rfl, hr, h1, h2, h3, h4, h5⟩ |
      ⟨w1, hr, h1⟩)
    · exact .refl _
    · exact .stage hr h1 h2 h3
    · exact .store hr h1 h2 h3 h4 h5
    · exact .other hr h1

/-- `join` returns only after the joined thread's thread-local destructors have run (finding F20,
repaired).  In the epilogue of a spawned thread `t ≠ 0` the `JoinHandle`'s notify `n` is touched in two
stages only — the branch point of `notify` and its effect `notifyEffect n` — and:

1. (one step, any world) the branch point is the head of the destructor loop with an EMPTY queue
   (`fin = 4`, `dtorQueue = []`); the stage `fin = 0` is the first `drop_locals` pass (after it every key
   the thread had is destroyed: `(k, none)`, see `Tls.dropped_at_exit`), a stage `fin = 4` with a non-empty
   queue is the branch point of the store of the destructor at its head, a stage `fin ≥ 5` is the effect of
   that store and pops the queue; the effect of `notify` is the stage `fin = 1` (or 2, never reached).
   Hence a stage whose successor has `fin = 1` in the thread's record had `fin = 4` and an empty queue.
2. (any run) from the thread's first epilogue stage (`fin = 0` in `w0`) through any run `EpiRun` of its own
   stages before the common tail, interleaved with arbitrary changes of the world that keep the thread's
   control record (`ks`: the keys whose destructor store was PERFORMED on the way): every thread-local the
   thread had at the end of its body is destroyed, and `ks` followed by the queue is the queue `q0` left by
   the first `drop_locals` (with `tlsdtor=1`: the keys that were live, in initialisation order).  Whenever
   the thread is about to run `notifyEffect` (`fin = 1`) — and in the state after it (`fin = 10`) — the
   queue is EMPTY and `ks = q0`: every destructor store has been performed.
3. (real steps are steps of such a run) one stage of the active thread (`World.stepActive`, any world)
   writes only the active thread's own control record — the record of every other thread that has one is
   kept — so a step of another thread extends a run by `EpiRun.other`; and a step of `t` itself whose
   program counter is past the end of its body, before the common tail, extends it by a `stage` (`fin < 5`)
   or a `store` step (`fin ≥ 5`, the key at the head of the queue is appended to `ks`). -/
theorem Join.after_destructors :
    (∀ (w w' : World) (c : TCtl) (b n : Nat), w.tid ≠ 0 →
      w.spawned.find? (·.2.1 == w.tid) = some (b, w.tid, n) → c.fin < 10 →
      w.runEpilogue c = .ok w' →
      (c.fin = 0 ∨ c.fin = 3 → w' = w.dropLocals.modCtl w.tid (fun c => { c with fin := 4 })) ∧
      (c.fin = 4 → ∀ k rest, c.dtorQueue = k :: rest →
        (w.modCtl w.tid fun c => { c with fin := 5 }).primStart 0 (.store (10 + (k : Int)) .rlx)
          c.stage = .ok w') ∧
      (c.fin = 4 → c.dtorQueue = [] →
        (w.modCtl w.tid fun c => { c with fin := 1 }).branch n .opaque = .ok w') ∧
      (5 ≤ c.fin → ∃ k rest w1 r, c.dtorQueue = k :: rest ∧
        w.primEffect 0 (.store (10 + (k : Int)) .rlx) = .ok (w1, r) ∧
        w' = w1.modCtl w.tid (fun c => { c with fin := 4, dtorQueue := rest })) ∧
      (c.fin = 1 ∨ c.fin = 2 → ∃ w1, w.notifyEffect n = .ok w1 ∧
        w' = w1.modCtl w.tid (fun c => { c with fin := 10 })) ∧
      (w.tid < w.ctl.length → c = w.ctlOf w.tid → (w'.ctlOf w.tid).fin = 1 →
        c.fin = 4 ∧ c.dtorQueue = [])) ∧
    (∀ (t : Nat) (w0 w1 w : World) (ks : List Nat), t ≠ 0 → w0.tid = t → t < w0.ctl.length →
      (w0.ctlOf t).fin = 0 → w0.runEpilogue (w0.ctlOf t) = .ok w1 → EpiRun t w1 w ks →
      t < w.ctl.length ∧
      (∀ j v, (w0.ctlOf t).locals.lookup j = some v → (w.ctlOf t).locals.lookup j = some none) ∧
      ((w.ctlOf t).fin = 4 ∨ (w.ctlOf t).fin = 5 ∨ (w.ctlOf t).fin = 1 ∨ (w.ctlOf t).fin = 10) ∧
      ((w.ctlOf t).fin = 4 ∨ (w.ctlOf t).fin = 5 →
        ks ++ (w.ctlOf t).dtorQueue = (w0.dropLocals.ctlOf t).dtorQueue) ∧
      ((w.ctlOf t).fin = 1 ∨ (w.ctlOf t).fin = 10 →
        (w.ctlOf t).dtorQueue = [] ∧ ks = (w0.dropLocals.ctlOf t).dtorQueue) ∧
      (w0.cfg.tlsDtor = 1 → (w0.dropLocals.ctlOf t).dtorQueue = liveKeys w0) ∧
      (w0.cfg.tlsDtor ≠ 1 → (w0.dropLocals.ctlOf t).dtorQueue = (w0.ctlOf t).dtorQueue)) ∧
    ((∀ (w w' : World) (t : Nat), w.stepActive = .ok w' → t ≠ w.tid → t < w.ctl.length →
        w'.ctl[t]? = w.ctl[t]?) ∧
      ∀ (t : Nat) (w w1 w2 : World) (ks : List Nat), EpiRun t w w1 ks → w1.stepActive = .ok w2 →
        (w1.tid ≠ t → t < w1.ctl.length → EpiRun t w w2 ks) ∧
        (t ≠ 0 → w1.tid = t →
          (w1.prog.threads.getD (w1.ctlOf t).body [])[(w1.ctlOf t).pc]? = none →
          (w1.ctlOf t).fin < 10 →
          ((w1.ctlOf t).fin < 5 ∧ EpiRun t w w2 ks) ∨
          (5 ≤ (w1.ctlOf t).fin ∧ ∃ k rest, (w1.ctlOf t).dtorQueue = k :: rest ∧
            EpiRun t w w2 (ks ++ [k])))) := by
  refine ⟨?_, ?_, fun w w' t h ht hin => Foot.stepActive_other h t ht hin,
    fun t w w1 w2 ks hr hs => ⟨fun hne hin => hr.of_other_step hne hin hs,
      fun ht htid hpc hlt => hr.of_own_step ht htid hpc hlt hs⟩⟩
  · intro w w' c b n ht hsp hlt h
    obtain ⟨t1, t2, t3, t4, t5⟩ := epilogue_stage_table ht hsp hlt h
    refine ⟨t1, t2, t3, t4, t5, ?_⟩
    intro hin hc hfin
    subst hc
    obtain ⟨_, r1, r2, r3, r4, r5⟩ := epilogue_record ht hsp hin hlt h
    by_cases e4 : (w.ctlOf w.tid).fin = 4
    · cases hq : (w.ctlOf w.tid).dtorQueue with
      | nil => exact ⟨e4, rfl⟩
      | cons k rest => rw [r2 e4 k rest hq] at hfin; cases hfin
    · by_cases e0 : (w.ctlOf w.tid).fin = 0 ∨ (w.ctlOf w.tid).fin = 3
      · rw [r1 e0] at hfin; cases hfin
      · by_cases e5 : 5 ≤ (w.ctlOf w.tid).fin
        · obtain ⟨k, rest, _, hc⟩ := r4 e5
          rw [hc] at hfin; cases hfin
        · rw [r5 (by omega)] at hfin; cases hfin
  · intro t w0 w1 w ks ht h0 hin hf hstep hrun
    obtain ⟨hlen, hloc, hst⟩ := epilogue_run_inv ht h0 hin hf hstep hrun
    subst h0
    obtain ⟨q1, q2⟩ := dropLocals_queue w0 hin
    refine ⟨hlen, hloc, ?_, ?_, ?_, q1, q2⟩
    · rcases hst with ⟨e | e, _⟩ | ⟨e | e, _⟩
      · exact .inl e
      · exact .inr (.inl e)
      · exact .inr (.inr (.inl e))
      · exact .inr (.inr (.inr e))
    · intro e
      rcases hst with ⟨_, hk⟩ | ⟨e' | e', _⟩
      · exact hk
      · omega
      · omega
    · intro e
      rcases hst with ⟨e' | e', _⟩ | ⟨_, hk⟩
      · omega
      · omega
      · exact hk

/-- `join b` is `Notify::wait` on the `JoinHandle`'s object `n`: stage 0 is `notifyWait1 n`, and
stage 1 (`notifyWait2 n`) returns only if the flag of `n` is set — which only a `notifyEffect n`
does (`Wait.no_other_op_notifies`), i.e. the joined thread's epilogue. -/
theorem Join.waits_for_flag {w w' : World} {c : TCtl} {b t n : Nat} {s : NotifySt}
    (hl : w.lookupSpawn b = .ok (t, n)) (hn : w.exec.objs[n]? = some (.notify s))
    (hs : c.stage = 1) :
    (s.notified = false → w.runOp c (.join b) = .error .notNotified) ∧
    (w.runOp c (.join b) = .ok w' →
      s.notified = true ∧ ∃ w1, w.notifyWait2 n = .ok w1 ∧ w' = w1.complete .unit ∧
        (w.tid < w.ths.threads.length → w1.ths.caus = w.ths.caus.join s.sync.hb)) :=
  join_stage1 hl hn hs

/-- `join` happens-after the exit: the `notify` stage of the joined thread's epilogue (`fin = 1`: after its
thread-local destructors, see `Join.after_destructors`; in any world `wE`), any steps of the object's life,
the last stage of `join` (in any world `wJ`): the joiner's causality is above the joined thread's causality
at its exit — which includes the destructors' operations. -/
theorem Join.hb {wE wE' wJ wJ' : World} {cE cJ : TCtl} {bE b t n : Nat} {s0 s1 s2 : NotifySt}
    (ht : wE.tid ≠ 0) (hsp : wE.spawned.find? (·.2.1 == wE.tid) = some (bE, wE.tid, n))
    (hn : wE.exec.objs[n]? = some (.notify s0)) (hfin : cE.fin ≠ 0) (hlt : cE.fin < 3)
    (hE : wE.runEpilogue cE = .ok wE') (hn1 : wE'.exec.objs[n]? = some (.notify s1))
    (hsteps : NotifySteps s1 s2)
    (hl : wJ.lookupSpawn b = .ok (t, n)) (hn2 : wJ.exec.objs[n]? = some (.notify s2))
    (hs : cJ.stage = 1) (hin : wJ.tid < wJ.ths.threads.length)
    (hJ : wJ.runOp cJ (.join b) = .ok wJ') :
    wE.ths.caus.le wJ'.ths.caus :=
  join_hb ht hsp hn hfin hlt hE hn1 hsteps hl hn2 hs hin hJ

/-! ## 7. non-vacuity -/

/-- notify-then-wait, concretely: in `Ex.wF17` thread 0 (causality `[5,0,0,0,0]`) notifies object 3;
thread 1 (made active, causality `[1,1,0,0,0]`) then runs the second half of `wait`: it succeeds,
the flag is cleared and thread 1's causality is `[5,1,0,0,0]`.  Without the `notify` the same
second half panics (`notNotified`). -/
theorem Notify.example :
    (Ex.wF17.notifyEffect 3).toOption.bind (fun w1 =>
      ((w1.setThs { w1.ths with active := some 1 }).notifyWait2 3).toOption.map fun w2 =>
        (w2.ths.caus, (w2.getNotify 3).toOption.map (·.notified))) =
      some (Ex.vv [5, 1, 0, 0, 0], some false) ∧
    (match (Ex.wF17.setThs { Ex.wF17.ths with active := some 1 }).notifyWait2 3 with
      | .error .notNotified => true | _ => false) = true := by
  constructor <;> decide +kernel

/-- park / unpark, concretely: in `Ex.wF17` thread 0 unparks the runnable thread 1 (token stored, state still
`runnable`); thread 1's `park` then consumes the token without blocking (still `runnable`, still the active
thread, token gone).  Without the unpark the same `park` blocks (thread 0 parks in `Ex.wF17`: it is `blocked`
and `parked`, and thread 1 runs); an `unpark` of a parked thread (`Ex.wPark`) wakes it without leaving a
token. -/
theorem Park.example :
    ((Ex.wF17.setThs ((Ex.wF17.ths.unpark 1))).setThs
        { (Ex.wF17.ths.unpark 1) with active := some 1 }).parkNow.toOption.map
      (fun w' => ((w'.ths.get 1).state, (w'.ths.get 1).token, w'.ths.active)) =
      some (.runnable, false, some 1) ∧
    (Ex.wF17.parkNow).toOption.map
      (fun w' => ((w'.ths.get 0).state, (w'.ths.get 0).parked, (w'.ths.get 0).token, w'.ths.active)) =
      some (.blocked, true, false, some 1) ∧
    (Ex.wPark.runOp {} (.unpark 1)).toOption.map
      (fun w' => ((w'.ths.get 1).state, (w'.ths.get 1).token, (w'.ths.get 1).parked,
        (w'.ths.get 1).causality)) =
      some (.runnable, false, false, Ex.vv [2, 1, 0, 0, 0]) :=
  ⟨by decide +kernel, Ex.park_blocks, Ex.park_unpark_wakes⟩

end LoomVerif

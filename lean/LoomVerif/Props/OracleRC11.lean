/-
The test oracle's enumerator of the RC11 outcomes is sound and complete.

The verdicts of the RC11 checks compare what loom produced with the outcome set computed by the
enumerator of `Oracle/RC11Enum.lean`.  That enumerator (`RC11.explore`) is a `partial def` (opaque
to proofs) and it PRUNES the modification orders it tries (`moChoices`: initial write first, `mo`
must extend `hb` on writes, every RMW directly after the write it reads from); that the pruning
loses no consistent graph was only claimed in comments.  `RC11.exploreV` (`Oracle/RC11EnumV.lean`)
is the same worklist algorithm, total, and these are the theorems about it.

The DEFINITIONAL outcome set `RC11Outcome` below knows nothing of the pruning: reachable complete
pre-executions, ANY permutation of the writes of every location as modification order, the
consistency predicate of `Spec/RC11.lean`.

History: the first attempt to prove the pruning lossless failed at lemma (c).  With RMWs as single
events, `Graph.atomicity` only forbade a write `mo`-BETWEEN an RMW and its source; nothing forbade
the source to be `mo`-AFTER the RMW (`rf w u ∧ mo u w`: a cycle in `eco` alone, invisible to
COHERENCE).  For `cfg x=1 | T0: spawn 1; st 0 1 rlx | T1: fadd 0 1 rlx; ld 0 rlx` the unpruned
set then contained `1:0=v:1 1:1=v:1` (the `fadd` reads the store, yet the store stays `mo`-last),
which RC11 forbids and the pruned enumerator never reported.  `Graph.atomicity` now has the
missing conjunct, and everything below is unconditional.

Proofs: `Proofs/OracleRC11Rel.lean` (boolean matrices), `OracleRC11Perm.lean` (`permutations`,
`product`), `OracleRC11Prune.lean` / `OracleRC11Init.lean` (pruning lemmas), `OracleRC11Loop.lean`
(worklist), `OracleRC11Ref.lean` (reference enumerator for the kernel-checked examples).
-/
import LoomVerif.Proofs.OracleRC11Ref
import LoomVerif.Proofs.OracleRC11ExRmw

namespace LoomVerif.OracleRC11
open LoomVerif RC11

/-! ### the definitional outcome set -/

/-- `s` is reachable from `pinit p`: by steps `pstep p s t` of threads `t` enabled in `s`, never
through a `bad` state (`penabled` is false in a `bad` state anyway; the hypothesis is repeated for
the reader) -/
inductive Reach (p : Prog) : PSt → Prop
  | init : Reach p (pinit p)
  | step {s s' : PSt} {t : Nat} : Reach p s → s.bad = false → penabled p s t = true →
      s' ∈ pstep p s t → Reach p s'

/-- a complete pre-execution: no thread enabled, not `bad` -/
def Complete (p : Prog) (s : PSt) : Prop := (∀ t, penabled p s t = false) ∧ s.bad = false

/-- all families of modification orders of a candidate: for every location `x < c.nLoc` ANY
permutation of the write events of `x` (`mem_AllMo`) -/
def AllMo (c : Candidate) : List (List (List Nat)) :=
  product ((List.range c.nLoc).map fun x => permutations (c.writesAt x))

/-- the outcome set for an arbitrary function `out` from (state, consistent graph) to outcomes -/
def OutcomeBy {α : Type} (out : PSt → Graph → α) (p : Prog) (strong : Bool) (o : α) : Prop :=
  ∃ s mos, Reach p s ∧ Complete p s ∧ mos ∈ AllMo (candidate p s) ∧
    ((candidate p s).graph mos).consistent strong = true ∧
    o = out s ((candidate p s).graph mos)

/-- the RC11 outcomes (rendered as the driver prints them) of a program -/
def RC11Outcome (p : Prog) (strong : Bool) (o : String) : Prop :=
  ∃ s mos, Reach p s ∧ Complete p s ∧ mos ∈ AllMo (candidate p s) ∧
    ((candidate p s).graph mos).consistent strong = true ∧
    o = outcomeOf p s ((candidate p s).graph mos)

/-- the same with structured outcomes (`none`: data race; else the returns), which the kernel can
compute -/
def RC11OutcomeD (p : Prog) (strong : Bool) (d : Option (List (Nat × Nat × Ret))) : Prop :=
  OutcomeBy (outcomeData p) p strong d

/-- `AllMo` is what its name says -/
theorem mem_AllMo {c : Candidate} {mos : List (List Nat)} : mos ∈ AllMo c ↔
    mos.length = c.nLoc ∧ ∀ (x : Nat) (l : List Nat), mos[x]? = some l → l.Perm (c.writesAt x) :=
  RC11.mem_allMo

/-- the write events of location `x` -/
theorem mem_writesAt {c : Candidate} {x i : Nat} : i ∈ c.writesAt x ↔
    i < c.evs.size ∧ ((c.evs.getD i default).kind = .W ∨ (c.evs.getD i default).kind = .U) ∧
      (c.evs.getD i default).loc = x := by
  rw [Candidate.mem_writesAt, Candidate.isWr]
  simp only [Bool.or_eq_true, beq_iff_eq]

theorem rc11Outcome_iff {p : Prog} {strong : Bool} {o : String} :
    RC11Outcome p strong o ↔ OutcomeBy (outcomeOf p) p strong o := Iff.rfl

/-- the rendered outcomes are the renderings of the structured outcomes -/
theorem rc11Outcome_iff_data {p : Prog} {strong : Bool} {o : String} :
    RC11Outcome p strong o ↔ ∃ d, RC11OutcomeD p strong d ∧ o = renderData d := by
  constructor
  · rintro ⟨s, mos, h1, h2, h3, h4, rfl⟩
    exact ⟨_, ⟨s, mos, h1, h2, h3, h4, rfl⟩, outcomeOf_eq p s _⟩
  · rintro ⟨_, ⟨s, mos, h1, h2, h3, h4, rfl⟩, rfl⟩
    exact ⟨s, mos, h1, h2, h3, h4, (outcomeOf_eq p s _).symm⟩

/-! ### the pruning lemmas (facts about RC11) -/

/-- `hb` does not depend on the modification orders: it can be computed once per candidate -/
theorem hb_indep (c : Candidate) (mos : List (List Nat)) : (c.graph mos).hb = (c.graph []).hb :=
  Candidate.graph_hb mos

/-- in a reachable state every event of a thread carries that thread's id, and the number of
threads is that of the program (so no thread has the id `initTid` of the initial writes if the
program has at most `initTid` threads) -/
theorem reach_tids {p : Prog} {s : PSt} (r : Reach p s) :
    (∀ t e, e ∈ (s.th t).evs → e.ev.tid = t) ∧ s.ths.length = p.threads.length := by
  induction r with
  | init => exact ⟨pinit_tidOk p, pinit_length p⟩
  | step _ _ _ hs ih =>
    have g := pstep_good hs
    exact ⟨TidOk.good ih.1 g, g.len.trans ih.2⟩

/-- (a) The initial write of location `x` is event number `x` of the candidate, it is the first
write of `x` in index order, and in every consistent graph it is first in the modification order
of `x`. -/
theorem prune_init {p : Prog} {s : PSt} {mos : List (List Nat)} {strong : Bool} (r : Reach p s)
    (hth : p.threads.length ≤ initTid) (hmos : mos ∈ AllMo (candidate p s))
    (hc : ((candidate p s).graph mos).consistent strong = true) {x : Nat}
    (hx : x < (candidate p s).nLoc) :
    (candidate p s).evs.getD x default = initEv x ∧
      ((candidate p s).writesAt x).head? = some x ∧ (mos.getD x []).head? = some x := by
  obtain ⟨hlen, hok⟩ := mem_AllMo.1 hmos
  have hl : mos[x]? = some (mos.getD x []) := by
    have : x < mos.length := by omega
    simp [List.getD, this]
  obtain ⟨h1, h2⟩ := RC11.prune_init (reach_tids r).1 ((reach_tids r).2 ▸ hth) hok hc hx hl
  exact ⟨candidate_ev_init hx, h2, h1⟩

/-- (b) `mo` extends `hb` restricted to the writes of one location, `hb` computed from the graph
WITHOUT `mo`: a write later in the order does not happen before an earlier one. -/
theorem prune_hb {c : Candidate} {mos : List (List Nat)} {strong : Bool} (hmos : mos ∈ AllMo c)
    (hc : (c.graph mos).consistent strong = true) {x : Nat} {l : List Nat}
    (hl : mos[x]? = some l) {i j a b : Nat} (hji : j < i) (hi : l[i]? = some a)
    (hj : l[j]? = some b) : (c.graph []).hb.get a b = false :=
  RC11.prune_hb (mem_AllMo.1 hmos).2 hc hl hji hi hj

/-- (c) Every RMW stands directly after the write it reads from. -/
theorem prune_rmw {c : Candidate} {mos : List (List Nat)} {strong : Bool} (hmos : mos ∈ AllMo c)
    (hc : (c.graph mos).consistent strong = true) {x : Nat} {l : List Nat}
    (hl : mos[x]? = some l) {iu u : Nat} (hu : l[iu]? = some u)
    (hU : (c.evs.getD u default).kind = .U) :
    ∃ w, c.srcIdx.getD u none = some w ∧ 0 < iu ∧ l[iu - 1]? = some w :=
  RC11.prune_rmw (mem_AllMo.1 hmos).2 hc hl hu hU

/-- Hence the modification orders of a consistent graph pass the filter of `moChoices`:
the pruning loses no consistent graph. -/
theorem prune_lossless {p : Prog} {s : PSt} {mos : List (List Nat)} {strong : Bool}
    (r : Reach p s) (hth : p.threads.length ≤ initTid) (hmos : mos ∈ AllMo (candidate p s))
    (hc : ((candidate p s).graph mos).consistent strong = true) :
    mos ∈ product ((List.range (candidate p s).nLoc).map
      (moChoices (candidate p s) ((candidate p s).graph []).hb)) :=
  mem_prunedMos_of_consistent (reach_tids r).1 ((reach_tids r).2 ▸ hth) hmos hc

/-- Conversely the pruned modification orders are modification orders. -/
theorem pruned_sub {c : Candidate} {mos : List (List Nat)}
    (h : mos ∈ product ((List.range c.nLoc).map (moChoices c (c.graph []).hb))) : mos ∈ AllMo c :=
  prunedMos_sub h

/-! ### bridge to the vocabulary of the worklist proofs -/

theorem reach_iff {p : Prog} {s : PSt} : Reach p s ↔ ReachS p s := by
  constructor
  · intro r
    induction r with
    | init => exact .init
    | @step s s' t _ _ he hs ih =>
      refine .tail ih ?_
      rw [succs_eq]
      refine List.mem_flatMap.2 ⟨t, ?_, hs⟩
      unfold enabledThreads
      rw [List.mem_filter, List.mem_range]
      refine ⟨?_, he⟩
      apply Classical.byContradiction
      intro hlt
      have : s.th t = {} := by
        unfold PSt.th
        rw [List.getD_eq_getElem?_getD, List.getElem?_eq_none (by omega)]
        rfl
      simp [penabled, this] at he
  · intro r
    induction r with
    | init => exact .init
    | @tail s s' _ hs ih =>
      rw [succs_eq] at hs
      obtain ⟨t, ht, hs⟩ := List.mem_flatMap.1 hs
      unfold enabledThreads at ht
      rw [List.mem_filter] at ht
      refine .step ih ?_ ht.2 hs
      cases hb : s.bad with
      | false => rfl
      | true => have := ht.2; simp [penabled, hb] at this

theorem complete_iff {p : Prog} {s : PSt} :
    Complete p s ↔ s.bad = false ∧ enabledThreads p s = [] := by
  unfold Complete enabledThreads
  rw [List.filter_eq_nil_iff]
  constructor
  · rintro ⟨h1, h2⟩
    exact ⟨h2, fun t _ => by simp [h1 t]⟩
  · rintro ⟨h1, h2⟩
    refine ⟨fun t => ?_, h1⟩
    by_cases ht : t < s.ths.length
    · simpa using h2 t (List.mem_range.2 ht)
    · have : s.th t = {} := by
        unfold PSt.th
        rw [List.getD_eq_getElem?_getD, List.getElem?_eq_none (by omega)]
        rfl
      simp [penabled, this]

/-- the pruned outcome set is the definitional one -/
theorem prunedOutcome_iff {α : Type} [BEq α] [Hashable α] {out : PSt → Graph → α} {p : Prog}
    {strong : Bool} (hth : p.threads.length ≤ initTid) (o : α) :
    PrunedOutcome p out strong o ↔ OutcomeBy out p strong o := by
  constructor
  · rintro ⟨s, mos, hr, hb, ht, hmos, hc, ho⟩
    exact ⟨s, mos, reach_iff.2 hr, complete_iff.2 ⟨hb, ht⟩, prunedMos_sub hmos, hc, ho⟩
  · rintro ⟨s, mos, hr, hcomp, hmos, hc, ho⟩
    obtain ⟨hb, ht⟩ := complete_iff.1 hcomp
    exact ⟨s, mos, reach_iff.1 hr, hb, ht, prune_lossless hr hth hmos hc, hc, ho⟩

theorem prunedOutcome_sound {α : Type} [BEq α] [Hashable α] {out : PSt → Graph → α} {p : Prog}
    {strong : Bool} {o : α} : PrunedOutcome p out strong o → OutcomeBy out p strong o := by
  rintro ⟨s, mos, hr, hb, ht, hmos, hc, ho⟩
  exact ⟨s, mos, reach_iff.2 hr, complete_iff.2 ⟨hb, ht⟩, prunedMos_sub hmos, hc, ho⟩

/-! ### the enumerator -/

/-- Soundness: every reported outcome is an RC11 outcome of the program (capped or not,
supported or not). -/
theorem exploreV_sound {p : Prog} {strong : Bool} {ms mg : Nat} {o : String}
    (h : o ∈ (exploreV p strong ms mg).outcomes) : RC11Outcome p strong o :=
  prunedOutcome_sound (finalWL_sound (Std.HashSet.mem_toList.1 h))

/-- Completeness: if no cap was hit and the program is supported, every RC11 outcome of the
program is reported. -/
theorem exploreV_complete {p : Prog} {strong : Bool} {ms mg : Nat} {o : String}
    (hc : (exploreV p strong ms mg).capped = false)
    (hu : (exploreV p strong ms mg).unsupported = false) (h : RC11Outcome p strong o) :
    o ∈ (exploreV p strong ms mg).outcomes :=
  Std.HashSet.mem_toList.2
    (finalWL_complete hc ((prunedOutcome_iff (finalWL_supported hu).1 o).2 h))

/-- Both directions. -/
theorem exploreV_outcomes_iff {p : Prog} {strong : Bool} {ms mg : Nat}
    (hc : (exploreV p strong ms mg).capped = false)
    (hu : (exploreV p strong ms mg).unsupported = false) (o : String) :
    o ∈ (exploreV p strong ms mg).outcomes ↔ RC11Outcome p strong o :=
  ⟨exploreV_sound, exploreV_complete hc hu⟩

/-- The reported outcomes are duplicate-free. -/
theorem exploreV_nodup (p : Prog) (strong : Bool) (ms mg : Nat) :
    (exploreV p strong ms mg).outcomes.Nodup :=
  (Std.HashSet.distinct_toList (m := (finalWL p (outcomeOf p) strong ms mg).outs)).imp
    (by intro a b h e; subst e; simp at h)

/-- The `unsupported` flag: if it is clear, the program has at most `initTid` threads, and (no cap
hit) no reachable state left the fragment of the DSL the enumerator covers. -/
theorem exploreV_supported {p : Prog} {strong : Bool} {ms mg : Nat}
    (hu : (exploreV p strong ms mg).unsupported = false) :
    p.threads.length ≤ initTid ∧
      ((exploreV p strong ms mg).capped = false → ∀ s, Reach p s → s.bad = false) :=
  ⟨(finalWL_supported hu).1, fun hc s r => (finalWL_supported hu).2 hc s (reach_iff.1 r)⟩

/-- The cap flag is genuine: it is set only if there are more than `ms` distinct reachable states
or the counter of graphs has reached `mg` with a further graph waiting.  In particular the fuel of
the outer loop (`max ms 1` pops) never runs out. -/
theorem exploreV_capped {p : Prog} {strong : Bool} {ms mg : Nat}
    (hc : (exploreV p strong ms mg).capped = true) :
    (∃ l : List PSt, l.Nodup ∧ (∀ s, s ∈ l → Reach p s) ∧ ms < l.length) ∨
      mg ≤ (exploreV p strong ms mg).graphs := by
  rcases finalWL_capped (out := outcomeOf p) hc with ⟨l, h1, h2, h3⟩ | h
  · exact .inl ⟨l, h1, fun s hs => reach_iff.2 (h2 s hs), h3⟩
  · exact .inr h

/-- The same theorems for the variant with structured outcomes. -/
theorem exploreVD_sound {p : Prog} {strong : Bool} {ms mg : Nat}
    {d : Option (List (Nat × Nat × Ret))} (h : d ∈ (exploreVD p strong ms mg).outcomes) :
    RC11OutcomeD p strong d :=
  prunedOutcome_sound (finalWL_sound (Std.HashSet.mem_toList.1 h))

theorem exploreVD_complete {p : Prog} {strong : Bool} {ms mg : Nat}
    {d : Option (List (Nat × Nat × Ret))} (hc : (exploreVD p strong ms mg).capped = false)
    (hu : (exploreVD p strong ms mg).unsupported = false) (h : RC11OutcomeD p strong d) :
    d ∈ (exploreVD p strong ms mg).outcomes :=
  Std.HashSet.mem_toList.2
    (finalWL_complete hc ((prunedOutcome_iff (finalWL_supported hu).1 d).2 h))

/-! ### a reference enumerator the kernel can run -/

/-- `completeNaive` (plain recursion over `pstep`), when its fuel suffices, lists exactly the
reachable complete states. -/
theorem completeNaive_spec {p : Prog} {fuel : Nat} {L : List PSt}
    (hL : completeNaive p fuel (pinit p) = some L) (s : PSt) :
    s ∈ L ↔ Reach p s ∧ Complete p s := by
  rw [RC11.completeNaive_spec p fuel _ L hL s, reach_iff, complete_iff, reachS_iff]

/-- The boolean test `refHas` (over the reachable complete states, pruned modification orders)
decides the definitional outcome set. -/
theorem refHas_iff {α : Type} [DecidableEq α] [Hashable α] {out : PSt → Graph → α} {p : Prog}
    {strong : Bool} {fuel : Nat} {L : List PSt} (hth : p.threads.length ≤ initTid)
    (hL : completeNaive p fuel (pinit p) = some L) (o : α) :
    refHas out p strong L.eraseDups o = true ↔ OutcomeBy out p strong o := by
  rw [RC11.refHas_iff hL, prunedOutcome_iff hth]

/-- how the kernel-evaluated facts of `Proofs/OracleRC11Ex*.lean` are used -/
theorem outcomeBy_iff_ref {α : Type} [DecidableEq α] [Hashable α] {out : PSt → Graph → α}
    {p : Prog} {strong : Bool} {fuel : Nat} {o : α} {b : Bool}
    (hth : p.threads.length ≤ initTid)
    (h : (completeNaive p fuel (pinit p)).map (fun L => refHas out p strong L.eraseDups o) = some b) :
    OutcomeBy out p strong o ↔ b = true := by
  cases hL : completeNaive p fuel (pinit p) with
  | none => rw [hL] at h; cases h
  | some L =>
    rw [hL] at h
    have : refHas out p strong L.eraseDups o = b := by simpa using h
    rw [← refHas_iff hth hL, this]

/-! ### kernel-checked examples (non-vacuity)

The kernel evaluates the list-based reference enumerator (`completeNaive`, `refHas`); the theorems
above turn the result into statements about the definitional outcome set.  (It cannot evaluate
`exploreV` itself — hash sets — nor compare rendered strings, hence `RC11OutcomeD`.) -/

/-- Store buffering, `cfg x=2 | T0: spawn 1; st 0 1 rlx; ld 1 rlx | T1: st 1 1 rlx; ld 0 rlx`:
both loads may return 0. -/
theorem sb_both_zero : RC11OutcomeD Example.sb true Example.sbBothZero :=
  (outcomeBy_iff_ref (by decide) Example.sb_kernel).2 rfl

/-- Message passing, `cfg x=2 | T0: spawn 1; st 0 1 rlx; st 1 1 rel | T1: ld 1 acq; ld 0 rlx`:
the acquire load cannot see the flag and the next load the stale data. -/
theorem mp_not_stale : ¬ RC11OutcomeD Example.mp true Example.mpStale := fun h =>
  Bool.noConfusion ((outcomeBy_iff_ref (by decide) Example.mp_stale_kernel).1 h)

/-- `cfg x=1 | T0: st 0 1 rlx; ld 0 rlx`: the load returns 1, never 0. -/
theorem row_reads_own_write :
    RC11OutcomeD Example.row true (some [(0, 0, .unit), (0, 1, .val 1)]) ∧
      ¬ RC11OutcomeD Example.row true (some [(0, 0, .unit), (0, 1, .val 0)]) := by
  have h := Example.row_kernel
  cases hL : completeNaive Example.row 5 (pinit Example.row) with
  | none => rw [hL] at h; cases h
  | some L =>
    rw [hL] at h
    simp only [Option.map_some, Option.some.injEq, Prod.mk.injEq] at h
    constructor
    · exact (refHas_iff (by decide) hL _).1 h.1
    · intro h'
      have := (refHas_iff (by decide) hL _).2 h'
      rw [h.2] at this; cases this

/-- `cfg x=1 | T0: spawn 1; st 0 1 rlx | T1: fadd 0 1 rlx; ld 0 rlx`: if the `fadd` reads the
store (returns 1 and writes 2), the later load of the same thread cannot still read 1. -/
theorem rmw_not_stale : ¬ RC11OutcomeD Example.rmw true Example.rmwStale := fun h =>
  Bool.noConfusion ((outcomeBy_iff_ref (by decide) Example.rmw_kernel).1 h)

/-- With the FORMER atomicity axiom (`Graph.consistentOld`) that outcome was in the definitional
set, through a modification order that is not among the pruned ones: pruning lemma (c) and the
completeness of the enumerator were false. -/
theorem rmw_stale_old : ∃ s mos, Reach Example.rmw s ∧ Complete Example.rmw s ∧
    mos ∈ AllMo (candidate Example.rmw s) ∧
    ((candidate Example.rmw s).graph mos).consistentOld true = true ∧
    Example.rmwStale = outcomeData Example.rmw s ((candidate Example.rmw s).graph mos) ∧
    mos ∉ product ((List.range (candidate Example.rmw s).nLoc).map
      (moChoices (candidate Example.rmw s) ((candidate Example.rmw s).graph []).hb)) := by
  have h := Example.rmw_old_kernel
  cases hL : completeNaive Example.rmw 10 (pinit Example.rmw) with
  | none => rw [hL] at h; cases h
  | some L =>
    rw [hL] at h
    simp only [Option.map_some, Option.some.injEq, List.any_eq_true, Bool.and_eq_true,
      decide_eq_true_eq, List.mem_eraseDups, List.contains_iff_mem, Bool.not_eq_true',
      ] at h
    obtain ⟨s, hs, ⟨⟨h1, h2⟩, h3⟩, h4⟩ := h
    obtain ⟨hr, hc⟩ := (completeNaive_spec hL s).1 hs
    refine ⟨s, Example.rmwMo, hr, hc, h2, h4, h1.symm, ?_⟩
    intro hmem
    have : (prunedMos (candidate Example.rmw s)).contains Example.rmwMo = true :=
      List.contains_iff_mem.2 hmem
    rw [h3] at this; cases this

end LoomVerif.OracleRC11

/-
C04 — "Data races on unsynchronised memory are reported exactly."

Headline theorems only: the local decision logic of the race detector, valid in every state.
`VV.le x c` reads "the access recorded in `x` happens-before the access made with causality `c`".
The model is `Model/{VV,Atomic,Objs,Interp}.lean`; the proofs are in `Proofs/Clocks{VV,Race}.lean`.
Causality kinds (`Panic.causality k`): 0 load/mut, 1 unsync_load/mut, 2 unsync_load/store,
3 store/mut, 4 store/unsync_load, 5 mut/load, 6 mut/unsync_load, 7 mut/store, 8 mut/mut,
9 cell read/write, 10 cell write/write, 11 cell write/read.
-/
import LoomVerif.Proofs.ClocksRace

namespace LoomVerif
open Clocks

/-! ## 0. the check `current.ahead(&x)` is the happens-before test -/

/-- `current.ahead(&x)` finds nothing iff `x ≤ current`. -/
theorem VV.ahead_none_iff_le (current x : VV) : current.ahead x = none ↔ x.le current :=
  ahead_eq_none_iff current x

/-- When it finds something, it is the first thread slot in which `x` is strictly ahead. -/
theorem VV.ahead_some_first (current x : VV) (i : Nat) (h : current.ahead x = some i) :
    i < 5 ∧ current.get i < x.get i ∧ ∀ j, j < i → x.get j ≤ current.get j :=
  ahead_eq_some h

/-- The clock a cell access is checked with is the thread's causality after the
`rt::synchronize` increment of its own slot, which is strictly above the old causality. -/
theorem World.sync_caus (w : World) (h : w.ths.activeId < w.ths.threads.length) :
    w.sync.ths.caus = w.ths.caus.inc w.ths.activeId ∧
    (w.ths.activeId < 5 → w.ths.caus.blt w.sync.ths.caus = true) := by
  have e : w.sync.ths.caus = w.ths.caus.inc w.ths.activeId := caus_activeCausalityInc h
  exact ⟨e, fun h5 => e ▸ blt_inc _ _ h5⟩

/-! ## 1. `UnsafeCell` -/

/-- `UnsafeCell::with` (`.cellRead`), cell not inside a `with_mut`: with `cur` the reader's
causality, the step panics with "Concurrent read and write accesses" (kind 9) iff the recorded
write clock is not `≤ cur`; that is its only failure; otherwise it succeeds, joining `cur` into
the read clock and returning the cell's value. -/
theorem Cell.read_panics_iff (w : World) (c : TCtl) (ci : Nat) (s : CellSt)
    (hs : w.sync.getCell (w.cellObj ci) = .ok s) (hbusy : s.isWriting = false) :
    let cur := w.sync.ths.caus
    (w.runOp c (.cellRead ci) = .error (.causality 9) ↔ ¬ s.writeAccess.le cur) ∧
    (∀ e, w.runOp c (.cellRead ci) = .error e → e = .causality 9) ∧
    (s.writeAccess.le cur ↔
      w.runOp c (.cellRead ci) =
        .ok ((w.sync.setObj (w.cellObj ci)
          (.cell { s with readAccess := s.readAccess.join cur })).complete (.val s.value))) := by
  intro cur
  rw [runOp_cellRead, hs]
  by_cases hle : s.writeAccess.le cur
  · simp [cellReadCheck, hbusy, hle, cur, bind, Except.bind, pure, Except.pure]
  · simp [cellReadCheck, hbusy, hle, cur, bind, Except.bind]

/-- `UnsafeCell::with_mut` (`.cellWrite`), cell not being accessed: the step panics with
"Concurrent write accesses" (kind 10) iff the write clock is not `≤ cur`; else with "Concurrent
read and write accesses" (kind 11) iff the read clock is not `≤ cur`; these are its only
failures; otherwise it succeeds, joining `cur` into the write clock. -/
theorem Cell.write_panics_iff (w : World) (c : TCtl) (ci : Nat) (v : Int) (s : CellSt)
    (hs : w.sync.getCell (w.cellObj ci) = .ok s)
    (hbusy : (s.isReading != 0 || s.isWriting) = false) :
    let cur := w.sync.ths.caus
    (w.runOp c (.cellWrite ci v) = .error (.causality 10) ↔ ¬ s.writeAccess.le cur) ∧
    (w.runOp c (.cellWrite ci v) = .error (.causality 11) ↔
      s.writeAccess.le cur ∧ ¬ s.readAccess.le cur) ∧
    (∀ e, w.runOp c (.cellWrite ci v) = .error e → e = .causality 10 ∨ e = .causality 11) ∧
    (s.writeAccess.le cur ∧ s.readAccess.le cur ↔
      w.runOp c (.cellWrite ci v) =
        .ok ((w.sync.setObj (w.cellObj ci)
          (.cell { s with writeAccess := s.writeAccess.join cur, value := v })).complete .unit)) := by
  intro cur
  rw [runOp_cellWrite, hs]
  by_cases hle : s.writeAccess.le cur
  · by_cases hle2 : s.readAccess.le cur
    · simp [cellWriteCheck, hbusy, hle, hle2, cur, bind, Except.bind, pure, Except.pure]
    · simp [cellWriteCheck, hbusy, hle, hle2, cur, bind, Except.bind]
  · simp [cellWriteCheck, hbusy, hle, cur, bind, Except.bind]

/-- The `assert!`s on `is_reading` / `is_writing` come first. -/
theorem Cell.busy (w : World) (c : TCtl) (ci : Nat) (v : Int) (s : CellSt)
    (hs : w.sync.getCell (w.cellObj ci) = .ok s) :
    (s.isWriting = true → w.runOp c (.cellRead ci) = .error .cellBusy) ∧
    ((s.isReading != 0 || s.isWriting) = true →
      w.runOp c (.cellWrite ci v) = .error .cellBusy) := by
  rw [runOp_cellRead, runOp_cellWrite, hs]
  constructor
  · intro h; simp [cellReadCheck, h, bind, Except.bind]
  · intro h; simp [cellWriteCheck, h, bind, Except.bind]

/-! ## 1b. `UnsafeCell` sections that stay open across other operations

`let p = cell.get()` … `drop(p)` (`.cellReadBegin` … `.cellReadEnd`) and `let p = cell.get_mut()` … `drop(p)`
(`.cellWriteBegin` … `.cellWriteEnd`).  The BEGIN of a section runs inside `rt::synchronize` (it is checked with
the causality after the increment, `w.sync.ths.caus`); the END (a guard's `drop`) does not increment: it is
checked, and recorded, with the causality the thread has at that point, `w.ths.caus`. -/

/-- Read sections, the decision logic of both ends, in every world.
BEGIN (`s` the cell's state, `cur` the causality after the `synchronize` increment): `.cellBusy` iff a write
section is open; else "Concurrent read and write accesses" (kind 9) iff the write clock is not `≤ cur`; no other
failure; otherwise it succeeds: one more reader, `cur` joined into the read clock, the value returned.
END (`cur'` the thread's causality as it is): `internal 86` iff no read section is open or a write section is (an
ill-formed program); else kind 9 iff the write clock is not `≤ cur'`; no other failure; otherwise it succeeds:
one reader less, `cur'` joined into the read clock. -/
theorem Cell.section_read_panics_iff (w : World) (c : TCtl) (ci : Nat) (s : CellSt) :
    (w.sync.getCell (w.cellObj ci) = .ok s →
      let cur := w.sync.ths.caus
      (w.runOp c (.cellReadBegin ci) = .error .cellBusy ↔ s.isWriting = true) ∧
      (w.runOp c (.cellReadBegin ci) = .error (.causality 9) ↔
        s.isWriting = false ∧ ¬ s.writeAccess.le cur) ∧
      (∀ e, w.runOp c (.cellReadBegin ci) = .error e → e = .cellBusy ∨ e = .causality 9) ∧
      (s.isWriting = false ∧ s.writeAccess.le cur ↔
        w.runOp c (.cellReadBegin ci) =
          .ok ((w.sync.setObj (w.cellObj ci)
            (.cell { s with isReading := s.isReading + 1,
                            readAccess := s.readAccess.join cur })).complete (.val s.value)))) ∧
    (w.getCell (w.cellObj ci) = .ok s →
      let cur' := w.ths.caus
      (w.runOp c (.cellReadEnd ci) = .error (.internal 86) ↔ s.isReading = 0 ∨ s.isWriting = true) ∧
      (w.runOp c (.cellReadEnd ci) = .error (.causality 9) ↔
        s.isReading ≠ 0 ∧ s.isWriting = false ∧ ¬ s.writeAccess.le cur') ∧
      (∀ e, w.runOp c (.cellReadEnd ci) = .error e → e = .internal 86 ∨ e = .causality 9) ∧
      (s.isReading ≠ 0 ∧ s.isWriting = false ∧ s.writeAccess.le cur' ↔
        w.runOp c (.cellReadEnd ci) =
          .ok ((w.setObj (w.cellObj ci)
            (.cell { s with isReading := s.isReading - 1,
                            readAccess := s.readAccess.join cur' })).complete .unit))) := by
  constructor
  · intro hs cur
    rw [runOp_cellReadBegin, hs]
    cases hw : s.isWriting
    · by_cases hle : s.writeAccess.le cur
      · simp [cellReadBeginCheck, hw, hle, cur, bind, Except.bind, pure, Except.pure]
      · simp [cellReadBeginCheck, hw, hle, cur, bind, Except.bind]
    · simp [cellReadBeginCheck, hw, bind, Except.bind]
  · intro hs cur'
    rw [runOp_cellReadEnd, hs]
    cases hw : s.isWriting
    · by_cases hr : s.isReading = 0
      · simp [cellReadEndCheck, hw, hr, bind, Except.bind]
      · by_cases hle : s.writeAccess.le cur'
        · simp [cellReadEndCheck, hw, hr, hle, cur', bind, Except.bind, pure, Except.pure]
        · simp [cellReadEndCheck, hw, hr, hle, cur', bind, Except.bind]
    · simp [cellReadEndCheck, hw, bind, Except.bind]

/-- Write sections, the decision logic of both ends, in every world.
BEGIN: `.cellBusy` iff any section is open; else "Concurrent write accesses" (kind 10) iff the write clock is not
`≤ cur`; else "Concurrent read and write accesses" (kind 11) iff the read clock is not `≤ cur`; no other failure;
otherwise it succeeds: the write section is open, `cur` joined into the write clock, the value written.
END: `internal 87` iff no write section is open or a read section is (an ill-formed program); else kind 10 / kind 11
as above against `cur'` (the thread's causality as it is); no other failure; otherwise it succeeds: the section
is closed, `cur'` joined into the write clock. -/
theorem Cell.section_write_panics_iff (w : World) (c : TCtl) (ci : Nat) (v : Int) (s : CellSt) :
    (w.sync.getCell (w.cellObj ci) = .ok s →
      let cur := w.sync.ths.caus
      (w.runOp c (.cellWriteBegin ci v) = .error .cellBusy ↔ s.isReading ≠ 0 ∨ s.isWriting = true) ∧
      (w.runOp c (.cellWriteBegin ci v) = .error (.causality 10) ↔
        s.isReading = 0 ∧ s.isWriting = false ∧ ¬ s.writeAccess.le cur) ∧
      (w.runOp c (.cellWriteBegin ci v) = .error (.causality 11) ↔
        s.isReading = 0 ∧ s.isWriting = false ∧ s.writeAccess.le cur ∧ ¬ s.readAccess.le cur) ∧
      (∀ e, w.runOp c (.cellWriteBegin ci v) = .error e →
        e = .cellBusy ∨ e = .causality 10 ∨ e = .causality 11) ∧
      (s.isReading = 0 ∧ s.isWriting = false ∧ s.writeAccess.le cur ∧ s.readAccess.le cur ↔
        w.runOp c (.cellWriteBegin ci v) =
          .ok ((w.sync.setObj (w.cellObj ci)
            (.cell { s with isWriting := true, writeAccess := s.writeAccess.join cur,
                            value := v })).complete .unit))) ∧
    (w.getCell (w.cellObj ci) = .ok s →
      let cur' := w.ths.caus
      (w.runOp c (.cellWriteEnd ci) = .error (.internal 87) ↔ s.isWriting = false ∨ s.isReading ≠ 0) ∧
      (w.runOp c (.cellWriteEnd ci) = .error (.causality 10) ↔
        s.isWriting = true ∧ s.isReading = 0 ∧ ¬ s.writeAccess.le cur') ∧
      (w.runOp c (.cellWriteEnd ci) = .error (.causality 11) ↔
        s.isWriting = true ∧ s.isReading = 0 ∧ s.writeAccess.le cur' ∧ ¬ s.readAccess.le cur') ∧
      (∀ e, w.runOp c (.cellWriteEnd ci) = .error e →
        e = .internal 87 ∨ e = .causality 10 ∨ e = .causality 11) ∧
      (s.isWriting = true ∧ s.isReading = 0 ∧ s.writeAccess.le cur' ∧ s.readAccess.le cur' ↔
        w.runOp c (.cellWriteEnd ci) =
          .ok ((w.setObj (w.cellObj ci)
            (.cell { s with isWriting := false,
                            writeAccess := s.writeAccess.join cur' })).complete .unit))) := by
  constructor
  · intro hs cur
    rw [runOp_cellWriteBegin, hs]
    cases hw : s.isWriting
    · by_cases hr : s.isReading = 0
      · by_cases hle : s.writeAccess.le cur
        · by_cases hle2 : s.readAccess.le cur
          · simp [cellWriteBeginCheck, hw, hr, hle, hle2, cur, bind, Except.bind, pure, Except.pure]
          · simp [cellWriteBeginCheck, hw, hr, hle, hle2, cur, bind, Except.bind]
        · simp [cellWriteBeginCheck, hw, hr, hle, cur, bind, Except.bind]
      · simp [cellWriteBeginCheck, hw, hr, bind, Except.bind]
    · simp [cellWriteBeginCheck, hw, bind, Except.bind]
  · intro hs cur'
    rw [runOp_cellWriteEnd, hs]
    cases hw : s.isWriting
    · simp [cellWriteEndCheck, hw, bind, Except.bind]
    · by_cases hr : s.isReading = 0
      · by_cases hle : s.writeAccess.le cur'
        · by_cases hle2 : s.readAccess.le cur'
          · simp [cellWriteEndCheck, hw, hr, hle, hle2, cur', bind, Except.bind, pure, Except.pure]
          · simp [cellWriteEndCheck, hw, hr, hle, hle2, cur', bind, Except.bind]
        · simp [cellWriteEndCheck, hw, hr, hle, cur', bind, Except.bind]
      · simp [cellWriteEndCheck, hw, hr, bind, Except.bind]

/-- The END of a read is recorded.  After a successful `.cellReadEnd` — in ANY world, however many other read
sections of the cell are still open — the cell's read clock dominates the ending thread's causality at that
point (`w.ths.caus`; the old read clock is kept below it too), nothing else of the cell changes but the reader
count.  Consequently a LATER write (`.cellWrite` or `.cellWriteBegin`, in any world `w2` in which the cell's read
clock has only grown) by a thread that did not synchronise with the END of the read — its causality does not
dominate `w.ths.caus` — does not succeed: it is a reported race (or `.cellBusy`); precisely "Concurrent read and
write accesses" (kind 11) when the cell is not being accessed and the write clock is ordered before it.
Synchronising with the BEGIN of the read only is not enough. -/
theorem Cell.read_end_recorded (w w' : World) (c : TCtl) (ci : Nat)
    (h : w.runOp c (.cellReadEnd ci) = .ok w') :
    ∃ s s', w.getCell (w.cellObj ci) = .ok s ∧ w'.getCell (w.cellObj ci) = .ok s' ∧
      w.ths.caus.le s'.readAccess ∧ s.readAccess.le s'.readAccess ∧
      s' = { s with isReading := s.isReading - 1, readAccess := s.readAccess.join w.ths.caus } ∧
      s.isReading ≠ 0 ∧
      (∀ (w2 : World) (c2 : TCtl) (v : Int) (s2 : CellSt),
        w2.sync.getCell (w2.cellObj ci) = .ok s2 → s'.readAccess.le s2.readAccess →
        ¬ w.ths.caus.le w2.sync.ths.caus →
        (∀ w3, w2.runOp c2 (.cellWrite ci v) ≠ .ok w3) ∧
        (∀ w3, w2.runOp c2 (.cellWriteBegin ci v) ≠ .ok w3) ∧
        ((s2.isReading != 0 || s2.isWriting) = false → s2.writeAccess.le w2.sync.ths.caus →
          w2.runOp c2 (.cellWrite ci v) = .error (.causality 11) ∧
          w2.runOp c2 (.cellWriteBegin ci v) = .error (.causality 11))) := by
  cases hs : w.getCell (w.cellObj ci) with
  | error e => rw [runOp_cellReadEnd, hs] at h; cases h
  | ok s =>
    rw [runOp_cellReadEnd, hs] at h
    simp only [bind, Except.bind] at h
    cases hc : cellReadEndCheck s w.ths.caus with
    | error e => rw [hc] at h; cases h
    | ok s' =>
      rw [hc] at h
      cases h
      have hcond : s.isReading ≠ 0 ∧ s.isWriting = false ∧ s.writeAccess.le w.ths.caus := by
        unfold cellReadEndCheck at hc
        split at hc
        · cases hc
        · split at hc
          · cases hc
          · rename_i h1 h2
            refine ⟨?_, ?_, Classical.not_not.1 h2⟩
            · intro e0; exact h1 (by simp [e0])
            · cases hw : s.isWriting
              · rfl
              · exact absurd (by simp [hw]) h1
      have hs' : s' =
          { s with isReading := s.isReading - 1, readAccess := s.readAccess.join w.ths.caus } := by
        have : cellReadEndCheck s w.ths.caus = .ok
            { s with isReading := s.isReading - 1, readAccess := s.readAccess.join w.ths.caus } := by
          unfold cellReadEndCheck
          have h1 : (s.isReading == 0 || s.isWriting) = false := by
            simp [hcond.1, hcond.2.1]
          simp [h1, hcond.2.2]
        rw [this] at hc
        cases hc; rfl
      have hdom : w.ths.caus.le s'.readAccess := by
        rw [hs']; exact le_join_right _ _
      refine ⟨s, s', rfl, getCell_setObj_complete _ hs, hdom, ?_, hs', hcond.1, ?_⟩
      · rw [hs']; exact le_join_left _ _
      · intro w2 c2 v s2 h2 hgrow hnot
        have hrd : ¬ s2.readAccess.le w2.sync.ths.caus := fun hle =>
          hnot (le_trans hdom (le_trans hgrow hle))
        have hW := Cell.write_panics_iff w2 c2 ci v s2 h2
        have hB := (Cell.section_write_panics_iff w2 c2 ci v s2).1 h2
        refine ⟨?_, ?_, ?_⟩
        · intro w3 h3
          cases hb : (s2.isReading != 0 || s2.isWriting)
          · by_cases hle : s2.writeAccess.le w2.sync.ths.caus
            · rw [((hW hb).2.1).2 ⟨hle, hrd⟩] at h3; cases h3
            · rw [((hW hb).1).2 hle] at h3; cases h3
          · rw [(Cell.busy w2 c2 ci v s2 h2).2 hb] at h3; cases h3
        · intro w3 h3
          cases hw : s2.isWriting
          · by_cases hr : s2.isReading = 0
            · by_cases hle : s2.writeAccess.le w2.sync.ths.caus
              · have := (hB.2.2.1).2 ⟨hr, hw, hle, hrd⟩
                rw [this] at h3; cases h3
              · have := (hB.2.1).2 ⟨hr, hw, hle⟩
                rw [this] at h3; cases h3
            · have := (hB.1).2 (.inl hr)
              rw [this] at h3; cases h3
          · have := (hB.1).2 (.inr hw)
            rw [this] at h3; cases h3
        · intro hb hle
          have hr0 : s2.isReading = 0 ∧ s2.isWriting = false := by
            cases hw : s2.isWriting
            · by_cases hr : s2.isReading = 0
              · exact ⟨hr, rfl⟩
              · simp [hr, hw] at hb
            · simp [hw] at hb
          exact ⟨((hW hb).2.1).2 ⟨hle, hrd⟩, (hB.2.2.1).2 ⟨hr0.1, hr0.2, hle, hrd⟩⟩

/-- Every cell operation only GROWS the two clocks of its cell (it joins the accessing thread's causality into
one of them): what an earlier access recorded is never forgotten by a later one. -/
theorem Cell.clocks_grow (w w' : World) (c : TCtl) (ci : Nat) (v : Int) (op : Op)
    (hop : op = .cellRead ci ∨ op = .cellWrite ci v ∨ op = .cellReadBegin ci ∨ op = .cellReadEnd ci ∨
      op = .cellWriteBegin ci v ∨ op = .cellWriteEnd ci)
    (h : w.runOp c op = .ok w') :
    ∃ s s', w.getCell (w.cellObj ci) = .ok s ∧ w'.getCell (w.cellObj ci) = .ok s' ∧
      s.readAccess.le s'.readAccess ∧ s.writeAccess.le s'.writeAccess := by
  have hsync : w.sync.getCell (w.cellObj ci) = w.getCell (w.cellObj ci) := rfl
  rcases hop with rfl | rfl | rfl | rfl | rfl | rfl
  · rw [runOp_cellRead, hsync] at h
    cases hs : w.getCell (w.cellObj ci) with
    | error e => rw [hs] at h; cases h
    | ok s =>
      rw [hs] at h
      simp only [bind, Except.bind] at h
      cases hc : cellReadCheck s w.sync.ths.caus with
      | error e => rw [hc] at h; cases h
      | ok s' =>
        rw [hc] at h; cases h
        unfold cellReadCheck at hc
        repeat' split at hc
        all_goals first
          | (cases hc; done)
          | (cases hc
             exact ⟨_, _, rfl, getCell_setObj_complete (w := w.sync) _ hs, le_join_left _ _, le_refl _⟩)
  · rw [runOp_cellWrite, hsync] at h
    cases hs : w.getCell (w.cellObj ci) with
    | error e => rw [hs] at h; cases h
    | ok s =>
      rw [hs] at h
      simp only [bind, Except.bind] at h
      cases hc : cellWriteCheck s w.sync.ths.caus v with
      | error e => rw [hc] at h; cases h
      | ok s' =>
        rw [hc] at h; cases h
        unfold cellWriteCheck at hc
        repeat' split at hc
        all_goals first
          | (cases hc; done)
          | (cases hc
             exact ⟨_, _, rfl, getCell_setObj_complete (w := w.sync) _ hs, le_refl _, le_join_left _ _⟩)
  · rw [runOp_cellReadBegin, hsync] at h
    cases hs : w.getCell (w.cellObj ci) with
    | error e => rw [hs] at h; cases h
    | ok s =>
      rw [hs] at h
      simp only [bind, Except.bind] at h
      cases hc : cellReadBeginCheck s w.sync.ths.caus with
      | error e => rw [hc] at h; cases h
      | ok s' =>
        rw [hc] at h; cases h
        unfold cellReadBeginCheck at hc
        repeat' split at hc
        all_goals first
          | (cases hc; done)
          | (cases hc
             exact ⟨_, _, rfl, getCell_setObj_complete (w := w.sync) _ hs, le_join_left _ _, le_refl _⟩)
  · rw [runOp_cellReadEnd] at h
    cases hs : w.getCell (w.cellObj ci) with
    | error e => rw [hs] at h; cases h
    | ok s =>
      rw [hs] at h
      simp only [bind, Except.bind] at h
      cases hc : cellReadEndCheck s w.ths.caus with
      | error e => rw [hc] at h; cases h
      | ok s' =>
        rw [hc] at h; cases h
        unfold cellReadEndCheck at hc
        repeat' split at hc
        all_goals first
          | (cases hc; done)
          | (cases hc
             exact ⟨_, _, rfl, getCell_setObj_complete _ hs, le_join_left _ _, le_refl _⟩)
  · rw [runOp_cellWriteBegin, hsync] at h
    cases hs : w.getCell (w.cellObj ci) with
    | error e => rw [hs] at h; cases h
    | ok s =>
      rw [hs] at h
      simp only [bind, Except.bind] at h
      cases hc : cellWriteBeginCheck s w.sync.ths.caus v with
      | error e => rw [hc] at h; cases h
      | ok s' =>
        rw [hc] at h; cases h
        unfold cellWriteBeginCheck at hc
        repeat' split at hc
        all_goals first
          | (cases hc; done)
          | (cases hc
             exact ⟨_, _, rfl, getCell_setObj_complete (w := w.sync) _ hs, le_refl _, le_join_left _ _⟩)
  · rw [runOp_cellWriteEnd] at h
    cases hs : w.getCell (w.cellObj ci) with
    | error e => rw [hs] at h; cases h
    | ok s =>
      rw [hs] at h
      simp only [bind, Except.bind] at h
      cases hc : cellWriteEndCheck s w.ths.caus with
      | error e => rw [hc] at h; cases h
      | ok s' =>
        rw [hc] at h; cases h
        unfold cellWriteEndCheck at hc
        repeat' split at hc
        all_goals first
          | (cases hc; done)
          | (cases hc
             exact ⟨_, _, rfl, getCell_setObj_complete _ hs, le_refl _, le_join_left _ _⟩)

/-! ## 2. atomics: `track_load`, `track_unsync_load`, `track_store`, `track_unsync_mut` -/

/-- Outside `with_mut` (`is_mutating = false`) each `track_*` consults its clocks in the listed
order and panics with the kind of the FIRST clock that is not `≤` the current causality; if all
are `≤` it succeeds and joins the current causality into its own clock.
load consults `unsync_mut_at`; unsync_load: `unsync_mut_at`, `stored_at`;
store: `unsync_mut_at`, `unsync_loaded_at`;
unsync_mut: `loaded_at`, `unsync_loaded_at`, `stored_at`, `unsync_mut_at`. -/
theorem Atomic.track_panics_iff (a : Atomic) (ths : Threads) (hm : a.isMutating = false) :
    let c := ths.caus
    a.trackLoad ths =
      (if ¬ a.unsyncMutAt.le c then .error (.causality 0)
       else .ok { a with loadedAt := a.loadedAt.join c }) ∧
    a.trackUnsyncLoad ths =
      (if ¬ a.unsyncMutAt.le c then .error (.causality 1)
       else if ¬ a.storedAt.le c then .error (.causality 2)
       else .ok { a with unsyncLoadedAt := a.unsyncLoadedAt.join c }) ∧
    a.trackStore ths =
      (if ¬ a.unsyncMutAt.le c then .error (.causality 3)
       else if ¬ a.unsyncLoadedAt.le c then .error (.causality 4)
       else .ok { a with storedAt := a.storedAt.join c }) ∧
    a.trackUnsyncMut ths =
      (if ¬ a.loadedAt.le c then .error (.causality 5)
       else if ¬ a.unsyncLoadedAt.le c then .error (.causality 6)
       else if ¬ a.storedAt.le c then .error (.causality 7)
       else if ¬ a.unsyncMutAt.le c then .error (.causality 8)
       else .ok { a with unsyncMutAt := a.unsyncMutAt.join c }) :=
  ⟨trackLoad_eq a ths hm, trackUnsyncLoad_eq a ths hm, trackStore_eq a ths hm,
    trackUnsyncMut_eq a ths hm⟩

/-- The same, read as "passes iff every consulted clock happens-before the access". -/
theorem Atomic.track_ok_iff (a : Atomic) (ths : Threads) (hm : a.isMutating = false) :
    let c := ths.caus
    ((∃ a', a.trackLoad ths = .ok a') ↔ a.unsyncMutAt.le c) ∧
    ((∃ a', a.trackUnsyncLoad ths = .ok a') ↔ a.unsyncMutAt.le c ∧ a.storedAt.le c) ∧
    ((∃ a', a.trackStore ths = .ok a') ↔ a.unsyncMutAt.le c ∧ a.unsyncLoadedAt.le c) ∧
    ((∃ a', a.trackUnsyncMut ths = .ok a') ↔
      a.loadedAt.le c ∧ a.unsyncLoadedAt.le c ∧ a.storedAt.le c ∧ a.unsyncMutAt.le c) := by
  intro c
  rw [trackLoad_eq a ths hm, trackUnsyncLoad_eq a ths hm, trackStore_eq a ths hm,
    trackUnsyncMut_eq a ths hm]
  refine ⟨?_, ?_, ?_, ?_⟩
  · by_cases h1 : a.unsyncMutAt.le ths.caus <;> simp [c, h1]
  · by_cases h1 : a.unsyncMutAt.le ths.caus <;> by_cases h2 : a.storedAt.le ths.caus <;>
      simp [c, h1, h2]
  · by_cases h1 : a.unsyncMutAt.le ths.caus <;> by_cases h2 : a.unsyncLoadedAt.le ths.caus <;>
      simp [c, h1, h2]
  · by_cases h1 : a.loadedAt.le ths.caus <;> by_cases h2 : a.unsyncLoadedAt.le ths.caus <;>
      by_cases h3 : a.storedAt.le ths.caus <;> by_cases h4 : a.unsyncMutAt.le ths.caus <;>
      simp [c, h1, h2, h3, h4]

/-- Inside `with_mut` every tracked access trips `assert!(!self.is_mutating)`. -/
theorem Atomic.track_mutating (a : Atomic) (ths : Threads) (hm : a.isMutating = true) :
    a.trackLoad ths = .error .atomicMutating ∧ a.trackUnsyncLoad ths = .error .atomicMutating ∧
    a.trackStore ths = .error .atomicMutating ∧ a.trackUnsyncMut ths = .error .atomicMutating :=
  Clocks.track_mutating a ths hm

/-! ## 3. the recorded clocks stand for all earlier accesses -/

/-- Each recorded clock is a running join (`z` joined with the causalities `l` of the accesses
of that kind so far).  Pure lattice fact: "recorded `≤` current" holds iff every single earlier
access's clock is `≤` current — so one comparison against the join checks them all, exactly. -/
theorem Race.clock_sound (l : List VV) (z c : VV) :
    (l.foldl VV.join z).le c ↔ z.le c ∧ ∀ x ∈ l, x.le c :=
  foldl_join_le_iff l z c

/-- Hence the check fires iff SOME earlier access is not ordered before the current one. -/
theorem Race.clock_fires_iff (l : List VV) (z c : VV) :
    (c.ahead (l.foldl VV.join z)).isSome = true ↔ ¬ z.le c ∨ ∃ x ∈ l, ¬ x.le c := by
  rw [ahead_isSome_iff, foldl_join_le_iff]
  constructor
  · intro h
    by_cases hz : z.le c
    · right
      apply Classical.byContradiction
      intro hn
      exact h ⟨hz, fun x hx => Classical.byContradiction fun hx' => hn ⟨x, hx, hx'⟩⟩
    · exact Or.inl hz
  · rintro (h | ⟨x, hx, hx'⟩) ⟨hz, hall⟩
    · exact h hz
    · exact hx' (hall x hx)

/-! ## 4. non-vacuity -/

/-- a `with_mut` recorded by thread 1 at its version 1 … -/
private def racy : Atomic := { unsyncMutAt := VV.ofList [0, 1, 0, 0, 0] }
/-- … against thread 0 that never synchronised with thread 1, and one that did -/
private def unsynced : Threads := { threads := [{ causality := VV.ofList [3, 0, 0, 0, 0] }, {}] }
private def synced : Threads := { threads := [{ causality := VV.ofList [3, 1, 0, 0, 0] }, {}] }

example : racy.trackLoad unsynced = .error (.causality 0) := by decide +kernel
example : racy.trackStore unsynced = .error (.causality 3) := by decide +kernel
example : racy.trackUnsyncMut unsynced = .error (.causality 8) := by decide +kernel
example : (racy.trackLoad synced).toBool = true := by decide +kernel
example : (racy.trackUnsyncMut synced).toBool = true := by decide +kernel
example : (VV.ofList [3, 0, 0, 0, 0]).ahead (VV.ofList [0, 1, 0, 0, 0]) = some 1 := by
  decide +kernel
example : cellReadCheck { writeAccess := VV.ofList [0, 1, 0, 0, 0] } (VV.ofList [3, 0, 0, 0, 0])
    = .error (.causality 9) := by decide +kernel
example : cellWriteCheck { readAccess := VV.ofList [0, 1, 0, 0, 0] } (VV.ofList [3, 0, 0, 0, 0]) 7
    = .error (.causality 11) := by decide +kernel
example : (cellWriteCheck { readAccess := VV.ofList [0, 1, 0, 0, 0] }
    (VV.ofList [3, 1, 0, 0, 0]) 7).toBool = true := by decide +kernel

/-- a read section closed by thread 1 at its version 2 is recorded: a writer that saw only its version 1 (the
BEGIN) is reported, one that saw version 2 passes -/
example : cellReadEndCheck { isReading := 1, readAccess := VV.ofList [0, 1, 0, 0, 0] }
    (VV.ofList [0, 2, 0, 0, 0]) =
    .ok { isReading := 0, readAccess := VV.ofList [0, 2, 0, 0, 0] } := by decide +kernel
example : cellWriteBeginCheck { readAccess := VV.ofList [0, 2, 0, 0, 0] } (VV.ofList [3, 1, 0, 0, 0]) 7
    = .error (.causality 11) := by decide +kernel
example : (cellWriteBeginCheck { readAccess := VV.ofList [0, 2, 0, 0, 0] }
    (VV.ofList [3, 2, 0, 0, 0]) 7).toBool = true := by decide +kernel
example : cellWriteBeginCheck { isReading := 1 } (VV.ofList [3, 2, 0, 0, 0]) 7 = .error .cellBusy := by
  decide +kernel
example : cellReadEndCheck {} (VV.ofList [3, 2, 0, 0, 0]) = .error (.internal 86) := by decide +kernel
example : cellWriteEndCheck {} (VV.ofList [3, 2, 0, 0, 0]) = .error (.internal 87) := by decide +kernel

end LoomVerif

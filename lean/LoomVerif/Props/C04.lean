/-
C04 — "Data races on unsynchronised memory are reported exactly."

Headline theorems only: the local decision logic of the race detector, valid in every state.
`VV.le x c` reads "the access recorded in `x` happens-before the access made with causality `c`".
The model is `Model/{VV,Atomic,Objs,Interp}.lean`; the proofs are in `Proofs/Clocks{VV,Race}.lean`.
Causality kinds (`Panic.causality k`): 0 load/mut, 1 unsync_load/mut, 2 unsync_load/store,
3 store/mut, 4 store/unsync_load, 5 mut/load, 6 mut/unsync_load, 7 mut/store, 8 mut/mut,
9 cell read/write, 10 cell write/write, 11 cell write/read.
-/
import LoomVerif.Proofs.ClocksRace

namespace LoomVerif
open Clocks

/-! ## 0. the check `current.ahead(&x)` is the happens-before test -/

/-- `current.ahead(&x)` finds nothing iff `x ≤ current`. -/
theorem VV.ahead_none_iff_le (current x : VV) : current.ahead x = none ↔ x.le current :=
  ahead_eq_none_iff current x

/-- When it finds something, it is the first thread slot in which `x` is strictly ahead. -/
theorem VV.ahead_some_first (current x : VV) (i : Nat) (h : current.ahead x = some i) :
    i < 5 ∧ current.get i < x.get i ∧ ∀ j, j < i → x.get j ≤ current.get j :=
  ahead_eq_some h

/-- The clock a cell access is checked with is the thread's causality after the
`rt::synchronize` increment of its own slot, which is strictly above the old causality. -/
theorem World.sync_caus (w : World) (h : w.ths.activeId < w.ths.threads.length) :
    w.sync.ths.caus = w.ths.caus.inc w.ths.activeId ∧
    (w.ths.activeId < 5 → w.ths.caus.blt w.sync.ths.caus = true) := by
  have e : w.sync.ths.caus = w.ths.caus.inc w.ths.activeId := caus_activeCausalityInc h
  exact ⟨e, fun h5 => e ▸ blt_inc _ _ h5⟩

/-! ## 1. `UnsafeCell` -/

/-- `UnsafeCell::with` (`.cellRead`), cell not inside a `with_mut`: with `cur` the reader's
causality, the step panics with "Concurrent read and write accesses" (kind 9) iff the recorded
write clock is not `≤ cur`; that is its only failure; otherwise it succeeds, joining `cur` into
the read clock and returning the cell's value. -/
theorem Cell.read_panics_iff (w : World) (c : TCtl) (ci : Nat) (s : CellSt)
    (hs : w.sync.getCell (w.cellObj ci) = .ok s) (hbusy : s.isWriting = false) :
    let cur := w.sync.ths.caus
    (w.runOp c (.cellRead ci) = .error (.causality 9) ↔ ¬ s.writeAccess.le cur) ∧
    (∀ e, w.runOp c (.cellRead ci) = .error e → e = .causality 9) ∧
    (s.writeAccess.le cur ↔
      w.runOp c (.cellRead ci) =
        .ok ((w.sync.setObj (w.cellObj ci)
          (.cell { s with readAccess := s.readAccess.join cur })).complete (.val s.value))) := by
  intro cur
  rw [runOp_cellRead, hs]
  by_cases hle : s.writeAccess.le cur
  · simp [cellReadCheck, hbusy, hle, cur, bind, Except.bind, pure, Except.pure]
  · simp [cellReadCheck, hbusy, hle, cur, bind, Except.bind]

/-- `UnsafeCell::with_mut` (`.cellWrite`), cell not being accessed: the step panics with
"Concurrent write accesses" (kind 10) iff the write clock is not `≤ cur`; else with "Concurrent
read and write accesses" (kind 11) iff the read clock is not `≤ cur`; these are its only
failures; otherwise it succeeds, joining `cur` into the write clock. -/
theorem Cell.write_panics_iff (w : World) (c : TCtl) (ci : Nat) (v : Int) (s : CellSt)
    (hs : w.sync.getCell (w.cellObj ci) = .ok s)
    (hbusy : (s.isReading != 0 || s.isWriting) = false) :
    let cur := w.sync.ths.caus
    (w.runOp c (.cellWrite ci v) = .error (.causality 10) ↔ ¬ s.writeAccess.le cur) ∧
    (w.runOp c (.cellWrite ci v) = .error (.causality 11) ↔
      s.writeAccess.le cur ∧ ¬ s.readAccess.le cur) ∧
    (∀ e, w.runOp c (.cellWrite ci v) = .error e → e = .causality 10 ∨ e = .causality 11) ∧
    (s.writeAccess.le cur ∧ s.readAccess.le cur ↔
      w.runOp c (.cellWrite ci v) =
        .ok ((w.sync.setObj (w.cellObj ci)
          (.cell { s with writeAccess := s.writeAccess.join cur, value := v })).complete .unit)) := by
  intro cur
  rw [runOp_cellWrite, hs]
  by_cases hle : s.writeAccess.le cur
  · by_cases hle2 : s.readAccess.le cur
    · simp [cellWriteCheck, hbusy, hle, hle2, cur, bind, Except.bind, pure, Except.pure]
    · simp [cellWriteCheck, hbusy, hle, hle2, cur, bind, Except.bind]
  · simp [cellWriteCheck, hbusy, hle, cur, bind, Except.bind]

/-- The `assert!`s on `is_reading` / `is_writing` come first. -/
theorem Cell.busy (w : World) (c : TCtl) (ci : Nat) (v : Int) (s : CellSt)
    (hs : w.sync.getCell (w.cellObj ci) = .ok s) :
    (s.isWriting = true → w.runOp c (.cellRead ci) = .error .cellBusy) ∧
    ((s.isReading != 0 || s.isWriting) = true →
      w.runOp c (.cellWrite ci v) = .error .cellBusy) := by
  rw [runOp_cellRead, runOp_cellWrite, hs]
  constructor
  · intro h; simp [cellReadCheck, h, bind, Except.bind]
  · intro h; simp [cellWriteCheck, h, bind, Except.bind]

/-! ## 2. atomics: `track_load`, `track_unsync_load`, `track_store`, `track_unsync_mut` -/

/-- Outside `with_mut` (`is_mutating = false`) each `track_*` consults its clocks in the listed
order and panics with the kind of the FIRST clock that is not `≤` the current causality; if all
are `≤` it succeeds and joins the current causality into its own clock.
load consults `unsync_mut_at`; unsync_load: `unsync_mut_at`, `stored_at`;
store: `unsync_mut_at`, `unsync_loaded_at`;
unsync_mut: `loaded_at`, `unsync_loaded_at`, `stored_at`, `unsync_mut_at`. -/
theorem Atomic.track_panics_iff (a : Atomic) (ths : Threads) (hm : a.isMutating = false) :
    let c := ths.caus
    a.trackLoad ths =
      (if ¬ a.unsyncMutAt.le c then .error (.causality 0)
       else .ok { a with loadedAt := a.loadedAt.join c }) ∧
    a.trackUnsyncLoad ths =
      (if ¬ a.unsyncMutAt.le c then .error (.causality 1)
       else if ¬ a.storedAt.le c then .error (.causality 2)
       else .ok { a with unsyncLoadedAt := a.unsyncLoadedAt.join c }) ∧
    a.trackStore ths =
      (if ¬ a.unsyncMutAt.le c then .error (.causality 3)
       else if ¬ a.unsyncLoadedAt.le c then .error (.causality 4)
       else .ok { a with storedAt := a.storedAt.join c }) ∧
    a.trackUnsyncMut ths =
      (if ¬ a.loadedAt.le c then .error (.causality 5)
       else if ¬ a.unsyncLoadedAt.le c then .error (.causality 6)
       else if ¬ a.storedAt.le c then .error (.causality 7)
       else if ¬ a.unsyncMutAt.le c then .error (.causality 8)
       else .ok { a with unsyncMutAt := a.unsyncMutAt.join c }) :=
  ⟨trackLoad_eq a ths hm, trackUnsyncLoad_eq a ths hm, trackStore_eq a ths hm,
    trackUnsyncMut_eq a ths hm⟩

/-- The same, read as "passes iff every consulted clock happens-before the access". -/
theorem Atomic.track_ok_iff (a : Atomic) (ths : Threads) (hm : a.isMutating = false) :
    let c := ths.caus
    ((∃ a', a.trackLoad ths = .ok a') ↔ a.unsyncMutAt.le c) ∧
    ((∃ a', a.trackUnsyncLoad ths = .ok a') ↔ a.unsyncMutAt.le c ∧ a.storedAt.le c) ∧
    ((∃ a', a.trackStore ths = .ok a') ↔ a.unsyncMutAt.le c ∧ a.unsyncLoadedAt.le c) ∧
    ((∃ a', a.trackUnsyncMut ths = .ok a') ↔
      a.loadedAt.le c ∧ a.unsyncLoadedAt.le c ∧ a.storedAt.le c ∧ a.unsyncMutAt.le c) := by
  intro c
  rw [trackLoad_eq a ths hm, trackUnsyncLoad_eq a ths hm, trackStore_eq a ths hm,
    trackUnsyncMut_eq a ths hm]
  refine ⟨?_, ?_, ?_, ?_⟩
  · by_cases h1 : a.unsyncMutAt.le ths.caus <;> simp [c, h1]
  · by_cases h1 : a.unsyncMutAt.le ths.caus <;> by_cases h2 : a.storedAt.le ths.caus <;>
      simp [c, h1, h2]
  · by_cases h1 : a.unsyncMutAt.le ths.caus <;> by_cases h2 : a.unsyncLoadedAt.le ths.caus <;>
      simp [c, h1, h2]
  · by_cases h1 : a.loadedAt.le ths.caus <;> by_cases h2 : a.unsyncLoadedAt.le ths.caus <;>
      by_cases h3 : a.storedAt.le ths.caus <;> by_cases h4 : a.unsyncMutAt.le ths.caus <;>
      simp [c, h1, h2, h3, h4]

/-- Inside `with_mut` every tracked access trips `assert!(!self.is_mutating)`. -/
theorem Atomic.track_mutating (a : Atomic) (ths : Threads) (hm : a.isMutating = true) :
    a.trackLoad ths = .error .atomicMutating ∧ a.trackUnsyncLoad ths = .error .atomicMutating ∧
    a.trackStore ths = .error .atomicMutating ∧ a.trackUnsyncMut ths = .error .atomicMutating :=
  Clocks.track_mutating a ths hm

/-! ## 3. the recorded clocks stand for all earlier accesses -/

/-- Each recorded clock is a running join (`z` joined with the causalities `l` of the accesses
of that kind so far).  Pure lattice fact: "recorded `≤` current" holds iff every single earlier
access's clock is `≤` current — so one comparison against the join checks them all, exactly. -/
theorem Race.clock_sound (l : List VV) (z c : VV) :
    (l.foldl VV.join z).le c ↔ z.le c ∧ ∀ x ∈ l, x.le c :=
  foldl_join_le_iff l z c

/-- Hence the check fires iff SOME earlier access is not ordered before the current one. -/
theorem Race.clock_fires_iff (l : List VV) (z c : VV) :
    (c.ahead (l.foldl VV.join z)).isSome = true ↔ ¬ z.le c ∨ ∃ x ∈ l, ¬ x.le c := by
  rw [ahead_isSome_iff, foldl_join_le_iff]
  constructor
  · intro h
    by_cases hz : z.le c
    · right
      apply Classical.byContradiction
      intro hn
      exact h ⟨hz, fun x hx => Classical.byContradiction fun hx' => hn ⟨x, hx, hx'⟩⟩
    · exact Or.inl hz
  · rintro (h | ⟨x, hx, hx'⟩) ⟨hz, hall⟩
    · exact h hz
    · exact hx' (hall x hx)

/-! ## 4. non-vacuity -/

/-- a `with_mut` recorded by thread 1 at its version 1 … -/
private def racy : Atomic := { unsyncMutAt := VV.ofList [0, 1, 0, 0, 0] }
/-- … against thread 0 that never synchronised with thread 1, and one that did -/
private def unsynced : Threads := { threads := [{ causality := VV.ofList [3, 0, 0, 0, 0] }, {}] }
private def synced : Threads := { threads := [{ causality := VV.ofList [3, 1, 0, 0, 0] }, {}] }

example : racy.trackLoad unsynced = .error (.causality 0) := by decide +kernel
example : racy.trackStore unsynced = .error (.causality 3) := by decide +kernel
example : racy.trackUnsyncMut unsynced = .error (.causality 8) := by decide +kernel
example : (racy.trackLoad synced).toBool = true := by decide +kernel
example : (racy.trackUnsyncMut synced).toBool = true := by decide +kernel
example : (VV.ofList [3, 0, 0, 0, 0]).ahead (VV.ofList [0, 1, 0, 0, 0]) = some 1 := by
  decide +kernel
example : cellReadCheck { writeAccess := VV.ofList [0, 1, 0, 0, 0] } (VV.ofList [3, 0, 0, 0, 0])
    = .error (.causality 9) := by decide +kernel
example : cellWriteCheck { readAccess := VV.ofList [0, 1, 0, 0, 0] } (VV.ofList [3, 0, 0, 0, 0]) 7
    = .error (.causality 11) := by decide +kernel
example : (cellWriteCheck { readAccess := VV.ofList [0, 1, 0, 0, 0] }
    (VV.ofList [3, 1, 0, 0, 0]) 7).toBool = true := by decide +kernel

end LoomVerif

/-
C09 — "mpsc channels deliver every message once, in order, with ordering.  Every message sent on a
loom mpsc channel is received exactly once or is reported as leaked, messages of all senders are
received in the order the sends took effect, recv blocks while the channel is empty, try_recv
returns a message exactly when one is queued, and a send happens-before the receive that obtains
it (and before later receives)."

Headline theorems only.  The model is `Model/Objs.lean` (`ChanSt`) and `Model/Interp.lean`
(`World.sendEffect`, `World.recvEffect`, `runOp` cases `.send .recv .tryRecv`); the reference
semantics is `Spec/SC.lean`; the proofs are in `Proofs/C09Chan.lean`, `Proofs/C09Run.lean`,
`Proofs/C09SC.lean`.

Scope.  Everything here is about ONE channel object.  A *history* of the channel (`Chan.Run`) is
any sequence of `sendEffect`s and successful `recvEffect`s on it, each executed in an ARBITRARY
world (any thread table, any other objects, any path) — in particular in whatever worlds the
interleaving of a real execution produces — interleaved with the scheduler's `set_last_access`
bookkeeping.  That the interpreter touches the counting fields of a channel object by nothing but
these effects is by inspection of `runOp` (only `.send .recv .tryRecv .dropRx` name a channel
object; `Objs.setLastAccess` changes `lastSend`/`lastRecv` only) and is not proved here.
-/
import LoomVerif.Proofs.C09SC

namespace LoomVerif
open C09 WB

/-! ## 1. counting -/

/-- The counting invariant, spelled out: `msg_cnt` is the length of the wrapped std queue and of
`receiver_synchronize`. -/
theorem Chan.ChanInv_spelled_out (s : ChanSt) :
    ChanInv s ↔ s.msgCnt = s.queue.length ∧ s.msgCnt = s.receiverSync.length := Iff.rfl

/-- **C09.1.**  The invariant holds for a fresh channel; `sendEffect` cannot fail on a channel
object, preserves it and increments `msg_cnt`; a successful `recvEffect` preserves it and
decrements `msg_cnt` (which was positive) — in every world. -/
theorem Chan.counts :
    ChanInv {} ∧
    (∀ (w : World) (o : Nat) (v : Int) (s : ChanSt), w.getChan o = .ok s →
      ∃ w' s', w.sendEffect o v = .ok w' ∧ w'.getChan o = .ok s' ∧
        s'.msgCnt = s.msgCnt + 1 ∧ (ChanInv s → ChanInv s')) ∧
    (∀ (w w' : World) (o : Nat) (v : Int) (s : ChanSt), w.getChan o = .ok s →
      w.recvEffect o = .ok (w', v) →
      ∃ s', w'.getChan o = .ok s' ∧ s'.msgCnt + 1 = s.msgCnt ∧ (ChanInv s → ChanInv s')) := by
  refine ⟨ChanInv.fresh, ?_, ?_⟩
  · intro w o v s hg
    exact ⟨_, _, sendEffect_eq w o v s hg, sendEffect_chan hg (sendEffect_eq w o v s hg), rfl,
      fun hi => hi.send _ _ _⟩
  · intro w w' o v s hg hr
    obtain ⟨sy, f⟩ := recvEffect_inv hg hr
    refine ⟨_, f.chan, ?_, fun hi => hi.recv⟩
    have := f.nonempty
    simp only [chanRecv]; omega

/-! ## 2. FIFO -/

/-- Histories of one channel.  `ok` is a side condition on the worlds in which the effects are
executed (`fun _ => True` for the FIFO theorem; "the active thread exists" for the clock theorem).
The log records, in order, every send (value, sender's causality at the send, clock stored with
the message) and every successful receive (value, receiver's causality afterwards). -/
inductive Chan.Run (ok : World → Prop) : ChanSt → ChanLog → Prop
  | fresh : Chan.Run ok {} {}
  | send {s : ChanSt} {log : ChanLog} (w w' : World) (o : Nat) (v : Int) (s' : ChanSt) :
      Chan.Run ok s log → ok w → w.getChan o = .ok s → w.sendEffect o v = .ok w' →
      w'.getChan o = .ok s' →
      Chan.Run ok s' (log.send v w.ths.caus s'.senderSync.hb)
  | recv {s : ChanSt} {log : ChanLog} (w w' : World) (o : Nat) (v : Int) (s' : ChanSt) :
      Chan.Run ok s log → ok w → w.getChan o = .ok s → w.recvEffect o = .ok (w', v) →
      w'.getChan o = .ok s' →
      Chan.Run ok s' (log.recv v w'.ths.caus)
  | access {s : ChanSt} {log : ChanLog} (act : Action) (pid : Nat) (vv : VV) :
      Chan.Run ok s log → Chan.Run ok (s.setLastAccess act pid vv) log

theorem Chan.Run.inv {ok : World → Prop} {s : ChanSt} {log : ChanLog} (h : Chan.Run ok s log) :
    FifoInv s log ∧ ClockInv s log := by
  induction h with
  | fresh => exact ⟨FifoInv.fresh, ClockInv.fresh⟩
  | send w w' o v s' _ _ hg hs hg' ih =>
    have := (sendEffect_chan hg hs).symm.trans hg'
    cases this
    exact ⟨ih.1.send _ _ _ _, ih.2.send _ _ _⟩
  | recv w w' o v s' _ _ hg hr hg' ih =>
    obtain ⟨sy, f⟩ := recvEffect_inv hg hr
    have := f.chan.symm.trans hg'
    cases this
    exact ⟨ih.1.recv v _ f.queue, ih.2.recv v _ sy f.sync⟩
  | access act pid vv _ ih => exact ⟨ih.1.access act pid vv, ih.2.access act pid vv⟩

/-- **C09.2.**  In every history: the values received so far followed by the queue content are
exactly the values sent so far, in order — so the received values are a prefix of the sent values,
the k-th successful receive returned the k-th value sent (whoever sent it), every message is
received at most once, and what has not been received is still queued;
`msg_cnt = |queue| = sends − receives`. -/
theorem Chan.fifo {ok : World → Prop} {s : ChanSt} {log : ChanLog} (h : Chan.Run ok s log) :
    log.sent.map (·.1) = log.recvd.map (·.1) ++ s.queue ∧
    (∀ (k : Nat) (v : Int) (c : VV), log.recvd[k]? = some (v, c) →
      ∃ c', log.sent[k]? = some (v, c')) ∧
    s.msgCnt = s.queue.length ∧
    s.msgCnt + log.recvd.length = log.sent.length := by
  obtain ⟨hf, _⟩ := h.inv
  refine ⟨hf.2, fun k v c hk => hf.kth k v c hk, hf.1.1, ?_⟩
  have := congrArg List.length hf.2
  simp only [List.length_map, List.length_append] at this
  rw [hf.1.1]; omega

/-- One step: a successful `recvEffect` returns the head of the queue and leaves the tail;
`sendEffect` appends at the end. -/
theorem Chan.fifo_step :
    (∀ (w w' : World) (o : Nat) (v : Int) (s s' : ChanSt), w.getChan o = .ok s →
      w.sendEffect o v = .ok w' → w'.getChan o = .ok s' → s'.queue = s.queue ++ [v]) ∧
    (∀ (w w' : World) (o : Nat) (v : Int) (s s' : ChanSt), w.getChan o = .ok s →
      w.recvEffect o = .ok (w', v) → w'.getChan o = .ok s' → s.queue = v :: s'.queue) := by
  constructor
  · intro w w' o v s s' hg hs hg'
    have := (sendEffect_chan hg hs).symm.trans hg'
    cases this; rfl
  · intro w w' o v s s' hg hr hg'
    obtain ⟨sy, f⟩ := recvEffect_inv hg hr
    have := f.chan.symm.trans hg'
    cases this; exact f.queue

/-- `recvEffect` panics with "expected to be able to read the message" iff the channel is empty;
under the counting invariant a non-empty channel always delivers. -/
theorem Chan.recv_underflow_iff (w : World) (o : Nat) (s : ChanSt) (h : w.getChan o = .ok s) :
    (w.recvEffect o = .error .msgUnderflow ↔ s.msgCnt = 0) ∧
    (ChanInv s → s.msgCnt ≠ 0 → ∃ w' v, w.recvEffect o = .ok (w', v)) := by
  refine ⟨recvEffect_underflow_iff w o s h, fun hi h0 => ?_⟩
  obtain ⟨_, _, v, _, _, _, hr⟩ := recvEffect_ok w o s h hi h0
  exact ⟨_, v, hr⟩

/-! ## 3. blocking and waking -/

/-- `C09.branchThreads`, the thread table `branch` hands to `Execution::schedule`, spelled out:
the active thread gets the operation (with its `blocking` flag `wait`: the operation waits for the object, as
`recv` does, or is an attempt) and, if `block`, the state `Blocked`; no other thread changes; `branch` is
`schedule` on that table. -/
theorem Chan.branch_spelled_out (w : World) (obj : Nat) (act : Action) (block wait : Bool) :
    w.branch obj act block wait =
      (({ w.exec with threads := branchThreads w obj act block wait }).schedule w.panicking >>=
        fun r => pure { w with exec := r.1 }) ∧
    (ActiveOk w.ths →
      (branchThreads w obj act block wait).activeT.operation = some ⟨obj, act, wait⟩ ∧
      (branchThreads w obj act block wait).activeT.state =
        if block then .blocked else w.ths.activeT.state) ∧
    (∀ i, i ≠ w.ths.activeId → (branchThreads w obj act block wait).get i = w.ths.get i) :=
  ⟨branch_eq w obj act block wait, branchThreads_active w obj act block wait,
    branchThreads_other w obj act block wait⟩

/-- **C09.3.**  Stage 0 of `recv` is `branch_disable(MsgRecv, is_empty)`: the receiver enters the
scheduler `Blocked` iff `msg_cnt = 0` at that instant (and otherwise in the state it had). -/
theorem Chan.recv_blocks_iff_empty (w : World) (c : TCtl) (qi : Nat) (s : ChanSt)
    (hc : c.stage = 0) (h : w.getChan (w.chanObj qi) = .ok s) :
    w.runOp c (.recv qi) =
      (w.setStage 1).branch (w.chanObj qi) .chanRecv (block := s.msgCnt == 0) (wait := true) ∧
    (ActiveOk w.ths →
      (branchThreads (w.setStage 1) (w.chanObj qi) .chanRecv (s.msgCnt == 0) true).activeT.state =
        if s.msgCnt = 0 then .blocked else w.ths.activeT.state) := by
  refine ⟨runOp_recv_stage0 w c qi s hc h, fun hact => ?_⟩
  have := (branchThreads_active (w.setStage 1) (w.chanObj qi) .chanRecv (s.msgCnt == 0) true hact).2
  rw [this]
  by_cases h0 : s.msgCnt = 0 <;> simp [h0]

/-- **C09.3 (wake).**  After a send, thread `i`'s entry is: woken (`Thread.wake`: `Runnable` if it was
`Blocked`, untouched otherwise) if the channel was empty, `i` is not the sender and `i`'s pending operation
is on this channel object; unchanged otherwise.
(So a send into a non-empty channel changes no thread; the sender itself is never changed.) -/
theorem Chan.send_wakes {w w' : World} {o : Nat} {v : Int} {s : ChanSt}
    (h : w.getChan o = .ok s) (hs : w.sendEffect o v = .ok w') (i : Nat) :
    w'.ths.get i =
      if s.msgCnt = 0 ∧ i ≠ w.tid ∧ (∃ op, (w.ths.get i).operation = some op ∧ op.obj = o) then
        (w.ths.get i).wake
      else w.ths.get i :=
  sendEffect_threads h hs i

/-- A consequence worth spelling out (since the repair of finding F18 the wake-up is `Thread.wake`, which
touches blocked threads only, and since the repair of findings F5/F6 the unpark token is a field of its own,
`Thread.token`): a thread that is not `Blocked` is left alone by a send, whatever its pending operation; and
NO thread's unpark token is changed by a send — neither of a thread that is left alone nor of a blocked
receiver that is woken (it may have been unparked while blocked in `recv`): its next `park` still returns at
once.  (Before the repairs `Thread::set_runnable` overwrote the whole state and the token was lost: the old
theorem `Chan.send_wake_clears_unpark_token`.) -/
theorem Chan.send_wake_keeps_unpark_token {w w' : World} {o : Nat} {v : Int} {s : ChanSt}
    (h : w.getChan o = .ok s) (hs : w.sendEffect o v = .ok w') (i : Nat) :
    ((w.ths.get i).state ≠ .blocked → w'.ths.get i = w.ths.get i) ∧
    (w'.ths.get i).token = (w.ths.get i).token := by
  rw [Chan.send_wakes h hs i]
  refine ⟨fun hb => ?_, ?_⟩
  · split
    · simp [Thread.wake, Thread.isBlocked, hb]
    · rfl
  · split
    · unfold Thread.wake; split <;> rfl
    · rfl

/-- **C09.3 (block).**  After a successful receive, every OTHER thread `i`'s entry is: `Blocked`
if the channel became empty (`msg_cnt` was 1) and `i`'s pending operation is a `MsgRecv` on this
channel object; unchanged otherwise.  (The receiver's own causality: `Chan.send_hb_recv_step`.) -/
theorem Chan.recv_blocks_others {w w' : World} {o : Nat} {v : Int} {s : ChanSt}
    (h : w.getChan o = .ok s) (hr : w.recvEffect o = .ok (w', v)) (i : Nat) (hi : i ≠ w.tid) :
    w'.ths.get i =
      if s.msgCnt = 1 ∧ (∃ op, (w.ths.get i).operation = some op ∧ op.obj = o ∧
          op.action = .chanRecv) then
        (w.ths.get i).setBlocked
      else w.ths.get i := by
  obtain ⟨sy, f⟩ := recvEffect_inv h hr
  exact f.get i hi

/-! ## 4. `try_recv` -/

/-- **C09.4.**  Stage 0 of `try_recv`: on an empty channel it completes at once with `Empty`
and — this is the root of finding F7 — performs NO branch point: the execution state (path,
thread table with every thread's pending operation and DPOR clock, objects with their last-access
records) is untouched, only the interpreter's program counter advances.  On a non-empty channel it is the
branch point of `recv`, recorded as an ATTEMPT (`blocking = false`; `recv` itself records `blocking = true`;
neither blocks there), and at every later stage it is `recv`. -/
theorem Chan.try_recv_exact (w : World) (c : TCtl) (qi : Nat) (s : ChanSt)
    (h : w.getChan (w.chanObj qi) = .ok s) :
    (c.stage = 0 → s.msgCnt = 0 →
      w.runOp c (.tryRecv qi) = .ok (w.complete .empty) ∧
      (w.complete .empty).exec = w.exec ∧
      (w.complete .empty).exec.path = w.exec.path ∧
      (w.complete .empty).ths = w.ths ∧
      (w.complete .empty).exec.objs = w.exec.objs) ∧
    (c.stage = 0 → s.msgCnt ≠ 0 →
      w.runOp c (.tryRecv qi) = (w.setStage 1).branch (w.chanObj qi) .chanRecv ∧
      w.runOp c (.recv qi) =
        (w.setStage 1).branch (w.chanObj qi) .chanRecv (block := false) (wait := true)) ∧
    (c.stage ≠ 0 → w.runOp c (.tryRecv qi) = w.runOp c (.recv qi)) :=
  ⟨fun hc h0 => ⟨runOp_tryRecv_stage0_empty w c qi s hc h h0, rfl, rfl, rfl, rfl⟩,
   fun hc h0 => runOp_tryRecv_stage0_nonempty w c qi s hc h h0,
   fun hc => runOp_tryRecv_stage1 w c qi hc⟩

/-! ## 5. a send happens-before the receive that obtains it, and before later receives -/

theorem Chan.Run.acq {ok : World → Prop} (hok : ∀ w, ok w → ActiveOk w.ths) {s : ChanSt}
    {log : ChanLog} (h : Chan.Run ok s log) : AcqInv log := by
  induction h with
  | fresh => exact AcqInv.fresh
  | send w w' o v s' hrun _ hg hs hg' ih => exact ih.send hrun.inv.2.rlen _ _ _
  | recv w w' o v s' hrun hw hg hr hg' ih =>
    obtain ⟨sy, f⟩ := recvEffect_inv hg hr
    refine ih.recv hrun.inv.2 v _ sy _ f.sync ?_
    rw [f.caus (hok w hw)]
    exact C12.VV.le_join_right _ _
  | access act pid vv _ ih => exact ih

/-- One step.  The clock `sendEffect` stores with the message (pushed on `receiver_synchronize`,
and kept as `sender_synchronize`) is above the sender's causality and above `sender_synchronize`
before; `recvEffect` pops the head clock and joins it into the receiver's causality. -/
theorem Chan.send_hb_recv_step :
    (∀ (w w' : World) (o : Nat) (v : Int) (s s' : ChanSt), w.getChan o = .ok s →
      w.sendEffect o v = .ok w' → w'.getChan o = .ok s' →
      s'.receiverSync = s.receiverSync ++ [s'.senderSync] ∧
      w.ths.caus.le s'.senderSync.hb ∧ s.senderSync.hb.le s'.senderSync.hb) ∧
    (∀ (w w' : World) (o : Nat) (v : Int) (s s' : ChanSt), w.getChan o = .ok s →
      w.recvEffect o = .ok (w', v) → w'.getChan o = .ok s' → ActiveOk w.ths →
      ∃ sy, s.receiverSync = sy :: s'.receiverSync ∧ s'.senderSync = s.senderSync ∧
        w'.ths.caus = w.ths.caus.join sy.hb) := by
  constructor
  · intro w w' o v s s' hg hs hg'
    have := (sendEffect_chan hg hs).symm.trans hg'
    cases this
    exact ⟨rfl, (chanSend_stamp s _ _ v).1, (chanSend_stamp s _ _ v).2⟩
  · intro w w' o v s s' hg hr hg' hact
    obtain ⟨sy, f⟩ := recvEffect_inv hg hr
    have := f.chan.symm.trans hg'
    cases this
    exact ⟨sy, f.sync, rfl, f.caus hact⟩

/-- **C09.5.**  In every history whose effects run in worlds where the active thread exists:
* the clocks still in the channel are the stamps of the messages not yet received, in order;
* the stamp of message `k` is above its sender's causality at the send, and above the stamp of
  every earlier message (`sender_synchronize` accumulates);
* the receive that obtained message `k` left its thread with a causality above that stamp;
* hence: the receiver of message `k` has, afterwards, a causality above the causality that the
  sender of EVERY message `j ≤ k` had at its send.  -/
theorem Chan.send_hb_recv {ok : World → Prop} (hok : ∀ w, ok w → ActiveOk w.ths) {s : ChanSt}
    {log : ChanLog} (h : Chan.Run ok s log) :
    (s.receiverSync.map (·.hb) = log.stamps.drop log.recvd.length ∧
      log.stamps.length = log.sent.length) ∧
    (∀ (k : Nat) (v : Int) (c st : VV),
      log.sent[k]? = some (v, c) → log.stamps[k]? = some st → c.le st) ∧
    (∀ (j k : Nat) (a b : VV),
      j ≤ k → log.stamps[j]? = some a → log.stamps[k]? = some b → a.le b) ∧
    (∀ (k : Nat) (v : Int) (c st : VV),
      log.recvd[k]? = some (v, c) → log.stamps[k]? = some st → st.le c) ∧
    (∀ (j k : Nat) (vj vk : Int) (cj ck : VV), j ≤ k →
      log.sent[j]? = some (vj, cj) → log.recvd[k]? = some (vk, ck) → cj.le ck) := by
  have hc := h.inv.2
  have ha := h.acq hok
  exact ⟨⟨hc.pending, hc.len⟩, hc.stamp, hc.mono, ha,
    fun j k vj vk cj ck => send_hb_recv_of_inv hc ha j k vj vk cj ck⟩

/-! ## 6. leftover messages are reported -/

/-- **C09.6.**  On a store in which no other entry has a complaint, `check_for_leaks` reports
"Messages leaked" iff the channel still holds messages, and passes otherwise.  (General form:
`Leak.check_iff`, `Leak.check_first` of C10.) -/
theorem Chan.leak_iff (pre post : Objs) (s : ChanSt)
    (hpre : ∀ o ∈ pre, C10.leakOf o = none) (hpost : ∀ o ∈ post, C10.leakOf o = none) :
    (Objs.checkForLeaks (pre ++ .chan s :: post) = .error .leakMsg ↔ s.msgCnt ≠ 0) ∧
    (Objs.checkForLeaks (pre ++ .chan s :: post) = .ok () ↔ s.msgCnt = 0) := by
  rw [C10.check_append pre _ hpre, C10.check_cons]
  have hp := (C10.check_ok_iff post).2 hpost
  by_cases h0 : s.msgCnt = 0
  · simp [C10.leakOf, h0, hp]
  · simp [C10.leakOf, h0]

/-- Every message of a history is either received or still counted by the channel — and a
positive count at the end of the iteration is a "Messages leaked" panic (`Chan.leak_iff`). -/
theorem Chan.received_or_leaked {ok : World → Prop} {s : ChanSt} {log : ChanLog}
    (h : Chan.Run ok s log) : log.sent.length = log.recvd.length + s.msgCnt := by
  have := (Chan.fifo h).2.2.2; omega

/-! ## 7. agreement with the reference semantics `Spec/SC.lean` (queue of values) -/

/-- `C09.scQueue`: the values queued in channel `q` of the reference machine; `C11.ScAt`: thread
`t` of the reference machine is about to execute `op`; `C11.retOf` / `C11.scRet`: the value the
last completed operation returned, in the twin / in the reference machine. -/
theorem Chan.sc_defs_spelled_out (sc : SC.St) (q t : Nat) (p : Prog) (op : Op) (w : World) :
    scQueue sc q = (sc.chan.getD q []).map (·.1) ∧
    (C11.ScAt p sc t op ↔
      (sc.th t).cvNotified = none ∧ SC.opOf p sc t = some op ∧ t < sc.ths.length) ∧
    C11.retOf w = w.events.head?.map (·.ret) ∧
    C11.scRet sc t = (sc.th t).rets.head?.map (·.2) :=
  ⟨rfl, ⟨fun h => ⟨h.1, h.2, h.3⟩, fun h => ⟨h.1, h.2.1, h.2.2⟩⟩, rfl, rfl⟩

/-- **C09.7 (send).**  With the receiver alive, the effect stage of `send` and `SC.step` both
append the value to the queue and return `()`. -/
theorem Chan.send_matches_SC {p : Prog} {w : World} {sc : SC.St} {c : TCtl} {t qi : Nat}
    {s : ChanSt} (v : Int) (hg : w.getChan (w.chanObj qi) = .ok s) (hc : c.stage ≠ 0)
    (hq : s.queue = scQueue sc qi) (hk : qi < sc.chan.length)
    (hd : sc.rxDropped.getD qi false = false) (at_ : C11.ScAt p sc t (.send qi v)) :
    ∃ w' sc' s', w.runOp c (.send qi v) = .ok w' ∧ SC.step p sc t = [sc'] ∧
      w'.getChan (w.chanObj qi) = .ok s' ∧
      s'.queue = s.queue ++ [v] ∧ s'.queue = scQueue sc' qi ∧
      C11.retOf w' = C11.scRet sc' t ∧ C11.retOf w' = some .unit :=
  send_agrees v hg hc hq hk hd at_

/-- **C09.7 (recv).**  On a non-empty channel the effect stage of `recv` and `SC.step` both pop
the head of the queue and return it. -/
theorem Chan.recv_matches_SC {p : Prog} {w : World} {sc : SC.St} {c : TCtl} {t qi : Nat}
    {s : ChanSt} (hg : w.getChan (w.chanObj qi) = .ok s) (hc : c.stage ≠ 0) (hi : ChanInv s)
    (hq : s.queue = scQueue sc qi) (hk : qi < sc.chan.length) (h0 : s.msgCnt ≠ 0)
    (at_ : C11.ScAt p sc t (.recv qi)) :
    ∃ w' sc' s' v, w.runOp c (.recv qi) = .ok w' ∧ SC.step p sc t = [sc'] ∧
      w'.getChan (w.chanObj qi) = .ok s' ∧
      s.queue = v :: s'.queue ∧ s'.queue = scQueue sc' qi ∧
      C11.retOf w' = C11.scRet sc' t ∧ C11.retOf w' = some (.val v) :=
  recv_agrees hg hc hi hq hk h0 at_

/-- **C09.7 (try_recv, empty).**  Both sides return `Empty` and change nothing. -/
theorem Chan.tryRecv_empty_matches_SC {p : Prog} {w : World} {sc : SC.St} {c : TCtl} {t qi : Nat}
    {s : ChanSt} (hg : w.getChan (w.chanObj qi) = .ok s) (hc : c.stage = 0)
    (hq : s.queue = scQueue sc qi) (hi : ChanInv s) (h0 : s.msgCnt = 0)
    (at_ : C11.ScAt p sc t (.tryRecv qi)) :
    ∃ w' sc', w.runOp c (.tryRecv qi) = .ok w' ∧ SC.step p sc t = [sc'] ∧
      w'.exec = w.exec ∧ sc'.chan = sc.chan ∧
      C11.retOf w' = C11.scRet sc' t ∧ C11.retOf w' = some .empty :=
  tryRecv_empty_agrees hg hc hq hi h0 at_

/-- **C09.7 (enabledness).**  `recv` is enabled in the reference machine iff the queue is
non-empty, and the twin's `block` flag at stage 0 of `recv` is exactly "the queue is empty". -/
theorem Chan.block_matches_SC_enabled (p : Prog) (sc : SC.St) (t q : Nat) (s : ChanSt)
    (hw : (sc.th t).cvWaiting = none) (hn : (sc.th t).cvNotified = none)
    (hop : SC.opOf p sc t = some (.recv q)) (hi : ChanInv s) (hq : s.queue = scQueue sc q) :
    SC.enabled p sc t =
      (sc.verdict.isNone && (sc.th t).started && !(sc.th t).finished && !(scQueue sc q).isEmpty) ∧
    (s.msgCnt == 0) = (scQueue sc q).isEmpty :=
  ⟨enabled_recv p sc t q hw hn hop, block_iff_disabled hi hq⟩

/-! ## non-vacuity -/

/-- a world with one channel object -/
def Chan.demoWorld : World :=
  { prog := { cfg := { nChans := 1 }, threads := [[]] }
    exec := { (Exec.new 5 1000 none true) with objs := [.chan {}] } }

/-- send 7, send 8, receive: 7 comes out, 8 stays, count 1 -/
theorem Chan.demo : ∃ w1 w2 w3, Chan.demoWorld.sendEffect 0 7 = .ok w1 ∧
    w1.sendEffect 0 8 = .ok w2 ∧ w2.recvEffect 0 = .ok (w3, 7) ∧
    (w3.getChan 0).toOption.map (fun s => (s.queue, s.msgCnt)) = some ([8], 1) :=
  ⟨_, _, _, rfl, rfl, rfl, rfl⟩

end LoomVerif

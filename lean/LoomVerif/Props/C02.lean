/-
C02 — "Every C11-allowed weak-memory outcome without load buffering is explored … provided fewer
stores than the tracked history hit one location.  Over-synchronising (treating a weaker ordering
as a stronger one) therefore counts as a violation."

Headline theorems only: the *local laws* (valid in every state) saying that the runtime never
synchronises more, and never withholds more candidate stores, than coded; and that the store ring
loses nothing while at most `MAX_ATOMIC_HISTORY = 7` stores hit a location.
The model is `Model/{VV,Threads,Atomic}.lean`; the proofs are in `Proofs/Clocks*.lean`.
-/
import LoomVerif.Props.C03

namespace LoomVerif
open Clocks

/-! ## 1. no over-synchronisation -/

/-- (= `Sync.no_over_sync` of C03.)  A `Relaxed`/`Release` load acquires nothing; a
`Relaxed`/`Acquire` store publishes only the `released` view; no load acquires more than the
synchronisation point carries, no store publishes more than `released` and the causality. -/
theorem C02.sync_no_over_sync (s : Sync) (c released caus : VV) :
    (∀ o', o' = Ord.rlx ∨ o' = Ord.rel → s.load c o' = c) ∧
    (∀ o, o = Ord.rlx ∨ o = Ord.acq → (s.store released caus o).hb = s.hb.join released) ∧
    (∀ o', (s.load c o').le (c.join s.hb)) ∧
    (∀ o, (s.store released caus o).hb.le ((s.hb.join released).join caus)) :=
  Sync.no_over_sync s c released caus

/-- The same at the level of the atomic cell: a load with a non-acquiring ordering leaves the
thread table unchanged; a store with a non-releasing ordering fills its slot with a
synchronisation point carrying only what it was given and the thread's `released` view; a
successful RMW with a non-acquiring success ordering does not raise the thread's causality, and
a failed one synchronises with the failure ordering only. -/
theorem Atomic.no_over_sync (a : Atomic) (ths : Threads) :
    (∀ a' ths' idx u o, o = Ord.rlx ∨ o = Ord.rel →
      a.load ths idx o = .ok (a', ths', u) → ths' = ths) ∧
    (∀ sync v o, a.stores.length = 7 → o = Ord.rlx ∨ o = Ord.acq →
      ((a.store ths sync v o).storeAt (a.cnt % 7)).sync.hb =
        sync.hb.join ths.activeT.released) ∧
    (∀ a' ths' idx prev b so fo f, so = Ord.rlx ∨ so = Ord.rel →
      (f (a.storeAt idx).value).isSome = true →
      a.rmw ths idx so fo f = .ok (a', ths', prev, b) → ths' = ths) ∧
    (∀ a' ths' idx prev b so fo f, fo = Ord.rlx ∨ fo = Ord.rel →
      f (a.storeAt idx).value = none →
      a.rmw ths idx so fo f = .ok (a', ths', prev, b) → ths' = ths) := by
  have hnoacq : ∀ (sy : Sync) (o : Ord), o = Ord.rlx ∨ o = Ord.rel → ths.syncLoad sy o = ths := by
    intro sy o ho
    unfold Threads.syncLoad
    rw [(Sync.no_over_sync sy ths.caus ths.caus ths.caus).1 o ho]
    exact setCaus_self ths
  refine ⟨?_, ?_, ?_, ?_⟩
  · intro a' ths' idx u o ho h
    rw [(load_ok h).2.1]; exact hnoacq _ _ ho
  · intro sync v o hlen ho
    rw [(Atomic.store_publishes a ths sync v o hlen).2.2.2.1]
    exact (Sync.no_over_sync sync ths.caus _ _).2.1 o ho
  · intro a' ths' idx prev b so fo f ho hf h
    cases hv : f (a.storeAt idx).value with
    | none => rw [hv] at hf; cases hf
    | some next => rw [(rmw_ok_some hv h).2.1]; exact hnoacq _ _ ho
  · intro a' ths' idx prev b so fo f ho hf h
    rw [(rmw_ok_none hf h).2.1]; exact hnoacq _ _ ho

/-- (= `Atomic.candidates_exact` of C03.)  A store is withheld from a load ONLY for one of the
three coded reasons; every other real slot is offered. -/
theorem C02.candidates_exact (a : Atomic) (ths : Threads) (o : Ord) (l : List Nat)
    (h : a.matchLoadToStores ths o = .ok l) :
    (∀ i, i ∈ l ↔ i < min a.cnt 7 ∧ ∀ j, j < min a.cnt 7 → j ≠ i →
      (a.storeAt i).mo.blt (a.storeAt j).mo = true → a.loadBlocked ths o i j = false) ∧
    l.Sublist (List.range 7) :=
  Atomic.candidates_exact a ths o l h

/-- In particular: every clock-maximal real slot is always offered, and if the loading thread's
causality has seen no store, has not yielded, and the load is not SeqCst, every real slot is. -/
theorem Atomic.candidates_weak (a : Atomic) (ths : Threads) (o : Ord) (l : List Nat)
    (h : a.matchLoadToStores ths o = .ok l) :
    (∀ i, i < min a.cnt 7 →
      (∀ j, j < min a.cnt 7 → j ≠ i → (a.storeAt i).mo.blt (a.storeAt j).mo = false) → i ∈ l) ∧
    ((∀ j, j < min a.cnt 7 → (a.storeAt j).firstSeen.isSeenByCurrent ths = false) →
      ths.activeT.lastYield = none → o ≠ Ord.sc → ∀ i, i < min a.cnt 7 → i ∈ l) := by
  have hex := (Atomic.candidates_exact a ths o l h).1
  constructor
  · intro i hi hmax
    refine (hex i).2 ⟨hi, fun j hj hne hlt => ?_⟩
    rw [hmax j hj hne] at hlt; cases hlt
  · intro hseen hy hsc i hi
    refine (hex i).2 ⟨hi, fun j hj hne _ => ?_⟩
    cases hb : a.loadBlocked ths o i j
    · rfl
    · rcases (Atomic.loadBlocked_iff a ths o i j).1 hb with h1 | h1 | h1
      · rw [hseen j hj] at h1; cases h1
      · unfold FirstSeen.isSeenBeforeYield at h1
        rw [hy] at h1; cases h1
      · exact absurd h1.1 hsc

/-! ## 2. the store ring -/

/-- `index`, `range`, `stores_mut`: `index cnt = cnt % 7 < 7`, a store goes to slot `index cnt`,
which for `cnt < 7` is slot `cnt` itself; and `stores_mut` visits exactly the real slots
`0 … min cnt 7 - 1`, each once (oldest first). -/
theorem Atomic.ring_order (cnt : Nat) :
    Atomic.index cnt = cnt % 7 ∧ Atomic.index cnt < 7 ∧ (cnt < 7 → Atomic.index cnt = cnt) ∧
    (1 ≤ cnt → (Atomic.storesMutOrder cnt).Perm (List.range (min cnt 7))) ∧
    (1 ≤ cnt → cnt ≤ 7 → Atomic.storesMutOrder cnt = List.range cnt) :=
  ⟨rfl, index_lt cnt, fun h => index_of_lt h, storesMutOrder_perm cnt,
    fun h1 h7 => storesMutOrder_small cnt h7 h1⟩

/-- No store is overwritten while at most 7 stores hit the location: after `Atomic::new` (which
performs store #0 of the initial value `v0`) and any `l.length ≤ 6` further stores (by any
threads, any orderings), `cnt` is the number of stores and slot `k` holds the value of store
#`k` for every `k`.  (With `Atomic.load_frame`: loads do not change values.  This is the exact
guard of the property: the ring evicts a store only with the 8th store to a location.) -/
theorem Atomic.ring_guard (ths0 : Threads) (v0 : Nat) (a : Atomic)
    (hnew : Atomic.new ths0 v0 = .ok a) (l : List (Threads × Sync × Nat × Ord))
    (hl : 1 + l.length ≤ 7) :
    let a' := l.foldl (fun a r => a.store r.1 r.2.1 r.2.2.1 r.2.2.2) a
    a'.cnt = 1 + l.length ∧ (a'.storeAt 0).value = v0 ∧
    ∀ k (hk : k < l.length), (a'.storeAt (k + 1)).value = (l[k]).2.2.1 := by
  intro a'
  obtain ⟨hcnt, hlen, hv, _⟩ := new_ok hnew
  obtain ⟨h1, h2, h3⟩ := storeSeq_spec l a hlen (by rw [hcnt]; exact hl)
  rw [hcnt] at h1 h2 h3
  refine ⟨h1, ?_, ?_⟩
  · show (a'.storeAt 0).value = v0
    rw [show a'.storeAt 0 = a.storeAt 0 from h2 0 (by omega), hv]
  · intro k hk
    have := h3 k hk
    rw [Nat.add_comm 1 k] at this
    exact this

/-- The general step: in a ring with `cnt + l.length ≤ 7`, a run of stores leaves the existing
slots untouched and puts the `k`-th new store into slot `cnt + k`. -/
theorem Atomic.ring_guard_step (a : Atomic) (hlen : a.stores.length = 7)
    (l : List (Threads × Sync × Nat × Ord)) (hl : a.cnt + l.length ≤ 7) :
    let a' := l.foldl (fun a r => a.store r.1 r.2.1 r.2.2.1 r.2.2.2) a
    a'.cnt = a.cnt + l.length ∧ (∀ i, i < a.cnt → a'.storeAt i = a.storeAt i) ∧
    ∀ k (hk : k < l.length), (a'.storeAt (a.cnt + k)).value = (l[k]).2.2.1 :=
  storeSeq_spec l a hlen hl

/-! ## 3. `fence(Acquire)` acquires only from stores already read -/

/-- `fence_acq` on one cell (real slots: `cnt ≥ 1`).  It changes only the fencing thread's
causality, which is computed by visiting the slots in `stores_mut` order and joining the
synchronisation clock of exactly those slots that are seen by the causality at the time they
are visited.  Hence: the causality only grows; it stays below every upper bound of the old
causality and the clocks of the real slots seen by the *final* causality (so unseen slots
contribute nothing), a fortiori below the join over all real slots; every real slot seen at the
start is acquired; and if none is seen, the fence does nothing. -/
theorem Fence.acq_only_seen (a : Atomic) (ths : Threads)
    (hact : ths.activeId < ths.threads.length) (hcnt : 1 ≤ a.cnt) :
    let r := a.fenceAcq ths
    r = ths.setCaus r.caus ∧
    r.caus = (Atomic.storesMutOrder a.cnt).foldl (fun c i =>
      if (a.storeAt i).firstSeen.isSeenBy c then c.join (a.storeAt i).sync.hb else c) ths.caus ∧
    ths.caus.le r.caus ∧
    (∀ u : VV, ths.caus.le u →
      (∀ i, i < min a.cnt 7 → (a.storeAt i).firstSeen.isSeenBy r.caus = true →
        (a.storeAt i).sync.hb.le u) → r.caus.le u) ∧
    (∀ u : VV, ths.caus.le u → (∀ i, i < min a.cnt 7 → (a.storeAt i).sync.hb.le u) →
      r.caus.le u) ∧
    (∀ i, i < min a.cnt 7 → (a.storeAt i).firstSeen.isSeenByCurrent ths = true →
      (a.storeAt i).sync.hb.le r.caus) ∧
    ((∀ i, i < min a.cnt 7 → (a.storeAt i).firstSeen.isSeenByCurrent ths = false) → r = ths) := by
  intro r
  have hr : r = ths.setCaus (acqFold a (Atomic.storesMutOrder a.cnt) ths.caus) :=
    fenceAcq_eq a ths hact
  have hc : r.caus = acqFold a (Atomic.storesMutOrder a.cnt) ths.caus := by
    rw [hr]; exact caus_setCaus hact _
  have hmem := mem_storesMutOrder a.cnt hcnt
  have hbound : ∀ u : VV, ths.caus.le u →
      (∀ i, i < min a.cnt 7 → (a.storeAt i).firstSeen.isSeenBy r.caus = true →
        (a.storeAt i).sync.hb.le u) → r.caus.le u := by
    intro u hu hall
    have := acqFold_le_of a (Atomic.storesMutOrder a.cnt) r.caus u
      (fun i hi hs => hall i ((hmem i).1 hi) hs) ths.caus hu (by rw [hc]; exact le_refl _)
    rw [hc]; exact this
  refine ⟨by rw [hc]; exact hr, hc, ?_, hbound, ?_, ?_, ?_⟩
  · rw [hc]; exact le_acqFold a _ _
  · intro u hu hall
    exact hbound u hu (fun i hi _ => hall i hi)
  · intro i hi hs
    rw [hc]
    exact seen_le_acqFold a _ i ((hmem i).2 hi) ths.caus hs
  · intro hnone
    rw [hr, acqFold_none a _ ths.caus (fun i hi => hnone i ((hmem i).1 hi))]
    exact setCaus_self ths

/-! ## 4. non-vacuity -/

section NonVacuity

private def T2 (active : Nat) (c0 c1 : List Nat) : Threads :=
  { threads := [{ causality := VV.ofList c0 }, { causality := VV.ofList c1 }],
    active := some active }

private def okOr {α : Type} [Inhabited α] : Except Panic α → α
  | .ok a => a
  | .error _ => default

/-- thread 0 creates the cell and stores 1 … 6 with `Release`, its clock advancing each time:
seven stores in all, the ring is exactly full -/
private def full : Atomic :=
  [1, 2, 3, 4, 5, 6].foldl
    (fun a v => a.store (T2 0 [v + 1, 0, 0, 0, 0] [1, 1, 0, 0, 0]) Sync.new v .rel)
    (okOr (Atomic.new (T2 0 [1, 0, 0, 0, 0] [0, 0, 0, 0, 0]) 0))

/-- thread 1, spawned right after the creation, has seen only store #0 -/
private def fresh : Threads := T2 1 [7, 0, 0, 0, 0] [1, 1, 0, 0, 0]

example : full.cnt = 7 := by decide +kernel
/-- (`cnt ≥ 1` in `ring_order` is needed: on a cell without any store `stores_mut` visits all
seven default slots, in the code as in the model) -/
example : Atomic.storesMutOrder 0 = List.range 7 := by decide
example : (List.range 7).map (fun k => (full.storeAt k).value) = [0, 1, 2, 3, 4, 5, 6] := by
  decide +kernel
/-- all seven stores are offered to a `Relaxed` (and an `Acquire`) load of thread 1 -/
example : full.matchLoadToStores fresh .rlx = .ok [0, 1, 2, 3, 4, 5, 6] := by decide +kernel
example : full.matchLoadToStores fresh .acq = .ok [0, 1, 2, 3, 4, 5, 6] := by decide +kernel
/-- an eighth store overwrites slot 0: store #0 is no longer offered (the history bound) -/
example : ((full.store (T2 0 [8, 0, 0, 0, 0] [1, 1, 0, 0, 0]) Sync.new 7 .rel).storeAt 0).value
    = 7 := by decide +kernel
/-- an acquire fence by thread 1, which has seen only store #0, acquires only that store's clock
(`[1,0,…]`, already known) and none of the later release stores' … -/
example : (full.fenceAcq fresh).caus.toList = [1, 1, 0, 0, 0] := by decide +kernel
/-- … while after a `Relaxed` load of store #4 (clock `[5,0,…]`) the fence acquires exactly it -/
example : (match full.load fresh 4 .rlx with
    | .ok (a', t', _) => (t'.caus.toList, (a'.fenceAcq t').caus.toList)
    | .error _ => default) = ([1, 1, 0, 0, 0], [5, 1, 0, 0, 0]) := by decide +kernel

end NonVacuity

end LoomVerif

/-
DATA RACES ARE REPORTED EXACTLY, WAIT FRAGMENT (property C04 for channels, `Notify`, `park`/`unpark` and the
condvar; with it the happens-before clauses of C08 / C09: what the notifier / unparker / sender did before
happens-before the continuation of the woken thread / the receiver of that message).

`Props/Race.lean` proves, for the lock fragment, that the twin panics with a causality violation at a cell access
exactly when the step of the reference semantics `Spec/SC.lean` stops with a race verdict.  Here the same is proved
for the WAIT fragment of `Props/Refine2.lean` minus `dropRx`: the lock fragment (`spawn`, `join`, `lock`, `unlock`,
`tryLock`, `cellRead`, `cellWrite`, `ifEq`, the end of a thread) plus
1. channels: `send`, `recv`, `tryRecv` — the edge from a `send` to the `recv` / `tryRecv` that obtains that message
   (twin: the `Synchronize` of the sender side is cumulative, each message carries a snapshot of it in
   `receiverSync`, acquired by `recvEffect`; reference: `chanRel`, the clock paired with the message);
2. `nNotify`, `nWait` (with its one modelled spurious return, which acquires nothing on both sides) — the edge from
   `notify` to the `wait` it lets return (twin: `sync_store` / `sync_load` on the `Notify`'s `Synchronize` — the
   waiter acquires when it returns from `wait`; `Notify::notify` itself only wakes, it hands no clock to anybody:
   repair of finding F26, `Notify.notify_acquires_nothing` in `Props/C08.lean`; reference: `nRel`);
3. `park`, `unpark` — the edge from `unpark` to the `park` that consumes it (twin: `unparkCaus`, handed over by
   `acquire_unpark` when the `park` consumes a stored unpark or is woken by one; reference: `tokenVC`);
4. the condvar: `cvWait` (two reference steps), `cvOne`, `cvAll` — the edge from the notifier to the waiter (twin:
   `Set::wake` joins the notifier's causality into the waiter; reference: the join performed by `cvOne` / `cvAll`),
   the release of the mutex by the first half of `cvWait` and its re-acquisition by the second half.

Technique: the relation `Race2.RC2 w s` extends `Refine2.R2` by two clock systems (`Proofs/RaceClocks.lean`) whose
"slots" are now the mutexes, the `Notify` objects, the channels and the `park` tokens, plus the clocks of the
messages in flight (side clocks, `Proofs/Race2Clocks.lean`); the twin-side system is a GHOST: its thread clocks
acquire when the reference step happens, while loom's `causality` may have acquired ahead of time (a thread waiting in
`park` / `Condvar::wait` joins the causality of the thread that wakes it at the wake-up, before it runs; a thread
waiting in `Notify::wait` / `join` no longer does):
`LinkT2` sandwiches loom's causality between the ghost clock and the ghost clock joined with the clock the waiting
operation is about to acquire (`pendClk`).

Hypotheses, all explicit and decidable / computable:
* `Race2.WF3 prog` = `Refine2.WF2 prog` and no `dropRx` (NOT COVERED: the twin drains the channel message by
  message, acquiring each message's clock, while the reference acquires them all in the one step that drops the
  receiver; the bookkeeping of the drained prefix is not done);
* `prog.threads.length ≤ 5`; `Refine2.FreshExec2 exec`;
* `Refine2.okRun fuel w0 = true` (computable by running the twin): at every step of the run `Refine2.resumeOk`, exactly
  as in `Props/Refine2.lean` — nothing more.  REPAIRED finding F26: for the unrepaired model these theorems needed a
  second run-level condition, `staleOk` ("when the effect of `Notify::notify` on `n` is about to run, every other
  thread whose pending operation names `n` is waiting in `nWait n`"), and were false without it (old
  `Race2.Finding.missed_race`): `Notify::notify` gave the notifier's causality to EVERY other thread whose pending
  operation names the `Notify`, also to a thread between the branch point and the effect of its own `notify()` on the
  same object, whose later accesses were then ordered, in loom's clocks, after the first notifier's earlier accesses —
  a data race that the reference reports was not reported on that path.  `Notify::notify` now only wakes; the
  hypothesis is gone (the old `okRun2` / `okIter2` have collapsed to `Refine2.okRun` / `Refine2.okIter`), and the very program and path of
  the old finding now end with the report: `Race2.Repaired.two_notifiers_race_reported`.

Headlines: `Race2.twin_panics_iff_reference_races`, `Race2.only_cell_accesses_panic_with_causality`,
`Race2.step_simulation_with_clocks`, `Race2.initially_related`, `Race2.reported_race_is_real`,
`Race2.no_missed_race_on_this_path`, their `runIter` forms, the examples `Race2.Example.*` and the repaired
finding `Race2.Repaired.two_notifiers_race_reported`.
-/
import LoomVerif.Proofs.Race2Run
import LoomVerif.Props.Refine2
import LoomVerif.Props.Race
import LoomVerif.Model.Check

namespace LoomVerif
namespace Race2
open Refine Refine2 Race

/-! ## 1. the race checks are exact -/

/-- **The twin panics with a causality violation exactly when the reference step stops with a race**: under
`RC2 w s`, when the active thread is about to execute `cellRead c` / `cellWrite c v`, the stage panics with
`.causality k` iff THE step of the reference semantics of the body it runs is `[(s.tick t).stop (.race k)]`, with the
same `k` (`9`: read after an unordered write; `10`: write after an unordered write; `11`: write after an unordered
read; when both `10` and `11` apply, both sides report `10`). -/
theorem twin_panics_iff_reference_races {w : World} {s : SC.St} (hRC : RC2 w s) (hact : w.tid < w.ctl.length)
    (hcell : AtCell2 w) (k : Nat) :
    w.stepActive = .error (.causality k) ↔
      SC.step w.prog s (body w w.tid) = [(s.tick (body w w.tid)).stop (.race k)] := by
  rcases hcell with ⟨c, hop, hc⟩ | ⟨c, v, hop, hc⟩
  · exact read_panics_iff_races2 hRC hact hop hc k
  · exact write_panics_iff_races2 hRC hact hop hc k

/-- a cell access of the twin has exactly two outcomes: a causality violation, or success — and then the
reference step carries no verdict -/
theorem cell_access_outcomes {w : World} {s : SC.St} (hRC : RC2 w s) (hact : w.tid < w.ctl.length)
    (hcell : AtCell2 w) :
    (∃ k, w.stepActive = .error (.causality k) ∧ (k = 9 ∨ k = 10 ∨ k = 11)) ∨
    (∃ w' s', w.stepActive = .ok w' ∧ SC.step w.prog s (body w w.tid) = [s'] ∧ s'.verdict = none) :=
  cell_outcomes2 hRC hact hcell

/-- **Only the race checks of `cellRead` / `cellWrite` panic with a causality violation**: no other stage of a
fragment program does (not the scheduler, not `post_acquire`, `release_lock`, `Notify`, `park`, the channel, the
condvar) -/
theorem only_cell_accesses_panic_with_causality {w : World} {s : SC.St} (hwf : WF3 w.prog) (hRC : RC2 w s)
    (hact : w.tid < w.ctl.length) {k : Nat} (h : w.stepActive = .error (.causality k)) : AtCell2 w :=
  causality_only_at_cells2 hwf hRC hact h

/-! ## 2. the relation is an invariant -/

/-- **One-step simulation with clocks**: a successful stage of the active thread, under `resumeOk`,
leads to a world related to the same reference state (stuttering), or to a world related to THE successor `s'` of a
step of `SC.step` of the body the thread runs (of a thread that is `SC.enabled`) or of the spurious return of its
`nWait` (`SC.spurious`); `RC2 w' s'` contains `s'.verdict = none`: the reference does not see a race where the
twin does not. -/
theorem step_simulation_with_clocks {w w' : World} {s : SC.St} (hwf : WF3 w.prog) (hRC : RC2 w s)
    (hact : w.tid < w.ctl.length) (hactive : w.ths.isActive = true) (hok : resumeOk w = true)
    (h : w.stepActive = .ok w') :
    w'.prog = w.prog ∧
    ((RC2 w' s ∧ w'.events = w.events) ∨
     ∃ s', ((SC.enabled w.prog s (body w w.tid) = true ∧ s' ∈ SC.step w.prog s (body w w.tid)) ∨
          s' ∈ SC.spurious w.prog s (body w w.tid)) ∧ RC2 w' s' ∧
       ∃ l, RefStep w.prog (data2 s) (body w w.tid) l (data2 s') ∧
         w'.events.map triple = SCData.label (body w w.tid) l ++ w.events.map triple) :=
  step_clock2 hwf hRC hact hactive hok h

/-- the relation holds initially -/
theorem initially_related {prog : Prog} {exec : Exec} {w0 : World} (hwf : WF3 prog)
    (hnt : prog.threads.length ≤ 5) (hfresh : FreshExec2 exec) (hinit : World.init prog exec = .ok w0) :
    RC2 w0 (SC.init prog) :=
  (init_RC2 hwf hnt hfresh hinit).1

theorem RC2.verdict_none {w : World} {s : SC.St} (h : RC2 w s) : s.verdict = none := h.fs.1
theorem RC2.related {w : World} {s : SC.St} (h : RC2 w s) : R2 w (data2 s) := h.r

/-! ## 3. runs -/

/-- **A reported race is real**: a run of the twin (satisfying `Refine2.okRun`) that ends with the panic `causality k`
corresponds to an execution of the reference semantics that ends with the verdict `race k`: there is an execution
`SC.init prog →* s` of `Spec/SC.lean` (every step a step of an enabled thread or a spurious return of `nWait`) whose
data is related to the world `w` in which the panicking stage started and whose trace of results is the event log
of the twin, and the next step of the body `t` of the thread that panicked — enabled in `s` — is
`[(s.tick t).stop (.race k)]`. -/
theorem reported_race_is_real {prog : Prog} {exec : Exec} {w0 w : World} {fuel k : Nat}
    (hwf : WF3 prog) (hnt : prog.threads.length ≤ 5) (hfresh : FreshExec2 exec)
    (hinit : World.init prog exec = .ok w0) (hok : okRun fuel w0 = true)
    (hrun : World.runLoop fuel w0 = (w, some (.causality k))) :
    ∃ s t, SCExec2 prog (SC.init prog) s ∧ RC2 w s ∧
      SCData2.Run2 prog (data2 (SC.init prog)) (w.events.reverse.map triple) (data2 s) ∧
      SC.enabled prog s t = true ∧ SC.step prog s t = [(s.tick t).stop (.race k)] ∧
      SCExec2 prog (SC.init prog) ((s.tick t).stop (.race k)) := by
  obtain ⟨hRC, hp, hev⟩ := init_RC2 hwf hnt hfresh hinit
  have := runLoop_clock2 prog hwf fuel w0 w (SC.init prog) _ hp hRC (init_inRange2 hfresh hinit)
    (.nil _) (by rw [hev]; exact SCData2.Run2.nil _) hok hrun
  obtain ⟨s, t, hex, hRC', hrun', _, hen, hst⟩ := this
  exact ⟨s, t, hex, hRC', hrun', hen, hst, .step hex hen (by rw [hst]; exact List.mem_singleton.2 rfl)⟩

/-- **No race is missed on this path**: a run of the twin (satisfying `Refine2.okRun`) that completes corresponds to a
full execution of `Spec/SC.lean` — every step `SC.step` of a thread that is `SC.enabled`, or `SC.spurious` — that
reaches no verdict: no step of it stops with a race.  (`Refine2.run_is_SC_execution` without its second disjunct
"or a race verdict on a prefix".) -/
theorem no_missed_race_on_this_path {prog : Prog} {exec : Exec} {w0 w : World} {fuel : Nat}
    (hwf : WF3 prog) (hnt : prog.threads.length ≤ 5) (hfresh : FreshExec2 exec)
    (hinit : World.init prog exec = .ok w0) (hok : okRun fuel w0 = true)
    (hrun : World.runLoop fuel w0 = (w, none)) :
    ∃ s, SCExec2 prog (SC.init prog) s ∧ s.verdict = none ∧ R2 w (data2 s) ∧
      SCData2.Run2 prog (data2 (SC.init prog)) (w.events.reverse.map triple) (data2 s) ∧ RC2 w s := by
  obtain ⟨hRC, hp, hev⟩ := init_RC2 hwf hnt hfresh hinit
  have := runLoop_clock2 prog hwf fuel w0 w (SC.init prog) _ hp hRC (init_inRange2 hfresh hinit)
    (.nil _) (by rw [hev]; exact SCData2.Run2.nil _) hok hrun
  obtain ⟨s, hex, hRC', hrun'⟩ := this
  exact ⟨s, hex, hRC'.fs.1, hRC'.r, hrun', hRC'⟩

/-! ### the same for `runIter` -/

/-- a completed iteration: its events are the trace of a reference execution without race verdict -/
theorem runIter_no_missed_race {prog : Prog} {exec : Exec} {fuel : Nat}
    (hwf : WF3 prog) (hnt : prog.threads.length ≤ 5) (hfresh : FreshExec2 exec)
    (hok : okIter prog exec fuel = true) (hterm : (runIter prog exec fuel).term = none) :
    ∃ s, SCExec2 prog (SC.init prog) s ∧ s.verdict = none ∧
      SCData2.Run2 prog (data2 (SC.init prog)) ((runIter prog exec fuel).events.map triple) (data2 s) := by
  unfold runIter at hterm ⊢
  unfold okIter at hok
  cases hi : World.init prog exec with
  | error e => rw [hi] at hterm; cases hterm
  | ok w0 =>
    rw [hi] at hterm hok
    simp only at hterm hok ⊢
    cases hr : World.runLoop fuel w0 with
    | mk w r =>
      rw [hr] at hterm
      cases r with
      | some e => cases hterm
      | none =>
        obtain ⟨s, h1, h2, _, h4, _⟩ := no_missed_race_on_this_path hwf hnt hfresh hi hok hr
        simp only
        refine ⟨s, h1, h2, ?_⟩
        split <;> exact h4

/-- an iteration that reports a race: there is a reference execution that ends with that race verdict -/
theorem runIter_reported_race_is_real {prog : Prog} {exec : Exec} {fuel k : Nat}
    (hwf : WF3 prog) (hnt : prog.threads.length ≤ 5) (hfresh : FreshExec2 exec)
    (hok : okIter prog exec fuel = true)
    (hterm : (runIter prog exec fuel).term = some (.causality k)) :
    ∃ s, SCExec2 prog (SC.init prog) s ∧ s.verdict = some (.race k) := by
  unfold runIter at hterm
  unfold okIter at hok
  cases hinit : World.init prog exec with
  | error e => rw [hinit] at hok; cases hok
  | ok w0 =>
    rw [hinit] at hterm hok
    simp only at hterm hok
    cases hr : World.runLoop fuel w0 with
    | mk w r =>
      rw [hr] at hterm
      cases r with
      | some e =>
        simp only at hterm
        cases hterm
        obtain ⟨s, t, _, _, _, _, _, hex⟩ := reported_race_is_real hwf hnt hfresh hinit hok hr
        exact ⟨_, hex, rfl⟩
      | none =>
        exfalso
        simp only at hterm
        split at hterm
        · next e he =>
          cases hterm
          exact Race.checkForLeaks_not_causality _ _ he
        · cases hterm

/-! ## 4. non-vacuity -/

namespace Example

/-- the `n`-th execution record of the exploration of `p` (the path the previous iterations leave behind) -/
def iter (p : Prog) : Nat → Exec
  | 0 => Check.initExec p.cfg
  | n + 1 => ((runIter p (iter p n)).exec.step).getD (iter p n)

/-- message passing: the main thread writes a cell, then sends; thread 1 receives, then reads the cell -/
def mp : Prog :=
  { cfg := { nCells := 1, nChans := 1 }, threads := [[.spawn 1, .cellWrite 0 5, .send 0 1, .join 1], [.recv 0, .cellRead 0]] }

/-- the same with the cell written AFTER the send -/
def mpLate : Prog :=
  { cfg := { nCells := 1, nChans := 1 }, threads := [[.spawn 1, .send 0 1, .cellWrite 0 5, .join 1], [.recv 0, .cellRead 0]] }

/-- hand-off through `unpark` / `park` -/
def handOff : Prog :=
  { cfg := { nCells := 1 }, threads := [[.spawn 1, .cellWrite 0 5, .unpark 1, .join 1], [.park, .cellRead 0]] }

/-- an `unpark` that no `park` consumes -/
def noPark : Prog :=
  { cfg := { nCells := 1 }, threads := [[.spawn 1, .cellWrite 0 5, .unpark 1, .join 1], [.cellRead 0]] }

/-- hand-off through `Notify`: ordered when the wait is notified, not when it returns spuriously -/
def ntf : Prog :=
  { cfg := { nCells := 1, nNotifies := 1 }, threads := [[.spawn 1, .cellWrite 0 5, .nNotify 0, .join 1], [.nWait 0, .cellRead 0]] }

/-- a condvar hand-off; cell 1 is written by thread 1 before it takes the mutex and read by the main thread after
it has released it -/
def cvp : Prog :=
  { cfg := { nCells := 2, nMutexes := 1, nCondvars := 1 }, threads := [[.spawn 1, .lock 0, .cellRead 0, .ifEq 1 (.val 0) 1, .cvWait 0 0, .cellRead 0, .unlock 0, .cellRead 1, .join 1], [.cellWrite 1 7, .lock 0, .cellWrite 0 1, .cvOne 0, .unlock 0]] }

example : WF3 mp ∧ WF3 mpLate ∧ WF3 handOff ∧ WF3 noPark ∧ WF3 ntf ∧ WF3 cvp := by decide +kernel

/-- **message passing of a cell through a channel is race-free in every iteration**: the whole exploration
completes, no iteration reports anything -/
theorem mp_never : (Check.run mp 100).2 = .completed ∧
    ((Check.run mp 100).1.map fun it => it.result.term) = [none] := by decide +kernel

/-- … and by the theorem its events are the trace of a reference execution that reaches no verdict: the write
happens-before the read in the reference too -/
example : ∃ s, SCExec2 mp (SC.init mp) s ∧ s.verdict = none ∧
    SCData2.Run2 mp (data2 (SC.init mp)) ((runIter mp (Check.initExec mp.cfg)).events.map triple) (data2 s) :=
  runIter_no_missed_race (by decide +kernel) (by decide +kernel) (freshExec2_new _ _ _ _) (by decide +kernel)
    (by decide +kernel)

/-- **the same with the cell written after the send races**, and the race is reported -/
theorem mpLate_reported : (runIter mpLate (Check.initExec mpLate.cfg)).term = some (.causality 9) ∧
    okIter mpLate (Check.initExec mpLate.cfg) = true := by decide +kernel

/-- … and the theorem turns the report into a reference execution that ends with the verdict `race 9` -/
example : ∃ s, SCExec2 mpLate (SC.init mpLate) s ∧ s.verdict = some (.race 9) :=
  runIter_reported_race_is_real (by decide +kernel) (by decide +kernel) (freshExec2_new _ _ _ _) mpLate_reported.2
    mpLate_reported.1

/-- **hand-off through `unpark` / `park` is race-free** -/
theorem handOff_never : (Check.run handOff 100).2 = .completed ∧
    ((Check.run handOff 100).1.map fun it => it.result.term) = [none] := by decide +kernel

example : ∃ s, SCExec2 handOff (SC.init handOff) s ∧ s.verdict = none ∧
    SCData2.Run2 handOff (data2 (SC.init handOff))
      ((runIter handOff (Check.initExec handOff.cfg)).events.map triple) (data2 s) :=
  runIter_no_missed_race (by decide +kernel) (by decide +kernel) (freshExec2_new _ _ _ _) (by decide +kernel)
    (by decide +kernel)

/-- **an `unpark` without a consuming `park` does not order the accesses**: the race is reported -/
theorem noPark_reported : (runIter noPark (Check.initExec noPark.cfg)).term = some (.causality 9) ∧
    okIter noPark (Check.initExec noPark.cfg) = true := by decide +kernel

example : ∃ s, SCExec2 noPark (SC.init noPark) s ∧ s.verdict = some (.race 9) :=
  runIter_reported_race_is_real (by decide +kernel) (by decide +kernel) (freshExec2_new _ _ _ _) noPark_reported.2
    noPark_reported.1

/-- `Notify`: the first iteration (the wait is notified) is race-free, the second one (the wait returns spuriously:
nothing is acquired, on either side) reports the race -/
theorem ntf_runs : ((Check.run ntf 100).1.map fun it => it.result.term) = [none, some (.causality 9)] ∧
    okIter ntf (iter ntf 0) = true ∧ okIter ntf (iter ntf 1) = true ∧ FreshExec2 (iter ntf 1) := by
  refine ⟨by decide +kernel, by decide +kernel, by decide +kernel, by unfold FreshExec2; decide +kernel⟩

example : ∃ s, SCExec2 ntf (SC.init ntf) s ∧ s.verdict = some (.race 9) :=
  runIter_reported_race_is_real (by decide +kernel) (by decide +kernel) ntf_runs.2.2.2 ntf_runs.2.2.1
    (by decide +kernel)

/-- the condvar hand-off: all eight iterations of the exploration are race-free -/
theorem cvp_never : (Check.run cvp 100).2 = .completed ∧
    ((Check.run cvp 100).1.map fun it => it.result.term) = [none, none, none, none, none, none, none, none] := by
  decide +kernel

/-- … e.g. the fourth one: by the theorem its events are the trace of a reference execution without verdict -/
theorem cvp_run3 : (runIter cvp (iter cvp 3)).term = none ∧ okIter cvp (iter cvp 3) = true ∧
    FreshExec2 (iter cvp 3) := by
  refine ⟨by decide +kernel, by decide +kernel, by unfold FreshExec2; decide +kernel⟩

example : ∃ s, SCExec2 cvp (SC.init cvp) s ∧ s.verdict = none ∧
    SCData2.Run2 cvp (data2 (SC.init cvp)) ((runIter cvp (iter cvp 3)).events.map triple) (data2 s) :=
  runIter_no_missed_race (by decide +kernel) (by decide +kernel) cvp_run3.2.2 cvp_run3.2.1 cvp_run3.1

end Example

/-! ## 5. REPAIRED finding F26: two notifiers of one `Notify` -/

namespace Repaired

/-- replay a list of thread choices in the reference semantics: every step a step of `SC.step` of a thread that is
`SC.enabled` (and deterministic) -/
def replay (p : Prog) : List Nat → SC.St → Option SC.St
  | [], s => some s
  | t :: ts, s =>
    if SC.enabled p s t then
      match SC.step p s t with
      | [s'] => replay p ts s'
      | _ => none
    else none

theorem replay_exec {p : Prog} : ∀ (ts : List Nat) (s0 s s' : SC.St), SCExec2 p s0 s → replay p ts s = some s' →
    SCExec2 p s0 s' := by
  intro ts
  induction ts with
  | nil => intro s0 s s' h hr; cases hr; exact h
  | cons t ts ih =>
    intro s0 s s' h hr
    unfold replay at hr
    split at hr
    · next hen =>
      split at hr
      · next s1 hst => exact ih s0 s1 s' (.step h hen (by rw [hst]; exact List.mem_singleton.2 rfl)) hr
      · cases hr
    · cases hr

/-- two threads notify the same `Notify`; the main thread has written a cell before, thread 1 reads it after -/
def twoNotifiers : Prog :=
  { cfg := { nCells := 1, nNotifies := 1 }, threads := [[.spawn 1, .cellWrite 0 5, .nNotify 0, .join 1], [.nNotify 0, .cellRead 0]] }

/-- the schedule: the main thread runs up to the branch point of its `notify()`, thread 1 up to the branch point of
ITS `notify()`, then the main thread's effect, then thread 1 -/
def exec : Exec :=
  { Check.initExec twoNotifiers.cfg with path := Refine2.Counter.pathOf [1, 0, 1, 1, 0] }

/-- **REPAIRED finding F26 (the race that used to be missed on this path is reported).**  `twoNotifiers` is
well-formed; `exec` is a fresh thread table with the schedule above, on which the unrepaired twin completed WITHOUT
any panic (thread 1, sitting between the branch point and the effect of its own `notify()`, was taken for a waiter
and acquired the main thread's clock when the main thread's `notify()` took effect; it then read the value `5`
"in order").  Now `Notify::notify` hands no clock to anybody: along the same `exec` the twin ends with the panic
`causality 9` at the `cellRead` of thread 1, after exactly the events main: `spawn`, `cellWrite`, `nNotify`; thread 1:
`nNotify`; and the run satisfies the one run-level hypothesis of the theorems above (`okIter`).  In the reference
semantics the very same order of operations is an execution that stops with the verdict `race 9` at the `cellRead`
of thread 1 (`nNotify` acquires nothing, the write and the read are unordered): the two agree. -/
theorem two_notifiers_race_reported :
    WF3 twoNotifiers ∧ FreshExec2 exec ∧
    (runIter twoNotifiers exec).term = some (.causality 9) ∧
    (runIter twoNotifiers exec).events.map triple =
      [(0, 0, .unit), (0, 1, .unit), (0, 2, .unit), (1, 0, .unit)] ∧
    okIter twoNotifiers exec = true ∧
    (replay twoNotifiers [0, 0, 0, 1] (SC.init twoNotifiers)).map (·.verdict) = some none ∧
    (replay twoNotifiers [0, 0, 0, 1, 1] (SC.init twoNotifiers)).map (·.verdict) = some (some (.race 9)) := by
  refine ⟨by decide +kernel, ⟨rfl, rfl⟩, by decide +kernel, by decide +kernel, by decide +kernel,
    by decide +kernel, by decide +kernel⟩

/-- … the twin's order of operations, replayed, is a reference execution that ends with the verdict `race 9` -/
theorem two_notifiers_reference_race :
    ∃ s, SCExec2 twoNotifiers (SC.init twoNotifiers) s ∧ s.verdict = some (.race 9) ∧
      replay twoNotifiers [0, 0, 0, 1, 1] (SC.init twoNotifiers) = some s := by
  cases h : replay twoNotifiers [0, 0, 0, 1, 1] (SC.init twoNotifiers) with
  | none =>
    have := two_notifiers_race_reported.2.2.2.2.2.2
    rw [h] at this; cases this
  | some s =>
    refine ⟨s, replay_exec _ _ _ _ (.nil _) h, ?_, rfl⟩
    have := two_notifiers_race_reported.2.2.2.2.2.2
    rw [h] at this
    simpa using this

/-- … and the headline theorem applies to this very run (no `staleOk` to check any more): the report is real -/
theorem two_notifiers_report_is_real :
    ∃ s, SCExec2 twoNotifiers (SC.init twoNotifiers) s ∧ s.verdict = some (.race 9) :=
  runIter_reported_race_is_real two_notifiers_race_reported.1 (by decide +kernel) two_notifiers_race_reported.2.1
    two_notifiers_race_reported.2.2.2.2.1 two_notifiers_race_reported.2.2.1

/-- the default exploration of the same program reports the race in its first iteration (as it did before the
repair) -/
theorem default_exploration_reports :
    (Check.run twoNotifiers 100).2 = .panicked (.causality 9) := by decide +kernel

end Repaired

end Race2
end LoomVerif

/-
The test oracle's enumerator of the reference interleaving semantics is complete.

Every `sc_check` verdict compares the outcomes loom produced with the outcome set computed by
the enumerator of `Spec/SC.lean`.  The enumerator that used to do this (`SC.explore`) is not a
total definition (opaque to proofs); its completeness was a trusted assumption.  `SC.exploreV` (`Oracle/SCEnumV.lean`) is
the same worklist algorithm, total, and these are the theorems about it (proofs:
`Proofs/OracleSC.lean`).

Vocabulary: `SC.succs p s` — the successors of `s` (every step of every enabled thread, every
spurious transition of every thread; textually the `succ` of `explore`); `SC.Reach p s` — `s` is
reachable from `SC.init p` along `succs` (`ReachFrom` is the reflexive-transitive closure);
a state is terminal iff `enabledThreads p s = []` (a terminal state may still have spurious
successors: its outcome is recorded AND its successors are explored, as in `explore`).
-/
import LoomVerif.Proofs.OracleSC

namespace LoomVerif.Oracle
open LoomVerif SC

/-- Soundness: every reported outcome is the outcome of a reachable terminal state (capped or
not). -/
theorem exploreV_sound {p : Prog} {n : Nat} {o : Outcome} (h : o ∈ (exploreV p n).outcomes) :
    ∃ s, Reach p s ∧ enabledThreads p s = [] ∧ outcome s = o :=
  SC.exploreV_sound h

/-- Completeness: if the result is not capped, the outcome of every reachable terminal state is
reported. -/
theorem exploreV_complete {p : Prog} {n : Nat} {s : St} (hc : (exploreV p n).capped = false)
    (r : Reach p s) (ht : enabledThreads p s = []) : outcome s ∈ (exploreV p n).outcomes :=
  SC.exploreV_complete hc r ht

/-- Both directions. -/
theorem exploreV_outcomes_iff {p : Prog} {n : Nat} (hc : (exploreV p n).capped = false)
    (o : Outcome) : o ∈ (exploreV p n).outcomes ↔
      ∃ s, Reach p s ∧ enabledThreads p s = [] ∧ outcome s = o :=
  SC.exploreV_outcomes_iff hc o

/-- Not capped: `states` is the number of distinct reachable states. -/
theorem exploreV_states {p : Prog} {n : Nat} (hc : (exploreV p n).capped = false) :
    ∃ l : List St, l.Nodup ∧ (∀ s, s ∈ l ↔ Reach p s) ∧ (exploreV p n).states = l.length :=
  SC.exploreV_states hc

/-- The cap flag is genuine: it is set only if there are more than `n` distinct reachable states.
In particular the fuel of the outer loop (`max n 1` pops) never runs out. -/
theorem exploreV_capped {p : Prog} {n : Nat} (hc : (exploreV p n).capped = true) :
    ∃ l : List St, l.Nodup ∧ (∀ s, s ∈ l → Reach p s) ∧ n < l.length :=
  SC.exploreV_capped hc

/-- `states` stays within the cap. -/
theorem exploreV_states_le (p : Prog) (n : Nat) : (exploreV p n).states ≤ max n 1 :=
  SC.exploreV_states_le p n

/-- The definition-shaped enumerator `outcomesNaive` (a plain recursion over the transition
relation), when its fuel suffices, lists exactly the outcomes of the terminal states reachable
from its start state. -/
theorem outcomesNaive_spec (p : Prog) (fuel : Nat) (s : St) (l : List Outcome)
    (h : outcomesNaive p fuel s = some l) (o : Outcome) :
    o ∈ l ↔ ∃ t, ReachFrom p s t ∧ enabledThreads p t = [] ∧ outcome t = o :=
  SC.outcomesNaive_spec p fuel s l h o

/-- Hence the two enumerators report the same set whenever both finish. -/
theorem exploreV_eq_naive {p : Prog} {n fuel : Nat} {l : List Outcome}
    (hc : (exploreV p n).capped = false) (hn : outcomesNaive p fuel (init p) = some l)
    (o : Outcome) : o ∈ (exploreV p n).outcomes ↔ o ∈ l :=
  SC.exploreV_eq_naive hc hn o

/-- A checkable certificate for "not capped": a list that contains the initial state, is closed
under `succs` and is no longer than the cap. -/
theorem exploreV_not_capped {p : Prog} {n : Nat} {L : List St} (h : closedList p L = true)
    (hn : L.length ≤ n) : (exploreV p n).capped = false :=
  SC.exploreV_not_capped h hn

/-- Sanity check on `cfg n=1 | T0: spawn 1; nnotify 0; join 1 | T1: nwait 0`: the kernel evaluates
the list-based closure `reachList` (13 states, closed) and `outcomesNaive` (one outcome); by the
theorems above `exploreV` is not capped, counts 13 states and reports exactly that outcome.  (The
kernel cannot evaluate `exploreV` itself: `mixHash` is opaque.) -/
theorem tiny_exploreV : (exploreV Example.tiny 1000).capped = false ∧
    (exploreV Example.tiny 1000).states = 13 ∧
    ∀ o, o ∈ (exploreV Example.tiny 1000).outcomes ↔ o = Example.tinyOutcome :=
  Example.tiny_exploreV

end LoomVerif.Oracle

/-
DEADLOCK SOUNDNESS (the "only if" half of property C05) for the lock fragment of the DSL, as theorems about the twin.

C05: "`loom::model` fails with a deadlock panic iff the program can reach a state in which some thread has not
finished and no thread can take a step."  Here: **whenever the twin reports a deadlock, the reference execution
the run corresponds to (`Props/Refine.lean`) has reached a deadlocked state**: no thread is `SCData.enabled` and
some started thread has not finished.

Fragment (each operation at full strength): `spawn`, `join`, `lock`, `unlock`, `tryLock`, `cellRead`, `cellWrite`,
`ifEq`, the end of a thread.  Nothing is `…_partial`.

1. The strengthened relation `Deadlock.RB w s := R w s ∧ JB w ∧ ReplayOK w.exec.path` (`Proofs/DeadlockDefs.lean`).
   `JB` is a twin-side invariant (`JTd`/`Pend`): a loom thread past the branch point of `lock m` / `tryLock m` /
   `join b` has exactly the pending operation that branch point recorded (WAITING on the mutex object; NOT waiting;
   on the `JoinHandle` notify of `b`), and is `blocked` EXACTLY when the mutex is held / the joined thread has not
   passed its notification; at any other point it is not blocked; no thread is ever in `yield` state; a thread is
   `terminated` only at the end of its epilogue.  Read through `R` this is the reference-side statement:
   `blocked_means_disabled`, `runnable_means_enabled`, `tryLock_never_blocked`.
   `RB` holds initially (`rb_initial`) and is preserved by every successful stage (`step_preserves`).
2. `deadlock_stage_is_real` (one stage), `reported_deadlock_is_real` (`runLoop`), `runIter_deadlock_is_real`,
   `reported_deadlock_is_SC_deadlock` (lifted to `Spec/SC.lean`: `SC.finalVerdict = deadlock`, or a data race on a
   prefix), and `check_deadlock_is_real`: NO hypothesis on the execution record — every iteration of `Check.run`
   satisfies them (`Proofs/DeadlockCheck.lean`, `runIter_iterInv`).
3. Non-vacuity: `Example.abba_*` (the AB-BA lock-order inversion deadlocks in the second iteration of `Check.run`;
   the hypotheses of the theorem hold for that iteration), `Example.tl_*` (`try_lock` by a thread the holder joins:
   no iteration reports a deadlock — the pinned loom did, finding F9).

Hypotheses, all explicit — two more than the refinement theorem, both NECESSARY (counterexamples below):
* `Deadlock.WF prog` = `Refine.WF prog` ∧ `JoinOnce prog`: each body is joined by at most one operation of the
  program text.  A `JoinHandle` is consumed by `join`; the DSL can write `join b` twice and the twin then blocks on
  the consumed notification although the reference `join` of a finished thread is enabled:
  `double_join_false_deadlock`.
* `Deadlock.FreshExec exec` = `Refine.FreshExec exec` ∧ the main thread is RUNNABLE (as `Exec.new`/`Exec.step` produce
  it: `freshExec_new`, `freshExec_step`): `blocked_start_false_deadlock`.
* `Deadlock.ReplayOK exec.path`: every `Schedule` entry of the path to replay has an active thread.  True of the
  empty path; decidable.  `Exec.schedule` takes the replayed entry's word for it that no thread can run:
  `empty_schedule_false_deadlock`.
-/
import LoomVerif.Proofs.DeadlockCheck
import LoomVerif.Proofs.C05SC
import LoomVerif.Props.Refine
import LoomVerif.Model.Check

namespace LoomVerif
namespace Deadlock
open Refine

/-! ## 1. the strengthened relation -/

/-- `RB` holds between the initial world and the initial reference state -/
theorem rb_initial {prog : Prog} {exec : Exec} {w0 : World} (hwf : WF prog) (hfresh : FreshExec exec)
    (hpath : ReplayOK exec.path) (hinit : World.init prog exec = .ok w0) :
    RB w0 (data (SC.init prog)) :=
  (init_RB hwf hfresh hpath hinit).1

/-- **`RB` is preserved by every successful stage of the active thread** over the fragment: the world reached is
related (`RB`) to the same reference state (a stuttering stage) or to its successor by the ENABLED step of the body
the active thread runs, whose label is the event logged (`Refine.step_simulation` with `RB` for `R`) -/
theorem step_preserves {w w' : World} {s : SCData} (hwf : WF w.prog) (hRB : RB w s)
    (hactive : w.ths.isActive = true) (hact : w.tid < w.ctl.length) (h : w.stepActive = .ok w') :
    w'.prog = w.prog ∧
    ((RB w' s ∧ w'.events = w.events) ∨
     ∃ l s', SCData.enabled w.prog s (w.ctlOf w.tid).body = true ∧
       (l, s') ∈ SCData.stepL w.prog s (w.ctlOf w.tid).body ∧ RB w' s' ∧
       w'.events.map triple = SCData.label (w.ctlOf w.tid).body l ++ w.events.map triple) :=
  step_pres hwf hRB hactive hact h

/-- **blocked means disabled.**  A loom thread in state `blocked` is, in the reference state, a started thread that
has not finished and is NOT enabled: its pending operation is a `lock m` with `m` held, or a `join b` of an unfinished
body -/
theorem blocked_means_disabled {w : World} {s : SCData} (hwf : WF w.prog) (hRB : RB w s) {i : Nat}
    (hi : i < w.ctl.length) (hb : (w.ths.get i).state = .blocked) :
    SCData.enabled w.prog s (w.ctlOf i).body = false ∧
    (s.th (w.ctlOf i).body).started = true ∧ (s.th (w.ctlOf i).body).finished = false ∧
    ((∃ m, opAtOf w i = some (.lock m) ∧ (s.mutex.getD m none).isSome = true) ∨
     (∃ b, opAtOf w i = some (.join b) ∧ (s.th b).finished = false)) :=
  blocked_disabled hwf hRB hi hb

/-- a terminated loom thread has finished in the reference state -/
theorem terminated_means_finished {w : World} {s : SCData} (hRB : RB w s) {i : Nat}
    (hi : i < w.ctl.length) (ht : (w.ths.get i).state = .terminated) :
    (s.th (w.ctlOf i).body).finished = true := by
  have hJ : JTd w.prog w.spawned w.exec.objs (fun t => (w.ctlOf t).fin) (i = w.tid) (w.ths.get i) (w.ctlOf i) :=
    hRB.j.thr i hi
  have hf : (s.th (w.ctlOf i).body).finished = decide (10 ≤ (w.ctlOf i).fin) := (hRB.r.x.thr i hi).2.2.2.2.1
  rw [hf, hJ.term ht]; rfl

/-- **runnable past the branch point means enabled.**  No loom thread is ever in `yield` state; a thread that is
`runnable` after the branch point of its `lock` / `tryLock` / `join` (`stage = 1`) is enabled in the reference state:
the mutex is free, the joined thread has finished.  (Before the branch point of a `lock` of a held mutex a thread is
runnable and not yet enabled: it blocks AT the branch point.  At any other operation, and at the end of its body
before the notification of the epilogue, a thread is enabled whatever its state: `Refine.step_simulation`.) -/
theorem runnable_means_enabled {w : World} {s : SCData} (hwf : WF w.prog) (hRB : RB w s) {i : Nat}
    (hi : i < w.ctl.length) :
    (w.ths.get i).state ≠ .yield ∧
    ((w.ths.get i).state = .runnable → (w.ctlOf i).stage = 1 →
      SCData.enabled w.prog s (w.ctlOf i).body = true) :=
  ⟨(hRB.j.thr i hi).noYield, fun hr hs => runnable_enabled hwf hRB hi hr hs⟩

/-- **a thread pending on a `try_lock` is never blocked** (finding F9, repaired), wherever it is in the operation -/
theorem tryLock_never_blocked {w : World} {s : SCData} (hRB : RB w s) {i m : Nat} (hi : i < w.ctl.length)
    (hop : opAtOf w i = some (.tryLock m)) : (w.ths.get i).state ≠ .blocked := by
  have hJ : JTd w.prog w.spawned w.exec.objs (fun t => (w.ctlOf t).fin) (i = w.tid) (w.ths.get i) (w.ctlOf i) :=
    hRB.j.thr i hi
  by_cases h1 : (w.ctlOf i).stage = 1
  · cases hJ.st1 h1 with
    | lock m' l a => have : some (Op.lock m') = some (Op.tryLock m) := a.symm.trans hop; cases this
    | tryLock m' a b x => exact x
    | join b t n wt a => have : some (Op.join b) = some (Op.tryLock m) := a.symm.trans hop; cases this
  · exact (hJ.st0 h1).1

/-! ## 2. deadlock soundness -/

/-- **a stage that panics with "deadlock" does so in a deadlocked reference state**: `RB w s` and
`w.stepActive = .error .deadlock` imply that no thread is enabled in `s` and some started thread has not finished -/
theorem deadlock_stage_is_real {w : World} {s : SCData} (hwf : WF w.prog) (hRB : RB w s)
    (hactive : w.ths.isActive = true) (hact : w.tid < w.ctl.length)
    (h : w.stepActive = .error .deadlock) :
    (∀ t, SCData.enabled w.prog s t = false) ∧ ∃ t, (s.th t).started = true ∧ (s.th t).finished = false :=
  step_deadlock hwf hRB hactive hact h

/-- **Every deadlock the twin reports is real.**  If a run of the twin from a fresh execution ends with the panic
"deadlock", then the reference execution the run corresponds to — a run of the data semantics from the initial
reference state, every step a step of a thread enabled in the reference state, whose trace of recorded
`(thread, pc, result)` triples is exactly the event log of the twin — has reached a DEADLOCKED state: no thread is
enabled and some started thread has not finished.  (`w` is the world reached before the panicking stage.) -/
theorem reported_deadlock_is_real {prog : Prog} {exec : Exec} {w0 w : World} {fuel : Nat}
    (hwf : WF prog) (hfresh : FreshExec exec) (hpath : ReplayOK exec.path)
    (hinit : World.init prog exec = .ok w0) (hrun : World.runLoop fuel w0 = (w, some .deadlock)) :
    ∃ s, SCData.Run prog (data (SC.init prog)) (w.events.reverse.map triple) s ∧
      (∀ t, SCData.enabled prog s t = false) ∧ ∃ t, (s.th t).started ∧ ¬ (s.th t).finished := by
  obtain ⟨hRB, hp, hev⟩ := init_RB hwf hfresh hpath hinit
  obtain ⟨s, hrun', hRB', hp', hr', hfin⟩ := runLoop_RB prog (data (SC.init prog)) hwf fuel w0 w _ _ hp hRB
    (init_inRange hfresh.1 hinit) (by rw [hev]; exact SCData.Run.nil _) hrun
  obtain ⟨hact, hstep⟩ := hfin .deadlock rfl (by simp)
  have hin : w.tid < w.ctl.length := by rw [hRB'.r.lenCtl]; exact hr' hact
  have hd := step_deadlock (by rw [hp']; exact hwf) hRB' hact hin hstep
  rw [hp'] at hd
  obtain ⟨h1, t, h2, h3⟩ := hd
  exact ⟨s, hrun', h1, t, h2, by rw [h3]; simp⟩

/-- the same for one iteration `runIter` (run, then the leak check, which never reports a deadlock): the events it
reports are the trace of a reference run that ends in a deadlocked state -/
theorem runIter_deadlock_is_real {prog : Prog} {exec : Exec} {w0 : World} {fuel : Nat}
    (hwf : WF prog) (hfresh : FreshExec exec) (hpath : ReplayOK exec.path)
    (hinit : World.init prog exec = .ok w0) (hterm : (runIter prog exec fuel).term = some .deadlock) :
    ∃ s, SCData.Run prog (data (SC.init prog)) ((runIter prog exec fuel).events.map triple) s ∧
      (∀ t, SCData.enabled prog s t = false) ∧ ∃ t, (s.th t).started ∧ ¬ (s.th t).finished := by
  unfold runIter at hterm ⊢
  rw [hinit] at hterm ⊢
  simp only at hterm ⊢
  generalize hr : World.runLoop fuel w0 = res at hterm ⊢
  obtain ⟨w, r⟩ := res
  cases r with
  | some e =>
    simp only at hterm ⊢
    cases hterm
    exact reported_deadlock_is_real hwf hfresh hpath hinit hr
  | none =>
    simp only at hterm ⊢
    cases hc : w.exec.objs.checkForLeaks with
    | error e =>
      rw [hc] at hterm
      simp only [Option.some.injEq] at hterm
      exact absurd hterm (checkForLeaks_notDL hc)
    | ok u =>
      rw [hc] at hterm
      cases hterm

/-- the loop of `Builder::check`: the execution record of every iteration satisfies `IterInv` (fresh thread table,
well-formed path all of whose `Schedule` entries have an active thread) -/
theorem loop_deadlock_is_real {prog : Prog} (hwf : WF prog) :
    ∀ (fuel i : Nat) (e : Exec), IterInv e → ∀ (its : List Iteration) (o : Outcome),
      Check.loop prog fuel i e = (its, o) → o = .panicked .deadlock →
      ∃ it ∈ its, it.result.term = some .deadlock ∧
        ∃ s, SCData.Run prog (data (SC.init prog)) (it.result.events.map triple) s ∧
          (∀ t, SCData.enabled prog s t = false) ∧ ∃ t, (s.th t).started ∧ ¬ (s.th t).finished := by
  intro fuel
  induction fuel with
  | zero =>
    intro i e _ its o h ho
    simp only [Check.loop, Prod.mk.injEq] at h
    rw [← h.2] at ho; cases ho
  | succ fuel ih =>
    intro i e hinv its o h ho
    unfold Check.loop at h
    split at h
    · simp only [Prod.mk.injEq] at h
      rw [← h.2] at ho; cases ho
    · simp only at h
      split at h
      · next p hterm =>
        simp only [Prod.mk.injEq] at h
        obtain ⟨rfl, rfl⟩ := h
        simp only [Outcome.panicked.injEq] at ho
        subst ho
        refine ⟨_, List.mem_singleton.2 rfl, hterm, ?_⟩
        cases hinit : World.init prog e with
        | error err =>
          exfalso
          unfold runIter at hterm
          rw [hinit] at hterm
          simp only [Option.some.injEq] at hterm
          exact init_notDL hinit hterm
        | ok w0 => exact runIter_deadlock_is_real hwf hinv.1 hinv.2.2.replayOK hinit hterm
      · next hterm =>
        split at h
        · simp only [Prod.mk.injEq] at h
          rw [← h.2] at ho; cases ho
        · next e' hstep =>
          cases hl : Check.loop prog fuel (i + 1) e' with
          | mk rest o' =>
            rw [hl] at h
            simp only [Prod.mk.injEq] at h
            obtain ⟨rfl, rfl⟩ := h
            obtain ⟨it, hit, h1, h2⟩ := ih (i + 1) e' (runIter_iterInv hwf hinv hterm hstep) rest _ hl ho
            exact ⟨it, List.mem_cons_of_mem _ hit, h1, h2⟩

/-- **Every deadlock `Check.run` reports is real** — no hypothesis on paths or execution records: if
`Builder::check` (the twin's `Check.run`) ends with the panic "deadlock" on a well-formed program of the lock
fragment, then the iteration that panicked reports events that are the trace of a reference run — every step a step
of a thread enabled in the reference state — ending in a DEADLOCKED reference state: no thread is enabled and some
started thread has not finished.  (The execution records `Check.run` hands to its iterations — `Exec.new`, then
`Exec.step` of the previous one — are fresh and their paths name a thread at every scheduling point:
`runIter_iterInv`.) -/
theorem check_deadlock_is_real {prog : Prog} {fuel : Nat} (hwf : WF prog)
    (h : (Check.run prog fuel).2 = .panicked .deadlock) :
    ∃ it ∈ (Check.run prog fuel).1, it.result.term = some .deadlock ∧
      ∃ s, SCData.Run prog (data (SC.init prog)) (it.result.events.map triple) s ∧
        (∀ t, SCData.enabled prog s t = false) ∧ ∃ t, (s.th t).started ∧ ¬ (s.th t).finished := by
  unfold Check.run at h ⊢
  cases hl : Check.loop prog fuel 1 (Check.initExec prog.cfg) with
  | mk its o =>
    rw [hl] at h
    exact loop_deadlock_is_real hwf fuel 1 _ (iterInv_initExec _) its o hl h

/-- … and hence a deadlock of `Spec/SC.lean` itself: there is a reference execution (`SCExec`: every step is
`SC.step` of a thread that is `SC.enabled`) from `SC.init prog` that ends in a state without verdict in which no
thread is `SC.enabled` and whose final verdict is `deadlock` (C05: `SC.finalVerdict`) — a state whose data is the end
of the data run whose trace is the twin's event log — or, a prefix of the run, ends in a data-race verdict. -/
theorem reported_deadlock_is_SC_deadlock {prog : Prog} {exec : Exec} {w0 w : World} {fuel : Nat}
    (hwf : WF prog) (hfresh : FreshExec exec) (hpath : ReplayOK exec.path)
    (hinit : World.init prog exec = .ok w0) (hrun : World.runLoop fuel w0 = (w, some .deadlock)) :
    ∃ s, SCExec prog (SC.init prog) s ∧
      ((s.verdict = none ∧ (∀ t, SC.enabled prog s t = false) ∧ SC.finalVerdict s = .deadlock ∧
          SCData.Run prog (data (SC.init prog)) (w.events.reverse.map triple) (data s)) ∨
        ∃ k, s.verdict = some (.race k)) := by
  obtain ⟨d, hr, hno, t, hst, hnf⟩ := reported_deadlock_is_real hwf hfresh hpath hinit hrun
  obtain ⟨s, hex, hc⟩ := Run.lift (Refine.WF.fragProg hwf.1) hr
  refine ⟨s, hex, ?_⟩
  rcases hc with ⟨hfs, hd⟩ | hrace
  · subst hd
    refine .inl ⟨hfs.1, fun u => ?_, ?_, hr⟩
    · rw [SC.enabled_data hfs.1 (hfs.2 u) (fun op ho => (Refine.WF.fragProg hwf.1) _ _ _ ho)]
      exact hno u
    · rw [SC.finalVerdict_deadlock_iff]
      refine .inr ⟨hfs.1, (SC.allDone_false_iff s).2 ?_⟩
      rw [data_th] at hst hnf
      have hst' : (s.th t).started = true := hst
      have hnf' : (s.th t).finished = false := by
        cases hh : (s.th t).finished with
        | false => rfl
        | true => exact absurd (show (dth (s.th t)).finished = true from hh) hnf
      have hlt : t < s.ths.length := by
        apply Classical.byContradiction
        intro hn
        have : s.th t = {} := by
          unfold SC.St.th
          have : s.ths[t]? = none := List.getElem?_eq_none (by omega)
          simp [List.getD, this]
        rw [this] at hst'
        cases hst'
      refine ⟨s.th t, ?_, hst', hnf'⟩
      unfold SC.St.th
      rw [List.getD_eq_getElem?_getD, List.getElem?_eq_getElem hlt]
      exact List.getElem_mem hlt
  · exact .inr hrace

/-! ## 3. non-vacuity -/

namespace Example

/-- the AB-BA lock-order inversion: the main thread takes mutex 0 then mutex 1, the spawned thread mutex 1 then
mutex 0 -/
def abba : Prog :=
  { cfg := { nCells := 0, nMutexes := 2 },
    threads := [[.spawn 1, .lock 0, .lock 1, .unlock 1, .unlock 0, .join 1],
                [.lock 1, .lock 0, .unlock 0, .unlock 1]] }

theorem abba_wf : WF abba := by decide +kernel

/-- the first iteration of the exploration, and the second one (the path the first one leaves behind) -/
def exec0 : Exec := Check.initExec abba.cfg
def exec1 : Exec := ((runIter abba exec0).exec.step).getD exec0

/-- `Check.run` explores two iterations: the first one (no preemption) completes, the second one — the execution
`exec1` — panics with "deadlock" and `Builder::check` unwinds with it -/
theorem abba_check :
    (Check.run abba).2 = .panicked .deadlock ∧
    (Check.run abba).1.map (·.start) = [exec0.path, exec1.path] ∧
    (Check.run abba).1.map (·.result.term) = [none, some .deadlock] := by
  refine ⟨by decide +kernel, by decide +kernel, by decide +kernel⟩

/-- the hypotheses of `runIter_deadlock_is_real` hold for that second iteration -/
theorem abba_hyps :
    FreshExec exec1 ∧ ReplayOK exec1.path ∧ (World.init abba exec1).toOption.isSome = true ∧
    (runIter abba exec1).term = some .deadlock := by
  refine ⟨by decide +kernel, by decide +kernel, by decide +kernel, by decide +kernel⟩

/-- … so the events it reports are the trace of a reference run that ends in a deadlocked state (by the theorem) -/
theorem abba_deadlock_is_real :
    ∃ s, SCData.Run abba (data (SC.init abba)) ((runIter abba exec1).events.map triple) s ∧
      (∀ t, SCData.enabled abba s t = false) ∧ ∃ t, (s.th t).started ∧ ¬ (s.th t).finished := by
  cases hi : World.init abba exec1 with
  | error e =>
    have := abba_hyps.2.2.1
    rw [hi] at this
    cases this
  | ok w0 => exact runIter_deadlock_is_real abba_wf abba_hyps.1 abba_hyps.2.1 hi abba_hyps.2.2.2

/-- the same from `check_deadlock_is_real`, which needs nothing but `WF abba` and the outcome of `Check.run` -/
theorem abba_check_is_real :
    ∃ it ∈ (Check.run abba).1, it.result.term = some .deadlock ∧
      ∃ s, SCData.Run abba (data (SC.init abba)) (it.result.events.map triple) s ∧
        (∀ t, SCData.enabled abba s t = false) ∧ ∃ t, (s.th t).started ∧ ¬ (s.th t).finished :=
  check_deadlock_is_real abba_wf abba_check.1

/-- the trace in question: the main thread spawns and takes mutex 0, the spawned thread takes mutex 1 -/
example : (runIter abba exec1).events.map triple = [(0, 0, .unit), (0, 1, .unit), (1, 0, .unit)] := by
  decide +kernel

/-- `try_lock` by a thread the holder of the mutex joins.  (With the pinned loom the main thread's acquisition
blocked the spawned thread at the branch point of its `try_lock`, and the `join` then deadlocked: finding F9.) -/
def tl : Prog :=
  { cfg := { nCells := 0, nMutexes := 1 },
    threads := [[.spawn 1, .lock 0, .join 1, .unlock 0],
                [.tryLock 0, .ifEq 1 (.val 1) 1, .unlock 0]] }

theorem tl_wf : WF tl := by decide +kernel

/-- the exploration completes: four iterations, none reports a deadlock; in two of them the `try_lock` fails -/
theorem tl_never_deadlocks :
    (Check.run tl).2 = .completed ∧
    (Check.run tl).1.map (·.result.term) = [none, none, none, none] ∧
    (Check.run tl).1.map (fun it => (it.result.events.map triple).lookup 1) =
      [some (0, .val 0), some (0, .val 1), some (0, .val 1), some (0, .val 0)] := by
  refine ⟨by decide +kernel, by decide +kernel, by decide +kernel⟩

end Example

/-! ## 4. the extra hypotheses are necessary -/

/-- a run of the data semantics along a list of thread ids (the first successor each time) -/
def follow (p : Prog) : SCData → List Nat → Option (SCData × List (Nat × Nat × Ret))
  | d, [] => some (d, [])
  | d, t :: ts =>
    if SCData.enabled p d t then
      match SCData.stepL p d t with
      | (l, d') :: _ => (follow p d' ts).map fun x => (x.1, SCData.label t l ++ x.2)
      | [] => none
    else none

theorem follow_run {p : Prog} {d0 : SCData} : ∀ (ts : List Nat) (d d' : SCData) (tr0 tr : List (Nat × Nat × Ret)),
    SCData.Run p d0 tr0 d → follow p d ts = some (d', tr) → SCData.Run p d0 (tr0 ++ tr) d' := by
  intro ts
  induction ts with
  | nil =>
    intro d d' tr0 tr hrun h
    simp only [follow, Option.some.injEq, Prod.mk.injEq] at h
    obtain ⟨rfl, rfl⟩ := h
    simpa using hrun
  | cons t ts ih =>
    intro d d' tr0 tr hrun h
    unfold follow at h
    split at h
    · next hen =>
      split at h
      · next l d1 rest hst =>
        cases hf : follow p d1 ts with
        | none => rw [hf] at h; cases h
        | some x =>
          rw [hf] at h
          simp only [Option.map_some, Option.some.injEq, Prod.mk.injEq] at h
          obtain ⟨rfl, rfl⟩ := h
          have h1 : SCData.Run p d0 (tr0 ++ SCData.label t l) d1 :=
            SCData.Run.step hrun hen (by rw [hst]; exact List.mem_cons_self)
          have := ih d1 x.1 _ x.2 h1 (by rw [hf])
          rw [List.append_assoc] at this
          exact this
      · cases h
    · cases h

namespace Counter

/-- `join 1` twice -/
def dj : Prog := { cfg := { nCells := 0, nMutexes := 1 }, threads := [[.spawn 1, .join 1, .join 1], []] }

/-- the reference run: main spawns, thread 1 ends, main joins it -/
def djRef : SCData × List (Nat × Nat × Ret) :=
  (follow dj (data (SC.init dj)) [0, 1, 0]).getD (data (SC.init dj), [])

end Counter

/-- **`JoinOnce` is necessary.**  `dj` joins body 1 twice; it satisfies `Refine.WF`; from the fresh execution with
the empty path the twin reports a deadlock (the second `join` blocks on the notification the first one consumed)
after the events `spawn`, `join`.  A reference run with exactly that trace ends in a state in which the main thread
is ENABLED (thread 1 has finished: the second `join` can proceed). -/
theorem double_join_false_deadlock :
    Refine.WF Counter.dj ∧ ¬ JoinOnce Counter.dj ∧
    FreshExec (Check.initExec Counter.dj.cfg) ∧ ReplayOK (Check.initExec Counter.dj.cfg).path ∧
    (runIter Counter.dj (Check.initExec Counter.dj.cfg)).term = some .deadlock ∧
    ∃ s, SCData.Run Counter.dj (data (SC.init Counter.dj))
        ((runIter Counter.dj (Check.initExec Counter.dj.cfg)).events.map triple) s ∧
      SCData.enabled Counter.dj s 0 = true := by
  refine ⟨by decide +kernel, by decide +kernel, freshExec_new _ _ _ _, replayOK_new _ _ _, by decide +kernel,
    Counter.djRef.1, ?_, by decide +kernel⟩
  have h1 : follow Counter.dj (data (SC.init Counter.dj)) [0, 1, 0] = some Counter.djRef := by decide +kernel
  have h2 : Counter.djRef.2 = (runIter Counter.dj (Check.initExec Counter.dj.cfg)).events.map triple := by
    decide +kernel
  have := follow_run [0, 1, 0] _ Counter.djRef.1 [] Counter.djRef.2 (SCData.Run.nil _) h1
  rw [← h2]
  simpa using this

namespace Counter

def p2 : Prog := { cfg := { nCells := 0, nMutexes := 1 }, threads := [[.lock 0, .unlock 0]] }

/-- a `Schedule` entry without an active thread at the first branch point -/
def emptySched : Sched :=
  { preemptions := 0, initialActive := none, threads := [.disabled, .disabled, .disabled, .disabled, .disabled],
    prev := none, exploring := true }

def emptyExec : Exec :=
  { Check.initExec p2.cfg with path := { Path.new 1000 none true with branches := [.sched emptySched] } }

/-- the main thread starts in state `blocked` -/
def blockedExec : Exec :=
  { Check.initExec p2.cfg with threads := { threads := [{ state := .blocked }], active := some 0 } }

end Counter

/-- **`ReplayOK` is necessary.**  A path whose first `Schedule` entry has no active thread: the twin (like loom)
reports a deadlock at the first branch point, before any event, although the main thread is enabled in the initial
reference state. -/
theorem empty_schedule_false_deadlock :
    WF Counter.p2 ∧ FreshExec Counter.emptyExec ∧ ¬ ReplayOK Counter.emptyExec.path ∧
    (runIter Counter.p2 Counter.emptyExec).term = some .deadlock ∧
    (runIter Counter.p2 Counter.emptyExec).events = [] ∧
    SCData.enabled Counter.p2 (data (SC.init Counter.p2)) 0 = true := by
  refine ⟨by decide +kernel, by decide +kernel, by decide +kernel, by decide +kernel, by decide +kernel,
    by decide +kernel⟩

/-- **the main thread must start runnable** (`Deadlock.FreshExec` vs `Refine.FreshExec`): from a thread table whose
only thread is `blocked` the twin reports a deadlock at the first branch point -/
theorem blocked_start_false_deadlock :
    WF Counter.p2 ∧ Refine.FreshExec Counter.blockedExec ∧ ¬ FreshExec Counter.blockedExec ∧
    ReplayOK Counter.blockedExec.path ∧
    (runIter Counter.p2 Counter.blockedExec).term = some .deadlock ∧
    (runIter Counter.p2 Counter.blockedExec).events = [] ∧
    SCData.enabled Counter.p2 (data (SC.init Counter.p2)) 0 = true := by
  refine ⟨by decide +kernel, ⟨rfl, rfl⟩, by decide +kernel, by decide +kernel, by decide +kernel,
    by decide +kernel, by decide +kernel⟩

end Deadlock
end LoomVerif

/-
REFINEMENT of the reference interleaving semantics by the twin, for the STATICS fragment of the DSL (property C17:
"`thread_local!` and `lazy_static!` keep per-thread / per-execution semantics").

Every run of the twin (`World.runLoop` from `World.init`) that ends without a panic is, operation by operation, an
execution of the reference semantics `Spec/SC.lean` as far as VALUES, BLOCKING, THREAD-LOCALS and LAZY STATICS are
concerned: the results the twin records (`World.complete`: the `(thread, pc, result)` triples of `World.events`) — in
particular the instance ids `tls` / `tlsTry` / `tlsNest` return (`t*10 + 1`), what `tlsStat` / `tlsObs` / `lazyStat`
read, and the value read through a lazy static (`inst*100 + 40 + z`) — are exactly, and in the same order, the results
of a run of the reference each of whose steps is a step of a thread ENABLED in the reference state; per thread the
association list of thread-locals, the counters `tlsInits` / `tlsObs` (and `tlsDrops`, up to the values a destructor
re-initialised that are still alive) and the lazy-statics table of the final world are those of the reference end
state (`R5`, `related_threads`, `related_statics`).  Data-race verdicts are outside this statement, as are the
runs in which the twin panics (among them: a thread that outlives the main closure and touches a lazy static,
`lazyShutdown`).

Fragment (operations covered, each at full strength): the lock fragment (`spawn`, `join`, `lock`, `unlock`,
`tryLock`, `cellRead`, `cellWrite`, `ifEq`, the end of a thread) and `tls k`, `tlsTry k`, `tlsNest k j`, `tlsStat k`,
`tlsObs k`, `lazy z`, `lazyStat z`, for `cfg.tlsDtor ∈ {0, 2}` and (for `lazy`) `cfg.nAtomics = 0`.

The end of a thread.  The reference's `finish` step destroys the thread's thread-locals in one step and makes the
thread joinable.  The twin: a spawned thread runs `drop_locals` (first pass), THEN the notification of the joiner (a
branch point, then its effect), then a second `drop_locals` pass and `thread_done`; the main thread runs
`lazy_statics.drop()`, then `drop_locals`, then `thread_done`.  The simulation maps the first `drop_locals` pass of a
spawned thread, and the `drop_locals` of the main thread, to the reference `finish` step (`finD`, `sim_finish5`) —
including (`tlsdtor=2`) the observation of the destructor of key 0 and, when the thread has not touched key 1, the
RE-INITIALISATION of key 1 by it (`R5_obs`, `R5_reinit`) —; all other epilogue stages stutter: the reference thread is
finished BEFORE the twin notifies the joiner (the twin's `join` completes only after the notification); the second
`drop_locals` pass destroys what a destructor re-initialised (`sim_late5`; the reference did so within `finish`); the
main thread's `lazy_statics.drop()` precedes its `finish` step by one stage, with no scheduling point in between
(`R5.lag`).

The data projection `SCData5` (`Proofs/Refine5Data.lean`) is `Refine.SCData` plus `SC.Th.locals` per thread,
`tlsInits`, `tlsDrops`, `tlsObs`, `lazyInit`, `lazyDropped`; `SCData5.step` is exactly the projection of `SC.step`:
`Refine5.step_lift` (data → `SC.step`, unless a race verdict) and `Refine5.step_data` (`SC.step` → data).

Hypotheses, all explicit and decidable / computable:
* `Refine5.WF5 prog` (decidable): a main body; only fragment operations with declared cells / mutexes, keys and
  statics `< 2` (the harness has two of each; the counters are two-element lists), `lazy` only when `nAtomics = 0`;
  `spawn t` naming an existing body `0 < t`; each body spawned by at most one operation of the text; `tlsDtor ∈ {0,2}`
  (destructors without loom operations; `tlsDtor = 1`, destructors that store, is NOT covered).
* `Refine5.FreshExec5 exec`: the thread table and lazy-statics table of the start of an iteration.  Any path.
* `Refine5.okRun5 fuel w0 = true` (computable by running the twin): at every step `resumeOk5` holds:
  - a thread-local is accessed (`tls`, `tlsTry`, `tlsNest`) only by a loom thread whose id is the index of the body it
    runs.  The instance id names the owning thread: the twin (and the harness) use the LOOM THREAD ID, the reference
    the BODY INDEX; they differ when bodies are not spawned in the order of their indices:
    `Counter.spawn_order_not_reference`.
  - `tlsStat k` is not executed while a thread that has taken its `finish` step still owns a LIVE value of key `k`
    (`noStale`).  This only happens with `tlsDtor = 2`, `k = 1`: a thread that ends with key 0 live and key 1
    untouched; the destructor of key 0 then RE-INITIALISES key 1 during `drop_locals` (observation 1; this case IS
    covered by the simulation: `R5_reinit`).  The reference destroys that value within the same `finish` step, the
    twin one `drop_locals` pass later — for a spawned thread AFTER the notification branch point, where another thread
    can read the counters (`Counter.dtor_reinit_window_not_reference`), for the main thread never
    (`Counter.main_reinit_not_reference`): until then the twin's `tlsDrops[1]` is one behind the reference's
    (`RT.cD`, `RCnt.drops`, `drops_eq_of_noStale`).
* with `nAtomics ≠ 0` the initialiser of a lazy static has a scheduling point and can run twice (finding F23); the
  reference initialises at most once and is NOT refined: `Refine5.raced_init_not_reference`.

Headlines: `Refine5.step_simulation`, `Refine5.run_is_reference_execution`, `Refine5.runIter_is_reference_execution`,
`Refine5.run_is_SC_execution`, `Refine5.related_statics`; the corollaries `Refine5.tls_once_per_thread`,
`Refine5.tls_dropped_at_thread_end`, `Refine5.lazy_same_instance`; the negative fact
`Refine5.raced_init_not_reference`.

NOT proved: `tlsDtor = 1` (destructors that store to an atomic: the twin bumps `tlsDrops` for all live keys in
`drop_locals` and then runs one store per key, each behind a branch point; the reference destroys key by key, in any
order, with the counter moving at each step: the data projection would need `SC.Th.phase`); that the reference end
state is a FINAL state (every started thread finished).
-/
import LoomVerif.Proofs.Refine5Run
import LoomVerif.Proofs.Refine5Lift
import LoomVerif.Proofs.Refine5Check
import LoomVerif.Model.Check

namespace LoomVerif
namespace Refine5
open Refine

/-! ## 1. the data-only projection of the reference -/

/-- `SC.enabled` only reads the data -/
theorem enabled_data {p : Prog} {s : SC.St} {t : Nat} (hv : s.verdict = none) (hf : FragTh5 (s.th t))
    (hop : ∀ op, SC.opOf p s t = some op → isFrag5 op = true) :
    SC.enabled p s t = SCData5.enabled p (data5 s) t :=
  enabled_data5 hv hf hop

/-- every step of the data semantics from the data of a reference state (no verdict yet) is the data of a step of
`SC.step` of the same thread, unless that step stops with a data-race verdict -/
theorem step_lift {p : Prog} {s : SC.St} {t : Nat} {l : Option (Nat × Ret)} {d' : SCData5}
    (hd : p.cfg.tlsDtor ≠ 1) (hs : FragSt5 s) (h : (l, d') ∈ SCData5.stepL p (data5 s) t) :
    ∃ s', s' ∈ SC.step p s t ∧ ((FragSt5 s' ∧ data5 s' = d') ∨ ∃ k, s'.verdict = some (.race k)) :=
  step_lift5 hd hs h

/-- conversely `SC.step` on a statics-fragment operation (any `nAtomics`) either stops with a verdict or is
`SCData5.step` on the data -/
theorem step_data {p : Prog} {s s' : SC.St} {t : Nat} (hd : p.cfg.tlsDtor ≠ 1) (hf : FragTh5 (s.th t))
    (hop : ∀ op, SC.opOf p s t = some op → isFrag5 op = true)
    (h : s' ∈ SC.step p s t) (hv : s'.verdict = none) : data5 s' ∈ SCData5.step p (data5 s) t :=
  step_data5 hd hf hop h hv

/-- the label of a step of `SCData5.stepL` is the `(pc, result)` the step records in the thread's `rets` -/
theorem label_is_recorded_result {p : Prog} {d d' : SCData5} {t pc : Nat} {r : Ret}
    (ht : t < d.ths.length) (h : (some (pc, r), d') ∈ SCData5.stepL p d t) :
    pc = (d.th t).pc ∧ (d'.th t).rets = (pc, r) :: (d.th t).rets ∧ (d'.th t).pc = pc + 1 :=
  stepL_label5 ht h

/-! ## 2. one-step simulation -/

/-- **One-step simulation.**  `w` is related to the reference data `s`, its active thread exists and `resumeOk5`
holds; one stage of that thread succeeds.  Then the program is kept, the new active thread (if any) is in the thread
table, and

* either `w'` is related to the same `s` and logs nothing (a stuttering step: a branch point, blocking, scheduling,
  `lazy_statics.drop()`, the epilogue stages other than the `drop_locals` pass that corresponds to `finish`),
* or `w'` is related to a successor `s'` of `s` by a step of the body `t` the active thread runs — a step of
  `SCData5.stepL` (`SC.step`) ENABLED in `s` — and what the twin logs (`complete r`) is exactly the label of that
  step: the `(pc, r)` the reference step records (`label_is_recorded_result`).  For the end of a thread that step is
  the reference's `finish` (no label). -/
theorem step_simulation {w w' : World} {s : SCData5} (hwf : WF5 w.prog) (hR : R5 w s)
    (hact : w.tid < w.ctl.length) (hok : resumeOk5 w = true) (h : w.stepActive = .ok w') :
    (w'.prog = w.prog ∧
     ((R5 w' s ∧ w'.events = w.events) ∨
      ∃ l s', SCData5.enabled w.prog s (w.ctlOf w.tid).body = true ∧
        (l, s') ∈ SCData5.stepL w.prog s (w.ctlOf w.tid).body ∧ R5 w' s' ∧
        w'.events.map triple = SCData.label (w.ctlOf w.tid).body l ++ w.events.map triple)) ∧
    InRange w' :=
  step_sim5 hwf hR hact hok h

/-! ## 3. runs -/

/-- the initial world is related to the initial reference state -/
theorem init_related {prog : Prog} {exec : Exec} {w0 : World} (hwf : WF5 prog) (hfresh : FreshExec5 exec)
    (hinit : World.init prog exec = .ok w0) : R5 w0 (data5 (SC.init prog)) :=
  (init_R5 hwf hfresh hinit).1

/-- **Every complete run of the twin is an execution of the reference.**  From ANY execution record with a fresh
thread table (any path to replay, hence any schedule), if the run of the twin ends without a panic and satisfies
`okRun5`, then there is a run of the data semantics from the initial reference state — each step a step of a thread
enabled in the reference state — whose trace of recorded `(thread, pc, result)` triples is exactly the event log of
the twin, in order, and whose final state is related to the final world. -/
theorem run_is_reference_execution {prog : Prog} {exec : Exec} {w0 w : World} {fuel : Nat}
    (hwf : WF5 prog) (hfresh : FreshExec5 exec) (hinit : World.init prog exec = .ok w0)
    (hok : okRun5 fuel w0 = true) (hrun : World.runLoop fuel w0 = (w, none)) :
    ∃ s, SCData5.Run prog (data5 (SC.init prog)) (w.events.reverse.map triple) s ∧ R5 w s := by
  obtain ⟨hR, hp, hev⟩ := init_R5 hwf hfresh hinit
  obtain ⟨s, h1, h2, _⟩ := runLoop_sim5 prog (data5 (SC.init prog)) hwf fuel w0 w _ hp hR
    (init_inRange hfresh.1 hinit) (by rw [hev]; exact SCData5.Run.nil _) hok hrun
  exact ⟨s, h1, h2⟩

/-- `okRun5` for `runIter` -/
def okIter5 (prog : Prog) (exec : Exec) (fuel : Nat := 200000) : Bool :=
  match World.init prog exec with
  | .ok w0 => okRun5 fuel w0
  | .error _ => false

/-- the same for `runIter`: the events it reports are the trace of a reference run -/
theorem runIter_is_reference_execution {prog : Prog} {exec : Exec} {fuel : Nat}
    (hwf : WF5 prog) (hfresh : FreshExec5 exec) (hok : okIter5 prog exec fuel = true)
    (hterm : (runIter prog exec fuel).term = none) :
    ∃ s, SCData5.Run prog (data5 (SC.init prog)) ((runIter prog exec fuel).events.map triple) s := by
  unfold runIter at hterm ⊢
  unfold okIter5 at hok
  cases hi : World.init prog exec with
  | error e => rw [hi] at hterm; cases hterm
  | ok w0 =>
    rw [hi] at hterm hok
    simp only at hterm hok ⊢
    cases hr : World.runLoop fuel w0 with
    | mk w r =>
      rw [hr] at hterm
      cases r with
      | some e => cases hterm
      | none =>
        obtain ⟨s, h1, _⟩ := run_is_reference_execution hwf hfresh hi hok hr
        simp only
        refine ⟨s, ?_⟩
        split <;> exact h1

/-- … and hence an execution of `Spec/SC.lean` itself (`SCExec`: every step is `SC.step` of a thread that is
`SC.enabled`), with clocks: there is a reference execution from `SC.init prog` that either ends in a state whose data
is related to the final world of the twin (and the twin's event log is the trace of the corresponding data run), or —
a prefix of the run — ends in a data-race verdict. -/
theorem run_is_SC_execution {prog : Prog} {exec : Exec} {w0 w : World} {fuel : Nat}
    (hwf : WF5 prog) (hfresh : FreshExec5 exec) (hinit : World.init prog exec = .ok w0)
    (hok : okRun5 fuel w0 = true) (hrun : World.runLoop fuel w0 = (w, none)) :
    ∃ s, SCExec prog (SC.init prog) s ∧
      ((s.verdict = none ∧ R5 w (data5 s) ∧
          SCData5.Run prog (data5 (SC.init prog)) (w.events.reverse.map triple) (data5 s)) ∨
        ∃ k, s.verdict = some (.race k)) := by
  obtain ⟨d, hr, hR⟩ := run_is_reference_execution hwf hfresh hinit hok hrun
  have hd : prog.cfg.tlsDtor ≠ 1 := by
    rcases hwf.2.2.2 with e | e <;> rw [e] <;> decide
  obtain ⟨s, hex, hc⟩ := Run.lift5 hwf.fragProg hd hr
  refine ⟨s, hex, ?_⟩
  rcases hc with ⟨hfs, hd'⟩ | hrace
  · subst hd'
    exact .inl ⟨hfs.1, hR, hr⟩
  · exact .inr hrace

/-! ## 4. what the relation says -/

/-- in a related state: every twin thread has recorded exactly the results of the reference thread of its body; the
reference thread is finished iff the twin thread has run the `drop_locals` pass that corresponds to `finish`
(`finD`); the two threads own the same keys (at all times); before `finish` the same entries with the same instance
ids, all live in the twin; afterwards every entry of the twin is destroyed, except (`tlsdtor=2`) a value of key 1
re-initialised by the destructor of key 0 -/
theorem related_threads {w : World} {s : SCData5} (hR : R5 w s) (i : Nat) (hi : i < w.ctl.length) :
    (s.th (w.ctlOf i).body).rets = (w.ctlOf i).results ∧ (s.th (w.ctlOf i).body).pc = (w.ctlOf i).pc ∧
    (s.th (w.ctlOf i).body).finished = finD i (w.ctlOf i) ∧
    (w.ctlOf i).locals.map (·.1) = (s.loc (w.ctlOf i).body).map (·.1) ∧
    (finD i (w.ctlOf i) = false →
      (w.ctlOf i).locals = (s.loc (w.ctlOf i).body).map fun e => (e.1, some e.2)) ∧
    (finD i (w.ctlOf i) = true → ∀ e ∈ (w.ctlOf i).locals,
      e.2 = none ∨ ((w.prog.cfg.tlsDtor == 2) = true ∧ e.1 = 1)) ∧
    ((s.loc (w.ctlOf i).body).map (·.1)).Nodup := by
  obtain ⟨_, h⟩ := hR.x.thr i hi
  exact ⟨h.2.2.1, h.2.1, h.2.2.2.1, h.2.2.2.2.2.2.keysEq, h.2.2.2.2.2.2.live, h.2.2.2.2.2.2.dead,
    h.2.2.2.2.2.2.nodup⟩

/-- … the harness counters `tlsInits`, `tlsObs` agree; the reference's `tlsDrops[k]` is the number of threads that
have taken their `finish` step and own key `k`, the twin's the number of destroyed values of key `k`: they agree as
soon as no finished thread owns a live value of key `k` (`noStale`); while the lazy-statics table exists a static is
registered in it iff the reference has initialised it (once), the registered value is instance 1 and its cell holds
`40 + z`; the table is gone only when the reference's `lazyDropped` is set (or the main thread is between
`lazy_statics.drop()` and its `drop_locals`) -/
theorem related_statics {w : World} {s : SCData5} (hR : R5 w s) :
    w.tlsInits = s.tlsInits ∧ w.tlsObs = s.tlsObs ∧ w.lazyInits = s.lazyInit ∧
    (∀ k, k < 2 → s.tlsDrops.getD k 0 = w.ctl.countP fun c => finB c && touched k c) ∧
    (∀ k, k < 2 → w.tlsDrops.getD k 0 = w.ctl.countP (destroyed k)) ∧
    (∀ k, noStale w.ctl k = true → w.tlsDrops.getD k 0 = s.tlsDrops.getD k 0) ∧
    (∀ l, w.exec.lazyStatics = some l → s.lazyDropped = false ∧
      ∀ z, s.lazyInit.getD z 0 = if (l.lookup z).isSome then 1 else 0) ∧
    (∀ l z sv, w.exec.lazyStatics = some l → l.lookup z = some sv → sv.inst = 1 ∧
      ∃ cs : CellSt, w.exec.objs[sv.cell]? = some (.cell cs) ∧ cs.value = 40 + (z : Int)) ∧
    (w.exec.lazyStatics = none → s.lazyDropped = true ∨ (w.ctlOf 0).fin = 10) := by
  refine ⟨hR.t.eI, hR.t.eO, hR.z.eqI, hR.t.cD, hR.c.drops, fun k => drops_eq_of_noStale hR k, hR.z.live, ?_,
    hR.z.gone⟩
  intro l z sv hs hz
  obtain ⟨h1, _, h3⟩ := hR.z.val l z sv hs hz
  exact ⟨h1, objView_cell h3⟩

/-- only a value of key 1 re-initialised by a destructor (`tlsdtor=2`) can outlive its thread's `finish` step -/
theorem noStale_of {w : World} {s : SCData5} (hR : R5 w s) (k : Nat)
    (h : w.prog.cfg.tlsDtor = 2 → k = 1 → noStale w.ctl 1 = true) : noStale w.ctl k = true := by
  unfold noStale
  rw [List.all_eq_true]
  intro c hc
  obtain ⟨i, hi, e⟩ := List.getElem_of_mem hc
  have ec : w.ctl.getD i {} = c := by simp [List.getD, List.getElem?_eq_getElem hi, e]
  obtain ⟨_, hth⟩ := hR.x.thr i hi
  rw [ec] at hth
  have hloc := hth.2.2.2.2.2.2
  have hz0 : c.body = 0 ↔ i = 0 := by rw [← ec]; exact hR.x.body_zero hi
  cases hfb : finB c with
  | false => rfl
  | true =>
    cases hlk : liveK k c with
    | false => rfl
    | true =>
      exfalso
      rw [finB_eq_finD hz0] at hfb
      unfold liveK at hlk
      rcases hq : c.locals.lookup k with _ | _ | v
      · rw [hq] at hlk; cases hlk
      · rw [hq] at hlk; cases hlk
      · rcases hloc.dead hfb _ (mem_of_lookup' hq) with e1 | ⟨e1, e2⟩
        · cases e1
        · have hd : w.prog.cfg.tlsDtor = 2 := by simpa using e1
          have e2' : k = 1 := e2
          have hns := h hd e2'
          unfold noStale at hns
          have := List.all_eq_true.1 hns c hc
          subst e2'
          rw [finB_eq_finD hz0, hfb] at this
          unfold liveK at this
          rw [hq] at this
          cases this

/-! ## 5. the property, as it reads -/

theorem getD_of_mem {α} {l : List α} {x : α} (d : α) (h : x ∈ l) : ∃ i, i < l.length ∧ l.getD i d = x := by
  obtain ⟨i, hi, e⟩ := List.getElem_of_mem h
  exact ⟨i, hi, by simp [List.getD, List.getElem?_eq_getElem hi, e]⟩

/-- **Each (thread, key) is initialised at most once** (`thread_local!` is lazily initialised once per thread).
In the final world of a run that ends without a panic (and satisfies `okRun5`): no thread lists a key twice, and for
each key `k` the harness counter `tlsInits[k]` — the number of times the initialiser of key `k` ran in this
execution — is the number of threads that have touched `k`. -/
theorem tls_once_per_thread {prog : Prog} {exec : Exec} {w0 w : World} {fuel : Nat}
    (hwf : WF5 prog) (hfresh : FreshExec5 exec) (hinit : World.init prog exec = .ok w0)
    (hok : okRun5 fuel w0 = true) (hrun : World.runLoop fuel w0 = (w, none)) :
    (∀ i, i < w.ctl.length → ((w.ctlOf i).locals.map (·.1)).Nodup) ∧
    ∀ k, k < 2 → w.tlsInits.getD k 0 = w.ctl.countP fun c => (c.locals.lookup k).isSome := by
  obtain ⟨s, _, hR⟩ := run_is_reference_execution hwf hfresh hinit hok hrun
  refine ⟨fun i hi => ?_, fun k hk => hR.c.inits k hk⟩
  obtain ⟨_, _, _, h4, _, _, h7⟩ := related_threads hR i hi
  rw [h4]; exact h7

/-- **Thread-locals are dropped at thread end.**  In the final world of a run that ends without a panic (and
satisfies `okRun5`), with `s` the reference end state: if every thread that has touched key `k` is finished in `s`
(as it is once it has been joined: `join` is enabled only on a finished thread), then `tlsDrops[k] = tlsInits[k]`:
every value of key `k` that was created has been destroyed — provided (`tlsdtor=2`, `k = 1` only) no value that a
destructor re-initialised is still alive (`noStale`; the twin destroys such a value of a spawned thread in its second
`drop_locals` pass, and never destroys that of the main thread: `Counter.main_reinit_not_reference`). -/
theorem tls_dropped_at_thread_end {prog : Prog} {exec : Exec} {w0 w : World} {fuel : Nat}
    (hwf : WF5 prog) (hfresh : FreshExec5 exec) (hinit : World.init prog exec = .ok w0)
    (hok : okRun5 fuel w0 = true) (hrun : World.runLoop fuel w0 = (w, none)) :
    ∃ s, SCData5.Run prog (data5 (SC.init prog)) (w.events.reverse.map triple) s ∧ R5 w s ∧
      ∀ k, k < 2 →
        (prog.cfg.tlsDtor = 2 → k = 1 → noStale w.ctl 1 = true) →
        (∀ i, i < w.ctl.length → ((w.ctlOf i).locals.lookup k).isSome = true →
          (s.th (w.ctlOf i).body).finished = true) →
        w.tlsDrops.getD k 0 = w.tlsInits.getD k 0 := by
  obtain ⟨hR0, hp, hev0⟩ := init_R5 hwf hfresh hinit
  obtain ⟨s, hr, hR, hp'⟩ := runLoop_sim5 prog (data5 (SC.init prog)) hwf fuel w0 w _ hp hR0
    (init_inRange hfresh.1 hinit) (by rw [hev0]; exact SCData5.Run.nil _) hok hrun
  refine ⟨s, hr, hR, fun k hk hns hfin => ?_⟩
  have hns' : noStale w.ctl k = true := noStale_of hR k (by rw [hp']; exact hns)
  rw [drops_eq_of_noStale hR k hns', hR.t.cD k hk, hR.c.inits k hk]
  apply List.countP_congr
  intro c hc
  obtain ⟨i, hi, e⟩ := getD_of_mem ({} : TCtl) hc
  have ec : w.ctlOf i = c := e
  have hz0 : c.body = 0 ↔ i = 0 := by rw [← ec]; exact hR.x.body_zero hi
  constructor
  · intro h
    simp only [Bool.and_eq_true] at h
    exact h.2
  · intro h
    obtain ⟨_, _, h3, _⟩ := related_threads hR i hi
    rw [ec] at h3
    have hf := hfin i hi (by rw [ec]; exact h)
    rw [ec, h3] at hf
    simp only [Bool.and_eq_true]
    exact ⟨by rw [finB_eq_finD hz0]; exact hf, h⟩

/-- **All accesses to a lazy static see the same instance** (when the program declares no atomic: `WF5`).  In a run
that ends without a panic (and satisfies `okRun5`) every `lazy z` returns `140 + z` — instance 1, content `40 + z` —;
in particular any two results of `lazy z` in one run are equal. -/
theorem lazy_same_instance {prog : Prog} {exec : Exec} {w0 w : World} {fuel : Nat}
    (hwf : WF5 prog) (hfresh : FreshExec5 exec) (hinit : World.init prog exec = .ok w0)
    (hok : okRun5 fuel w0 = true) (hrun : World.runLoop fuel w0 = (w, none)) :
    (∀ e ∈ w.events, ∀ z, (prog.threads.getD e.tid [])[e.pc]? = some (.lazy z) → e.ret = .val (140 + (z : Int))) ∧
    ∀ e1 ∈ w.events, ∀ e2 ∈ w.events, ∀ z, (prog.threads.getD e1.tid [])[e1.pc]? = some (.lazy z) →
      (prog.threads.getD e2.tid [])[e2.pc]? = some (.lazy z) → e1.ret = e2.ret := by
  obtain ⟨hR0, hp, _⟩ := init_R5 hwf hfresh hinit
  obtain ⟨s, _, hR, hp'⟩ := runLoop_sim5 prog (data5 (SC.init prog)) hwf fuel w0 w _ hp hR0
    (init_inRange hfresh.1 hinit) (by
      have := (init_R5 hwf hfresh hinit).2.2
      rw [this]; exact SCData5.Run.nil _) hok hrun
  have hev : ∀ e ∈ w.events, ∀ z, (prog.threads.getD e.tid [])[e.pc]? = some (.lazy z) →
      e.ret = .val (140 + (z : Int)) := by
    intro e he z hz
    exact hR.ev e he z (by rw [hp']; exact hz)
  exact ⟨hev, fun e1 h1 e2 h2 z z1 z2 => (hev e1 h1 z z1).trans (hev e2 h2 z z2).symm⟩

/-! ## 6. non-vacuity: two-thread programs -/

namespace Example

/-- the execution record of an iteration of `Builder::check`: a fresh thread table and the path to replay -/
def execOf (prog : Prog) (it : Iteration) : Exec := { Check.initExec prog.cfg with path := it.start }

theorem freshExec5_execOf (prog : Prog) (it : Iteration) : FreshExec5 (execOf prog it) := ⟨⟨rfl, rfl⟩, rfl⟩

/-- two threads use thread-locals under a mutex and read the harness counters -/
def tlsProg : Prog :=
  { cfg := { tlsDtor := 0, nMutexes := 1 },
    threads := [[.spawn 1, .lock 0, .tls 0, .tlsStat 0, .unlock 0, .join 1, .tlsStat 0, .tlsStat 1],
                [.lock 0, .tlsNest 0 1, .tlsStat 0, .unlock 0, .tlsTry 1]] }

/-- **`tlsProg`**: well-formed; the twin explores it to completion in 4 iterations, each ends without a panic and
satisfies `okIter5`; after the `join` the main thread reads `tlsStat 0 = 201` (two initialisations, one drop: its own
value is still alive) and `tlsStat 1 = 101` (thread 1's value of key 1 was created and destroyed) -/
theorem tlsProg_runs :
    WF5 tlsProg ∧ (Check.run tlsProg).2 = .completed ∧ (Check.run tlsProg).1.length = 4 ∧
    (Check.run tlsProg).1.all
      (fun it => it.result.term.isNone && okIter5 tlsProg (execOf tlsProg it) &&
        (it.result.events.map triple).contains (0, 6, .val 201) &&
        (it.result.events.map triple).contains (0, 7, .val 101)) = true := by
  refine ⟨by decide +kernel, by decide +kernel, by decide +kernel, by decide +kernel⟩

/-- the results of its first iteration: instance ids `1` (main) and `11` (thread 1) -/
example : (runIter tlsProg (Check.initExec tlsProg.cfg)).events.map triple =
    [(0, 0, .unit), (0, 1, .unit), (0, 2, .val 1), (0, 3, .val 100), (0, 4, .unit), (1, 0, .unit), (1, 1, .val 11),
     (1, 2, .val 200), (1, 3, .unit), (1, 4, .val 11), (0, 5, .unit), (0, 6, .val 201), (0, 7, .val 101)] := by
  decide +kernel

/-- … so, by the theorem, they are the trace of a reference run -/
example : ∃ s, SCData5.Run tlsProg (data5 (SC.init tlsProg))
    ((runIter tlsProg (Check.initExec tlsProg.cfg)).events.map triple) s :=
  runIter_is_reference_execution (fuel := 200000) tlsProg_runs.1 (freshExec5_new _ _ _ _) (by decide +kernel)
    (by decide +kernel)

/-- destructors that probe the other key (`tlsdtor=2`): thread 1 owns both keys, so the destructor of key 0 finds
key 1 destroyed (observation 2) -/
def dtorProg : Prog :=
  { cfg := { tlsDtor := 2 },
    threads := [[.spawn 1, .tls 1, .join 1, .tlsObs 0, .tlsStat 0, .tlsStat 1], [.tls 1, .tls 0]] }

theorem dtorProg_runs :
    WF5 dtorProg ∧ (Check.run dtorProg).2 = .completed ∧
    (Check.run dtorProg).1.all
      (fun it => it.result.term.isNone && okIter5 dtorProg (execOf dtorProg it)) = true ∧
    (runIter dtorProg (Check.initExec dtorProg.cfg)).events.map triple =
      [(0, 0, .unit), (0, 1, .val 1), (1, 0, .val 11), (1, 1, .val 11), (0, 2, .unit), (0, 3, .val 2),
       (0, 4, .val 101), (0, 5, .val 201)] := by
  refine ⟨by decide +kernel, by decide +kernel, by decide +kernel, by decide +kernel⟩

example : ∃ s, SCData5.Run dtorProg (data5 (SC.init dtorProg))
    ((runIter dtorProg (Check.initExec dtorProg.cfg)).events.map triple) s :=
  runIter_is_reference_execution (fuel := 200000) dtorProg_runs.1 (freshExec5_new _ _ _ _) (by decide +kernel)
    (by decide +kernel)

/-- a destructor that RE-INITIALISES a thread-local (`tlsdtor=2`): thread 1 ends with key 0 live and key 1 untouched;
the main thread reads the counters after the `join` -/
def reinitProg : Prog :=
  { cfg := { tlsDtor := 2, nMutexes := 1 },
    threads := [[.spawn 1, .lock 0, .tlsObs 0, .unlock 0, .join 1, .tlsObs 0, .tlsStat 0, .tlsStat 1],
                [.lock 0, .tls 0, .unlock 0]] }

/-- **`reinitProg`**: explored to completion in 4 iterations, each ends without a panic and satisfies `okIter5`
(the value of key 1 the destructor created is destroyed by thread 1's second `drop_locals` pass before the main
thread's `join` returns); after the `join` the destructor's observation is `1` (key 1 was initialised on the spot),
key 0: one value, destroyed (`101`); key 1: one value, destroyed (`101`) -/
theorem reinitProg_runs :
    WF5 reinitProg ∧ (Check.run reinitProg).2 = .completed ∧ (Check.run reinitProg).1.length = 4 ∧
    (Check.run reinitProg).1.all
      (fun it => it.result.term.isNone && okIter5 reinitProg (execOf reinitProg it) &&
        (it.result.events.map triple).contains (0, 5, .val 1) &&
        (it.result.events.map triple).contains (0, 6, .val 101) &&
        (it.result.events.map triple).contains (0, 7, .val 101)) = true := by
  refine ⟨by decide +kernel, by decide +kernel, by decide +kernel, by decide +kernel⟩

example : ∃ s, SCData5.Run reinitProg (data5 (SC.init reinitProg))
    ((runIter reinitProg (Check.initExec reinitProg.cfg)).events.map triple) s :=
  runIter_is_reference_execution (fuel := 200000) reinitProg_runs.1 (freshExec5_new _ _ _ _) (by decide +kernel)
    (by decide +kernel)

/-- two threads access the same lazy static; the main thread then a second one -/
def lazyProg : Prog :=
  { cfg := { nMutexes := 1 },
    threads := [[.spawn 1, .lock 0, .lazy 0, .unlock 0, .join 1, .lazyStat 0, .lazy 1, .lazyStat 1],
                [.lock 0, .lazy 0, .unlock 0, .lazyStat 1]] }

/-- **`lazyProg`**: explored to completion, every iteration ends without a panic and satisfies `okIter5`; both
`lazy 0` return `140` in every iteration -/
theorem lazyProg_runs :
    WF5 lazyProg ∧ (Check.run lazyProg).2 = .completed ∧
    (Check.run lazyProg).1.all
      (fun it => it.result.term.isNone && okIter5 lazyProg (execOf lazyProg it) &&
        (it.result.events.map triple).contains (0, 2, .val 140) &&
        (it.result.events.map triple).contains (1, 1, .val 140) &&
        (it.result.events.map triple).contains (0, 6, .val 141)) = true := by
  refine ⟨by decide +kernel, by decide +kernel, by decide +kernel⟩

example : ∃ s, SCData5.Run lazyProg (data5 (SC.init lazyProg))
    ((runIter lazyProg (Check.initExec lazyProg.cfg)).events.map triple) s :=
  runIter_is_reference_execution (fuel := 200000) lazyProg_runs.1 (freshExec5_new _ _ _ _) (by decide +kernel)
    (by decide +kernel)

end Example

/-! ## 7. the hypotheses cannot be dropped -/

namespace Counter

def sch (a : Nat) : Sched :=
  { preemptions := 0, initialActive := none,
    threads := (List.range 5).map (fun i => if i == a then .active else .disabled), prev := none, exploring := true }

def pathOf (l : List Nat) : Path := { Path.new 1000 none true with branches := l.map (fun a => .sched (sch a)) }

/-- bodies spawned out of order: loom thread 1 runs body 2 -/
def orderProg : Prog :=
  { cfg := {}, threads := [[.spawn 2, .spawn 1, .join 1, .join 2], [.tls 0], [.tls 0]] }

def orderTrace : Check.Trace :=
  [(0, 0, .unit), (0, 1, .unit), (2, 0, .val 11), (1, 0, .val 21), (0, 2, .unit), (0, 3, .unit)]

/-- **The instance id names the LOOM thread.**  `orderProg` is well-formed; its first iteration runs without a panic;
body 2, which runs as loom thread 1, gets instance id `11`, body 1 (loom thread 2) `21`; the reference names instances
after the body index (`21`, `11`): the event log is not the trace of any reference run.  The run violates `okRun5`. -/
theorem spawn_order_not_reference :
    WF5 orderProg ∧ (runIter orderProg (Check.initExec orderProg.cfg)).term = none ∧
    (runIter orderProg (Check.initExec orderProg.cfg)).events.map triple = orderTrace ∧
    okIter5 orderProg (Check.initExec orderProg.cfg) = false ∧
    ¬ ∃ d, SCData5.Run orderProg (data5 (SC.init orderProg)) orderTrace d := by
  refine ⟨by decide +kernel, by decide +kernel, by decide +kernel, by decide +kernel, ?_⟩
  exact Check.not_trace (T := 3)
    (S := Check.saturate orderProg 3 orderTrace 30 [(0, data5 (SC.init orderProg))])
    (by decide +kernel) (by decide +kernel) (by decide +kernel)

/-- thread 1 ends with key 0 live and key 1 untouched (`tlsdtor=2`): the destructor of key 0 initialises key 1 -/
def winProg : Prog :=
  { cfg := { nMutexes := 1, tlsDtor := 2 },
    threads := [[.spawn 1, .lock 0, .tlsStat 1, .unlock 0, .join 1], [.tls 0]] }

/-- the path: at the branch point of the main thread's `lock` thread 1 runs — up to the branch point of its
notification, after its first `drop_locals` pass —, then the main thread -/
def winExec : Exec := { Check.initExec winProg.cfg with path := pathOf [1, 0] }

def winTrace : Check.Trace :=
  [(0, 0, .unit), (1, 0, .val 11), (0, 1, .unit), (0, 2, .val 100), (0, 3, .unit), (0, 4, .unit)]

/-- **A value re-initialised by a destructor outlives the thread's `finish`.**  `winProg` is well-formed; on this
path the run completes without a panic; between the first `drop_locals` pass of thread 1 (whose destructor of key 0
has initialised key 1) and its second pass — after the notification branch point — the main thread reads
`tlsStat 1 = 100`: one initialisation, no drop.  In the reference the value is destroyed within the `finish` step
(`0` before it, `101` after it): the event log is not the trace of any reference run.  The run violates `okRun5`. -/
theorem dtor_reinit_window_not_reference :
    WF5 winProg ∧ FreshExec5 winExec ∧ (runIter winProg winExec).term = none ∧
    (runIter winProg winExec).events.map triple = winTrace ∧ okIter5 winProg winExec = false ∧
    ¬ ∃ d, SCData5.Run winProg (data5 (SC.init winProg)) winTrace d := by
  refine ⟨by decide +kernel, ⟨⟨rfl, rfl⟩, rfl⟩, by decide +kernel, by decide +kernel, by decide +kernel, ?_⟩
  exact Check.not_trace (T := 2)
    (S := Check.saturate winProg 2 winTrace 30 [(0, data5 (SC.init winProg))])
    (by decide +kernel) (by decide +kernel) (by decide +kernel)

/-- the main thread ends with key 0 live and key 1 untouched; thread 1 outlives it -/
def mainProg : Prog := { cfg := { tlsDtor := 2 }, threads := [[.tls 0, .spawn 1], [.tlsStat 1]] }

def mainTrace : Check.Trace := [(0, 0, .val 1), (0, 1, .unit), (1, 0, .val 100)]

/-- **… and for the main thread it is never destroyed** (the main thread has one `drop_locals` pass).  `mainProg` is
well-formed; its only iteration runs without a panic; thread 1, which runs after the main thread's end, reads
`tlsStat 1 = 100`; the reference says `0` (before the main thread's `finish`) or `101` (after it).  The run violates
`okRun5`. -/
theorem main_reinit_not_reference :
    WF5 mainProg ∧ (runIter mainProg (Check.initExec mainProg.cfg)).term = none ∧
    (runIter mainProg (Check.initExec mainProg.cfg)).events.map triple = mainTrace ∧
    okIter5 mainProg (Check.initExec mainProg.cfg) = false ∧
    ¬ ∃ d, SCData5.Run mainProg (data5 (SC.init mainProg)) mainTrace d := by
  refine ⟨by decide +kernel, by decide +kernel, by decide +kernel, by decide +kernel, ?_⟩
  exact Check.not_trace (T := 2)
    (S := Check.saturate mainProg 2 mainTrace 30 [(0, data5 (SC.init mainProg))])
    (by decide +kernel) (by decide +kernel) (by decide +kernel)

/-- a lazy static outside the harness' two -/
def lazy2Prog : Prog := { cfg := {}, threads := [[.lazy 2]] }

/-- **The harness has two lazy statics** (the counters `lazyInits` / `lazyInit` are two-element lists on both
sides): `lazy 2` is outside `WF5`; the twin returns `142` (instance 1), the reference `42` (its count of
initialisations of static 2 stays 0). -/
theorem lazy_index_not_reference :
    ¬ WF5 lazy2Prog ∧ (runIter lazy2Prog (Check.initExec lazy2Prog.cfg)).term = none ∧
    (runIter lazy2Prog (Check.initExec lazy2Prog.cfg)).events.map triple = [(0, 0, .val 142)] ∧
    ¬ ∃ d, SCData5.Run lazy2Prog (data5 (SC.init lazy2Prog)) [(0, 0, .val 142)] d := by
  refine ⟨by decide +kernel, by decide +kernel, by decide +kernel, ?_⟩
  exact Check.not_trace (T := 1)
    (S := Check.saturate lazy2Prog 1 [(0, 0, .val 142)] 10 [(0, data5 (SC.init lazy2Prog))])
    (by decide +kernel) (by decide +kernel) (by decide +kernel)

end Counter

/-! ## 8. with an atomic declared the initialiser can run twice: the reference is not refined -/

/-- the path: at the scheduling point of the main thread's initialiser (`x0.fetch_add`) thread 1 runs -/
def racedExec : Exec := { Check.initExec racedProg.cfg with path := Counter.pathOf [1] }

/-- the final world of the run (the harness counters live in the world) -/
def racedWorld : Option World :=
  match World.init racedProg racedExec with
  | .ok w0 => some (World.runLoop 200000 w0).1
  | .error _ => none

/-- **A raced initialisation is not a reference execution** (finding F23).  `racedProg` — `cfg x=1 | T0: spawn 1;
lazy 0; join 1 | T1: lazy 0` — is the well-formed program `{ racedProg with nAtomics := 0 }` with one atomic declared,
so that the initialiser of the lazy static has a scheduling point (`x0.fetch_add(1, Relaxed)`).  On the path that
schedules thread 1 there: the run completes without a panic and satisfies `okIter5`; BOTH threads run the initialiser
(`lazyInits[0] = 2`); thread 1's value (instance 2) is registered, the main thread's is dropped, and both accesses
return `240`.  The reference initialises a lazy static at most once per execution and returns `140`: the event log is
not the trace of any run of the reference (verified trace checker `Check.not_trace`). -/
theorem raced_init_not_reference :
    racedProg.cfg.nAtomics ≠ 0 ∧ ¬ WF5 racedProg ∧ WF5 { racedProg with cfg := {} } ∧ FreshExec5 racedExec ∧
    (runIter racedProg racedExec).term = none ∧ (runIter racedProg racedExec).events.map triple = racedTrace ∧
    okIter5 racedProg racedExec = true ∧ racedWorld.map (·.lazyInits) = some [2, 0] ∧
    ¬ ∃ d, SCData5.Run racedProg (data5 (SC.init racedProg)) racedTrace d := by
  refine ⟨by decide, by decide +kernel, by decide +kernel, ⟨⟨rfl, rfl⟩, rfl⟩, by decide +kernel, by decide +kernel,
    by decide +kernel, by decide +kernel, racedTrace_not_reference⟩

end Refine5
end LoomVerif

/-
DEADLOCK SOUNDNESS (the "only if" half of property C05) for the WAIT fragment of the DSL, as theorems about the
twin.

C05: "`loom::model` fails with a deadlock panic iff the program can reach a state in which some thread has not
finished and no thread can take a step."  Here: **whenever the twin reports a deadlock, the reference execution the
run corresponds to (`Props/Refine2.lean`) has reached a deadlocked state**: no thread is `SCData2.enabled` and some
started thread has not finished.

Fragment (each operation at full strength, nothing is `…_partial`): the lock fragment (`spawn`, `join`, `lock`,
`unlock`, `tryLock`, `cellRead`, `cellWrite`, `ifEq`, the end of a thread) and
1. channels: `send`, `recv`, `tryRecv`, `dropRx`;
2. `nNotify`, `nWait` (with its modelled spurious return);
3. `park`, `unpark`;
4. the condvar: `cvWait` (both halves), `cvOne`, `cvAll`.

1. The strengthened relation `Deadlock2.RB2 w s := R2 w s ∧ JB2 w ∧ ReplayOK w.exec.path`
   (`Proofs/Deadlock2Defs.lean`).  `JB2` is a twin-side invariant: a loom thread in state `blocked` is at a WAITING
   POSITION (`Deadlock2.Blk`) whose awaited condition does not hold —
   past the branch point of `lock m` or of the re-acquisition of `cvWait v m`: the mutex is held;
   past the branch point of `recv q`: the channel is empty; of `nWait n`: the flag is clear; of `join b`: the
   `JoinHandle` of `b` is not notified; in `park`: parked, no stored token; in the first half of `cvWait v m`:
   blocked by `rt::block` (not parked), in the waiter list of the condvar —
   with the pending operation the branch point recorded; at any other place (in particular past the branch point
   of `tryLock`, `tryRecv`, `dropRx`, `send`, `nNotify`, `cvOne`, `cvAll`) a thread is never blocked; a thread is
   `terminated` only at the end of its epilogue; the pending operation of a thread that is not running is the one of
   the place where it stopped (`Deadlock2.OpAt`).  Read through `R2`: `blocked_means_disabled2`.
   `RB2` holds initially (`rb2_initial`) and is preserved by every successful stage (`step_preserves2`).
2. `deadlock_stage_is_real2` (one stage), `reported_deadlock_is_real2` (`runLoop`), `runIter_deadlock_is_real2`,
   `check_deadlock_is_real2` (`Check.run`), `reported_deadlock_is_SC_deadlock2` (lifted to `Spec/SC.lean`).
3. THE SPURIOUS RETURN.  `SC.enabled` does not count the spurious return of `nWait` (`Spec/SC.lean`: "possible but
   never guaranteed"), and neither does the twin: the decision about the spurious return is a branch of the path
   (`Path.branchSpurious`); on the branch "no spurious return" the waiter is blocked like any other, and a deadlock IS
   reported while `SC.spurious` would still allow a step (`Example.lostNotify_spurious_possible`: the first
   iteration of `[[nWait 0]]`).  The theorems therefore say "no thread is `enabled`", and
   `deadlocked_spurious_only_nWait` says exactly which steps remain possible in the deadlocked state: spurious
   returns of threads at an `nWait` whose flag is clear and whose `Notify` has not returned spuriously yet.
4. Non-vacuity: `Example.*` (`recv` without `send`; `nWait` nobody notifies; `park` nobody unparks; a `cvWait`
   nobody notifies — the deadlocked state is the one AFTER the first half of `cvWait`; a lost wake-up found in the
   fifth iteration of `Check.run`; producer / consumer and the condvar hand-off never deadlock).

Hypotheses, all explicit:
* `Deadlock2.WFD prog` = `Refine2.WF2 prog` ∧ `Deadlock.JoinOnce prog` (decidable).  `JoinOnce` is necessary:
  `double_join_false_deadlock2`.
* `Refine2.FreshExec2 exec` (the thread table of `Exec.new` / `Exec.step`).
* `Deadlock.ReplayOK exec.path` (decidable): every `Schedule` entry still to be replayed names a thread.
  Necessary: `empty_schedule_false_deadlock2`.
* `Refine2.okRun fuel w0 = true` (computable), the run-level condition of `Props/Refine2.lean` (`resumeOk` at every
  step: the schedule does not resume a thread blocked in `park` / still queued on a condvar, no second `unpark`
  between the wake-up of a parked thread and its resumption).  Necessary: `resumed_park_false_deadlock` (a
  hand-made path resumes a thread blocked in `park`; the twin then reports a deadlock after events that are the
  trace of NO reference run).  `check_deadlock_is_real2` asks it of every iteration `Check.run` has run
  (`okCheck`, computable).  It only constrains the stages of `park` and `cvWait`: for programs WITHOUT `park` and
  `cvWait` (`NoParkCv`, decidable: the lock fragment, channels, `Notify`, `unpark`, `cvOne`, `cvAll`) it holds of
  every run (`okRun_of_noParkCv`) and the theorems need no run-level hypothesis at all:
  `reported_deadlock_is_real2_plain`, `check_deadlock_is_real2_plain`.
-/
import LoomVerif.Proofs.Deadlock2Check
import LoomVerif.Proofs.Deadlock2Plain
import LoomVerif.Proofs.C05SC
import LoomVerif.Props.Refine2
import LoomVerif.Props.Deadlock
import LoomVerif.Model.Check

namespace LoomVerif
namespace Deadlock2
open Refine Refine2 Deadlock

/-! ## 1. the strengthened relation -/

/-- `RB2` holds between the initial world and the initial reference state -/
theorem rb2_initial {prog : Prog} {exec : Exec} {w0 : World} (hwf : WFD prog) (hfresh : FreshExec2 exec)
    (hpath : ReplayOK exec.path) (hinit : World.init prog exec = .ok w0) :
    RB2 w0 (data2 (SC.init prog)) :=
  (init_RB2 hwf hfresh hpath hinit).1

/-- **`RB2` is preserved by every successful stage of the active thread** over the WAIT fragment (under the
per-step condition `resumeOk` of `Props/Refine2.lean`): the world reached is related (`RB2`) to the same reference
state (a stuttering stage) or to its successor by a step of the body the active thread runs — a step ENABLED in
the reference state, or the spurious return of `nWait` — whose label is the event logged -/
theorem step_preserves2 {w w' : World} {s : SCData2} (hwf : WFD w.prog) (hRB : RB2 w s)
    (hactive : w.ths.isActive = true) (hact : w.tid < w.ctl.length) (hok : resumeOk w = true)
    (h : w.stepActive = .ok w') :
    (w'.prog = w.prog ∧
     ((RB2 w' s ∧ w'.events = w.events) ∨
      ∃ l s',
        ((SCData2.enabled w.prog s (w.ctlOf w.tid).body = true ∧
            (l, s') ∈ SCData2.stepL w.prog s (w.ctlOf w.tid).body) ∨
          (l, s') ∈ SCData2.spuriousL w.prog s (w.ctlOf w.tid).body) ∧
        RB2 w' s' ∧
        w'.events.map triple = SCData.label (w.ctlOf w.tid).body l ++ w.events.map triple)) ∧
    InRange w' :=
  ⟨(step_pres2 hwf hRB hactive hact hok h).1, (step_pres2 hwf hRB hactive hact hok h).2.1⟩

/-- **blocked means waiting** (twin side): a loom thread in state `blocked` is at one of the waiting positions,
with the pending operation its branch point recorded, and the awaited condition does not hold -/
theorem blocked_means_waiting {w : World} {s : SCData2} (hRB : RB2 w s) {i : Nat} (hi : i < w.ctl.length)
    (hb : (w.ths.get i).state = .blocked) :
    Blk w.prog w.spawned w.exec.objs i (w.ths.get i) (w.ctlOf i) :=
  (hRB.j.thr i hi).blk hb

/-- why a started, unfinished thread of the reference is not enabled -/
inductive Awaits (p : Prog) (s : SCData2) (t : Nat) : Prop
  /-- `lock m`, the mutex is held -/
  | lock (m : Nat) : SCData2.opOf p s t = some (.lock m) → (s.mutex.getD m none).isSome = true → Awaits p s t
  /-- `recv q`, the channel is empty -/
  | recv (q : Nat) : SCData2.opOf p s t = some (.recv q) → s.chan.getD q [] = [] → Awaits p s t
  /-- `nWait n`, the flag is clear -/
  | nWait (n : Nat) : SCData2.opOf p s t = some (.nWait n) → s.nFlag.getD n false = false → Awaits p s t
  /-- `join b`, thread `b` has not finished -/
  | join (b : Nat) : SCData2.opOf p s t = some (.join b) → (s.th b).finished = false → Awaits p s t
  /-- `park`, no token -/
  | park : SCData2.opOf p s t = some .park → (s.th t).token = false → Awaits p s t
  /-- inside `cvWait`, queued on the condvar -/
  | cvQueued (v m : Nat) : (s.th t).cvWaiting = some (v, m) → Awaits p s t
  /-- inside `cvWait`, notified, the mutex to re-acquire is held -/
  | cvReacquire (m : Nat) : (s.th t).cvWaiting = none → (s.th t).cvNotified = some m →
      (s.mutex.getD m none).isSome = true → Awaits p s t

/-- a started, unfinished thread that is not enabled awaits something (a fact about the reference semantics) -/
theorem disabled_awaits {p : Prog} {s : SCData2} {t : Nat} (h1 : (s.th t).started = true)
    (h2 : (s.th t).finished = false) (h : SCData2.enabled p s t = false) : Awaits p s t := by
  unfold SCData2.enabled at h
  rw [h1, h2] at h
  cases hw : (s.th t).cvWaiting with
  | some x => exact .cvQueued x.1 x.2 hw
  | none =>
    rw [hw] at h
    cases hn : (s.th t).cvNotified with
    | some m =>
      rw [hn] at h
      simp only [Bool.not_false, Bool.and_self, Bool.true_and] at h
      exact .cvReacquire m hw hn (by cases hh : s.mutex.getD m none <;> simp_all)
    | none =>
      rw [hn] at h
      simp only [Bool.not_false, Bool.and_self, Bool.true_and] at h
      cases ho : SCData2.opOf p s t with
      | none => rw [ho] at h; cases h
      | some op =>
        rw [ho] at h
        cases op <;> simp only at h <;> try (cases h; done)
        case lock m => exact .lock m ho (by cases hh : s.mutex.getD m none <;> simp_all)
        case join b => exact .join b ho h
        case nWait n => exact .nWait n ho h
        case park => exact .park ho h
        case recv q =>
          refine .recv q ho ?_
          cases hh : s.chan.getD q [] with
          | nil => rfl
          | cons a l => rw [hh] at h; cases h

/-- **blocked means disabled.**  A loom thread in state `blocked` is, in the reference state, a started thread that
has not finished and is NOT enabled: it awaits a held mutex, a message, a notification, the end of a thread, a
token, or it is inside a `cvWait` -/
theorem blocked_means_disabled2 {w : World} {s : SCData2} (hwf : WFD w.prog) (hRB : RB2 w s) {i : Nat}
    (hi : i < w.ctl.length) (hb : (w.ths.get i).state = .blocked) :
    SCData2.enabled w.prog s (w.ctlOf i).body = false ∧
    (s.th (w.ctlOf i).body).started = true ∧ (s.th (w.ctlOf i).body).finished = false ∧
    Awaits w.prog s (w.ctlOf i).body := by
  obtain ⟨h1, h2, h3⟩ := blocked_disabled2 hwf hRB hi hb
  exact ⟨h1, h2, h3, disabled_awaits h2 h3 h1⟩

/-- a terminated loom thread has finished in the reference state -/
theorem terminated_means_finished2 {w : World} {s : SCData2} (hRB : RB2 w s) {i : Nat}
    (hi : i < w.ctl.length) (ht : (w.ths.get i).state = .terminated) :
    (s.th (w.ctlOf i).body).finished = true := by
  have hf : (s.th (w.ctlOf i).body).finished = decide (10 ≤ (w.ctlOf i).fin) := (hRB.r.c.x.thr i hi).2.2.2.2.1
  rw [hf, (hRB.j.thr i hi).term ht]; rfl

/-- the operations with a waiting position -/
def mayWait : Op → Bool
  | .lock _ | .recv _ | .nWait _ | .join _ | .park | .cvWait .. => true
  | _ => false

/-- **a thread pending on an attempt is never blocked** (finding F9, repaired): at `tryLock`, `tryRecv`, `dropRx`
— and at `send`, `nNotify`, `cvOne`, `cvAll`, `unlock`, … — a thread is never in state `blocked`, wherever it is in
the operation -/
theorem try_never_blocked2 {w : World} {s : SCData2} (hRB : RB2 w s) {i : Nat} (hi : i < w.ctl.length) {op : Op}
    (hop : opOfCtl w.prog (w.ctlOf i) = some op) (hm : mayWait op = false) :
    (w.ths.get i).state ≠ .blocked := by
  intro hb
  cases (hRB.j.thr i hi).blk hb with
  | lock m l a => rw [hop] at a; cases a; cases hm
  | cvRe v m l a => rw [hop] at a; cases a; cases hm
  | recv q bl qu a => rw [hop] at a; cases a; cases hm
  | nWait n bl a' d' a => rw [hop] at a; cases a; cases hm
  | join b t n bl a' d' a => rw [hop] at a; cases a; cases hm
  | park a => rw [hop] at a; cases a; cases hm
  | cvQ v m ws a => rw [hop] at a; cases a; cases hm

/-! ## 2. deadlock soundness -/

/-- **a stage that panics with "deadlock" does so in a deadlocked reference state**: `RB2 w s` and
`w.stepActive = .error .deadlock` imply that `s` — or, when the panic comes from the `rt::block` that ends the
first half of a `cvWait`, the successor of `s` by that first half, an enabled step that records nothing — has no
enabled thread and a started thread that has not finished -/
theorem deadlock_stage_is_real2 {w : World} {s : SCData2} (hwf : WFD w.prog) (hRB : RB2 w s)
    (hactive : w.ths.isActive = true) (hact : w.tid < w.ctl.length)
    (h : w.stepActive = .error .deadlock) :
    ∃ s', (s' = s ∨ (SCData2.enabled w.prog s (w.ctlOf w.tid).body = true ∧
        (none, s') ∈ SCData2.stepL w.prog s (w.ctlOf w.tid).body)) ∧
      (∀ t, SCData2.enabled w.prog s' t = false) ∧ ∃ t, (s'.th t).started = true ∧ (s'.th t).finished = false :=
  step_deadlock2 hwf hRB hactive hact h

/-- **Every deadlock the twin reports is real.**  If a run of the twin from a fresh execution satisfies `okRun`
and ends with the panic "deadlock", then the reference execution the run corresponds to — a run of the data
semantics from the initial reference state, every step a step of a thread enabled in the reference state or the
spurious return of an `nWait`, whose trace of recorded `(thread, pc, result)` triples is exactly the event log of
the twin — has reached a DEADLOCKED state: no thread is enabled and some started thread has not finished.
(`w` is the world reached before the panicking stage.) -/
theorem reported_deadlock_is_real2 {prog : Prog} {exec : Exec} {w0 w : World} {fuel : Nat}
    (hwf : WFD prog) (hfresh : FreshExec2 exec) (hpath : ReplayOK exec.path)
    (hinit : World.init prog exec = .ok w0) (hok : okRun fuel w0 = true)
    (hrun : World.runLoop fuel w0 = (w, some .deadlock)) :
    ∃ s, SCData2.Run2 prog (data2 (SC.init prog)) (w.events.reverse.map triple) s ∧
      (∀ t, SCData2.enabled prog s t = false) ∧ ∃ t, (s.th t).started ∧ ¬ (s.th t).finished := by
  obtain ⟨hRB, hp, hev⟩ := init_RB2 hwf hfresh hpath hinit
  obtain ⟨s, hrun', hRB', hp', hr', hfin⟩ := runLoop_RB2 prog (data2 (SC.init prog)) hwf fuel w0 w _ _ hp hRB
    (init_inRange2 hfresh hinit) (by rw [hev]; exact SCData2.Run2.nil _) hok hrun
  obtain ⟨hact, hstep⟩ := hfin .deadlock rfl (by simp)
  have hin : w.tid < w.ctl.length := by rw [hRB'.r.c.lenCtl]; exact hr' hact
  obtain ⟨s', hs', hd⟩ := step_deadlock2 (by rw [hp']; exact hwf) hRB' hact hin hstep
  rw [hp'] at hd hs'
  obtain ⟨h1, t, h2, h3⟩ := hd
  refine ⟨s', ?_, h1, t, h2, by rw [h3]; simp⟩
  rcases hs' with rfl | ⟨hen, hst⟩
  · exact hrun'
  · have := SCData2.Run2.step hrun' hen hst
    simpa [SCData.label] using this

/-- `okRun` for one iteration (`Refine2.okIter`) -/
theorem okIter2_eq (prog : Prog) (exec : Exec) (fuel : Nat) : okIter2 prog exec fuel = okIter prog exec fuel := rfl

/-- the same for one iteration `runIter` (run, then the leak check, which never reports a deadlock): the events it
reports are the trace of a reference run that ends in a deadlocked state -/
theorem runIter_deadlock_is_real2 {prog : Prog} {exec : Exec} {fuel : Nat}
    (hwf : WFD prog) (hfresh : FreshExec2 exec) (hpath : ReplayOK exec.path)
    (hok : okIter prog exec fuel = true) (hterm : (runIter prog exec fuel).term = some .deadlock) :
    ∃ s, SCData2.Run2 prog (data2 (SC.init prog)) ((runIter prog exec fuel).events.map triple) s ∧
      (∀ t, SCData2.enabled prog s t = false) ∧ ∃ t, (s.th t).started ∧ ¬ (s.th t).finished := by
  unfold runIter at hterm ⊢
  unfold okIter at hok
  cases hinit : World.init prog exec with
  | error e => rw [hinit] at hok; cases hok
  | ok w0 =>
    rw [hinit] at hterm hok
    simp only at hterm hok ⊢
    generalize hr : World.runLoop fuel w0 = res at hterm ⊢
    obtain ⟨w, r⟩ := res
    cases r with
    | some e =>
      simp only at hterm ⊢
      cases hterm
      exact reported_deadlock_is_real2 hwf hfresh hpath hinit hok hr
    | none =>
      simp only at hterm ⊢
      cases hc : w.exec.objs.checkForLeaks with
      | error e =>
        rw [hc] at hterm
        simp only [Option.some.injEq] at hterm
        exact absurd hterm (checkForLeaks_notDL hc)
      | ok u =>
        rw [hc] at hterm
        cases hterm

/-- the run-level condition for `Check.run`: every iteration it has run satisfies `okRun` (computable) -/
def okCheck (prog : Prog) (fuel : Nat := 1000000) : Bool :=
  (Check.run prog fuel).1.all fun it => okIter prog (Check.freshE prog.cfg.maxThreads it.start)

theorem okIter_of_init {prog : Prog} {e : Exec} {fuel : Nat} {w0 : World} (hinit : World.init prog e = .ok w0)
    (h : okRun fuel w0 = true) : okIter prog e fuel = true := by
  unfold okIter; rw [hinit]; exact h

/-- the loop of `Builder::check`; the run-level condition is asked of the iterations the loop runs -/
theorem loop_deadlock_is_real2 {prog : Prog} (hwf : WFD prog) :
    ∀ (fuel i : Nat) (e : Exec), IterInv2 prog.cfg.maxThreads e → ∀ (its : List Iteration) (o : Outcome),
      Check.loop prog fuel i e = (its, o) →
      (∀ e' w0, IterInv2 prog.cfg.maxThreads e' → e'.path ∈ its.map (·.start) →
        World.init prog e' = .ok w0 → okRun 200000 w0 = true) →
      o = .panicked .deadlock →
      ∃ it ∈ its, it.result.term = some .deadlock ∧
        ∃ s, SCData2.Run2 prog (data2 (SC.init prog)) (it.result.events.map triple) s ∧
          (∀ t, SCData2.enabled prog s t = false) ∧ ∃ t, (s.th t).started ∧ ¬ (s.th t).finished := by
  intro fuel
  induction fuel with
  | zero =>
    intro i e _ its o h _ ho
    simp only [Check.loop, Prod.mk.injEq] at h
    rw [← h.2] at ho; cases ho
  | succ fuel ih =>
    intro i e hinv its o h hall ho
    unfold Check.loop at h
    split at h
    · simp only [Prod.mk.injEq] at h
      rw [← h.2] at ho; cases ho
    · simp only at h
      split at h
      · next p hterm =>
        simp only [Prod.mk.injEq] at h
        obtain ⟨rfl, rfl⟩ := h
        simp only [Outcome.panicked.injEq] at ho
        subst ho
        refine ⟨_, List.mem_singleton.2 rfl, hterm, ?_⟩
        cases hinit : World.init prog e with
        | error err =>
          exfalso
          unfold runIter at hterm
          rw [hinit] at hterm
          simp only [Option.some.injEq] at hterm
          exact init_notDL hinit hterm
        | ok w0 =>
          have hok := okIter_of_init hinit (hall e w0 hinv (by simp) hinit)
          exact runIter_deadlock_is_real2 hwf hinv.fresh hinv.2.2.replayOK hok hterm
      · next hterm =>
        split at h
        · simp only [Prod.mk.injEq] at h
          rw [← h.2] at ho; cases ho
        · next e' hstep =>
          cases hl : Check.loop prog fuel (i + 1) e' with
          | mk rest o' =>
            rw [hl] at h
            simp only [Prod.mk.injEq] at h
            obtain ⟨rfl, rfl⟩ := h
            cases hinit : World.init prog e with
            | error err =>
              exfalso
              unfold runIter at hterm
              rw [hinit] at hterm
              cases hterm
            | ok w0 =>
              have hok := okIter_of_init hinit (hall e w0 hinv (by simp) hinit)
              obtain ⟨it, hit, h1, h2⟩ := ih (i + 1) e' (runIter_iterInv2 hwf hinv hok hterm hstep) rest _ hl
                (fun e2 w2 hi2 hm2 => hall e2 w2 hi2 (by
                  simp only [List.map_cons, List.mem_cons]
                  exact .inr hm2)) ho
              exact ⟨it, List.mem_cons_of_mem _ hit, h1, h2⟩

/-- **Every deadlock `Check.run` reports is real**: if `Builder::check` (the twin's `Check.run`) ends with the
panic "deadlock" on a well-formed program of the WAIT fragment and every iteration it has run satisfies the
run-level condition (`okCheck`, computable), then the iteration that panicked reports events that are the trace of
a reference run ending in a DEADLOCKED reference state: no thread is enabled and some started thread has not
finished.  (No hypothesis on paths or execution records: the ones `Check.run` hands to its iterations are fresh and
their paths name a thread at every scheduling point, `runIter_iterInv2`.) -/
theorem check_deadlock_is_real2 {prog : Prog} {fuel : Nat} (hwf : WFD prog) (hok : okCheck prog fuel = true)
    (h : (Check.run prog fuel).2 = .panicked .deadlock) :
    ∃ it ∈ (Check.run prog fuel).1, it.result.term = some .deadlock ∧
      ∃ s, SCData2.Run2 prog (data2 (SC.init prog)) (it.result.events.map triple) s ∧
        (∀ t, SCData2.enabled prog s t = false) ∧ ∃ t, (s.th t).started ∧ ¬ (s.th t).finished := by
  unfold okCheck at hok
  rw [List.all_eq_true] at hok
  unfold Check.run at h hok ⊢
  cases hl : Check.loop prog fuel 1 (Check.initExec prog.cfg) with
  | mk its o =>
    rw [hl] at h hok
    refine loop_deadlock_is_real2 hwf fuel 1 _ (iterInv2_initExec _) its o hl ?_ h
    intro e' w0 hi hm hinit
    obtain ⟨it, hit, hst⟩ := List.mem_map.1 hm
    have := hok it hit
    rw [hst, ← hi.1] at this
    unfold okIter at this
    rw [hinit] at this
    exact this

/-- **… without any run-level condition for programs without `park` and `cvWait`** (the lock fragment, channels,
`Notify`, `unpark`, `cvOne`, `cvAll`): `okRun` only constrains the stages of `park` and `cvWait`
(`okRun_of_noParkCv`) -/
theorem check_deadlock_is_real2_plain {prog : Prog} {fuel : Nat} (hwf : WFD prog) (hn : NoParkCv prog)
    (h : (Check.run prog fuel).2 = .panicked .deadlock) :
    ∃ it ∈ (Check.run prog fuel).1, it.result.term = some .deadlock ∧
      ∃ s, SCData2.Run2 prog (data2 (SC.init prog)) (it.result.events.map triple) s ∧
        (∀ t, SCData2.enabled prog s t = false) ∧ ∃ t, (s.th t).started ∧ ¬ (s.th t).finished := by
  unfold Check.run at h ⊢
  cases hl : Check.loop prog fuel 1 (Check.initExec prog.cfg) with
  | mk its o =>
    rw [hl] at h
    exact loop_deadlock_is_real2 hwf fuel 1 _ (iterInv2_initExec _) its o hl
      (fun e' w0 hi _ hinit => okIter2_of_noParkCv hwf hn hi.fresh hi.2.2.replayOK hinit) h

/-- the same for one run: no run-level condition for programs without `park` and `cvWait` -/
theorem reported_deadlock_is_real2_plain {prog : Prog} {exec : Exec} {w0 w : World} {fuel : Nat}
    (hwf : WFD prog) (hn : NoParkCv prog) (hfresh : FreshExec2 exec) (hpath : ReplayOK exec.path)
    (hinit : World.init prog exec = .ok w0) (hrun : World.runLoop fuel w0 = (w, some .deadlock)) :
    ∃ s, SCData2.Run2 prog (data2 (SC.init prog)) (w.events.reverse.map triple) s ∧
      (∀ t, SCData2.enabled prog s t = false) ∧ ∃ t, (s.th t).started ∧ ¬ (s.th t).finished :=
  reported_deadlock_is_real2 hwf hfresh hpath hinit (okIter2_of_noParkCv hwf hn hfresh hpath hinit) hrun

/-- … and hence a deadlock of `Spec/SC.lean` itself: there is a reference execution (`SCExec2`: every step is
`SC.step` of a thread that is `SC.enabled`, or `SC.spurious`) from `SC.init prog` that ends in a state without
verdict in which no thread is `SC.enabled` and whose final verdict is `deadlock` (C05: `SC.finalVerdict`) — a state
whose data is the end of the data run whose trace is the twin's event log — or, a prefix of the run, ends in a
data-race verdict. -/
theorem reported_deadlock_is_SC_deadlock2 {prog : Prog} {exec : Exec} {w0 w : World} {fuel : Nat}
    (hwf : WFD prog) (hfresh : FreshExec2 exec) (hpath : ReplayOK exec.path)
    (hinit : World.init prog exec = .ok w0) (hok : okRun fuel w0 = true)
    (hrun : World.runLoop fuel w0 = (w, some .deadlock)) :
    ∃ s, SCExec2 prog (SC.init prog) s ∧
      ((s.verdict = none ∧ (∀ t, SC.enabled prog s t = false) ∧ SC.finalVerdict s = .deadlock ∧
          SCData2.Run2 prog (data2 (SC.init prog)) (w.events.reverse.map triple) (data2 s)) ∨
        ∃ k, s.verdict = some (.race k)) := by
  obtain ⟨d, hr, hno, t, hst, hnf⟩ := reported_deadlock_is_real2 hwf hfresh hpath hinit hok hrun
  obtain ⟨s, hex, hc⟩ := Run2.lift hwf.1.fragProg hr
  refine ⟨s, hex, ?_⟩
  rcases hc with ⟨hfs, hd⟩ | hrace
  · subst hd
    refine .inl ⟨hfs.1, fun u => ?_, ?_, hr⟩
    · rw [SC.enabled_data2 hfs.1 (fun op ho => hwf.1.fragProg _ _ _ ho)]
      exact hno u
    · rw [SC.finalVerdict_deadlock_iff]
      refine .inr ⟨hfs.1, (SC.allDone_false_iff s).2 ?_⟩
      rw [data2_th] at hst hnf
      have hst' : (s.th t).started = true := hst
      have hnf' : (s.th t).finished = false := by
        cases hh : (s.th t).finished with
        | false => rfl
        | true => exact absurd (show (dth2 (s.th t)).finished = true from hh) hnf
      have hlt : t < s.ths.length := by
        apply Classical.byContradiction
        intro hn
        have : s.th t = {} := by
          unfold SC.St.th
          have : s.ths[t]? = none := List.getElem?_eq_none (by omega)
          simp [List.getD, this]
        rw [this] at hst'
        cases hst'
      refine ⟨s.th t, ?_, hst', hnf'⟩
      unfold SC.St.th
      rw [List.getD_eq_getElem?_getD, List.getElem?_eq_getElem hlt]
      exact List.getElem_mem hlt
  · exact .inr hrace

/-! ## 3. the spurious return -/

/-- **in a deadlocked state the only steps the reference can still take are spurious returns** of threads at an
`nWait n` whose flag is clear and whose `Notify` has not returned spuriously yet -/
theorem deadlocked_spurious_only_nWait {p : Prog} {s : SCData2} {t : Nat} {l : Option (Nat × Ret)} {s' : SCData2}
    (hd : SCData2.enabled p s t = false) (h : (l, s') ∈ SCData2.spuriousL p s t) :
    ∃ n, SCData2.opOf p s t = some (.nWait n) ∧ s.nFlag.getD n false = false ∧
      s.nSpurUsed.getD n true = false := by
  unfold SCData2.spuriousL at h
  by_cases hc : (!(s.th t).started || (s.th t).finished || (s.th t).cvWaiting.isSome ||
      (s.th t).cvNotified.isSome) = true
  · rw [if_pos hc] at h; cases h
  · rw [if_neg hc] at h
    simp only [Bool.or_eq_true, Bool.not_eq_true', not_or, Bool.not_eq_true, Option.isSome_eq_false_iff,
      Option.isNone_iff_eq_none] at hc
    obtain ⟨⟨⟨h1, h2⟩, h3⟩, h4⟩ := hc
    have h1' : (s.th t).started = true := by cases hh : (s.th t).started <;> simp_all
    cases ho : SCData2.opOf p s t with
    | none => rw [ho] at h; cases h
    | some op =>
      rw [ho] at h
      cases op <;> simp only at h <;> try (cases h; done)
      case nWait n =>
        by_cases hs : (!s.nSpurUsed.getD n true) = true
        · refine ⟨n, rfl, ?_, by simpa using hs⟩
          unfold SCData2.enabled at hd
          rw [h1', h2, h3, h4, ho] at hd
          simpa using hd
        · rw [if_neg hs] at h; cases h

/-! ## 4. non-vacuity -/

namespace Example

/-- `recv` on a channel nobody sends on -/
def recvOnly : Prog := { cfg := { nChans := 1 }, threads := [[.recv 0]] }

/-- the first iteration deadlocks; the hypotheses of the theorem hold -/
theorem recvOnly_deadlocks :
    WFD recvOnly ∧ (Check.run recvOnly).2 = .panicked .deadlock ∧ okCheck recvOnly = true ∧
    (Check.run recvOnly).1.map (·.result.term) = [some .deadlock] := by
  refine ⟨by decide +kernel, by decide +kernel, by decide +kernel, by decide +kernel⟩

/-- … so the deadlock is real (by the theorem) -/
theorem recvOnly_is_real :
    ∃ it ∈ (Check.run recvOnly).1, it.result.term = some .deadlock ∧
      ∃ s, SCData2.Run2 recvOnly (data2 (SC.init recvOnly)) (it.result.events.map triple) s ∧
        (∀ t, SCData2.enabled recvOnly s t = false) ∧ ∃ t, (s.th t).started ∧ ¬ (s.th t).finished :=
  check_deadlock_is_real2 recvOnly_deadlocks.1 recvOnly_deadlocks.2.2.1 recvOnly_deadlocks.2.1

/-- the same from the theorem for programs without `park` and `cvWait`, which asks for nothing but `WFD`,
`NoParkCv` and the outcome of `Check.run` -/
theorem recvOnly_is_real_plain :
    ∃ it ∈ (Check.run recvOnly).1, it.result.term = some .deadlock ∧
      ∃ s, SCData2.Run2 recvOnly (data2 (SC.init recvOnly)) (it.result.events.map triple) s ∧
        (∀ t, SCData2.enabled recvOnly s t = false) ∧ ∃ t, (s.th t).started ∧ ¬ (s.th t).finished :=
  check_deadlock_is_real2_plain recvOnly_deadlocks.1 (by decide +kernel) recvOnly_deadlocks.2.1

/-- a lost notification: `nWait` on a `Notify` nobody notifies -/
def lostNotify : Prog := { cfg := { nNotifies := 1 }, threads := [[.nWait 0]] }

theorem lostNotify_deadlocks :
    WFD lostNotify ∧ (Check.run lostNotify).2 = .panicked .deadlock ∧ okCheck lostNotify = true ∧
    (Check.run lostNotify).1.map (·.result.term) = [some .deadlock] ∧
    (Check.run lostNotify).1.map (·.result.events) = [[]] := by
  refine ⟨by decide +kernel, by decide +kernel, by decide +kernel, by decide +kernel, by decide +kernel⟩

theorem lostNotify_is_real :
    ∃ it ∈ (Check.run lostNotify).1, it.result.term = some .deadlock ∧
      ∃ s, SCData2.Run2 lostNotify (data2 (SC.init lostNotify)) (it.result.events.map triple) s ∧
        (∀ t, SCData2.enabled lostNotify s t = false) ∧ ∃ t, (s.th t).started ∧ ¬ (s.th t).finished :=
  check_deadlock_is_real2 lostNotify_deadlocks.1 lostNotify_deadlocks.2.2.1 lostNotify_deadlocks.2.1

/-- **a deadlock is reported while a spurious return is still possible.**  The FIRST iteration of `lostNotify`
(the branch "no spurious return" of `Path.branchSpurious`) panics with "deadlock" before any event; in the
reference state reached — the initial one — no thread is enabled, the main thread has not finished, and
`SC.spurious` still allows a step: the one modelled spurious return of `nWait 0`.  (C05 speaks of `enabled`
threads; `Spec/SC.lean`: the spurious return "is possible but never guaranteed, so it does not make a thread
enabled".) -/
theorem lostNotify_spurious_possible :
    (runIter lostNotify (Check.initExec lostNotify.cfg)).term = some .deadlock ∧
    (runIter lostNotify (Check.initExec lostNotify.cfg)).events = [] ∧
    (∀ t, t < 5 → SCData2.enabled lostNotify (data2 (SC.init lostNotify)) t = false) ∧
    ((data2 (SC.init lostNotify)).th 0).started = true ∧ ((data2 (SC.init lostNotify)).th 0).finished = false ∧
    (SCData2.spuriousL lostNotify (data2 (SC.init lostNotify)) 0).length = 1 ∧
    (SC.spurious lostNotify (SC.init lostNotify) 0).length = 1 := by
  refine ⟨by decide +kernel, by decide +kernel, by decide +kernel, by decide +kernel, by decide +kernel,
    by decide +kernel, by decide +kernel⟩

/-- `park` nobody unparks -/
def parkAlone : Prog := { cfg := {}, threads := [[.park]] }

theorem parkAlone_deadlocks :
    WFD parkAlone ∧ (Check.run parkAlone).2 = .panicked .deadlock ∧ okCheck parkAlone = true := by
  refine ⟨by decide +kernel, by decide +kernel, by decide +kernel⟩

/-- a `cvWait` nobody notifies: the deadlock is reported by the `rt::block` that ends the first half of `cvWait`;
the deadlocked reference state is the one AFTER that first half (mutex released, thread queued) -/
def cvAlone : Prog := { cfg := { nMutexes := 1, nCondvars := 1 }, threads := [[.lock 0, .cvWait 0 0]] }

theorem cvAlone_deadlocks :
    WFD cvAlone ∧ (Check.run cvAlone).2 = .panicked .deadlock ∧ okCheck cvAlone = true ∧
    (Check.run cvAlone).1.map (fun it => it.result.events.map triple) = [[(0, 0, .unit)]] := by
  refine ⟨by decide +kernel, by decide +kernel, by decide +kernel, by decide +kernel⟩

theorem cvAlone_is_real :
    ∃ it ∈ (Check.run cvAlone).1, it.result.term = some .deadlock ∧
      ∃ s, SCData2.Run2 cvAlone (data2 (SC.init cvAlone)) (it.result.events.map triple) s ∧
        (∀ t, SCData2.enabled cvAlone s t = false) ∧ ∃ t, (s.th t).started ∧ ¬ (s.th t).finished :=
  check_deadlock_is_real2 cvAlone_deadlocks.1 cvAlone_deadlocks.2.2.1 cvAlone_deadlocks.2.1

/-- a lost wake-up: the main thread waits on the condvar without checking a flag; when thread 1 notifies first,
the notification is lost and the main thread waits for ever -/
def lostWakeup : Prog :=
  { cfg := { nMutexes := 1, nCondvars := 1 },
    threads := [[.spawn 1, .lock 0, .cvWait 0 0, .unlock 0, .join 1], [.lock 0, .cvOne 0, .unlock 0]] }

/-- four iterations complete; the fifth one panics with "deadlock"; every iteration satisfies `okRun` -/
theorem lostWakeup_deadlocks :
    WFD lostWakeup ∧ (Check.run lostWakeup).2 = .panicked .deadlock ∧ okCheck lostWakeup = true ∧
    (Check.run lostWakeup).1.map (·.result.term) = [none, none, none, none, some .deadlock] := by
  refine ⟨by decide +kernel, by decide +kernel, by decide +kernel, by decide +kernel⟩

theorem lostWakeup_is_real :
    ∃ it ∈ (Check.run lostWakeup).1, it.result.term = some .deadlock ∧
      ∃ s, SCData2.Run2 lostWakeup (data2 (SC.init lostWakeup)) (it.result.events.map triple) s ∧
        (∀ t, SCData2.enabled lostWakeup s t = false) ∧ ∃ t, (s.th t).started ∧ ¬ (s.th t).finished :=
  check_deadlock_is_real2 lostWakeup_deadlocks.1 lostWakeup_deadlocks.2.2.1 lostWakeup_deadlocks.2.1

/-- producer / consumer (`Props/Refine2.lean`) never deadlocks: the exploration completes -/
theorem prodCons_never_deadlocks :
    WFD Refine2.Example.prodCons ∧ (Check.run Refine2.Example.prodCons).2 = .completed ∧
    ((Check.run Refine2.Example.prodCons).1.all fun it => it.result.term == none) = true := by
  refine ⟨by decide +kernel, by decide +kernel, by decide +kernel⟩

/-- the condvar hand-off with a flag (`Props/Refine2.lean`) never deadlocks: eight iterations, all complete -/
theorem handOff_never_deadlocks :
    WFD Refine2.Example.handOff ∧ (Check.run Refine2.Example.handOff).2 = .completed ∧
    (Check.run Refine2.Example.handOff).1.length = 8 ∧
    ((Check.run Refine2.Example.handOff).1.all fun it => it.result.term == none) = true := by
  refine ⟨by decide +kernel, by decide +kernel, by decide +kernel, by decide +kernel⟩

end Example

/-! ## 5. the hypotheses are necessary -/

/-- every run of the reference with trace `τ` ends in a state in which some thread is enabled, as soon as this
holds of the states of a closed set (`Proofs/Refine2Check.lean`) that have matched all of `τ` -/
theorem all_runs_enabled {p : Prog} {T : Nat} {τ : Refine2.Check.Trace} {S : List (Nat × SCData2)}
    {d0 : SCData2} (hc : Refine2.Check.closed p T τ S = true) (h0 : S.contains (0, d0) = true)
    (hen : (S.all fun x => x.1 != τ.length || (List.range T).any fun t => SCData2.enabled p x.2 t) = true) :
    ∀ d, SCData2.Run2 p d0 τ d → ∃ t, SCData2.enabled p d t = true := by
  intro d hr
  have h0' : (0, d0) ∈ S := by simpa using h0
  have hm := Refine2.Check.Run2_in_closed hc h0' hr (List.prefix_refl _)
  rw [List.all_eq_true] at hen
  have := hen _ hm
  simp only [bne_self_eq_false, Bool.false_or, List.any_eq_true, List.mem_range] at this
  obtain ⟨t, _, ht⟩ := this
  exact ⟨t, ht⟩

/-- **`JoinOnce` is necessary** (as in the lock fragment): `dj` joins body 1 twice; it satisfies `WF2`; from the
fresh execution with the empty path the twin reports a deadlock (the second `join` blocks on the notification the
first one consumed) after the events `spawn`, `join`, and the run satisfies `okRun`.  EVERY reference run with
exactly that trace ends in a state in which some thread is enabled (the second `join` of the finished thread). -/
theorem double_join_false_deadlock2 :
    WF2 Deadlock.Counter.dj ∧ ¬ WFD Deadlock.Counter.dj ∧
    FreshExec2 (Check.initExec Deadlock.Counter.dj.cfg) ∧ ReplayOK (Check.initExec Deadlock.Counter.dj.cfg).path ∧
    okIter Deadlock.Counter.dj (Check.initExec Deadlock.Counter.dj.cfg) = true ∧
    (runIter Deadlock.Counter.dj (Check.initExec Deadlock.Counter.dj.cfg)).term = some .deadlock ∧
    (runIter Deadlock.Counter.dj (Check.initExec Deadlock.Counter.dj.cfg)).events.map triple =
      [(0, 0, .unit), (0, 1, .unit)] ∧
    ∀ d, SCData2.Run2 Deadlock.Counter.dj (data2 (SC.init Deadlock.Counter.dj))
        [(0, 0, .unit), (0, 1, .unit)] d → ∃ t, SCData2.enabled Deadlock.Counter.dj d t = true := by
  refine ⟨by decide +kernel, by decide +kernel, freshExec2_new _ _ _ _, replayOK_new _ _ _, by decide +kernel,
    by decide +kernel, by decide +kernel, ?_⟩
  exact all_runs_enabled (T := 2)
    (S := Refine2.Check.saturate Deadlock.Counter.dj 2 [(0, 0, .unit), (0, 1, .unit)] 20
      [(0, data2 (SC.init Deadlock.Counter.dj))])
    (by decide +kernel) (by decide +kernel) (by decide +kernel)

/-- **`ReplayOK` is necessary**: a path whose first `Schedule` entry has no active thread; the twin (like loom)
reports a deadlock at the first branch point, before any event, although in EVERY reference state reached without
an event the main thread is enabled -/
theorem empty_schedule_false_deadlock2 :
    WFD Deadlock.Counter.p2 ∧ FreshExec2 Deadlock.Counter.emptyExec ∧
    ¬ ReplayOK Deadlock.Counter.emptyExec.path ∧
    okIter Deadlock.Counter.p2 Deadlock.Counter.emptyExec = true ∧
    (runIter Deadlock.Counter.p2 Deadlock.Counter.emptyExec).term = some .deadlock ∧
    (runIter Deadlock.Counter.p2 Deadlock.Counter.emptyExec).events = [] ∧
    ∀ d, SCData2.Run2 Deadlock.Counter.p2 (data2 (SC.init Deadlock.Counter.p2)) [] d →
      ∃ t, SCData2.enabled Deadlock.Counter.p2 d t = true := by
  refine ⟨by decide +kernel, ⟨rfl, rfl⟩, by decide +kernel, by decide +kernel, by decide +kernel,
    by decide +kernel, ?_⟩
  exact all_runs_enabled (T := 1)
    (S := Refine2.Check.saturate Deadlock.Counter.p2 1 [] 20 [(0, data2 (SC.init Deadlock.Counter.p2))])
    (by decide +kernel) (by decide +kernel) (by decide +kernel)

namespace Counter

/-- the main thread takes the mutex and joins thread 1, which parks and then wants the mutex -/
def parkLock : Prog :=
  { cfg := { nMutexes := 1 }, threads := [[.spawn 1, .lock 0, .join 1], [.park, .lock 0]] }

/-- a hand-made path: at the branch point of the main thread's `join` it names thread 1, which is blocked in
`park` -/
def parkLockExec : Exec := { Check.initExec parkLock.cfg with path := Refine2.Counter.pathOf [1, 0, 1] }

def parkLockTrace : Refine2.Check.Trace := [(0, 0, .unit), (0, 1, .unit), (1, 0, .unit)]

end Counter

/-- **the run-level condition `okRun` is necessary.**  `parkLock` is well-formed and nobody unparks thread 1.
The (hand-made) path `parkLockExec` names a thread at every scheduling point (`ReplayOK`), but the thread it names
at the third one is blocked in `park`: the twin resumes it, its `park` returns (event `(1, 0, unit)`), its `lock 0`
blocks, and the twin reports a deadlock.  The events logged are the trace of NO run of the reference (no `park` is
ever enabled), let alone of one that ends in a deadlocked state.  The run violates `okRun`. -/
theorem resumed_park_false_deadlock :
    WFD Counter.parkLock ∧ FreshExec2 Counter.parkLockExec ∧ ReplayOK Counter.parkLockExec.path ∧
    okIter Counter.parkLock Counter.parkLockExec = false ∧
    (runIter Counter.parkLock Counter.parkLockExec).term = some .deadlock ∧
    (runIter Counter.parkLock Counter.parkLockExec).events.map triple = Counter.parkLockTrace ∧
    ¬ ∃ d, SCData2.Run2 Counter.parkLock (data2 (SC.init Counter.parkLock)) Counter.parkLockTrace d := by
  refine ⟨by decide +kernel, ⟨rfl, rfl⟩, by decide +kernel, by decide +kernel, by decide +kernel,
    by decide +kernel, ?_⟩
  exact Refine2.Check.not_trace (T := 2)
    (S := Refine2.Check.saturate Counter.parkLock 2 Counter.parkLockTrace 20
      [(0, data2 (SC.init Counter.parkLock))])
    (by decide +kernel) (by decide +kernel) (by decide +kernel)

end Deadlock2
end LoomVerif

/-
C06 — "A failure in any explored execution fails the model run, and only then."

Theorems about the loop of `Builder::check` (`Check.loop`): the run ends with the panic of the
FIRST failing iteration, every earlier iteration completed, nothing after it is executed; the
run ends normally iff no executed iteration failed.  What is dropped while the panic unwinds, and
whether the process survives it, is outside the model (findings F8, F11, F12, F13) and is
exercised only by the correspondence run.
-/
import LoomVerif.Model.Check

namespace LoomVerif.C06
open LoomVerif Check

/-- every iteration except possibly the last completed without a panic; the last one panicked
exactly when the outcome says so -/
theorem loop_shape (prog : Prog) : ∀ (fuel i : Nat) (e : Exec) (its : List Iteration) (o : Outcome),
    loop prog fuel i e = (its, o) →
      (∀ k (hk : k + 1 < its.length), (its[k]'(by omega)).result.term = none) ∧
      (∀ p, o = .panicked p ↔ ∃ last, its.getLast? = some last ∧ last.result.term = some p) ∧
      (o = .completed → ∀ it ∈ its, it.result.term = none) ∧
      (o = .limit → ∀ it ∈ its, it.result.term = none) := by
  intro fuel
  induction fuel with
  | zero =>
    intro i e its o h
    simp only [loop] at h
    obtain ⟨rfl, rfl⟩ := Prod.mk.inj h
    simp
  | succ n ih =>
    intro i e its o h
    simp only [loop] at h
    split at h
    · obtain ⟨rfl, rfl⟩ := Prod.mk.inj h
      simp
    · cases hterm : (runIter prog e).term with
      | some p =>
        simp only [hterm] at h
        obtain ⟨rfl, rfl⟩ := Prod.mk.inj h
        refine ⟨by simp, ?_, by simp, by simp⟩
        intro q
        simp [hterm, eq_comm]
      | none =>
        simp only [hterm] at h
        cases hstep : (runIter prog e).exec.step with
        | none =>
          simp only [hstep] at h
          obtain ⟨rfl, rfl⟩ := Prod.mk.inj h
          refine ⟨by simp, ?_, ?_, by simp⟩
          · intro q; simp [hterm]
          · intro _ it hit; simp at hit; subst hit; exact hterm
        | some e' =>
          simp only [hstep] at h
          generalize hrec : loop prog n (i + 1) e' = r at h
          obtain ⟨rest, o'⟩ := r
          simp only at h
          obtain ⟨rfl, rfl⟩ := Prod.mk.inj h
          obtain ⟨h1, h2, h3, h4⟩ := ih (i + 1) e' rest o' hrec
          refine ⟨?_, ?_, ?_, ?_⟩
          · intro k hk
            cases k with
            | zero => simpa using hterm
            | succ k =>
              have : k + 1 < rest.length := by simpa using hk
              simpa using h1 k this
          · intro q
            rw [h2 q]
            cases rest with
            | nil => simp [hterm]
            | cons a l => simp [List.getLast?_cons_cons]
          · intro ho it hit
            simp at hit
            rcases hit with rfl | hit
            · exact hterm
            · exact h3 ho it hit
          · intro ho it hit
            simp at hit
            rcases hit with rfl | hit
            · exact hterm
            · exact h4 ho it hit

/-- `Check.first_panic`: the run fails with `p` iff its last executed iteration is the first one
that panics, and it panics with `p` -/
theorem first_panic {prog : Prog} {fuel : Nat} {its : List Iteration} {o : Outcome}
    (h : run prog fuel = (its, o)) (p : Panic) :
    o = .panicked p ↔
      ∃ last, its.getLast? = some last ∧ last.result.term = some p ∧
        ∀ k (hk : k + 1 < its.length), (its[k]'(by omega)).result.term = none := by
  have := loop_shape prog fuel 1 (initExec prog.cfg) its o h
  constructor
  · intro ho
    obtain ⟨last, hl, ht⟩ := (this.2.1 p).1 ho
    exact ⟨last, hl, ht, this.1⟩
  · rintro ⟨last, hl, ht, _⟩
    exact (this.2.1 p).2 ⟨last, hl, ht⟩

/-- the run returns normally (all paths explored, or the permutation limit) only if no executed
iteration failed -/
theorem ok_only_if_none_failed {prog : Prog} {fuel : Nat} {its : List Iteration} {o : Outcome}
    (h : run prog fuel = (its, o)) (ho : o = .completed ∨ o = .limit) :
    ∀ it ∈ its, it.result.term = none := by
  have := loop_shape prog fuel 1 (initExec prog.cfg) its o h
  rcases ho with ho | ho
  · exact this.2.2.1 ho
  · exact this.2.2.2 ho

/-- a model run is a function of the program: a later run in the same process "starts clean" in the
twin by construction (the implementation side of this is what the correspondence run checks) -/
theorem later_run_starts_clean (prog : Prog) (fuel : Nat) :
    (run prog fuel) = loop prog fuel 1 (initExec prog.cfg) := rfl

end LoomVerif.C06

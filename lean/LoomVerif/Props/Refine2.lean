/-
REFINEMENT of the reference interleaving semantics by the twin, for the WAIT fragment of the DSL.

Every run of the twin (`World.runLoop` from `World.init`) that ends without a panic is, operation by operation, an
execution of the reference semantics `Spec/SC.lean` as far as VALUES and BLOCKING are concerned: the results the
twin records (`World.complete`: the `(thread, pc, result)` triples of `World.events`) are exactly, and in the same
order, the results of a run of the reference each of whose steps is either a step (`SC.step`) of a thread that is
ENABLED in the reference state (`lock` only on a free mutex, `join` only of a finished thread, `recv` only on a
non-empty channel, `nWait` only on a raised flag, `park` only with a token, the second half of `cvWait` only
after a notification and on a free mutex) or the one modelled spurious return of `nWait` (`SC.spurious`).
Data-race verdicts (the only use of the vector clocks of `Spec/SC.lean`) are outside this statement, as are the
runs in which the twin panics.

Fragment (operations covered, each at full strength): the lock fragment (`spawn`, `join`, `lock`, `unlock`,
`tryLock`, `cellRead`, `cellWrite`, `ifEq`, the end of a thread) and
1. channels: `send`, `recv`, `tryRecv`, `dropRx`;
2. `nNotify`, `nWait` including the spurious return (`SCData2.Run2` has both kinds of steps);
3. `park`, `unpark`;
4. the condvar: `cvWait` (two reference steps), `cvOne`, `cvAll`.

Hypotheses, all explicit and decidable / computable:
* `Refine2.WF2 prog` (decidable; `Proofs/Refine2Data.lean`): a main body; only fragment operations, with declared
  objects and `spawn t` naming an existing body `0 < t`; each body spawned by at most one operation of the text;
  per channel a single consumer body, no receiver-side operation after its `dropRx` (`RxOrder`).
  NOT needed: at most one waiter per `Notify` (the twin panics `notifyTwoWaiters`; the relation tracks
  `World.notifyWaiting`), `unpark t` names a spawned thread (the twin fails with an internal error otherwise),
  `cvWait v m` by the holder of `m` / `unlock` by the holder (neither side checks).
* `Refine2.FreshExec2 exec`: the thread table of the start of an iteration (`Exec.new`, `Exec.step`).  The path
  is arbitrary.
* `Refine2.okRun fuel w0 = true` (computable by running the twin): at every step of the run `resumeOk` holds:
  - the thread the schedule resumes at stage 2 of a `cvWait` is no longer in the condvar's waiter list, and the
    thread it resumes at stage 1 of `park` is not parked: a path to replay (a hand-made checkpoint) can name a
    BLOCKED thread; the twin (as real loom) then lets the `park` / the wait return although nobody has unparked /
    notified it: `Counter.park_resumed`, `Counter.cvwait_resumed` (runs that complete without a panic, whose
    trace is not a trace of the reference);
  - the thread that completes a `park` holds no stored token: FINDING.  When a thread blocked in `park` is
    unparked TWICE before it is scheduled again, the twin (`Thread::set_unparked`) wakes it with the first
    unpark and stores the second one as a token; its `park` returns, and its NEXT `park` returns at once.  The
    twin logs the return of the first `park` when the thread is resumed, i.e. AFTER the second `unpark`; in that
    order (`unpark`, `unpark`, `park`, `park`) the reference semantics cannot execute: one token, two parks.
    The per-thread results are those of a reference execution (`unpark`, `park`, `unpark`, `park`), but the
    completion order of the twin is not a linearisation order.  `Counter.double_unpark`: a well-formed program
    whose FIRST iteration (default schedule) does this; `Counter.double_unpark_not_reference`: its event log is
    formally not the trace of any run of the data semantics (verified trace checker `Check.not_trace`,
    `Proofs/Refine2Check.lean`); likewise `Counter.park_resumed_not_reference`,
    `Counter.cvwait_resumed_not_reference`.

Headlines: `Refine2.step_simulation`, `Refine2.run_is_reference_execution`,
`Refine2.runIter_is_reference_execution`, `Refine2.init_related`; the data-only projection of the reference and back:
`Refine2.enabled_data`, `Refine2.step_lift`, `Refine2.spurious_lift`, `Refine2.run_is_SC_execution`.
-/
import LoomVerif.Proofs.Refine2Run
import LoomVerif.Proofs.Refine2Lift2
import LoomVerif.Proofs.Refine2Check
import LoomVerif.Model.Check

namespace LoomVerif
namespace Refine2
open Refine

/-! ## 1. one-step simulation -/

/-- **One-step simulation.**  `w` is related to the reference data `s`, its active thread exists and `resumeOk`
holds; one stage of that thread succeeds.  Then the program is kept, the new active thread (if any) is in the thread
table, and

* either `w'` is related to the same `s` and logs nothing (a stuttering step: branch points, blocking, scheduling,
  the decision about a spurious return, a message drained by `dropRx`, …),
* or `w'` is related to a successor `s'` of `s` by a step of the body `t` the active thread runs — a step of
  `SCData2.stepL` (`SC.step`) ENABLED in `s`, or the spurious return `SCData2.spuriousL` (`SC.spurious`) — and what
  the twin logs is exactly the label of that step. -/
theorem step_simulation {w w' : World} {s : SCData2} (hwf : WF2 w.prog) (hR : R2 w s)
    (hact : w.tid < w.ctl.length) (hok : resumeOk w = true) (h : w.stepActive = .ok w') :
    (w'.prog = w.prog ∧
     ((R2 w' s ∧ w'.events = w.events) ∨
      ∃ l s',
        ((SCData2.enabled w.prog s (w.ctlOf w.tid).body = true ∧
            (l, s') ∈ SCData2.stepL w.prog s (w.ctlOf w.tid).body) ∨
          (l, s') ∈ SCData2.spuriousL w.prog s (w.ctlOf w.tid).body) ∧
        R2 w' s' ∧
        w'.events.map triple = SCData.label (w.ctlOf w.tid).body l ++ w.events.map triple)) ∧
    InRange w' :=
  step_sim2 hwf hR hact hok h

/-! ## 2. runs -/

/-- the initial world is related to the initial reference state -/
theorem init_related {prog : Prog} {exec : Exec} {w0 : World} (hwf : WF2 prog) (hfresh : FreshExec2 exec)
    (hinit : World.init prog exec = .ok w0) : R2 w0 (data2 (SC.init prog)) :=
  (init_R2 hwf hfresh hinit).1

/-- **Every complete run of the twin is an execution of the reference.**  From ANY execution record with a fresh
thread table (any path to replay, hence any schedule), if the run of the twin ends without a panic and satisfies
`okRun`, then there is a run of the data semantics from the initial reference state — each step a step of a thread
enabled in the reference state, or a spurious return of `nWait` — whose trace of recorded `(thread, pc, result)`
triples is exactly the event log of the twin, in order, and whose final state is related to the final world. -/
theorem run_is_reference_execution {prog : Prog} {exec : Exec} {w0 w : World} {fuel : Nat}
    (hwf : WF2 prog) (hfresh : FreshExec2 exec) (hinit : World.init prog exec = .ok w0)
    (hok : okRun fuel w0 = true) (hrun : World.runLoop fuel w0 = (w, none)) :
    ∃ s, SCData2.Run2 prog (data2 (SC.init prog)) (w.events.reverse.map triple) s ∧ R2 w s := by
  obtain ⟨hR, hp, hev⟩ := init_R2 hwf hfresh hinit
  obtain ⟨s, h1, h2, _⟩ := runLoop_sim2 prog (data2 (SC.init prog)) hwf fuel w0 w _ hp hR
    (init_inRange2 hfresh hinit) (by rw [hev]; exact SCData2.Run2.nil _) hok hrun
  exact ⟨s, h1, h2⟩

/-- `okRun` for `runIter` -/
def okIter (prog : Prog) (exec : Exec) (fuel : Nat := 200000) : Bool :=
  match World.init prog exec with
  | .ok w0 => okRun fuel w0
  | .error _ => false

/-- the same for `runIter`: the events it reports are the trace of a reference run -/
theorem runIter_is_reference_execution {prog : Prog} {exec : Exec} {fuel : Nat}
    (hwf : WF2 prog) (hfresh : FreshExec2 exec) (hok : okIter prog exec fuel = true)
    (hterm : (runIter prog exec fuel).term = none) :
    ∃ s, SCData2.Run2 prog (data2 (SC.init prog)) ((runIter prog exec fuel).events.map triple) s := by
  unfold runIter at hterm ⊢
  unfold okIter at hok
  cases hi : World.init prog exec with
  | error e => rw [hi] at hterm; cases hterm
  | ok w0 =>
    rw [hi] at hterm hok
    simp only at hterm hok ⊢
    cases hr : World.runLoop fuel w0 with
    | mk w r =>
      rw [hr] at hterm
      cases r with
      | some e => cases hterm
      | none =>
        obtain ⟨s, h1, _⟩ := run_is_reference_execution hwf hfresh hi hok hr
        simp only
        refine ⟨s, ?_⟩
        split <;> exact h1

/-- in a related final state every twin thread has recorded exactly the results of the reference thread of its
body; finished ↔ the epilogue has notified -/
theorem related_results {w : World} {s : SCData2} (hR : R2 w s) (i : Nat) (hi : i < w.ctl.length) :
    (s.th (w.ctlOf i).body).rets = (w.ctlOf i).results ∧ (s.th (w.ctlOf i).body).pc = (w.ctlOf i).pc ∧
    ((s.th (w.ctlOf i).body).finished = true ↔ 10 ≤ (w.ctlOf i).fin) := by
  obtain ⟨_, h⟩ := hR.c.x.thr i hi
  refine ⟨h.2.2.1, h.2.1, ?_⟩
  have := h.2.2.2.1
  show (s.ths.getD (w.ctl.getD i {}).body {}).finished = true ↔ 10 ≤ (w.ctl.getD i {}).fin
  rw [this]; simp

/-! ## 3. the data semantics is the reference semantics without clocks -/

/-- `SC.enabled` only reads the data -/
theorem enabled_data {p : Prog} {s : SC.St} {t : Nat} (hv : s.verdict = none)
    (hop : ∀ op, SC.opOf p s t = some op → isFrag2 op = true) :
    SC.enabled p s t = SCData2.enabled p (data2 s) t :=
  SC.enabled_data2 hv hop

/-- every step of the data semantics from the data of a reference state (no verdict yet) is the data of a step of
`SC.step` of the same thread, unless that step stops with a data-race verdict -/
theorem step_lift {p : Prog} {s : SC.St} {t : Nat} {l : Option (Nat × Ret)} {d' : SCData2}
    (hs : FragSt2 s) (h : (l, d') ∈ SCData2.stepL p (data2 s) t) :
    ∃ s', s' ∈ SC.step p s t ∧ ((FragSt2 s' ∧ data2 s' = d') ∨ ∃ k, s'.verdict = some (.race k)) :=
  SC.step_lift2 hs h

/-- every spurious return of the data semantics is the data of a `SC.spurious` step -/
theorem spurious_lift {p : Prog} {s : SC.St} {t : Nat} {l : Option (Nat × Ret)} {d' : SCData2}
    (hs : FragSt2 s) (h : (l, d') ∈ SCData2.spuriousL p (data2 s) t) :
    ∃ s', s' ∈ SC.spurious p s t ∧ FragSt2 s' ∧ data2 s' = d' :=
  SC.spurious_lift2 hs h

/-- … and hence every complete run of the twin is an execution of `Spec/SC.lean` itself (`SCExec2`: every step is
`SC.step` of a thread that is `SC.enabled`, or `SC.spurious`), with clocks: there is a reference execution from
`SC.init prog` that either ends in a state whose data is related to the final world of the twin (and the twin's
event log is the trace of the corresponding data run), or — a prefix of the run — ends in a data-race verdict. -/
theorem run_is_SC_execution {prog : Prog} {exec : Exec} {w0 w : World} {fuel : Nat}
    (hwf : WF2 prog) (hfresh : FreshExec2 exec) (hinit : World.init prog exec = .ok w0)
    (hok : okRun fuel w0 = true) (hrun : World.runLoop fuel w0 = (w, none)) :
    ∃ s, SCExec2 prog (SC.init prog) s ∧
      ((s.verdict = none ∧ R2 w (data2 s) ∧
          SCData2.Run2 prog (data2 (SC.init prog)) (w.events.reverse.map triple) (data2 s)) ∨
        ∃ k, s.verdict = some (.race k)) := by
  obtain ⟨d, hr, hR⟩ := run_is_reference_execution hwf hfresh hinit hok hrun
  obtain ⟨s, hex, hc⟩ := Run2.lift hwf.fragProg hr
  refine ⟨s, hex, ?_⟩
  rcases hc with ⟨hfs, hd⟩ | hrace
  · subst hd
    exact .inl ⟨hfs.1, hR, hr⟩
  · exact .inr hrace

/-! ## 4. non-vacuity -/

namespace Example

/-- producer / consumer over a channel: the main thread sends two messages; the consumer receives them, polls the
empty channel and drops the receiver -/
def prodCons : Prog :=
  { cfg := { nChans := 1 },
    threads := [[.spawn 1, .send 0 1, .send 0 2, .join 1], [.recv 0, .recv 0, .tryRecv 0, .dropRx 0]] }

example : WF2 prodCons := by decide +kernel

def exec0 : Exec := Check.initExec prodCons.cfg

theorem prodCons_run : (runIter prodCons exec0).term = none ∧ okIter prodCons exec0 = true := by
  decide +kernel

/-- … so its events are the trace of a reference run (by the theorem) -/
example : ∃ s, SCData2.Run2 prodCons (data2 (SC.init prodCons)) ((runIter prodCons exec0).events.map triple) s :=
  runIter_is_reference_execution (by decide +kernel) (freshExec2_new _ _ _ _) prodCons_run.2 prodCons_run.1

example : (runIter prodCons exec0).events.map triple =
    [(0, 0, .unit), (0, 1, .unit), (0, 2, .unit), (1, 0, .val 1), (1, 1, .val 2), (1, 2, .empty), (1, 3, .unit),
     (0, 3, .unit)] := by decide +kernel

/-- a condvar hand-off: the main thread waits (under the mutex) until the flag cell is set; thread 1 sets it under
the mutex and notifies -/
def handOff : Prog :=
  { cfg := { nCells := 1, nMutexes := 1, nCondvars := 1 },
    threads := [[.spawn 1, .lock 0, .cellRead 0, .ifEq 1 (.val 0) 1, .cvWait 0 0, .cellRead 0, .unlock 0, .join 1],
                [.lock 0, .cellWrite 0 1, .cvOne 0, .unlock 0]] }

example : WF2 handOff := by decide +kernel

def hexec0 : Exec := Check.initExec handOff.cfg

theorem handOff_run : (runIter handOff hexec0).term = none ∧ okIter handOff hexec0 = true := by
  decide +kernel

example : ∃ s, SCData2.Run2 handOff (data2 (SC.init handOff)) ((runIter handOff hexec0).events.map triple) s :=
  runIter_is_reference_execution (by decide +kernel) (freshExec2_new _ _ _ _) handOff_run.2 handOff_run.1

/-- the main thread reads 0, waits, is notified, re-acquires the mutex (the event of `cvWait`, pc 4) and reads 1 -/
example : (runIter handOff hexec0).events.map triple =
    [(0, 0, .unit), (0, 1, .unit), (0, 2, .val 0), (1, 0, .unit), (1, 1, .unit), (1, 2, .unit), (1, 3, .unit),
     (0, 4, .unit), (0, 5, .val 1), (0, 6, .unit), (0, 7, .unit)] := by decide +kernel

/-- a later iteration of the exploration of the same program (the path the previous ones leave behind) -/
def hexec (n : Nat) : Exec :=
  (List.range n).foldl (fun e _ => ((runIter handOff e).exec.step).getD e) hexec0

theorem handOff_run3 : (runIter handOff (hexec 3)).term = none ∧ okIter handOff (hexec 3) = true ∧
    FreshExec2 (hexec 3) := by
  refine ⟨by decide +kernel, by decide +kernel, by unfold FreshExec2; decide +kernel⟩

example : ∃ s, SCData2.Run2 handOff (data2 (SC.init handOff)) ((runIter handOff (hexec 3)).events.map triple) s :=
  runIter_is_reference_execution (by decide +kernel) handOff_run3.2.2 handOff_run3.2.1 handOff_run3.1

/-- `Notify` and `park` / `unpark` -/
def signals : Prog :=
  { cfg := { nNotifies := 1 },
    threads := [[.spawn 1, .nNotify 0, .unpark 1, .join 1], [.nWait 0, .park]] }

example : WF2 signals := by decide +kernel

def sexec (n : Nat) : Exec :=
  (List.range n).foldl (fun e _ => ((runIter signals e).exec.step).getD e) (Check.initExec signals.cfg)

theorem signals_run (n : Nat) (hn : n < 4) : (runIter signals (sexec n)).term = none ∧
    okIter signals (sexec n) = true ∧ FreshExec2 (sexec n) := by
  have : n = 0 ∨ n = 1 ∨ n = 2 ∨ n = 3 := by omega
  rcases this with rfl | rfl | rfl | rfl <;>
    exact ⟨by decide +kernel, by decide +kernel, by unfold FreshExec2; decide +kernel⟩

/-- two waits, one notification: the run can only complete thanks to the spurious return of one `nWait` -/
def spur2 : Prog :=
  { cfg := { nNotifies := 1 }, threads := [[.spawn 1, .nNotify 0, .join 1], [.nWait 0, .nWait 0]] }

def spexec (n : Nat) : Exec :=
  (List.range n).foldl (fun e _ => ((runIter spur2 e).exec.step).getD e) (Check.initExec spur2.cfg)

/-- the first iteration (no spurious return) deadlocks: outside the theorem; the second one takes the spurious
return and completes: the theorem applies, the reference run has a `spur` step -/
theorem spur2_runs : WF2 spur2 ∧ (runIter spur2 (spexec 0)).term = some .deadlock ∧
    (runIter spur2 (spexec 1)).term = none ∧ okIter spur2 (spexec 1) = true ∧ FreshExec2 (spexec 1) := by
  refine ⟨by decide +kernel, by decide +kernel, by decide +kernel, by decide +kernel,
    by unfold FreshExec2; decide +kernel⟩

example : ∃ s, SCData2.Run2 spur2 (data2 (SC.init spur2)) ((runIter spur2 (spexec 1)).events.map triple) s :=
  runIter_is_reference_execution spur2_runs.1 spur2_runs.2.2.2.2 spur2_runs.2.2.2.1 spur2_runs.2.2.1

end Example

/-! ## 5. the run-level hypothesis cannot be dropped -/

namespace Counter

def sch (a : Nat) : Sched :=
  { preemptions := 0, initialActive := none,
    threads := (List.range 5).map (fun i => if i == a then .active else .disabled), prev := none, exploring := true }

def pathOf (l : List Nat) : Path := { Path.new 1000 none true with branches := l.map (fun a => .sched (sch a)) }

/-- thread 1 is unparked twice while it is blocked in its first `park` -/
def unpark2 : Prog :=
  { cfg := {}, threads := [[.spawn 1, .spawn 2, .join 1, .join 2], [.park, .park], [.unpark 1, .unpark 1]] }

/-- **FINDING (completion order of `park`).**  `unpark2` is well-formed; its FIRST iteration (nothing to replay:
the default schedule) completes without a panic; the twin logs `unpark`, `unpark` (thread 2), then `park`, `park`
(thread 1): thread 1 was blocked in its first `park` when both unparks arrived; the first one woke it, the second
one was stored as a token and let its second `park` return at once.  No run of the reference has this trace (after
two unparks there is ONE token: the second `park` is not enabled); the run violates `okRun`. -/
theorem double_unpark :
    WF2 unpark2 ∧ FreshExec2 (Check.initExec unpark2.cfg) ∧
    (runIter unpark2 (Check.initExec unpark2.cfg)).term = none ∧
    (runIter unpark2 (Check.initExec unpark2.cfg)).events.map triple =
      [(0, 0, .unit), (0, 1, .unit), (2, 0, .unit), (2, 1, .unit), (1, 0, .unit), (1, 1, .unit), (0, 2, .unit),
       (0, 3, .unit)] ∧
    okIter unpark2 (Check.initExec unpark2.cfg) = false := by
  refine ⟨by decide +kernel, ⟨rfl, rfl⟩, by decide +kernel, by decide +kernel, by decide +kernel⟩

def unpark2Trace : Check.Trace :=
  [(0, 0, .unit), (0, 1, .unit), (2, 0, .unit), (2, 1, .unit), (1, 0, .unit), (1, 1, .unit), (0, 2, .unit),
   (0, 3, .unit)]

/-- … formally: the event log of that run is NOT the trace of any run of the data semantics (verified checker
`Check.not_trace`: the set of states reachable along prefixes of the trace, closed under the steps, matches at most
its first five entries) -/
theorem double_unpark_not_reference :
    (runIter unpark2 (Check.initExec unpark2.cfg)).events.map triple = unpark2Trace ∧
    ¬ ∃ d, SCData2.Run2 unpark2 (data2 (SC.init unpark2)) unpark2Trace d :=
  ⟨by decide +kernel,
   Check.not_trace (T := 3)
    (S := Check.saturate unpark2 3 unpark2Trace 20 [(0, data2 (SC.init unpark2))])
    (by decide +kernel) (by decide +kernel) (by decide +kernel)⟩

def park1 : Prog := { cfg := {}, threads := [[.spawn 1, .join 1], [.park]] }

def park1Exec : Exec := { Check.initExec park1.cfg with path := pathOf [1, 1, 1] }

/-- **A path that resumes a thread blocked in `park`.**  `park1` never unparks thread 1.  The (hand-made) path
names thread 1 at the scheduling point of its own `rt::park`: the twin resumes it, its `park` returns, the run
completes without a panic.  No run of the reference has this trace (`park` is never enabled); the run violates
`okRun`. -/
theorem park_resumed :
    WF2 park1 ∧ FreshExec2 park1Exec ∧ (runIter park1 park1Exec).term = none ∧
    (runIter park1 park1Exec).events.map triple = [(0, 0, .unit), (1, 0, .unit), (0, 1, .unit)] ∧
    okIter park1 park1Exec = false := by
  refine ⟨by decide +kernel, ⟨rfl, rfl⟩, by decide +kernel, by decide +kernel, by decide +kernel⟩

theorem park_resumed_not_reference :
    ¬ ∃ d, SCData2.Run2 park1 (data2 (SC.init park1)) [(0, 0, .unit), (1, 0, .unit), (0, 1, .unit)] d :=
  Check.not_trace (T := 2)
    (S := Check.saturate park1 2 [(0, 0, .unit), (1, 0, .unit), (0, 1, .unit)] 20 [(0, data2 (SC.init park1))])
    (by decide +kernel) (by decide +kernel) (by decide +kernel)

def cvwait1 : Prog :=
  { cfg := { nMutexes := 1, nCondvars := 1 }, threads := [[.spawn 1, .join 1], [.lock 0, .cvWait 0 0, .unlock 0]] }

def cvwait1Exec : Exec := { Check.initExec cvwait1.cfg with path := pathOf [1, 1, 1, 1, 1, 1] }

/-- **A path that resumes a thread blocked in `Condvar::wait`.**  Nobody notifies condvar 0; the path names thread 1
at the scheduling point of its `rt::block`: the wait returns.  The run violates `okRun`. -/
theorem cvwait_resumed :
    WF2 cvwait1 ∧ FreshExec2 cvwait1Exec ∧ (runIter cvwait1 cvwait1Exec).term = none ∧
    (runIter cvwait1 cvwait1Exec).events.map triple =
      [(0, 0, .unit), (1, 0, .unit), (1, 1, .unit), (1, 2, .unit), (0, 1, .unit)] ∧
    okIter cvwait1 cvwait1Exec = false := by
  refine ⟨by decide +kernel, ⟨rfl, rfl⟩, by decide +kernel, by decide +kernel, by decide +kernel⟩

theorem cvwait_resumed_not_reference :
    ¬ ∃ d, SCData2.Run2 cvwait1 (data2 (SC.init cvwait1))
      [(0, 0, .unit), (1, 0, .unit), (1, 1, .unit), (1, 2, .unit), (0, 1, .unit)] d :=
  Check.not_trace (T := 2)
    (S := Check.saturate cvwait1 2 [(0, 0, .unit), (1, 0, .unit), (1, 1, .unit), (1, 2, .unit), (0, 1, .unit)] 20
      [(0, data2 (SC.init cvwait1))])
    (by decide +kernel) (by decide +kernel) (by decide +kernel)

end Counter

end Refine2
end LoomVerif

/-
Property C05: "Deadlocks are reported exactly.  `loom::model` fails with a deadlock panic if and
only if the program can reach a state in which at least one thread has not finished and no thread
can take a step …"

The local pillar on the loom side (`Execution::schedule` reports a deadlock exactly when no thread
is runnable or yielded and some thread is not terminated), and the notion of deadlock of the
reference semantics, side by side.  Vocabulary: `Exec.dporMarks` (the DPOR loop at the head of
`schedule`), `Path.isTraversed` (a new entry will be pushed), `Path.assertLen` (the branch
limit), `NT = MAX_THREADS`.
-/
import LoomVerif.Proofs.C01Choice
import LoomVerif.Proofs.C05SC

namespace LoomVerif.C05
open LoomVerif

/-- `Exec.deadlock_iff_no_runnable`.  For an execution with an active thread (whose id is in
range), whose path is traversed, when the branch limit is respected, the thread table fits in
`MAX_THREADS` and the DPOR loop succeeds: `schedule` panics with "deadlock" iff no thread is
runnable or yielded and some thread is not terminated. -/
theorem Exec.deadlock_iff_no_runnable {e : Exec} {pk : Bool} {p1 : Path}
    (ha : e.threads.isActive = true) (hc : e.threads.activeId < e.threads.threads.length)
    (ht : e.path.isTraversed = true) (hlen : e.path.assertLen pk = .ok ())
    (hnt : e.threads.threads.length ≤ NT) (hd : e.dporMarks = .ok p1) :
    e.schedule pk = .error .deadlock ↔
      (∀ th ∈ e.threads.threads, th.isRunnable = false ∧ th.isYield = false) ∧
      ∃ th ∈ e.threads.threads, th.isTerminated = false :=
  LoomVerif.Exec.deadlock_iff ha hc ht hlen hnt hd

/-- The in-range hypothesis cannot be dropped *in the twin*: with the active id outside the
thread table (impossible in the code, where indexing would panic) the twin's `Threads.get`
yields a default runnable record and `schedule` reports a deadlock although a thread is
runnable. -/
theorem Exec.deadlock_iff_needs_in_range :
    ∃ e : Exec, e.threads.isActive = true ∧ e.path.isTraversed = true ∧
      e.path.assertLen false = .ok () ∧ e.threads.threads.length ≤ NT ∧
      e.dporMarks = .ok e.path ∧ e.schedule false = .error .deadlock ∧
      ∃ th ∈ e.threads.threads, th.isRunnable = true :=
  ⟨_, LoomVerif.Exec.deadlock_iff_needs_in_range⟩

/-- `schedule` itself never produces such a state: the thread it activates is in the thread table (whose length
it keeps).  The code indexes the table with the chosen id (`self.threads.active()`), so a path entry that names a
thread that does not exist — possible only in a hand-made path / checkpoint — panics ("index out of bounds"); the
twin fails with `.internal 31`.  Entries pushed by `schedule` on a traversed path always name an existing thread
(`Exec.choice_post` in `Props/C01.lean`). -/
theorem Exec.schedule_active_in_range {e e' : Exec} {pk b : Bool} (h : e.schedule pk = .ok (e', b)) :
    e'.threads.threads.length = e.threads.threads.length ∧
    ∀ nid, e'.threads.active = some nid → nid < e'.threads.threads.length := by
  have hl := LoomVerif.Exec.schedule_length h
  exact ⟨hl, fun nid hn => by rw [hl]; exact LoomVerif.Exec.schedule_active_lt h hn⟩

/-- Under the same hypotheses, with no runnable or yielded thread, `schedule` ends the execution
normally (`.ok (_, true)`, no active thread) iff all threads are terminated. -/
theorem Exec.schedule_no_thread {e : Exec} {pk : Bool} {p1 : Path}
    (ha : e.threads.isActive = true) (hc : e.threads.activeId < e.threads.threads.length)
    (ht : e.path.isTraversed = true) (hlen : e.path.assertLen pk = .ok ())
    (hnt : e.threads.threads.length ≤ NT) (hd : e.dporMarks = .ok p1)
    (hno : ∀ th ∈ e.threads.threads, th.isRunnable = false ∧ th.isYield = false) :
    e.schedule pk =
      if e.threads.threads.all Thread.isTerminated then
        .ok ({ e with path := e.pushed p1, threads := { e.threads with active := none } }, true)
      else .error .deadlock := by
  rw [LoomVerif.Exec.schedule_traversed_eq ha hc ht hlen hnt hd,
    (LoomVerif.Exec.choice_eq_none_iff hc).2 hno]

/-- The tail of `schedule` after a thread has been chosen never reports a deadlock (it fails only
on objects that are not branchable). -/
theorem Exec.finish_not_deadlock {e : Exec} {p : Path} {pid nid : Nat} {err : Panic}
    (h : e.finish p pid nid = .error err) : err = .internal 20 ∨ err = .internal 21 :=
  LoomVerif.Exec.finish_error h

/-- `SC.deadlock_def`: in the reference semantics the verdict of a state without enabled thread
is "deadlock" iff the execution has not ended abnormally and some started thread has not
finished.  (`verdict = some .deadlock` is never set by `SC.step`; it is kept in the statement
for exactness.) -/
theorem SC.deadlock_def (s : SC.St) :
    (SC.finalVerdict s = .deadlock ↔
      s.verdict = some .deadlock ∨ (s.verdict = none ∧ SC.allDone s = false)) ∧
    (SC.allDone s = false ↔ ∃ h ∈ s.ths, h.started = true ∧ h.finished = false) ∧
    (s.verdict = none →
      ((SC.outcome s).verdict = .deadlock ↔ ∃ h ∈ s.ths, h.started = true ∧ h.finished = false)) := by
  refine ⟨LoomVerif.SC.finalVerdict_deadlock_iff s, LoomVerif.SC.allDone_false_iff s, ?_⟩
  intro hv
  show SC.finalVerdict s = .deadlock ↔ _
  rw [LoomVerif.SC.finalVerdict_deadlock_iff, ← LoomVerif.SC.allDone_false_iff, hv]
  simp

end LoomVerif.C05

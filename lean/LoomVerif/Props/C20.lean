/-
Property C20: "block_on and AtomicWaker never lose a wake-up.  With the `futures` feature,
`future::block_on` returns the future's output in every explored execution in which the future is
woken after (or while) returning Pending, re-polls only after a wake or the one modelled spurious
return, and reports a deadlock if no wake can ever arrive; `AtomicWaker::wake` wakes the most
recently registered waker or none if a registration is in flight that will itself observe the
wake."

Headline theorems about the twin (`Model/Interp.lean`): the stage functions `World.blockOnStage`
(`block_on(Scripted{f, mode})`), `World.wakeStage` (`wake f` / `wakeref f`), the `.awWake` /
`.dropWaker` cases of `World.runOp`, and the helpers `notifyWait1/2`, `notifyEffect`, `wakerClone`,
`wakerDrop`.  All of them are ONE-STEP laws in arbitrary worlds, every hypothesis is explicit; the
facts about `rt::Notify`, `rt::Mutex`, `rt::Arc` are reused from C08, C07, C11.

The stages of `block_on` (`c.stage`): 0 set-up (`Arc<Notify>`), 10/11 poll (flag load), 12/30/13
register the waker in the plain slot (mode 0, under the slot's mutex), 20–25 register it in the
`AtomicWaker` (mode 1), 14/15 second flag check, 15/16 the two halves of `Notify::wait`, 40/45/44/43
return.  `(w.futs.getD f {})` is the record of future `f`: its `notify` (the `rt::Notify` of the
`block_on` in progress), `arc` (the waker's `Arc`), the mutexes `slotMutex` / `awMutex`, and the two
flags `slot` / `awWaker` ("a waker clone sits in the slot / in the `AtomicWaker`").
Helper lemmas: `Proofs/C20Frame.lean`, `Proofs/C20BlockOn.lean`, `Proofs/C20Waker.lean`.
-/
import LoomVerif.Proofs.C20BlockOn
import LoomVerif.Proofs.C20Waker
import LoomVerif.Props.C07
import LoomVerif.Props.C08
import LoomVerif.Model.Check

namespace LoomVerif
open C20 C08

/-! ## 1. `BlockOn.repolls_only_after_wake` -/

/-- The future is polled at stage 10.  A step of `block_on` moves a thread into stage 10 only
(a) from the set-up stage 0 (the first poll), (b) from stage 16 — the second half of
`Notify::wait` on the `block_on`'s `Notify`, which returns only if its flag is set, i.e. after a
`notifyEffect` on it (C08 `Wait.only_after_notify`, `Wait.no_other_op_notifies`) — and (c) from
stage 15 when the flag load did not return 1 and the first half of `Notify::wait` returned
spuriously (`st = 2`: `did_spur` goes from `false` to `true`; with `st = 1` the next stage is 16).
At stage 15 with the flag ≠ 1 the step ALWAYS goes through `notifyWait1` — never directly to 10. -/
theorem BlockOn.repolls_only_after_wake (w w' : World) (c : TCtl) (f mode : Nat)
    (h : w.blockOnStage c f mode = .ok w') :
    (c.stage ≠ 0 → c.stage ≠ 15 → c.stage ≠ 16 →
      ∀ t, (w'.ctlOf t).stage = 10 → (w.ctlOf t).stage = 10) ∧
    (c.stage = 16 →
      ∃ w1, w.notifyWait2 (w.futs.getD f {}).notify = .ok w1 ∧ w' = w1.setStage 10 ∧
        ∀ s, w.exec.objs[(w.futs.getD f {}).notify]? = some (.notify s) → s.notified = true) ∧
    (c.stage = 15 →
      ∃ w1 r, w.primEffect f (.load .acq) = .ok (w1, r) ∧
        (r = .val 1 →
          (w1.setStage 40).branch (w.arcInfo (w.futs.getD f {}).arc).obj .arcDec = .ok w') ∧
        (r ≠ .val 1 → ∃ w2 st,
          w1.notifyWait1 (w.futs.getD f {}).notify = .ok (w2, st) ∧
          w' = w2.modCtl w1.tid (fun c => { c with stage := if st == 1 then 16 else 10 }) ∧
          ∀ s, w1.exec.objs[(w.futs.getD f {}).notify]? = some (.notify s) →
            ∃ a d, w2.exec.objs[(w.futs.getD f {}).notify]? =
                some (.notify { s with lastAccess := a, didSpur := d }) ∧
              ((st = 1 ∧ d = s.didSpur) ∨
                (st = 2 ∧ d = true ∧ s.didSpur = false ∧ s.spurious = true)))) := by
  refine ⟨fun h0 h15 h16 => blockOn_noRepoll h h0 h15 h16, ?_, ?_⟩
  · intro hs
    rw [blockOn_stage16 w c f mode hs] at h
    obtain ⟨w1, h1, h2⟩ := bind_ok h
    cases h2
    exact ⟨w1, h1, rfl, fun s hn => (Wait.only_after_notify hn h1).1⟩
  · intro hs
    rw [blockOn_stage15 w c f mode hs] at h
    obtain ⟨⟨w1, r⟩, h1, h2⟩ := bind_ok h
    refine ⟨w1, r, h1, ?_, ?_⟩
    · intro hr
      subst hr
      exact h2
    · intro hr
      have hne : (r == Ret.val 1) = false := by simpa using hr
      simp only [hne, Bool.false_eq_true, if_false] at h2
      obtain ⟨⟨w2, st⟩, h3, h4⟩ := bind_ok h2
      cases h4
      exact ⟨w2, st, h3, rfl, fun s hn => Notify.wait_first_half_object hn h3⟩

/-- … and the spurious return happens at most once per `block_on`: every `block_on` creates its
own `Notify` (stage 0: a fresh last object, `spurious := true`, `did_spur = false`), and after one
spurious return of a wait on it no later wait on it returns spuriously, whatever happened to the
object in between (`Notify.single_spurious` of C08, restated for the object of a `block_on`). -/
theorem BlockOn.spurious_repoll_once :
    (∀ (w w' : World) (c : TCtl) (f mode : Nat), c.stage = 0 →
      w.blockOnStage c f mode = .ok w' →
      (w'.futs.getD f {}).notify = w.exec.objs.length ∨ ¬ f < w.futs.length) ∧
    (∀ (w : World) (c : TCtl) (f mode : Nat), c.stage = 0 → ∃ w', w.blockOnStage c f mode = .ok w' ∧
      w'.exec.objs = w.exec.objs ++ [.notify { seqCst := false, spurious := true }, .arc {}]) ∧
    (∀ {w1 w1' w2 w2' : World} {o st : Nat} {s0 s1 s2 : NotifySt},
      w1.exec.objs[o]? = some (.notify s0) → w1.notifyWait1 o = .ok (w1', 2) →
      w1'.exec.objs[o]? = some (.notify s1) → NotifySteps s1 s2 →
      w2.exec.objs[o]? = some (.notify s2) → w2.notifyWait1 o = .ok (w2', st) → st = 1) := by
  refine ⟨?_, ?_, fun h0 hr1 h1 hs h2 hr2 => Notify.single_spurious h0 hr1 h1 hs h2 hr2⟩
  · intro w w' c f mode hs h
    unfold World.blockOnStage at h
    simp only [hs] at h
    cases h
    by_cases hf : f < w.futs.length
    · left
      show ((w.futs.modify f _).getD f {}).notify = _
      simp [List.getD_eq_getElem?_getD, List.getElem?_modify, hf]
      rfl
    · exact .inr hf
  · intro w c f mode hs
    refine ⟨_, by unfold World.blockOnStage; simp only [hs]; rfl, ?_⟩
    show (w.exec.objs ++ [_]) ++ [_] = _
    simp

/-- no other operation of the future protocol moves a thread into the poll stage -/
theorem BlockOn.other_ops_never_repoll (w w' : World) (c : TCtl) (f : Nat) :
    (∀ b, w.wakeStage c f b = .ok w' → ∀ t, (w'.ctlOf t).stage = 10 → (w.ctlOf t).stage = 10) ∧
    (w.runOp c (.dropWaker f) = .ok w' → ∀ t, (w'.ctlOf t).stage = 10 → (w.ctlOf t).stage = 10) ∧
    (w.runOp c (.awWake f) = .ok w' → ∀ t, (w'.ctlOf t).stage = 10 → (w.ctlOf t).stage = 10) :=
  ⟨fun _ h => wake_noRepoll h, fun h => (dropWaker_frames h).1, fun h => (awWake_frames h).1⟩

/-! ## 2. `BlockOn.wake_not_lost` -/

/-- A wake that found a registered waker notifies the `block_on`'s `Notify`.  `wake` (by value):
stage 2 takes the waker out of the slot under the slot's mutex and, if there was one, goes to
stage 3 = `notifyEffect`; `wakeref` (by reference): stage 2 finds a waker and goes to stage 5 =
`notifyEffect` while still holding the mutex, then unlocks; `AtomicWaker::wake` (`.awWake`): stage 2
takes the waker under the `AtomicWaker`'s mutex and, if there was one, goes to stage 3 =
`notifyEffect`.  And `notifyEffect` sets `notified := true` (releasing the waker's clocks into the
object). -/
theorem BlockOn.wake_not_lost (w : World) (c : TCtl) (f : Nat) :
    (∀ b, c.stage = 3 → w.wakeStage c f b = (do
      let w1 ← w.notifyEffect (w.futs.getD f {}).notify
      (w1.setStage 4).branch (w1.arcInfo (w.futs.getD f {}).arc).obj .arcDec)) ∧
    (∀ b, 5 ≤ c.stage → w.wakeStage c f b = (do
      let w1 ← w.notifyEffect (w.futs.getD f {}).notify
      let w2 ← w1.releaseLock (w.futs.getD f {}).slotMutex
      pure (w2.complete .unit))) ∧
    (c.stage = 3 → w.runOp c (.awWake f) = (do
      let w1 ← w.notifyEffect (w.futs.getD f {}).notify
      (w1.setStage 4).branch (w1.arcInfo (w.futs.getD f {}).arc).obj .arcDec)) ∧
    (∀ b, c.stage = 2 → w.wakeStage c f b = (do
      let (w1, okk) ← w.postAcquire (w.futs.getD f {}).slotMutex
      if !okk then throw .expectedLock
      if b then
        let w2 := w1.modFut f fun s => { s with slot := false }
        let w3 ← w2.releaseLock (w.futs.getD f {}).slotMutex
        if (w1.futs.getD f {}).slot then (w3.setStage 3).branch (w.futs.getD f {}).notify .opaque
        else pure (w3.complete .unit)
      else
        if (w1.futs.getD f {}).slot then (w1.setStage 5).branch (w.futs.getD f {}).notify .opaque
        else do
          let w3 ← w1.releaseLock (w.futs.getD f {}).slotMutex
          pure (w3.complete .unit))) ∧
    (∀ o s, w.exec.objs[o]? = some (.notify s) →
      ∃ w1, w.notifyEffect o = .ok w1 ∧
        w1.exec.objs[o]? = some (.notify { s with
          sync := s.sync.store w.ths.activeT.released w.ths.caus .rel, notified := true }) ∧
        w.ths.caus.le (s.sync.store w.ths.activeT.released w.ths.caus .rel).hb) := by
  refine ⟨fun b hs => wake_stage3 w c f b hs, fun b hs => wake_stage5 w c f b hs,
    fun hs => awWake_stage3 w c f hs, fun b hs => wake_stage2 w c f b hs, ?_⟩
  intro o s hn
  obtain ⟨he, hle⟩ := Notify.notify_effect w o s hn
  refine ⟨_, he, ?_, hle⟩
  exact Sy.getElem?_set_self' _ _ _ _ hn

/-- … so the wake-up is not lost: once `notifyEffect` ran on the `block_on`'s `Notify` (object `n`),
the flag stays set through any non-consuming steps of the object (further notifications, first
halves of `wait`, access records), and a `block_on` that then reaches its wait (stage 15, flag load
≠ 1) is NOT blocked by `notifyWait1` (unless it takes its one spurious return) and its stage 16
succeeds: it polls again and sees the flag (`Notify.flag_not_lost` of C08 for the object `n`). -/
theorem BlockOn.wake_makes_wait_nonblocking {wN wN' wW : World} {n : Nat} {s0 s1 s2 : NotifySt}
    (h0 : wN.exec.objs[n]? = some (.notify s0)) (hn : wN.notifyEffect n = .ok wN')
    (h1 : wN'.exec.objs[n]? = some (.notify s1)) (hsteps : NotifyKeeps s1 s2)
    (h2 : wW.exec.objs[n]? = some (.notify s2)) :
    s2.notified = true ∧
    ((s2.spurious && !s2.didSpur) = false →
      wW.notifyWait1 n = (wW.branch n .opaque (block := false)).map (·, 1)) ∧
    (∃ wW', wW.notifyWait2 n = .ok wW') :=
  Notify.flag_not_lost h0 hn h1 hsteps h2

/-! ## 3. `BlockOn.returns_output` -/

theorem CompletesOnlyWith_spelled_out (r : Ret) (w w' : World) :
    CompletesOnlyWith r w w' ↔
      (w'.events = w.events ∨
        (w'.events.tail = w.events ∧ w'.events.head?.map (·.ret) = some r)) := Iff.rfl

/-- `block_on` returns the future's output.  A flag load that returns 1 (first check, stage 11, or
second check, stage 15) proceeds to the return path (stage 40).  The return path: 40 drops the
`block_on`'s own handle and locks the slot's / the `AtomicWaker`'s mutex (→ 45 / 44), 45 / 44 take
a still registered waker out (→ 43 drops it) and complete.  The operation completes (records an
event) in NO stage other than 43, 44, 45, and always with the result `.val 7` (the scripted
future's output). -/
theorem BlockOn.returns_output (w w' : World) (c : TCtl) (f mode : Nat)
    (h : w.blockOnStage c f mode = .ok w') :
    ((c.stage = 11 ∨ c.stage = 15) →
      ∃ w1 r, w.primEffect f (.load .acq) = .ok (w1, r) ∧
        (r = .val 1 →
          (w1.setStage 40).branch (w.arcInfo (w.futs.getD f {}).arc).obj .arcDec = .ok w')) ∧
    (c.stage ≠ 43 → c.stage ≠ 44 → c.stage ≠ 45 → w'.events = w.events) ∧
    CompletesOnlyWith (.val 7) w w' ∧
    (c.stage = 40 → ∃ w1, w.wakerDrop (w.futs.getD f {}).arc = .ok w1 ∧
      ((mode = 0 ∧ ∃ m, w1.getMutex (w.futs.getD f {}).slotMutex = .ok m ∧
          (w1.setStage 45).branch (w.futs.getD f {}).slotMutex .opaque (block := m.lock.isSome)
            = .ok w') ∨
       (mode ≠ 0 ∧ ∃ m, w1.getMutex (w.futs.getD f {}).awMutex = .ok m ∧
          (w1.setStage 44).branch (w.futs.getD f {}).awMutex .opaque (block := m.lock.isSome)
            = .ok w'))) ∧
    (c.stage = 43 → ∃ w1, w.wakerDrop (w.futs.getD f {}).arc = .ok w1 ∧
      w' = w1.complete (.val 7)) := by
  obtain ⟨he1, he2⟩ := blockOn_events h
  refine ⟨?_, he1, he2, ?_, ?_⟩
  · rintro (hs | hs)
    · rw [blockOn_stage11 w c f mode hs] at h
      obtain ⟨⟨w1, r⟩, h1, h2⟩ := bind_ok h
      refine ⟨w1, r, h1, fun hr => ?_⟩
      subst hr; exact h2
    · rw [blockOn_stage15 w c f mode hs] at h
      obtain ⟨⟨w1, r⟩, h1, h2⟩ := bind_ok h
      refine ⟨w1, r, h1, fun hr => ?_⟩
      subst hr; exact h2
  · intro hs
    rw [blockOn_stage40 w c f mode hs] at h
    obtain ⟨w1, h1, h2⟩ := bind_ok h
    refine ⟨w1, h1, ?_⟩
    by_cases hm : mode = 0
    · subst hm
      simp only [beq_self_eq_true, if_true] at h2
      obtain ⟨m, h3, h4⟩ := bind_ok h2
      exact .inl ⟨rfl, m, h3, h4⟩
    · have hne : (mode == 0) = false := by simpa using hm
      simp only [hne, Bool.false_eq_true, if_false] at h2
      obtain ⟨m, h3, h4⟩ := bind_ok h2
      exact .inr ⟨hm, m, h3, h4⟩
  · intro hs
    rw [blockOn_stage43 w c f mode hs] at h
    obtain ⟨w1, h1, h2⟩ := bind_ok h
    cases h2
    exact ⟨w1, h1, rfl⟩

/-! ## 4. `AtomicWaker.lock_protocol`, `Slot.lock_protocol` -/

theorem AwKept_spelled_out (w w' : World) :
    (AwKept w w' ↔ ∀ f', (w'.futs.getD f' {}).awWaker = (w.futs.getD f' {}).awWaker) ∧
    (SlotKept w w' ↔ ∀ f', (w'.futs.getD f' {}).slot = (w.futs.getD f' {}).slot) :=
  ⟨Iff.rfl, Iff.rfl⟩

/-- The `AtomicWaker`'s content (`awWaker`) is written only under its mutex.
(a) No stage of `block_on` other than 21 (register) and 44 (take at return), no stage of `wake` /
`wakeref` / `dropwaker`, and no stage of `.awWake` other than 2 changes any `awWaker`.
(b) Stage 21 is `postAcquire` on the `AtomicWaker`'s mutex (the try-lock).  Held by someone else:
nothing is written and the registration wakes ITS OWN waker (→ stage 22 = `notifyEffect` on the
same `Notify`, 23 drops the clone and yields, → second flag check): it "will itself observe the
wake".  Free: the mutex is now held by the registering thread, THEN `awWaker := true`, and the
mutex is released in the same stage, or — when an older waker has to be dropped — in stage 25
(`wakerDrop`, `releaseLock`).
(c) `.awWake` stage 2 and `block_on` stage 44: `postAcquire` must succeed ("expected to be able to
acquire lock" otherwise), THEN `awWaker := false`, THEN `releaseLock` — in the same stage. -/
theorem AtomicWaker.lock_protocol (w w' : World) (c : TCtl) (f mode : Nat) :
    (w.blockOnStage c f mode = .ok w' → c.stage ≠ 21 → c.stage ≠ 44 → AwKept w w') ∧
    (∀ b, w.wakeStage c f b = .ok w' → AwKept w w') ∧
    (w.runOp c (.dropWaker f) = .ok w' → AwKept w w') ∧
    (w.runOp c (.awWake f) = .ok w' → c.stage ≠ 2 → AwKept w w') ∧
    (∀ m, c.stage = 21 → w.exec.objs[(w.futs.getD f {}).awMutex]? = some (.mutex m) →
      (m.lock.isSome = true →
        w.postAcquire (w.futs.getD f {}).awMutex = .ok (w, false) ∧
        w.blockOnStage c f mode = (w.setStage 22).branch (w.futs.getD f {}).notify .opaque ∧
        (w.blockOnStage c f mode = .ok w' → AwKept w w')) ∧
      (m.lock = none → ∃ w1,
        w.postAcquire (w.futs.getD f {}).awMutex = .ok (w1, true) ∧
        w1.exec.objs[(w.futs.getD f {}).awMutex]? = some (.mutex { m with lock := some w.tid }) ∧
        w.blockOnStage c f mode =
          (if (w.futs.getD f {}).awWaker then
            ((w1.modFut f fun s => { s with awWaker := true }).setStage 25).branch
              (w.arcInfo (w.futs.getD f {}).arc).obj .arcDec
          else do
            let w3 ← (w1.modFut f fun s => { s with awWaker := true }).releaseLock
              (w.futs.getD f {}).awMutex
            pure (w3.setStage 14)))) ∧
    (c.stage = 22 → w.blockOnStage c f mode = (do
      let w1 ← w.notifyEffect (w.futs.getD f {}).notify
      (w1.setStage 23).branch (w.arcInfo (w.futs.getD f {}).arc).obj .arcDec)) ∧
    (c.stage = 23 → w.blockOnStage c f mode = (do
      let w1 ← w.wakerDrop (w.futs.getD f {}).arc
      (w1.setStage 14).yieldNow)) ∧
    (c.stage = 25 → w.blockOnStage c f mode = (do
      let w1 ← w.wakerDrop (w.futs.getD f {}).arc
      let w2 ← w1.releaseLock (w.futs.getD f {}).awMutex
      pure (w2.setStage 14))) ∧
    (c.stage = 2 → w.runOp c (.awWake f) = (do
      let (w1, okk) ← w.postAcquire (w.futs.getD f {}).awMutex
      if !okk then throw .expectedLock
      let w2 := w1.modFut f fun s => { s with awWaker := false }
      let w3 ← w2.releaseLock (w.futs.getD f {}).awMutex
      if (w1.futs.getD f {}).awWaker then
        (w3.setStage 3).branch (w3.futs.getD f {}).notify .opaque
      else pure (w3.complete .unit))) ∧
    (c.stage = 44 → w.blockOnStage c f mode = (do
      let (w1, okk) ← w.postAcquire (w.futs.getD f {}).awMutex
      if !okk then throw .expectedLock
      let w2 := w1.modFut f fun s => { s with awWaker := false }
      let w3 ← w2.releaseLock (w.futs.getD f {}).awMutex
      if (w1.futs.getD f {}).awWaker then
        (w3.setStage 43).branch (w.arcInfo (w.futs.getD f {}).arc).obj .arcDec
      else pure (w3.complete (.val 7)))) := by
  refine ⟨fun h h1 h2 => blockOn_awKept h h1 h2, fun _ h => wake_awKept h,
    fun h => (dropWaker_frames h).2.1, fun h h2 => (awWake_frames h).2.2 h2, ?_,
    fun hs => blockOn_stage22 w c f mode hs, fun hs => blockOn_stage23 w c f mode hs,
    fun hs => blockOn_stage25 w c f mode hs, fun hs => awWake_stage2 w c f hs,
    fun hs => blockOn_stage44 w c f mode hs⟩
  intro m hs hm
  constructor
  · intro hl
    have hp := C07.postAcquire_held hm hl
    have he : w.blockOnStage c f mode =
        (w.setStage 22).branch (w.futs.getD f {}).notify .opaque := by
      rw [blockOn_stage21 w c f mode hs, hp]; rfl
    refine ⟨hp, he, fun h => ?_⟩
    rw [he] at h
    have := branch_cf h
    intro f'
    rw [this.2.1]; rfl
  · intro hl
    obtain ⟨w1, hp, _, hfree⟩ := Lock.try_exact w _ m hm
    have hnone : m.lock.isNone = true := by rw [hl]; rfl
    rw [hnone] at hp
    refine ⟨w1, hp, ?_, ?_⟩
    · rw [hfree hnone]
      exact Sy.getElem?_set_self' _ _ _ _ hm
    · rw [blockOn_stage21 w c f mode hs, hp]; rfl

/-- The plain waker slot (`slot`, mode 0) is written only under its mutex `slotMutex`.
(a) No stage of `block_on` other than 30 (register) and 45 (take at return), no stage of `wake`
other than 2, no stage of `wakeref` at all, no stage of `dropwaker` other than 1, and no stage of
`.awWake` changes any `slot`.
(b) In each of these four stages the write sits between a `postAcquire` on `slotMutex` that must
succeed ("expected to be able to acquire lock" otherwise) and the `releaseLock` — in the same
stage, or (register, an older waker has to be dropped) in stage 13 (`wakerDrop`, `releaseLock`);
`wakeref` holds the mutex across its `notifyEffect` (stage 5) and never writes the slot. -/
theorem Slot.lock_protocol (w w' : World) (c : TCtl) (f mode : Nat) :
    (w.blockOnStage c f mode = .ok w' → c.stage ≠ 30 → c.stage ≠ 45 → SlotKept w w') ∧
    (∀ b, w.wakeStage c f b = .ok w' → (c.stage ≠ 2 ∨ b = false) → SlotKept w w') ∧
    (w.runOp c (.dropWaker f) = .ok w' → c.stage ≠ 1 → SlotKept w w') ∧
    (w.runOp c (.awWake f) = .ok w' → SlotKept w w') ∧
    (c.stage = 30 → w.blockOnStage c f mode = (do
      let (w1, okk) ← w.postAcquire (w.futs.getD f {}).slotMutex
      if !okk then throw .expectedLock
      let w2 := w1.modFut f fun s => { s with slot := true }
      if (w1.futs.getD f {}).slot then
        (w2.setStage 13).branch (w.arcInfo (w.futs.getD f {}).arc).obj .arcDec
      else do
        let w3 ← w2.releaseLock (w.futs.getD f {}).slotMutex
        pure (w3.setStage 14))) ∧
    (c.stage = 13 → w.blockOnStage c f mode = (do
      let w1 ← w.wakerDrop (w.futs.getD f {}).arc
      let w2 ← w1.releaseLock (w.futs.getD f {}).slotMutex
      pure (w2.setStage 14))) ∧
    (c.stage = 45 → w.blockOnStage c f mode = (do
      let (w1, okk) ← w.postAcquire (w.futs.getD f {}).slotMutex
      if !okk then throw .expectedLock
      let w2 := w1.modFut f fun s => { s with slot := false }
      let w3 ← w2.releaseLock (w.futs.getD f {}).slotMutex
      if (w1.futs.getD f {}).slot then
        (w3.setStage 43).branch (w.arcInfo (w.futs.getD f {}).arc).obj .arcDec
      else pure (w3.complete (.val 7)))) ∧
    (c.stage = 1 → w.runOp c (.dropWaker f) = (do
      let (w1, okk) ← w.postAcquire (w.futs.getD f {}).slotMutex
      if !okk then throw .expectedLock
      let w2 := w1.modFut f fun s => { s with slot := false }
      let w3 ← w2.releaseLock (w.futs.getD f {}).slotMutex
      if (w1.futs.getD f {}).slot then
        (w3.setStage 2).branch (w3.arcInfo (w.futs.getD f {}).arc).obj .arcDec
      else pure (w3.complete .unit))) ∧
    (∀ m, w.exec.objs[(w.futs.getD f {}).slotMutex]? = some (.mutex m) →
      (m.lock.isSome = true → w.postAcquire (w.futs.getD f {}).slotMutex = .ok (w, false)) ∧
      (m.lock = none → ∃ w1, w.postAcquire (w.futs.getD f {}).slotMutex = .ok (w1, true) ∧
        w1.exec.objs[(w.futs.getD f {}).slotMutex]? =
          some (.mutex { m with lock := some w.tid }))) := by
  refine ⟨fun h h1 h2 => blockOn_slotKept h h1 h2, fun _ h h2 => wake_slotKept h h2,
    fun h h1 => (dropWaker_frames h).2.2 h1, fun h => (awWake_frames h).2.1,
    fun hs => blockOn_stage30 w c f mode hs, fun hs => blockOn_stage13 w c f mode hs,
    fun hs => blockOn_stage45 w c f mode hs, fun hs => dropWaker_stage1 w c f hs, ?_⟩
  intro m hm
  refine ⟨fun hl => C07.postAcquire_held hm hl, fun hl => ?_⟩
  obtain ⟨w1, hp, _, hfree⟩ := Lock.try_exact w _ m hm
  have hnone : m.lock.isNone = true := by rw [hl]; rfl
  rw [hnone] at hp
  refine ⟨w1, hp, ?_⟩
  rw [hfree hnone]
  exact Sy.getElem?_set_self' _ _ _ _ hm

/-! ## 5. `Waker.refcount_balance` -/

/-- The waker's reference count.  `wakerClone` (the effect of `ref_inc`: registering a waker in the
slot or in the `AtomicWaker`) adds one to `ref_cnt` of the `rt::Arc` object and to the strong count
of the wrapped `std` `Arc`; `wakerDrop` (a taken / replaced / rejected clone, or the `block_on`'s
own handle) is `refDecEffect` followed by the `Drop` glue `afterDec`: it takes one off both, fails
with "Arc is already released" at count 0, and unregisters the allocation exactly when the count
reaches 0 (then the `std` count was 1): each clone is matched by exactly one drop before the
allocation goes away (`ArcObj.drop_once`, `ArcObj.refines_refcount_refDec` of C11). -/
theorem Waker.refcount_balance (w w' : World) (a : Nat) (s : ArcSt) (ha : a < w.arcs.length)
    (hg : w.getArc (w.arcInfo a).obj = .ok s) :
    (w.wakerClone a = .ok
      ((w.setObj (w.arcInfo a).obj (.arc { s with refCnt := s.refCnt + 1 })).modArc a
        fun i => { i with stdCount := i.stdCount + 1 })) ∧
    (w.wakerClone a = .ok w' →
      w'.getArc (w.arcInfo a).obj = .ok { s with refCnt := s.refCnt + 1 } ∧
      (w'.arcInfo a).stdCount = (w.arcInfo a).stdCount + 1 ∧
      (w'.arcInfo a).obj = (w.arcInfo a).obj ∧
      (w'.arcInfo a).registered = (w.arcInfo a).registered) ∧
    (w.wakerDrop a = (do
      let (w1, last) ← w.refDecEffect (w.arcInfo a).obj
      w1.afterDec a last)) ∧
    (w.wakerDrop a = .error .arcReleased ↔ s.refCnt = 0) ∧
    (w.wakerDrop a = .ok w' →
      ∃ s', w'.getArc (w.arcInfo a).obj = .ok s' ∧ s'.refCnt + 1 = s.refCnt ∧
        (w'.arcInfo a).stdCount = (w.arcInfo a).stdCount - 1 ∧
        (w'.arcInfo a).registered = ((w.arcInfo a).registered && !(s'.refCnt == 0)) ∧
        (s'.refCnt = 0 → (w.arcInfo a).registered = true ∧ (w.arcInfo a).stdCount = 1)) := by
  refine ⟨wakerClone_eq hg, fun h => wakerClone_counts ha hg h, wakerDrop_eq w a, ?_,
    fun h => wakerDrop_counts ha hg h⟩
  obtain ⟨h1, h2, h3⟩ := ArcObj.refines_refcount_refDec w _ s hg
  constructor
  · intro h
    rw [wakerDrop_eq] at h
    rcases WB.bind_eq_error h with he | ⟨⟨w1, last⟩, hr, he⟩
    · exact h1.1 he
    · exfalso
      dsimp only at he
      rw [C11.afterDec_eq] at he
      repeat' split at he
      all_goals cases he
  · intro h0
    rw [wakerDrop_eq, h1.2 h0]; rfl

/-! ## 6. non-vacuity -/

namespace C20.Ex

/-- one scripted future (flag = atomic 0), preemption bound 1 -/
def cfg : Cfg := { nAtomics := 1, nFutures := 1, bound := some 1 }

/-- `T0: spawn 1; blockon 0 <mode>; join 1 | T1: <wake>` -/
def prog (mode : Nat) (wake : Op) : Prog :=
  { cfg, threads := [[.spawn 1, .blockOn 0 mode, .join 1], [wake]] }

/-- number of iterations of `Builder::check`, "every path explored", and: every iteration ends
without a panic (no deadlock, no leak) and its `block_on` (thread 0, pc 1) returned `.val 7` -/
def summary (p : Prog) : Nat × Bool × Bool :=
  let r := Check.loop p 1000 1 (Check.initExec p.cfg)
  (r.1.length, r.2 == .completed, r.1.all fun it => it.result.term.isNone &&
    (it.result.events.filter (fun e => e.tid == 0 && e.pc == 1)).map (·.ret) == [.val 7])

end C20.Ex

open C20.Ex in
/-- `block_on` with the waker slot against `wake` from another thread, the whole exploration of
`Builder::check` (preemption bound 1: 14 executions): in EVERY execution `block_on` returns the
output 7, nothing deadlocks, nothing leaks (the waker's `Arc` is released). -/
theorem BlockOn.example_slot : summary (prog 0 (.wake 0)) = (14, true, true) := by
  decide +kernel

open C20.Ex in
/-- the same with `AtomicWaker`: `block_on` (mode 1) against `AtomicWaker::wake` -/
theorem BlockOn.example_atomic_waker : summary (prog 1 (.awWake 0)) = (14, true, true) := by
  decide +kernel

open C20.Ex in
/-- no wake can ever arrive: `T0: blockon 0 0` alone is reported as a deadlock in the first
execution; with the wake BEFORE the `block_on` (`T0: wake 0; blockon 0 0`) the first poll sees
the flag and `block_on` returns 7 without waiting. -/
theorem BlockOn.example_deadlock :
    (runIter { cfg, threads := [[.blockOn 0 0]] } (Check.initExec cfg) 300).term =
      some .deadlock ∧
    (runIter { cfg, threads := [[.wake 0, .blockOn 0 0]] } (Check.initExec cfg) 300).term = none ∧
    (runIter { cfg, threads := [[.wake 0, .blockOn 0 0]] } (Check.initExec cfg) 300).events.map
      (fun e => (e.tid, e.pc, e.ret)) = [(0, 0, .unit), (0, 1, .val 7)] := by
  refine ⟨?_, ?_, ?_⟩ <;> decide +kernel

end LoomVerif

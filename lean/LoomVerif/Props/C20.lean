/-
Property C20: "block_on and AtomicWaker never lose a wake-up.  With the `futures` feature,
`future::block_on` returns the future's output in every explored execution in which the future is
woken after (or while) returning Pending, re-polls only after a wake or the one modelled spurious
return, and reports a deadlock if no wake can ever arrive; `AtomicWaker::wake` wakes the most
recently registered waker or none if a registration is in flight that will itself observe the
wake."

Headline theorems about the twin (`Model/Interp.lean`): the stage functions `World.blockOnStage`
(`block_on(Scripted{f, mode})`, modes 0–5), `World.wakeStage` (`wake f` / `wakeref f` / `wakeq f`),
`World.awTakeStage` (`awtake f`), the `.awWake` / `.dropWaker` / `.wClone` / `.wakeH` cases of `World.runOp`,
and the helpers `notifyWait1/2`, `notifyEffect`, `wakerClone`, `wakerDrop`.  All of them are ONE-STEP laws in
arbitrary worlds, every hypothesis is explicit; the facts about `rt::Notify`, `rt::Mutex`, `rt::Arc` are reused
from C08, C07, C11.

The modes of `block_on` (`BlockOn.modes_spelled_out`): the readiness test is the flag load `pollPrim mode`
returning `pollTarget mode` (Acquire / 1; mode 2: Relaxed / 2); the waker is registered in the mutex-protected
slot when `slotMode mode` (modes 0, 2), else in the `AtomicWaker` (modes 1, 3, 4); mode 1 takes the
registration back when the call returns, modes 3 and 4 leave it in the `AtomicWaker` (shared state that outlives
the call); mode 4 is `block_on(poll_once(future))`: ONE poll, the call returns `.val 0` if the future is pending.

The stages of `block_on` (`c.stage`): 0 set-up (`Arc<Notify>`), 10/11 poll (flag load), 12/30/13
register the waker in the plain slot (under the slot's mutex), 20–25 register it in the
`AtomicWaker`, 14/15 second flag check, 15/16 the two halves of `Notify::wait`, 40/45/44/43/46
return the output, 41 return "pending" (mode 4); mode 5 (`SelfWakeStage`): 0 set-up, 50 branch point of the
self-wake, 51 its effect (`notifyEffect` on the call's own `Notify`) and the first half of `Notify::wait`, 53 the
second half, 52 the second poll (Ready), 40 return the output.  `(w.futs.getD f {})` is the record of future `f`: its `notify`
(the `rt::Notify` of the `block_on` in progress), `arc` (the waker's `Arc`), the mutexes `slotMutex` / `awMutex`,
the two flags `slot` / `awWaker` ("a waker clone sits in the slot / in the `AtomicWaker`") and `awArc` /
`awNotify`: WHICH call's waker sits in the `AtomicWaker`.  The acting thread's control record carries a waker
between the stages of one operation: `taken` / `takenNotify` (a waker taken out of a slot, about to be woken /
dropped) and `held` (clones kept by `wclone`).
Helper lemmas: `Proofs/C20Frame.lean`, `Proofs/C20BlockOn.lean`, `Proofs/C20Handover.lean`,
`Proofs/C20Waker.lean`, `Proofs/C20SelfWake.lean` (mode 5).
-/
import LoomVerif.Proofs.C20BlockOn
import LoomVerif.Proofs.C20Handover
import LoomVerif.Proofs.C20Waker
import LoomVerif.Proofs.C20SelfWake
import LoomVerif.Props.C07
import LoomVerif.Props.C08
import LoomVerif.Model.Check

namespace LoomVerif
open C20 C08

/-! ## 0. the modes -/

theorem SelfWakeStage_spelled_out (n : Nat) :
    SelfWakeStage n ↔ (n = 0 ∨ n = 50 ∨ n = 51 ∨ n = 52 ∨ n = 53 ∨ n = 40) := Iff.rfl

/-- the readiness test and the place of registration of each mode, spelled out.  Modes 0–4: the readiness test is
a flag load, the set-up stage 0 leads to the poll stage 10.  Mode 5 has no flag and no registration: the set-up
stage 0 — the SAME set-up in every mode: the call's `Notify` (`spurious := true`) and its `Arc` (count 1) are
appended to the objects, the `Arc` is entered in the `Arc` table, the future's record gets `notify` / `arc`,
nothing else changes — leads to stage 50 instead, and the stages of a mode-5 call are: 50 the branch point of
`Notify::notify` on the call's own `Notify` (`wake_by_ref` through the borrowed waker: no clone), 51 its effect
followed by the first half of `Notify::wait` on the same object, 53 the second half, 52 the second poll — Ready:
`ref_dec` branch point of the call's own handle —, 40 ONE `wakerDrop` and the call completes with 7 (nothing was
registered, nothing is taken back).  None of these stages loads the flag (`primEffect`), clones the waker
(`wakerClone`), writes the future's record (`modFut`) or touches a mutex (`postAcquire` / `releaseLock`). -/
theorem BlockOn.modes_spelled_out (mode : Nat) :
    World.pollPrim mode = .load (if mode = 2 then .rlx else .acq) ∧
    World.pollTarget mode = .val (if mode = 2 then 2 else 1) ∧
    (World.slotMode mode = true ↔ mode = 0 ∨ mode = 2) ∧
    (∀ (w : World) (c : TCtl) (f : Nat), c.stage = 0 → ∃ w1 : World,
      (∀ mode', w.blockOnStage c f mode' = .ok (w1.setStage (if mode' = 5 then 50 else 10))) ∧
      w1.ctl = w.ctl ∧ w1.events = w.events ∧
      w1.exec.objs = w.exec.objs ++ [.notify { seqCst := false, spurious := true }, .arc {}] ∧
      w1.arcs = w.arcs ++ [({ obj := w.exec.objs.length + 1 } : ArcInfo)] ∧
      w1.futs = w.futs.modify f (fun s => { s with notify := w.exec.objs.length, arc := w.arcs.length })) ∧
    (∀ (w : World) (c : TCtl) (f : Nat), c.stage = 50 →
      w.blockOnStage c f mode = (w.setStage 51).branch (w.futs.getD f {}).notify .opaque) ∧
    (∀ (w : World) (c : TCtl) (f : Nat), c.stage = 51 → w.blockOnStage c f mode = (do
      let w1 ← w.notifyEffect (w.futs.getD f {}).notify
      let (w2, st) ← w1.notifyWait1 (w.futs.getD f {}).notify
      pure (w2.modCtl w1.tid fun c => { c with stage := if st == 1 then 53 else 52 }))) ∧
    (∀ (w : World) (c : TCtl) (f : Nat), c.stage = 53 → w.blockOnStage c f mode = (do
      let w1 ← w.notifyWait2 (w.futs.getD f {}).notify
      pure (w1.setStage 52))) ∧
    (∀ (w : World) (c : TCtl) (f : Nat), c.stage = 52 → w.blockOnStage c f mode =
      (w.setStage 40).branch (w.arcInfo (w.futs.getD f {}).arc).obj .arcDec) ∧
    (∀ (w : World) (c : TCtl) (f : Nat), c.stage = 40 → mode = 5 → w.blockOnStage c f mode = (do
      let w1 ← w.wakerDrop (w.futs.getD f {}).arc
      pure (w1.complete (.val 7)))) := by
  refine ⟨?_, ?_, ?_, ?_, fun w c f hs => blockOn_stage50 w c f mode hs,
    fun w c f hs => blockOn_stage51 w c f mode hs, fun w c f hs => blockOn_stage53 w c f mode hs,
    fun w c f hs => blockOn_stage52 w c f mode hs, ?_⟩
  · unfold World.pollPrim; by_cases h : mode = 2 <;> simp [h]
  · unfold World.pollTarget; by_cases h : mode = 2 <;> simp [h]
  · unfold World.slotMode; simp
  · intro w c f hs
    obtain ⟨h1, h2, h3, h4, h5⟩ := setUp_facts w f
    exact ⟨setUp w f, fun mode' => blockOn_stage0 w c f mode' hs, h1, h2, h3, h4, h5⟩
  · intro w c f hs hm
    subst hm
    exact blockOn_stage40_selfWake w c f hs

/-! ## 1. `BlockOn.repolls_only_after_wake` -/

/-- The future is polled at stage 10.  A step of `block_on` moves a thread into stage 10 only
(a) from the set-up stage 0 (the first poll), (b) from stage 16 — the second half of
`Notify::wait` on the `block_on`'s `Notify`, which returns only if its flag is set, i.e. after a
`notifyEffect` on it (C08 `Wait.only_after_notify`, `Wait.no_other_op_notifies`) — and (c) from
stage 15 when the flag load did not return the ready value, the call is not poll-once, and the first half of
`Notify::wait` returned spuriously (`st = 2`: `did_spur` goes from `false` to `true`; with `st = 1` the next
stage is 16).  At stage 15 with the future pending the step ALWAYS goes through `notifyWait1` — never directly
to 10 — or, in mode 4, to the "pending" return 41.
(d) A poll-once call (mode 4) polls ONCE: after the set-up no stage but 16 moves a thread to stage 10, and
stage 16 is entered only from stage 15 of a call that is not poll-once.
(e) Mode 5 (the future wakes itself in its first poll).  The call never reaches the flag-load poll stage 10 from
its set-up; its stages are entered in this order only: 50 only from the set-up stage 0 of a mode-5 call, 51 only
from 50, 53 only from 51, and the SECOND poll — stage 52 — only from 51 or 53.  Stage 50 is the branch point of
`Notify::notify` on the call's own `Notify`.  Stage 51 ALWAYS performs `notifyEffect` on the call's own `Notify`
first — the self-wake is never skipped: the flag is set (`notified := true`, the thread's clocks released into the
object) — and only then the first half of `Notify::wait` on the same object, which therefore does NOT block
(`block := false`): it goes on to stage 53, or — the one modelled spurious return, `st = 2`: `did_spur` goes from
`false` to `true` — directly to 52; the flag is still set afterwards.  Stage 53 is the second half of
`Notify::wait`, which returns only if the flag is set — after a notification, which it consumes — and leads to
52. -/
theorem BlockOn.repolls_only_after_wake (w w' : World) (c : TCtl) (f mode : Nat)
    (h : w.blockOnStage c f mode = .ok w') :
    (c.stage ≠ 0 → c.stage ≠ 15 → c.stage ≠ 16 →
      ∀ t, (w'.ctlOf t).stage = 10 → (w.ctlOf t).stage = 10) ∧
    (c.stage = 16 →
      ∃ w1, w.notifyWait2 (w.futs.getD f {}).notify = .ok w1 ∧ w' = w1.setStage 10 ∧
        ∀ s, w.exec.objs[(w.futs.getD f {}).notify]? = some (.notify s) → s.notified = true) ∧
    (c.stage = 15 →
      ∃ w1 r, w.primEffect f (World.pollPrim mode) = .ok (w1, r) ∧
        (r = World.pollTarget mode →
          (w1.setStage 40).branch (w.arcInfo (w.futs.getD f {}).arc).obj .arcDec = .ok w') ∧
        (r ≠ World.pollTarget mode → mode = 4 →
          (w1.setStage 41).branch (w.arcInfo (w.futs.getD f {}).arc).obj .arcDec = .ok w') ∧
        (r ≠ World.pollTarget mode → mode ≠ 4 → ∃ w2 st,
          w1.notifyWait1 (w.futs.getD f {}).notify = .ok (w2, st) ∧
          w' = w2.modCtl w1.tid (fun c => { c with stage := if st == 1 then 16 else 10 }) ∧
          ∀ s, w1.exec.objs[(w.futs.getD f {}).notify]? = some (.notify s) →
            ∃ a d, w2.exec.objs[(w.futs.getD f {}).notify]? =
                some (.notify { s with lastAccess := a, didSpur := d }) ∧
              ((st = 1 ∧ d = s.didSpur) ∨
                (st = 2 ∧ d = true ∧ s.didSpur = false ∧ s.spurious = true)))) ∧
    (mode = 4 → c.stage ≠ 0 → c.stage ≠ 16 →
      ∀ t, (w'.ctlOf t).stage = 10 → (w.ctlOf t).stage = 10) ∧
    ((c.stage ≠ 15 ∨ mode = 4) → ∀ t, (w'.ctlOf t).stage = 16 → (w.ctlOf t).stage = 16) ∧
    (mode = 5 → c.stage ≠ 15 → c.stage ≠ 16 →
      ∀ t, (w'.ctlOf t).stage = 10 → (w.ctlOf t).stage = 10) ∧
    ((c.stage ≠ 0 ∨ mode ≠ 5) → ∀ t, (w'.ctlOf t).stage = 50 → (w.ctlOf t).stage = 50) ∧
    (c.stage ≠ 50 → ∀ t, (w'.ctlOf t).stage = 51 → (w.ctlOf t).stage = 51) ∧
    (c.stage ≠ 51 → ∀ t, (w'.ctlOf t).stage = 53 → (w.ctlOf t).stage = 53) ∧
    (c.stage ≠ 51 → c.stage ≠ 53 → ∀ t, (w'.ctlOf t).stage = 52 → (w.ctlOf t).stage = 52) ∧
    (c.stage = 50 → (w.setStage 51).branch (w.futs.getD f {}).notify .opaque = .ok w') ∧
    (c.stage = 51 →
      ∃ w1 w2 st, w.notifyEffect (w.futs.getD f {}).notify = .ok w1 ∧
        w1.notifyWait1 (w.futs.getD f {}).notify = .ok (w2, st) ∧
        w' = w2.modCtl w1.tid (fun c => { c with stage := if st == 1 then 53 else 52 }) ∧
        ∀ s, w.exec.objs[(w.futs.getD f {}).notify]? = some (.notify s) →
          ∃ s1, s1 = { s with sync := s.sync.store w.ths.activeT.released w.ths.caus .rel,
                              notified := true } ∧
            w1.exec.objs[(w.futs.getD f {}).notify]? = some (.notify s1) ∧
            ((s.spurious && !s.didSpur) = false →
              w1.notifyWait1 (w.futs.getD f {}).notify =
                (w1.branch (w.futs.getD f {}).notify .opaque (block := false)).map (·, 1)) ∧
            (s.spurious = true → s.didSpur = false →
              w1.notifyWait1 (w.futs.getD f {}).notify =
                match w1.exec.path.branchSpurious w1.panicking with
                | .error e => .error e
                | .ok (p, true) =>
                  (((w1.setPath p).setObj (w.futs.getD f {}).notify
                    (.notify { s1 with didSpur := true })).yieldNow).map (·, 2)
                | .ok (p, false) =>
                  ((w1.setPath p).branch (w.futs.getD f {}).notify .opaque (block := false)
                    (wait := false)).map (·, 1)) ∧
            ∃ a d, w2.exec.objs[(w.futs.getD f {}).notify]? =
                some (.notify { s1 with lastAccess := a, didSpur := d }) ∧
              ((st = 1 ∧ d = s.didSpur) ∨
                (st = 2 ∧ d = true ∧ s.didSpur = false ∧ s.spurious = true))) ∧
    (c.stage = 53 →
      ∃ w1, w.notifyWait2 (w.futs.getD f {}).notify = .ok w1 ∧ w' = w1.setStage 52 ∧
        ∀ s, w.exec.objs[(w.futs.getD f {}).notify]? = some (.notify s) →
          s.notified = true ∧
          w1.exec.objs[(w.futs.getD f {}).notify]? = some (.notify { s with notified := false })) := by
  refine ⟨fun h0 h15 h16 => blockOn_noRepoll h h0 h15 h16, ?_, ?_, ?_,
    fun h15 => blockOn_noWait h h15, ?_, fun h0 => blockOn_noEnter50 h h0,
    fun h50 => blockOn_noEnter51 h h50, fun h51 => blockOn_noEnter53 h h51,
    fun h51 h53 => blockOn_noEnter52 h h51 h53, ?_, ?_, ?_⟩
  · intro hs
    rw [blockOn_stage16 w c f mode hs] at h
    obtain ⟨w1, h1, h2⟩ := bind_ok h
    cases h2
    exact ⟨w1, h1, rfl, fun s hn => (Wait.only_after_notify hn h1).1⟩
  · intro hs
    rw [blockOn_stage15 w c f mode hs] at h
    obtain ⟨⟨w1, r⟩, h1, h2⟩ := bind_ok h
    refine ⟨w1, r, h1, ?_, ?_, ?_⟩
    · intro hr
      subst hr
      simpa using h2
    · intro hr hm
      have hne : (r == World.pollTarget mode) = false := by simpa using hr
      subst hm
      simpa [hne] using h2
    · intro hr hm
      have hne : (r == World.pollTarget mode) = false := by simpa using hr
      have hm' : (mode == 4) = false := by simpa using hm
      simp only [hne, hm', Bool.false_eq_true, if_false] at h2
      obtain ⟨⟨w2, st⟩, h3, h4⟩ := bind_ok h2
      cases h4
      exact ⟨w2, st, h3, rfl, fun s hn => Notify.wait_first_half_object hn h3⟩
  · intro hm h0 h16
    subst hm
    exact blockOn_noRepoll4 h h0 h16
  · intro hm h15 h16
    subst hm
    exact blockOn_noRepoll5 h h15 h16
  · intro hs
    rw [blockOn_stage50 w c f mode hs] at h
    exact h
  · intro hs
    rw [blockOn_stage51 w c f mode hs] at h
    obtain ⟨w1, h1, h2⟩ := bind_ok h
    obtain ⟨⟨w2, st⟩, h3, h4⟩ := bind_ok h2
    cases h4
    refine ⟨w1, w2, st, h1, h3, rfl, fun s hn => ?_⟩
    obtain ⟨he, _⟩ := Notify.notify_effect w _ s hn
    have hn1 : w1.exec.objs[(w.futs.getD f {}).notify]? = some (.notify
        { s with sync := s.sync.store w.ths.activeT.released w.ths.caus .rel, notified := true }) := by
      rw [h1] at he
      cases he
      exact Sy.getElem?_set_self' _ _ _ _ hn
    refine ⟨_, rfl, hn1, fun hsp => ?_, fun hsp hd => ?_, Notify.wait_first_half_object hn1 h3⟩
    · exact (Notify.flag_not_lost hn h1 hn1 (.refl _) hn1).2.1 hsp
    · exact Notify.wait_first_half_may_spur w1 _ _ hn1 hsp hd
  · intro hs
    rw [blockOn_stage53 w c f mode hs] at h
    obtain ⟨w1, h1, h2⟩ := bind_ok h
    cases h2
    exact ⟨w1, h1, rfl, fun s hn =>
      ⟨(Wait.only_after_notify hn h1).1, (Wait.only_after_notify hn h1).2.1⟩⟩

/-- … and the spurious return happens at most once per `block_on`: every `block_on` creates its
own `Notify` (stage 0: a fresh last object, `spurious := true`, `did_spur = false`), and after one
spurious return of a wait on it no later wait on it returns spuriously, whatever happened to the
object in between (`Notify.single_spurious` of C08, restated for the object of a `block_on`). -/
theorem BlockOn.spurious_repoll_once :
    (∀ (w w' : World) (c : TCtl) (f mode : Nat), c.stage = 0 →
      w.blockOnStage c f mode = .ok w' →
      (w'.futs.getD f {}).notify = w.exec.objs.length ∨ ¬ f < w.futs.length) ∧
    (∀ (w : World) (c : TCtl) (f mode : Nat), c.stage = 0 → ∃ w', w.blockOnStage c f mode = .ok w' ∧
      w'.exec.objs = w.exec.objs ++ [.notify { seqCst := false, spurious := true }, .arc {}]) ∧
    (∀ {w1 w1' w2 w2' : World} {o st : Nat} {s0 s1 s2 : NotifySt},
      w1.exec.objs[o]? = some (.notify s0) → w1.notifyWait1 o = .ok (w1', 2) →
      w1'.exec.objs[o]? = some (.notify s1) → NotifySteps s1 s2 →
      w2.exec.objs[o]? = some (.notify s2) → w2.notifyWait1 o = .ok (w2', st) → st = 1) := by
  refine ⟨?_, ?_, fun h0 hr1 h1 hs h2 hr2 => Notify.single_spurious h0 hr1 h1 hs h2 hr2⟩
  · intro w w' c f mode hs h
    unfold World.blockOnStage at h
    simp only [hs] at h
    cases h
    by_cases hf : f < w.futs.length
    · left
      show ((w.futs.modify f _).getD f {}).notify = _
      simp [List.getD_eq_getElem?_getD, List.getElem?_modify, hf]
      rfl
    · exact .inr hf
  · intro w c f mode hs
    refine ⟨_, by unfold World.blockOnStage; simp only [hs]; rfl, ?_⟩
    show (w.exec.objs ++ [_]) ++ [_] = _
    simp

theorem IsCellOp_spelled_out (op : Op) :
    IsCellOp op ↔ (∃ ci, op = .cellReadBegin ci) ∨ (∃ ci, op = .cellReadEnd ci) ∨
      (∃ ci v, op = .cellWriteBegin ci v) ∨ (∃ ci, op = .cellWriteEnd ci) := by
  cases op <;> simp [IsCellOp]

/-- no other operation of the future protocol (`wake`, `wakeref`, `wakeq`, `dropwaker`, `awwake`, `awtake`,
`wclone`, `wakeh`) and no operation of a cell section moves a thread into the poll stage -/
theorem BlockOn.other_ops_never_repoll (w w' : World) (c : TCtl) (f : Nat) :
    (∀ b st, w.wakeStage c f b st = .ok w' → ∀ t, (w'.ctlOf t).stage = 10 → (w.ctlOf t).stage = 10) ∧
    (w.runOp c (.dropWaker f) = .ok w' → ∀ t, (w'.ctlOf t).stage = 10 → (w.ctlOf t).stage = 10) ∧
    (w.runOp c (.awWake f) = .ok w' → ∀ t, (w'.ctlOf t).stage = 10 → (w.ctlOf t).stage = 10) ∧
    (w.runOp c (.wakeQ f) = .ok w' → ∀ t, (w'.ctlOf t).stage = 10 → (w.ctlOf t).stage = 10) ∧
    (w.runOp c (.awTake f) = .ok w' → ∀ t, (w'.ctlOf t).stage = 10 → (w.ctlOf t).stage = 10) ∧
    (w.runOp c (.wClone f) = .ok w' → ∀ t, (w'.ctlOf t).stage = 10 → (w.ctlOf t).stage = 10) ∧
    (w.runOp c (.wakeH f) = .ok w' → ∀ t, (w'.ctlOf t).stage = 10 → (w.ctlOf t).stage = 10) ∧
    (∀ op, IsCellOp op → w.runOp c op = .ok w' →
      ∀ t, (w'.ctlOf t).stage = 10 → (w.ctlOf t).stage = 10) :=
  ⟨fun _ _ h => wake_noRepoll h, fun h => (dropWaker_frames h).1, fun h => (awWake_frames h).1,
    fun h => wake_noRepoll (by rwa [wakeQ_eq] at h), fun h => (awTake_frames h).1,
    fun h => (wClone_frames h).1, fun h => (wakeH_frames h).1, fun _ hop h => (cellOp_frames hop h).1⟩

/-! ## 2. `BlockOn.wake_not_lost` -/

/-- A wake that found a registered waker notifies the `Notify` of the `block_on` that waker belongs to.
`wake` (by value): stage 2 takes the waker out of the slot under the slot's mutex and, if there was one, goes to
stage 3 = `notifyEffect`; `wakeref` / `wakeq` (by reference; `wakeq` is `wakeref` without the flag store): stage
2 finds a waker and goes to stage 5 = `notifyEffect` while still holding the mutex, then unlocks.  Stage 2 hands
the waker it found — `(arc, notify)` of the `block_on` in progress — to the later stages through the acting
thread's `taken` / `takenNotify`, and those are what stages 3 / 5 notify.  `AtomicWaker::wake` (`.awWake`): stage
2 takes the waker under the `AtomicWaker`'s mutex and, if there was one, goes to stage 3 = `notifyEffect` on
the `Notify` handed over by stage 2 (see `AtomicWaker.wake_most_recent`).  `wakeh`: stage 1 = `notifyEffect` on
the `Notify` of the clone the thread holds (recorded by `wclone`: `(arc, notify)` of the `block_on` whose waker
sat in the slot).  And `notifyEffect` sets `notified := true` (releasing the waker's clocks into the object). -/
theorem BlockOn.wake_not_lost (w : World) (c : TCtl) (f : Nat) :
    (∀ b st, c.stage = 3 → w.wakeStage c f b st = (do
      let w1 ← w.notifyEffect c.takenNotify
      (w1.setStage 4).branch (w1.arcInfo c.taken).obj .arcDec)) ∧
    (∀ b st, 5 ≤ c.stage → w.wakeStage c f b st = (do
      let w1 ← w.notifyEffect c.takenNotify
      let w2 ← w1.releaseLock (w.futs.getD f {}).slotMutex
      pure (w2.complete .unit))) ∧
    (c.stage = 3 → w.runOp c (.awWake f) = (do
      let w1 ← w.notifyEffect c.takenNotify
      (w1.setStage 4).branch (w1.arcInfo c.taken).obj .arcDec)) ∧
    (∀ b st, c.stage = 2 → w.wakeStage c f b st = (do
      let (w1, okk) ← w.postAcquire (w.futs.getD f {}).slotMutex
      if !okk then throw .expectedLock
      let w2 := w1.modCtl w1.tid fun c =>
        { c with taken := (w.futs.getD f {}).arc, takenNotify := (w.futs.getD f {}).notify }
      if b then
        let w3 := w2.modFut f fun s => { s with slot := false }
        let w4 ← w3.releaseLock (w.futs.getD f {}).slotMutex
        if (w1.futs.getD f {}).slot then (w4.setStage 3).branch (w.futs.getD f {}).notify .opaque
        else pure (w4.complete .unit)
      else
        if (w1.futs.getD f {}).slot then (w2.setStage 5).branch (w.futs.getD f {}).notify .opaque
        else do
          let w4 ← w2.releaseLock (w.futs.getD f {}).slotMutex
          pure (w4.complete .unit))) ∧
    (∀ b st w', c.stage = 2 → w.wakeStage c f b st = .ok w' → f < w.futs.length →
      w.tid < w.ctl.length →
      (∃ w1, w.postAcquire (w.futs.getD f {}).slotMutex = .ok (w1, true)) ∧
      (w'.ctlOf w.tid).taken = (w.futs.getD f {}).arc ∧
      (w'.ctlOf w.tid).takenNotify = (w.futs.getD f {}).notify ∧
      ((w.futs.getD f {}).slot = true → (w'.ctlOf w.tid).stage = if b then 3 else 5) ∧
      ((w.futs.getD f {}).slot = false →
        (w'.ctlOf w.tid).stage = 0 ∧ (w'.ctlOf w.tid).pc = (w.ctlOf w.tid).pc + 1) ∧
      (b = true → (w'.futs.getD f {}).slot = false)) ∧
    (w.runOp c (.wakeQ f) = w.wakeStage c f false false) ∧
    (c.stage = 0 → w.wakeStage c f false false = (do
      let m ← w.getMutex (w.futs.getD f {}).slotMutex
      (w.setStage 2).branch (w.futs.getD f {}).slotMutex .opaque (block := m.lock.isSome) (wait := true))) ∧
    (c.held.lookup f = none → w.runOp c (.wakeH f) = pure (w.complete .unit)) ∧
    (∀ a n, c.held.lookup f = some (a, n) →
      (c.stage = 0 → w.runOp c (.wakeH f) = (w.setStage 1).branch n .opaque) ∧
      (c.stage = 1 → w.runOp c (.wakeH f) = (do
        let w1 ← w.notifyEffect n
        (w1.setStage 2).branch (w1.arcInfo a).obj .arcDec)) ∧
      (2 ≤ c.stage → w.runOp c (.wakeH f) = (do
        let w1 ← w.wakerDrop a
        let w2 := w1.modCtl w1.tid fun c => { c with held := c.held.filter (·.1 != f) }
        pure (w2.complete .unit)))) ∧
    (∀ w', 2 ≤ c.stage → w.runOp c (.wClone f) = .ok w' → w.tid < w.ctl.length →
      (∃ w1, w.wakerClone (w.futs.getD f {}).arc = .ok w1) ∧
      (w'.ctlOf w.tid).held =
        (f, (w.futs.getD f {}).arc, (w.futs.getD f {}).notify) ::
          (w.ctlOf w.tid).held.filter (·.1 != f) ∧
      w'.futs = w.futs) ∧
    (∀ o s, w.exec.objs[o]? = some (.notify s) →
      ∃ w1, w.notifyEffect o = .ok w1 ∧
        w1.exec.objs[o]? = some (.notify { s with
          sync := s.sync.store w.ths.activeT.released w.ths.caus .rel, notified := true }) ∧
        w.ths.caus.le (s.sync.store w.ths.activeT.released w.ths.caus .rel).hb) := by
  refine ⟨fun b st hs => wake_stage3 w c f b st hs, fun b st hs => wake_stage5 w c f b st hs,
    fun hs => awWake_stage3 w c f hs, fun b st hs => wake_stage2 w c f b st hs,
    fun b st w' hs h hf ht => wake_take hs h hf ht, wakeQ_eq w c f,
    fun hs => wake_stage0_quiet w c f false hs, fun hh => wakeH_none w c f hh,
    fun a n hh => ⟨fun hs => wakeH_stage0 w c f a n hh hs, fun hs => wakeH_stage1 w c f a n hh hs,
      fun hs => wakeH_stage2 w c f a n hh hs⟩,
    fun w' hs h ht => wClone_held hs h ht, ?_⟩
  intro o s hn
  obtain ⟨he, hle⟩ := Notify.notify_effect w o s hn
  refine ⟨_, he, ?_, hle⟩
  exact Sy.getElem?_set_self' _ _ _ _ hn

/-- … so the wake-up is not lost: once `notifyEffect` ran on the `block_on`'s `Notify` (object `n`),
the flag stays set through any non-consuming steps of the object (further notifications, first
halves of `wait`, access records), and a `block_on` that then reaches its wait (stage 15, flag load
≠ ready) is NOT blocked by `notifyWait1` (unless it takes its one spurious return) and its stage 16
succeeds: it polls again and sees the flag (`Notify.flag_not_lost` of C08 for the object `n`). -/
theorem BlockOn.wake_makes_wait_nonblocking {wN wN' wW : World} {n : Nat} {s0 s1 s2 : NotifySt}
    (h0 : wN.exec.objs[n]? = some (.notify s0)) (hn : wN.notifyEffect n = .ok wN')
    (h1 : wN'.exec.objs[n]? = some (.notify s1)) (hsteps : NotifyKeeps s1 s2)
    (h2 : wW.exec.objs[n]? = some (.notify s2)) :
    s2.notified = true ∧
    ((s2.spurious && !s2.didSpur) = false →
      wW.notifyWait1 n = (wW.branch n .opaque (block := false)).map (·, 1)) ∧
    (∃ wW', wW.notifyWait2 n = .ok wW') :=
  Notify.flag_not_lost h0 hn h1 hsteps h2

/-! ## 3. `BlockOn.returns_output` -/

theorem CompletesOnlyWith_spelled_out (r : Ret) (w w' : World) :
    CompletesOnlyWith r w w' ↔
      (w'.events = w.events ∨
        (w'.events.tail = w.events ∧ w'.events.head?.map (·.ret) = some r)) := Iff.rfl

/-- `block_on` returns the future's output.  A flag load that returns the ready value (first check, stage 11,
or second check, stage 15) proceeds to the return path (stage 40).  The return path: 40 drops the
`block_on`'s own handle and — slot modes / mode 1 — locks the slot's / the `AtomicWaker`'s mutex (→ 45 / 44),
45 / 44 take a still registered waker out (→ 43 / 46 drop it) and complete; modes 3 and 4 complete in stage 40
(the registration stays), and so does mode 5 (nothing was registered).  The operation completes (records an
event) in NO stage other than 40 (modes 3, 4, 5 only), 41, 43, 44, 45, 46, and with the result `.val 7` (the
scripted future's output) in every stage but 41.
Stage 41 completes with `.val 0` ("pending"); it is entered ONLY from stage 15 of a poll-once call (mode 4)
whose flag load did not return the ready value: in every other mode `block_on` returns only `.val 7`, and a
poll-once call returns 0 only after its one poll found the future pending.
Mode 5: the second poll (stage 52) is Ready — it leads to the return path 40 —, and stage 40 is entered from NO
stage other than a flag load (11, 15) and 52.  The stages of a mode-5 call (`SelfWakeStage`: 0, 50, 51, 52, 53,
40) are CLOSED: a step of a mode-5 call in one of them leaves every thread's stage as it was or moves it to one
of them (0: the call completed) — the call never gets to a flag load, a registration, the "pending" return 41 or a
take-back stage; so its stage 40 is reached only via 52.  It records an event only in stage 40, only the
completion with `.val 7`: stage 40 of a mode-5 call is ONE `wakerDrop` of the call's own handle followed by the
completion with 7. -/
theorem BlockOn.returns_output (w w' : World) (c : TCtl) (f mode : Nat)
    (h : w.blockOnStage c f mode = .ok w') :
    ((c.stage = 11 ∨ c.stage = 15) →
      ∃ w1 r, w.primEffect f (World.pollPrim mode) = .ok (w1, r) ∧
        (r = World.pollTarget mode →
          (w1.setStage 40).branch (w.arcInfo (w.futs.getD f {}).arc).obj .arcDec = .ok w')) ∧
    (c.stage ≠ 40 → c.stage ≠ 41 → c.stage ≠ 43 → c.stage ≠ 44 → c.stage ≠ 45 → c.stage ≠ 46 →
      w'.events = w.events) ∧
    (c.stage = 40 → mode ≠ 3 → mode ≠ 4 → mode ≠ 5 → w'.events = w.events) ∧
    (c.stage ≠ 41 → CompletesOnlyWith (.val 7) w w') ∧
    (c.stage = 41 → CompletesOnlyWith (.val 0) w w') ∧
    ((c.stage ≠ 15 ∨ mode ≠ 4) → ∀ t, (w'.ctlOf t).stage = 41 → (w.ctlOf t).stage = 41) ∧
    (c.stage = 15 → mode = 4 →
      ∃ w1 r, w.primEffect f (World.pollPrim mode) = .ok (w1, r) ∧
        (r ≠ World.pollTarget mode →
          (w1.setStage 41).branch (w.arcInfo (w.futs.getD f {}).arc).obj .arcDec = .ok w')) ∧
    (c.stage = 40 → ∃ w1, w.wakerDrop (w.futs.getD f {}).arc = .ok w1 ∧
      ((World.slotMode mode = true ∧ ∃ m, w1.getMutex (w.futs.getD f {}).slotMutex = .ok m ∧
          (w1.setStage 45).branch (w.futs.getD f {}).slotMutex .opaque (block := m.lock.isSome) (wait := true)
            = .ok w') ∨
       (World.slotMode mode = false ∧ (mode = 3 ∨ mode = 4 ∨ mode = 5) ∧ w' = w1.complete (.val 7)) ∨
       (World.slotMode mode = false ∧ mode ≠ 3 ∧ mode ≠ 4 ∧ mode ≠ 5 ∧
          ∃ m, w1.getMutex (w.futs.getD f {}).awMutex = .ok m ∧
          (w1.setStage 44).branch (w.futs.getD f {}).awMutex .opaque (block := m.lock.isSome) (wait := true)
            = .ok w'))) ∧
    (c.stage = 41 → ∃ w1, w.wakerDrop (w.futs.getD f {}).arc = .ok w1 ∧
      w' = w1.complete (.val 0)) ∧
    (c.stage = 43 → ∃ w1, w.wakerDrop (w.futs.getD f {}).arc = .ok w1 ∧
      w' = w1.complete (.val 7)) ∧
    (c.stage = 46 → ∃ w1, w.wakerDrop c.taken = .ok w1 ∧ w' = w1.complete (.val 7)) ∧
    (c.stage = 52 →
      (w.setStage 40).branch (w.arcInfo (w.futs.getD f {}).arc).obj .arcDec = .ok w') ∧
    (c.stage ≠ 11 → c.stage ≠ 15 → c.stage ≠ 52 →
      ∀ t, (w'.ctlOf t).stage = 40 → (w.ctlOf t).stage = 40) ∧
    (mode = 5 → SelfWakeStage c.stage →
      (∀ t, (w'.ctlOf t).stage = (w.ctlOf t).stage ∨ SelfWakeStage (w'.ctlOf t).stage) ∧
      (c.stage ≠ 40 → w'.events = w.events) ∧
      CompletesOnlyWith (.val 7) w w') ∧
    (c.stage = 40 → mode = 5 →
      ∃ w1, w.wakerDrop (w.futs.getD f {}).arc = .ok w1 ∧ w' = w1.complete (.val 7)) := by
  obtain ⟨he1, he2, he3, he4⟩ := blockOn_events h
  refine ⟨?_, he1, he2, he3, he4, fun h15 => blockOn_noPending h h15, ?_, ?_, ?_, ?_, ?_, ?_,
    fun h11 h15 h52 => blockOn_noEnter40 h h11 h15 h52, ?_, ?_⟩
  · rintro (hs | hs)
    · rw [blockOn_stage11 w c f mode hs] at h
      obtain ⟨⟨w1, r⟩, h1, h2⟩ := bind_ok h
      refine ⟨w1, r, h1, fun hr => ?_⟩
      subst hr; simpa using h2
    · rw [blockOn_stage15 w c f mode hs] at h
      obtain ⟨⟨w1, r⟩, h1, h2⟩ := bind_ok h
      refine ⟨w1, r, h1, fun hr => ?_⟩
      subst hr; simpa using h2
  · intro hs hm
    rw [blockOn_stage15 w c f mode hs] at h
    obtain ⟨⟨w1, r⟩, h1, h2⟩ := bind_ok h
    refine ⟨w1, r, h1, fun hr => ?_⟩
    have hne : (r == World.pollTarget mode) = false := by simpa using hr
    subst hm
    simpa [hne] using h2
  · intro hs
    rw [blockOn_stage40 w c f mode hs] at h
    obtain ⟨w1, h1, h2⟩ := bind_ok h
    refine ⟨w1, h1, ?_⟩
    cases hsm : World.slotMode mode with
    | true =>
      simp only [hsm, if_true] at h2
      obtain ⟨m, h3, h4⟩ := bind_ok h2
      exact .inl ⟨rfl, m, h3, h4⟩
    | false =>
      simp only [hsm, Bool.false_eq_true, if_false] at h2
      by_cases hm : mode = 3 ∨ mode = 4 ∨ mode = 5
      · have hb : (mode == 3 || mode == 4 || mode == 5) = true := by
          simpa [or_assoc] using hm
        simp only [hb, if_true] at h2
        cases h2
        exact .inr (.inl ⟨rfl, hm, rfl⟩)
      · have hb : (mode == 3 || mode == 4 || mode == 5) = false := by
          cases hbb : (mode == 3 || mode == 4 || mode == 5) with
          | false => rfl
          | true => exact absurd (by simpa [or_assoc] using hbb) hm
        simp only [hb, Bool.false_eq_true, if_false] at h2
        obtain ⟨m, h3, h4⟩ := bind_ok h2
        exact .inr (.inr ⟨rfl, fun e => hm (.inl e), fun e => hm (.inr (.inl e)),
          fun e => hm (.inr (.inr e)), m, h3, h4⟩)
  · intro hs
    rw [blockOn_stage41 w c f mode hs] at h
    obtain ⟨w1, h1, h2⟩ := bind_ok h
    cases h2
    exact ⟨w1, h1, rfl⟩
  · intro hs
    rw [blockOn_stage43 w c f mode hs] at h
    obtain ⟨w1, h1, h2⟩ := bind_ok h
    cases h2
    exact ⟨w1, h1, rfl⟩
  · intro hs
    rw [blockOn_stage46 w c f mode hs] at h
    obtain ⟨w1, h1, h2⟩ := bind_ok h
    cases h2
    exact ⟨w1, h1, rfl⟩
  · intro hs
    rw [blockOn_stage52 w c f mode hs] at h
    exact h
  · intro hm hc
    subst hm
    refine ⟨blockOn_selfWake_closed h hc, fun h40 => blockOn_selfWake_events h hc h40, he3 ?_⟩
    rcases hc with e | e | e | e | e | e <;> omega
  · intro hs hm
    subst hm
    rw [blockOn_stage40_selfWake w c f hs] at h
    obtain ⟨w1, h1, h2⟩ := bind_ok h
    cases h2
    exact ⟨w1, h1, rfl⟩

/-! ## 4. `AtomicWaker.lock_protocol`, `Slot.lock_protocol` -/

theorem AwKept_spelled_out (w w' : World) :
    (AwKept w w' ↔ ∀ f', (w'.futs.getD f' {}).awWaker = (w.futs.getD f' {}).awWaker) ∧
    (SlotKept w w' ↔ ∀ f', (w'.futs.getD f' {}).slot = (w.futs.getD f' {}).slot) :=
  ⟨Iff.rfl, Iff.rfl⟩

/-- The `AtomicWaker`'s content (`awWaker`) is written only under its mutex.
(a) No stage of `block_on` other than 21 (register) and 44 (take at return, mode 1), no stage of `wake` /
`wakeref` / `wakeq` / `dropwaker` / `wclone` / `wakeh`, no stage of `.awWake` other than 2 and no stage of
`awtake` other than 1 changes any `awWaker`.
(b) Stage 21 is `postAcquire` on the `AtomicWaker`'s mutex (the try-lock).  Held by someone else:
nothing is written and the registration wakes ITS OWN waker (→ stage 22 = `notifyEffect` on the
same `Notify`, 23 drops the clone and yields, → second flag check): it "will itself observe the
wake".  Free: the mutex is now held by the registering thread, THEN `awWaker := true` (with the identity of the
waker: `awArc`, `awNotify`), and the mutex is released in the same stage, or — when an older waker has to be
dropped — in stage 25 (`wakerDrop` of the older waker, handed over in `c.taken`, then `releaseLock`).
(c) `.awWake` stage 2, `awtake` stage 1 and `block_on` stage 44: `postAcquire` must succeed ("expected to be
able to acquire lock" otherwise), THEN `awWaker := false`, THEN `releaseLock` — in the same stage; the waker
taken out is handed to the next stage in `c.taken` (and `c.takenNotify`).
(d) A mode-5 call does not touch the `AtomicWaker`: in every one of its stages (`SelfWakeStage`) no `awWaker`
and no registered identity (`awArc`, `awNotify`) changes, the futures' table is written by the set-up stage only
(`notify`, `arc`), and EVERY mutex object — the `AtomicWaker`'s among them — is as before (`lock`, `sync`; up to
the scheduler's access record): the call neither locks nor unlocks anything. -/
theorem AtomicWaker.lock_protocol (w w' : World) (c : TCtl) (f mode : Nat) :
    (w.blockOnStage c f mode = .ok w' → c.stage ≠ 21 → c.stage ≠ 44 → AwKept w w') ∧
    (∀ b st, w.wakeStage c f b st = .ok w' → AwKept w w') ∧
    (w.runOp c (.dropWaker f) = .ok w' → AwKept w w') ∧
    (w.runOp c (.awWake f) = .ok w' → c.stage ≠ 2 → AwKept w w') ∧
    (w.runOp c (.wakeQ f) = .ok w' → AwKept w w') ∧
    (w.runOp c (.awTake f) = .ok w' → c.stage ≠ 1 → AwKept w w') ∧
    (w.runOp c (.wClone f) = .ok w' → AwKept w w') ∧
    (w.runOp c (.wakeH f) = .ok w' → AwKept w w') ∧
    (∀ m, c.stage = 21 → w.exec.objs[(w.futs.getD f {}).awMutex]? = some (.mutex m) →
      (m.lock.isSome = true →
        w.postAcquire (w.futs.getD f {}).awMutex = .ok (w, false) ∧
        w.blockOnStage c f mode = (w.setStage 22).branch (w.futs.getD f {}).notify .opaque ∧
        (w.blockOnStage c f mode = .ok w' → AwKept w w')) ∧
      (m.lock = none → ∃ w1,
        w.postAcquire (w.futs.getD f {}).awMutex = .ok (w1, true) ∧
        w1.exec.objs[(w.futs.getD f {}).awMutex]? = some (.mutex { m with lock := some w.tid }) ∧
        w.blockOnStage c f mode =
          (let w2 := w1.modFut f fun s =>
              { s with awWaker := true, awArc := (w.futs.getD f {}).arc,
                       awNotify := (w.futs.getD f {}).notify }
           if (w.futs.getD f {}).awWaker then
            let w3 := w2.modCtl w2.tid fun c => { c with taken := (w.futs.getD f {}).awArc }
            (w3.setStage 25).branch (w3.arcInfo (w.futs.getD f {}).awArc).obj .arcDec
          else do
            let w3 ← w2.releaseLock (w.futs.getD f {}).awMutex
            pure (w3.setStage 14)))) ∧
    (c.stage = 22 → w.blockOnStage c f mode = (do
      let w1 ← w.notifyEffect (w.futs.getD f {}).notify
      (w1.setStage 23).branch (w.arcInfo (w.futs.getD f {}).arc).obj .arcDec)) ∧
    (c.stage = 23 → w.blockOnStage c f mode = (do
      let w1 ← w.wakerDrop (w.futs.getD f {}).arc
      (w1.setStage 14).yieldNow)) ∧
    (c.stage = 25 → w.blockOnStage c f mode = (do
      let w1 ← w.wakerDrop c.taken
      let w2 ← w1.releaseLock (w.futs.getD f {}).awMutex
      pure (w2.setStage 14))) ∧
    (c.stage = 2 → w.runOp c (.awWake f) = (do
      let (w1, okk) ← w.postAcquire (w.futs.getD f {}).awMutex
      if !okk then throw .expectedLock
      let w2 := w1.modFut f fun s => { s with awWaker := false }
      let w3 ← w2.releaseLock (w.futs.getD f {}).awMutex
      if (w1.futs.getD f {}).awWaker then
        let w4 := w3.modCtl w3.tid fun c =>
          { c with taken := (w.futs.getD f {}).awArc, takenNotify := (w.futs.getD f {}).awNotify }
        (w4.setStage 3).branch (w.futs.getD f {}).awNotify .opaque
      else pure (w3.complete .unit))) ∧
    (c.stage = 44 → w.blockOnStage c f mode = (do
      let (w1, okk) ← w.postAcquire (w.futs.getD f {}).awMutex
      if !okk then throw .expectedLock
      let w2 := w1.modFut f fun s => { s with awWaker := false }
      let w3 ← w2.releaseLock (w.futs.getD f {}).awMutex
      if (w1.futs.getD f {}).awWaker then
        let w4 := w3.modCtl w3.tid fun c => { c with taken := (w.futs.getD f {}).awArc }
        (w4.setStage 46).branch (w4.arcInfo (w.futs.getD f {}).awArc).obj .arcDec
      else pure (w3.complete (.val 7)))) ∧
    (c.stage = 1 → w.runOp c (.awTake f) = (do
      let (w1, okk) ← w.postAcquire (w.futs.getD f {}).awMutex
      if !okk then throw .expectedLock
      let w2 := w1.modFut f fun s => { s with awWaker := false }
      let w3 ← w2.releaseLock (w.futs.getD f {}).awMutex
      if (w1.futs.getD f {}).awWaker then
        let w4 := w3.modCtl w3.tid fun c => { c with taken := (w.futs.getD f {}).awArc }
        (w4.setStage 2).branch (w4.arcInfo (w.futs.getD f {}).awArc).obj .arcDec
      else pure (w3.complete .unit))) ∧
    (mode = 5 → SelfWakeStage c.stage → w.blockOnStage c f mode = .ok w' →
      AwKept w w' ∧ AwIdKept w w' ∧ (c.stage ≠ 0 → w'.futs = w.futs) ∧
      ∀ (o : Nat) (m : MutexSt), w.exec.objs[o]? = some (.mutex m) →
        ∃ a, w'.exec.objs[o]? = some (.mutex { m with lastAccess := a })) := by
  refine ⟨fun h h1 h2 => blockOn_awKept h h1 h2, fun _ _ h => wake_awKept h,
    fun h => (dropWaker_frames h).2.1, fun h h2 => (awWake_frames h).2.2 h2,
    fun h => wake_awKept (by rwa [wakeQ_eq] at h), fun h h1 => (awTake_frames h).2.2.1 h1,
    fun h => (wClone_frames h).2.2.1, fun h => (wakeH_frames h).2.2.1, ?_,
    fun hs => blockOn_stage22 w c f mode hs, fun hs => blockOn_stage23 w c f mode hs,
    fun hs => blockOn_stage25 w c f mode hs, fun hs => awWake_stage2 w c f hs,
    fun hs => blockOn_stage44 w c f mode hs, fun hs => awTake_stage1 w c f hs, ?_⟩
  rotate_left
  · intro hm hc h
    subst hm
    have hne : c.stage ≠ 21 ∧ c.stage ≠ 44 := by
      rcases hc with e | e | e | e | e | e <;> omega
    exact ⟨blockOn_awKept h hne.1 hne.2, blockOn_awIdKept h hne.1,
      fun h0 => blockOn_selfWake_futs h hc h0, blockOn_selfWake_locks h hc⟩
  intro m hs hm
  constructor
  · intro hl
    have hp := C07.postAcquire_held hm hl
    have he : w.blockOnStage c f mode =
        (w.setStage 22).branch (w.futs.getD f {}).notify .opaque := by
      rw [blockOn_stage21 w c f mode hs, hp]; rfl
    refine ⟨hp, he, fun h => ?_⟩
    rw [he] at h
    have := branch_cf h
    intro f'
    rw [this.2.1]; rfl
  · intro hl
    obtain ⟨w1, hp, _, hfree⟩ := Lock.try_exact w _ m hm
    have hnone : m.lock.isNone = true := by rw [hl]; rfl
    rw [hnone] at hp
    refine ⟨w1, hp, ?_, ?_⟩
    · rw [hfree hnone]
      exact Sy.getElem?_set_self' _ _ _ _ hm
    · rw [blockOn_stage21 w c f mode hs, hp]; rfl

theorem AwIdKept_spelled_out (w w' : World) :
    AwIdKept w w' ↔ ∀ f', (w'.futs.getD f' {}).awArc = (w.futs.getD f' {}).awArc ∧
      (w'.futs.getD f' {}).awNotify = (w.futs.getD f' {}).awNotify := Iff.rfl

/-- `AtomicWaker::wake` wakes the MOST RECENTLY registered waker.
(a) Registration, `block_on` stage 21 with the `AtomicWaker`'s lock obtained (`postAcquire … = (w1, true)`):
afterwards the waker registered for `f` is the CURRENT call's — `awArc = arc`, `awNotify = notify` of the
`block_on` in progress — whatever was registered before; a waker that was registered (possibly by an EARLIER
`block_on`, whose `Arc` / `Notify` differ) is handed to stage 25 in `c.taken` and dropped there.  With the lock
held by someone else nothing is registered (stage 22: the registration wakes its own waker).
(b) WHICH waker is registered (`awArc`, `awNotify`) is written by NO other step: no stage of `block_on` other
than 21, no stage of `wake` / `wakeref` / `wakeq` / `dropwaker` / `awwake` / `awtake` / `wclone` / `wakeh`, no
cell-section operation.
(c) Wake, `.awWake` stage 2 (lock obtained, else "expected to be able to acquire lock"): the slot is emptied and
exactly the registered waker `(awArc, awNotify)` is handed to the later stages (`c.taken`, `c.takenNotify`);
stage 3 is `notifyEffect c.takenNotify` — the `Notify` of the most recently registered waker is notified —
and stage 4 drops that waker (`wakerDrop c.taken`).  With nothing registered the operation completes: nobody is
woken. -/
theorem AtomicWaker.wake_most_recent (w w' : World) (c : TCtl) (f mode : Nat)
    (hf : f < w.futs.length) (ht : w.tid < w.ctl.length) :
    (∀ w1, c.stage = 21 → w.postAcquire (w.futs.getD f {}).awMutex = .ok (w1, true) →
      w.blockOnStage c f mode = .ok w' →
      (w'.futs.getD f {}).awWaker = true ∧
      (w'.futs.getD f {}).awArc = (w.futs.getD f {}).arc ∧
      (w'.futs.getD f {}).awNotify = (w.futs.getD f {}).notify ∧
      ((w.futs.getD f {}).awWaker = true →
        (w'.ctlOf w.tid).taken = (w.futs.getD f {}).awArc ∧ (w'.ctlOf w.tid).stage = 25) ∧
      ((w.futs.getD f {}).awWaker = false → (w'.ctlOf w.tid).stage = 14)) ∧
    (∀ w1, c.stage = 21 → w.postAcquire (w.futs.getD f {}).awMutex = .ok (w1, false) →
      w.blockOnStage c f mode = .ok w' → w'.futs = w.futs ∧ (w'.ctlOf w.tid).stage = 22) ∧
    (c.stage = 25 → w.blockOnStage c f mode = (do
      let w1 ← w.wakerDrop c.taken
      let w2 ← w1.releaseLock (w.futs.getD f {}).awMutex
      pure (w2.setStage 14))) ∧
    (w.blockOnStage c f mode = .ok w' → c.stage ≠ 21 → AwIdKept w w') ∧
    (∀ b st, w.wakeStage c f b st = .ok w' → AwIdKept w w') ∧
    (w.runOp c (.dropWaker f) = .ok w' → AwIdKept w w') ∧
    (w.runOp c (.awWake f) = .ok w' → AwIdKept w w') ∧
    (w.runOp c (.wakeQ f) = .ok w' → AwIdKept w w') ∧
    (w.runOp c (.awTake f) = .ok w' → AwIdKept w w') ∧
    (w.runOp c (.wClone f) = .ok w' → AwIdKept w w') ∧
    (w.runOp c (.wakeH f) = .ok w' → AwIdKept w w') ∧
    (∀ op, IsCellOp op → w.runOp c op = .ok w' → AwIdKept w w') ∧
    (c.stage = 2 → w.runOp c (.awWake f) = .ok w' →
      (∃ w1, w.postAcquire (w.futs.getD f {}).awMutex = .ok (w1, true)) ∧
      (w'.futs.getD f {}).awWaker = false ∧
      ((w.futs.getD f {}).awWaker = true →
        (w'.ctlOf w.tid).taken = (w.futs.getD f {}).awArc ∧
        (w'.ctlOf w.tid).takenNotify = (w.futs.getD f {}).awNotify ∧
        (w'.ctlOf w.tid).stage = 3) ∧
      ((w.futs.getD f {}).awWaker = false →
        (w'.ctlOf w.tid).stage = 0 ∧ (w'.ctlOf w.tid).pc = (w.ctlOf w.tid).pc + 1)) ∧
    (c.stage = 3 → w.runOp c (.awWake f) = (do
      let w1 ← w.notifyEffect c.takenNotify
      (w1.setStage 4).branch (w1.arcInfo c.taken).obj .arcDec)) ∧
    (4 ≤ c.stage → w.runOp c (.awWake f) = (do
      let w1 ← w.wakerDrop c.taken
      pure (w1.complete .unit))) := by
  refine ⟨fun w1 hs hp h => blockOn_register hs hp h hf ht,
    fun w1 hs hp h => blockOn_register_busy hs hp h ht,
    fun hs => blockOn_stage25 w c f mode hs, fun h h21 => blockOn_awIdKept h h21,
    fun _ _ h => wake_awIdKept h, fun h => dropWaker_awIdKept h, fun h => awWake_awIdKept h,
    fun h => wake_awIdKept (by rwa [wakeQ_eq] at h), fun h => (awTake_frames h).2.2.2,
    fun h => (wClone_frames h).2.2.2, fun h => (wakeH_frames h).2.2.2,
    fun _ hop h => (cellOp_frames hop h).2.2.2, ?_,
    fun hs => awWake_stage3 w c f hs, fun hs => awWake_stage4 w c f hs⟩
  intro hs h
  obtain ⟨h1, h2, _, _, h5, h6⟩ := awWake_take hs h hf ht
  exact ⟨h1, h2, h5, h6⟩

/-- The plain waker slot (`slot`, modes 0 and 2) is written only under its mutex `slotMutex`.
(a) No stage of `block_on` other than 30 (register) and 45 (take at return), no stage of `wake`
other than 2, no stage of `wakeref` / `wakeq` / `wclone` / `wakeh` / `awtake` at all, no stage of `dropwaker`
other than 1, and no stage of `.awWake` changes any `slot`.
(b) In each of these four stages the write sits between a `postAcquire` on `slotMutex` that must
succeed ("expected to be able to acquire lock" otherwise) and the `releaseLock` — in the same
stage, or (register, an older waker has to be dropped) in stage 13 (`wakerDrop`, `releaseLock`);
`wakeref` / `wakeq` hold the mutex across their `notifyEffect` (stage 5) and never write the slot; `wclone`
READS the slot under the mutex (stage 1) and holds it across the waker's `ref_inc` (a scheduling point) until
the clone is made (stage 2: `wakerClone`, `releaseLock`).
(c) A mode-5 call does not touch the slot: in every one of its stages (`SelfWakeStage`) no `slot` changes, the
futures' table is written by the set-up stage only, and EVERY mutex object — the slot's among them — is as before
(up to the scheduler's access record). -/
theorem Slot.lock_protocol (w w' : World) (c : TCtl) (f mode : Nat) :
    (w.blockOnStage c f mode = .ok w' → c.stage ≠ 30 → c.stage ≠ 45 → SlotKept w w') ∧
    (∀ b st, w.wakeStage c f b st = .ok w' → (c.stage ≠ 2 ∨ b = false) → SlotKept w w') ∧
    (w.runOp c (.dropWaker f) = .ok w' → c.stage ≠ 1 → SlotKept w w') ∧
    (w.runOp c (.awWake f) = .ok w' → SlotKept w w') ∧
    (w.runOp c (.wakeQ f) = .ok w' → SlotKept w w') ∧
    (w.runOp c (.awTake f) = .ok w' → SlotKept w w') ∧
    (w.runOp c (.wClone f) = .ok w' → SlotKept w w') ∧
    (w.runOp c (.wakeH f) = .ok w' → SlotKept w w') ∧
    (c.stage = 30 → w.blockOnStage c f mode = (do
      let (w1, okk) ← w.postAcquire (w.futs.getD f {}).slotMutex
      if !okk then throw .expectedLock
      let w2 := w1.modFut f fun s => { s with slot := true }
      if (w1.futs.getD f {}).slot then
        (w2.setStage 13).branch (w.arcInfo (w.futs.getD f {}).arc).obj .arcDec
      else do
        let w3 ← w2.releaseLock (w.futs.getD f {}).slotMutex
        pure (w3.setStage 14))) ∧
    (c.stage = 13 → w.blockOnStage c f mode = (do
      let w1 ← w.wakerDrop (w.futs.getD f {}).arc
      let w2 ← w1.releaseLock (w.futs.getD f {}).slotMutex
      pure (w2.setStage 14))) ∧
    (c.stage = 45 → w.blockOnStage c f mode = (do
      let (w1, okk) ← w.postAcquire (w.futs.getD f {}).slotMutex
      if !okk then throw .expectedLock
      let w2 := w1.modFut f fun s => { s with slot := false }
      let w3 ← w2.releaseLock (w.futs.getD f {}).slotMutex
      if (w1.futs.getD f {}).slot then
        (w3.setStage 43).branch (w.arcInfo (w.futs.getD f {}).arc).obj .arcDec
      else pure (w3.complete (.val 7)))) ∧
    (c.stage = 1 → w.runOp c (.dropWaker f) = (do
      let (w1, okk) ← w.postAcquire (w.futs.getD f {}).slotMutex
      if !okk then throw .expectedLock
      let w2 := w1.modFut f fun s => { s with slot := false }
      let w3 ← w2.releaseLock (w.futs.getD f {}).slotMutex
      if (w1.futs.getD f {}).slot then
        let w4 := w3.modCtl w3.tid fun c => { c with taken := (w.futs.getD f {}).arc }
        (w4.setStage 2).branch (w4.arcInfo (w.futs.getD f {}).arc).obj .arcDec
      else pure (w3.complete .unit))) ∧
    (c.stage = 1 → w.runOp c (.wClone f) = (do
      let (w1, okk) ← w.postAcquire (w.futs.getD f {}).slotMutex
      if !okk then throw .expectedLock
      if (w1.futs.getD f {}).slot then
        (w1.setStage 2).branch (w1.arcInfo (w.futs.getD f {}).arc).obj .arcInc
      else do
        let w2 ← w1.releaseLock (w.futs.getD f {}).slotMutex
        pure (w2.complete (.val 0)))) ∧
    (2 ≤ c.stage → w.runOp c (.wClone f) = (do
      let w1 ← w.wakerClone (w.futs.getD f {}).arc
      let w2 := w1.modCtl w1.tid fun c =>
        { c with held := (f, (w.futs.getD f {}).arc, (w.futs.getD f {}).notify) ::
                   c.held.filter (·.1 != f) }
      let w3 ← w2.releaseLock (w.futs.getD f {}).slotMutex
      pure (w3.complete (.val 1)))) ∧
    (∀ m, w.exec.objs[(w.futs.getD f {}).slotMutex]? = some (.mutex m) →
      (m.lock.isSome = true → w.postAcquire (w.futs.getD f {}).slotMutex = .ok (w, false)) ∧
      (m.lock = none → ∃ w1, w.postAcquire (w.futs.getD f {}).slotMutex = .ok (w1, true) ∧
        w1.exec.objs[(w.futs.getD f {}).slotMutex]? =
          some (.mutex { m with lock := some w.tid }))) ∧
    (mode = 5 → SelfWakeStage c.stage → w.blockOnStage c f mode = .ok w' →
      SlotKept w w' ∧ (c.stage ≠ 0 → w'.futs = w.futs) ∧
      ∀ (o : Nat) (m : MutexSt), w.exec.objs[o]? = some (.mutex m) →
        ∃ a, w'.exec.objs[o]? = some (.mutex { m with lastAccess := a })) := by
  refine ⟨fun h h1 h2 => blockOn_slotKept h h1 h2, fun _ _ h h2 => wake_slotKept h h2,
    fun h h1 => (dropWaker_frames h).2.2 h1, fun h => (awWake_frames h).2.1,
    fun h => wake_slotKept (by rwa [wakeQ_eq] at h) (.inr rfl), fun h => (awTake_frames h).2.1,
    fun h => (wClone_frames h).2.1, fun h => (wakeH_frames h).2.1,
    fun hs => blockOn_stage30 w c f mode hs, fun hs => blockOn_stage13 w c f mode hs,
    fun hs => blockOn_stage45 w c f mode hs, fun hs => dropWaker_stage1 w c f hs,
    fun hs => wClone_stage1 w c f hs, fun hs => wClone_stage2 w c f hs, ?_, ?_⟩
  rotate_left
  · intro hm hc h
    subst hm
    have hne : c.stage ≠ 30 ∧ c.stage ≠ 45 := by
      rcases hc with e | e | e | e | e | e <;> omega
    exact ⟨blockOn_slotKept h hne.1 hne.2, fun h0 => blockOn_selfWake_futs h hc h0,
      blockOn_selfWake_locks h hc⟩
  intro m hm
  refine ⟨fun hl => C07.postAcquire_held hm hl, fun hl => ?_⟩
  obtain ⟨w1, hp, _, hfree⟩ := Lock.try_exact w _ m hm
  have hnone : m.lock.isNone = true := by rw [hl]; rfl
  rw [hnone] at hp
  refine ⟨w1, hp, ?_⟩
  rw [hfree hnone]
  exact Sy.getElem?_set_self' _ _ _ _ hm

/-! ## 5. `Waker.refcount_balance` -/

/-- The waker's reference count.  `wakerClone` (the effect of `ref_inc`: registering a waker in the
slot or in the `AtomicWaker`, or `wclone`) adds one to `ref_cnt` of the `rt::Arc` object and to the strong count
of the wrapped `std` `Arc`; `wakerDrop` (a taken / replaced / rejected clone, the `block_on`'s
own handle, the clone woken by `wakeh`, the registration taken by `awtake`) is `refDecEffect` followed by the
`Drop` glue `afterDec`: it takes one off both, fails
with "Arc is already released" at count 0, and unregisters the allocation exactly when the count
reaches 0 (then the `std` count was 1): each clone is matched by exactly one drop before the
allocation goes away (`ArcObj.drop_once`, `ArcObj.refines_refcount_refDec` of C11).
The three operations that move a reference without a `block_on`: `wclone` (+1: its last stage is ONE
`wakerClone` of the slot's waker, recorded in `held`), `wakeh` (−1: its last stage is ONE `wakerDrop` of the
clone held, which is forgotten; nothing if the thread holds none), `awtake` (−1: its last stage is ONE
`wakerDrop` of the waker its stage 1 took out of the `AtomicWaker`, `c.taken = awArc`; stage 1 completes
without a drop if nothing was registered).
A mode-5 `block_on` (the future wakes itself by reference): the set-up stage 0 (of any mode) creates the call's
`Arc` with count 1 — `std` count 1, registered; the stages 50, 51, 52, 53 perform NO `wakerClone` and no drop:
the `Arc` table, the futures' table and the count of EVERY `Arc` object are as before; the return stage 40 is
exactly ONE `wakerDrop` — of the call's own handle `(w.futs.getD f {}).arc` — followed by the completion: one
reference created, one dropped. -/
theorem Waker.refcount_balance (w w' : World) (a : Nat) (s : ArcSt) (ha : a < w.arcs.length)
    (hg : w.getArc (w.arcInfo a).obj = .ok s) :
    (w.wakerClone a = .ok
      ((w.setObj (w.arcInfo a).obj (.arc { s with refCnt := s.refCnt + 1 })).modArc a
        fun i => { i with stdCount := i.stdCount + 1 })) ∧
    (w.wakerClone a = .ok w' →
      w'.getArc (w.arcInfo a).obj = .ok { s with refCnt := s.refCnt + 1 } ∧
      (w'.arcInfo a).stdCount = (w.arcInfo a).stdCount + 1 ∧
      (w'.arcInfo a).obj = (w.arcInfo a).obj ∧
      (w'.arcInfo a).registered = (w.arcInfo a).registered) ∧
    (w.wakerDrop a = (do
      let (w1, last) ← w.refDecEffect (w.arcInfo a).obj
      w1.afterDec a last)) ∧
    (w.wakerDrop a = .error .arcReleased ↔ s.refCnt = 0) ∧
    (w.wakerDrop a = .ok w' →
      ∃ s', w'.getArc (w.arcInfo a).obj = .ok s' ∧ s'.refCnt + 1 = s.refCnt ∧
        (w'.arcInfo a).stdCount = (w.arcInfo a).stdCount - 1 ∧
        (w'.arcInfo a).registered = ((w.arcInfo a).registered && !(s'.refCnt == 0)) ∧
        (s'.refCnt = 0 → (w.arcInfo a).registered = true ∧ (w.arcInfo a).stdCount = 1)) ∧
    (∀ (c : TCtl) (f : Nat), 2 ≤ c.stage → w.runOp c (.wClone f) = (do
      let w1 ← w.wakerClone (w.futs.getD f {}).arc
      let w2 := w1.modCtl w1.tid fun c =>
        { c with held := (f, (w.futs.getD f {}).arc, (w.futs.getD f {}).notify) ::
                   c.held.filter (·.1 != f) }
      let w3 ← w2.releaseLock (w.futs.getD f {}).slotMutex
      pure (w3.complete (.val 1)))) ∧
    (∀ (c : TCtl) (f a' n : Nat), c.held.lookup f = some (a', n) → 2 ≤ c.stage →
      w.runOp c (.wakeH f) = (do
        let w1 ← w.wakerDrop a'
        let w2 := w1.modCtl w1.tid fun c => { c with held := c.held.filter (·.1 != f) }
        pure (w2.complete .unit))) ∧
    (∀ (c : TCtl) (f : Nat), c.held.lookup f = none →
      w.runOp c (.wakeH f) = pure (w.complete .unit)) ∧
    (∀ (c : TCtl) (f : Nat), 2 ≤ c.stage → w.runOp c (.awTake f) = (do
      let w1 ← w.wakerDrop c.taken
      pure (w1.complete .unit))) ∧
    (∀ (c : TCtl) (f : Nat), c.stage = 1 → w.runOp c (.awTake f) = .ok w' → f < w.futs.length →
      w.tid < w.ctl.length →
      (w'.futs.getD f {}).awWaker = false ∧
      ((w.futs.getD f {}).awWaker = true →
        (w'.ctlOf w.tid).taken = (w.futs.getD f {}).awArc ∧ (w'.ctlOf w.tid).stage = 2) ∧
      ((w.futs.getD f {}).awWaker = false →
        (w'.ctlOf w.tid).stage = 0 ∧ (w'.ctlOf w.tid).pc = (w.ctlOf w.tid).pc + 1)) ∧
    (∀ (c : TCtl) (f mode : Nat), c.stage = 0 → w.blockOnStage c f mode = .ok w' →
      w'.exec.objs = w.exec.objs ++
        [.notify { seqCst := false, spurious := true }, .arc { refCnt := 1 }] ∧
      w'.arcs = w.arcs ++
        [({ obj := w.exec.objs.length + 1, stdCount := 1, registered := true } : ArcInfo)] ∧
      ((w'.futs.getD f {}).arc = w.arcs.length ∨ ¬ f < w.futs.length)) ∧
    (∀ (c : TCtl) (f mode : Nat), (c.stage = 50 ∨ c.stage = 51 ∨ c.stage = 52 ∨ c.stage = 53) →
      w.blockOnStage c f mode = .ok w' →
      w'.arcs = w.arcs ∧ w'.futs = w.futs ∧
      ∀ (o : Nat) (s0 : ArcSt), w.exec.objs[o]? = some (.arc s0) →
        ∃ s1 : ArcSt, w'.exec.objs[o]? = some (.arc s1) ∧ s1.refCnt = s0.refCnt) ∧
    (∀ (c : TCtl) (f : Nat), c.stage = 40 → w.blockOnStage c f 5 = (do
      let w1 ← w.wakerDrop (w.futs.getD f {}).arc
      pure (w1.complete (.val 7)))) := by
  refine ⟨wakerClone_eq hg, fun h => wakerClone_counts ha hg h, wakerDrop_eq w a, ?_,
    fun h => wakerDrop_counts ha hg h, fun c f hs => wClone_stage2 w c f hs,
    fun c f a' n hh hs => wakeH_stage2 w c f a' n hh hs, fun c f hh => wakeH_none w c f hh,
    fun c f hs => awTake_stage2 w c f hs, fun c f hs h hf ht => (awTake_take hs h hf ht).2,
    ?_, fun c f mode hc h => blockOn_selfWake_counts h hc,
    fun c f hs => blockOn_stage40_selfWake w c f hs⟩
  rotate_left
  · intro c f mode hs h
    rw [blockOn_stage0 w c f mode hs] at h
    cases h
    obtain ⟨_, _, h3, h4, h5⟩ := setUp_facts w f
    refine ⟨h3, h4, ?_⟩
    by_cases hf : f < w.futs.length
    · left
      show ((setUp w f).futs.getD f {}).arc = _
      rw [h5]
      simp [List.getD_eq_getElem?_getD, hf]
    · exact .inr hf
  obtain ⟨h1, h2, h3⟩ := ArcObj.refines_refcount_refDec w _ s hg
  constructor
  · intro h
    rw [wakerDrop_eq] at h
    rcases WB.bind_eq_error h with he | ⟨⟨w1, last⟩, hr, he⟩
    · exact h1.1 he
    · exfalso
      dsimp only at he
      rw [C11.afterDec_eq] at he
      repeat' split at he
      all_goals cases he
  · intro h0
    rw [wakerDrop_eq, h1.2 h0]; rfl

/-- `dropwaker` drops THE WAKER IT TOOK (`drop(slot.lock().take())`; repair of a defect of the twin found by the
refinement proof `Props/Refine4.lean`: its last stage used to drop `(w.futs.getD f {}).arc` — the `Arc` of whatever
`block_on` call was current at THAT stage — instead of the waker taken one stage earlier, and panicked "Arc is
already released" when another call had started in between).  Stage 1 empties the slot under its mutex (see
`Slot.lock_protocol`) and, if a waker was registered, records it — the `Arc` of the call in progress at stage 1 — in
the thread's control record (`taken`) and branches on its `ref_dec`; it completes at once (no drop) if nothing was
registered.  Every later stage is ONE `wakerDrop` of `c.taken`, whatever the futures' table says by then, followed
by the completion: as for `wake`, `awWake`, `awtake`. -/
theorem Waker.dropWaker_drops_the_waker_taken (w w' : World) (c : TCtl) (f : Nat) :
    (2 ≤ c.stage → w.runOp c (.dropWaker f) = (do
      let w1 ← w.wakerDrop c.taken
      pure (w1.complete .unit))) ∧
    (c.stage = 1 → w.runOp c (.dropWaker f) = .ok w' → f < w.futs.length → w.tid < w.ctl.length →
      (∃ w1, w.postAcquire (w.futs.getD f {}).slotMutex = .ok (w1, true)) ∧
      (w'.futs.getD f {}).slot = false ∧
      ((w.futs.getD f {}).slot = true →
        (w'.ctlOf w.tid).taken = (w.futs.getD f {}).arc ∧ (w'.ctlOf w.tid).stage = 2) ∧
      ((w.futs.getD f {}).slot = false →
        (w'.ctlOf w.tid).stage = 0 ∧ (w'.ctlOf w.tid).pc = (w.ctlOf w.tid).pc + 1)) :=
  ⟨fun hs => dropWaker_stage2 w c f hs, fun hs h hf ht => dropWaker_take hs h hf ht⟩

/-! ## 6. non-vacuity -/

namespace C20.Ex

/-- one scripted future (flag = atomic 0), preemption bound 1 -/
def cfg : Cfg := { nAtomics := 1, nFutures := 1, bound := some 1 }

/-- `T0: spawn 1; blockon 0 <mode>; join 1 | T1: <wake>` -/
def prog (mode : Nat) (wake : Op) : Prog :=
  { cfg, threads := [[.spawn 1, .blockOn 0 mode, .join 1], [wake]] }

/-- number of iterations of `Builder::check`, "every path explored", and: every iteration ends
without a panic (no deadlock, no leak) and its `block_on` (thread 0, pc 1) returned `.val 7` -/
def summary (p : Prog) : Nat × Bool × Bool :=
  let r := Check.loop p 1000 1 (Check.initExec p.cfg)
  (r.1.length, r.2 == .completed, r.1.all fun it => it.result.term.isNone &&
    (it.result.events.filter (fun e => e.tid == 0 && e.pc == 1)).map (·.ret) == [.val 7])

/-- the poll-once program
`cfg x=1 f=1 bound=<b> | T0: blockon 0 4; spawn 1; blockon 0 3; join 1; awtake 0 | T1: awwake 0`:
the first call (poll-once) registers its waker in the `AtomicWaker` and returns 0 (pending); the second call
(mode 3) replaces that registration by its own; `awwake` must wake the SECOND call's waker (the most recently
registered one) — waking the first call's `Notify` would leave the second `block_on` blocked for ever; `awtake`
drops the registration that mode 3 leaves behind (no leak). -/
def pollOnce (b : Nat) : Prog :=
  { cfg := { cfg with bound := some b },
    threads := [[.blockOn 0 4, .spawn 1, .blockOn 0 3, .join 1, .awTake 0], [.awWake 0]] }

/-- number of iterations, "every path explored", and: every iteration ends without a panic (no deadlock, no
leak), the first `block_on` (thread 0, pc 0) returned `.val 0` and the second (pc 2) returned `.val 7` -/
def pollOnceSummary (p : Prog) : Nat × Bool × Bool :=
  let r := Check.loop p 1000 1 (Check.initExec p.cfg)
  (r.1.length, r.2 == .completed, r.1.all fun it => it.result.term.isNone &&
    (it.result.events.filter (fun e => e.tid == 0 && (e.pc == 0 || e.pc == 2))).map (·.ret)
      == [.val 0, .val 7])

/-- `T0: spawn 1; blockon 0 0; join 1 | T1: wclone 0; wake 0; wakeh 0` -/
def heldClone : Prog :=
  { cfg, threads := [[.spawn 1, .blockOn 0 0, .join 1], [.wClone 0, .wake 0, .wakeH 0]] }

/-- `summary` and the set of results of `wclone` (thread 1, pc 0) over all iterations -/
def heldCloneSummary (p : Prog) : (Nat × Bool × Bool) × List (List Ret) :=
  (summary p, ((Check.loop p 1000 1 (Check.initExec p.cfg)).1.map fun it =>
    (it.result.events.filter (fun e => e.tid == 1 && e.pc == 0)).map (·.ret)).eraseDups)

/-- the self-waking program `cfg x=1 f=1 | T0: blockon 0 5` (the text `Prog.parse` reads; the parser works on
strings and does not reduce in the kernel, so the parsed program is given; no preemption bound): one thread, one
`block_on` of a future that wakes itself by reference in its first poll -/
def selfWake : Prog := { cfg := { nAtomics := 1, nFutures := 1 }, threads := [[.blockOn 0 5]] }

end C20.Ex

open C20.Ex in
/-- `block_on` with the waker slot against `wake` from another thread, the whole exploration of
`Builder::check` (preemption bound 1: 14 executions): in EVERY execution `block_on` returns the
output 7, nothing deadlocks, nothing leaks (the waker's `Arc` is released). -/
theorem BlockOn.example_slot : summary (prog 0 (.wake 0)) = (14, true, true) := by
  decide +kernel

open C20.Ex in
/-- the same with `AtomicWaker`: `block_on` (mode 1) against `AtomicWaker::wake` -/
theorem BlockOn.example_atomic_waker : summary (prog 1 (.awWake 0)) = (14, true, true) := by
  decide +kernel

open C20.Ex in
/-- no wake can ever arrive: `T0: blockon 0 0` alone is reported as a deadlock in the first
execution; with the wake BEFORE the `block_on` (`T0: wake 0; blockon 0 0`) the first poll sees
the flag and `block_on` returns 7 without waiting. -/
theorem BlockOn.example_deadlock :
    (runIter { cfg, threads := [[.blockOn 0 0]] } (Check.initExec cfg) 300).term =
      some .deadlock ∧
    (runIter { cfg, threads := [[.wake 0, .blockOn 0 0]] } (Check.initExec cfg) 300).term = none ∧
    (runIter { cfg, threads := [[.wake 0, .blockOn 0 0]] } (Check.initExec cfg) 300).events.map
      (fun e => (e.tid, e.pc, e.ret)) = [(0, 0, .unit), (0, 1, .val 7)] := by
  refine ⟨?_, ?_, ?_⟩ <;> decide +kernel

open C20.Ex in
/-- the poll-once program
`cfg x=1 f=1 | T0: blockon 0 4; spawn 1; blockon 0 3; join 1; awtake 0 | T1: awwake 0`,
the whole exploration of `Builder::check` with preemption bound 1 (13 executions) and 2 (46 executions): EVERY
iteration ends without a deadlock and without a leak, the poll-once call returns 0 and the second call — whose
waker replaced the first call's in the `AtomicWaker` — returns 7: `awwake` woke the most recently registered
waker. -/
theorem BlockOn.example_poll_once :
    pollOnceSummary (pollOnce 1) = (13, true, true) ∧ pollOnceSummary (pollOnce 2) = (46, true, true) := by
  constructor <;> decide +kernel

open C20.Ex in
/-- a kept clone: `T0: spawn 1; blockon 0 0; join 1 | T1: wclone 0; wake 0; wakeh 0`, the whole exploration with
preemption bound 1 (18 executions).  `wclone` finds the waker registered (1) in some executions and not (0) in
others; in EVERY execution `block_on` returns 7, nothing deadlocks and nothing leaks: the reference added by
`wclone` is given back by `wakeh`. -/
theorem BlockOn.example_held_clone :
    heldCloneSummary heldClone = ((18, true, true), [[.val 1], [.val 0]]) := by
  decide +kernel

open C20.Ex in
/-- the self-waking future: `cfg x=1 f=1 | T0: blockon 0 5` (`Ex.selfWake`).
`Builder::check` (`Check.run`) explores the program completely, in 2 executions — the wait after the first poll
consumes the call's own notification, or takes its one modelled spurious return —; EVERY execution ends without
a panic — no deadlock: the self-wake is not lost although no clone of the waker exists; no leak: the waker's `Arc`
is released — and its only event is the `block_on` (thread 0, pc 0) returning 7. -/
theorem BlockOn.example_self_wake :
    (Check.run selfWake).2 = .completed ∧ (Check.run selfWake).1.length = 2 ∧
    (Check.run selfWake).1.all (fun it => it.result.term.isNone &&
      it.result.events.map (fun e => (e.tid, e.pc, e.ret)) == [(0, 0, .val 7)]) = true := by
  refine ⟨?_, ?_, ?_⟩ <;> decide +kernel

end LoomVerif

/-
Property C19: "Exploration controls and limits behave as documented.  Between
`stop_exploring()` and `explore()` (and after `skip_branch()`) no alternative is explored for
decisions taken inside the region while decisions outside it are still fully explored, so the
result set is a subset of the unrestricted one and every execution remains valid; exceeding
`max_branches` or `max_threads` produces a panic with the documented message;
`max_permutations`/`max_duration` end the run between iterations without reporting a failure,
no later than the first checkpoint boundary after the limit is reached."

Headline theorems about the model of `src/rt/path.rs` (`LoomVerif.Path`), `thread::Set`
(`LoomVerif.Threads`) and `Builder::check` (`LoomVerif.Check`).  Helper definitions
(`LoomVerif/Proofs/PathCtl.lean`, `CheckLoop.lean`):

* `Path.Frozen p p'`   same length, every non-exploring entry of `p` is literally unchanged.
* `Path.Keeps p q`     `q` extends `p`, every non-exploring entry of `p` is literally unchanged.
* `Path.Ctl`, `Path.ctl`, `Path.ctls`  the calls `explore_state` / `critical` and sequences of them.
* `Path.exploringPart p`  `p` with the non-exploring entries erased from the stack.
* `Check.firstBoundary c m = c * ⌈m / c⌉`  the first multiple of the checkpoint interval `c` that
                        is at least `m`.
`stop_exploring()` is `Path::critical`, `explore()` is `Path::explore_state`, `skip_branch()` is
`Path::skip_branch`.  `max_duration` reads the clock and is not part of the model; it is tested
at the same place as `max_permutations`.
-/
import LoomVerif.Proofs.PathCtl
import LoomVerif.Proofs.CheckLoop

namespace LoomVerif.C19
open LoomVerif LoomVerif.Path

/-! ## 1. non-exploring entries are frozen -/

/-- `Path.nonexploring_frozen`, part a: an entry that is not exploring has no alternative. -/
theorem nonexploring_no_alternative {e : Entry} (h : e.exploring = false) :
    e.advance = none ∧ e.alt = 0 :=
  ⟨Entry.advance_of_not_exploring h, Entry.alt_of_not_exploring h⟩

/-- part b: `Schedule::backtrack` is only ever applied to exploring schedules (its `assert!`),
and `Path::backtrack` leaves every non-exploring entry literally unchanged. -/
theorem backtrack_keeps_nonexploring {p p' : Path} {point tid : Nat}
    (h : p.backtrack point tid = .ok p') :
    p'.branches.length = p.branches.length ∧
    ∀ i (hi : i < p.branches.length), p.branches[i].exploring = false →
      p'.branches[i]? = some p.branches[i] :=
  ⟨(backtrack_frozen h).len, (backtrack_frozen h).same⟩

theorem sched_backtrack_asserts_exploring {s s' : Sched} {tid : Nat} {b : Option Nat}
    (h : s.backtrack tid b = .ok s') : s.exploring = true := Sched.backtrack_exploring h

/-- the same for every API call and for whole iterations -/
theorem api_keeps_nonexploring {np : Bool} {p q : Path} (h : Iter np p q) :
    p.branches.length ≤ q.branches.length ∧
    ∀ i (hi : i < p.branches.length), p.branches[i].exploring = false →
      q.branches[i]? = some p.branches[i] :=
  ⟨h.keeps.len, h.keeps.same⟩

/-- part c: the entry `Path::step` advances is exploring; every non-exploring entry that is
still on the stack afterwards lies above the advanced one and is literally unchanged. -/
theorem step_keeps_nonexploring {q p' : Path} (h : q.step = some p') :
    ∃ (m : Nat) (hm : m < q.branches.length), q.branches[m].exploring = true ∧
      p'.branches.length = m + 1 ∧
      (∀ i (hi : i < m), p'.branches[i]? = some (q.branches[i]'(by omega))) ∧
      (∀ i (hi : i < q.branches.length), i < p'.branches.length →
        q.branches[i].exploring = false → i < m ∧ p'.branches[i]? = some q.branches[i]) :=
  step_keeps h

/-- `Path.nonexploring_frozen`: a decision taken in a non-exploring region keeps its first
alternative in every later iteration that shares the prefix — along a run, a non-exploring
entry is literally the same entry at the end of every iteration until some `step` pops it. -/
theorem nonexploring_frozen {np : Bool} {p : Path} {qs : List Path}
    (h : Explore (Iter np) p qs) {i : Nat} (hi : i < p.branches.length)
    (hx : p.branches[i].exploring = false) :
    ∀ k (hk : k < qs.length), qs[k].branches[i]? = some p.branches[i] ∨
      ∃ j, ∃ hj : j < k, ∃ p', (qs[j]'(by omega)).step = some p' ∧ p'.branches.length ≤ i :=
  nonexploring_run h hi hx

/-! ## 2. the controls -/

/-- an entry pushed by an API call carries the `exploring` flag of the stack -/
theorem pushed_entries_flag {pk : Bool} {p p' : Path} (h : Call pk p p') :
    ∀ i (_ : p.branches.length ≤ i) (h2 : i < p'.branches.length),
      p'.branches[i].exploring = p.exploring := h.pushed

/-- decision table of `Path::explore_state` -/
theorem exploreState_table (p : Path) :
    p.exploreState =
      if p.skipping then .ok p
      else if p.exploring then .error .notCritical
      else .ok { p with exploring := true } := Path.exploreState_table p

/-- decision table of `Path::critical` -/
theorem critical_table (p : Path) :
    p.critical =
      if p.skipping then .ok p
      else if p.exploring then .ok { p with exploring := false }
      else .error .notExploring := Path.critical_table p

theorem skipBranch_eq (p : Path) :
    p.skipBranch = { p with exploring := false, skipping := true } := rfl

/-- `skip_sticky`: after `skip_branch` every sequence of `explore_state` / `critical` calls
succeeds and changes nothing. -/
theorem skip_sticky (p : Path) (cs : List Ctl) : p.skipBranch.ctls cs = .ok p.skipBranch :=
  ctls_of_skipping rfl cs

/-- … and whatever the rest of the iteration does, the stack stays in the skipping state with
`exploring = false`, so every entry pushed later in the iteration is non-exploring. -/
theorem skip_sticky_iter {np : Bool} {p q : Path} (h : Iter np p.skipBranch q) :
    q.skipping = true ∧ q.exploring = false ∧
    ∀ i (_ : p.branches.length ≤ i) (h2 : i < q.branches.length),
      q.branches[i].exploring = false :=
  ⟨(h.skipping ⟨rfl, rfl⟩).1, (h.skipping ⟨rfl, rfl⟩).2,
   fun i h1 h2 => h.pushed_of_skipping ⟨rfl, rfl⟩ i h1 h2⟩

/-- `Path::step` resets the controls. -/
theorem step_resets_controls {q p' : Path} (h : q.step = some p') :
    p'.exploring = q.exploringOnStart ∧ p'.skipping = false ∧ p'.pos = 0 ∧
      p'.exploringOnStart = q.exploringOnStart :=
  have := step_fields h; ⟨this.2.2.2.2.1, this.2.2.2.2.2, this.2.2.2.1, this.2.2.1⟩

/-! ## 3. decisions outside the region are unaffected -/

/-- `Path.outside_unaffected`: `Path::step` commutes with erasing the non-exploring entries —
which exploring entry is advanced, and to what, does not depend on the non-exploring ones. -/
theorem outside_unaffected (p : Path) : p.step.map exploringPart = p.exploringPart.step :=
  step_exploringPart p

/-- index form: `step` advances the deepest *exploring* entry that has an alternative left. -/
theorem step_advances_deepest_exploring (q p' : Path) :
    q.step = some p' ↔ ∃ (m : Nat) (hm : m < q.branches.length) (e' : Entry),
      q.branches[m].exploring = true ∧ q.branches[m].advance = some e' ∧
      (∀ j (hj : j < q.branches.length), m < j → q.branches[j].exploring = true →
        q.branches[j].advance = none) ∧
      p' = { q with pos := 0, exploring := q.exploringOnStart, skipping := false,
                    branches := q.branches.take m ++ [e'] } :=
  step_eq_some_exploring q p'

/-! ## 4. `max_branches`, `max_threads` -/

/-- `Path.branch_limit_exact`: `assert_path_len!` fails iff the vector is full and the thread
is not panicking, and then with the branch-limit message. -/
theorem branch_limit_exact (p : Path) (pk : Bool) :
    (p.assertLen pk = .error .branchLimit ↔ (p.branches.length ≥ p.cap ∧ pk = false)) ∧
    (∀ e, p.assertLen pk = .error e → e = .branchLimit) := by
  refine ⟨?_, fun e h => ((assertLen_error p pk e).1 h).2.2⟩
  rw [assertLen_error]; simp

/-- `branch_thread` / `branch_spurious` / `push_load` report the branch limit iff they need a
new entry, the vector is full and the thread is not panicking; never while replaying.  (No
assumption on seeds is needed: the other checks of these functions report other errors.) -/
theorem branch_limit_api (p : Path) (pk : Bool) :
    (∀ seed, p.branchThread seed pk = .error .branchLimit ↔
      (p.isTraversed = true ∧ p.branches.length ≥ p.cap ∧ pk = false)) ∧
    (p.branchSpurious pk = .error .branchLimit ↔
      (p.isTraversed = true ∧ p.branches.length ≥ p.cap ∧ pk = false)) ∧
    (∀ seed, p.pushLoad seed pk = .error .branchLimit ↔
      (p.branches.length ≥ p.cap ∧ pk = false)) :=
  ⟨fun seed => branchThread_limit p seed pk, branchSpurious_limit p pk,
   fun seed => pushLoad_limit p seed pk⟩

theorem no_branch_limit_on_replay (p : Path) (pk : Bool) (h : p.isTraversed = false) :
    (∀ seed, p.branchThread seed pk ≠ .error .branchLimit) ∧
    p.branchSpurious pk ≠ .error .branchLimit := by
  refine ⟨fun seed hc => ?_, fun hc => ?_⟩
  · have := ((branchThread_limit p seed pk).1 hc).1; rw [h] at this; cases this
  · have := ((branchSpurious_limit p pk).1 hc).1; rw [h] at this; cases this

/-- `Threads.thread_limit_exact`: `Set::new_thread` fails iff the set is full, and then with
the thread-limit assertion. -/
theorem thread_limit_exact (s : Threads) :
    (s.newThread = .error .threadLimit ↔ s.threads.length ≥ s.max) ∧
    (∀ e, s.newThread = .error e → e = .threadLimit) :=
  ⟨Threads.newThread_limit s, fun e h => ((Threads.newThread_error s e).1 h).2⟩

/-! ## 5. `max_permutations` -/

open Check

/-- `Check.permutation_limit`: the run is cut off before iteration `i` iff `i` is a checkpoint
boundary and `i` has reached `max_permutations`. -/
theorem permutation_limit (c : Cfg) (i : Nat) :
    limitHit c i = true ↔ (i % c.interval = 0 ∧ ∃ m, c.maxPerm = some m ∧ m ≤ i) :=
  limitHit_iff c i

/-- the first iteration number at which the loop stops is `i₀ = c * ⌈m / c⌉`, the first
checkpoint boundary at or after the limit (less than one interval after it) -/
theorem permutation_limit_first {cfg : Cfg} {m : Nat} (hm : cfg.maxPerm = some m)
    (hc : 1 ≤ cfg.interval) (hm1 : 1 ≤ m) :
    let i₀ := firstBoundary cfg.interval m
    1 ≤ i₀ ∧ m ≤ i₀ ∧ i₀ < m + cfg.interval ∧ i₀ % cfg.interval = 0 ∧
    limitHit cfg i₀ = true ∧ ∀ i, i < i₀ → limitHit cfg i = false := by
  intro i₀
  obtain ⟨h1, h2, h3⟩ := firstBoundary_spec (m := m) hc
  refine ⟨firstBoundary_pos hc hm1, h2, ?_, h1, (limitHit_first hm hc).1, (limitHit_first hm hc).2⟩
  show firstBoundary cfg.interval m < m + cfg.interval
  unfold firstBoundary
  have h4 := Nat.div_add_mod (m + cfg.interval - 1) cfg.interval
  generalize cfg.interval * ((m + cfg.interval - 1) / cfg.interval) = t at *
  omega

/-- With `max_permutations = Some(m)` a run of `Builder::check` from iteration 1 executes at
most `i₀ - 1` iterations (whatever the fuel); it cannot run out of fuel when given `i₀` units;
and if it ends because of the limit it has executed exactly `i₀ - 1` iterations, none of which
failed — the run ends between iterations with `Outcome.limit`, not with a panic. -/
theorem permutation_limit_run {prog : Prog} {m fuel : Nat} {e : Exec} {its : List Iteration}
    {o : Outcome} (hm : prog.cfg.maxPerm = some m) (hc : 1 ≤ prog.cfg.interval) (hm1 : 1 ≤ m)
    (h : Check.loop prog fuel 1 e = (its, o)) :
    let i₀ := firstBoundary prog.cfg.interval m
    its.length ≤ i₀ - 1 ∧
    (i₀ ≤ fuel → o ≠ .fuel) ∧
    (o = .limit → its.length = i₀ - 1 ∧ ∀ it ∈ its, it.result.term = none) := by
  intro i₀
  obtain ⟨h1, h2, _⟩ := loop_limit h
  obtain ⟨hhit, hfirst⟩ := limitHit_first hm hc
  have hpos : 1 ≤ i₀ := firstBoundary_pos hc hm1
  have hlen : its.length ≤ i₀ - 1 := by
    rcases Nat.lt_or_ge (i₀ - 1) its.length with hlt | hge
    · have := h1 i₀ hpos (by omega)
      rw [this] at hhit; cases hhit
    · exact hge
  refine ⟨hlen, ?_, ?_⟩
  · rintro hf rfl
    have := loop_fuel_length h
    omega
  · intro ho
    obtain ⟨h3, h4⟩ := h2 ho
    refine ⟨?_, h4⟩
    rcases Nat.lt_or_ge (1 + its.length) i₀ with hlt | hge
    · rw [hfirst _ hlt] at h3; cases h3
    · omega

/-- without `max_permutations` the loop never ends with `limit` -/
theorem no_limit_without_max {prog : Prog} {fuel i : Nat} {e : Exec} {its : List Iteration}
    {o : Outcome} (hm : prog.cfg.maxPerm = none) (h : Check.loop prog fuel i e = (its, o)) :
    o ≠ .limit := by
  rintro rfl
  have := ((loop_limit h).2.1 rfl).1
  rw [limitHit_of_none hm] at this; cases this

/-! ## 6. non-vacuity -/

namespace Ex
abbrev get {α} [Inhabited α] := @Path.Example.get α _

def seed : List ThSt := [.active, .skip]

/-- thread decision (exploring), then a spurious decision inside a `stop_exploring` region,
then a spurious decision after `explore()` -/
def p0 : Path := Path.new 4 none true
def a1 : Path := (get (p0.branchThread seed)).1
def a2 : Path := get a1.critical
def a3 : Path := (get a2.branchSpurious).1
def a4 : Path := get a3.exploreState
def q0 : Path := (get a4.branchSpurious).1
def p1 : Path := q0.step.getD default
def b1 : Path := (get (p1.branchThread seed)).1
def b2 : Path := get b1.critical
def b3 : Path := (get b2.branchSpurious).1
def b4 : Path := get b3.exploreState
def q1 : Path := (get b4.branchSpurious).1

theorem iter0 : Iter true p0 q0 :=
  .call false (fun _ => rfl) (.branchThread seed (some 0) rfl) <|
  .call false (fun _ => rfl) (.critical rfl) <|
  .call false (fun _ => rfl) (.branchSpurious false rfl) <|
  .call false (fun _ => rfl) (.exploreState rfl) <|
  .call false (fun _ => rfl) (.branchSpurious false rfl) <| .refl _

theorem iter1 : Iter true p1 q1 :=
  .call false (fun _ => rfl) (.branchThread seed (some 0) rfl) <|
  .call false (fun _ => rfl) (.critical rfl) <|
  .call false (fun _ => rfl) (.branchSpurious false rfl) <|
  .call false (fun _ => rfl) (.exploreState rfl) <|
  .call false (fun _ => rfl) (.branchSpurious true rfl) <| .refl _

/-- the complete run: the decision inside the region (position 1) is never varied, the one
outside (position 2) is -/
theorem run : Explore (Iter true) p0 [q0, q1] ∧ Finished [q0, q1] ∧
    [q0, q1].map D = [[0, 0, 0], [0, 0, 1]] ∧
    q0.branches.map Entry.exploring = [true, false, true] :=
  ⟨.next iter0 (p' := p1) rfl (.last iter1), ⟨q1, rfl, rfl⟩, rfl, rfl⟩

/-- controls: error cases of the decision table, and `skip_branch` -/
example : p0.exploreState = .error .notCritical ∧ a2.critical = .error .notExploring ∧
    p0.skipBranch.exploreState = .ok p0.skipBranch ∧
    p0.skipBranch.critical = .ok p0.skipBranch := ⟨rfl, rfl, rfl, rfl⟩

/-- limits: one branch allowed, the second decision exceeds `max_branches`; not while
panicking -/
def l0 : Path := (get ((Path.new 1 none true).branchThread seed)).1
example : l0.branchSpurious = .error .branchLimit ∧
    (∃ r, l0.branchSpurious (panicking := true) = .ok r) := ⟨rfl, _, rfl⟩

example : (Threads.new 1).newThread = .error .threadLimit ∧
    (∃ r, (Threads.new 2).newThread = .ok r) := ⟨rfl, _, rfl⟩

/-- `max_permutations = 3`, checkpoint interval 2: the first boundary is iteration 4 -/
example : firstBoundary 2 3 = 4 ∧
    (List.range 6).map (limitHit { maxPerm := some 3, interval := 2 }) =
      [false, false, false, false, true, false] := by decide

/-- a program with three executions (the third one fails), `max_permutations = 2`, checkpoint
interval 2: the run stops before iteration 2 with `Outcome.limit`, one iteration executed and
no failure reported; without the limit the failure is found -/
def prog (maxPerm : Option Nat) : Prog :=
  { cfg := { nAtomics := 1, interval := 2, maxPerm },
    threads := [[.spawn 1, .atom 0 (.load .sc), .ifEq 1 (.val 1) 1, .panic, .join 1],
                [.atom 0 (.store 1 .sc)]] }

example : firstBoundary 2 2 = 2 ∧
    (Check.run (prog (some 2)) 100).2 = .limit ∧ (Check.run (prog (some 2)) 100).1.length = 1 ∧
    (Check.run (prog none) 100).2 = .panicked .user ∧ (Check.run (prog none) 100).1.length = 3 := by
  decide +kernel

end Ex

end LoomVerif.C19

/-
Property C13: "Exploration is deterministic and resumable from a checkpoint.  Running the same
deterministic closure with the same configuration visits the same executions in the same order
every time; with a checkpoint file, a run that is stopped after k iterations and resumed
continues from the last stored checkpoint and visits exactly the executions of the
uninterrupted run from that point on, in the same order, and a stored checkpoint of a failing
iteration reproduces that failure as the first iteration after loading."

Headline theorems about the models of the checkpoint format (`LoomVerif/Model/Ckpt.lean`),
`Execution::step` (`Exec.step`) and `Builder::check` (`Check.loop`).

Conventions.  `Builder::check` stores, before iteration `i` when `storesCheckpoint cfg i`, the
path the iteration is about to start from; in a run with iteration list `its` that is
`its[i - 1].start`.  Loading is `Path.ofJson cfg.maxBranches` (`load_execution_path` followed by
`set_max_branches`).  `Check.resumed prog fuel i ck` is the run of a process that loaded the
checkpoint `ck` and numbers its iterations from `i` (`Builder::check` always starts with 1; the
numbers only enter `limitHit`/`storesCheckpoint`).  The byte level (`Json.render`, a `partial def`,
and `Json.parse`) is outside these theorems; they are about the `Json` value.
-/
import LoomVerif.Proofs.CheckLoop
import LoomVerif.Proofs.InterpMaxTh

namespace LoomVerif.C13
open LoomVerif LoomVerif.Check

/-! ## 1. the checkpoint format round-trips -/

/-- `Ckpt.roundtrip`: decoding an encoded path gives the path back, with the capacity passed
to the decoder; for every `Path`, without any representation hypothesis. -/
theorem roundtrip (p : Path) (cap : Nat) :
    Path.ofJson cap p.toJson = some { p with cap := cap } := Path.ofJson_toJson p cap

theorem roundtrip_entry (e : Entry) : Entry.ofJson e.toJson = some e := Entry.ofJson_toJson e

/-- when the decoder is given the capacity the path already has, the path itself comes back -/
theorem roundtrip_same_cap (p : Path) : Path.ofJson p.cap p.toJson = some p := by
  rw [roundtrip]

/-! ## 2. an iteration depends on the path only -/

/-- `Exec.step_resets`: `Execution::step` keeps `max_threads`, steps the path and resets
everything else to the state `Execution::new` creates. -/
theorem step_resets {e e' : Exec} (h : e.step = some e') :
    e.path.step = some e'.path ∧ e'.threads = Threads.new e.maxThreads ∧ e'.objs = [] ∧
      e'.lazyStatics = some [] ∧ e'.maxThreads = e.maxThreads ∧
      e' = freshE e.maxThreads e'.path := Check.step_resets h

theorem step_none_iff (e : Exec) : e.step = none ↔ e.path.step = none := by
  rw [Check.step_eq]; simp

/-- the execution `Builder::check` starts with has the same shape -/
theorem initExec_shape (c : Cfg) :
    initExec c = freshE c.maxThreads (Path.new c.maxBranches c.bound (!c.explicit)) ∧
    ∀ p, { initExec c with path := p } = freshE c.maxThreads p := ⟨rfl, fun _ => rfl⟩

/-- the interpreter changes neither `max_threads` nor the capacity of the branch vector
(`LoomVerif/Proofs/InterpMaxTh.lean`) -/
theorem keepsCfg (prog : Prog) : KeepsCfg prog :=
  fun e => ⟨runIter_maxThreads prog e _, runIter_cap prog e _⟩

/-- `Exec.run_depends_on_path_only`: in a run of `Builder::check` every iteration starts from
the fresh execution that carries the iteration's start path, so its result is a function of
the program and that path alone; and the capacity of the path is `max_branches` throughout. -/
theorem run_depends_on_path_only {prog : Prog} {fuel : Nat} {its : List Iteration} {o : Outcome}
    (h : Check.loop prog fuel 1 (initExec prog.cfg) = (its, o)) (k : Nat) (hk : k < its.length) :
    its[k].result = runIter prog (freshE prog.cfg.maxThreads its[k].start) ∧
    its[k].idx = k + 1 ∧ its[k].start.cap = prog.cfg.maxBranches := by
  obtain ⟨h1, h2⟩ := loop_drop (keepsCfg prog) h k hk
  rw [List.drop_eq_getElem_cons hk] at h1
  have := loop_head h1
  rw [this]
  exact ⟨rfl, by simp [iterOf]; omega, h2⟩

/-! ## 3. resuming from a checkpoint -/

/-- the run from iteration number `i` with a fresh execution that carries the path `p` -/
def loopFrom (prog : Prog) (fuel i : Nat) (p : Path) : List Iteration × Outcome :=
  Check.loop prog fuel i { initExec prog.cfg with path := p }

/-- the run of a process that loaded the checkpoint `ck` -/
def resumed (prog : Prog) (fuel i : Nat) (ck : Json) : Option (List Iteration × Outcome) :=
  (Path.ofJson prog.cfg.maxBranches ck).map (loopFrom prog fuel i)

/-- the uninterrupted run, restarted at any of its iterations, is its own suffix -/
theorem loopFrom_suffix {prog : Prog} {fuel : Nat} {its : List Iteration} {o : Outcome}
    (h : Check.loop prog fuel 1 (initExec prog.cfg) = (its, o)) (k : Nat) (hk : k < its.length) :
    loopFrom prog (fuel - k) (k + 1) its[k].start = (its.drop k, o) := by
  have := (loop_drop (keepsCfg prog) h k hk).1
  rw [Nat.add_comm 1 k] at this
  exact this

/-- `Check.resume_suffix`, same iteration numbering: the checkpoint of the path at the start of
iteration `k + 1`, decoded and run with the iteration counter at `k + 1`, produces exactly the
iterations `k + 1, k + 2, …` of the uninterrupted run, in the same order, with the same outcome;
with the fuel that is left, and (unless the uninterrupted run ran out of fuel) with any larger
amount. -/
theorem resume_suffix {prog : Prog} {fuel : Nat} {its : List Iteration} {o : Outcome}
    (h : Check.loop prog fuel 1 (initExec prog.cfg) = (its, o)) (k : Nat) (hk : k < its.length) :
    Path.ofJson prog.cfg.maxBranches its[k].start.toJson = some its[k].start ∧
    resumed prog (fuel - k) (k + 1) its[k].start.toJson = some (its.drop k, o) ∧
    (o ≠ .fuel → ∀ fuel', fuel - k ≤ fuel' →
      resumed prog fuel' (k + 1) its[k].start.toJson = some (its.drop k, o)) := by
  have hcap := (run_depends_on_path_only h k hk).2.2
  have hdec : Path.ofJson prog.cfg.maxBranches its[k].start.toJson = some its[k].start := by
    rw [← hcap]; exact roundtrip_same_cap _
  have hs := loopFrom_suffix h k hk
  refine ⟨hdec, ?_, ?_⟩
  · simp only [resumed, hdec, Option.map_some, hs]
  · intro ho fuel' hf
    simp only [resumed, hdec, Option.map_some]
    exact congrArg some (loop_fuel_mono hs ho fuel' hf)

/-- `Check.resume_suffix`, as loom does it: the resumed process numbers its iterations from 1
again.  Without `max_permutations` the numbers have no influence: the resumed run visits the
same start paths with the same results in the same order (`Iteration.body` drops `idx`) and
ends with the same outcome. -/
theorem resume_suffix_renumbered {prog : Prog} {fuel : Nat} {its : List Iteration} {o : Outcome}
    (hm : prog.cfg.maxPerm = none)
    (h : Check.loop prog fuel 1 (initExec prog.cfg) = (its, o)) (k : Nat) (hk : k < its.length) :
    ∃ its', resumed prog (fuel - k) 1 its[k].start.toJson = some (its', o) ∧
      its'.map Iteration.body = (its.drop k).map Iteration.body ∧
      (∀ n (hn : n < its'.length), its'[n].idx = n + 1) := by
  obtain ⟨hdec, _, _⟩ := resume_suffix h k hk
  obtain ⟨its', h1, h2⟩ := loop_renumber hm 1 (loopFrom_suffix h k hk)
  refine ⟨its', ?_, h2, ?_⟩
  · simp only [resumed, hdec, Option.map_some]; exact congrArg some h1
  · intro n hn
    have := (loop_limit h1).2.2 n hn
    omega

/-! ## 4. the checkpoint of a failing iteration reproduces the failure -/

/-- `Check.failing_checkpoint_reproduces`: if iteration `k + 1` of the uninterrupted run
panics with `p` (it is the last iteration and the outcome is `panicked p`), the run resumed
from the checkpoint of its start path consists of exactly that iteration — same start, same
result, which is the panic `p` — and ends with `panicked p`; with the original numbering and,
whenever the loop does not stop before its first iteration (e.g. `max_permutations = None`,
or a checkpoint interval above 1), with the numbering from 1. -/
theorem failing_checkpoint_reproduces {prog : Prog} {fuel : Nat} {its : List Iteration}
    {p : Panic} (h : Check.loop prog fuel 1 (initExec prog.cfg) = (its, .panicked p))
    (k : Nat) (hk : its.length = k + 1) :
    (its[k]'(by omega)).result.term = some p ∧
    resumed prog (fuel - k) (k + 1) (its[k]'(by omega)).start.toJson =
      some ([its[k]'(by omega)], .panicked p) ∧
    (limitHit prog.cfg 1 = false → ∀ fuel',
      ∃ it, resumed prog (fuel' + 1) 1 (its[k]'(by omega)).start.toJson =
          some ([it], .panicked p) ∧
        it.idx = 1 ∧ it.start = (its[k]'(by omega)).start ∧
        it.result = (its[k]'(by omega)).result) := by
  have hlt : k < its.length := by omega
  obtain ⟨hdec, hres, _⟩ := resume_suffix h k hlt
  have hdrop : its.drop k = [its[k]] := by
    rw [List.drop_eq_getElem_cons hlt, List.drop_of_length_le (by omega)]
  rw [hdrop] at hres
  have hs := loopFrom_suffix h k hlt
  rw [hdrop] at hs
  obtain ⟨hit, hterm⟩ := loop_single_panicked hs
  refine ⟨?_, hres, ?_⟩
  · rw [hit]; exact hterm
  · intro hl fuel'
    refine ⟨iterOf prog 1 (freshE prog.cfg.maxThreads its[k].start), ?_, rfl, rfl, ?_⟩
    · simp only [resumed, hdec, Option.map_some]
      exact congrArg some (loop_of_panicked hl hterm)
    · rw [hit]; rfl

/-! ## 5. checkpoint cadence -/

/-- `Check.checkpoint_cadence`: a checkpoint is stored before iteration `i` iff `i` is a
multiple of the checkpoint interval (the same test that guards the permutation limit). -/
theorem checkpoint_cadence (c : Cfg) (i : Nat) :
    storesCheckpoint c i = true ↔ i % c.interval = 0 := storesCheckpoint_iff c i

theorem limit_only_at_checkpoint (c : Cfg) (i : Nat) (h : limitHit c i = true) :
    storesCheckpoint c i = true := by
  rw [checkpoint_cadence]; exact ((limitHit_iff c i).1 h).1

/-! ## 6. determinism -/

/-- `Check.deterministic`: `Check.run` is a function of the program (closure and
configuration): two runs with equal inputs have equal outputs — in particular the same
executions in the same order.  (Trivial in a functional model; the content is that the model
has no hidden input: no clock, no randomness, no global state.) -/
theorem deterministic (prog₁ prog₂ : Prog) (fuel₁ fuel₂ : Nat) (h1 : prog₁ = prog₂)
    (h2 : fuel₁ = fuel₂) : Check.run prog₁ fuel₁ = Check.run prog₂ fuel₂ := by
  subst h1 h2; rfl

/-! ## 7. non-vacuity -/

namespace Ex

/-- main spawns a thread that stores 1, loads the atomic and panics if it reads 1 -/
def prog : Prog :=
  { cfg := { nAtomics := 1, interval := 2 },
    threads := [[.spawn 1, .atom 0 (.load .sc), .ifEq 1 (.val 1) 1, .panic, .join 1],
                [.atom 0 (.store 1 .sc)]] }

/-- what we look at: number, length of the start path, verdict -/
def obs (it : Iteration) : Nat × Nat × Option Panic :=
  (it.idx, it.start.branches.length, it.result.term)

/-- the uninterrupted run: the third iteration fails -/
theorem run_obs : (Check.run prog 100).1.map obs = [(1, 0, none), (2, 1, none), (3, 5, some .user)] ∧
    (Check.run prog 100).2 = .panicked .user := by decide +kernel

/-- a checkpoint is stored before iteration 2 (interval 2); the process resumed from it
(numbering from 1) visits iterations 2 and 3 of the uninterrupted run -/
example : storesCheckpoint prog.cfg 2 = true ∧
    (resumed prog 100 1 ((Check.run prog 100).1[1]!.start.toJson)).map
        (fun r => (r.1.map obs, r.2)) =
      some ([(1, 1, none), (2, 5, some .user)], .panicked .user) := by decide +kernel

/-- the checkpoint of the failing iteration reproduces the failure at once -/
example : (resumed prog 100 1 ((Check.run prog 100).1[2]!.start.toJson)).map
        (fun r => (r.1.map obs, r.2)) =
      some ([(1, 5, some .user)], .panicked .user) := by decide +kernel

/-- a stack with all three kinds of entries -/
def sample : Path where
  bound := some 2
  pos := 1
  cap := 7
  exploring := true
  skipping := false
  exploringOnStart := true
  branches := [
    .sched { preemptions := 0, initialActive := some 0,
             threads := [.active, .pending, .disabled, .disabled, .disabled],
             prev := none, exploring := true },
    .load { values := [0, 1, 0, 0, 0, 0, 0], pos := 1, len := 2, exploring := false },
    .spur { spur := true, exploring := true }]

example : Path.ofJson 7 sample.toJson = some sample := by decide +kernel

end Ex

end LoomVerif.C13

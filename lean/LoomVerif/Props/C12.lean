/-
C12 — "Loom atomics compute the same values as std atomics."

Headline theorems only.  The model is `Model/{VV,Threads,Atomic,Num,AtomicApi,AtomicRun}.lean`,
the reference semantics is `Spec/StdAtomic.lean`, the proofs are in `Proofs/C12*.lean`.
-/
import LoomVerif.Proofs.C12Refine

namespace LoomVerif
open C12

/-! ## a. `Numeric` round trips -/

/-- `T::from_u64(v.into_u64()) == v` for every loom atomic type (integers of all widths, signed
and unsigned, `bool`, pointers) and every value of the type. -/
theorem Num.roundtrip :
    ∀ (t : ATy) (v : Int), t.inRange v = true → t.fromU64 (t.intoU64 v) = v :=
  C12.roundtrip

/-- `into_u64` produces a `u64`. -/
theorem Num.intoU64_lt : ∀ (t : ATy) (v : Int), t.intoU64 v < 2 ^ 64 :=
  C12.intoU64_lt

/-- `from_u64` produces a value of the type, whatever the `u64`. -/
theorem Num.fromU64_inRange : ∀ (t : ATy) (u : Nat), t.inRange (t.fromU64 u) = true :=
  C12.fromU64_inRange

/-! ## b. the typed closures stay in range and compute the std operations -/

/-- The closure handed to `rt::Atomic::rmw` (swap, compare_exchange, fetch_add … fetch_min)
maps values of the type to values of the type. -/
theorem RmwFn.apply_inRange :
    ∀ (t : ATy) (f : RmwFn) (prev next : Int), t.inRange prev = true →
      f.operandsInRange t = true → f.apply t prev = some next → t.inRange next = true :=
  C12.rmw_apply_inRange

/-- The `fetch_update` closures of the DSL produce values of the type. -/
theorem FupdFn.apply_inRange :
    ∀ (t : ATy) (f : FupdFn) (prev next : Int), f.apply t prev = some next →
      t.inRange next = true :=
  C12.fupd_apply_inRange

/-- Every `fetch_*` closure of the model computes the machine-word operation of the reference
semantics (`BitVec t.bits` arithmetic / bitwise operations, typed `max`/`min`) — for all operand
values, overflow and sign boundaries included. -/
theorem RmwFn.apply_eq_std :
    ∀ (t : ATy) (f : RmwFn) (c : Int), f.isFetchOf t = true →
      f.apply t c = some (Std.fetchNew t f c) :=
  C12.apply_eq_fetchNew

/-! ## c. in a single thread only the latest store can be read -/

/-- The single-thread invariant, spelled out.  `L = index (cnt - 1)` is the slot of the latest
store, `c = ths.caus` the causality of the only thread. -/
theorem SingleInv_spelled_out (a : Atomic) (ths : Threads) :
    SingleInv a ths ↔
      -- one thread, which is active
      (ths.threads.length = 1 ∧ ths.active = some 0) ∧
      -- the ring
      (a.stores.length = NH ∧ 0 < a.cnt ∧
        -- every slot's modification-order clock is below the thread's causality
        (∀ i, i < NH → (a.storeAt i).mo.le ths.caus) ∧
        -- the latest store is strictly above every other real slot
        (∀ i, i < NH → i < a.cnt → i ≠ Atomic.index (a.cnt - 1) →
          (a.storeAt i).mo.blt (a.storeAt (Atomic.index (a.cnt - 1))).mo = true) ∧
        -- real slots have pairwise distinct clocks
        (∀ i j, i < NH → j < NH → i < a.cnt → j < a.cnt → i ≠ j →
          (a.storeAt i).mo ≠ (a.storeAt j).mo) ∧
        -- the thread has seen the latest store
        (∃ v, (a.storeAt (Atomic.index (a.cnt - 1))).firstSeen.getD 0 none = some v ∧
          v ≤ ths.caus.get 0)) ∧
      -- race tracking
      (a.isMutating = false ∧ a.loadedAt.le ths.caus ∧ a.unsyncLoadedAt.le ths.caus ∧
        a.storedAt.le ths.caus ∧ a.unsyncMutAt.le ths.caus) := by
  constructor
  · rintro ⟨h1, ⟨r1, r2, r3, r4, r5, r6⟩, ⟨c1, c2, c3, c4, c5⟩⟩
    exact ⟨h1, ⟨r1, r2, r3, r4, r5, r6⟩, ⟨c1, c2, c3, c4, c5⟩⟩
  · rintro ⟨h1, ⟨r1, r2, r3, r4, r5, r6⟩, ⟨c1, c2, c3, c4, c5⟩⟩
    exact ⟨h1, ⟨r1, r2, r3, r4, r5, r6⟩, ⟨c1, c2, c3, c4, c5⟩⟩

/-- the states reachable by single-thread histories: creation by `Atomic::new` in a fresh
execution, then any primitive, any candidate store the model offers -/
inductive SingleReach (t : ATy) : Atomic → Threads → Prop
  | new (u : Nat) (a : Atomic) :
      Atomic.new (Threads.new 5) u = .ok a → SingleReach t a (Threads.new 5)
  | prim (a : Atomic) (ths : Threads) (p : Prim) (outs : List (Atomic × Threads × Ret))
      (a' : Atomic) (ths' : Threads) (r : Ret) :
      SingleReach t a ths → p.runAll t a ths = .ok outs → (a', ths', r) ∈ outs →
      SingleReach t a' ths'

/-- `Atomic::new` establishes the invariant (and cannot panic). -/
theorem SingleInv_creation :
    ∀ u : Nat, ∃ a, Atomic.new (Threads.new 5) u = .ok a ∧ SingleInv a (Threads.new 5) ∧
      a.latestValue = u :=
  C12.creation

/-- Every primitive (`rt::synchronize`'s clock increment included) preserves the invariant, has
exactly one outcome, raises no panic, and acts on the latest value as `primAbs` says. -/
theorem SingleInv_preserved :
    ∀ (t : ATy) {a : Atomic} {ths : Threads}, SingleInv a ths → ∀ p : Prim,
      ∃ a' ths', p.runAll t a ths = .ok [(a', ths', (primAbs t a.latestValue p).2)] ∧
        SingleInv a' ths' ∧ a'.latestValue = (primAbs t a.latestValue p).1 :=
  fun t _ _ h p => C12.prim_single t h p

/-- Every state reachable by a single-thread history satisfies the invariant — whatever the
number of stores, i.e. also after the ring of 7 slots wrapped. -/
theorem SingleReach.inv {t : ATy} {a : Atomic} {ths : Threads} (h : SingleReach t a ths) :
    SingleInv a ths := by
  induction h with
  | new u a hnew =>
    obtain ⟨a', h', hi, _⟩ := C12.creation u
    rw [hnew] at h'
    cases h'
    exact hi
  | prim a ths p outs a' ths' r _ hrun hmem ih =>
    obtain ⟨a'', ths'', h', hi, _⟩ := C12.prim_single t ih p
    rw [hrun] at h'
    cases h'
    rw [List.mem_singleton] at hmem
    cases hmem
    exact hi

/-- In the invariant — before or after the clock increment of `rt::synchronize` — a load of any
ordering and an RMW may read exactly the latest store, no `assert_ne!` fires, and none of the
race checks raises a (causality or `with_mut`) panic. -/
theorem Atomic.single_thread_latest {a : Atomic} {ths : Threads} (h : SingleInv a ths) :
    ∀ ths' : Threads, ths' = ths ∨ ths' = ths.activeCausalityInc →
      (∀ o : Ord, a.matchLoadToStores ths' o = .ok [Atomic.index (a.cnt - 1)]) ∧
      a.matchRmwToStores = .ok [Atomic.index (a.cnt - 1)] ∧
      (∃ a', a.trackLoad ths' = .ok a') ∧ (∃ a', a.trackStore ths' = .ok a') ∧
      (∃ a', a.trackUnsyncLoad ths' = .ok a') ∧ (∃ a', a.trackUnsyncMut ths' = .ok a') := by
  intro ths' hths'
  have h' : SingleInv a ths' := by
    rcases hths' with e | e
    · exact e ▸ h
    · exact e ▸ h.inc
  obtain ⟨_, hr, hc⟩ := h'
  exact ⟨fun o => hr.matchLoad o, hr.matchRmw, ⟨_, trackLoad_ok hc⟩, ⟨_, trackStore_ok hc⟩,
    ⟨_, trackUnsyncLoad_ok hc⟩, ⟨_, trackUnsyncMut_ok hc⟩⟩

/-- … hence in every state reachable by a single-thread history. -/
theorem Atomic.single_thread_latest_reachable {t : ATy} {a : Atomic} {ths : Threads}
    (h : SingleReach t a ths) (o : Ord) :
    a.matchLoadToStores ths.activeCausalityInc o = .ok [Atomic.index (a.cnt - 1)] ∧
      a.matchRmwToStores = .ok [Atomic.index (a.cnt - 1)] :=
  let r := Atomic.single_thread_latest h.inv ths.activeCausalityInc (Or.inr rfl)
  ⟨r.1 o, r.2.1⟩

/-! ## d. refinement of the std reference semantics -/

/-- One API call, from any state of the invariant whose latest store holds `into_u64` of the std
content `c`: with ANY fuel `n + 2 ≥ 2` the call has exactly one outcome (in particular
`fetch_update` never exhausts its fuel in a single thread: one load, one successful CAS), it
returns what std returns, and the latest store holds `into_u64` of std's new content. -/
theorem C12_op_refines_std (n : Nat) (t : ATy) {a : Atomic} {ths : Threads} {c : Int} (op : AOp) :
    SingleInv a ths → a.latestValue = t.intoU64 c → t.inRange c = true →
    op.operandsOk t = true →
    ∃ a' ths', op.runFrom t (n + 2) a ths op.first = .ok [(a', ths', (Std.step t c op).2)] ∧
      SingleInv a' ths' ∧ a'.latestValue = t.intoU64 (Std.step t c op).1 ∧
      t.inRange (Std.step t c op).1 = true :=
  fun h hv hc hop => C12.op_single n t h ⟨hv, hc⟩ op hop

/-- **C12.**  For every loom atomic type, every initial value of the type and every sequence of
valid API calls by one thread (operands of the type, operations the type has, orderings std
accepts), the model checker sees exactly one outcome, and its returned values and final content
are those of the std atomic. -/
theorem C12_refines_std :
    ∀ (t : ATy) (init : Int) (ops : List AOp), t.inRange init = true →
      (∀ op ∈ ops, op.valid t = true) →
      atomicRunAll t init ops = .ok [Std.run t init ops] := by
  intro t init ops hinit hops
  refine C12.run_refines t init ops hinit (fun op hop => ?_)
  have := hops op hop
  simp only [AOp.valid, Bool.and_eq_true] at this
  exact this.1

/-- The same for ALL orderings, including those std rejects with a panic (`load(Release)`,
`store(Acquire)`, …): loom accepts them silently and still computes std's values. -/
theorem C12_refines_std_any_ordering :
    ∀ (t : ATy) (init : Int) (ops : List AOp), t.inRange init = true →
      (∀ op ∈ ops, op.operandsOk t = true) →
      atomicRunAll t init ops = .ok [Std.run t init ops] :=
  C12.run_refines

/-! ## e. non-vacuity -/

section NonVacuity

local instance {ε α : Type} [DecidableEq ε] [DecidableEq α] : DecidableEq (Except ε α)
  | .ok a, .ok b =>
    if h : a = b then isTrue (h ▸ rfl) else isFalse (fun e => h (Except.ok.inj e))
  | .error a, .error b =>
    if h : a = b then isTrue (h ▸ rfl) else isFalse (fun e => h (Except.error.inj e))
  | .ok _, .error _ => isFalse (fun e => nomatch e)
  | .error _, .ok _ => isFalse (fun e => nomatch e)

/-- an `AtomicI8` crossing the sign boundary in both directions, 12 stores (the ring of 7 wraps),
every kind of operation -/
def demoOps : List AOp :=
  [.fetch (.add 100) .sc, .fetch (.add 100) .rlx, .load .acq, .store (-128) .rel,
   .fetch (.sub 1) .ar, .swap 5 .sc, .cas 5 (-1) .sc .rlx, .cas 5 7 .ar .acq,
   .cswp (-1) 3 .rel, .fupd (.add 126) .sc .sc, .fetch (.nand 3) .sc, .fetch (.max 4) .sc,
   .fetch (.min (-128)) .rel, .fetch (.or 64) .acq, .fetch (.and 127) .rlx,
   .fetch (.xor (-1)) .rlx, .withMut 9, .unsyncLoad, .fupd (.addIfLt 1 9) .sc .rlx,
   .fupd .none .sc .rlx, .load .sc]

/-- the expected outcome, written out -/
def demoOutcome : List Ret × Int :=
  ([.val 27, .val 127, .val (-29), .unit, .val (-128), .val 127, .ok 5, .err (-1), .val (-1),
    .ok 3, .val (-127), .val (-2), .val 4, .val (-128), .val (-64), .val 64, .val (-65),
    .val 9, .err 9, .err 9, .val 9], 9)

theorem C12_demo_valid : ATy.i8.inRange 27 = true ∧ ∀ op ∈ demoOps, op.valid .i8 = true := by
  decide

/-- the reference semantics, evaluated -/
theorem C12_demo_std : Std.run .i8 27 demoOps = demoOutcome := by decide

/-- the loom model, evaluated by the kernel (all candidate stores explored): one outcome -/
theorem C12_demo_loom : atomicRunAll .i8 27 demoOps = .ok [demoOutcome] := by decide +kernel

/-- `AtomicBool` and `AtomicPtr`/`AtomicU64` at the top of the range -/
example : atomicRunAll .bool 1 [.fetch (.nand 1) .sc, .fetch (.xor 1) .rlx, .swap 1 .ar,
      .cas 1 0 .sc .sc, .load .sc]
    = .ok [([.val 1, .val 0, .val 1, .ok 1, .val 0], 0)] := by decide +kernel

example : atomicRunAll .u64 18446744073709551615 [.fetch (.add 2) .sc, .fetch (.sub 3) .sc,
      .fetch (.max 5) .rlx, .load .sc]
    = .ok [([.val 18446744073709551615, .val 1, .val 18446744073709551614,
        .val 18446744073709551614], 18446744073709551614)] := by decide +kernel

end NonVacuity

end LoomVerif

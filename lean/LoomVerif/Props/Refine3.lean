/-
REFINEMENT of the reference interleaving semantics by the twin, for the RESOURCE fragment of the DSL
(properties C10 "leaks are reported exactly" and C11 "loom's Arc behaves like a reference count").

Every run of the twin (`World.runLoop` from `World.init`) that ends without a panic is, operation by operation, an
execution of the reference semantics `Spec/SC.lean` as far as VALUES, BLOCKING and RESOURCES are concerned: the
results the twin records (`World.complete`: the `(thread, pc, result)` triples of `World.events`) — in particular
what `arcCount`, `arcGetMut`, `arcUnwrap`, `arcPtrEq`, `arcDrop`, `arcDec` return — are exactly, and in the same
order, the results of a run of the reference each of whose steps is a step of a thread ENABLED in the reference
state; the handle table, the per-Arc counts and the `Track` / allocation flags of the final world are those of the
reference end state (`R3`), and `check_for_leaks` on the final object store fails exactly when the reference end state
leaks (`SC.leaks`), with `leakArc` / `leakAlloc` naming the kind.  Data-race verdicts are outside this statement, as
are the runs in which the twin panics.

Fragment (operations covered, each at full strength): the lock fragment (`spawn`, `join`, `lock`, `unlock`,
`tryLock`, `cellRead`, `cellWrite`, `ifEq`, the end of a thread), the whole Arc API of the DSL (`arcNew`,
`arcClone`, `arcDrop`, `arcCount`, `arcGetMut`, `arcUnwrap`, `arcIntoRaw`, `arcFromRaw`, `arcInc`, `arcDec`,
`arcPtrEq`) and `trackNew`, `trackDrop`, `alloc`, `dealloc`.

The data projection `SCData3` (`Proofs/Refine3Data.lean`) is `Refine.SCData` plus the Arc counts (`SC.St.arcs`
without the release clocks), `handles` and `tracks`.  An Arc operation on an unknown handle and a decrement of a
count 0 have no successor in the data semantics (the reference stops with a `misuse` verdict; the twin panics).

Hypotheses, all explicit and decidable / computable:
* `Refine3.WF3 prog` (decidable; `Proofs/Refine3Data.lean`): a main body; only fragment operations, with declared
  cells / mutexes and `spawn t` naming an existing body `0 < t`; each body spawned by at most one operation of the
  text; `Track` slots and raw-allocation slots are disjoint (`SlotsDisjoint`: the reference keeps ONE table `tracks`
  for `trackNew/trackDrop` and `alloc/dealloc`, the twin two; `Counter.slots_shared`).
  NOT needed (the twin panics, outside the statement): a handle is used only after its creation and not after its
  `arcDrop` / successful `arcUnwrap` (`.internal 70`, the reference: `misuse 4`); no decrement of a count 0
  ("Arc is already released", the reference: `misuse 2`); `trackDrop` / `dealloc` only of a live slot; no `alloc`
  into a live slot; handles may be shared between threads, overwritten (the old Arc then leaks on both sides), and
  used after `arcIntoRaw` (a no-op on both sides).
* `Refine.FreshExec exec`: the thread table of the start of an iteration (`Exec.new`, `Exec.step`).  Any path.
* `Refine3.okRun3 fuel w0 = true` (computable by running the twin): at every step of the run `resumeOk3` holds:
  - the second half of `arcUnwrap h` finds the count still 1.  loom's `Arc::try_unwrap` is `get_mut` (a branch point,
    then the test `count == 1`), then `ref_dec` at a SECOND branch point; the reference does both in one step.  With
    the DSL's global handle names another thread can clone the Arc in between; the twin then returns `Ok` and
    decrements, the reference returns `Err`: `Counter.unwrap_window` (a run that completes without a panic whose
    event log is not the trace of any reference run: `Counter.unwrap_window_not_reference`).  (In Rust the handle is
    moved into `try_unwrap`: with count 1 no other thread can reach the Arc.)
  - `trackNew k` does not overwrite a `Track` that has not been dropped: the reference forgets the old value, the
    twin keeps its allocation object and reports it as leaked: `Counter.track_overwrite`.

Headlines: `Refine3.step_simulation`, `Refine3.run_is_reference_execution`,
`Refine3.runIter_is_reference_execution`, `Refine3.run_is_SC_execution`, `Refine3.related_resources`,
`Refine3.leak_reported_iff_data_leaks`, `Refine3.leak_reported_iff_reference_leaks`,
`Refine3.leak_reported_iff_reference_leaks_nocell`, `Refine3.runIter_leak_iff_reference_leaks`; the data projection:
`Refine3.enabled_data`, `Refine3.step_lift`, `Refine3.label_is_recorded_result`, `Refine3.leaks_data`.

NOT proved: that the reference end state is a FINAL state (`SC.allDone`: every started thread finished), hence the
statement is about `SC.leaks`, not about `SC.finalVerdict = .leak`.
-/
import LoomVerif.Proofs.Refine3Leak
import LoomVerif.Proofs.Refine3Check
import LoomVerif.Proofs.C10NoLeak
import LoomVerif.Model.Check

namespace LoomVerif
namespace Refine3
open Refine

/-! ## 1. the data-only projection of the reference -/

/-- `SC.enabled` only reads the data -/
theorem enabled_data {p : Prog} {s : SC.St} {t : Nat} (hv : s.verdict = none) (hf : FragTh (s.th t))
    (hop : ∀ op, SC.opOf p s t = some op → isFrag3 op = true) :
    SC.enabled p s t = SCData3.enabled p (data3 s) t :=
  enabled_data3 hv hf hop

/-- every step of the data semantics from the data of a reference state (no verdict yet) is the data of a step of
`SC.step` of the same thread, unless that step stops with a data-race verdict -/
theorem step_lift {p : Prog} {s : SC.St} {t : Nat} {l : Option (Nat × Ret)} {d' : SCData3}
    (hs : FragSt3 s) (h : (l, d') ∈ SCData3.stepL p (data3 s) t) :
    ∃ s', s' ∈ SC.step p s t ∧ ((FragSt3 s' ∧ data3 s' = d') ∨ ∃ k, s'.verdict = some (.race k)) :=
  step_lift3 hs h

/-- the label of a step of `SCData3.stepL` is the `(pc, result)` the step records in the thread's `rets` -/
theorem label_is_recorded_result {p : Prog} {d d' : SCData3} {t pc : Nat} {r : Ret}
    (ht : t < d.ths.length) (h : (some (pc, r), d') ∈ SCData3.stepL p d t) :
    pc = (d.th t).pc ∧ (d'.th t).rets = (pc, r) :: (d.th t).rets ∧ (d'.th t).pc = pc + 1 :=
  stepL_label3 ht h

/-- on the states of resource programs (`FragSt3`: no live waker, no channel message) `SC.leaks` is
`SCData3.leaks` of the data: an Arc with a count ≠ 0 or a slot of `tracks` that is not dropped -/
theorem leaks_data {s : SC.St} (hs : FragSt3 s) :
    SC.leaks s = (data3 s).leaks ∧
    (data3 s).leaks = (s.arcs.any (·.1 != 0) || s.tracks.any (!·.2)) := by
  refine ⟨leaks_data3 hs.2, ?_⟩
  simp only [SCData3.leaks, data3, List.any_map]
  rfl

/-! ## 2. one-step simulation -/

/-- **One-step simulation.**  `w` is related to the reference data `s`, its active thread exists and `resumeOk3`
holds; one stage of that thread succeeds.  Then the program is kept, the new active thread (if any) is in the thread
table, and

* either `w'` is related to the same `s` and logs nothing (a stuttering step: the branch point of an operation —
  `arcClone`, `arcDrop`, … branch on the Arc object with `RefInc` / `RefDec` / `Inspect` —, the successful
  uniqueness test of `arcUnwrap`, blocking, scheduling, the epilogue stages around the notification),
* or `w'` is related to a successor `s'` of `s` by a step of the body `t` the active thread runs — a step of
  `SCData3.stepL` (`SC.step`) ENABLED in `s` — and what the twin logs (`complete r`) is exactly the label of that
  step: the `(pc, r)` the reference step records (`label_is_recorded_result`). -/
theorem step_simulation {w w' : World} {s : SCData3} (hwf : WF3 w.prog) (hR : R3 w s)
    (hact : w.tid < w.ctl.length) (hok : resumeOk3 w = true) (h : w.stepActive = .ok w') :
    (w'.prog = w.prog ∧
     ((R3 w' s ∧ w'.events = w.events) ∨
      ∃ l s', SCData3.enabled w.prog s (w.ctlOf w.tid).body = true ∧
        (l, s') ∈ SCData3.stepL w.prog s (w.ctlOf w.tid).body ∧ R3 w' s' ∧
        w'.events.map triple = SCData.label (w.ctlOf w.tid).body l ++ w.events.map triple)) ∧
    InRange w' :=
  step_sim3 hwf hR hact hok h

/-! ## 3. runs -/

/-- the initial world is related to the initial reference state -/
theorem init_related {prog : Prog} {exec : Exec} {w0 : World} (hwf : WF3 prog) (hfresh : FreshExec exec)
    (hinit : World.init prog exec = .ok w0) : R3 w0 (data3 (SC.init prog)) :=
  (init_R3 hwf hfresh hinit).1

/-- **Every complete run of the twin is an execution of the reference.**  From ANY execution record with a fresh
thread table (any path to replay, hence any schedule), if the run of the twin ends without a panic and satisfies
`okRun3`, then there is a run of the data semantics from the initial reference state — each step a step of a thread
enabled in the reference state — whose trace of recorded `(thread, pc, result)` triples is exactly the event log of
the twin, in order, and whose final state is related to the final world. -/
theorem run_is_reference_execution {prog : Prog} {exec : Exec} {w0 w : World} {fuel : Nat}
    (hwf : WF3 prog) (hfresh : FreshExec exec) (hinit : World.init prog exec = .ok w0)
    (hok : okRun3 fuel w0 = true) (hrun : World.runLoop fuel w0 = (w, none)) :
    ∃ s, SCData3.Run prog (data3 (SC.init prog)) (w.events.reverse.map triple) s ∧ R3 w s := by
  obtain ⟨hR, hp, hev⟩ := init_R3 hwf hfresh hinit
  obtain ⟨s, h1, h2, _⟩ := runLoop_sim3 prog (data3 (SC.init prog)) hwf fuel w0 w _ hp hR
    (init_inRange hfresh hinit) (by rw [hev]; exact SCData3.Run.nil _) hok hrun
  exact ⟨s, h1, h2⟩

/-- `okRun3` for `runIter` -/
def okIter3 (prog : Prog) (exec : Exec) (fuel : Nat := 200000) : Bool :=
  match World.init prog exec with
  | .ok w0 => okRun3 fuel w0
  | .error _ => false

/-- the same for `runIter`: the events it reports are the trace of a reference run -/
theorem runIter_is_reference_execution {prog : Prog} {exec : Exec} {fuel : Nat}
    (hwf : WF3 prog) (hfresh : FreshExec exec) (hok : okIter3 prog exec fuel = true)
    (hterm : (runIter prog exec fuel).term = none) :
    ∃ s, SCData3.Run prog (data3 (SC.init prog)) ((runIter prog exec fuel).events.map triple) s := by
  unfold runIter at hterm ⊢
  unfold okIter3 at hok
  cases hi : World.init prog exec with
  | error e => rw [hi] at hterm; cases hterm
  | ok w0 =>
    rw [hi] at hterm hok
    simp only at hterm hok ⊢
    cases hr : World.runLoop fuel w0 with
    | mk w r =>
      rw [hr] at hterm
      cases r with
      | some e => cases hterm
      | none =>
        obtain ⟨s, h1, _⟩ := run_is_reference_execution hwf hfresh hi hok hr
        simp only
        refine ⟨s, ?_⟩
        split <;> exact h1

/-- … and hence an execution of `Spec/SC.lean` itself (`SCExec`: every step is `SC.step` of a thread that is
`SC.enabled`), with clocks: there is a reference execution from `SC.init prog` that either ends in a state whose
data is related to the final world of the twin (and the twin's event log is the trace of the corresponding data
run), or — a prefix of the run — ends in a data-race verdict. -/
theorem run_is_SC_execution {prog : Prog} {exec : Exec} {w0 w : World} {fuel : Nat}
    (hwf : WF3 prog) (hfresh : FreshExec exec) (hinit : World.init prog exec = .ok w0)
    (hok : okRun3 fuel w0 = true) (hrun : World.runLoop fuel w0 = (w, none)) :
    ∃ s, SCExec prog (SC.init prog) s ∧
      ((s.verdict = none ∧ FragSt3 s ∧ R3 w (data3 s) ∧
          SCData3.Run prog (data3 (SC.init prog)) (w.events.reverse.map triple) (data3 s)) ∨
        ∃ k, s.verdict = some (.race k)) := by
  obtain ⟨d, hr, hR⟩ := run_is_reference_execution hwf hfresh hinit hok hrun
  obtain ⟨s, hex, hc⟩ := Run.lift3 hwf.fragProg hr
  refine ⟨s, hex, ?_⟩
  rcases hc with ⟨hfs, hd⟩ | hrace
  · subst hd
    exact .inl ⟨hfs.1.1, hfs, hR, hr⟩
  · exact .inr hrace

/-- in a related final state every twin thread has recorded exactly the results of the reference thread of its
body; finished ↔ the epilogue has notified -/
theorem related_results {w : World} {s : SCData3} (hR : R3 w s) (i : Nat) (hi : i < w.ctl.length) :
    (s.th (w.ctlOf i).body).rets = (w.ctlOf i).results ∧ (s.th (w.ctlOf i).body).pc = (w.ctlOf i).pc ∧
    ((s.th (w.ctlOf i).body).finished = true ↔ 10 ≤ (w.ctlOf i).fin) := by
  obtain ⟨_, h⟩ := hR.x.thr i hi
  refine ⟨h.2.2.1, h.2.1, ?_⟩
  have := h.2.2.2.1
  show (s.ths.getD (w.ctl.getD i {}).body {}).finished = true ↔ 10 ≤ (w.ctl.getD i {}).fin
  rw [this]; simp

/-- … the handle tables name the same Arcs; behind a handle of the twin there is an `rt::Arc` object whose
`ref_cnt` is the reference count of that Arc, and so is the std-side count the twin keeps; the current object of a
`Track` slot has the `dropped` flag of the slot in the reference, that of a raw-allocation slot is not dropped -/
theorem related_resources {w : World} {s : SCData3} (hR : R3 w s) :
    (∀ h, s.handles.lookup h = (w.handles.lookup h).map (·.arc)) ∧
    (∀ h hs, w.handles.lookup h = some hs → hs.arc < s.arcs.length ∧
      ∃ st : ArcSt, w.getArc (w.arcInfo hs.arc).obj = .ok st ∧ st.refCnt = s.arcs.getD hs.arc 0 ∧
        (w.arcInfo hs.arc).stdCount = s.arcs.getD hs.arc 0) ∧
    (∀ k o, w.tracks.lookup k = some o →
      ∃ a : AllocSt, w.exec.objs[o]? = some (.alloc a) ∧ s.tracks.lookup k = some a.isDropped) ∧
    (∀ k o, w.rawAllocs.lookup k = some o →
      ∃ a : AllocSt, w.exec.objs[o]? = some (.alloc a) ∧ a.isDropped = false ∧ s.tracks.lookup k = some false) := by
  refine ⟨hR.a.hnd, ?_, ?_, ?_⟩
  · intro h hs hl
    obtain ⟨_, _, h3, st, h4, h5, h6⟩ := hR.a.handle hl
    exact ⟨h3, st, Sy.getArc_of h4, h5, h6⟩
  · intro k o hk
    obtain ⟨d, h1, h2⟩ := hR.t.trk k o hk
    unfold av at h1
    cases hx : w.exec.objs[o]? with
    | none => rw [hx] at h1; cases h1
    | some x =>
      rw [hx] at h1
      cases x <;> simp [aview] at h1
      exact ⟨_, rfl, by rw [h1]; exact h2⟩
  · intro k o hk
    obtain ⟨h1, h2⟩ := hR.t.raw k o hk
    unfold av at h1
    cases hx : w.exec.objs[o]? with
    | none => rw [hx] at h1; cases h1
    | some x =>
      rw [hx] at h1
      cases x <;> simp [aview] at h1
      exact ⟨_, rfl, h1, h2⟩

/-! ## 4. leaks are reported exactly -/

/-- **Leak exactness, on the data.**  For a run that ends without a panic (and satisfies `okRun3`), with `d` the
end state of the reference run the theorem `run_is_reference_execution` provides: `check_for_leaks` on the final
object store of the twin fails iff `d` leaks; `leakArc` means that an Arc of the reference has a count ≠ 0,
`leakAlloc` that a slot of its `tracks` is not dropped (the first leaking object of the store decides which of the
two is reported when both kinds leak); no other panic is possible. -/
theorem leak_reported_iff_data_leaks {prog : Prog} {exec : Exec} {w0 w : World} {fuel : Nat}
    (hwf : WF3 prog) (hfresh : FreshExec exec) (hinit : World.init prog exec = .ok w0)
    (hok : okRun3 fuel w0 = true) (hrun : World.runLoop fuel w0 = (w, none)) :
    ∃ d, SCData3.Run prog (data3 (SC.init prog)) (w.events.reverse.map triple) d ∧ R3 w d ∧
      ((∃ e, w.exec.objs.checkForLeaks = .error e) ↔ d.leaks = true) ∧
      (∀ e, w.exec.objs.checkForLeaks = .error e →
        (e = .leakArc ∧ d.arcs.any (· != 0) = true) ∨ (e = .leakAlloc ∧ d.tracks.any (!·.2) = true)) ∧
      (d.arcs.any (· != 0) = true → d.tracks.any (!·.2) = false →
        w.exec.objs.checkForLeaks = .error .leakArc) ∧
      (d.tracks.any (!·.2) = true → d.arcs.any (· != 0) = false →
        w.exec.objs.checkForLeaks = .error .leakAlloc) := by
  obtain ⟨d, hr, hR⟩ := run_is_reference_execution hwf hfresh hinit hok hrun
  exact ⟨d, hr, hR, leak_data hR⟩

/-- what `leak_data` says of a reference state proper -/
theorem leak_SC {w : World} {s : SC.St} (hfs : FragSt3 s) (hR : R3 w (data3 s)) :
    ((∃ e, w.exec.objs.checkForLeaks = .error e) ↔ SC.leaks s = true) ∧
    (∀ e, w.exec.objs.checkForLeaks = .error e →
      (e = .leakArc ∧ s.arcs.any (·.1 != 0) = true) ∨ (e = .leakAlloc ∧ s.tracks.any (!·.2) = true)) ∧
    (s.arcs.any (·.1 != 0) = true → s.tracks.any (!·.2) = false →
      w.exec.objs.checkForLeaks = .error .leakArc) ∧
    (s.tracks.any (!·.2) = true → s.arcs.any (·.1 != 0) = false →
      w.exec.objs.checkForLeaks = .error .leakAlloc) := by
  obtain ⟨h1, h2, h3, h4⟩ := leak_data hR
  have ea : (data3 s).arcs.any (· != 0) = s.arcs.any (·.1 != 0) := by
    simp only [data3, List.any_map]; rfl
  have et : (data3 s).tracks = s.tracks := rfl
  rw [ea, et] at h2 h3 h4
  exact ⟨by rw [(leaks_data hfs).1]; exact h1, h2, h3, h4⟩

/-- **Leaks are reported exactly** (C10, for the resource fragment).  For a run `runLoop fuel w0 = (w, none)` — no
panic — from a fresh execution, satisfying `okRun3`: there is an execution `s` of the reference semantics
`Spec/SC.lean` from `SC.init prog` (every step `SC.step` of an `SC.enabled` thread) which either ends in a data-race
verdict, or has no verdict, is related to `w` (`R3`), records exactly the twin's event log, and

  `w.exec.objs.checkForLeaks = .error e` for some `e`  ⟺  `SC.leaks s = true`,

where `e = leakArc` only if an Arc of `s` has a count ≠ 0 and `e = leakAlloc` only if a slot of `s.tracks` is not
dropped (`leakMsg` is impossible), and if only one of the two kinds leaks in `s`, that one is reported. -/
theorem leak_reported_iff_reference_leaks {prog : Prog} {exec : Exec} {w0 w : World} {fuel : Nat}
    (hwf : WF3 prog) (hfresh : FreshExec exec) (hinit : World.init prog exec = .ok w0)
    (hok : okRun3 fuel w0 = true) (hrun : World.runLoop fuel w0 = (w, none)) :
    ∃ s, SCExec prog (SC.init prog) s ∧
      ((s.verdict = none ∧ R3 w (data3 s) ∧
          SCData3.Run prog (data3 (SC.init prog)) (w.events.reverse.map triple) (data3 s) ∧
          ((∃ e, w.exec.objs.checkForLeaks = .error e) ↔ SC.leaks s = true) ∧
          (∀ e, w.exec.objs.checkForLeaks = .error e →
            (e = .leakArc ∧ s.arcs.any (·.1 != 0) = true) ∨ (e = .leakAlloc ∧ s.tracks.any (!·.2) = true)) ∧
          (s.arcs.any (·.1 != 0) = true → s.tracks.any (!·.2) = false →
            w.exec.objs.checkForLeaks = .error .leakArc) ∧
          (s.tracks.any (!·.2) = true → s.arcs.any (·.1 != 0) = false →
            w.exec.objs.checkForLeaks = .error .leakAlloc)) ∨
        ∃ k, s.verdict = some (.race k)) := by
  obtain ⟨s, hex, hc⟩ := run_is_SC_execution hwf hfresh hinit hok hrun
  refine ⟨s, hex, ?_⟩
  rcases hc with ⟨hv, hfs, hR, hr⟩ | hrace
  · exact .inl ⟨hv, hR, hr, leak_SC hfs hR⟩
  · exact .inr hrace

/-- … for a program without `cellRead` / `cellWrite` (`NoCells`, decidable) the reference execution never ends in
a data race: the statement holds without that alternative -/
theorem leak_reported_iff_reference_leaks_nocell {prog : Prog} {exec : Exec} {w0 w : World} {fuel : Nat}
    (hwf : WF3 prog) (hnc : NoCells prog) (hfresh : FreshExec exec) (hinit : World.init prog exec = .ok w0)
    (hok : okRun3 fuel w0 = true) (hrun : World.runLoop fuel w0 = (w, none)) :
    ∃ s, SCExec prog (SC.init prog) s ∧ s.verdict = none ∧ R3 w (data3 s) ∧
      SCData3.Run prog (data3 (SC.init prog)) (w.events.reverse.map triple) (data3 s) ∧
      ((∃ e, w.exec.objs.checkForLeaks = .error e) ↔ SC.leaks s = true) ∧
      (∀ e, w.exec.objs.checkForLeaks = .error e →
        (e = .leakArc ∧ s.arcs.any (·.1 != 0) = true) ∨ (e = .leakAlloc ∧ s.tracks.any (!·.2) = true)) ∧
      (s.arcs.any (·.1 != 0) = true → s.tracks.any (!·.2) = false →
        w.exec.objs.checkForLeaks = .error .leakArc) ∧
      (s.tracks.any (!·.2) = true → s.arcs.any (·.1 != 0) = false →
        w.exec.objs.checkForLeaks = .error .leakAlloc) := by
  obtain ⟨d, hr, hR⟩ := run_is_reference_execution hwf hfresh hinit hok hrun
  obtain ⟨s, hex, hfs, hd⟩ := Run.lift3_nocell hwf.fragProg hnc hr
  subst hd
  exact ⟨s, hex, hfs.1.1, hR, hr, leak_SC hfs hR⟩

/-- an iteration whose run did not panic: `runIter` reports the verdict of `check_for_leaks` on the final store -/
theorem runIter_of_no_panic {prog : Prog} {exec : Exec} {fuel : Nat}
    (hnp : ∀ e, (runIter prog exec fuel).term = some e → C10.isLeak e = true) :
    ∃ w0 w, World.init prog exec = .ok w0 ∧ World.runLoop fuel w0 = (w, none) ∧
      (runIter prog exec fuel).events = w.events.reverse ∧
      ∀ e, (runIter prog exec fuel).term = some e ↔ w.exec.objs.checkForLeaks = .error e := by
  cases hi : World.init prog exec with
  | error e =>
    have ht : (runIter prog exec fuel).term = some e := by unfold runIter; rw [hi]
    have := (C10.init_noLeak prog exec).h e hi
    rw [hnp e ht] at this; cases this
  | ok w0 =>
    rcases hr : World.runLoop fuel w0 with ⟨w, r⟩
    cases r with
    | some e =>
      have ht : (runIter prog exec fuel).term = some e := by unfold runIter; rw [hi]; simp only; rw [hr]
      have := C10.runLoop_noLeak fuel w0 w e hr
      rw [hnp e ht] at this; cases this
    | none =>
      refine ⟨w0, w, rfl, hr, ?_, ?_⟩
      · unfold runIter; rw [hi]; simp only; rw [hr]; simp only; split <;> rfl
      · intro e
        unfold runIter; rw [hi]; simp only; rw [hr]; simp only
        cases w.exec.objs.checkForLeaks with
        | error e' => simp
        | ok u => simp

/-- **… for `runIter`** (the iteration as `Builder::check` sees it).  If the iteration ends without a panic other
than a leak report (`term = none`, `some leakArc`, `some leakAlloc` or `some leakMsg`), from a fresh execution and
satisfying `okIter3`, then there is a reference execution `s` recording exactly the events of the iteration that
ends in a data race, or such that: `term = some leakArc ∨ term = some leakAlloc` ⟺ `SC.leaks s`; `term = none`
⟺ `¬ SC.leaks s`; `leakArc` only if an Arc of `s` has a count ≠ 0, `leakAlloc` only if a slot of `s.tracks` is not
dropped; `leakMsg` never. -/
theorem runIter_leak_iff_reference_leaks {prog : Prog} {exec : Exec} {fuel : Nat}
    (hwf : WF3 prog) (hfresh : FreshExec exec) (hok : okIter3 prog exec fuel = true)
    (hnp : ∀ e, (runIter prog exec fuel).term = some e → C10.isLeak e = true) :
    ∃ s, SCExec prog (SC.init prog) s ∧
      ((s.verdict = none ∧
          SCData3.Run prog (data3 (SC.init prog)) ((runIter prog exec fuel).events.map triple) (data3 s) ∧
          (((runIter prog exec fuel).term = some .leakArc ∨ (runIter prog exec fuel).term = some .leakAlloc) ↔
            SC.leaks s = true) ∧
          ((runIter prog exec fuel).term = none ↔ SC.leaks s = false) ∧
          ((runIter prog exec fuel).term = some .leakArc → s.arcs.any (·.1 != 0) = true) ∧
          ((runIter prog exec fuel).term = some .leakAlloc → s.tracks.any (!·.2) = true) ∧
          (runIter prog exec fuel).term ≠ some .leakMsg) ∨
        ∃ k, s.verdict = some (.race k)) := by
  obtain ⟨w0, w, hi, hr, hev, hterm⟩ := runIter_of_no_panic hnp
  have hok' : okRun3 fuel w0 = true := by
    unfold okIter3 at hok; rw [hi] at hok; exact hok
  obtain ⟨s, hex, hc⟩ := leak_reported_iff_reference_leaks hwf hfresh hi hok' hr
  refine ⟨s, hex, ?_⟩
  rcases hc with ⟨hv, _, hrun, h1, h2, _, _⟩ | hrace
  · refine .inl ⟨hv, by rw [hev]; exact hrun, ?_, ?_, ?_, ?_, ?_⟩
    · rw [← h1]
      constructor
      · rintro (h | h)
        · exact ⟨_, (hterm _).1 h⟩
        · exact ⟨_, (hterm _).1 h⟩
      · rintro ⟨e, he⟩
        rcases h2 e he with ⟨rfl, _⟩ | ⟨rfl, _⟩
        · exact .inl ((hterm _).2 he)
        · exact .inr ((hterm _).2 he)
    · constructor
      · intro hn
        cases hl : SC.leaks s with
        | false => rfl
        | true =>
          obtain ⟨e, he⟩ := h1.2 hl
          rw [(hterm e).2 he] at hn; cases hn
      · intro hl
        cases ht : (runIter prog exec fuel).term with
        | none => rfl
        | some e =>
          have := h1.1 ⟨e, (hterm e).1 ht⟩
          rw [hl] at this; cases this
    · intro ht
      rcases h2 _ ((hterm _).1 ht) with ⟨_, h⟩ | ⟨h, _⟩
      · exact h
      · cases h
    · intro ht
      rcases h2 _ ((hterm _).1 ht) with ⟨h, _⟩ | ⟨_, h⟩
      · cases h
      · exact h
    · intro ht
      rcases h2 _ ((hterm _).1 ht) with ⟨h, _⟩ | ⟨h, _⟩ <;> cases h
  · exact .inr hrace

/-! ## 5. non-vacuity -/

namespace Example

/-- the execution record of an iteration of `Builder::check`: a fresh thread table and the path to replay -/
def execOf (prog : Prog) (it : Iteration) : Exec := { Check.initExec prog.cfg with path := it.start }

theorem freshExec_execOf (prog : Prog) (it : Iteration) : FreshExec (execOf prog it) := ⟨rfl, rfl⟩

/-- an Arc is cloned into a spawned thread; both threads inspect and drop their handle -/
def cloneDrop : Prog :=
  { cfg := {},
    threads := [[.arcNew 0, .arcClone 0 1, .spawn 1, .arcCount 0, .arcDrop 0, .join 1],
                [.arcGetMut 1, .arcDrop 1]] }

/-- **`cloneDrop` never leaks**: the program is well-formed and has no cells; the twin explores it to completion in
14 iterations; every one of them ends with `term = none` (no panic, no leak reported) and satisfies `okIter3` -/
theorem cloneDrop_never_leaks :
    WF3 cloneDrop ∧ NoCells cloneDrop ∧
    (Check.run cloneDrop).2 = .completed ∧ (Check.run cloneDrop).1.length = 14 ∧
    (Check.run cloneDrop).1.all
      (fun it => it.result.term.isNone && (runIter cloneDrop (execOf cloneDrop it)).term.isNone &&
        okIter3 cloneDrop (execOf cloneDrop it)) = true := by
  refine ⟨by decide +kernel, by decide +kernel, by decide +kernel, by decide +kernel, by decide +kernel⟩

/-- … so, by the theorem, the events of (for instance) its first iteration are the trace of a reference execution
whose end state does not leak -/
example : ∃ s, SCExec cloneDrop (SC.init cloneDrop) s ∧
    ((s.verdict = none ∧ SC.leaks s = false) ∨ ∃ k, s.verdict = some (.race k)) := by
  have h0 : (runIter cloneDrop (Check.initExec cloneDrop.cfg)).term = none ∧
      okIter3 cloneDrop (Check.initExec cloneDrop.cfg) = true := by decide +kernel
  obtain ⟨s, hex, hc⟩ := runIter_leak_iff_reference_leaks (fuel := 200000) cloneDrop_never_leaks.1
    (freshExec_new _ _ _ _) h0.2 (by
      intro e he
      have he' : (runIter cloneDrop (Check.initExec cloneDrop.cfg)).term = some e := he
      rw [h0.1] at he'; cases he')
  refine ⟨s, hex, ?_⟩
  rcases hc with ⟨hv, _, _, h2, _⟩ | hr
  · exact .inl ⟨hv, h2.1 h0.1⟩
  · exact .inr hr

/-- the results of its first iteration: count 2, the main thread's drop is not the last one, the spawned thread then
sees the count 1 (`get_mut` succeeds) and its drop is the last one -/
example : (runIter cloneDrop (Check.initExec cloneDrop.cfg)).events.map triple =
    [(0, 0, .unit), (0, 1, .unit), (0, 2, .unit), (0, 3, .val 2), (0, 4, .val 0), (1, 0, .val 1), (1, 1, .val 1),
     (0, 5, .unit)] := by decide +kernel

/-- the spawned thread inspects its handle but never drops it -/
def forget : Prog :=
  { cfg := {},
    threads := [[.arcNew 0, .arcClone 0 1, .spawn 1, .arcDrop 0, .join 1], [.arcCount 1]] }

/-- **a forgotten handle is reported with `leakArc`**: the first iteration of the exploration ends with "Arc
leaked" (and `Builder::check` unwinds with it) -/
theorem forget_reported :
    WF3 forget ∧ NoCells forget ∧ (Check.run forget).2 = .panicked .leakArc ∧
    (runIter forget (Check.initExec forget.cfg)).term = some .leakArc ∧
    okIter3 forget (Check.initExec forget.cfg) = true := by
  refine ⟨by decide +kernel, by decide +kernel, by decide +kernel, by decide +kernel, by decide +kernel⟩

/-- … and, by the theorem, the reference execution with the same events ends in a state that leaks: an Arc with a
count ≠ 0 -/
example : ∃ s, SCExec forget (SC.init forget) s ∧
    ((s.verdict = none ∧ SC.leaks s = true ∧ s.arcs.any (·.1 != 0) = true) ∨
      ∃ k, s.verdict = some (.race k)) := by
  obtain ⟨s, hex, hc⟩ := runIter_leak_iff_reference_leaks (fuel := 200000) forget_reported.1
    (freshExec_new _ _ _ _) forget_reported.2.2.2.2
    (by
      intro e he
      have he' : (runIter forget (Check.initExec forget.cfg)).term = some e := he
      rw [forget_reported.2.2.2.1] at he'; cases he'; rfl)
  refine ⟨s, hex, ?_⟩
  rcases hc with ⟨hv, _, h1, _, h3, _⟩ | hr
  · exact .inl ⟨hv, h1.1 (.inl forget_reported.2.2.2.1), h3 forget_reported.2.2.2.1⟩
  · exact .inr hr

/-- the spawned thread drops its clone; after the `join` the main thread holds the last handle -/
def unwrapLast : Prog :=
  { cfg := {},
    threads := [[.arcNew 0, .arcClone 0 1, .spawn 1, .join 1, .arcUnwrap 0], [.arcDrop 1]] }

/-- **`arcUnwrap` of the last handle returns `Ok`**: in every iteration of the exploration (to completion, no
panic, no leak, `okIter3`) the `arcUnwrap` of the main thread (pc 4), after the `join`, returns `ok 0` -/
theorem unwrapLast_ok :
    WF3 unwrapLast ∧ (Check.run unwrapLast).2 = .completed ∧
    (Check.run unwrapLast).1.all
      (fun it => it.result.term.isNone && okIter3 unwrapLast (execOf unwrapLast it) &&
        (it.result.events.map triple).contains (0, 4, .ok 0)) = true := by
  refine ⟨by decide +kernel, by decide +kernel, by decide +kernel⟩

/-- … while `arcUnwrap` of a shared Arc returns `Err` and consumes nothing -/
theorem unwrapShared_err :
    WF3 { cfg := {}, threads := [[.arcNew 0, .arcClone 0 1, .arcUnwrap 0, .arcDrop 0, .arcDrop 1]] } ∧
    (runIter { cfg := {}, threads := [[.arcNew 0, .arcClone 0 1, .arcUnwrap 0, .arcDrop 0, .arcDrop 1]] }
      (Check.initExec {})).term = none ∧
    (runIter { cfg := {}, threads := [[.arcNew 0, .arcClone 0 1, .arcUnwrap 0, .arcDrop 0, .arcDrop 1]] }
      (Check.initExec {})).events.map triple =
      [(0, 0, .unit), (0, 1, .unit), (0, 2, .err 0), (0, 3, .val 0), (0, 4, .val 1)] := by
  refine ⟨by decide +kernel, by decide +kernel, by decide +kernel⟩

/-- `Track` values and raw allocations -/
def tracked : Prog :=
  { cfg := {},
    threads := [[.trackNew 0, .alloc 1, .spawn 1, .dealloc 1, .join 1], [.trackDrop 0]] }

theorem tracked_clean :
    WF3 tracked ∧ (Check.run tracked).2 = .completed ∧
    (Check.run tracked).1.all
      (fun it => it.result.term.isNone && okIter3 tracked (execOf tracked it)) = true := by
  refine ⟨by decide +kernel, by decide +kernel, by decide +kernel⟩

/-- a `Track` that is never dropped is reported with `leakAlloc` -/
theorem track_leak :
    WF3 { cfg := {}, threads := [[.trackNew 0, .alloc 1, .dealloc 1]] } ∧
    (runIter { cfg := {}, threads := [[.trackNew 0, .alloc 1, .dealloc 1]] } (Check.initExec {})).term =
      some .leakAlloc := by
  refine ⟨by decide +kernel, by decide +kernel⟩

end Example

/-! ## 6. the hypotheses cannot be dropped -/

namespace Counter

def sch (a : Nat) : Sched :=
  { preemptions := 0, initialActive := none,
    threads := (List.range 5).map (fun i => if i == a then .active else .disabled), prev := none, exploring := true }

def pathOf (l : List Nat) : Path := { Path.new 1000 none true with branches := l.map (fun a => .sched (sch a)) }

/-- the main thread unwraps its Arc while thread 1 clones it through the same (global) handle -/
def unwrap2 : Prog :=
  { cfg := {}, threads := [[.arcNew 0, .spawn 1, .arcUnwrap 0, .join 1], [.arcClone 0 1]] }

/-- the path: the main thread runs up to the second branch point of `arcUnwrap` (after its uniqueness test), then
thread 1 runs to its end, then the main thread -/
def unwrap2Exec : Exec := { Check.initExec unwrap2.cfg with path := pathOf [0, 1, 1, 1, 0] }

def unwrap2Trace : Check.Trace := [(0, 0, .unit), (0, 1, .unit), (1, 0, .unit), (0, 2, .ok 0), (0, 3, .unit)]

/-- **The window inside `arcUnwrap`.**  `unwrap2` is well-formed; on this path the run of the twin completes without
a panic (the iteration then reports the clone as leaked); thread 1's `arcClone` takes effect between the two halves
of the main thread's `arcUnwrap`, which nevertheless returns `Ok`.  The run violates `okRun3`. -/
theorem unwrap_window :
    WF3 unwrap2 ∧ FreshExec unwrap2Exec ∧
    (match World.init unwrap2 unwrap2Exec with
     | .ok w0 => (World.runLoop 200000 w0).2
     | .error e => some e) = none ∧
    (runIter unwrap2 unwrap2Exec).term = some .leakArc ∧
    (runIter unwrap2 unwrap2Exec).events.map triple = unwrap2Trace ∧
    okIter3 unwrap2 unwrap2Exec = false := by
  refine ⟨by decide +kernel, ⟨rfl, rfl⟩, by decide +kernel, by decide +kernel, by decide +kernel, by decide +kernel⟩

/-- … and its event log is NOT the trace of any run of the data semantics: after the `arcClone` the count is 2,
the reference's `arcUnwrap` returns `Err` (verified trace checker `Check.not_trace`) -/
theorem unwrap_window_not_reference :
    ¬ ∃ d, SCData3.Run unwrap2 (data3 (SC.init unwrap2)) unwrap2Trace d :=
  Check.not_trace (T := 2)
    (S := Check.saturate unwrap2 2 unwrap2Trace 20 [(0, data3 (SC.init unwrap2))])
    (by decide +kernel) (by decide +kernel) (by decide +kernel)

/-- a `Track` is overwritten before it is dropped -/
def overwrite : Prog := { cfg := {}, threads := [[.trackNew 0, .trackNew 0, .trackDrop 0]] }

def overwriteTrace : Check.Trace := [(0, 0, .unit), (0, 1, .unit), (0, 2, .unit)]

/-- **Overwriting a live `Track`.**  `overwrite` is well-formed; its first (only) iteration runs without a panic and
reports "Allocation leaked" — the first `Track` —, while EVERY run of the data semantics with the same events ends
in a state that does not leak (the reference forgets the overwritten value).  The run violates `okRun3`. -/
theorem track_overwrite :
    WF3 overwrite ∧ (runIter overwrite (Check.initExec overwrite.cfg)).term = some .leakAlloc ∧
    (runIter overwrite (Check.initExec overwrite.cfg)).events.map triple = overwriteTrace ∧
    okIter3 overwrite (Check.initExec overwrite.cfg) = false ∧
    ∀ d, SCData3.Run overwrite (data3 (SC.init overwrite)) overwriteTrace d → d.leaks = false := by
  refine ⟨by decide +kernel, by decide +kernel, by decide +kernel, by decide +kernel, ?_⟩
  intro d hd
  have := Check.all_runs (T := 1) (fun d => !d.leaks)
    (S := Check.saturate overwrite 1 overwriteTrace 20 [(0, data3 (SC.init overwrite))])
    (by decide +kernel) (by decide +kernel) (by decide +kernel) d hd
  simpa using this

/-- slot 0 is used for a `Track` and for a raw allocation -/
def shared : Prog := { cfg := {}, threads := [[.trackNew 0, .alloc 0, .dealloc 0]] }

def sharedTrace : Check.Trace := [(0, 0, .unit), (0, 1, .unit), (0, 2, .unit)]

/-- **One slot number for a `Track` and a raw allocation.**  `shared` satisfies every clause of `WF3` but
`SlotsDisjoint`; its iteration runs without a panic, satisfies `okIter3`, and reports "Allocation leaked" (the
`Track`), while every run of the data semantics with the same events ends in a state that does not leak (in the
reference's single table the `dealloc` marks slot 0 as dropped). -/
theorem slots_shared :
    0 < shared.threads.length ∧ OpsOk3 shared ∧ SpawnOnce shared ∧ ¬ SlotsDisjoint shared ∧
    (runIter shared (Check.initExec shared.cfg)).term = some .leakAlloc ∧
    (runIter shared (Check.initExec shared.cfg)).events.map triple = sharedTrace ∧
    okIter3 shared (Check.initExec shared.cfg) = true ∧
    ∀ d, SCData3.Run shared (data3 (SC.init shared)) sharedTrace d → d.leaks = false := by
  refine ⟨by decide +kernel, by decide +kernel, by decide +kernel, by decide +kernel, by decide +kernel,
    by decide +kernel, by decide +kernel, ?_⟩
  intro d hd
  have := Check.all_runs (T := 1) (fun d => !d.leaks)
    (S := Check.saturate shared 1 sharedTrace 20 [(0, data3 (SC.init shared))])
    (by decide +kernel) (by decide +kernel) (by decide +kernel) d hd
  simpa using this

end Counter

end Refine3
end LoomVerif

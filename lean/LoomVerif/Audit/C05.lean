import LoomVerif.Props.C05

#print axioms LoomVerif.C05.Exec.deadlock_iff_no_runnable
#print axioms LoomVerif.C05.Exec.deadlock_iff_needs_in_range
#print axioms LoomVerif.C05.Exec.schedule_active_in_range
#print axioms LoomVerif.C05.Exec.schedule_no_thread
#print axioms LoomVerif.C05.Exec.finish_not_deadlock
#print axioms LoomVerif.C05.SC.deadlock_def

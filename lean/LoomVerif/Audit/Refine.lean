/-
Axiom audit of the refinement headline theorems.  Allowed: `propext`, `Classical.choice`, `Quot.sound`.
-/
import LoomVerif.Props.Refine

open LoomVerif

#print axioms Refine.enabled_data
#print axioms Refine.step_data
#print axioms Refine.step_lift
#print axioms Refine.label_is_recorded_result
#print axioms Refine.WF.fragProg
#print axioms Refine.step_simulation
#print axioms Refine.run_is_reference_execution
#print axioms Refine.run_is_SC_execution
#print axioms Refine.runIter_is_reference_execution
#print axioms Refine.related_results
#print axioms Refine.init_R
#print axioms Refine.Run.lift
#print axioms Refine.Example.run0
#print axioms Refine.Example.run1
#print axioms Refine.run_sane
#print axioms Refine.phantom_thread_panics

/-
Axiom audit of the C04 headline theorems.  Allowed: `propext`, `Classical.choice`, `Quot.sound`.
-/
import LoomVerif.Props.C04

open LoomVerif

#print axioms VV.ahead_none_iff_le
#print axioms VV.ahead_some_first
#print axioms World.sync_caus
#print axioms Cell.read_panics_iff
#print axioms Cell.write_panics_iff
#print axioms Cell.busy
#print axioms Cell.section_read_panics_iff
#print axioms Cell.section_write_panics_iff
#print axioms Cell.read_end_recorded
#print axioms Cell.clocks_grow
#print axioms Atomic.track_panics_iff
#print axioms Atomic.track_ok_iff
#print axioms Atomic.track_mutating
#print axioms Race.clock_sound
#print axioms Race.clock_fires_iff

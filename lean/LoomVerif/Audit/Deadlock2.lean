/-
Axiom audit of the deadlock-soundness headline theorems, WAIT fragment.  Allowed: `propext`, `Classical.choice`,
`Quot.sound`.
-/
import LoomVerif.Props.Deadlock2

open LoomVerif

#print axioms Deadlock2.rb2_initial
#print axioms Deadlock2.step_preserves2
#print axioms Deadlock2.blocked_means_waiting
#print axioms Deadlock2.disabled_awaits
#print axioms Deadlock2.blocked_means_disabled2
#print axioms Deadlock2.terminated_means_finished2
#print axioms Deadlock2.try_never_blocked2
#print axioms Deadlock2.deadlock_stage_is_real2
#print axioms Deadlock2.reported_deadlock_is_real2
#print axioms Deadlock2.runIter_deadlock_is_real2
#print axioms Deadlock2.loop_deadlock_is_real2
#print axioms Deadlock2.check_deadlock_is_real2
#print axioms Deadlock2.check_deadlock_is_real2_plain
#print axioms Deadlock2.reported_deadlock_is_real2_plain
#print axioms Deadlock2.okRun_of_noParkCv
#print axioms Deadlock2.reported_deadlock_is_SC_deadlock2
#print axioms Deadlock2.deadlocked_spurious_only_nWait
#print axioms Deadlock2.step_JB2
#print axioms Deadlock2.step_pres2
#print axioms Deadlock2.step_deadlock2
#print axioms Deadlock2.dead_cvWait
#print axioms Deadlock2.active_running
#print axioms Deadlock2.schedule_keep
#print axioms Deadlock2.schedOn_deadlock2
#print axioms Deadlock2.init_RB2
#print axioms Deadlock2.runLoop_RB2
#print axioms Deadlock2.runIter_iterInv2
#print axioms Deadlock2.Example.recvOnly_deadlocks
#print axioms Deadlock2.Example.recvOnly_is_real
#print axioms Deadlock2.Example.recvOnly_is_real_plain
#print axioms Deadlock2.Example.lostNotify_deadlocks
#print axioms Deadlock2.Example.lostNotify_is_real
#print axioms Deadlock2.Example.lostNotify_spurious_possible
#print axioms Deadlock2.Example.parkAlone_deadlocks
#print axioms Deadlock2.Example.cvAlone_deadlocks
#print axioms Deadlock2.Example.cvAlone_is_real
#print axioms Deadlock2.Example.lostWakeup_deadlocks
#print axioms Deadlock2.Example.lostWakeup_is_real
#print axioms Deadlock2.Example.prodCons_never_deadlocks
#print axioms Deadlock2.Example.handOff_never_deadlocks
#print axioms Deadlock2.double_join_false_deadlock2
#print axioms Deadlock2.empty_schedule_false_deadlock2
#print axioms Deadlock2.resumed_park_false_deadlock

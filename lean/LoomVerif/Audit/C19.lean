import LoomVerif.Props.C19

open LoomVerif.C19

#print axioms nonexploring_no_alternative
#print axioms backtrack_keeps_nonexploring
#print axioms sched_backtrack_asserts_exploring
#print axioms api_keeps_nonexploring
#print axioms step_keeps_nonexploring
#print axioms nonexploring_frozen
#print axioms pushed_entries_flag
#print axioms exploreState_table
#print axioms critical_table
#print axioms skipBranch_eq
#print axioms skip_sticky
#print axioms skip_sticky_iter
#print axioms step_resets_controls
#print axioms outside_unaffected
#print axioms step_advances_deepest_exploring
#print axioms branch_limit_exact
#print axioms branch_limit_api
#print axioms no_branch_limit_on_replay
#print axioms thread_limit_exact
#print axioms permutation_limit
#print axioms permutation_limit_first
#print axioms permutation_limit_run
#print axioms no_limit_without_max
#print axioms Ex.run
#print axioms Ex.iter0
#print axioms Ex.iter1

/-
Axiom audit of the deadlock-soundness headline theorems, FUTURES fragment.  Allowed: `propext`, `Classical.choice`,
`Quot.sound`.
-/
import LoomVerif.Props.Deadlock3

open LoomVerif

#print axioms Deadlock3.rb4_initial
#print axioms Deadlock3.step_preserves4
#print axioms Deadlock3.blocked_means_waiting4
#print axioms Deadlock3.never_blocked_elsewhere
#print axioms Deadlock3.blocked_in_block_on_means_disabled
#print axioms Deadlock3.blocked_in_block_on_disabled_of_no_pending
#print axioms Deadlock3.notifier_is_not_blocked
#print axioms Deadlock3.blocked_in_join_means_disabled
#print axioms Deadlock3.blocked_on_mutex_means_holder_runs
#print axioms Deadlock3.holder_is_not_blocked
#print axioms Deadlock3.runnable_means_enabled4
#print axioms Deadlock3.terminated_means_finished4
#print axioms Deadlock3.deadlock_stage_is_real4
#print axioms Deadlock3.lock_never_deadlocks
#print axioms Deadlock3.reported_deadlock_is_real
#print axioms Deadlock3.runIter_deadlock_is_real
#print axioms Deadlock3.loop_deadlock_is_real
#print axioms Deadlock3.check_deadlock_is_real
#print axioms Deadlock3.check_deadlock_is_real_selfWaking
#print axioms Deadlock3.reported_deadlock_is_real_selfWaking
#print axioms Deadlock3.okRun4_of_selfOnly
#print axioms Deadlock3.no_missed_deadlock_on_this_path
#print axioms Deadlock3.step_out
#print axioms Deadlock3.stage_out
#print axioms Deadlock3.active_running4
#print axioms Deadlock3.dead_of_stuck
#print axioms Deadlock3.stuck_other
#print axioms Deadlock3.dead_call
#print axioms Deadlock3.dead_join
#print axioms Deadlock3.dead_done
#print axioms Deadlock3.finish
#print axioms Deadlock3.sched_ok
#print axioms Deadlock3.init_RB4
#print axioms Deadlock3.runLoop_RB4
#print axioms Deadlock3.runLoop_dead
#print axioms Deadlock3.runIter_iterInv4
#print axioms Deadlock3.no_dead_of_outcomes
#print axioms Deadlock3.Example.lone_deadlocks
#print axioms Deadlock3.Example.lone_is_real
#print axioms Deadlock3.Example.lone_reference_deadlocks
#print axioms Deadlock3.Example.loneSpawn_deadlocks
#print axioms Deadlock3.Example.loneSpawn_is_real
#print axioms Deadlock3.Example.wokenNotReady_deadlocks
#print axioms Deadlock3.Example.wokenNotReady_is_real
#print axioms Deadlock3.Example.wake_runs_complete
#print axioms Deadlock3.Example.wake_runs_do_not_deadlock
#print axioms Deadlock3.Example.selfJoin_never_deadlocks
#print axioms Deadlock3.Example.joinSelf_deadlocks
#print axioms Deadlock3.Example.joinSelf_is_real
#print axioms Deadlock3.double_join_false_deadlock4
#print axioms Deadlock3.empty_schedule_false_deadlock4
#print axioms Deadlock3.runLoop_deadlock4
#print axioms Deadlock3.runIter_deadlock4
#print axioms Deadlock3.loop_deadlock4
#print axioms Deadlock3.no_missed4
#print axioms Deadlock3.blocked_call_disabled
#print axioms Deadlock3.runnable_enabled

/-
Axiom audit of the C11 headline theorems.  Allowed: `propext`, `Classical.choice`, `Quot.sound`.
-/
import LoomVerif.Props.C11

open LoomVerif

#print axioms ArcObj.ArcInv_spelled_out
#print axioms ArcObj.defs_spelled_out
#print axioms ArcObj.refines_refcount_new
#print axioms ArcObj.refines_refcount_clone
#print axioms ArcObj.refines_refcount_inc
#print axioms ArcObj.refines_refcount_refDec
#print axioms ArcObj.refines_refcount_drop
#print axioms ArcObj.refines_refcount_dec
#print axioms ArcObj.refines_refcount_count
#print axioms ArcObj.refines_refcount_getMut
#print axioms ArcObj.refines_refcount_unwrap1
#print axioms ArcObj.refines_refcount_unwrap2
#print axioms ArcObj.refines_refcount_pure
#print axioms ArcObj.drop_once
#print axioms ArcObj.Run.released
#print axioms ArcObj.drops_hb_final
#print axioms ArcObj.inspect_acquires
#print axioms Dep.arc
#print axioms Dep.arc_symmetric
#print axioms ArcObj.sc_defs_spelled_out
#print axioms ArcObj.clone_matches_SC
#print axioms ArcObj.inc_matches_SC
#print axioms ArcObj.drop_matches_SC
#print axioms ArcObj.drop_released_matches_SC
#print axioms ArcObj.dec_matches_SC
#print axioms ArcObj.count_matches_SC
#print axioms ArcObj.getMut_matches_SC
#print axioms ArcObj.unwrap_shared_matches_SC
#print axioms ArcObj.unwrap_unique_matches_SC
#print axioms ArcObj.ptrEq_matches_SC
#print axioms ArcObj.demo_twin
#print axioms ArcObj.demo_leak
#print axioms ArcObj.demo_two_threads

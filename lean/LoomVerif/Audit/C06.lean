import LoomVerif.Props.C06
#print axioms LoomVerif.C06.loop_shape
#print axioms LoomVerif.C06.first_panic
#print axioms LoomVerif.C06.ok_only_if_none_failed
#print axioms LoomVerif.C06.later_run_starts_clean

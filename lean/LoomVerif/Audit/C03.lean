/-
Axiom audit of the C03 headline theorems.  Allowed: `propext`, `Classical.choice`, `Quot.sound`.
-/
import LoomVerif.Props.C03

open LoomVerif

#print axioms VV.lattice
#print axioms Sync.acquire_gets_release
#print axioms Sync.no_over_sync
#print axioms Atomic.store_publishes
#print axioms Atomic.load_acquires
#print axioms Atomic.load_frame
#print axioms Atomic.release_acquire_edge
#print axioms Atomic.release_sequence
#print axioms Atomic.rmw_failure
#print axioms Atomic.release_sequence_edge
#print axioms Atomic.coherence_vv
#print axioms Atomic.candidates_exact
#print axioms Atomic.loadBlocked_iff
#print axioms Atomic.load_coherence
#print axioms Atomic.store_coherence
#print axioms Atomic.rmw_reads_maximal
#print axioms Fence.seqcst_total
#print axioms Fence.seqcst_chain
#print axioms Threads.seqCst_untouched
#print axioms Fence.seqcst_order

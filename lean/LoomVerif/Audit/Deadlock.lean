/-
Axiom audit of the deadlock-soundness headline theorems.  Allowed: `propext`, `Classical.choice`, `Quot.sound`.
-/
import LoomVerif.Props.Deadlock

open LoomVerif

#print axioms Deadlock.rb_initial
#print axioms Deadlock.step_preserves
#print axioms Deadlock.blocked_means_disabled
#print axioms Deadlock.terminated_means_finished
#print axioms Deadlock.runnable_means_enabled
#print axioms Deadlock.tryLock_never_blocked
#print axioms Deadlock.deadlock_stage_is_real
#print axioms Deadlock.reported_deadlock_is_real
#print axioms Deadlock.runIter_deadlock_is_real
#print axioms Deadlock.reported_deadlock_is_SC_deadlock
#print axioms Deadlock.check_deadlock_is_real
#print axioms Deadlock.runIter_iterInv
#print axioms Deadlock.Example.abba_check_is_real
#print axioms Deadlock.schedule_deadlock
#print axioms Deadlock.step_JB
#print axioms Deadlock.freshExec_new
#print axioms Deadlock.freshExec_step
#print axioms Deadlock.Example.abba_wf
#print axioms Deadlock.Example.abba_check
#print axioms Deadlock.Example.abba_hyps
#print axioms Deadlock.Example.abba_deadlock_is_real
#print axioms Deadlock.Example.tl_wf
#print axioms Deadlock.Example.tl_never_deadlocks
#print axioms Deadlock.double_join_false_deadlock
#print axioms Deadlock.empty_schedule_false_deadlock
#print axioms Deadlock.blocked_start_false_deadlock

/-
Axiom audit of the refinement headline theorems, STATICS fragment (C17).  Allowed: `propext`, `Classical.choice`,
`Quot.sound`.
-/
import LoomVerif.Props.Refine5

open LoomVerif

#print axioms Refine5.enabled_data
#print axioms Refine5.step_lift
#print axioms Refine5.step_data
#print axioms Refine5.label_is_recorded_result
#print axioms Refine5.step_simulation
#print axioms Refine5.init_related
#print axioms Refine5.run_is_reference_execution
#print axioms Refine5.runIter_is_reference_execution
#print axioms Refine5.run_is_SC_execution
#print axioms Refine5.related_threads
#print axioms Refine5.related_statics
#print axioms Refine5.tls_once_per_thread
#print axioms Refine5.tls_dropped_at_thread_end
#print axioms Refine5.lazy_same_instance
#print axioms Refine5.step_sim5
#print axioms Refine5.sim_finish5
#print axioms Refine5.sim_epilogue5
#print axioms Refine5.init_R5
#print axioms Refine5.runLoop_sim5
#print axioms Refine5.Run.lift5
#print axioms Refine5.step_lift5
#print axioms Refine5.step_data5
#print axioms Refine5.Check.all_runs
#print axioms Refine5.Check.not_trace
#print axioms Refine5.Example.tlsProg_runs
#print axioms Refine5.Example.dtorProg_runs
#print axioms Refine5.Example.lazyProg_runs
#print axioms Refine5.Example.reinitProg_runs
#print axioms Refine5.Counter.lazy_index_not_reference
#print axioms Refine5.noStale_of
#print axioms Refine5.drops_eq_of_noStale
#print axioms Refine5.R5_reinit
#print axioms Refine5.sim_late5
#print axioms Refine5.Counter.spawn_order_not_reference
#print axioms Refine5.Counter.dtor_reinit_window_not_reference
#print axioms Refine5.Counter.main_reinit_not_reference
#print axioms Refine5.racedTrace_not_reference
#print axioms Refine5.raced_init_not_reference

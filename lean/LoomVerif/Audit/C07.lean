/-
Axiom audit of the C07 headline theorems.  Allowed: `propext`, `Classical.choice`, `Quot.sound`.
-/
import LoomVerif.Props.C07

open LoomVerif

#print axioms Table.read
#print axioms Table.read_objs
#print axioms Lock.try_exact
#print axioms Lock.tryLock_result
#print axioms Lock.lock_stages
#print axioms readersOf_spelled_out
#print axioms RwLock.try_exact_read
#print axioms RwLock.try_exact_write
#print axioms RwLock.try_results
#print axioms RwLock.readers_sorted
#print axioms RwWF_spelled_out
#print axioms RwStep_spelled_out
#print axioms RwLock.exclusion
#print axioms Lock.release_wakes
#print axioms RwLock.release_write_wakes
#print axioms RwLock.release_read
#print axioms MutexStep_spelled_out
#print axioms MutexSteps_spelled_out
#print axioms Lock.handover_parts
#print axioms Lock.handover_hb
#print axioms RwLock.handover_parts
#print axioms RwLock.handover_hb
#print axioms abs_spelled_out
#print axioms Rel_spelled_out
#print axioms Lock.sim_tryLock
#print axioms Lock.sim_lock
#print axioms Lock.sim_unlock
#print axioms RwLock.sim_tryRead
#print axioms RwLock.sim_tryWrite
#print axioms RwLock.sim_blocking
#print axioms RwLock.sim_release
#print axioms NotWaiting_spelled_out
#print axioms Lock.never_blocks_try_acquirers
#print axioms Lock.blocks_waiters
#print axioms Lock.branch_records
#print axioms Lock.try_acquirer_keeps_running
#print axioms Lock.reference_never_disables_tryLock
#print axioms Lock.handover_example
#print axioms Lock.tryLock_examples

/-
Axiom audit of the C17 headline theorems.  Allowed: `propext`, `Classical.choice`, `Quot.sound`.
-/
import LoomVerif.Props.C17

open LoomVerif

#print axioms Tls.lazy_once_per_thread
#print axioms Tls.private
#print axioms liveKeys_spelled_out
#print axioms Tls.dropped_at_exit
#print axioms Tls.access_after_drop_is_error
#print axioms Tls.access_returns_id
#print axioms Tls.nested_with
#print axioms Lazy.defs_spelled_out
#print axioms Lazy.stages
#print axioms Lazy.published_once
#print axioms Lazy.same_instance
#print axioms Lazy.init_hb_access
#print axioms Lazy.dropped_at_end
#print axioms Lazy.shutdown_access_panics
#print axioms Lazy.reinit_next_iteration
#print axioms Tls.example
#print axioms Lazy.example
#print axioms Lazy.init_can_run_twice

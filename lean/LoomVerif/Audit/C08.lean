/-
Axiom audit of the C08 headline theorems.  Allowed: `propext`, `Classical.choice`, `Quot.sound`.
-/
import LoomVerif.Props.C08

open LoomVerif

#print axioms Notify.notify_effect
#print axioms Notify.wakes_blocked_waiter_only
#print axioms Notify.notify_acquires_nothing
#print axioms Notify.wait_first_half
#print axioms Notify.wait_second_half
#print axioms NotifyKeep_spelled_out
#print axioms NotifyStep_spelled_out
#print axioms NotifySteps_spelled_out
#print axioms Notify.flag_not_lost
#print axioms Notify.blocks_without_flag
#print axioms Wait.notifier_hb
#print axioms Notify.wait_first_half_may_spur
#print axioms Notify.wait_first_half_object
#print axioms Notify.didSpur_monotone
#print axioms Notify.single_spurious
#print axioms Join.never_spurious
#print axioms NotifyKept_spelled_out
#print axioms Wait.only_after_notify
#print axioms Wait.helpers_keep_flags
#print axioms Wait.no_other_op_notifies
#print axioms Park.setUnparked_table
#print axioms Park.unpark_wakes_only_parked
#print axioms Park.token_survives_blocking
#print axioms Park.park_consumes_token
#print axioms Park.unpark
#print axioms Park.frame_defs
#print axioms Park.op_frame
#print axioms Park.step_frame
#print axioms Park.unpark_then_park_never_blocks
#print axioms Park.unpark_op_then_park_never_blocks
#print axioms Park.unpark_keeps_lock_waiter_blocked
#print axioms Park.unpark_orders_nothing_until_park
#print axioms Hb_spelled_out
#print axioms Park.unpark_happens_before_park
#print axioms Release.keeps_token
#print axioms Park.release_keeps_token
#print axioms Condvar.notify_one_fifo
#print axioms Condvar.notify_all
#print axioms Condvar.wake_table
#print axioms Condvar.unpark_is_no_notification
#print axioms Condvar.wait_enqueues_releases_blocks
#print axioms Condvar.reacquires
#print axioms Join.after_exit
#print axioms EpiRun_spelled_out
#print axioms Join.after_destructors
#print axioms Join.waits_for_flag
#print axioms Join.hb
#print axioms Notify.example
#print axioms Park.example

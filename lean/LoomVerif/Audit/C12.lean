/-
Axiom audit of the C12 headline theorems.  Allowed: `propext`, `Classical.choice`, `Quot.sound`.
-/
import LoomVerif.Props.C12

open LoomVerif

#print axioms Num.roundtrip
#print axioms Num.intoU64_lt
#print axioms Num.fromU64_inRange
#print axioms RmwFn.apply_inRange
#print axioms FupdFn.apply_inRange
#print axioms RmwFn.apply_eq_std
#print axioms SingleInv_spelled_out
#print axioms SingleInv_creation
#print axioms SingleInv_preserved
#print axioms SingleReach.inv
#print axioms Atomic.single_thread_latest
#print axioms Atomic.single_thread_latest_reachable
#print axioms C12_op_refines_std
#print axioms C12_refines_std
#print axioms C12_refines_std_any_ordering
#print axioms C12_demo_valid
#print axioms C12_demo_std
#print axioms C12_demo_loom

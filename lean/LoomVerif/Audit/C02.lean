/-
Axiom audit of the C02 headline theorems.  Allowed: `propext`, `Classical.choice`, `Quot.sound`.
-/
import LoomVerif.Props.C02

open LoomVerif

#print axioms C02.sync_no_over_sync
#print axioms Atomic.no_over_sync
#print axioms C02.candidates_exact
#print axioms Atomic.candidates_weak
#print axioms Atomic.ring_order
#print axioms Atomic.ring_guard
#print axioms Atomic.ring_guard_step
#print axioms Fence.acq_only_seen

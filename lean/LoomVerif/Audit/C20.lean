/-
Axiom audit of the C20 headline theorems.  Allowed: `propext`, `Classical.choice`, `Quot.sound`.
-/
import LoomVerif.Props.C20

open LoomVerif

#print axioms SelfWakeStage_spelled_out
#print axioms BlockOn.modes_spelled_out
#print axioms BlockOn.repolls_only_after_wake
#print axioms BlockOn.spurious_repoll_once
#print axioms IsCellOp_spelled_out
#print axioms BlockOn.other_ops_never_repoll
#print axioms BlockOn.wake_not_lost
#print axioms BlockOn.wake_makes_wait_nonblocking
#print axioms CompletesOnlyWith_spelled_out
#print axioms BlockOn.returns_output
#print axioms AwKept_spelled_out
#print axioms AtomicWaker.lock_protocol
#print axioms AwIdKept_spelled_out
#print axioms AtomicWaker.wake_most_recent
#print axioms Slot.lock_protocol
#print axioms Waker.refcount_balance
#print axioms Waker.dropWaker_drops_the_waker_taken
#print axioms BlockOn.example_slot
#print axioms BlockOn.example_atomic_waker
#print axioms BlockOn.example_deadlock
#print axioms BlockOn.example_poll_once
#print axioms BlockOn.example_held_clone
#print axioms BlockOn.example_self_wake

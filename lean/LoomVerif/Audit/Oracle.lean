import LoomVerif.Props.Oracle

#print axioms LoomVerif.Oracle.exploreV_sound
#print axioms LoomVerif.Oracle.exploreV_complete
#print axioms LoomVerif.Oracle.exploreV_outcomes_iff
#print axioms LoomVerif.Oracle.exploreV_states
#print axioms LoomVerif.Oracle.exploreV_capped
#print axioms LoomVerif.Oracle.exploreV_states_le
#print axioms LoomVerif.Oracle.outcomesNaive_spec
#print axioms LoomVerif.Oracle.exploreV_eq_naive
#print axioms LoomVerif.Oracle.exploreV_not_capped
#print axioms LoomVerif.Oracle.tiny_exploreV

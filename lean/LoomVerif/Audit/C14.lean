import LoomVerif.Props.C14

open LoomVerif.C14

#print axioms step_spec
#print axioms step_none
#print axioms advance_spec
#print axioms advance_sched_leftmost
#print axioms frame_refl
#print axioms frame_trans
#print axioms branchThread_frame
#print axioms pushLoad_frame
#print axioms branchSpurious_frame
#print axioms branchLoad_frame
#print axioms backtrack_frame
#print axioms exploreState_frame
#print axioms critical_frame
#print axioms skipBranch_frame
#print axioms pushed_entries_fresh
#print axioms iteration_frame
#print axioms no_repeat
#print axioms no_repeat_general
#print axioms dfs_order
#print axioms measure_eq
#print axioms measure_spec
#print axioms terminates
#print axioms no_infinite_run
#print axioms count_is_paths
#print axioms distinctCount_spec
#print axioms LoomVerif.Path.Example.run
#print axioms LoomVerif.Path.Example.finished
#print axioms LoomVerif.Path.Example.decisions

import LoomVerif.Props.C18

#print axioms LoomVerif.C18.Sched.yield_deprioritised
#print axioms LoomVerif.C18.Sched.yield_reactivated
#print axioms LoomVerif.C18.Atomic.seen_before_yield_prune
#print axioms LoomVerif.C18.Path.branch_limit
#print axioms LoomVerif.C18.Path.call_len_ok

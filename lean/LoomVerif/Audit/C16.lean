import LoomVerif.Props.C16
#print axioms LoomVerif.C16.step_resets
#print axioms LoomVerif.C16.init_fresh
#print axioms LoomVerif.C16.run_depends_on_path_only
#print axioms LoomVerif.C16.fresh_threads
#print axioms LoomVerif.C16.independent_of_history

/-
Axiom audit of the refinement headline theorems, RESOURCE fragment (C10 / C11).  Allowed: `propext`,
`Classical.choice`, `Quot.sound`.
-/
import LoomVerif.Props.Refine3

open LoomVerif

#print axioms Refine3.enabled_data
#print axioms Refine3.step_lift
#print axioms Refine3.label_is_recorded_result
#print axioms Refine3.leaks_data
#print axioms Refine3.step_simulation
#print axioms Refine3.init_related
#print axioms Refine3.run_is_reference_execution
#print axioms Refine3.runIter_is_reference_execution
#print axioms Refine3.run_is_SC_execution
#print axioms Refine3.related_results
#print axioms Refine3.related_resources
#print axioms Refine3.leak_reported_iff_data_leaks
#print axioms Refine3.leak_reported_iff_reference_leaks
#print axioms Refine3.leak_reported_iff_reference_leaks_nocell
#print axioms Refine3.runIter_leak_iff_reference_leaks
#print axioms Refine3.step_sim3
#print axioms Refine3.init_R3
#print axioms Refine3.Run.lift3
#print axioms Refine3.Run.lift3_nocell
#print axioms Refine3.leak_data
#print axioms Refine3.Check.all_runs
#print axioms Refine3.Check.not_trace
#print axioms Refine3.Example.cloneDrop_never_leaks
#print axioms Refine3.Example.forget_reported
#print axioms Refine3.Example.unwrapLast_ok
#print axioms Refine3.Example.unwrapShared_err
#print axioms Refine3.Example.tracked_clean
#print axioms Refine3.Example.track_leak
#print axioms Refine3.Counter.unwrap_window
#print axioms Refine3.Counter.unwrap_window_not_reference
#print axioms Refine3.Counter.track_overwrite
#print axioms Refine3.Counter.slots_shared

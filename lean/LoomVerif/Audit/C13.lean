import LoomVerif.Props.C13

open LoomVerif.C13

#print axioms roundtrip
#print axioms roundtrip_entry
#print axioms roundtrip_same_cap
#print axioms step_resets
#print axioms step_none_iff
#print axioms initExec_shape
#print axioms keepsCfg
#print axioms run_depends_on_path_only
#print axioms loopFrom_suffix
#print axioms resume_suffix
#print axioms resume_suffix_renumbered
#print axioms failing_checkpoint_reproduces
#print axioms checkpoint_cadence
#print axioms limit_only_at_checkpoint
#print axioms deterministic
#print axioms Ex.run_obs

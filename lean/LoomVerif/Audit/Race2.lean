/-
Axiom audit of the race-exactness headline theorems for the WAIT fragment.  Allowed: `propext`, `Classical.choice`,
`Quot.sound`.
-/
import LoomVerif.Props.Race2

open LoomVerif

#print axioms Race2.twin_panics_iff_reference_races
#print axioms Race2.cell_access_outcomes
#print axioms Race2.only_cell_accesses_panic_with_causality
#print axioms Race2.step_simulation_with_clocks
#print axioms Race2.initially_related
#print axioms Race2.reported_race_is_real
#print axioms Race2.no_missed_race_on_this_path
#print axioms Race2.runIter_no_missed_race
#print axioms Race2.runIter_reported_race_is_real
#print axioms Race2.Example.mp_never
#print axioms Race2.Example.mpLate_reported
#print axioms Race2.Example.handOff_never
#print axioms Race2.Example.noPark_reported
#print axioms Race2.Example.ntf_runs
#print axioms Race2.Example.cvp_never
#print axioms Race2.Example.cvp_run3
#print axioms Race2.Repaired.two_notifiers_race_reported
#print axioms Race2.Repaired.two_notifiers_reference_race
#print axioms Race2.Repaired.two_notifiers_report_is_real
#print axioms Race2.Repaired.default_exploration_reports

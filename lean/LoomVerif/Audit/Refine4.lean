/-
Axiom audit of the refinement headline theorems, FUTURES fragment (C20).  Allowed: `propext`, `Classical.choice`,
`Quot.sound`.
-/
import LoomVerif.Props.Refine4

open LoomVerif

#print axioms Refine4.R4_is_data
#print axioms Refine4.R4_congr
#print axioms Refine4.step_simulation
#print axioms Refine4.init_related
#print axioms Refine4.run_is_reference_execution
#print axioms Refine4.runIter_is_reference_execution
#print axioms Refine4.finalW_is_reference_execution
#print axioms Refine4.related_results
#print axioms Refine4.related_results_done
#print axioms Refine4.related_results_ahead
#print axioms Refine4.aheadOf_table
#print axioms Refine4.no_lost_wakeup
#print axioms Refine4.step_sim4
#print axioms Refine4.init_R4
#print axioms Refine4.runLoop_sim4
#print axioms Refine4.poll_read
#print axioms Refine4.Example.wakeProg_wf
#print axioms Refine4.Example.wake_after
#print axioms Refine4.Example.wake_during
#print axioms Refine4.Example.wake_before
#print axioms Refine4.Example.wake_runs_are_reference_executions
#print axioms Refine4.Example.pollOnce_run
#print axioms Refine4.Example.pollOnce_is_reference_execution
#print axioms Refine4.Example.aw_run
#print axioms Refine4.Example.self_runs
#print axioms Refine4.Example.lone_deadlocks
#print axioms Refine4.Counter.stale_read
#print axioms Refine4.Counter.store_window
#print axioms Refine4.Counter.pending_consume
#print axioms Refine4.Counter.event_order
#print axioms Refine4.Counter.dropWaker_drops_the_waker_it_took
#print axioms Refine4.Counter.dropWaker_run_is_reference_execution

import LoomVerif.Props.C01
#print axioms LoomVerif.C14.step_spec
#print axioms LoomVerif.C14.advance_sched_leftmost
#print axioms LoomVerif.C14.backtrack_frame
#print axioms LoomVerif.C14.no_repeat
#print axioms LoomVerif.C14.terminates

import LoomVerif.Props.C15

open LoomVerif.C15

#print axioms preemptionsNow_spec
#print axioms preInv_new
#print axioms preInv_api
#print axioms preInv_step
#print axioms preInv_run
#print axioms preemptions_counts
#print axioms lastSched_spec
#print axioms seed_ok
#print axioms reach_inv
#print axioms reach_run
#print axioms bound_invariant
#print axioms bound_assert_unreachable
#print axioms C15_each_execution_bounded
#print axioms C15_each_execution_bounded_run
#print axioms C15_each_prefix_bounded
#print axioms large_bound_never_cuts
#print axioms large_bound_never_cuts_path
#print axioms Ex.reach_q1
#print axioms Ex.seedA_ok
#print axioms Ex.seedB_ok

/-
Axiom audit of the refinement headline theorems, WAIT fragment.  Allowed: `propext`, `Classical.choice`,
`Quot.sound`.
-/
import LoomVerif.Props.Refine2

open LoomVerif

#print axioms Refine2.step_simulation
#print axioms Refine2.init_related
#print axioms Refine2.run_is_reference_execution
#print axioms Refine2.runIter_is_reference_execution
#print axioms Refine2.related_results
#print axioms Refine2.enabled_data
#print axioms Refine2.step_lift
#print axioms Refine2.spurious_lift
#print axioms Refine2.run_is_SC_execution
#print axioms Refine2.Example.spur2_runs
#print axioms Refine2.step_sim2c
#print axioms Refine2.init_R2
#print axioms Refine2.Example.prodCons_run
#print axioms Refine2.Example.handOff_run
#print axioms Refine2.Example.handOff_run3
#print axioms Refine2.Example.signals_run
#print axioms Refine2.Counter.double_unpark
#print axioms Refine2.Counter.park_resumed
#print axioms Refine2.Counter.cvwait_resumed
#print axioms Refine2.Check.not_trace
#print axioms Refine2.Counter.double_unpark_not_reference
#print axioms Refine2.Counter.park_resumed_not_reference
#print axioms Refine2.Counter.cvwait_resumed_not_reference

/-
Axiom audit of the race-exactness headline theorems.  Allowed: `propext`, `Classical.choice`, `Quot.sound`.
-/
import LoomVerif.Props.Race

open LoomVerif

#print axioms Race.race_agree
#print axioms Race.twin_panics_iff_reference_races
#print axioms Race.cell_access_outcomes
#print axioms Race.only_cell_accesses_panic_with_causality
#print axioms Race.step_simulation_with_clocks
#print axioms Race.initially_related
#print axioms Race.reported_race_is_real
#print axioms Race.no_missed_race_on_this_path
#print axioms Race.runIter_no_missed_race
#print axioms Race.runIter_reported_race_is_real
#print axioms Race.schedule_nr
#print axioms Race.Example.racy_reported
#print axioms Race.Example.guarded_never
#print axioms Race.Example.late_reported

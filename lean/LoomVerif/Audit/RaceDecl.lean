/-
Axiom audit of the end-to-end race theorems with a declarative reference side.
Allowed: `propext`, `Classical.choice`, `Quot.sound`.
-/
import LoomVerif.Props.RaceDecl

open LoomVerif

#print axioms RaceDecl.twin_report_is_declarative_race
#print axioms RaceDecl.twin_completed_run_is_declaratively_race_free
#print axioms RaceDecl.iter_report_is_declarative_race
#print axioms RaceDecl.iter_completed_is_declaratively_race_free
#print axioms RaceDecl.twin_report_is_declarative_race_sync
#print axioms RaceDecl.twin_completed_run_is_declaratively_race_free_sync
#print axioms RaceDecl.iter_report_is_declarative_race_sync
#print axioms RaceDecl.iter_completed_is_declaratively_race_free_sync
#print axioms RaceDecl.raceFree_iff_no_dataRace
#print axioms RaceDecl.last_step_race
#print axioms RaceDecl.run_no_verdict_raceFree
#print axioms RaceDecl.event_op_mem
#print axioms RaceDecl.recorded_events
#print axioms RaceDecl.wfx_of_wf2
#print axioms RaceDecl.stepL_nSpur
#print axioms RaceDecl.not_spurUsed_of_noSpur
#print axioms RaceDecl.L.stepL_res
#print axioms RaceDecl.W.stepL_res
#print axioms RaceDecl.res_consume
#print axioms RaceDecl.runLoop_log
#print axioms RaceDecl.runLoop_log2
#print axioms RaceDecl.lock_report
#print axioms RaceDecl.lock_completed
#print axioms RaceDecl.wait_report
#print axioms RaceDecl.wait_completed
#print axioms RaceDecl.Example.racy_twin
#print axioms RaceDecl.Example.racy_named_pair
#print axioms RaceDecl.Example.racy_trace_records
#print axioms RaceDecl.Example.locked_twin
#print axioms RaceDecl.Example.locked_race_free
#print axioms RaceDecl.Example.locked_trace_records
#print axioms RaceDecl.Example.common_fragment
#print axioms RaceDecl.Example.mp_race_free
#print axioms RaceDecl.Example.mpLate_race
#print axioms RaceDecl.Example.ntf_race_free
#print axioms RaceDecl.Example.ntf_spurious_outside

/-
Axiom audit of the vector-clock soundness theorems.  Allowed: `propext`, `Classical.choice`, `Quot.sound`.
-/
import LoomVerif.Props.VCSound

open LoomVerif

#print axioms VCSound.run_iff_SCExec
#print axioms VCSound.clock_component_le_iff_hb
#print axioms VCSound.clock_le_iff_hb
#print axioms VCSound.own_component_counts
#print axioms VCSound.clock_stamp_counts
#print axioms VCSound.thread_clock_iff
#print axioms VCSound.mutex_clock_iff
#print axioms VCSound.object_clock_iff
#print axioms VCSound.cellW_clock_iff
#print axioms VCSound.cellR_clock_iff
#print axioms VCSound.step_verdict_declarative
#print axioms VCSound.race_reported_iff_unordered_conflict
#print axioms VCSound.race_reported_iff_unordered_conflict_sync
#print axioms VCSound.verdict_is_race
#print axioms VCSound.completed_trace_is_race_free
#print axioms VCSound.race_verdict_is_data_race
#print axioms VCSound.completed_trace_is_race_free_sync
#print axioms VCSound.race_verdict_is_data_race_sync
#print axioms VCSound.step_view
#print axioms VCSound.Run.inv
#print axioms VCSound.Example.Locked.wf
#print axioms VCSound.Example.Locked.trace_events
#print axioms VCSound.Example.Locked.trace_clocks
#print axioms VCSound.Example.Locked.unlock_lock_edge
#print axioms VCSound.Example.Locked.write_hb_read
#print axioms VCSound.Example.Locked.naive_all_ok
#print axioms VCSound.Example.Locked.no_race
#print axioms VCSound.Example.Locked.all_traces_ordered
#print axioms VCSound.Example.Racy.wf
#print axioms VCSound.Example.Racy.trace_events
#print axioms VCSound.Example.Racy.pair_conflicts
#print axioms VCSound.Example.Racy.pair_unordered
#print axioms VCSound.Example.six_threads_race_unreported
#print axioms VCSound.Example.Notify2.wf
#print axioms VCSound.Example.Notify2.trace_events
#print axioms VCSound.Example.Notify2.write_hb_read
#print axioms VCSound.Example.Notify2.unordered_if_wake_only
#print axioms VCSound.Example.Sync2.trace_events
#print axioms VCSound.Example.Sync2.unread_read_edge
#print axioms VCSound.Example.Sync2.unpark_park_edge
#print axioms VCSound.Example.Chan.wf
#print axioms VCSound.Example.Chan.trace_events
#print axioms VCSound.Example.Chan.send_recv_edge
#print axioms VCSound.Example.Chan.send_not_first_recv
#print axioms VCSound.Example.Chan.write_hb_read
#print axioms VCSound.hb_iff_hba
#print axioms VCSound.Run.chanOK

-- the program texts of the examples parse to the programs used (evaluation, not a kernel proof: `String.splitOn`
-- does not reduce in the kernel)
#eval Prog.parse "cfg c=1 m=1 | T0: spawn 1; lock 0; cwr 0 1; unlock 0; join 1 | T1: lock 0; crd 0; unlock 0"
  == some VCSound.Example.Locked.prog
#eval Prog.parse "cfg c=1 | T0: spawn 1; cwr 0 1; join 1 | T1: crd 0" == some VCSound.Example.Racy.prog
#eval Prog.parse
  "cfg c=1 n=1 | T0: spawn 1; spawn 2; spawn 3; cwr 0 1; nnotify 0 | T1: nwait 0 | T2: nnotify 0 | T3: nwait 0; crd 0"
  == some VCSound.Example.Notify2.prog
#eval Prog.parse
  "cfg c=2 l=1 | T0: spawn 1; cwr 0 1; rd 0; unrd 0; cwr 1 1; unpark 1; join 1 | T1: rd 0; unrd 0; crd 0; park; crd 1"
  == some VCSound.Example.Sync2.prog
#eval Prog.parse "cfg c=1 q=1 | T0: spawn 1; spawn 2; recv 0; recv 0; crd 0 | T1: cwr 0 1; send 0 1 | T2: send 0 2"
  == some VCSound.Example.Chan.prog

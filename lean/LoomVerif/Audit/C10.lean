/-
Axiom audit of the C10 headline theorems.  Allowed: `propext`, `Classical.choice`, `Quot.sound`.
-/
import LoomVerif.Props.C10

open LoomVerif

#print axioms Leak.leakOf_spelled_out
#print axioms Leak.check_iff
#print axioms Leak.check_first
#print axioms Leak.check_eq_findSome
#print axioms Leak.check_error_kind
#print axioms Alloc.trackNew_pushes
#print axioms Alloc.alloc_pushes
#print axioms Alloc.flag_is_dropped_track
#print axioms Alloc.flag_is_dropped_raw
#print axioms Sched.none_only_when_all_terminated
#print axioms C10_iteration
#print axioms C10_iteration_clean
#print axioms C10_iteration_leak
#print axioms Leak.isLeak_spelled_out
#print axioms C10_no_stage_reports_a_leak
#print axioms C10_leak_only_from_check
#print axioms C10_stage_deactivates_only_at_end
#print axioms C10_check_at_the_end
#print axioms C10_fresh_exec_active

/-
Axiom audit of the C09 headline theorems.  Allowed: `propext`, `Classical.choice`, `Quot.sound`.
-/
import LoomVerif.Props.C09

open LoomVerif

#print axioms Chan.ChanInv_spelled_out
#print axioms Chan.counts
#print axioms Chan.Run.inv
#print axioms Chan.fifo
#print axioms Chan.fifo_step
#print axioms Chan.recv_underflow_iff
#print axioms Chan.branch_spelled_out
#print axioms Chan.recv_blocks_iff_empty
#print axioms Chan.send_wakes
#print axioms Chan.send_wake_keeps_unpark_token
#print axioms Chan.recv_blocks_others
#print axioms Chan.try_recv_exact
#print axioms Chan.Run.acq
#print axioms Chan.send_hb_recv_step
#print axioms Chan.send_hb_recv
#print axioms Chan.leak_iff
#print axioms Chan.received_or_leaked
#print axioms Chan.sc_defs_spelled_out
#print axioms Chan.send_matches_SC
#print axioms Chan.recv_matches_SC
#print axioms Chan.tryRecv_empty_matches_SC
#print axioms Chan.block_matches_SC_enabled
#print axioms Chan.demo

import LoomVerif.Props.OracleRC11

#print axioms LoomVerif.OracleRC11.mem_AllMo
#print axioms LoomVerif.OracleRC11.mem_writesAt
#print axioms LoomVerif.OracleRC11.rc11Outcome_iff_data
#print axioms LoomVerif.OracleRC11.hb_indep
#print axioms LoomVerif.OracleRC11.reach_tids
#print axioms LoomVerif.OracleRC11.prune_init
#print axioms LoomVerif.OracleRC11.prune_hb
#print axioms LoomVerif.OracleRC11.prune_rmw
#print axioms LoomVerif.OracleRC11.prune_lossless
#print axioms LoomVerif.OracleRC11.pruned_sub
#print axioms LoomVerif.OracleRC11.exploreV_sound
#print axioms LoomVerif.OracleRC11.exploreV_complete
#print axioms LoomVerif.OracleRC11.exploreV_outcomes_iff
#print axioms LoomVerif.OracleRC11.exploreV_nodup
#print axioms LoomVerif.OracleRC11.exploreV_supported
#print axioms LoomVerif.OracleRC11.exploreV_capped
#print axioms LoomVerif.OracleRC11.exploreVD_sound
#print axioms LoomVerif.OracleRC11.exploreVD_complete
#print axioms LoomVerif.OracleRC11.completeNaive_spec
#print axioms LoomVerif.OracleRC11.refHas_iff
#print axioms LoomVerif.OracleRC11.sb_both_zero
#print axioms LoomVerif.OracleRC11.mp_not_stale
#print axioms LoomVerif.OracleRC11.row_reads_own_write
#print axioms LoomVerif.OracleRC11.rmw_not_stale
#print axioms LoomVerif.OracleRC11.rmw_stale_old

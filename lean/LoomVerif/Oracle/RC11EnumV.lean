/-
A TOTAL version of the RC11 enumerator `RC11.explore` (`Oracle/RC11Enum.lean`; a `partial def`, so
nothing can be proved about it): the same depth-first worklist over the pre-execution states of
`pstep` with a `Std.HashSet` of seen states, the same treatment of complete states (candidate,
pruned modification orders `moChoices`, consistency test, outcome) and of the two caps, but
structurally recursive: the outer loop runs on explicit fuel derived from `maxStates` (every state
enters the stack at most once, so `max maxStates 1` pops empty the stack; should the fuel run out
with work left, the result is marked `capped`), the inner loops are `List.foldl`s.

The loop is generic in the function `out` that turns a consistent graph into an outcome, so that
the same code (and the same theorems) serve the rendered outcome string `outcomeOf` (`exploreV`,
what the driver prints) and the structured outcome `outcomeData` (`exploreVD`, which the kernel can
evaluate; `outcomeOf = renderData ∘ outcomeData`).

One deliberate difference from `explore`: a program with more than `initTid` (= 99) threads is
reported as `unsupported` (the thread id `initTid` is reserved for the initial writes; with a
thread of that id the candidate graphs are meaningless).  No program of the test suite comes near.

Specification and theorems: `LoomVerif/Props/OracleRC11.lean`.
-/
import Std.Data.HashSet
import LoomVerif.Oracle.RC11Enum

namespace LoomVerif.RC11

deriving instance Hashable for Ret

/-- the successor function of `explore`: every step of every enabled thread -/
def succs (p : Prog) (s : PSt) : List PSt :=
  ((List.range s.ths.length).filter (penabled p s)).flatMap (pstep p s)

/-- the write events of location `x` (the `ws` of `moChoices`) -/
def Candidate.writesAt (c : Candidate) (x : Nat) : List Nat :=
  (List.range c.evs.size).filter fun i =>
    let e := c.evs.getD i default
    (e.kind == .W || e.kind == .U) && e.loc == x

/-- the modification orders `explore` tries for a candidate: one pruned choice per location -/
def prunedMos (c : Candidate) : List (List (List Nat)) :=
  product ((List.range c.nLoc).map (moChoices c (c.graph []).hb))

/-- structured outcome of a consistent graph: `none` for a data race, else the returns of all
operations (cell reads filled in), sorted as `SC.Outcome` sorts them -/
def outcomeData (p : Prog) (s : PSt) (g : Graph) : Option (List (Nat × Nat × Ret)) :=
  let hb := g.hb
  if !g.races.isEmpty then none else
  let rets : List (Nat × Nat × Ret) := (List.range s.ths.length).foldl (fun acc t =>
    (s.th t).rets.foldl (fun acc (pc, r) =>
      let r := match (p.threads.getD t [])[pc]? with
        | some (.cellRead _) =>
          match findIdx? (fun (e : Ev) => e.tid == t && e.pc == pc && e.kind == .NR) g.evs.toList with
          | some i => Ret.val (cellReadValue g hb i)
          | none => r
        | _ => r
      SC.insertRet (t, pc, r) acc) acc) []
  some rets

/-- the outcome string of a structured outcome -/
def renderData : Option (List (Nat × Nat × Ret)) → String
  | none => "causality"
  | some rets => " ".intercalate ("ok" :: rets.map fun (t, pc, r) => s!"{t}:{pc}={r.render}")

theorem outcomeOf_eq (p : Prog) (s : PSt) (g : Graph) :
    outcomeOf p s g = renderData (outcomeData p s g) := by
  unfold outcomeOf outcomeData
  by_cases h : (!g.races.isEmpty) = true
  · simp only [h, if_true, renderData]
  · simp only [h, renderData]; rfl

/-- the loop state of the worklist -/
structure WL (α : Type) [BEq α] [Hashable α] where
  seen : Std.HashSet PSt
  outs : Std.HashSet α
  stack : List PSt
  cands : Nat
  graphs : Nat
  cons : Nat
  capped : Bool
  unsupported : Bool

section
variable {α : Type} [BEq α] [Hashable α]

/-- the body of the inner `for s' in pstep p s t` loop of `explore` -/
@[inline] def visit (maxStates : Nat) (w : WL α) (s' : PSt) : WL α :=
  if w.seen.contains s' then w
  else if w.seen.size ≥ maxStates then { w with capped := true }
  else { w with seen := w.seen.insert s', stack := s' :: w.stack }

/-- the body of the `for mos in product …` loop of `explore` -/
@[inline] def evalMo (out : PSt → Graph → α) (strong : Bool) (maxGraphs : Nat) (s : PSt)
    (c : Candidate) (w : WL α) (mos : List (List Nat)) : WL α :=
  if w.graphs ≥ maxGraphs then { w with capped := true }
  else
    let g := c.graph mos
    if g.consistent strong then
      { w with graphs := w.graphs + 1, cons := w.cons + 1, outs := w.outs.insert (out s g) }
    else { w with graphs := w.graphs + 1 }

/-- what `explore` does for a complete state -/
@[inline] def evalComplete (p : Prog) (out : PSt → Graph → α) (strong : Bool) (maxGraphs : Nat)
    (w : WL α) (s : PSt) : WL α :=
  let c := candidate p s
  (prunedMos c).foldl (evalMo out strong maxGraphs s c) { w with cands := w.cands + 1 }

/-- the work done for one popped state `s` (`w.stack` already without it) -/
@[specialize] def expand (p : Prog) (out : PSt → Graph → α) (strong : Bool)
    (maxStates maxGraphs : Nat) (w : WL α) (s : PSt) : WL α :=
  if s.bad then { w with unsupported := true }
  else
    let ts := (List.range s.ths.length).filter (penabled p s)
    (ts.flatMap (pstep p s)).foldl (visit maxStates)
      (if ts.isEmpty then evalComplete p out strong maxGraphs w s else w)

/-- the outer `while !stack.isEmpty` loop, on explicit fuel; running out of fuel with work left
marks the result as capped (this cannot happen with the fuel `exploreG` provides) -/
@[specialize] def loop (p : Prog) (out : PSt → Graph → α) (strong : Bool)
    (maxStates maxGraphs : Nat) : Nat → WL α → WL α
  | 0, w =>
    match w.stack with
    | [] => w
    | _ :: _ => { w with capped := true }
  | fuel + 1, w =>
    match w.stack with
    | [] => w
    | s :: rest =>
      loop p out strong maxStates maxGraphs fuel
        (expand p out strong maxStates maxGraphs { w with stack := rest } s)

/-- the loop state `explore` starts from (plus the check on the number of threads) -/
def WL.start (p : Prog) : WL α :=
  { seen := (∅ : Std.HashSet PSt).insert (pinit p), outs := ∅, stack := [pinit p],
    cands := 0, graphs := 0, cons := 0, capped := false,
    unsupported := decide (initTid < p.threads.length) }

/-- pops needed at most: one per element `seen` can ever hold -/
def fuelFor (maxStates : Nat) : Nat := max maxStates 1

/-- the final loop state -/
@[specialize] def finalWL (p : Prog) (out : PSt → Graph → α) (strong : Bool)
    (maxStates maxGraphs : Nat) : WL α :=
  loop p out strong maxStates maxGraphs (fuelFor maxStates) (WL.start p)

end

/-- the result of the enumeration with structured outcomes -/
structure ResultD where
  outcomes : List (Option (List (Nat × Nat × Ret)))
  candidates : Nat
  graphs : Nat
  consistent : Nat
  capped : Bool
  unsupported : Bool

/-- total counterpart of `explore`: memoised depth-first exploration of at most `maxStates`
pre-execution states, at most `maxGraphs` candidate graphs -/
def exploreV (p : Prog) (strong : Bool) (maxStates maxGraphs : Nat) : Result :=
  let w := finalWL p (outcomeOf p) strong maxStates maxGraphs
  { outcomes := w.outs.toList, candidates := w.cands, graphs := w.graphs, consistent := w.cons,
    capped := w.capped, unsupported := w.unsupported }

/-- the same with structured outcomes -/
def exploreVD (p : Prog) (strong : Bool) (maxStates maxGraphs : Nat) : ResultD :=
  let w := finalWL p (outcomeData p) strong maxStates maxGraphs
  { outcomes := w.outs.toList, candidates := w.cands, graphs := w.graphs, consistent := w.cons,
    capped := w.capped, unsupported := w.unsupported }

end LoomVerif.RC11

/-
A TOTAL version of the memoised enumerator `SC.explore` (which is an opaque, possibly
non-terminating definition, so nothing can be proved about it): the same depth-first worklist with a `Std.HashSet` of seen states, but
structurally recursive on explicit fuel derived from `maxStates`.  Every state enters the stack
at most once (when it is inserted into `seen`), and `seen` never grows beyond `max maxStates 1`
elements, so `max maxStates 1` pops always empty the stack (`Proofs/OracleSC.lean`,
`CapInv.loop`, `exploreV_capped`); should the fuel nevertheless run out with a non-empty stack the result is
marked `capped`, so no verdict can ever rest on an incomplete exploration.

The successor function, the notion of terminal state and the treatment of the cap are exactly
those of `explore`; specification and proofs: `LoomVerif/Proofs/OracleSC.lean`.
-/
import Std.Data.HashSet
import LoomVerif.Oracle.SCEnum

namespace LoomVerif.SC

/-- the successor function of `explore`: every step of every enabled thread, then every spurious
transition of every thread -/
def succs (p : Prog) (s : St) : List St :=
  (enabledThreads p s).flatMap (step p s) ++ (List.range s.ths.length).flatMap (spurious p s)

/-- the loop state of the worklist -/
structure WL where
  seen : Std.HashSet St
  outs : Std.HashSet Outcome
  stack : List St
  transitions : Nat
  capped : Bool

/-- the body of the inner `for s' in succ` loop of `explore` -/
@[inline] def visit (maxStates : Nat) (w : WL) (s' : St) : WL :=
  if w.seen.contains s' then { w with transitions := w.transitions + 1 }
  else if w.seen.size ≥ maxStates then { w with transitions := w.transitions + 1, capped := true }
  else { w with seen := w.seen.insert s', stack := s' :: w.stack,
                transitions := w.transitions + 1 }

/-- the work done for one popped state `s` (`w.stack` already without it): record the outcome of
a state without enabled threads, then visit all successors (also those of a terminal state) -/
@[inline] def expand (p : Prog) (maxStates : Nat) (w : WL) (s : St) : WL :=
  (succs p s).foldl (visit maxStates)
    (if (enabledThreads p s).isEmpty then { w with outs := w.outs.insert (outcome s) } else w)

/-- the outer `while !stack.isEmpty` loop, on explicit fuel; running out of fuel with work left
marks the result as capped (this never happens with the fuel `exploreV` provides) -/
def loop (p : Prog) (maxStates : Nat) : Nat → WL → WL
  | 0, w =>
    match w.stack with
    | [] => w
    | _ :: _ => { w with capped := true }
  | fuel + 1, w =>
    match w.stack with
    | [] => w
    | s :: rest => loop p maxStates fuel (expand p maxStates { w with stack := rest } s)

/-- the loop state `explore` starts from -/
def WL.start (p : Prog) : WL :=
  { seen := (∅ : Std.HashSet St).insert (init p), outs := ∅, stack := [init p],
    transitions := 0, capped := false }

/-- pops needed at most: one per element `seen` can ever hold -/
def fuelFor (maxStates : Nat) : Nat := max maxStates 1

/-- memoised depth-first exploration, at most `maxStates` distinct states; total -/
def exploreV (p : Prog) (maxStates : Nat) : Result :=
  let w := loop p maxStates (fuelFor maxStates) (WL.start p)
  { outcomes := w.outs.toList, states := w.seen.size, transitions := w.transitions,
    capped := w.capped }

end LoomVerif.SC

/-
Executable enumerator of the reference interleaving semantics: all outcomes of a program.
`outcomesNaive` is the definition-shaped enumerator (a plain recursion over the transition
relation, exponential); `explore` is the memoised worklist version used by the checks.
-/
import Std.Data.HashSet
import LoomVerif.Spec.SC

namespace LoomVerif.SC

/-- threads that can step in `s` -/
def enabledThreads (p : Prog) (s : St) : List Nat :=
  (List.range s.ths.length).filter (enabled p s)

/-- all outcomes reachable from `s` within `fuel` steps; `none` if the fuel ran out somewhere -/
def outcomesNaive (p : Prog) : Nat → St → Option (List Outcome)
  | 0, _ => none
  | fuel + 1, s =>
    let ts := enabledThreads p s
    let here := if ts.isEmpty then [outcome s] else []
    let succ := ts.flatMap (step p s) ++ (List.range s.ths.length).flatMap (spurious p s)
    succ.foldl (fun acc s' =>
      match acc, outcomesNaive p fuel s' with
      | some a, some b => some (a ++ b)
      | _, _ => none) (some here)

structure Result where
  outcomes : List Outcome
  states : Nat
  transitions : Nat
  capped : Bool

/-- memoised depth-first exploration, at most `maxStates` distinct states -/
partial def explore (p : Prog) (maxStates : Nat) : Result := Id.run do
  let mut seen : Std.HashSet St := {}
  let mut outs : Std.HashSet Outcome := {}
  let mut stack : List St := [init p]
  let mut transitions := 0
  let mut capped := false
  seen := seen.insert (init p)
  while !stack.isEmpty do
    match stack with
    | [] => break
    | s :: rest =>
      stack := rest
      let ts := enabledThreads p s
      -- a state without enabled threads ends an execution (normally, or as a deadlock)
      if ts.isEmpty then outs := outs.insert (outcome s)
      let succ := ts.flatMap (step p s) ++ (List.range s.ths.length).flatMap (spurious p s)
      for s' in succ do
        transitions := transitions + 1
        if !seen.contains s' then
          if seen.size ≥ maxStates then
            capped := true
          else
            seen := seen.insert s'
            stack := s' :: stack
  return { outcomes := outs.toList, states := seen.size, transitions, capped }

def Verdict.render : Verdict → String
  | .ok => "ok" | .deadlock => "deadlock" | .race k => s!"causality:{k}" | .leak => "leak"
  | .panic => "user" | .misuse c => s!"misuse:{c}"

def Outcome.render (o : Outcome) : String :=
  " ".intercalate (o.verdict.render :: o.rets.map fun (t, pc, r) => s!"{t}:{pc}={r.render}")

end LoomVerif.SC

/-
Reference semantics of a `core::sync::atomic` cell (`AtomicU8 … AtomicIsize`, `AtomicBool`,
`AtomicPtr<T>`) that is used by ONE thread.  Written from the std documentation, independently of
the closures of `Model/Num.lean`:

* the state of the cell is its content, a typed value (an `Int` in the range of the type; `bool`
  is 0/1, a pointer is its address, a `usize`);
* arithmetic and bitwise operations are those of the two's-complement machine word of the type's
  width: they are done on `BitVec t.bits` (`+`, `-`, `&&&`, `|||`, `^^^`, `~~~` of core Lean), after
  encoding the typed value (`enc`) and before decoding the word again (`dec`: `toInt` for the
  signed types, `toNat` for the unsigned ones);
* `max`/`min` are those of the typed order, which is the order of `Int` on in-range values;
* memory orderings have no influence on the values seen by a single thread.

The only things shared with the model are the *types* `ATy`, `AOp`, `Ret`, `RmwFn`, `FupdFn`
(the vocabulary of the DSL) and `FupdFn.apply`, the meaning of the *user's* closure handed to
`fetch_update` (it is an input of the operation, the same on both sides, not a part of the
atomic's semantics).

Import-free apart from those two model files: this file is linked into the native driver.
-/
import LoomVerif.Model.Num
import LoomVerif.Model.AtomicApi

namespace LoomVerif
namespace Std

/-- the machine word of a typed value: its two's-complement bit pattern on `t.bits` bits -/
def enc (t : ATy) (v : Int) : BitVec t.bits := BitVec.ofInt t.bits v

/-- the typed value of a machine word: signed types read it in two's complement -/
def dec (t : ATy) (w : BitVec t.bits) : Int := if t.signed then w.toInt else (w.toNat : Int)

/-- `fetch_add`: "Adds to the current value … This operation wraps around on overflow." -/
def wadd (t : ATy) (c v : Int) : Int := dec t (enc t c + enc t v)
/-- `fetch_sub`: "Subtracts from the current value … wraps around on overflow." -/
def wsub (t : ATy) (c v : Int) : Int := dec t (enc t c - enc t v)
/-- `fetch_and`: "Bitwise “and” with the current value." (logical "and" for `bool`) -/
def band (t : ATy) (c v : Int) : Int := dec t (enc t c &&& enc t v)
/-- `fetch_nand`: "Bitwise “nand” with the current value." (`!(c & v)`) -/
def bnand (t : ATy) (c v : Int) : Int := dec t (~~~(enc t c &&& enc t v))
/-- `fetch_or` -/
def bor (t : ATy) (c v : Int) : Int := dec t (enc t c ||| enc t v)
/-- `fetch_xor` -/
def bxor (t : ATy) (c v : Int) : Int := dec t (enc t c ^^^ enc t v)

/-- the new content written by `fetch_<f>(v)` when the content is `c`.
(`const`/`casEq` are not `fetch_*` operations — they are `swap`/`compare_exchange`, which have
their own clauses in `step`; they are given their natural meaning here for totality.) -/
def fetchNew (t : ATy) (f : RmwFn) (c : Int) : Int :=
  match f with
  | .add v => wadd t c v
  | .sub v => wsub t c v
  | .and v => band t c v
  | .nand v => bnand t c v
  | .or v => bor t c v
  | .xor v => bxor t c v
  | .max v => max c v          -- "Maximum with the current value" (typed order)
  | .min v => min c v          -- "Minimum with the current value"
  | .const v => v
  | .casEq cur new => if c = cur then new else c

/-- One API call on a std atomic of type `t` with content `c`, by the only thread there is:
the new content and the returned value. -/
def step (t : ATy) (c : Int) (op : AOp) : Int × Ret :=
  match op with
  -- `load`: "Loads a value from the atomic."
  | .load _ => (c, .val c)
  -- `store`: "Stores a value into the atomic."
  | .store v _ => (v, .unit)
  -- `swap`: "Stores a value into the atomic, returning the previous value."
  | .swap v _ => (v, .val c)
  -- `compare_exchange(_weak)`: "Stores a value into the atomic if the current value is the same as
  -- the `current` value.  The return value is a result indicating whether the new value was
  -- written and containing the previous value.  On success this value is guaranteed to be equal
  -- to `current`."  (a single thread cannot observe a spurious failure of the weak variant other
  -- than by retrying, and loom's weak variant never fails spuriously)
  | .cas cur new _ _ => if c = cur then (new, .ok c) else (c, .err c)
  -- `compare_and_swap`: "The return value is always the previous value."
  | .cswp cur new _ => if c = cur then (new, .val c) else (c, .val c)
  -- `fetch_add` … `fetch_min`: "… returning the previous value."
  | .fetch f _ => (fetchNew t f c, .val c)
  -- `fetch_update`: "Fetches the value, and applies a function to it that returns an optional new
  -- value.  Returns a `Result` of `Ok(previous_value)` if the function returned `Some(_)`, else
  -- `Err(previous_value)`."  With one thread the function is applied once.
  | .fupd f _ _ =>
    match f.apply t c with
    | some next => (next, .ok c)
    | none => (c, .err c)
  -- `into_inner` / loom's `unsync_load` (= reading through `get_mut`/`as_ptr`)
  | .unsyncLoad => (c, .val c)
  -- `*get_mut()`: `with_mut(|p| { let old = *p; *p = v; old })`
  | .withMut v => (v, .val c)

/-- A sequence of API calls by one thread: the returned values and the final content. -/
def run (t : ATy) (init : Int) : List AOp → List Ret × Int
  | [] => ([], init)
  | op :: ops =>
    let (c, r) := step t init op
    let (rs, fin) := run t c ops
    (r :: rs, fin)

end Std

/-! ### Which operations exist, with which operands -/

namespace Ord
/-- `load`: "Panics if `order` is `Release` or `AcqRel`."  The same restriction applies to the
failure ordering of `compare_exchange` and to the fetch ordering of `fetch_update`. -/
def validLoad : Ord → Bool | .rel | .ar => false | _ => true
/-- `store`: "Panics if `order` is `Acquire` or `AcqRel`." -/
def validStore : Ord → Bool | .acq | .ar => false | _ => true
end Ord

namespace RmwFn
/-- every operand of the closure is a value of type `t` -/
def operandsInRange (t : ATy) : RmwFn → Bool
  | const v | add v | sub v | and v | nand v | or v | xor v | max v | min v => t.inRange v
  | casEq c n => t.inRange c && t.inRange n

/-- is `f` one of `fetch_add … fetch_min`, and does type `t` have it?
Integers have all eight; `AtomicBool` has `fetch_and/nand/or/xor`; loom's `AtomicPtr` has none. -/
def isFetchOf (t : ATy) : RmwFn → Bool
  | const _ | casEq _ _ => false
  | add _ | sub _ | max _ | min _ => t != .bool && t != .ptr
  | and _ | nand _ | or _ | xor _ => t != .ptr
end RmwFn

/-- the operands of the user's closure: none of them has to be in range (`k`, `lim` are arbitrary
integers of the script; the closure wraps its result into the type) -/
def FupdFn.ok (_t : ATy) (_f : FupdFn) : Bool := true

namespace AOp

/-- the operation exists on `loom::sync::atomic::Atomic<t>` and its operands are values of type
`t`.  (loom's `AtomicBool` has no `with_mut`.) -/
def operandsOk (t : ATy) : AOp → Bool
  | load _ => true
  | store v _ => t.inRange v
  | swap v _ => t.inRange v
  | cas c n _ _ => t.inRange c && t.inRange n
  | cswp c n _ => t.inRange c && t.inRange n
  | fetch f _ => f.isFetchOf t && f.operandsInRange t
  | fupd f _ _ => f.ok t
  | unsyncLoad => true
  | withMut v => t != .bool && t.inRange v

/-- the orderings are accepted by std (invalid ones make std panic; loom accepts them silently) -/
def ordOk : AOp → Bool
  | load o => o.validLoad
  | store _ o => o.validStore
  | cas _ _ _ fo => fo.validLoad
  | fupd _ _ fo => fo.validLoad
  | _ => true

/-- a valid call of the API of `Atomic<t>` -/
def valid (t : ATy) (op : AOp) : Bool := op.operandsOk t && op.ordOk

end AOp
end LoomVerif

/-
Reference memory model: RC11 (Lahav, Vafeiadis, Kang, Hur, Dreyer, PLDI 2017) with the C++20
release sequence (only RMWs continue it), for execution graphs of litmus programs of the DSL:
atomic loads / stores / RMWs / fences, spawn / join, and non-atomic cell accesses (for data races).

Two instances:
* `strong`: SeqCst accesses take part in the SC axiom (`psc`) — what must be explorable (C02);
* `doc`:    SeqCst accesses count as acquire/release only, as loom's README documents — what may be
            explored (C03).  SeqCst *fences* take part in `psc` in both.

Load buffering is excluded by requiring `sb ∪ rf` acyclic.  Relations are boolean matrices over the
events of one graph.  This file is trusted as the meaning of C02/C03; it is meant to be read.
-/
import LoomVerif.Model.VV

namespace LoomVerif.RC11

/-- event kinds -/
inductive EK
  | R | W | U            -- atomic read, write, successful read-modify-write
  | F                    -- fence
  | NR | NW              -- non-atomic (cell) read / write
  | S                    -- pure synchronisation event (spawn, join, thread start/end)
deriving DecidableEq, Repr, Inhabited

structure Ev where
  tid : Nat
  po : Nat               -- position in the thread's program order
  kind : EK
  loc : Nat := 0         -- atomics and cells live in different name spaces (`isCell`)
  ord : Ord := .rlx
  rval : Int := 0
  wval : Int := 0
  pc : Nat := 0          -- the DSL operation this event belongs to
deriving DecidableEq, Repr, Inhabited

/-- a finite relation on event indices `0 … n-1` -/
structure Rel where
  n : Nat
  m : Array Bool
deriving Repr, Inhabited

namespace Rel
def get (r : Rel) (a b : Nat) : Bool := r.m.getD (a * r.n + b) false
def ofFn (n : Nat) (f : Nat → Nat → Bool) : Rel :=
  ⟨n, Array.ofFn (n := n * n) fun i => f (i.val / n) (i.val % n)⟩
def empty (n : Nat) : Rel := ofFn n fun _ _ => false
def union (r s : Rel) : Rel := ofFn r.n fun a b => r.get a b || s.get a b
def inter (r s : Rel) : Rel := ofFn r.n fun a b => r.get a b && s.get a b
def seq (r s : Rel) : Rel := ofFn r.n fun a b => (List.range r.n).any fun c => r.get a c && s.get c b
def inv (r : Rel) : Rel := ofFn r.n fun a b => r.get b a
/-- reflexive closure `r?` -/
def opt (r : Rel) : Rel := ofFn r.n fun a b => a == b || r.get a b
/-- restriction of the identity to a set: `[A]` -/
def idOn (n : Nat) (p : Nat → Bool) : Rel := ofFn n fun a b => a == b && p a
/-- transitive closure (Warshall) -/
def tc (r : Rel) : Rel :=
  (List.range r.n).foldl (fun acc k =>
    ofFn r.n fun a b => acc.get a b || (acc.get a k && acc.get k b)) r
def irreflexive (r : Rel) : Bool := (List.range r.n).all fun a => !r.get a a
def acyclic (r : Rel) : Bool := r.tc.irreflexive
instance : Union Rel := ⟨union⟩
end Rel

/-- an execution graph: events, reads-from (`rf w r`), modification order (`mo w w'`), and the
extra synchronisation edges of spawn/join (`asw`) -/
structure Graph where
  evs : Array Ev
  rf : Rel
  mo : Rel
  asw : Rel
deriving Repr, Inhabited

namespace Graph
variable (g : Graph)

def n : Nat := g.evs.size
def ev (i : Nat) : Ev := g.evs.getD i default
def isW (i : Nat) : Bool := (g.ev i).kind == .W || (g.ev i).kind == .U
def isR (i : Nat) : Bool := (g.ev i).kind == .R || (g.ev i).kind == .U
def isU (i : Nat) : Bool := (g.ev i).kind == .U
def isF (i : Nat) : Bool := (g.ev i).kind == .F
def isAtomicAccess (i : Nat) : Bool := g.isW i || g.isR i
def isCell (i : Nat) : Bool := (g.ev i).kind == .NR || (g.ev i).kind == .NW
def sameLoc (a b : Nat) : Bool :=
  (g.isAtomicAccess a && g.isAtomicAccess b || g.isCell a && g.isCell b) && (g.ev a).loc == (g.ev b).loc

/-- orderings as seen by the model: in `doc` mode a SeqCst *access* is acquire/release -/
def acq (i : Nat) : Bool := (g.ev i).ord.acquires
def rel (i : Nat) : Bool := (g.ev i).ord.releases
def isSC (strong : Bool) (i : Nat) : Bool :=
  (g.ev i).ord == .sc && (g.isF i || (strong && g.isAtomicAccess i))

/-- sequenced-before: program order of one thread -/
def sb : Rel := Rel.ofFn g.n fun a b => (g.ev a).tid == (g.ev b).tid && (g.ev a).po < (g.ev b).po

/-- release sequence (C++20): a write followed by any number of RMWs reading from it -/
def rs : Rel :=
  let rfU := Rel.ofFn g.n fun a b => g.rf.get a b && g.isU b
  (Rel.idOn g.n g.isW).seq rfU.tc.opt

/-- synchronises-with: a release write/fence, through a release sequence and a read, to an
acquire read/fence -/
def sw : Rel :=
  let relE := Rel.idOn g.n fun i => g.rel i && (g.isW i || g.isF i)
  let acqE := Rel.idOn g.n fun i => g.acq i && (g.isR i || g.isF i)
  let fsb := (Rel.idOn g.n g.isF).seq g.sb          -- [F]; sb
  let sbf := g.sb.seq (Rel.idOn g.n g.isF)          -- sb; [F]
  -- [rel]; ([F]; sb)?; [W]; rs; rf; [R]; (sb; [F])?; [acq]
  let core := (Rel.idOn g.n g.isW).seq (g.rs.seq (g.rf.seq (Rel.idOn g.n g.isR)))
  (relE.seq (fsb.opt.seq (core.seq (sbf.opt.seq acqE)))) ∪ g.asw

/-- happens-before -/
def hb : Rel := (g.sb ∪ g.sw).tc

/-- from-reads: `r` reads from a write `mo`-before `w` (`(rf⁻¹; mo) \ id`: an RMW is not
from-read-before itself) -/
def fr : Rel :=
  let r := g.rf.inv.seq g.mo
  Rel.ofFn g.n fun a b => a != b && r.get a b

/-- extended coherence order -/
def eco : Rel := (g.rf ∪ g.mo ∪ g.fr).tc

/-- COHERENCE: `hb; eco?` irreflexive -/
def coherent : Bool := (g.hb.seq g.eco.opt).irreflexive

/-- ATOMICITY: no write intervenes between an RMW and the write it reads from, and that write is `mo`-before the
RMW.  (RMWs are single events here.  In the two-event presentation of RC11 the second half follows from
coherence, because the read half is `sb`-before the write half; with one event `rf w u ∧ mo u w` is a cycle in
`eco` alone, which COHERENCE — `hb; eco?` irreflexive — does not see.  Found by the proof of the enumerator's
pruning, `Props/OracleRC11.lean`.) -/
def atomicity : Bool :=
  (List.range g.n).all fun u => !g.isU u ||
    (List.range g.n).all fun w =>
      !(g.fr.get u w && g.mo.get w u) && (!g.rf.get w u || g.mo.get w u)

/-- SC: `psc` acyclic -/
def scAxiom (strong : Bool) : Bool :=
  let hb := g.hb
  let sbNeq := Rel.ofFn g.n fun a b => g.sb.get a b && !g.sameLoc a b
  let hbLoc := Rel.ofFn g.n fun a b => hb.get a b && g.sameLoc a b
  let scb := g.sb ∪ (sbNeq.seq (hb.seq sbNeq)) ∪ hbLoc ∪ g.mo ∪ g.fr
  let eSC := Rel.idOn g.n fun i => g.isSC strong i && !g.isF i
  let fSC := Rel.idOn g.n fun i => g.isSC strong i && g.isF i
  let left := eSC ∪ fSC.seq hb.opt
  let right := eSC ∪ hb.opt.seq fSC
  let pscBase := left.seq (scb.seq right)
  let pscF := fSC.seq ((hb ∪ hb.seq (g.eco.seq hb)).seq fSC)
  (pscBase ∪ pscF).acyclic

/-- NO-THIN-AIR (as in RC11): `sb ∪ rf` acyclic -/
def noThinAir : Bool := (g.sb ∪ g.rf).acyclic

/-- well-formedness of `rf` and `mo`: every read reads from exactly one write of its location with
the value it returns; `mo` is a strict total order on the writes of each location -/
def wellFormed : Bool :=
  ((List.range g.n).all fun r => !g.isR r ||
    ((List.range g.n).filter fun w => g.rf.get w r).length == 1) &&
  ((List.range g.n).all fun w => (List.range g.n).all fun r => !g.rf.get w r ||
    (g.isW w && g.isR r && g.sameLoc w r && (g.ev w).wval == (g.ev r).rval)) &&
  ((List.range g.n).all fun a => (List.range g.n).all fun b =>
    if g.isW a && g.isW b && g.sameLoc a b && a != b then g.mo.get a b != g.mo.get b a
    else !g.mo.get a b) &&
  g.mo.tc.irreflexive

/-- RC11 consistency -/
def consistent (strong : Bool) : Bool :=
  g.wellFormed && g.coherent && g.atomicity && g.scAxiom strong && g.noThinAir

/-- a data race: two conflicting cell accesses of different threads unordered by `hb` -/
def races : List (Nat × Nat) :=
  (List.range g.n).flatMap fun a => (List.range g.n).filterMap fun b =>
    if a < b && g.isCell a && g.isCell b && g.sameLoc a b
        && ((g.ev a).kind == .NW || (g.ev b).kind == .NW)
        && !g.hb.get a b && !g.hb.get b a then some (a, b) else none

end Graph
end LoomVerif.RC11

/-
Reference semantics of DSL programs: a plain interleaving machine.

No scheduler, no DPOR, no store history: every operation is one atomic step of a thread (the
two-phase `cvwait` excepted), atomics are sequentially consistent memory, blocking operations are
*disabled* while they cannot complete.  Happens-before is tracked with textbook vector clocks only
to define data races on cells (spawn/join, lock hand-over, messages, notify→wait, unpark→park,
release/acquire atomics with release sequences through RMWs).  Programs with fences are outside
this machine (they are judged by `Spec/RC11.lean`).

This file is trusted as the *meaning* of the properties; it is meant to be read.  Import-free
apart from the DSL and the std-atomic reference semantics.
-/
import LoomVerif.Model.Prog
import LoomVerif.Spec.StdAtomic

namespace LoomVerif

instance : Hashable VV := ⟨fun v => hash v.toList⟩
deriving instance Hashable for Ret

namespace SC

/-- how an execution ends -/
inductive Verdict
  | ok
  | deadlock
  | race (kind : Nat)          -- same numbering as `Panic.causality`
  | leak
  | panic                      -- the DSL's `panic`
  | misuse (code : Nat)        -- the program breaks a precondition of the API (outside the families)
deriving DecidableEq, Repr, Inhabited, Hashable

structure Th where
  pc : Nat := 0
  started : Bool := false
  finished : Bool := false
  rets : List (Nat × Ret) := []
  /-- inside `cvwait v m`: queued on the condvar, mutex released, not notified yet -/
  cvWaiting : Option (Nat × Nat) := none
  /-- notified: must re-acquire mutex `m` to finish the `cvwait` -/
  cvNotified : Option Nat := none
  token : Bool := false
  tokenVC : VV := VV.zero
  vc : VV := VV.zero
  /-- thread-locals of this thread: key ↦ instance id -/
  locals : List (Nat × Nat) := []
  /-- progress inside a multi-step operation (`blockon`): see `step` -/
  phase : Nat := 0
  /-- waker clones kept by this thread (`wclone`): future ↦ the `block_on` call they belong to -/
  held : List (Nat × Nat) := []
deriving DecidableEq, Repr, Inhabited, Hashable

/-- a scripted future of the DSL and the `block_on` that drives it -/
structure Fut where
  slot : Bool := false             -- a waker clone is registered (plain slot or `AtomicWaker`)
  notified : Bool := false         -- the `block_on`'s notification flag
  spurUsed : Bool := false         -- its one modelled spurious return has happened
  wakers : Nat := 0                -- live references to the `block_on`'s waker
  rel : VV := VV.zero              -- release clock of the notifications
  polled : Bool := false           -- mode 5: the current call has polled its future once
  gen : Nat := 0                   -- which `block_on` call of this future is the current one
  slotGen : Nat := 0               -- the call whose waker is registered
deriving DecidableEq, Repr, Inhabited, Hashable

structure St where
  ths : List Th
  atoms : List Int
  atomRel : List VV                 -- release clock carried by the latest store of each atomic
  cells : List Int
  cellW : List VV
  cellR : List VV
  /-- open read sections of each cell (`crdb` … `crde`) and whether a write section is open -/
  cellOpen : List Nat
  cellWOpen : List Bool
  mutex : List (Option Nat)
  mutexRel : List VV
  rwWriter : List (Option Nat)
  rwReaders : List (List Nat)
  rwRel : List VV
  cvQueue : List (List Nat)
  nFlag : List Bool
  nSpurUsed : List Bool
  nRel : List VV
  chan : List (List (Int × VV))
  chanRel : List VV
  rxDropped : List Bool
  chanLeft : List Nat              -- messages sent after the receiver was dropped
  arcs : List (Nat × VV)            -- (strong count, release clock)
  handles : List (Nat × Nat)        -- slot ↦ arc
  tracks : List (Nat × Bool)        -- slot ↦ dropped
  tlsInits : List Nat := [0, 0]
  tlsDrops : List Nat := [0, 0]
  tlsObs : List Nat := [0, 0]
  lazyInit : List Nat := [0, 0]     -- number of initialisations of each lazy static in this execution
  lazyRel : List VV := [VV.zero, VV.zero]
  lazyDropped : Bool := false       -- the main closure has returned
  futs : List Fut := []
  verdict : Option Verdict := none  -- set when the execution has ended abnormally
deriving DecidableEq, Repr, Inhabited, Hashable

def init (p : Prog) : St :=
  let c := p.cfg
  let z := fun n => List.replicate n VV.zero
  { ths := (List.range p.threads.length).map fun i => { started := i == 0 }
    atoms := List.replicate c.nAtomics 0, atomRel := z c.nAtomics
    cells := List.replicate c.nCells 0, cellW := z c.nCells, cellR := z c.nCells,
    cellOpen := List.replicate c.nCells 0, cellWOpen := List.replicate c.nCells false
    mutex := List.replicate c.nMutexes none, mutexRel := z c.nMutexes
    rwWriter := List.replicate c.nRwlocks none, rwReaders := List.replicate c.nRwlocks []
    rwRel := z c.nRwlocks
    cvQueue := List.replicate c.nCondvars []
    nFlag := List.replicate c.nNotifies false, nSpurUsed := List.replicate c.nNotifies false
    nRel := z c.nNotifies
    chan := List.replicate c.nChans [], chanRel := z c.nChans
    rxDropped := List.replicate c.nChans false, chanLeft := List.replicate c.nChans 0
    arcs := [], handles := [], tracks := []
    futs := List.replicate c.nFutures {} }

def St.th (s : St) (t : Nat) : Th := s.ths.getD t {}
def St.modTh (s : St) (t : Nat) (f : Th → Th) : St := { s with ths := s.ths.modify t f }
def St.vc (s : St) (t : Nat) : VV := (s.th t).vc
def St.acquire (s : St) (t : Nat) (c : VV) : St := s.modTh t fun h => { h with vc := h.vc.join c }
/-- every step first advances the thread's own clock component -/
def St.tick (s : St) (t : Nat) : St := s.modTh t fun h => { h with vc := h.vc.inc t }

def opOf (p : Prog) (s : St) (t : Nat) : Option Op := (p.threads.getD t [])[(s.th t).pc]?

/-- the operation completes with result `r` -/
def St.ret (s : St) (t : Nat) (r : Ret) : St :=
  s.modTh t fun h => { h with rets := (h.pc, r) :: h.rets, pc := h.pc + 1 }

def St.stop (s : St) (v : Verdict) : St := { s with verdict := some v }

def releasesOf : AOp → Bool
  | .store _ o | .swap _ o | .fetch _ o | .cswp _ _ o => o.releases
  | .cas _ _ so _ | .fupd _ so _ => so.releases
  | _ => false
def acquiresOf (okk : Bool) : AOp → Bool
  | .load o | .swap _ o | .fetch _ o => o.acquires
  | .cswp _ _ o => if okk then o.acquires else (cswpFailure o).acquires
  | .cas _ _ so fo | .fupd _ so fo => if okk then so.acquires else fo.acquires
  | _ => false
def isRmw : AOp → Bool
  | .swap .. | .fetch .. | .cswp .. | .cas .. | .fupd .. => true
  | _ => false

def bool01 (b : Bool) : Ret := .val (if b then 1 else 0)

/-- can thread `t` take a step?  (The spurious return of `nwait` is possible but never
guaranteed, so it does not make a thread enabled: see `spurious`.) -/
def enabled (p : Prog) (s : St) (t : Nat) : Bool :=
  let h := s.th t
  s.verdict.isNone && h.started && !h.finished &&
  match h.cvWaiting, h.cvNotified with
  | some _, _ => false
  | none, some m => (s.mutex.getD m none).isNone
  | none, none =>
    match opOf p s t with
    | none => true                                  -- thread end
    | some op =>
      match op with
      | .lock m => (s.mutex.getD m none).isNone
      | .read l => (s.rwWriter.getD l none).isNone
      | .write l => (s.rwWriter.getD l none).isNone && (s.rwReaders.getD l []).isEmpty
      | .nWait n => s.nFlag.getD n false
      | .park => h.token
      | .join b => (s.th b).finished
      | .await x v _ => s.atoms.getD x 0 == v
      | .recv q => !(s.chan.getD q []).isEmpty
      | .blockOn f _ => h.phase != 4 || (s.futs.getD f {}).notified
      | _ => true

def arcOf (s : St) (h : Nat) : Option Nat := s.handles.lookup h

/-- drop one strong reference of arc `a` by thread `t`; returns the state and whether it was the
last one -/
def arcDec (s : St) (t : Nat) (a : Nat) : St × Bool :=
  match s.arcs[a]? with
  | none => (s.stop (.misuse 1), false)
  | some (n, rel) =>
    if n == 0 then (s.stop (.misuse 2), false) else
    let rel := rel.join (s.vc t)
    let s := { s with arcs := s.arcs.set a (n - 1, rel) }
    if n == 1 then (s.acquire t rel, true) else (s, false)

/-- the one modelled spurious return of `Notify::wait`: thread `t` may (but need not) return from
`nwait n` without a notification, once per `Notify` per execution -/
def spurious (p : Prog) (s : St) (t : Nat) : List St :=
  let h := s.th t
  if s.verdict.isSome || !h.started || h.finished || h.cvWaiting.isSome || h.cvNotified.isSome then []
  else match opOf p s t with
    | some (.nWait n) =>
      if !(s.nSpurUsed.getD n true) then
        [(({ s with nSpurUsed := s.nSpurUsed.set n true }).tick t).ret t .unit]
      else []
    | some (.blockOn f _) =>
      -- the `Notify` inside `block_on` may return spuriously once: the future is polled again
      if h.phase == 4 && !(s.futs.getD f {}).spurUsed then
        [({ s with futs := s.futs.modify f fun u => { u with spurUsed := true } }).modTh t fun h =>
          { h with phase := 1 }]
      else []
    | _ => []

/-- `LocalKey::with` by thread `t`: lazily initialised once per thread, private to it -/
def tlsGet (s : St) (t k : Nat) : St × Nat :=
  match (s.th t).locals.lookup k with
  | some id => (s, id)
  | none =>
    let id := t * 10 + 1
    (({ s with tlsInits := s.tlsInits.set k (s.tlsInits.getD k 0 + 1) }).modTh t fun h =>
      { h with locals := (k, id) :: h.locals }, id)

def perms2 : List Nat → List (List Nat)
  | [a, b] => [[a, b], [b, a]]
  | l => [l]

/-- thread end: the thread's thread-locals are destroyed (in any order), then it counts as
finished (joinable); the main thread's end also ends the life of the lazy statics.

When the destructors perform a store (`tlsdtor=1`) they are separate steps that other threads can
interleave with: `phase = 100 + mask` says which keys are still to be destroyed. -/
def finish (p : Prog) (s : St) (t : Nat) : List St :=
  let live := ((s.th t).locals.map (·.1))
  let live := [0, 1].filter fun k => live.contains k
  if p.cfg.tlsDtor == 1 then
    let h := s.th t
    if h.phase < 100 then
      let s := if t == 0 then { s with lazyDropped := true } else s
      if live.isEmpty then [s.modTh t fun h => { h with finished := true }]
      else [s.modTh t fun h => { h with phase := 100 + live.foldl (fun m k => m + 2 ^ k) 0 }]
    else
      let m := h.phase - 100
      ([0, 1].filter fun k => m / 2 ^ k % 2 == 1).map fun k =>
        let s := (s.tick t)
        let s := { s with tlsDrops := s.tlsDrops.set k (s.tlsDrops.getD k 0 + 1),
                          atoms := s.atoms.set 0 (10 + k), atomRel := s.atomRel.set 0 VV.zero }
        let m' := m - 2 ^ k
        s.modTh t fun h => { h with phase := 100 + m', finished := m' == 0 }
  else
  let s := if t == 0 then { s with lazyDropped := true } else s
  (perms2 live).map fun order =>
    let s := order.foldl (fun s k =>
      let s := { s with tlsDrops := s.tlsDrops.set k (s.tlsDrops.getD k 0 + 1) }
      match p.cfg.tlsDtor with
      | 2 =>
        -- key 0's destructor touches key 1: destroyed (2) if this thread ever had it, else it is
        -- initialised on the spot (1)
        if k != 0 then s
        else if live.contains 1 then { s with tlsObs := s.tlsObs.set 0 (s.tlsObs.getD 0 0 ||| 2) }
        else
          let (s, _) := tlsGet s t 1
          -- (the value created here is destroyed before the thread ends, like any other)
          { s with tlsObs := s.tlsObs.set 0 (s.tlsObs.getD 0 0 ||| 1), tlsDrops := s.tlsDrops.set 1 (s.tlsDrops.getD 1 0 + 1) }
      | _ => s) s
    s.modTh t fun h => { h with finished := true }

/-- successor states of a step of thread `t`; precondition: `enabled p s t` -/
def step (p : Prog) (s : St) (t : Nat) : List St :=
  let h := s.th t
  match h.cvNotified with
  | some m =>
    -- second half of `cvwait`: re-acquire the mutex
    let s := s.tick t
    let s := { s with mutex := s.mutex.set m (some t) }
    let s := s.acquire t (s.mutexRel.getD m VV.zero)
    [(s.modTh t fun h => { h with cvNotified := none }).ret t .unit]
  | none =>
  match opOf p s t with
  | none => finish p s t
  | some op =>
    let s := match op with | .ifEq .. => s | _ => s.tick t
    match op with
    | .atom x aop =>
      let cur := s.atoms.getD x 0
      let (new, r) := Std.step p.cfg.ty cur aop
      -- did a compare-and-swap style operation succeed?
      let okk := match aop, r with
        | .cas .., .ok _ | .fupd .., .ok _ => true
        | .cas .., _ | .fupd .., _ => false
        | .cswp c _ _, .val prev => prev == c
        | _, _ => true
      let wrote := match aop with
        | .load _ | .unsyncLoad => false
        | .withMut _ | .store .. => true
        | _ => okk
      let rel := s.atomRel.getD x VV.zero
      -- acquire side
      let s := if acquiresOf okk aop then s.acquire t rel else s
      -- release side: an RMW continues the release sequence, a plain store starts a new one
      let s := if wrote then
          let base := if isRmw aop then rel else VV.zero
          let rel' := if releasesOf aop then base.join (s.vc t) else base
          { s with atoms := s.atoms.set x new, atomRel := s.atomRel.set x rel' }
        else s
      [s.ret t r]
    | .fence _ => [s.ret t .unit]
    | .cellRead c | .cellReadBegin c =>
      -- an access while a conflicting section is open is concurrent with it: a race
      if s.cellWOpen.getD c false then [s.stop (.race 9)] else
      if !(s.cellW.getD c VV.zero).ble (s.vc t) then [s.stop (.race 9)] else
      let s := { s with cellR := s.cellR.set c ((s.cellR.getD c VV.zero).join (s.vc t)) }
      let s := match op with
        | .cellReadBegin _ => { s with cellOpen := s.cellOpen.set c (s.cellOpen.getD c 0 + 1) }
        | _ => s
      [s.ret t (.val (s.cells.getD c 0))]
    | .cellReadEnd c =>
      -- the read lasts until here
      [({ s with cellOpen := s.cellOpen.set c (s.cellOpen.getD c 0 - 1),
                 cellR := s.cellR.set c ((s.cellR.getD c VV.zero).join (s.vc t)) }).ret t .unit]
    | .cellWrite c v | .cellWriteBegin c v =>
      if s.cellWOpen.getD c false then [s.stop (.race 10)] else
      if s.cellOpen.getD c 0 != 0 then [s.stop (.race 11)] else
      if !(s.cellW.getD c VV.zero).ble (s.vc t) then [s.stop (.race 10)] else
      if !(s.cellR.getD c VV.zero).ble (s.vc t) then [s.stop (.race 11)] else
      let s := { s with cells := s.cells.set c v
                        cellW := s.cellW.set c ((s.cellW.getD c VV.zero).join (s.vc t)) }
      let s := match op with
        | .cellWriteBegin .. => { s with cellWOpen := s.cellWOpen.set c true }
        | _ => s
      [s.ret t .unit]
    | .cellWriteEnd c =>
      [({ s with cellWOpen := s.cellWOpen.set c false,
                 cellW := s.cellW.set c ((s.cellW.getD c VV.zero).join (s.vc t)) }).ret t .unit]
    | .lock m =>
      let s := { s with mutex := s.mutex.set m (some t) }
      [(s.acquire t (s.mutexRel.getD m VV.zero)).ret t .unit]
    | .tryLock m =>
      if (s.mutex.getD m none).isNone then
        let s := { s with mutex := s.mutex.set m (some t) }
        [(s.acquire t (s.mutexRel.getD m VV.zero)).ret t (bool01 true)]
      else [s.ret t (bool01 false)]
    | .unlock m =>
      [({ s with mutex := s.mutex.set m none
                 mutexRel := s.mutexRel.set m ((s.mutexRel.getD m VV.zero).join (s.vc t)) }).ret t .unit]
    | .read l =>
      let s := { s with rwReaders := s.rwReaders.set l (t :: s.rwReaders.getD l []) }
      [(s.acquire t (s.rwRel.getD l VV.zero)).ret t .unit]
    | .tryRead l =>
      if (s.rwWriter.getD l none).isNone then
        let s := { s with rwReaders := s.rwReaders.set l (t :: s.rwReaders.getD l []) }
        [(s.acquire t (s.rwRel.getD l VV.zero)).ret t (bool01 true)]
      else [s.ret t (bool01 false)]
    | .write l =>
      let s := { s with rwWriter := s.rwWriter.set l (some t) }
      [(s.acquire t (s.rwRel.getD l VV.zero)).ret t .unit]
    | .tryWrite l =>
      if (s.rwWriter.getD l none).isNone && (s.rwReaders.getD l []).isEmpty then
        let s := { s with rwWriter := s.rwWriter.set l (some t) }
        [(s.acquire t (s.rwRel.getD l VV.zero)).ret t (bool01 true)]
      else [s.ret t (bool01 false)]
    | .unread l =>
      [({ s with rwReaders := s.rwReaders.set l ((s.rwReaders.getD l []).erase t)
                 rwRel := s.rwRel.set l ((s.rwRel.getD l VV.zero).join (s.vc t)) }).ret t .unit]
    | .unwrite l =>
      [({ s with rwWriter := s.rwWriter.set l none
                 rwRel := s.rwRel.set l ((s.rwRel.getD l VV.zero).join (s.vc t)) }).ret t .unit]
    | .cvWait v m =>
      -- first half: release the mutex, join the queue, wait
      let s := { s with mutex := s.mutex.set m none
                        mutexRel := s.mutexRel.set m ((s.mutexRel.getD m VV.zero).join (s.vc t))
                        cvQueue := s.cvQueue.set v (s.cvQueue.getD v [] ++ [t]) }
      [s.modTh t fun h => { h with cvWaiting := some (v, m) }]
    | .cvOne v =>
      match s.cvQueue.getD v [] with
      | [] => [s.ret t .unit]
      | w :: rest =>
        let c := s.vc t
        let s := { s with cvQueue := s.cvQueue.set v rest }
        let s := s.modTh w fun h =>
          { h with cvNotified := h.cvWaiting.map (·.2), cvWaiting := none, vc := h.vc.join c }
        [s.ret t .unit]
    | .cvAll v =>
      let c := s.vc t
      let s := (s.cvQueue.getD v []).foldl (fun s w => s.modTh w fun h =>
        { h with cvNotified := h.cvWaiting.map (·.2), cvWaiting := none, vc := h.vc.join c }) s
      [({ s with cvQueue := s.cvQueue.set v [] }).ret t .unit]
    | .nWait n =>
      [(({ s with nFlag := s.nFlag.set n false }).acquire t (s.nRel.getD n VV.zero)).ret t .unit]
    | .nNotify n =>
      [({ s with nFlag := s.nFlag.set n true
                 nRel := s.nRel.set n ((s.nRel.getD n VV.zero).join (s.vc t)) }).ret t .unit]
    | .park =>
      let s := s.acquire t h.tokenVC
      [(s.modTh t fun h => { h with token := false }).ret t .unit]
    | .unpark u =>
      let c := s.vc t
      if (s.th u).finished then [s.ret t .unit] else
      [(s.modTh u fun h => { h with token := true, tokenVC := h.tokenVC.join c }).ret t .unit]
    | .spawn b =>
      let c := s.vc t
      [(s.modTh b fun h => { h with started := true, vc := (h.vc.join c).inc b }).ret t .unit]
    | .join b => [(s.acquire t (s.vc b)).ret t .unit]
    | .yield => [s.ret t .unit]
    | .await x _ o =>
      let s := if o.acquires then s.acquire t (s.atomRel.getD x VV.zero) else s
      [s.ret t (.val (s.atoms.getD x 0))]
    | .ifEq i r n =>
      if h.rets.lookup (h.pc - i) == some r then [s.modTh t fun h => { h with pc := h.pc + 1 }]
      else [s.modTh t fun h => { h with pc := h.pc + 1 + n }]
    | .send q v =>
      if s.rxDropped.getD q false then
        [({ s with chanLeft := s.chanLeft.set q (s.chanLeft.getD q 0 + 1) }).ret t .unit]
      else
        let rel := (s.chanRel.getD q VV.zero).join (s.vc t)
        [({ s with chan := s.chan.set q (s.chan.getD q [] ++ [(v, rel)])
                   chanRel := s.chanRel.set q rel }).ret t .unit]
    | .recv q =>
      match s.chan.getD q [] with
      | (v, c) :: rest => [(({ s with chan := s.chan.set q rest }).acquire t c).ret t (.val v)]
      | [] => [s.stop (.misuse 3)]
    | .tryRecv q =>
      match s.chan.getD q [] with
      | (v, c) :: rest => [(({ s with chan := s.chan.set q rest }).acquire t c).ret t (.val v)]
      | [] => [s.ret t .empty]
    | .dropRx q =>
      let s := (s.chan.getD q []).foldl (fun s m => s.acquire t m.2) s
      [({ s with chan := s.chan.set q [], rxDropped := s.rxDropped.set q true }).ret t .unit]
    | .arcNew hd =>
      [({ s with arcs := s.arcs ++ [(1, VV.zero)]
                 handles := (hd, s.arcs.length) :: s.handles.filter (·.1 != hd) }).ret t .unit]
    | .arcClone hd h2 =>
      match arcOf s hd with
      | none => [s.stop (.misuse 4)]
      | some a =>
        let (n, rel) := s.arcs.getD a (0, VV.zero)
        [({ s with arcs := s.arcs.set a (n + 1, rel)
                   handles := (h2, a) :: s.handles.filter (·.1 != h2) }).ret t .unit]
    | .arcDrop hd =>
      match arcOf s hd with
      | none => [s.stop (.misuse 4)]
      | some a =>
        let (s, last) := arcDec s t a
        [({ s with handles := s.handles.filter (·.1 != hd) }).ret t (bool01 last)]
    | .arcCount hd =>
      match arcOf s hd with
      | none => [s.stop (.misuse 4)]
      | some a => [s.ret t (.val (s.arcs.getD a (0, VV.zero)).1)]
    | .arcGetMut hd =>
      match arcOf s hd with
      | none => [s.stop (.misuse 4)]
      | some a =>
        let (n, rel) := s.arcs.getD a (0, VV.zero)
        if n == 1 then [(s.acquire t rel).ret t (bool01 true)] else [s.ret t (bool01 false)]
    | .arcUnwrap hd =>
      match arcOf s hd with
      | none => [s.stop (.misuse 4)]
      | some a =>
        let (n, rel) := s.arcs.getD a (0, VV.zero)
        if n == 1 then
          let s := { s with arcs := s.arcs.set a (0, rel), handles := s.handles.filter (·.1 != hd) }
          [(s.acquire t rel).ret t (.ok 0)]
        else [s.ret t (.err 0)]
    | .arcIntoRaw _ | .arcFromRaw _ => [s.ret t .unit]
    | .arcInc hd =>
      match arcOf s hd with
      | none => [s.stop (.misuse 4)]
      | some a =>
        let (n, rel) := s.arcs.getD a (0, VV.zero)
        [({ s with arcs := s.arcs.set a (n + 1, rel) }).ret t .unit]
    | .arcDec hd =>
      match arcOf s hd with
      | none => [s.stop (.misuse 4)]
      | some a =>
        let (s, last) := arcDec s t a
        [s.ret t (bool01 last)]
    | .arcPtrEq hd h2 => [s.ret t (bool01 (arcOf s hd == arcOf s h2))]
    | .trackNew k | .alloc k =>
      [({ s with tracks := (k, false) :: s.tracks.filter (·.1 != k) }).ret t .unit]
    | .trackDrop k | .dealloc k =>
      [({ s with tracks := (k, true) :: s.tracks.filter (·.1 != k) }).ret t .unit]
    | .tls k | .tlsTry k =>
      let (s, id) := tlsGet s t k
      [s.ret t (.val id)]
    | .tlsNest k j =>
      let (s, _) := tlsGet s t k
      let (s, id) := tlsGet s t j
      [s.ret t (.val id)]
    | .tlsStat k => [s.ret t (.val (s.tlsInits.getD k 0 * 100 + s.tlsDrops.getD k 0))]
    | .tlsObs k => [s.ret t (.val (s.tlsObs.getD k 0))]
    | .lazyStat z => [s.ret t (.val (if s.lazyDropped then 0 else s.lazyInit.getD z 0))]
    | .lazy z =>
      if s.lazyDropped then [s.stop (.misuse 20)] else
      -- first access initialises (once per execution) and publishes; every access acquires
      -- (the DSL's initialiser counts its runs in atomic 0 with a relaxed `fetch_add` when one is declared)
      let s := if s.lazyInit.getD z 0 == 0 then
          let s := if p.cfg.nAtomics == 0 then s else
            { s with atoms := s.atoms.set 0 (Std.step p.cfg.ty (s.atoms.getD 0 0) (.fetch (.add 1) .rlx)).1 }
          { s with lazyInit := s.lazyInit.set z 1, lazyRel := s.lazyRel.set z (s.vc t) }
        else s
      let s := s.acquire t (s.lazyRel.getD z VV.zero)
      [s.ret t (.val ((s.lazyInit.getD z 0 : Int) * 100 + 40 + z))]
    | .blockOn f mode =>
      let u := s.futs.getD f {}
      let setF (s : St) (g : Fut → Fut) : St := { s with futs := s.futs.modify f g }
      -- mode 2: ready iff the flag is 2, read relaxed; otherwise ready iff it is 1, read acquire
      let readFlag (s : St) : St × Bool :=
        if mode == 2 then (s, s.atoms.getD f 0 == 2)
        else ((s.acquire t (s.atomRel.getD f VV.zero)), s.atoms.getD f 0 == 1)
      match h.phase with
      | 0 =>
        -- a new call: its own notification flag and spurious budget, a new waker
        [(setF s fun u => { u with wakers := u.wakers + 1, gen := u.gen + 1, notified := false,
                                   spurUsed := false, rel := VV.zero, polled := false }).modTh t fun h => { h with phase := 1 }]
      | 1 =>
        if mode == 5 then
          -- a `yield_now`-shaped future: the first poll wakes itself and is Pending, every later poll is Ready
          if u.polled then [s.modTh t fun h => { h with phase := 5 }]
          else [(setF s fun u => { u with polled := true, notified := true, rel := u.rel.join (s.vc t) }).modTh t
                  fun h => { h with phase := 4 }]
        else
        let (s, ready) := readFlag s
        [s.modTh t fun h => { h with phase := if ready then 5 else 2 }]
      | 2 =>
        -- register a clone of the waker (an older registered clone is dropped): it is now the most recent one
        [(setF s fun u => { u with slot := true, slotGen := u.gen,
                                   wakers := if u.slot then u.wakers else u.wakers + 1 }).modTh t
          fun h => { h with phase := 3 }]
      | 3 =>
        let (s, ready) := readFlag s
        -- (mode 4 polls once: if the future is still pending the call returns 0, the registration stays)
        if !ready && mode == 4 then
          [((setF s fun u => { u with wakers := u.wakers - 1 }).modTh t fun h => { h with phase := 0 }).ret t (.val 0)]
        else
        [s.modTh t fun h => { h with phase := if ready then 5 else 4 }]
      | 4 =>
        -- woken: consume the notification and poll again
        [((setF s fun u => { u with notified := false }).acquire t u.rel).modTh t fun h => { h with phase := 1 }]
      | _ =>
        -- ready: `block_on` returns; its own reference is dropped, and (unless mode 3 leaves the registration
        -- in the shared `AtomicWaker`) a still registered clone too
        let s := if mode == 3 || mode == 4 || mode == 5 then setF s fun u => { u with wakers := u.wakers - 1 }
          else setF s fun u => { u with slot := false, wakers := u.wakers - 1 - (if u.slot then 1 else 0) }
        [(s.modTh t fun h => { h with phase := 0 }).ret t (.val 7)]
    | .wake f | .awWake f =>
      let s := { s with atoms := s.atoms.set f 1, atomRel := s.atomRel.set f (s.vc t) }
      let u := s.futs.getD f {}
      if u.slot then
        -- the most recently registered waker is taken and woken: it notifies the call it belongs to
        [({ s with futs := s.futs.modify f fun u =>
            { u with slot := false, wakers := u.wakers - 1,
                     notified := u.notified || u.slotGen == u.gen,
                     rel := if u.slotGen == u.gen then u.rel.join (s.vc t) else u.rel } }).ret t .unit]
      else [s.ret t .unit]
    | .wakeRef f | .wakeQ f =>
      let s := match op with
        | .wakeRef _ => { s with atoms := s.atoms.set f 1, atomRel := s.atomRel.set f (s.vc t) }
        | _ => s
      let u := s.futs.getD f {}
      if u.slot then
        [({ s with futs := s.futs.modify f fun u =>
            { u with notified := u.notified || u.slotGen == u.gen,
                     rel := if u.slotGen == u.gen then u.rel.join (s.vc t) else u.rel } }).ret t .unit]
      else [s.ret t .unit]
    | .wClone f =>
      let u := s.futs.getD f {}
      if u.slot then
        [(({ s with futs := s.futs.modify f fun u => { u with wakers := u.wakers + 1 } }).modTh t fun h =>
          { h with held := (f, u.slotGen) :: h.held.filter (·.1 != f) }).ret t (.val 1)]
      else [s.ret t (.val 0)]
    | .wakeH f =>
      match h.held.lookup f with
      | none => [s.ret t .unit]
      | some g =>
        [(({ s with futs := s.futs.modify f fun u =>
            { u with wakers := u.wakers - 1, notified := u.notified || g == u.gen,
                     rel := if g == u.gen then u.rel.join (s.vc t) else u.rel } }).modTh t fun h =>
          { h with held := h.held.filter (·.1 != f) }).ret t .unit]
    | .dropWaker f | .awTake f =>
      let u := s.futs.getD f {}
      if u.slot then
        [({ s with futs := s.futs.modify f fun u => { u with slot := false, wakers := u.wakers - 1 } }).ret t .unit]
      else [s.ret t .unit]
    | .stop | .explore | .skip => [s.ret t .unit]
    | .panic => [s.stop .panic]

/-- all started threads have finished -/
def allDone (s : St) : Bool := s.ths.all fun h => !h.started || h.finished

def leaks (s : St) : Bool :=
  s.futs.any (·.wakers != 0) || s.arcs.any (·.1 != 0) || s.tracks.any (!·.2) || s.chan.any (!·.isEmpty) || s.chanLeft.any (· != 0)

/-- the verdict of a state in which no thread is enabled -/
def finalVerdict (s : St) : Verdict :=
  match s.verdict with
  | some v => v
  | none => if allDone s then (if leaks s then .leak else .ok) else .deadlock

/-- what an execution shows to the program: the verdict and every value returned -/
structure Outcome where
  verdict : Verdict
  rets : List (Nat × Nat × Ret)       -- (thread, pc, result), sorted
deriving DecidableEq, Repr, Inhabited, Hashable

def insertRet (x : Nat × Nat × Ret) : List (Nat × Nat × Ret) → List (Nat × Nat × Ret)
  | [] => [x]
  | y :: ys => if x.1 < y.1 || (x.1 == y.1 && x.2.1 ≤ y.2.1) then x :: y :: ys else y :: insertRet x ys

def outcome (s : St) : Outcome :=
  let all := (List.range s.ths.length).foldl (fun acc t =>
    (s.th t).rets.foldl (fun acc (pc, r) => insertRet (t, pc, r) acc) acc) []
  { verdict := finalVerdict s, rets := all }

end SC
end LoomVerif

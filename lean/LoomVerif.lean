import LoomVerif.Model.VV
import LoomVerif.Model.Path

import LoomVerif.Model.VV
import LoomVerif.Model.Path
import LoomVerif.Model.Threads
import LoomVerif.Model.Atomic
import LoomVerif.Model.Num
import LoomVerif.Model.AtomicApi

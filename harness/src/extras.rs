//! Thread-locals, lazy statics (C17) and scripted futures (C20) of the DSL.

use crate::interp::World;
use crate::prog::*;
use std::cell::{Cell, RefCell};
use std::future::Future;
use std::pin::Pin;
use std::rc::Rc;
use std::task::{Context, Poll, Waker};

#[derive(Default)]
pub struct Counters {
    pub tls_inits: [Cell<usize>; 2],
    pub tls_drops: [Cell<usize>; 2],
    pub tls_obs: [Cell<usize>; 2],
    pub lazy_inits: [Cell<usize>; 2],
}

thread_local! {
    /// per-iteration counters (reset when the model closure starts)
    pub static COUNTERS: Counters = Counters::default();
    /// whole-process counters of lazy statics: (created, dropped)
    pub static LAZY_LIVE: [Cell<(usize, usize)>; 2] = Default::default();
    /// the world of the iteration in progress (for destructors that perform loom operations)
    pub static CUR_WORLD: RefCell<Option<Rc<World>>> = RefCell::new(None);
    /// number of initialisations of key k by loom thread t in this iteration
    pub static PER_THREAD: RefCell<std::collections::HashMap<(usize, usize), usize>> = RefCell::new(Default::default());
}

pub fn reset(w: &Rc<World>) {
    COUNTERS.with(|c| {
        for i in 0..2 {
            c.tls_inits[i].set(0);
            c.tls_drops[i].set(0);
            c.tls_obs[i].set(0);
            c.lazy_inits[i].set(0);
        }
    });
    let old = CUR_WORLD.with(|cw| cw.borrow_mut().replace(w.clone()));
    // a world left behind by a failed iteration may own wakers whose destructor talks to an execution that
    // no longer exists
    std::mem::forget(old);
    PER_THREAD.with(|p| p.borrow_mut().clear());
}

/// the iteration completed: nothing that talks to loom is alive any more, the world can be dropped
pub fn iteration_ok() {
    let old = CUR_WORLD.with(|cw| cw.borrow_mut().take());
    drop(old);
}

/// the model run ended (possibly with a failure): what the failed iteration left behind is leaked
pub fn abandon() {
    let old = CUR_WORLD.with(|cw| cw.borrow_mut().take());
    std::mem::forget(old);
}

pub struct TlsVal {
    key: usize,
    pub id: i128,
}

impl TlsVal {
    fn new(key: usize) -> TlsVal {
        COUNTERS.with(|c| c.tls_inits[key].set(c.tls_inits[key].get() + 1));
        // the id names the owning thread and counts its initialisations of this key
        let (tid, _) = loom::verif::current();
        let n = PER_THREAD.with(|p| {
            let mut p = p.borrow_mut();
            let e = p.entry((tid, key)).or_insert(0);
            *e += 1;
            *e
        });
        TlsVal { key, id: (tid * 10 + n) as i128 }
    }
}

impl Drop for TlsVal {
    fn drop(&mut self) {
        COUNTERS.with(|c| c.tls_drops[self.key].set(c.tls_drops[self.key].get() + 1));
        let w = CUR_WORLD.with(|cw| cw.borrow().clone());
        if let Some(w) = w {
            match w.prog.cfg.tls_dtor {
                1 => {
                    // a destructor that performs a loom operation
                    w.atomic_store(0, 10 + self.key as i128);
                }
                2 if self.key == 0 => {
                    // a destructor that touches another thread-local.  (Only key 0's does: a value that
                    // is initialised *during* thread-local destruction is dropped by loom outside the
                    // execution, where its destructor must not touch loom again.)
                    let r = K1.try_with(|v| v.id);
                    // (or-ed: the counter is shared by all threads and must not depend on which destructor ran last)
                    COUNTERS.with(|c| c.tls_obs[0].set(c.tls_obs[0].get() | if r.is_ok() { 1 } else { 2 }));
                }
                _ => {}
            }
        }
    }
}

loom::thread_local! {
    pub static K0: TlsVal = TlsVal::new(0);
    pub static K1: TlsVal = TlsVal::new(1);
}

pub struct LazyVal {
    key: usize,
    pub id: i128,
    pub cell: loom::cell::UnsafeCell<i128>,
}

impl LazyVal {
    fn new(key: usize) -> LazyVal {
        let id = COUNTERS.with(|c| {
            c.lazy_inits[key].set(c.lazy_inits[key].get() + 1);
            c.lazy_inits[key].get()
        });
        // a scheduling point inside the initialiser (`x0.fetch_add(1, Relaxed)`, which also counts the runs of the
        // initialiser): two threads can both find the static uninitialised
        let w = CUR_WORLD.with(|cw| cw.borrow().clone());
        if let Some(w) = w {
            if w.prog.cfg.n_atomics > 0 {
                w.atomic_fadd_rlx(0, 1);
            }
        }
        let cell = loom::cell::UnsafeCell::new(0);
        cell.with_mut(|p| unsafe { *p = 40 + key as i128 });
        LAZY_LIVE.with(|l| l[key].set((l[key].get().0 + 1, l[key].get().1)));
        LazyVal { key, id: id as i128, cell }
    }
}

impl Drop for LazyVal {
    fn drop(&mut self) {
        LAZY_LIVE.with(|l| l[self.key].set((l[self.key].get().0, l[self.key].get().1 + 1)));
    }
}

loom::lazy_static! {
    pub static ref Z0: LazyVal = LazyVal::new(0);
    pub static ref Z1: LazyVal = LazyVal::new(1);
}

pub fn tls_op(op: &Op) -> Ret {
    let with = |k: usize| -> i128 {
        if k == 0 {
            K0.with(|v| v.id)
        } else {
            K1.with(|v| v.id)
        }
    };
    match op {
        Op::Tls(k) => Ret::Val(with(*k)),
        Op::TlsTry(k) => {
            let r = if *k == 0 { K0.try_with(|v| v.id) } else { K1.try_with(|v| v.id) };
            match r {
                Ok(v) => Ret::Val(v),
                Err(_) => Ret::AccessError,
            }
        }
        Op::TlsNest(k, j) => {
            let j = *j;
            Ret::Val(if *k == 0 { K0.with(|_| with(j)) } else { K1.with(|_| with(j)) })
        }
        Op::TlsStat(k) => {
            Ret::Val(COUNTERS.with(|c| (c.tls_inits[*k].get() * 100 + c.tls_drops[*k].get()) as i128))
        }
        Op::TlsObs(k) => Ret::Val(COUNTERS.with(|c| c.tls_obs[*k].get() as i128)),
        Op::Lazy(z) => {
            let v: &LazyVal = if *z == 0 { &Z0 } else { &Z1 };
            Ret::Val(v.id * 100 + v.cell.with(|p| unsafe { *p }))
        }
        Op::LazyStat(z) => Ret::Val(LAZY_LIVE.with(|l| (l[*z].get().0 - l[*z].get().1) as i128)),
        _ => unreachable!(),
    }
}

// ---------------------------------------------------------------------------------------------
// scripted futures

pub struct FutureState {
    /// a hand-rolled waker slot: a loom mutex around `Option<Waker>`
    pub slot: loom::sync::Mutex<Option<Waker>>,
    pub aw: loom::future::AtomicWaker,
}

impl FutureState {
    pub fn new() -> FutureState {
        // creation order (object indices): the slot's mutex, then the AtomicWaker's
        let slot = loom::sync::Mutex::new(None);
        FutureState { slot, aw: loom::future::AtomicWaker::new() }
    }
}

struct Scripted {
    w: Rc<World>,
    f: usize,
    mode: usize,
    /// mode 5: the future has been polled before
    polled: Cell<bool>,
}

/// readiness test of the scripted future: (ordering of the flag load, value that means "ready")
fn poll_test(mode: usize) -> (std::sync::atomic::Ordering, i128) {
    if mode == 2 {
        (std::sync::atomic::Ordering::Relaxed, 2)
    } else {
        (std::sync::atomic::Ordering::Acquire, 1)
    }
}

fn slot_mode(mode: usize) -> bool {
    mode == 0 || mode == 2
}

impl Future for Scripted {
    type Output = i128;
    fn poll(self: Pin<&mut Self>, cx: &mut Context<'_>) -> Poll<i128> {
        let w = &self.w;
        if self.mode == 5 {
            // a `yield_now`-shaped future: the first poll wakes itself through the borrowed waker (no clone exists)
            // and returns Pending, every later poll is Ready
            if self.polled.replace(true) {
                return Poll::Ready(7);
            }
            cx.waker().wake_by_ref();
            return Poll::Pending;
        }
        let (ord, target) = poll_test(self.mode);
        if w.atomic_load_ord(self.f, ord) == target {
            return Poll::Ready(7);
        }
        if slot_mode(self.mode) {
            let new = cx.waker().clone();
            let mut g = w.futures[self.f].slot.lock().unwrap();
            *g = Some(new); // an older registered waker is dropped here, inside the lock
            drop(g);
        } else {
            w.futures[self.f].aw.register_by_ref(cx.waker());
        }
        if w.atomic_load_ord(self.f, ord) == target {
            Poll::Ready(7)
        } else {
            Poll::Pending
        }
    }
}

/// `poll_once`: polls the inner future a single time; 0 if it is still pending
struct PollOnce(Scripted);

impl Future for PollOnce {
    type Output = i128;
    fn poll(mut self: Pin<&mut Self>, cx: &mut Context<'_>) -> Poll<i128> {
        match Pin::new(&mut self.0).poll(cx) {
            Poll::Ready(v) => Poll::Ready(v),
            Poll::Pending => Poll::Ready(0),
        }
    }
}

pub fn future_op(w: &Rc<World>, op: &Op) -> Ret {
    match op {
        Op::BlockOn(f, mode) => {
            let fut = Scripted { w: w.clone(), f: *f, mode: *mode, polled: Cell::new(false) };
            let v = if *mode == 4 { loom::future::block_on(PollOnce(fut)) } else { loom::future::block_on(fut) };
            // what dropping the future would release
            if slot_mode(*mode) {
                let mut g = w.futures[*f].slot.lock().unwrap();
                let old = g.take();
                drop(g);
                drop(old);
            } else if *mode == 1 {
                drop(w.futures[*f].aw.take_waker());
            }
            // mode 3: the registration stays in the AtomicWaker
            Ret::Val(v)
        }
        Op::Wake(f) => {
            w.atomic_store_rel(*f, 1);
            let mut g = w.futures[*f].slot.lock().unwrap();
            let wk = g.take();
            drop(g);
            if let Some(wk) = wk {
                wk.wake();
            }
            Ret::Unit
        }
        Op::WakeRef(f) => {
            w.atomic_store_rel(*f, 1);
            let g = w.futures[*f].slot.lock().unwrap();
            if let Some(wk) = g.as_ref() {
                wk.wake_by_ref();
            }
            drop(g);
            Ret::Unit
        }
        Op::WakeQ(f) => {
            let g = w.futures[*f].slot.lock().unwrap();
            if let Some(wk) = g.as_ref() {
                wk.wake_by_ref();
            }
            drop(g);
            Ret::Unit
        }
        Op::WClone(f) => {
            // a clone of the registered waker, kept by this thread
            let (tid, _) = loom::verif::current();
            let g = w.futures[*f].slot.lock().unwrap();
            let c = g.as_ref().map(|wk| wk.clone());
            drop(g);
            match c {
                Some(wk) => {
                    w.held.borrow_mut().insert((tid, *f), wk);
                    Ret::Val(1)
                }
                None => Ret::Val(0),
            }
        }
        Op::WakeH(f) => {
            let (tid, _) = loom::verif::current();
            let wk = w.held.borrow_mut().remove(&(tid, *f));
            if let Some(wk) = wk {
                wk.wake();
            }
            Ret::Unit
        }
        Op::AwTake(f) => {
            drop(w.futures[*f].aw.take_waker());
            Ret::Unit
        }
        Op::DropWaker(f) => {
            let mut g = w.futures[*f].slot.lock().unwrap();
            let wk = g.take();
            drop(g);
            drop(wk);
            Ret::Unit
        }
        Op::AwWake(f) => {
            w.atomic_store_rel(*f, 1);
            w.futures[*f].aw.wake();
            Ret::Unit
        }
        _ => unreachable!(),
    }
}

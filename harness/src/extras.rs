//! Thread-locals, lazy statics (C17) and scripted futures (C20) of the DSL.

use crate::interp::World;
use crate::prog::*;
use std::cell::{Cell, RefCell};
use std::future::Future;
use std::pin::Pin;
use std::rc::{Rc, Weak};
use std::task::{Context, Poll, Waker};

#[derive(Default)]
pub struct Counters {
    pub tls_inits: [Cell<usize>; 2],
    pub tls_drops: [Cell<usize>; 2],
    pub tls_obs: [Cell<usize>; 2],
    pub lazy_inits: [Cell<usize>; 2],
}

thread_local! {
    /// per-iteration counters (reset when the model closure starts)
    pub static COUNTERS: Counters = Counters::default();
    /// whole-process counters of lazy statics: (created, dropped)
    pub static LAZY_LIVE: [Cell<(usize, usize)>; 2] = Default::default();
    /// the world of the iteration in progress (for destructors that perform loom operations)
    pub static CUR_WORLD: RefCell<Option<Weak<World>>> = RefCell::new(None);
}

pub fn reset(w: &Rc<World>) {
    COUNTERS.with(|c| {
        for i in 0..2 {
            c.tls_inits[i].set(0);
            c.tls_drops[i].set(0);
            c.tls_obs[i].set(0);
            c.lazy_inits[i].set(0);
        }
    });
    CUR_WORLD.with(|cw| *cw.borrow_mut() = Some(Rc::downgrade(w)));
}

pub struct TlsVal {
    key: usize,
    pub id: i128,
}

impl TlsVal {
    fn new(key: usize) -> TlsVal {
        let id = COUNTERS.with(|c| {
            c.tls_inits[key].set(c.tls_inits[key].get() + 1);
            c.tls_inits[key].get()
        });
        TlsVal { key, id: id as i128 }
    }
}

impl Drop for TlsVal {
    fn drop(&mut self) {
        COUNTERS.with(|c| c.tls_drops[self.key].set(c.tls_drops[self.key].get() + 1));
        let w = CUR_WORLD.with(|cw| cw.borrow().as_ref().and_then(|w| w.upgrade()));
        if let Some(w) = w {
            match w.prog.cfg.tls_dtor {
                1 => {
                    // a destructor that performs a loom operation
                    w.atomic_store(0, 10 + self.key as i128);
                }
                2 => {
                    // a destructor that touches the other thread-local
                    let other = 1 - self.key;
                    let r = if other == 0 { K0.try_with(|v| v.id) } else { K1.try_with(|v| v.id) };
                    COUNTERS.with(|c| c.tls_obs[self.key].set(if r.is_ok() { 1 } else { 2 }));
                }
                _ => {}
            }
        }
    }
}

loom::thread_local! {
    pub static K0: TlsVal = TlsVal::new(0);
    pub static K1: TlsVal = TlsVal::new(1);
}

pub struct LazyVal {
    key: usize,
    pub id: i128,
    pub cell: loom::cell::UnsafeCell<i128>,
}

impl LazyVal {
    fn new(key: usize) -> LazyVal {
        let id = COUNTERS.with(|c| {
            c.lazy_inits[key].set(c.lazy_inits[key].get() + 1);
            c.lazy_inits[key].get()
        });
        LAZY_LIVE.with(|l| l[key].set((l[key].get().0 + 1, l[key].get().1)));
        let cell = loom::cell::UnsafeCell::new(0);
        cell.with_mut(|p| unsafe { *p = 40 + key as i128 });
        LazyVal { key, id: id as i128, cell }
    }
}

impl Drop for LazyVal {
    fn drop(&mut self) {
        LAZY_LIVE.with(|l| l[self.key].set((l[self.key].get().0, l[self.key].get().1 + 1)));
    }
}

loom::lazy_static! {
    pub static ref Z0: LazyVal = LazyVal::new(0);
    pub static ref Z1: LazyVal = LazyVal::new(1);
}

pub fn tls_op(op: &Op) -> Ret {
    let with = |k: usize| -> i128 {
        if k == 0 {
            K0.with(|v| v.id)
        } else {
            K1.with(|v| v.id)
        }
    };
    match op {
        Op::Tls(k) => Ret::Val(with(*k)),
        Op::TlsTry(k) => {
            let r = if *k == 0 { K0.try_with(|v| v.id) } else { K1.try_with(|v| v.id) };
            match r {
                Ok(v) => Ret::Val(v),
                Err(_) => Ret::AccessError,
            }
        }
        Op::TlsNest(k, j) => {
            let j = *j;
            Ret::Val(if *k == 0 { K0.with(|_| with(j)) } else { K1.with(|_| with(j)) })
        }
        Op::TlsStat(k) => {
            Ret::Val(COUNTERS.with(|c| (c.tls_inits[*k].get() * 100 + c.tls_drops[*k].get()) as i128))
        }
        Op::TlsObs(k) => Ret::Val(COUNTERS.with(|c| c.tls_obs[*k].get() as i128)),
        Op::Lazy(z) => {
            let v: &LazyVal = if *z == 0 { &Z0 } else { &Z1 };
            Ret::Val(v.id * 100 + v.cell.with(|p| unsafe { *p }))
        }
        Op::LazyStat(z) => Ret::Val(LAZY_LIVE.with(|l| (l[*z].get().0 - l[*z].get().1) as i128)),
        _ => unreachable!(),
    }
}

// ---------------------------------------------------------------------------------------------
// scripted futures

pub struct FutureState {
    pub slot: RefCell<Option<Waker>>,
    pub aw: loom::future::AtomicWaker,
}

impl FutureState {
    pub fn new() -> FutureState {
        FutureState { slot: RefCell::new(None), aw: loom::future::AtomicWaker::new() }
    }
}

struct Scripted {
    w: Rc<World>,
    f: usize,
    mode: usize,
}

impl Future for Scripted {
    type Output = i128;
    fn poll(self: Pin<&mut Self>, cx: &mut Context<'_>) -> Poll<i128> {
        let w = &self.w;
        if w.atomic_load_acq(self.f) == 1 {
            return Poll::Ready(7);
        }
        if self.mode == 0 {
            let new = cx.waker().clone();
            let old = w.futures[self.f].slot.borrow_mut().replace(new);
            drop(old);
            // the slot itself carries no synchronisation: the usual fence pairing with the waking side
            loom::sync::atomic::fence(std::sync::atomic::Ordering::SeqCst);
        } else {
            w.futures[self.f].aw.register_by_ref(cx.waker());
        }
        if w.atomic_load_acq(self.f) == 1 {
            Poll::Ready(7)
        } else {
            Poll::Pending
        }
    }
}

pub fn future_op(w: &Rc<World>, op: &Op) -> Ret {
    match op {
        Op::BlockOn(f, mode) => {
            let v = loom::future::block_on(Scripted { w: w.clone(), f: *f, mode: *mode });
            // what dropping the future would release
            if *mode == 0 {
                let old = w.futures[*f].slot.borrow_mut().take();
                drop(old);
            } else {
                drop(w.futures[*f].aw.take_waker());
            }
            Ret::Val(v)
        }
        Op::Wake(f) => {
            w.atomic_store_rel(*f, 1);
            loom::sync::atomic::fence(std::sync::atomic::Ordering::SeqCst);
            let wk = w.futures[*f].slot.borrow_mut().take();
            if let Some(wk) = wk {
                wk.wake();
            }
            Ret::Unit
        }
        Op::WakeRef(f) => {
            w.atomic_store_rel(*f, 1);
            loom::sync::atomic::fence(std::sync::atomic::Ordering::SeqCst);
            // no RefCell borrow may be held across a loom operation (coroutines switch inside it)
            let p = w.futures[*f].slot.as_ptr();
            if let Some(wk) = unsafe { &*p }.as_ref() {
                wk.wake_by_ref();
            }
            Ret::Unit
        }
        Op::DropWaker(f) => {
            let wk = w.futures[*f].slot.borrow_mut().take();
            drop(wk);
            Ret::Unit
        }
        Op::AwWake(f) => {
            w.atomic_store_rel(*f, 1);
            w.futures[*f].aw.wake();
            Ret::Unit
        }
        _ => unreachable!(),
    }
}

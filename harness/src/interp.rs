//! Interpreter of the DSL against the real loom API.  One `match` arm per operation; every arm
//! is deliberately dumb.  All loom threads of a model run as coroutines on one OS thread, so the
//! shared `World` lives in an `Rc` and uses `RefCell`s.

use crate::prog::*;
use loom::sync::atomic::*;
use std::cell::RefCell;
use std::collections::HashMap;
use std::mem::ManuallyDrop;
use std::rc::Rc;

thread_local! {
    /// event lines of the iteration in progress (per OS thread)
    pub static LOG: RefCell<Vec<String>> = RefCell::new(Vec::new());
}

pub enum AnyAtomic {
    U8(AtomicU8),
    U16(AtomicU16),
    U32(AtomicU32),
    U64(AtomicU64),
    Usize(AtomicUsize),
    I8(AtomicI8),
    I16(AtomicI16),
    I32(AtomicI32),
    I64(AtomicI64),
    Isize(AtomicIsize),
    Bool(AtomicBool),
    Ptr(AtomicPtr<u8>),
}

fn res<T>(r: Result<T, T>, f: impl Fn(T) -> i128) -> Ret {
    match r {
        Ok(v) => Ret::Ok(f(v)),
        Err(v) => Ret::Err(f(v)),
    }
}

macro_rules! int_ops {
    ($a:expr, $t:ty, $op:expr) => {{
        let a = $a;
        let tv = |v: i128| v as $t;
        let fv = |v: $t| v as i128;
        match $op {
            Op::Ld(_, o) => Ret::Val(fv(a.load(*o))),
            Op::St(_, v, o) => {
                a.store(tv(*v), *o);
                Ret::Unit
            }
            Op::Swap(_, v, o) => Ret::Val(fv(a.swap(tv(*v), *o))),
            Op::Cas(_, c, n, so, fo) => res(a.compare_exchange(tv(*c), tv(*n), *so, *fo), fv),
            #[allow(deprecated)]
            Op::Cswp(_, c, n, o) => Ret::Val(fv(a.compare_and_swap(tv(*c), tv(*n), *o))),
            Op::Fetch(_, f, v, o) => Ret::Val(fv(match f {
                Fetch::Add => a.fetch_add(tv(*v), *o),
                Fetch::Sub => a.fetch_sub(tv(*v), *o),
                Fetch::And => a.fetch_and(tv(*v), *o),
                Fetch::Nand => a.fetch_nand(tv(*v), *o),
                Fetch::Or => a.fetch_or(tv(*v), *o),
                Fetch::Xor => a.fetch_xor(tv(*v), *o),
                Fetch::Max => a.fetch_max(tv(*v), *o),
                Fetch::Min => a.fetch_min(tv(*v), *o),
            })),
            Op::Fupd(_, f, so, fo) => res(
                a.fetch_update(*so, *fo, |v| match f {
                    Fupd::None => None,
                    Fupd::Add(k) => Some(v.wrapping_add(tv(*k))),
                    Fupd::AddIfLt(k, lim) => {
                        if v < tv(*lim) {
                            Some(v.wrapping_add(tv(*k)))
                        } else {
                            None
                        }
                    }
                }),
                fv,
            ),
            Op::Uld(_) => Ret::Val(fv(unsafe { a.unsync_load() })),
            Op::Await(_, v, o) => {
                let mut spins = 0u32;
                loop {
                    let u = a.load(*o);
                    if u == tv(*v) {
                        break Ret::Val(fv(u));
                    }
                    spins += 1;
                    // far beyond any branch limit the DSL configures: reached only if the limit is not enforced
                    assert!(spins < AWAIT_SPIN_CAP, "harness: await spun {} times (branch limit not enforced)", spins);
                    loom::thread::yield_now();
                }
            }
            _ => unreachable!(),
        }
    }};
}

impl AnyAtomic {
    pub fn new(ty: Ty) -> AnyAtomic {
        match ty {
            Ty::U8 => AnyAtomic::U8(AtomicU8::new(0)),
            Ty::U16 => AnyAtomic::U16(AtomicU16::new(0)),
            Ty::U32 => AnyAtomic::U32(AtomicU32::new(0)),
            Ty::U64 => AnyAtomic::U64(AtomicU64::new(0)),
            Ty::Usize => AnyAtomic::Usize(AtomicUsize::new(0)),
            Ty::I8 => AnyAtomic::I8(AtomicI8::new(0)),
            Ty::I16 => AnyAtomic::I16(AtomicI16::new(0)),
            Ty::I32 => AnyAtomic::I32(AtomicI32::new(0)),
            Ty::I64 => AnyAtomic::I64(AtomicI64::new(0)),
            Ty::Isize => AnyAtomic::Isize(AtomicIsize::new(0)),
            Ty::Bool => AnyAtomic::Bool(AtomicBool::new(false)),
            Ty::Ptr => AnyAtomic::Ptr(AtomicPtr::new(std::ptr::null_mut())),
        }
    }

    /// operations that need `&self`
    pub fn op(&self, op: &Op) -> Ret {
        match self {
            AnyAtomic::U8(a) => int_ops!(a, u8, op),
            AnyAtomic::U16(a) => int_ops!(a, u16, op),
            AnyAtomic::U32(a) => int_ops!(a, u32, op),
            AnyAtomic::U64(a) => int_ops!(a, u64, op),
            AnyAtomic::Usize(a) => int_ops!(a, usize, op),
            AnyAtomic::I8(a) => int_ops!(a, i8, op),
            AnyAtomic::I16(a) => int_ops!(a, i16, op),
            AnyAtomic::I32(a) => int_ops!(a, i32, op),
            AnyAtomic::I64(a) => int_ops!(a, i64, op),
            AnyAtomic::Isize(a) => int_ops!(a, isize, op),
            AnyAtomic::Bool(a) => {
                let tv = |v: i128| v != 0;
                let fv = |v: bool| v as i128;
                match op {
                    Op::Ld(_, o) => Ret::Val(fv(a.load(*o))),
                    Op::St(_, v, o) => {
                        a.store(tv(*v), *o);
                        Ret::Unit
                    }
                    Op::Swap(_, v, o) => Ret::Val(fv(a.swap(tv(*v), *o))),
                    Op::Cas(_, c, n, so, fo) => res(a.compare_exchange(tv(*c), tv(*n), *so, *fo), fv),
                    #[allow(deprecated)]
                    Op::Cswp(_, c, n, o) => Ret::Val(fv(a.compare_and_swap(tv(*c), tv(*n), *o))),
                    Op::Fetch(_, f, v, o) => Ret::Val(fv(match f {
                        Fetch::And => a.fetch_and(tv(*v), *o),
                        Fetch::Nand => a.fetch_nand(tv(*v), *o),
                        Fetch::Or => a.fetch_or(tv(*v), *o),
                        Fetch::Xor => a.fetch_xor(tv(*v), *o),
                        _ => panic!("harness: bool has no such fetch op"),
                    })),
                    Op::Fupd(_, f, so, fo) => res(
                        a.fetch_update(*so, *fo, |v| match f {
                            Fupd::None => None,
                            // wrapping add on a one-bit value
                            Fupd::Add(k) => Some(v ^ (k & 1 != 0)),
                            Fupd::AddIfLt(k, lim) => {
                                if (v as i128) < *lim {
                                    Some(v ^ (k & 1 != 0))
                                } else {
                                    None
                                }
                            }
                        }),
                        fv,
                    ),
                    Op::Uld(_) => Ret::Val(fv(unsafe { a.unsync_load() })),
                    Op::Await(_, v, o) => {
                        let mut spins = 0u32;
                        loop {
                            let u = a.load(*o);
                            if u == tv(*v) {
                                break Ret::Val(fv(u));
                            }
                            spins += 1;
                            // far beyond any branch limit the DSL configures: reached only if the limit is not enforced
                            assert!(spins < AWAIT_SPIN_CAP, "harness: await spun {} times (branch limit not enforced)", spins);
                            loom::thread::yield_now();
                        }
                    }
                    _ => unreachable!(),
                }
            }
            AnyAtomic::Ptr(a) => {
                let tv = |v: i128| v as usize as *mut u8;
                let fv = |v: *mut u8| v as usize as i128;
                match op {
                    Op::Ld(_, o) => Ret::Val(fv(a.load(*o))),
                    Op::St(_, v, o) => {
                        a.store(tv(*v), *o);
                        Ret::Unit
                    }
                    Op::Swap(_, v, o) => Ret::Val(fv(a.swap(tv(*v), *o))),
                    Op::Cas(_, c, n, so, fo) => res(a.compare_exchange(tv(*c), tv(*n), *so, *fo), fv),
                    #[allow(deprecated)]
                    Op::Cswp(_, c, n, o) => Ret::Val(fv(a.compare_and_swap(tv(*c), tv(*n), *o))),
                    Op::Fupd(_, f, so, fo) => res(
                        a.fetch_update(*so, *fo, |v| match f {
                            Fupd::None => None,
                            Fupd::Add(k) => Some((v as usize).wrapping_add(*k as usize) as *mut u8),
                            Fupd::AddIfLt(k, lim) => {
                                if (v as usize as i128) < *lim {
                                    Some((v as usize).wrapping_add(*k as usize) as *mut u8)
                                } else {
                                    None
                                }
                            }
                        }),
                        fv,
                    ),
                    Op::Uld(_) => Ret::Val(fv(unsafe { a.unsync_load() })),
                    Op::Await(_, v, o) => {
                        let mut spins = 0u32;
                        loop {
                            let u = a.load(*o);
                            if u == tv(*v) {
                                break Ret::Val(fv(u));
                            }
                            spins += 1;
                            // far beyond any branch limit the DSL configures: reached only if the limit is not enforced
                            assert!(spins < AWAIT_SPIN_CAP, "harness: await spun {} times (branch limit not enforced)", spins);
                            loom::thread::yield_now();
                        }
                    }
                    Op::Fetch(..) => panic!("harness: ptr has no fetch op"),
                    _ => unreachable!(),
                }
            }
        }
    }

    /// `with_mut(|p| { let old = *p; *p = v; old })`
    pub fn with_mut(&mut self, v: i128) -> Ret {
        macro_rules! wm {
            ($a:expr, $t:ty) => {
                Ret::Val($a.with_mut(|p| {
                    let old = *p;
                    *p = v as $t;
                    old
                }) as i128)
            };
        }
        match self {
            AnyAtomic::U8(a) => wm!(a, u8),
            AnyAtomic::U16(a) => wm!(a, u16),
            AnyAtomic::U32(a) => wm!(a, u32),
            AnyAtomic::U64(a) => wm!(a, u64),
            AnyAtomic::Usize(a) => wm!(a, usize),
            AnyAtomic::I8(a) => wm!(a, i8),
            AnyAtomic::I16(a) => wm!(a, i16),
            AnyAtomic::I32(a) => wm!(a, i32),
            AnyAtomic::I64(a) => wm!(a, i64),
            AnyAtomic::Isize(a) => wm!(a, isize),
            AnyAtomic::Bool(_) => panic!("harness: AtomicBool has no with_mut"),
            AnyAtomic::Ptr(a) => Ret::Val(a.with_mut(|p| {
                let old = *p;
                *p = v as usize as *mut u8;
                old
            }) as usize as i128),
        }
    }
}

/// payload of modelled `Arc`s: counts its drops
pub struct Payload {
    pub drops: Rc<std::cell::Cell<usize>>,
}
impl Drop for Payload {
    fn drop(&mut self) {
        self.drops.set(self.drops.get() + 1);
    }
}

pub enum Handle {
    Live(loom::sync::Arc<Payload>),
    Raw(*const Payload),
}

type MGuard = loom::sync::MutexGuard<'static, ()>;
type RGuard = loom::sync::RwLockReadGuard<'static, ()>;
type WGuard = loom::sync::RwLockWriteGuard<'static, ()>;

pub struct World {
    pub prog: std::sync::Arc<Prog>,
    atoms: Vec<RefCell<AnyAtomic>>,
    cells: Vec<loom::cell::UnsafeCell<i128>>,
    mutexes: Vec<loom::sync::Mutex<()>>,
    rwlocks: Vec<loom::sync::RwLock<()>>,
    condvars: Vec<loom::sync::Condvar>,
    notifies: Vec<loom::sync::Notify>,
    senders: Vec<RefCell<Option<loom::sync::mpsc::Sender<i128>>>>,
    receivers: Vec<RefCell<Option<ManuallyDrop<loom::sync::mpsc::Receiver<i128>>>>>,
    // dynamic state; everything with a destructor that talks to loom is `ManuallyDrop`
    mguards: RefCell<HashMap<(usize, usize), ManuallyDrop<MGuard>>>,
    rguards: RefCell<HashMap<(usize, usize), ManuallyDrop<RGuard>>>,
    wguards: RefCell<HashMap<(usize, usize), ManuallyDrop<WGuard>>>,
    joins: RefCell<HashMap<usize, loom::thread::JoinHandle<()>>>,
    thread_handles: RefCell<HashMap<usize, loom::thread::Thread>>,
    handles: RefCell<HashMap<usize, ManuallyDrop<Handle>>>,
    drops: RefCell<HashMap<usize, Rc<std::cell::Cell<usize>>>>,
    tracks: RefCell<HashMap<usize, ManuallyDrop<loom::alloc::Track<()>>>>,
    raws: RefCell<HashMap<usize, *mut u8>>,
    /// open read / write sections of cells: (loom thread, cell) ↦ pointer guard
    rptrs: RefCell<HashMap<(usize, usize), ManuallyDrop<loom::cell::ConstPtr<i128>>>>,
    wptrs: RefCell<HashMap<(usize, usize), ManuallyDrop<loom::cell::MutPtr<i128>>>>,
    pub futures: Vec<crate::extras::FutureState>,
    /// waker clones held by threads: (loom thread, future) ↦ waker
    pub held: RefCell<HashMap<(usize, usize), std::task::Waker>>,
}

impl World {
    pub fn new(prog: std::sync::Arc<Prog>) -> World {
        let c = &prog.cfg;
        // creation order is part of the contract with the model (object indices)
        let atoms = (0..c.n_atomics).map(|_| RefCell::new(AnyAtomic::new(c.ty))).collect();
        let cells = (0..c.n_cells).map(|_| loom::cell::UnsafeCell::new(0i128)).collect();
        let mutexes = (0..c.n_mutexes).map(|_| loom::sync::Mutex::new(())).collect();
        let rwlocks = (0..c.n_rwlocks).map(|_| loom::sync::RwLock::new(())).collect();
        let condvars = (0..c.n_condvars).map(|_| loom::sync::Condvar::new()).collect();
        let notifies = (0..c.n_notifies).map(|_| loom::sync::Notify::new()).collect();
        let mut senders = Vec::new();
        let mut receivers = Vec::new();
        for _ in 0..c.n_chans {
            let (tx, rx) = loom::sync::mpsc::channel();
            senders.push(RefCell::new(Some(tx)));
            receivers.push(RefCell::new(Some(ManuallyDrop::new(rx))));
        }
        // one AtomicWaker (an `rt::Mutex` object) per scripted future, after the declared objects
        let futures = (0..c.n_futures).map(|_| crate::extras::FutureState::new()).collect();
        World {
            prog,
            atoms,
            cells,
            mutexes,
            rwlocks,
            condvars,
            notifies,
            senders,
            receivers,
            mguards: Default::default(),
            rguards: Default::default(),
            wguards: Default::default(),
            joins: Default::default(),
            thread_handles: Default::default(),
            handles: Default::default(),
            drops: Default::default(),
            tracks: Default::default(),
            raws: Default::default(),
            rptrs: Default::default(),
            wptrs: Default::default(),
            futures,
            held: Default::default(),
        }
    }

    pub fn atomic_store(&self, x: usize, v: i128) {
        let a = unsafe { &*self.atoms[x].as_ptr() };
        a.op(&Op::St(x, v, Ordering::Relaxed));
    }
    pub fn atomic_store_rel(&self, x: usize, v: i128) {
        let a = unsafe { &*self.atoms[x].as_ptr() };
        a.op(&Op::St(x, v, Ordering::Release));
    }
    pub fn atomic_fadd_rlx(&self, x: usize, v: i128) {
        let a = unsafe { &*self.atoms[x].as_ptr() };
        a.op(&Op::Fetch(x, Fetch::Add, v, Ordering::Relaxed));
    }
    pub fn atomic_load_ord(&self, x: usize, o: Ordering) -> i128 {
        let a = unsafe { &*self.atoms[x].as_ptr() };
        match a.op(&Op::Ld(x, o)) {
            Ret::Val(v) => v,
            _ => unreachable!(),
        }
    }
}

fn log_event(body: usize, pc: usize, ret: &Ret) {
    let (_tid, caus) = loom::verif::current();
    LOG.with(|l| l.borrow_mut().push(format!("E {} {} {} {}", body, pc, ret.render(), caus)));
}

unsafe fn extend<'a, T: ?Sized>(r: &'a T) -> &'static T {
    std::mem::transmute::<&'a T, &'static T>(r)
}

/// C06 (`unwind=1`): what a thread owns is dropped when a panic unwinds its stack, as it would be
/// for guards and handles held in local variables: its mutex / rwlock guards in reverse order of
/// acquisition is not tracked, so in index order; then the Arc handle and the Track in the slot
/// that carries the thread's own index.
struct Unwind {
    w: Rc<World>,
    tid: usize,
    body: usize,
}

impl Drop for Unwind {
    fn drop(&mut self) {
        if !std::thread::panicking() || !self.w.prog.cfg.unwind {
            return;
        }
        let w = &self.w;
        let keys: Vec<(usize, usize)> = w.mguards.borrow().keys().filter(|k| k.0 == self.tid).cloned().collect();
        for k in keys {
            if let Some(g) = w.mguards.borrow_mut().remove(&k) {
                drop(ManuallyDrop::into_inner(g));
            }
        }
        let keys: Vec<(usize, usize)> = w.rguards.borrow().keys().filter(|k| k.0 == self.tid).cloned().collect();
        for k in keys {
            if let Some(g) = w.rguards.borrow_mut().remove(&k) {
                drop(ManuallyDrop::into_inner(g));
            }
        }
        let keys: Vec<(usize, usize)> = w.wguards.borrow().keys().filter(|k| k.0 == self.tid).cloned().collect();
        for k in keys {
            if let Some(g) = w.wguards.borrow_mut().remove(&k) {
                drop(ManuallyDrop::into_inner(g));
            }
        }
        // open read / write sections of cells (pointer guards on the panicking thread's stack)
        let keys: Vec<(usize, usize)> = w.rptrs.borrow().keys().filter(|k| k.0 == self.tid).cloned().collect();
        for k in keys {
            if let Some(g) = w.rptrs.borrow_mut().remove(&k) {
                drop(ManuallyDrop::into_inner(g));
            }
        }
        let keys: Vec<(usize, usize)> = w.wptrs.borrow().keys().filter(|k| k.0 == self.tid).cloned().collect();
        for k in keys {
            if let Some(g) = w.wptrs.borrow_mut().remove(&k) {
                drop(ManuallyDrop::into_inner(g));
            }
        }
        let h = w.handles.borrow_mut().remove(&self.body);
        if let Some(h) = h {
            if let Handle::Live(a) = ManuallyDrop::into_inner(h) {
                drop(a);
            }
        }
        let t = w.tracks.borrow_mut().remove(&self.body);
        if let Some(t) = t {
            drop(ManuallyDrop::into_inner(t));
        }
    }
}

/// run the body of DSL thread `body`
pub fn run_thread(w: Rc<World>, body: usize) {
    let prog = w.prog.clone();
    let ops = &prog.threads[body];
    // the loom thread id, needed as a key for guards
    let (tid, _) = loom::verif::current();
    if body == 0 {
        crate::extras::reset(&w);
        // handle used by `unpark 0`
        w.thread_handles.borrow_mut().insert(0, loom::thread::current());
    }
    let _unwind = Unwind { w: w.clone(), tid, body };
    let mut results: HashMap<usize, Ret> = HashMap::new();
    let mut pc = 0usize;
    while pc < ops.len() {
        let op = &ops[pc];
        if let Op::IfEq(i, r, n) = op {
            if results.get(&(pc - *i)) == Some(r) {
                pc += 1;
            } else {
                pc += 1 + n;
            }
            continue;
        }
        if let Op::DropTx(q) = op {
            // nothing loom knows about: no event, like `ifeq`
            drop(w.senders[*q].borrow_mut().take().expect("harness: droptx twice"));
            pc += 1;
            continue;
        }
        let ret = exec_op(&w, tid, op);
        log_event(body, pc, &ret);
        results.insert(pc, ret);
        pc += 1;
    }
}

/// see `Op::Await`
const AWAIT_SPIN_CAP: u32 = 60_000;

fn raw_layout() -> loom::alloc::Layout {
    loom::alloc::Layout::from_size_align(1000, 8).unwrap()
}

fn exec_op(w: &Rc<World>, tid: usize, op: &Op) -> Ret {
    match op {
        Op::Ld(x, ..)
        | Op::St(x, ..)
        | Op::Swap(x, ..)
        | Op::Cas(x, ..)
        | Op::Cswp(x, ..)
        | Op::Fetch(x, ..)
        | Op::Fupd(x, ..)
        | Op::Uld(x)
        | Op::Await(x, ..) => {
            // a shared borrow: other coroutines may be inside an operation on the same cell
            let a = unsafe { &*w.atoms[*x].as_ptr() };
            a.op(op)
        }
        Op::Wmut(x, v) => {
            let a = unsafe { &mut *w.atoms[*x].as_ptr() };
            a.with_mut(*v)
        }
        Op::Fence(o) => {
            loom::sync::atomic::fence(*o);
            Ret::Unit
        }
        Op::Crd(c) => Ret::Val(w.cells[*c].with(|p| unsafe { *p })),
        Op::Cwr(c, v) => {
            w.cells[*c].with_mut(|p| unsafe { *p = *v });
            Ret::Unit
        }
        Op::CrdB(c) => {
            // `let p = cell.get(); *p.deref()`: the read section stays open until `crde`
            let p = w.cells[*c].get();
            let v = unsafe { *p.deref() };
            w.rptrs.borrow_mut().insert((tid, *c), ManuallyDrop::new(p));
            Ret::Val(v)
        }
        Op::CrdE(c) => {
            let p = w.rptrs.borrow_mut().remove(&(tid, *c)).expect("harness: crde without crdb");
            drop(ManuallyDrop::into_inner(p));
            Ret::Unit
        }
        Op::CwrB(c, v) => {
            let p = w.cells[*c].get_mut();
            unsafe { *p.deref() = *v };
            w.wptrs.borrow_mut().insert((tid, *c), ManuallyDrop::new(p));
            Ret::Unit
        }
        Op::CwrE(c) => {
            let p = w.wptrs.borrow_mut().remove(&(tid, *c)).expect("harness: cwre without cwrb");
            drop(ManuallyDrop::into_inner(p));
            Ret::Unit
        }
        Op::Lock(m) => {
            let g = unsafe { extend(&w.mutexes[*m]) }.lock().unwrap();
            w.mguards.borrow_mut().insert((tid, *m), ManuallyDrop::new(g));
            Ret::Unit
        }
        Op::TryLock(m) => match unsafe { extend(&w.mutexes[*m]) }.try_lock() {
            Ok(g) => {
                w.mguards.borrow_mut().insert((tid, *m), ManuallyDrop::new(g));
                Ret::Val(1)
            }
            Err(_) => Ret::Val(0),
        },
        Op::Unlock(m) => {
            let g = w.mguards.borrow_mut().remove(&(tid, *m)).expect("harness: unlock without guard");
            drop(ManuallyDrop::into_inner(g));
            Ret::Unit
        }
        Op::Rd(l) => {
            let g = unsafe { extend(&w.rwlocks[*l]) }.read().unwrap();
            w.rguards.borrow_mut().insert((tid, *l), ManuallyDrop::new(g));
            Ret::Unit
        }
        Op::TryRd(l) => match unsafe { extend(&w.rwlocks[*l]) }.try_read() {
            Ok(g) => {
                w.rguards.borrow_mut().insert((tid, *l), ManuallyDrop::new(g));
                Ret::Val(1)
            }
            Err(_) => Ret::Val(0),
        },
        Op::Wr(l) => {
            let g = unsafe { extend(&w.rwlocks[*l]) }.write().unwrap();
            w.wguards.borrow_mut().insert((tid, *l), ManuallyDrop::new(g));
            Ret::Unit
        }
        Op::TryWr(l) => match unsafe { extend(&w.rwlocks[*l]) }.try_write() {
            Ok(g) => {
                w.wguards.borrow_mut().insert((tid, *l), ManuallyDrop::new(g));
                Ret::Val(1)
            }
            Err(_) => Ret::Val(0),
        },
        Op::UnRd(l) => {
            let g = w.rguards.borrow_mut().remove(&(tid, *l)).expect("harness: unrd without guard");
            drop(ManuallyDrop::into_inner(g));
            Ret::Unit
        }
        Op::UnWr(l) => {
            let g = w.wguards.borrow_mut().remove(&(tid, *l)).expect("harness: unwr without guard");
            drop(ManuallyDrop::into_inner(g));
            Ret::Unit
        }
        Op::CvWait(v, m) => {
            let g = w.mguards.borrow_mut().remove(&(tid, *m)).expect("harness: cvwait without guard");
            let g = w.condvars[*v].wait(ManuallyDrop::into_inner(g)).unwrap();
            w.mguards.borrow_mut().insert((tid, *m), ManuallyDrop::new(g));
            Ret::Unit
        }
        Op::CvOne(v) => {
            w.condvars[*v].notify_one();
            Ret::Unit
        }
        Op::CvAll(v) => {
            w.condvars[*v].notify_all();
            Ret::Unit
        }
        Op::NWait(k) => {
            w.notifies[*k].wait();
            Ret::Unit
        }
        Op::NNotify(k) => {
            w.notifies[*k].notify();
            Ret::Unit
        }
        Op::Park => {
            loom::thread::park();
            Ret::Unit
        }
        Op::Unpark(b) => {
            let th = w.thread_handles.borrow().get(b).expect("harness: unpark of unknown thread").clone();
            th.unpark();
            Ret::Unit
        }
        Op::Spawn(b) => {
            let w2 = w.clone();
            let b2 = *b;
            let h = loom::thread::spawn(move || run_thread(w2, b2));
            w.thread_handles.borrow_mut().insert(*b, h.thread().clone());
            w.joins.borrow_mut().insert(*b, h);
            Ret::Unit
        }
        Op::SpawnOwn(b, hidx) => {
            // `let a2 = ..; thread::spawn(move || use(a2))`: the closure owns the Arc handle until the thread starts
            let owned = w.handles.borrow_mut().remove(hidx).map(ManuallyDrop::into_inner);
            let w2 = w.clone();
            let (b2, h2) = (*b, *hidx);
            let h = loom::thread::spawn(move || {
                if let Some(o) = owned {
                    w2.handles.borrow_mut().insert(h2, ManuallyDrop::new(o));
                }
                run_thread(w2, b2)
            });
            w.thread_handles.borrow_mut().insert(*b, h.thread().clone());
            w.joins.borrow_mut().insert(*b, h);
            Ret::Unit
        }
        Op::Join(b) => {
            let h = w.joins.borrow_mut().remove(b).expect("harness: join without handle");
            h.join().unwrap();
            Ret::Unit
        }
        Op::Yield => {
            loom::thread::yield_now();
            Ret::Unit
        }
        Op::IfEq(..) | Op::DropTx(..) => unreachable!(),
        Op::Send(q, v) => {
            let s = unsafe { &*w.senders[*q].as_ptr() };
            let _ = s.as_ref().expect("harness: send after droptx").send(*v);
            Ret::Unit
        }
        Op::Recv(q) => {
            let r = unsafe { &*w.receivers[*q].as_ptr() };
            Ret::Val(r.as_ref().expect("harness: recv after droprx").recv().unwrap())
        }
        Op::TryRecv(q) => {
            let r = unsafe { &*w.receivers[*q].as_ptr() };
            match r.as_ref().expect("harness: tryrecv after droprx").try_recv() {
                Ok(v) => Ret::Val(v),
                Err(std::sync::mpsc::TryRecvError::Empty) => Ret::Empty,
                Err(std::sync::mpsc::TryRecvError::Disconnected) => Ret::Err(1),
            }
        }
        Op::DropRx(q) => {
            let r = w.receivers[*q].borrow_mut().take().expect("harness: droprx twice");
            drop(ManuallyDrop::into_inner(r));
            Ret::Unit
        }
        Op::ANew(h) => {
            let drops = Rc::new(std::cell::Cell::new(0));
            let a = loom::sync::Arc::new(Payload { drops: drops.clone() });
            w.drops.borrow_mut().insert(*h, drops);
            w.handles.borrow_mut().insert(*h, ManuallyDrop::new(Handle::Live(a)));
            Ret::Unit
        }
        Op::AClone(h, h2) => {
            let c = {
                let hs = unsafe { &*w.handles.as_ptr() };
                match &**hs.get(h).expect("harness: aclone of empty slot") {
                    Handle::Live(a) => a.clone(),
                    Handle::Raw(_) => panic!("harness: aclone of raw handle"),
                }
            };
            let d = w.drops.borrow().get(h).unwrap().clone();
            w.drops.borrow_mut().insert(*h2, d);
            w.handles.borrow_mut().insert(*h2, ManuallyDrop::new(Handle::Live(c)));
            Ret::Unit
        }
        Op::ADrop(h) => {
            let hd = w.handles.borrow_mut().remove(h).expect("harness: adrop of empty slot");
            let d = w.drops.borrow().get(h).unwrap().clone();
            let before = d.get();
            match ManuallyDrop::into_inner(hd) {
                Handle::Live(a) => drop(a),
                Handle::Raw(_) => panic!("harness: adrop of raw handle"),
            }
            Ret::Val((d.get() - before) as i128)
        }
        Op::ACount(h) => {
            let hs = unsafe { &*w.handles.as_ptr() };
            match &**hs.get(h).expect("harness: acount of empty slot") {
                Handle::Live(a) => Ret::Val(loom::sync::Arc::strong_count(a) as i128),
                Handle::Raw(_) => panic!("harness: acount of raw handle"),
            }
        }
        Op::AGetMut(h) => {
            let hs = unsafe { &mut *w.handles.as_ptr() };
            match &mut **hs.get_mut(h).expect("harness: agetmut of empty slot") {
                Handle::Live(a) => Ret::Val(loom::sync::Arc::get_mut(a).is_some() as i128),
                Handle::Raw(_) => panic!("harness: agetmut of raw handle"),
            }
        }
        Op::AUnwrap(h) => {
            let hd = w.handles.borrow_mut().remove(h).expect("harness: aunwrap of empty slot");
            match ManuallyDrop::into_inner(hd) {
                Handle::Live(a) => match loom::sync::Arc::try_unwrap(a) {
                    Ok(p) => {
                        drop(p);
                        Ret::Ok(0)
                    }
                    Err(a) => {
                        w.handles.borrow_mut().insert(*h, ManuallyDrop::new(Handle::Live(a)));
                        Ret::Err(0)
                    }
                },
                Handle::Raw(_) => panic!("harness: aunwrap of raw handle"),
            }
        }
        Op::ARaw(h) => {
            let hd = w.handles.borrow_mut().remove(h).expect("harness: araw of empty slot");
            match ManuallyDrop::into_inner(hd) {
                Handle::Live(a) => {
                    let p = loom::sync::Arc::into_raw(a);
                    w.handles.borrow_mut().insert(*h, ManuallyDrop::new(Handle::Raw(p)));
                }
                Handle::Raw(_) => panic!("harness: araw of raw handle"),
            }
            Ret::Unit
        }
        Op::AFromRaw(h) => {
            let hd = w.handles.borrow_mut().remove(h).expect("harness: afromraw of empty slot");
            match ManuallyDrop::into_inner(hd) {
                Handle::Raw(p) => {
                    let a = unsafe { loom::sync::Arc::from_raw(p) };
                    w.handles.borrow_mut().insert(*h, ManuallyDrop::new(Handle::Live(a)));
                }
                Handle::Live(_) => panic!("harness: afromraw of live handle"),
            }
            Ret::Unit
        }
        Op::AInc(h) | Op::ADec(h) => {
            let p = {
                let hs = unsafe { &*w.handles.as_ptr() };
                match &**hs.get(h).expect("harness: ainc/adec of empty slot") {
                    Handle::Live(a) => loom::sync::Arc::as_ptr(a),
                    Handle::Raw(p) => *p,
                }
            };
            if let Op::AInc(_) = op {
                unsafe { loom::sync::Arc::increment_strong_count(p) };
                Ret::Unit
            } else {
                let d = w.drops.borrow().get(h).unwrap().clone();
                let before = d.get();
                unsafe { loom::sync::Arc::decrement_strong_count(p) };
                Ret::Val((d.get() - before) as i128)
            }
        }
        Op::APtrEq(h, h2) => {
            let hs = unsafe { &*w.handles.as_ptr() };
            match (&**hs.get(h).unwrap(), &**hs.get(h2).unwrap()) {
                (Handle::Live(a), Handle::Live(b)) => Ret::Val(loom::sync::Arc::ptr_eq(a, b) as i128),
                _ => panic!("harness: apeq of raw handle"),
            }
        }
        Op::TNew(k) => {
            w.tracks.borrow_mut().insert(*k, ManuallyDrop::new(loom::alloc::Track::new(())));
            Ret::Unit
        }
        Op::TDrop(k) => {
            let t = w.tracks.borrow_mut().remove(k).expect("harness: tdrop of empty slot");
            drop(ManuallyDrop::into_inner(t));
            Ret::Unit
        }
        Op::Alloc(k) => {
            // (an unusual size class: a block freed by `dealloc` is handed out again by the next `alloc` and by
            // nothing in between, so "a block at a recycled address" is exercised deterministically)
            let p = unsafe { loom::alloc::alloc(raw_layout()) };
            w.raws.borrow_mut().insert(*k, p);
            Ret::Unit
        }
        Op::Dealloc(k) => {
            let p = w.raws.borrow_mut().remove(k).expect("harness: dealloc of empty slot");
            unsafe { loom::alloc::dealloc(p, raw_layout()) };
            Ret::Unit
        }
        Op::Tls(_) | Op::TlsTry(_) | Op::Lazy(_) | Op::TlsNest(..) | Op::TlsStat(_) | Op::TlsObs(_) | Op::LazyStat(_) => {
            crate::extras::tls_op(op)
        }
        Op::BlockOn(..) | Op::Wake(_) | Op::WakeRef(_) | Op::DropWaker(_) | Op::AwWake(_) | Op::WakeQ(_) | Op::AwTake(_) | Op::WClone(_) | Op::WakeH(_) => {
            crate::extras::future_op(w, op)
        }
        Op::Stop => {
            loom::stop_exploring();
            Ret::Unit
        }
        Op::Explore => {
            loom::explore();
            Ret::Unit
        }
        Op::Skip => {
            loom::skip_branch();
            Ret::Unit
        }
        Op::Panic => panic!("harness: user panic"),
    }
}

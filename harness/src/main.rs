//! lv-harness: runs DSL programs on the real loom (built from /repo's working tree with the
//! `verif-hooks` feature) and prints, per iteration, the records the Lean twin prints too:
//!
//!   PROG <line>
//!   IT <k>
//!   S <path json>            start-of-iteration path
//!   E <tid> <pc> <ret> <c>   completed operation, in completion order, with the thread's clock
//!   T <class>                termination class of the iteration (`ok` or a panic class)
//!   P <path json>            end-of-iteration path        (completed iterations only)
//!   H <thread table>         end-of-iteration thread dump (completed iterations only)
//!   O <idx> <object dump>    end-of-iteration objects     (completed iterations only)
//!   DONE <n> <ok|class>
//!
//! Modes: `lv-harness run` reads program lines from stdin.

mod native;
mod extras;
mod interp;
mod prog;
mod stdref;

use interp::{World, LOG};
use std::cell::RefCell;
use std::io::{BufRead, Write};
use std::rc::Rc;

thread_local! {
    static OUT: RefCell<Vec<String>> = RefCell::new(Vec::new());
}

#[derive(Clone, Copy)]
pub struct Opts {
    /// print S/P/H/O lines instead of the two digests
    pub full: bool,
    /// in digest mode, also print the start path of every iteration
    pub starts: bool,
    /// stop a program after this many iterations (reported as `DONE <max> capped`)
    pub max_iters: usize,
}

thread_local! {
    static CKPT_DIR: RefCell<Option<String>> = RefCell::new(None);
}

pub fn fnv1a(s: &str) -> u64 {
    let mut h: u64 = 0xCBF29CE484222325;
    for b in s.bytes() {
        h = (h ^ (b as u64)).wrapping_mul(0x100000001B3);
    }
    h
}

fn drop_tokens(pfx: &[&str], line: &str) -> String {
    line.split(' ')
        .filter(|t| !pfx.iter().any(|p| t.starts_with(p)))
        .collect::<Vec<_>>()
        .join(" ")
}

fn threads_safety(line: &str) -> String {
    drop_tokens(&["d="], line)
}

fn obj_safety(line: &str) -> String {
    drop_tokens(&["la=", "lnl=", "ls=", "lr=", "inc=", "dec=", "insp=", "mod="], line)
}

/// decisions and enabledness recorded in a path, without marks and counters
fn path_safety_view(json: &str) -> String {
    let v: serde_json::Value = serde_json::from_str(json).expect("path json");
    let mut out = Vec::new();
    for e in v["branches"]["entries"].as_array().unwrap() {
        if let Some(s) = e.get("Schedule") {
            let t: String = s["threads"]
                .as_array()
                .unwrap()
                .iter()
                .map(|x| match x.as_str().unwrap() {
                    "Disabled" => 'D',
                    "Yield" => 'Y',
                    "Active" => 'A',
                    _ => 'S',
                })
                .collect();
            out.push(t);
        } else if let Some(l) = e.get("Load") {
            let len = l["len"].as_u64().unwrap() as usize;
            let vals: Vec<String> = l["values"].as_array().unwrap()[..len]
                .iter()
                .map(|x| x.as_u64().unwrap().to_string())
                .collect();
            out.push(format!("L{}@{}", vals.join(","), l["pos"].as_u64().unwrap()));
        } else if let Some(u) = e.get("Spurious") {
            out.push(if u["spur"].as_bool().unwrap() { "U1".to_string() } else { "U0".to_string() });
        }
    }
    out.join(" ")
}

fn out(s: String) {
    OUT.with(|o| o.borrow_mut().push(s));
}

/// map a panic message to a class name (the names of `LoomVerif.Panic` constructors)
pub fn classify(msg: &str) -> String {
    const CAUS: [&str; 12] = [
        "Causality violation: Concurrent load and mut accesses.",
        "Causality violation: Concurrent `unsync_load` and mut accesses.",
        "Causality violation: Concurrent `unsync_load` and atomic store.",
        "Causality violation: Concurrent atomic store and mut accesses.",
        "Causality violation: Concurrent atomic store and `unsync_load` accesses.",
        "Causality violation: Concurrent atomic load and unsync mut accesses.",
        "Causality violation: Concurrent `unsync_load` and unsync mut accesses.",
        "Causality violation: Concurrent atomic store and unsync mut accesses.",
        "Causality violation: Concurrent unsync mut accesses.",
        "Causality violation: Concurrent read and write accesses.",
        "Causality violation: Concurrent write accesses to `UnsafeCell`.",
        "Causality violation: Concurrent read and write accesses to `UnsafeCell`.",
    ];
    let first = msg.lines().next().unwrap_or("").trim();
    for (i, m) in CAUS.iter().enumerate() {
        if first == *m {
            return format!("causality:{}", i);
        }
    }
    let table: [(&str, &str); 25] = [
        ("Model exceeded maximum number of branches", "branchLimit"),
        ("deadlock; threads =", "deadlock"),
        ("assertion failed: self.threads.len() < self.max()", "threadLimit"),
        ("Reached unexpected exploration state", "nondet"),
        ("not in critical state", "notCritical"),
        ("not in exploring state", "notExploring"),
        ("Arc leaked", "leakArc"),
        ("Allocation leaked", "leakAlloc"),
        ("Messages leaked", "leakMsg"),
        ("expected to be able to acquire lock", "expectedLock"),
        ("expected to be able to acquire read lock", "expectedRead"),
        ("expected to be able to acquire write lock", "expectedWrite"),
        ("assertion failed: state.notified", "notNotified"),
        ("invalid internal loom state", "invalidRw"),
        ("Arc is released", "arcReleased"),
        ("Arc is already released", "arcReleased"),
        ("currently writing to cell", "cellBusy"),
        ("currently reading from cell", "cellBusy"),
        ("atomic cell is in `with_mut` call", "atomicMutating"),
        ("attempted to access lazy_static during shutdown", "lazyShutdown"),
        ("cannot access a (mock) TLS value during or after it is destroyed", "tlsDestroyed"),
        ("only a single thread may wait on `Notify`", "notifyTwoWaiters"),
        ("expected to be able to read the message", "msgUnderflow"),
        ("harness: user panic", "user"),
        // `assert_ne!(mo_i, mo_j)` in rt/atomic.rs match_load_to_stores / match_rmw_to_stores ("this sometimes fails")
        ("assertion `left != right` failed", "internal:10"),
    ];
    for (p, c) in table.iter() {
        if first.starts_with(p) || first.contains(p) {
            return c.to_string();
        }
    }
    if first.starts_with("harness:") {
        return format!("harnessError({})", first);
    }
    format!("other({})", first)
}

fn payload_msg(p: &(dyn std::any::Any + Send)) -> String {
    if let Some(s) = p.downcast_ref::<String>() {
        s.clone()
    } else if let Some(s) = p.downcast_ref::<&str>() {
        s.to_string()
    } else {
        "<non-string panic payload>".to_string()
    }
}

fn builder(cfg: &prog::Cfg) -> loom::model::Builder {
    let mut b = loom::model::Builder::new();
    b.max_threads = cfg.max_threads;
    b.max_branches = cfg.max_branches;
    b.max_permutations = cfg.max_perm;
    b.max_duration = cfg.max_dur.map(std::time::Duration::from_millis);
    b.preemption_bound = cfg.bound;
    b.checkpoint_file = None;
    b.checkpoint_interval = cfg.interval;
    b.expect_explicit_explore = cfg.explicit;
    b.location = false;
    b.log = false;
    b
}

/// run one program to the end of its exploration (or its first panic); records go to OUT
pub fn run_program(line: &str, checkpoint: Option<&str>, opts: Opts) {
    out(format!("PROG {}", line));
    let prog = match prog::parse(line) {
        Some(p) => std::sync::Arc::new(p),
        None => {
            out("DONE 0 parseError".to_string());
            return;
        }
    };
    let mut b = builder(&prog.cfg);
    if let Some(f) = checkpoint {
        b.checkpoint_file = Some(f.into());
    }
    if let Some(name) = &prog.cfg.ckpt {
        let dir = CKPT_DIR.with(|d| d.borrow().clone()).expect("harness: ckpt= needs --ckpt-dir");
        b.checkpoint_file = Some(format!("{}/{}", dir, name).into());
    }
    let iters = Rc::new(std::cell::Cell::new(0usize));
    let iters2 = iters.clone();
    LOG.with(|l| l.borrow_mut().clear());
    let start_path = Rc::new(RefCell::new(String::new()));
    loom::verif::set_iteration_hook(Some(Box::new(move |phase, i, path, threads, objects| {
        match phase {
            loom::verif::Phase::Start => {
                if i > opts.max_iters {
                    panic!("harness: cap");
                }
                iters2.set(iters2.get() + 1);
                LOG.with(|l| l.borrow_mut().clear());
                out(format!("IT {}", i));
                if opts.full || opts.starts {
                    out(format!("S {}", path));
                }
                *start_path.borrow_mut() = path.to_string();
            }
            loom::verif::Phase::End => {
                extras::iteration_ok();
                LOG.with(|l| {
                    for e in l.borrow_mut().drain(..) {
                        out(e);
                    }
                });
                out("T ok".to_string());
                let olines: Vec<String> = objects.lines().map(|o| format!("O {}", o)).collect();
                if opts.full {
                    out(format!("P {}", path));
                    out(format!("H {}", threads));
                    for o in olines {
                        out(o);
                    }
                } else {
                    let mut full = vec![
                        format!("S {}", start_path.borrow()),
                        format!("P {}", path),
                        format!("H {}", threads),
                    ];
                    full.extend(olines.iter().cloned());
                    let mut safe = vec![
                        format!("V {}", path_safety_view(path)),
                        threads_safety(&format!("H {}", threads)),
                    ];
                    safe.extend(olines.iter().map(|o| obj_safety(o)));
                    out(safe[0].clone());
                    out(format!("XS {:016x}", fnv1a(&safe.join("\n"))));
                    out(format!("XE {:016x}", fnv1a(&full.join("\n"))));
                }
            }
        }
    })));
    let p2 = prog.clone();
    let r = std::panic::catch_unwind(std::panic::AssertUnwindSafe(|| {
        b.check(move || {
            let w = Rc::new(World::new(p2.clone()));
            interp::run_thread(w, 0);
        });
    }));
    loom::verif::set_iteration_hook(None);
    extras::abandon();
    match r {
        Ok(()) => out(format!("DONE {} ok", iters.get())),
        Err(p) => {
            let class = classify(&payload_msg(&*p));
            if class == "harnessError(harness: cap)" {
                out(format!("DONE {} capped", iters.get()));
                return;
            }
            LOG.with(|l| {
                for e in l.borrow_mut().drain(..) {
                    out(e);
                }
            });
            out(format!("T {}", class));
            out(format!("DONE {} {}", iters.get(), class));
        }
    }
}

fn flush_out() {
    let stdout = std::io::stdout();
    let mut h = stdout.lock();
    OUT.with(|o| {
        for l in o.borrow_mut().drain(..) {
            let _ = writeln!(h, "{}", l);
        }
    });
    let _ = h.flush();
}

fn main() {
    let args: Vec<String> = std::env::args().collect();
    let mode = args.get(1).map(|s| s.as_str()).unwrap_or("run");
    let opts = Opts {
        full: args.iter().any(|a| a == "--full"),
        starts: args.iter().any(|a| a == "--starts"),
        max_iters: args
            .iter()
            .position(|a| a == "--max")
            .and_then(|i| args.get(i + 1))
            .and_then(|v| v.parse().ok())
            .unwrap_or(1_000_000),
    };
    // loom prints nothing itself, but panics would print to stderr for every failing program
    std::panic::set_hook(Box::new(|_| {}));
    let ckpt_dir = args
        .iter()
        .position(|a| a == "--ckpt-dir")
        .and_then(|i| args.get(i + 1))
        .cloned();
    CKPT_DIR.with(|d| *d.borrow_mut() = ckpt_dir.clone());
    match mode {
        "threads" => {
            // C16: the programs of stdin are distributed over N OS threads that run models concurrently;
            // the records of each program are printed when all are done
            let n: usize = args.get(2).and_then(|v| v.parse().ok()).unwrap_or(4);
            let lines: Vec<String> = std::io::stdin()
                .lock()
                .lines()
                .map(|l| l.unwrap().trim().to_string())
                .filter(|l| !l.is_empty() && !l.starts_with('#'))
                .collect();
            let lines = std::sync::Arc::new(lines);
            let mut handles = Vec::new();
            for k in 0..n {
                let lines = lines.clone();
                let dir = ckpt_dir.clone();
                handles.push(std::thread::spawn(move || {
                    CKPT_DIR.with(|d| *d.borrow_mut() = dir);
                    let mut res = Vec::new();
                    for (i, l) in lines.iter().enumerate() {
                        if i % n == k {
                            run_program(l, None, opts);
                            res.push(OUT.with(|o| o.borrow_mut().drain(..).collect::<Vec<_>>()));
                        }
                    }
                    res
                }));
            }
            for h in handles {
                for prog in h.join().unwrap() {
                    for l in prog {
                        println!("{}", l);
                    }
                }
            }
        }
        "native" => {
            // fixed scenarios written directly against loom's API (what the DSL cannot express): each prints
            // `NATIVE <name> <how loom::model ended>`; the caller runs one scenario per process and looks at the exit
            native::run(args.get(2).map(|s| s.as_str()).unwrap_or(""));
        }
        "run" => {
            let stdin = std::io::stdin();
            for line in stdin.lock().lines() {
                let line = line.unwrap();
                let line = line.trim();
                if line.is_empty() || line.starts_with('#') {
                    continue;
                }
                // announce the program first so that an abort can be attributed to it
                println!("BEGIN {}", line);
                let _ = std::io::stdout().flush();
                run_program(line, None, opts);
                flush_out();
            }
        }
        "std" => {
            // C12 reference stream: the same operation lines on `std::sync::atomic`
            let stdin = std::io::stdin();
            for line in stdin.lock().lines() {
                let line = line.unwrap();
                let line = line.trim();
                if line.is_empty() || line.starts_with('#') {
                    continue;
                }
                println!("PROG {}", line);
                match prog::parse(line) {
                    Some(p) if p.threads.len() == 1 => {
                        let (rets, fin) = stdref::run(p.cfg.ty, &p.threads[0]);
                        let r: Vec<String> = rets.iter().map(|r| r.render()).collect();
                        println!("STD {} | {}", r.join(" "), fin);
                        println!("DONE 1 ok");
                    }
                    _ => println!("DONE 0 parseError"),
                }
            }
        }
        _ => {
            eprintln!("unknown mode {}", mode);
            std::process::exit(2);
        }
    }
}

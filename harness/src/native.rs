//! Scenarios outside the DSL: values owned by the execution (lazy statics, thread-locals) that hold loom handles
//! while an iteration fails (C06: the failure must unwind to the caller of `loom::model`, not abort the process).
use loom::sync::Arc;

loom::lazy_static! {
    static ref L: Arc<usize> = Arc::new(7);
}

loom::thread_local! {
    static T: Arc<usize> = Arc::new(8);
}

pub const SCENARIOS: &[&str] = &["lazy_arc_panic", "tls_arc_panic", "tls_arc_spawned_main_panics", "lazy_arc_ok", "tls_arc_ok"];

fn model(name: &str) {
    match name {
        "lazy_arc_panic" => loom::model(|| {
            assert_eq!(**L, 7);
            panic!("boom");
        }),
        "tls_arc_panic" => loom::model(|| {
            T.with(|a| assert_eq!(**a, 8));
            panic!("boom");
        }),
        "tls_arc_spawned_main_panics" => loom::model(|| {
            let th = loom::thread::spawn(|| {
                T.with(|a| assert_eq!(**a, 8));
                loom::thread::park();
            });
            loom::thread::yield_now();
            let _keep = &th;
            panic!("boom");
        }),
        "lazy_arc_ok" => loom::model(|| {
            assert_eq!(**L, 7);
        }),
        "tls_arc_ok" => loom::model(|| {
            let th = loom::thread::spawn(|| T.with(|a| assert_eq!(**a, 8)));
            T.with(|a| assert_eq!(**a, 8));
            th.join().unwrap();
        }),
        _ => panic!("harness: unknown native scenario"),
    }
}

pub fn run(name: &str) {
    if name == "list" {
        for s in SCENARIOS {
            println!("{}", s);
        }
        return;
    }
    let n = name.to_string();
    let r = std::panic::catch_unwind(move || model(&n));
    let how = match r {
        Ok(()) => "ok".to_string(),
        Err(p) => {
            let m = if let Some(s) = p.downcast_ref::<String>() {
                s.clone()
            } else if let Some(s) = p.downcast_ref::<&str>() {
                s.to_string()
            } else {
                "?".to_string()
            };
            format!("panic:{}", m.lines().next().unwrap_or(""))
        }
    };
    println!("NATIVE {} {}", name, how);
    // a second model in the same process must start clean
    let r2 = std::panic::catch_unwind(|| model("tls_arc_ok"));
    println!("NATIVE-AFTER {} {}", name, if r2.is_ok() { "ok" } else { "panic" });
}

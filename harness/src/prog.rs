//! The DSL of test programs; mirror of `lean/LoomVerif/Model/Prog.lean`.
//! One program per text line: `cfg k=v … | T0: op; op | T1: …`.

use std::sync::atomic::Ordering;

#[derive(Debug, Clone, Copy, PartialEq, Eq)]
pub enum Ty {
    U8,
    U16,
    U32,
    U64,
    Usize,
    I8,
    I16,
    I32,
    I64,
    Isize,
    Bool,
    Ptr,
}

#[derive(Debug, Clone, PartialEq, Eq)]
pub enum Ret {
    Unit,
    Val(i128),
    Ok(i128),
    Err(i128),
    Empty,
    AccessError,
}

impl Ret {
    pub fn render(&self) -> String {
        match self {
            Ret::Unit => "-".to_string(),
            Ret::Val(v) => format!("v:{}", v),
            Ret::Ok(v) => format!("ok:{}", v),
            Ret::Err(v) => format!("err:{}", v),
            Ret::Empty => "empty".to_string(),
            Ret::AccessError => "aerr".to_string(),
        }
    }
    pub fn parse(s: &str) -> Option<Ret> {
        let parts: Vec<&str> = s.split(':').collect();
        match parts.as_slice() {
            ["-"] => Some(Ret::Unit),
            ["empty"] => Some(Ret::Empty),
            ["aerr"] => Some(Ret::AccessError),
            ["v", n] => n.parse().ok().map(Ret::Val),
            ["ok", n] => n.parse().ok().map(Ret::Ok),
            ["err", n] => n.parse().ok().map(Ret::Err),
            _ => None,
        }
    }
}

#[derive(Debug, Clone, PartialEq, Eq)]
pub enum Fetch {
    Add,
    Sub,
    And,
    Nand,
    Or,
    Xor,
    Max,
    Min,
}

#[derive(Debug, Clone, PartialEq, Eq)]
pub enum Fupd {
    None,
    Add(i128),
    AddIfLt(i128, i128),
}

#[derive(Debug, Clone, PartialEq, Eq)]
pub enum Op {
    Ld(usize, Ordering),
    St(usize, i128, Ordering),
    Swap(usize, i128, Ordering),
    Cas(usize, i128, i128, Ordering, Ordering),
    Cswp(usize, i128, i128, Ordering),
    Fetch(usize, Fetch, i128, Ordering),
    Fupd(usize, Fupd, Ordering, Ordering),
    Uld(usize),
    Wmut(usize, i128),
    Fence(Ordering),
    Crd(usize),
    Cwr(usize, i128),
    CrdB(usize),
    CrdE(usize),
    CwrB(usize, i128),
    CwrE(usize),
    Lock(usize),
    TryLock(usize),
    Unlock(usize),
    Rd(usize),
    TryRd(usize),
    Wr(usize),
    TryWr(usize),
    UnRd(usize),
    UnWr(usize),
    CvWait(usize, usize),
    CvOne(usize),
    CvAll(usize),
    NWait(usize),
    NNotify(usize),
    Park,
    Unpark(usize),
    Spawn(usize),
    SpawnOwn(usize, usize),
    Join(usize),
    Yield,
    Await(usize, i128, Ordering),
    IfEq(usize, Ret, usize),
    /// drop the sender of a channel (no event: loom is not told)
    DropTx(usize),
    Send(usize, i128),
    Recv(usize),
    TryRecv(usize),
    DropRx(usize),
    ANew(usize),
    AClone(usize, usize),
    ADrop(usize),
    ACount(usize),
    AGetMut(usize),
    AUnwrap(usize),
    ARaw(usize),
    AFromRaw(usize),
    AInc(usize),
    ADec(usize),
    APtrEq(usize, usize),
    TNew(usize),
    TDrop(usize),
    Alloc(usize),
    Dealloc(usize),
    Tls(usize),
    TlsTry(usize),
    Lazy(usize),
    TlsNest(usize, usize),
    TlsStat(usize),
    TlsObs(usize),
    LazyStat(usize),
    BlockOn(usize, usize),
    Wake(usize),
    WakeRef(usize),
    DropWaker(usize),
    AwWake(usize),
    WakeQ(usize),
    AwTake(usize),
    WClone(usize),
    WakeH(usize),
    Stop,
    Explore,
    Skip,
    Panic,
}

#[derive(Debug, Clone)]
pub struct Cfg {
    pub bound: Option<usize>,
    pub max_branches: usize,
    pub max_threads: usize,
    pub max_perm: Option<usize>,
    /// `max_duration` in milliseconds
    pub max_dur: Option<u64>,
    pub interval: usize,
    pub explicit: bool,
    pub ty: Ty,
    pub n_atomics: usize,
    pub n_cells: usize,
    pub n_mutexes: usize,
    pub n_rwlocks: usize,
    pub n_condvars: usize,
    pub n_notifies: usize,
    pub n_chans: usize,
    /// checkpoint file name (inside the directory given by `--ckpt-dir`)
    pub ckpt: Option<String>,
    /// C06: a panicking thread drops the guards / handles it owns while unwinding
    pub unwind: bool,
    pub n_futures: usize,
    pub tls_dtor: usize,
}

impl Default for Cfg {
    fn default() -> Self {
        Cfg {
            bound: None,
            max_branches: 1000,
            max_threads: 5,
            max_perm: None,
            max_dur: None,
            interval: 20000,
            explicit: false,
            ty: Ty::Usize,
            n_atomics: 0,
            n_cells: 0,
            n_mutexes: 0,
            n_rwlocks: 0,
            n_condvars: 0,
            n_notifies: 0,
            n_chans: 0,
            ckpt: None,
            unwind: false,
            n_futures: 0,
            tls_dtor: 0,
        }
    }
}

#[derive(Debug, Clone)]
pub struct Prog {
    pub cfg: Cfg,
    pub threads: Vec<Vec<Op>>,
}

fn ord(s: &str) -> Option<Ordering> {
    Some(match s {
        "rlx" => Ordering::Relaxed,
        "acq" => Ordering::Acquire,
        "rel" => Ordering::Release,
        "ar" => Ordering::AcqRel,
        "sc" => Ordering::SeqCst,
        _ => return None,
    })
}

fn ty(s: &str) -> Option<Ty> {
    Some(match s {
        "u8" => Ty::U8,
        "u16" => Ty::U16,
        "u32" => Ty::U32,
        "u64" => Ty::U64,
        "usize" => Ty::Usize,
        "i8" => Ty::I8,
        "i16" => Ty::I16,
        "i32" => Ty::I32,
        "i64" => Ty::I64,
        "isize" => Ty::Isize,
        "bool" => Ty::Bool,
        "ptr" => Ty::Ptr,
        _ => return None,
    })
}

fn n(s: &str) -> Option<usize> {
    s.parse().ok()
}
fn i(s: &str) -> Option<i128> {
    s.parse().ok()
}

fn fupd(s: &str) -> Option<Fupd> {
    let parts: Vec<&str> = s.split(':').collect();
    match parts.as_slice() {
        ["none"] => Some(Fupd::None),
        ["add", k] => Some(Fupd::Add(i(k)?)),
        ["addiflt", k, lim] => Some(Fupd::AddIfLt(i(k)?, i(lim)?)),
        _ => None,
    }
}

fn parse_op(t: &[&str]) -> Option<Op> {
    let fetch = |f: Fetch, t: &[&str]| -> Option<Op> { Some(Op::Fetch(n(t[1])?, f, i(t[2])?, ord(t[3])?)) };
    Some(match t {
        ["ld", x, o] => Op::Ld(n(x)?, ord(o)?),
        ["st", x, v, o] => Op::St(n(x)?, i(v)?, ord(o)?),
        ["swap", x, v, o] => Op::Swap(n(x)?, i(v)?, ord(o)?),
        ["cas", x, c, nw, so, fo] => Op::Cas(n(x)?, i(c)?, i(nw)?, ord(so)?, ord(fo)?),
        ["cswp", x, c, nw, o] => Op::Cswp(n(x)?, i(c)?, i(nw)?, ord(o)?),
        ["fadd", _, _, _] => fetch(Fetch::Add, t)?,
        ["fsub", _, _, _] => fetch(Fetch::Sub, t)?,
        ["fand", _, _, _] => fetch(Fetch::And, t)?,
        ["fnand", _, _, _] => fetch(Fetch::Nand, t)?,
        ["for", _, _, _] => fetch(Fetch::Or, t)?,
        ["fxor", _, _, _] => fetch(Fetch::Xor, t)?,
        ["fmax", _, _, _] => fetch(Fetch::Max, t)?,
        ["fmin", _, _, _] => fetch(Fetch::Min, t)?,
        ["fupd", x, f, so, fo] => Op::Fupd(n(x)?, fupd(f)?, ord(so)?, ord(fo)?),
        ["uld", x] => Op::Uld(n(x)?),
        ["wmut", x, v] => Op::Wmut(n(x)?, i(v)?),
        ["fence", o] => Op::Fence(ord(o)?),
        ["crd", c] => Op::Crd(n(c)?),
        ["cwr", c, v] => Op::Cwr(n(c)?, i(v)?),
        ["crdb", c] => Op::CrdB(n(c)?),
        ["crde", c] => Op::CrdE(n(c)?),
        ["cwrb", c, v] => Op::CwrB(n(c)?, i(v)?),
        ["cwre", c] => Op::CwrE(n(c)?),
        ["lock", m] => Op::Lock(n(m)?),
        ["trylock", m] => Op::TryLock(n(m)?),
        ["unlock", m] => Op::Unlock(n(m)?),
        ["rd", l] => Op::Rd(n(l)?),
        ["tryrd", l] => Op::TryRd(n(l)?),
        ["wr", l] => Op::Wr(n(l)?),
        ["trywr", l] => Op::TryWr(n(l)?),
        ["unrd", l] => Op::UnRd(n(l)?),
        ["unwr", l] => Op::UnWr(n(l)?),
        ["cvwait", v, m] => Op::CvWait(n(v)?, n(m)?),
        ["cvone", v] => Op::CvOne(n(v)?),
        ["cvall", v] => Op::CvAll(n(v)?),
        ["nwait", k] => Op::NWait(n(k)?),
        ["nnotify", k] => Op::NNotify(n(k)?),
        ["park"] => Op::Park,
        ["unpark", t] => Op::Unpark(n(t)?),
        ["spawn", t] => Op::Spawn(n(t)?),
        ["spawnown", t, h] => Op::SpawnOwn(n(t)?, n(h)?),
        ["join", t] => Op::Join(n(t)?),
        ["yield"] => Op::Yield,
        ["await", x, v, o] => Op::Await(n(x)?, i(v)?, ord(o)?),
        ["ifeq", k, r, cnt] => Op::IfEq(n(k)?, Ret::parse(r)?, n(cnt)?),
        ["send", q, v] => Op::Send(n(q)?, i(v)?),
        ["recv", q] => Op::Recv(n(q)?),
        ["tryrecv", q] => Op::TryRecv(n(q)?),
        ["droprx", q] => Op::DropRx(n(q)?),
        ["droptx", q] => Op::DropTx(n(q)?),
        ["anew", h] => Op::ANew(n(h)?),
        ["aclone", h, h2] => Op::AClone(n(h)?, n(h2)?),
        ["adrop", h] => Op::ADrop(n(h)?),
        ["acount", h] => Op::ACount(n(h)?),
        ["agetmut", h] => Op::AGetMut(n(h)?),
        ["aunwrap", h] => Op::AUnwrap(n(h)?),
        ["araw", h] => Op::ARaw(n(h)?),
        ["afromraw", h] => Op::AFromRaw(n(h)?),
        ["ainc", h] => Op::AInc(n(h)?),
        ["adec", h] => Op::ADec(n(h)?),
        ["apeq", h, h2] => Op::APtrEq(n(h)?, n(h2)?),
        ["tnew", k] => Op::TNew(n(k)?),
        ["tdrop", k] => Op::TDrop(n(k)?),
        ["alloc", k] => Op::Alloc(n(k)?),
        ["dealloc", k] => Op::Dealloc(n(k)?),
        ["tls", k] => Op::Tls(n(k)?),
        ["tlstry", k] => Op::TlsTry(n(k)?),
        ["lazy", z] => Op::Lazy(n(z)?),
        ["tlsnest", k, j] => Op::TlsNest(n(k)?, n(j)?),
        ["tlsstat", k] => Op::TlsStat(n(k)?),
        ["tlsobs", k] => Op::TlsObs(n(k)?),
        ["lazystat", z] => Op::LazyStat(n(z)?),
        ["blockon", f, m] => Op::BlockOn(n(f)?, n(m)?),
        ["wake", f] => Op::Wake(n(f)?),
        ["wakeref", f] => Op::WakeRef(n(f)?),
        ["dropwaker", f] => Op::DropWaker(n(f)?),
        ["awwake", f] => Op::AwWake(n(f)?),
        ["wakeq", f] => Op::WakeQ(n(f)?),
        ["awtake", f] => Op::AwTake(n(f)?),
        ["wclone", f] => Op::WClone(n(f)?),
        ["wakeh", f] => Op::WakeH(n(f)?),
        ["stop"] => Op::Stop,
        ["explore"] => Op::Explore,
        ["skip"] => Op::Skip,
        ["panic"] => Op::Panic,
        _ => return None,
    })
}

fn opt_n(s: &str) -> Option<Option<usize>> {
    if s == "none" {
        Some(None)
    } else {
        Some(Some(n(s)?))
    }
}

fn parse_cfg(s: &str) -> Option<Cfg> {
    let mut c = Cfg::default();
    let mut it = s.split_whitespace();
    if it.next()? != "cfg" {
        return None;
    }
    for item in it {
        let (k, v) = item.split_once('=')?;
        match k {
            "bound" => c.bound = opt_n(v)?,
            "maxbr" => c.max_branches = n(v)?,
            "maxth" => c.max_threads = n(v)?,
            "perm" => c.max_perm = opt_n(v)?,
            "intv" => c.interval = n(v)?,
            "dur" => c.max_dur = Some(n(v)? as u64),
            "explicit" => c.explicit = n(v)? != 0,
            "ty" => c.ty = ty(v)?,
            "x" => c.n_atomics = n(v)?,
            "c" => c.n_cells = n(v)?,
            "m" => c.n_mutexes = n(v)?,
            "l" => c.n_rwlocks = n(v)?,
            "v" => c.n_condvars = n(v)?,
            "n" => c.n_notifies = n(v)?,
            "q" => c.n_chans = n(v)?,
            "ckpt" => c.ckpt = Some(v.to_string()),
            "unwind" => c.unwind = n(v)? != 0,
            "f" => c.n_futures = n(v)?,
            "tlsdtor" => c.tls_dtor = n(v)?,
            _ => return None,
        }
    }
    Some(c)
}

pub fn parse(line: &str) -> Option<Prog> {
    let mut parts = line.split('|');
    let cfg = parse_cfg(parts.next()?)?;
    let mut threads = Vec::new();
    for th in parts {
        let (_, body) = th.split_once(':')?;
        let mut ops = Vec::new();
        for op in body.split(';') {
            let toks: Vec<&str> = op.split_whitespace().collect();
            if toks.is_empty() {
                continue;
            }
            ops.push(parse_op(&toks)?);
        }
        threads.push(ops);
    }
    Some(Prog { cfg, threads })
}

//! C12: the reference stream — the DSL's atomic operations executed on `std::sync::atomic`.

use crate::prog::*;
use std::sync::atomic::*;

fn res<T>(r: Result<T, T>, f: impl Fn(T) -> i128) -> Ret {
    match r {
        Ok(v) => Ret::Ok(f(v)),
        Err(v) => Ret::Err(f(v)),
    }
}

macro_rules! std_int {
    ($at:ty, $t:ty, $ops:expr) => {{
        let mut a = <$at>::new(0);
        let tv = |v: i128| v as $t;
        let fv = |v: $t| v as i128;
        let mut rets = Vec::new();
        for op in $ops {
            rets.push(match op {
                Op::Ld(_, o) => Ret::Val(fv(a.load(*o))),
                Op::St(_, v, o) => {
                    a.store(tv(*v), *o);
                    Ret::Unit
                }
                Op::Swap(_, v, o) => Ret::Val(fv(a.swap(tv(*v), *o))),
                Op::Cas(_, c, n, so, fo) => res(a.compare_exchange(tv(*c), tv(*n), *so, *fo), fv),
                #[allow(deprecated)]
                Op::Cswp(_, c, n, o) => Ret::Val(fv(a.compare_and_swap(tv(*c), tv(*n), *o))),
                Op::Fetch(_, f, v, o) => Ret::Val(fv(match f {
                    Fetch::Add => a.fetch_add(tv(*v), *o),
                    Fetch::Sub => a.fetch_sub(tv(*v), *o),
                    Fetch::And => a.fetch_and(tv(*v), *o),
                    Fetch::Nand => a.fetch_nand(tv(*v), *o),
                    Fetch::Or => a.fetch_or(tv(*v), *o),
                    Fetch::Xor => a.fetch_xor(tv(*v), *o),
                    Fetch::Max => a.fetch_max(tv(*v), *o),
                    Fetch::Min => a.fetch_min(tv(*v), *o),
                })),
                Op::Fupd(_, f, so, fo) => res(
                    a.fetch_update(*so, *fo, |v| match f {
                        Fupd::None => None,
                        Fupd::Add(k) => Some(v.wrapping_add(tv(*k))),
                        Fupd::AddIfLt(k, lim) => {
                            if v < tv(*lim) {
                                Some(v.wrapping_add(tv(*k)))
                            } else {
                                None
                            }
                        }
                    }),
                    fv,
                ),
                Op::Uld(_) => Ret::Val(fv(*a.get_mut())),
                Op::Wmut(_, v) => {
                    let p = a.get_mut();
                    let old = *p;
                    *p = tv(*v);
                    Ret::Val(fv(old))
                }
                _ => panic!("std reference: unsupported op"),
            });
        }
        (rets, fv(a.into_inner()))
    }};
}

pub fn run(ty: Ty, ops: &[Op]) -> (Vec<Ret>, i128) {
    match ty {
        Ty::U8 => std_int!(AtomicU8, u8, ops),
        Ty::U16 => std_int!(AtomicU16, u16, ops),
        Ty::U32 => std_int!(AtomicU32, u32, ops),
        Ty::U64 => std_int!(AtomicU64, u64, ops),
        Ty::Usize => std_int!(AtomicUsize, usize, ops),
        Ty::I8 => std_int!(AtomicI8, i8, ops),
        Ty::I16 => std_int!(AtomicI16, i16, ops),
        Ty::I32 => std_int!(AtomicI32, i32, ops),
        Ty::I64 => std_int!(AtomicI64, i64, ops),
        Ty::Isize => std_int!(AtomicIsize, isize, ops),
        Ty::Bool => {
            let mut a = AtomicBool::new(false);
            let tv = |v: i128| v != 0;
            let fv = |v: bool| v as i128;
            let mut rets = Vec::new();
            for op in ops {
                rets.push(match op {
                    Op::Ld(_, o) => Ret::Val(fv(a.load(*o))),
                    Op::St(_, v, o) => {
                        a.store(tv(*v), *o);
                        Ret::Unit
                    }
                    Op::Swap(_, v, o) => Ret::Val(fv(a.swap(tv(*v), *o))),
                    Op::Cas(_, c, n, so, fo) => res(a.compare_exchange(tv(*c), tv(*n), *so, *fo), fv),
                    #[allow(deprecated)]
                    Op::Cswp(_, c, n, o) => Ret::Val(fv(a.compare_and_swap(tv(*c), tv(*n), *o))),
                    Op::Fetch(_, f, v, o) => Ret::Val(fv(match f {
                        Fetch::And => a.fetch_and(tv(*v), *o),
                        Fetch::Nand => a.fetch_nand(tv(*v), *o),
                        Fetch::Or => a.fetch_or(tv(*v), *o),
                        Fetch::Xor => a.fetch_xor(tv(*v), *o),
                        _ => panic!("std reference: bool has no such fetch op"),
                    })),
                    Op::Fupd(_, f, so, fo) => res(
                        a.fetch_update(*so, *fo, |v| match f {
                            Fupd::None => None,
                            Fupd::Add(k) => Some(v ^ (k & 1 != 0)),
                            Fupd::AddIfLt(k, lim) => {
                                if (v as i128) < *lim {
                                    Some(v ^ (k & 1 != 0))
                                } else {
                                    None
                                }
                            }
                        }),
                        fv,
                    ),
                    Op::Uld(_) => Ret::Val(fv(*a.get_mut())),
                    _ => panic!("std reference: unsupported op"),
                });
            }
            (rets, fv(a.into_inner()))
        }
        Ty::Ptr => {
            let mut a: AtomicPtr<u8> = AtomicPtr::new(std::ptr::null_mut());
            let tv = |v: i128| v as usize as *mut u8;
            let fv = |v: *mut u8| v as usize as i128;
            let mut rets = Vec::new();
            for op in ops {
                rets.push(match op {
                    Op::Ld(_, o) => Ret::Val(fv(a.load(*o))),
                    Op::St(_, v, o) => {
                        a.store(tv(*v), *o);
                        Ret::Unit
                    }
                    Op::Swap(_, v, o) => Ret::Val(fv(a.swap(tv(*v), *o))),
                    Op::Cas(_, c, n, so, fo) => res(a.compare_exchange(tv(*c), tv(*n), *so, *fo), fv),
                    #[allow(deprecated)]
                    Op::Cswp(_, c, n, o) => Ret::Val(fv(a.compare_and_swap(tv(*c), tv(*n), *o))),
                    Op::Fupd(_, f, so, fo) => res(
                        a.fetch_update(*so, *fo, |v| match f {
                            Fupd::None => None,
                            Fupd::Add(k) => Some((v as usize).wrapping_add(*k as usize) as *mut u8),
                            Fupd::AddIfLt(k, lim) => {
                                if (v as usize as i128) < *lim {
                                    Some((v as usize).wrapping_add(*k as usize) as *mut u8)
                                } else {
                                    None
                                }
                            }
                        }),
                        fv,
                    ),
                    Op::Uld(_) => Ret::Val(fv(*a.get_mut())),
                    Op::Wmut(_, v) => {
                        let p = a.get_mut();
                        let old = *p;
                        *p = tv(*v);
                        Ret::Val(fv(old))
                    }
                    _ => panic!("std reference: unsupported op"),
                });
            }
            (rets, fv(a.into_inner()))
        }
    }
}

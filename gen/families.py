"""Program families of the checks: exhaustive small shapes per kind-set plus seeded random ones."""
import itertools

from gen.progs import Rng, render, frame, ValueSource
from gen import progs


def _vals(body):
    """give every `{v}` placeholder of a body a fresh value (per object name in the op)"""
    return body


def fill(threads_units, cfg):
    """threads_units: per thread a list of units (unit = list of op templates with {v});
    placeholders become distinct values per program"""
    vs = ValueSource()
    out = []
    for units in threads_units:
        ops = []
        for u in units:
            for o in u:
                if "{v}" in o:
                    key = " ".join(o.split()[:2])
                    o = o.replace("{v}", str(vs.fresh(key.split()[1] + key.split()[0][0])))
                ops.append(o)
        out.append(ops)
    main, bodies = out[0], out[1:]
    return render(cfg, frame(bodies, main, []))


KINDSETS = {
    "atomic": ({"x": 2}, [
        ["ld 0 rlx"], ["st 0 {v} rlx"], ["fadd 0 1 rlx"], ["ld 1 rlx"], ["st 1 {v} rlx"],
        ["ld 0 acq"], ["st 0 {v} rel"], ["swap 0 {v} ar"], ["cas 0 0 {v} ar acq"],
    ]),
    "mutex": ({"m": 2, "c": 1}, [
        ["lock 0", "cwr 0 {v}", "unlock 0"], ["lock 0", "crd 0", "unlock 0"],
        ["trylock 0", "ifeq 1 v:1 2", "crd 0", "unlock 0"], ["lock 1", "unlock 1"],
        ["lock 0", "lock 1", "unlock 1", "unlock 0"], ["lock 1", "lock 0", "unlock 0", "unlock 1"],
    ]),
    "rwlock": ({"l": 1, "c": 1}, [
        ["rd 0", "crd 0", "unrd 0"], ["wr 0", "cwr 0 {v}", "unwr 0"],
        ["tryrd 0", "ifeq 1 v:1 2", "crd 0", "unrd 0"], ["trywr 0", "ifeq 1 v:1 2", "cwr 0 {v}", "unwr 0"],
    ]),
    "condvar": ({"m": 1, "c": 1, "v": 1}, [
        ["lock 0", "crd 0", "ifeq 1 v:0 1", "cvwait 0 0", "unlock 0"],
        ["lock 0", "cwr 0 {v}", "unlock 0", "cvone 0"], ["lock 0", "cwr 0 {v}", "unlock 0", "cvall 0"],
        ["cvone 0"], ["lock 0", "crd 0", "unlock 0"],
    ]),
    "notify": ({"n": 2, "c": 1}, [
        ["nwait 0"], ["nnotify 0"], ["cwr 0 {v}", "nnotify 0"], ["nwait 0", "crd 0"], ["nnotify 1"], ["nwait 1"],
    ]),
    "park": ({"c": 1}, [
        ["park"], ["unpark 1"], ["unpark 0"], ["cwr 0 {v}", "unpark 1"], ["park", "crd 0"],
    ]),
    "channel": ({"q": 1}, [
        ["send 0 {v}"], ["recv 0"], ["tryrecv 0"], ["send 0 {v}", "send 0 {v}"],
    ]),
    "arc": ({}, [
        ["acount {h}"], ["agetmut {h}"], ["adrop {h}"], ["aunwrap {h}", "ifeq 1 err:0 1", "adrop {h}"],
    ]),
}


def bodies_from(units, max_units):
    out = [[]]
    for k in range(1, max_units + 1):
        for combo in itertools.product(range(len(units)), repeat=k):
            out.append([units[i] for i in combo])
    return out


def wellformed(kind, bodies):
    """filters that keep programs inside the API contract (no recursive read locks etc.)"""
    if kind == "channel":
        # only one thread may use the receiver
        users = [i for i, b in enumerate(bodies) if any(o.startswith(("recv", "tryrecv")) for u in b for o in u)]
        return len(users) <= 1
    if kind == "notify":
        # at most one waiter per Notify (loom panics otherwise)
        for n in ("0", "1"):
            if sum(1 for b in bodies for u in b for o in u if o == f"nwait {n}") > 1:
                return False
    if kind == "park":
        # `unpark 1` from thread 1 itself is allowed; unpark of a not-yet-spawned thread is not
        return True
    return True


def exhaustive(kind, nthreads, max_units, limit, rng):
    """programs with `nthreads` threads (main included) whose bodies have up to max_units units;
    sampled down to `limit` with the seeded rng when there are more"""
    cfg, units = KINDSETS[kind]
    bs = bodies_from(units, max_units)
    combos = []
    for combo in itertools.product(range(len(bs)), repeat=nthreads):
        if all(len(bs[i]) == 0 for i in combo[1:]):
            continue
        combos.append(combo)
    if len(combos) > limit:
        # deterministic sample
        idx = sorted(range(len(combos)), key=lambda i: (rng.next(), i))[:limit]
        combos = [combos[i] for i in sorted(idx)]
    out = []
    for combo in combos:
        bodies = [bs[i] for i in combo]
        if not wellformed(kind, bodies):
            continue
        if kind == "arc":
            out.append(arc_program(bodies))
        elif kind == "channel":
            out.append(chan_program(cfg, bodies))
        else:
            out.append(fill(bodies, dict(cfg)))
    return list(dict.fromkeys(out))


def arc_program(bodies):
    """every thread owns handle slot = its index; main creates the arc and the clones first"""
    n = len(bodies)
    main = ["anew 0"] + [f"aclone 0 {t}" for t in range(1, n)] + [f"spawn {t}" for t in range(1, n)]

    def inst(body, t):
        ops = [o.replace("{h}", str(t)) for u in body for o in u]
        if not any(o.startswith(("adrop", "aunwrap")) for o in ops):
            ops.append(f"adrop {t}")
        # a body that drops twice is outside the contract: keep only the ops up to the first drop
        res = []
        dropped = False
        for o in ops:
            if dropped and not o.startswith("ifeq"):
                if res and res[-1].startswith("ifeq") and o.startswith("adrop"):
                    res.append(o)   # the conditional drop after a failed unwrap
                continue
            res.append(o)
            if o.startswith("adrop"):
                dropped = True
            if o.startswith("aunwrap"):
                dropped = True
        return res

    main += inst(bodies[0], 0) + [f"join {t}" for t in range(1, n)]
    return render({}, [main] + [inst(b, t) for t, b in enumerate(bodies) if t > 0])


def chan_program(cfg, bodies):
    vs = ValueSource()
    ths = []
    for b in bodies:
        ths.append([o.replace("{v}", str(vs.fresh("q"))) if "{v}" in o else o for u in b for o in u])
    main, rest = ths[0], ths[1:]
    # whoever owns the receiver drops it at its end; if nobody receives, main drops it
    owner = next((i for i, t in enumerate(ths) if any(o.startswith(("recv", "tryrecv")) for o in t)), 0)
    prog = frame(rest, main, [])
    if owner == 0:
        prog[0].append("droprx 0")
    else:
        prog[owner].append("droprx 0")
    return render(dict(cfg), prog)


def c01_family(seed, quick):
    r = Rng(seed ^ 0xC01)
    out = []
    per = 120 if quick else 2500
    for kind in KINDSETS:
        out += exhaustive(kind, 2, 2, per, r.fork(kind + "2"))
        out += exhaustive(kind, 3, 1, per // 2, r.fork(kind + "3"))
    rr = r.fork("random")
    for _ in range(150 if quick else 3000):
        out.append(progs.gen_mixed(rr))
    return list(dict.fromkeys(out))

"""Program families of the checks: exhaustive small shapes per kind-set plus seeded random ones."""
import itertools

from gen.progs import Rng, render, frame, ValueSource
from gen import progs


def _vals(body):
    """give every `{v}` placeholder of a body a fresh value (per object name in the op)"""
    return body


def fill(threads_units, cfg):
    """threads_units: per thread a list of units (unit = list of op templates with {v});
    placeholders become distinct values per program"""
    vs = ValueSource()
    out = []
    for units in threads_units:
        ops = []
        for u in units:
            for o in u:
                if "{v}" in o:
                    key = " ".join(o.split()[:2])
                    o = o.replace("{v}", str(vs.fresh(key.split()[1] + key.split()[0][0])))
                ops.append(o)
        out.append(ops)
    main, bodies = out[0], out[1:]
    return render(cfg, frame(bodies, main, []))


KINDSETS = {
    "atomic": ({"x": 2}, [
        ["ld 0 rlx"], ["st 0 {v} rlx"], ["fadd 0 1 rlx"], ["ld 1 rlx"], ["st 1 {v} rlx"],
        ["ld 0 acq"], ["st 0 {v} rel"], ["swap 0 {v} ar"], ["cas 0 0 {v} ar acq"],
    ]),
    "mutex": ({"m": 2, "c": 1}, [
        ["lock 0", "cwr 0 {v}", "unlock 0"], ["lock 0", "crd 0", "unlock 0"],
        ["trylock 0", "ifeq 1 v:1 2", "crd 0", "unlock 0"], ["lock 1", "unlock 1"],
        ["lock 0", "lock 1", "unlock 1", "unlock 0"], ["lock 1", "lock 0", "unlock 0", "unlock 1"],
    ]),
    "rwlock": ({"l": 1, "c": 1, "x": 1}, [
        ["rd 0", "crd 0", "unrd 0"], ["wr 0", "cwr 0 {v}", "unwr 0"],
        ["rd 0", "fadd 0 1 rlx", "crd 0", "unrd 0"],
        ["tryrd 0", "ifeq 1 v:1 2", "crd 0", "unrd 0"], ["trywr 0", "ifeq 1 v:1 2", "cwr 0 {v}", "unwr 0"],
    ]),
    "condvar": ({"m": 1, "c": 1, "v": 1}, [
        ["lock 0", "crd 0", "ifeq 1 v:0 1", "cvwait 0 0", "unlock 0"],
        ["lock 0", "cwr 0 {v}", "unlock 0", "cvone 0"], ["lock 0", "cwr 0 {v}", "unlock 0", "cvall 0"],
        ["cvone 0"], ["lock 0", "crd 0", "unlock 0"],
    ]),
    "notify": ({"n": 2, "c": 1}, [
        ["nwait 0"], ["nnotify 0"], ["cwr 0 {v}", "nnotify 0"], ["nwait 0", "crd 0"], ["nnotify 1"], ["nwait 1"],
    ]),
    "park": ({"c": 1}, [
        ["park"], ["unpark 1"], ["unpark 0"], ["cwr 0 {v}", "unpark 1"], ["park", "crd 0"],
    ]),
    "channel": ({"q": 1}, [
        ["send 0 {v}"], ["recv 0"], ["tryrecv 0"], ["send 0 {v}", "send 0 {v}"],
    ]),
    "arc": ({}, [
        ["acount {h}"], ["agetmut {h}"], ["adrop {h}"], ["aunwrap {h}", "ifeq 1 err:0 1", "adrop {h}"],
    ]),
}


def bodies_from(units, max_units):
    out = [[]]
    for k in range(1, max_units + 1):
        for combo in itertools.product(range(len(units)), repeat=k):
            out.append([units[i] for i in combo])
    return out


def wellformed(kind, bodies):
    """filters that keep programs inside the API contract (no recursive read locks etc.)"""
    if kind == "channel":
        # only one thread may use the receiver
        users = [i for i, b in enumerate(bodies) if any(o.startswith(("recv", "tryrecv")) for u in b for o in u)]
        return len(users) <= 1
    if kind == "notify":
        # at most one waiter per Notify (loom panics otherwise)
        for n in ("0", "1"):
            if sum(1 for b in bodies for u in b for o in u if o == f"nwait {n}") > 1:
                return False
    if kind == "park":
        # `unpark 1` from thread 1 itself is allowed; unpark of a not-yet-spawned thread is not
        return True
    return True


def exhaustive(kind, nthreads, max_units, limit, rng):
    """programs with `nthreads` threads (main included) whose bodies have up to max_units units;
    sampled down to `limit` with the seeded rng when there are more"""
    cfg, units = KINDSETS[kind]
    bs = bodies_from(units, max_units)
    combos = []
    for combo in itertools.product(range(len(bs)), repeat=nthreads):
        if all(len(bs[i]) == 0 for i in combo[1:]):
            continue
        combos.append(combo)
    if len(combos) > limit:
        # deterministic sample
        idx = sorted(range(len(combos)), key=lambda i: (rng.next(), i))[:limit]
        combos = [combos[i] for i in sorted(idx)]
    out = []
    for combo in combos:
        bodies = [bs[i] for i in combo]
        if not wellformed(kind, bodies):
            continue
        if kind == "arc":
            out.append(arc_program(bodies))
        elif kind == "channel":
            out.append(chan_program(cfg, bodies))
        else:
            out.append(fill(bodies, dict(cfg)))
    return list(dict.fromkeys(out))


def arc_program(bodies):
    """every thread owns handle slot = its index; main creates the arc and the clones first"""
    n = len(bodies)
    main = ["anew 0"] + [f"aclone 0 {t}" for t in range(1, n)] + [f"spawn {t}" for t in range(1, n)]

    def inst(body, t):
        ops = [o.replace("{h}", str(t)) for u in body for o in u]
        if not any(o.startswith(("adrop", "aunwrap")) for o in ops):
            ops.append(f"adrop {t}")
        # a body that drops twice is outside the contract: keep only the ops up to the first drop
        res = []
        dropped = False
        for o in ops:
            if dropped and not o.startswith("ifeq"):
                if res and res[-1].startswith("ifeq") and o.startswith("adrop"):
                    res.append(o)   # the conditional drop after a failed unwrap
                continue
            res.append(o)
            if o.startswith("adrop"):
                dropped = True
            if o.startswith("aunwrap"):
                dropped = True
        return res

    main += inst(bodies[0], 0) + [f"join {t}" for t in range(1, n)]
    return render({}, [main] + [inst(b, t) for t, b in enumerate(bodies) if t > 0])


def chan_program(cfg, bodies):
    vs = ValueSource()
    ths = []
    for b in bodies:
        ths.append([o.replace("{v}", str(vs.fresh("q"))) if "{v}" in o else o for u in b for o in u])
    main, rest = ths[0], ths[1:]
    # whoever owns the receiver drops it at its end; if nobody receives, main drops it
    owner = next((i for i, t in enumerate(ths) if any(o.startswith(("recv", "tryrecv")) for o in t)), 0)
    prog = frame(rest, main, [])
    if owner == 0:
        prog[0].append("droprx 0")
    else:
        prog[owner].append("droprx 0")
    return render(dict(cfg), prog)


def c01_family(seed, quick):
    r = Rng(seed ^ 0xC01)
    out = []
    per = 120 if quick else 2500
    for kind in KINDSETS:
        out += exhaustive(kind, 2, 2, per, r.fork(kind + "2"))
        out += exhaustive(kind, 3, 1, per // 2, r.fork(kind + "3"))
    rr = r.fork("random")
    for _ in range(150 if quick else 3000):
        out.append(progs.gen_mixed(rr))
    return list(dict.fromkeys(out))


def _kinds(seed, tag, kinds2, kinds3, per2, per3, rnd_gen=None, rnd_n=0):
    r = Rng(seed ^ progs.hash_str(tag))
    out = []
    for k in kinds2:
        out += exhaustive(k, 2, 2, per2, r.fork(k + "2"))
    for k in kinds3:
        out += exhaustive(k, 3, 1, per3, r.fork(k + "3"))
    if per2 >= 1000:
        # thorough tier: longer bodies as well (2 threads x 3 units, 3 threads x 2 units), sampled
        for k in kinds2:
            out += exhaustive(k, 2, 3, per2 // 6, r.fork(k + "2x3"))
        for k in kinds3:
            out += exhaustive(k, 3, 2, per3 // 6, r.fork(k + "3x2"))
    rr = r.fork("rnd")
    for _ in range(rnd_n):
        out.append(rnd_gen(rr))
    return list(dict.fromkeys(out))


def c07_family(seed, quick):
    return _kinds(seed, "C07", ["mutex", "rwlock"], ["mutex", "rwlock"], 300 if quick else 6000,
                  150 if quick else 3000, lambda r: progs.gen_sync(r, atomics=False), 150 if quick else 3000)


def c08_family(seed, quick):
    return _kinds(seed, "C08", ["condvar", "notify", "park"], ["condvar", "notify", "park"],
                  200 if quick else 4000, 100 if quick else 2000, lambda r: progs.gen_wait(r, channels=False), 100 if quick else 2000)


def c09_family(seed, quick):
    return _kinds(seed, "C09", ["channel"], ["channel"], 300 if quick else 5000, 300 if quick else 5000,
                  gen_chan, 100 if quick else 2000)


def c11_family(seed, quick):
    return _kinds(seed, "C11", ["arc"], ["arc"], 400 if quick else 8000, 400 if quick else 8000,
                  progs.gen_arc, 150 if quick else 3000) + arc_raw_programs()


def c05_family(seed, quick):
    out = _kinds(seed, "C05", ["mutex", "condvar", "notify", "park", "channel"],
                 ["mutex", "park", "notify"], 120 if quick else 2500, 80 if quick else 1500)
    out += deadlock_shapes()
    return list(dict.fromkeys(out))


def c10_family(seed, quick):
    r = Rng(seed ^ 0xC10)
    out = leak_programs(r, 300 if quick else 5000)
    out += _kinds(seed, "C10", ["arc", "channel"], ["arc"], 150 if quick else 3000, 100 if quick else 2000)
    return list(dict.fromkeys(out))


def gen_chan(r):
    vs = ValueSource()
    n = 2 + r.below(2)
    sends = [[f"send 0 {vs.fresh('q')}" for _ in range(1 + r.below(2))] for _ in range(n - 1)]
    total = sum(len(s) for s in sends)
    k = r.below(total + 2)
    recvs = [r.choice(["recv 0", "tryrecv 0"]) if i < total else "tryrecv 0" for i in range(k)]
    recvs.append("droprx 0")
    if n == 2 and r.chance(1, 3):
        # the only sender is dropped after its last send (messages may still be queued)
        sends[0].append("droptx 0")
    if r.chance(1, 3):
        # the receiver lives in a spawned thread
        return render({"q": 1}, frame(sends[1:] + [recvs], sends[0], []))
    return render({"q": 1}, frame(sends, recvs, []))


def arc_raw_programs():
    return [
        "cfg | T0: anew 0; araw 0; afromraw 0; acount 0; adrop 0",
        "cfg | T0: anew 0; ainc 0; acount 0; adec 0; acount 0; adrop 0",
        "cfg | T0: anew 0; aclone 0 1; apeq 0 1; spawn 1; adrop 0; join 1 | T1: araw 1; afromraw 1; agetmut 1; adrop 1",
        "cfg | T0: anew 0; aclone 0 1; spawn 1; ainc 0; adec 0; adrop 0; join 1 | T1: acount 1; adrop 1",
        "cfg | T0: anew 0; anew 1; apeq 0 1; aclone 0 2; apeq 0 2; adrop 0; adrop 1; aunwrap 2",
    ]


def deadlock_shapes():
    return [
        "cfg m=2 | T0: spawn 1; lock 0; lock 1; unlock 1; unlock 0; join 1 | T1: lock 1; lock 0; unlock 0; unlock 1",
        "cfg m=2 | T0: spawn 1; lock 0; lock 1; unlock 1; unlock 0; join 1 | T1: lock 0; lock 1; unlock 1; unlock 0",
        "cfg q=1 | T0: spawn 1; recv 0; join 1; droprx 0 | T1: send 0 1",
        "cfg q=1 | T0: spawn 1; recv 0; recv 0; join 1; droprx 0 | T1: send 0 1",
        "cfg | T0: spawn 1; join 1 | T1: park",
        "cfg | T0: spawn 1; unpark 1; join 1 | T1: park",
        "cfg | T0: spawn 1; unpark 1; join 1 | T1: park; park",
        "cfg m=1 c=1 v=1 | T0: spawn 1; lock 0; cwr 0 1; unlock 0; join 1 | T1: lock 0; crd 0; ifeq 1 v:0 1; cvwait 0 0; unlock 0",
        "cfg m=1 c=1 v=1 | T0: spawn 1; lock 0; cwr 0 1; unlock 0; cvone 0; join 1 | T1: lock 0; crd 0; ifeq 1 v:0 1; cvwait 0 0; unlock 0",
        "cfg m=1 | T0: spawn 1; lock 0; join 1; unlock 0 | T1: lock 0; unlock 0",
        "cfg l=1 | T0: spawn 1; rd 0; join 1; unrd 0 | T1: wr 0; unwr 0",
        "cfg l=1 | T0: spawn 1; rd 0; join 1; unrd 0 | T1: rd 0; unrd 0",
        "cfg m=1 | T0: spawn 1; spawn 2; lock 0; unlock 0; join 1; join 2 | T1: lock 0; unlock 0; park | T2: unpark 1",
        "cfg m=1 | T0: spawn 1; lock 0; unpark 1; unlock 0; join 1 | T1: lock 0; unlock 0",
    ]


def leak_programs(r, n):
    out = []
    for _ in range(n):
        k = r.below(4)
        if k == 0:
            # arc handles moved to threads, dropped or leaked
            nt = 2 + r.below(2)
            main = ["anew 0"] + [f"aclone 0 {t}" for t in range(1, nt)] + [f"spawn {t}" for t in range(1, nt)]
            if r.chance(4, 5):
                main.append("adrop 0")
            main += [f"join {t}" for t in range(1, nt)]
            ths = [main]
            for t in range(1, nt):
                ths.append([f"adrop {t}"] if r.chance(3, 4) else ["acount %d" % t])
            out.append(render({}, ths))
        elif k == 1:
            ops = []
            for s in range(1 + r.below(3)):
                ops.append(f"tnew {s}" if r.chance(1, 2) else f"alloc {s}")
            for s in range(len(ops)):
                if r.chance(3, 4):
                    ops.append(f"tdrop {s}" if ops[s].startswith("tnew") else f"dealloc {s}")
            t1 = [o for o in ops if r.chance(1, 2) and o.startswith(("tdrop", "dealloc"))]
            m = [o for o in ops if o not in t1]
            # the creation must happen before the spawn; keep it simple: main creates, thread drops
            out.append(render({}, [[o for o in m if o.startswith(("tnew", "alloc"))] + ["spawn 1"]
                                   + [o for o in m if not o.startswith(("tnew", "alloc"))] + ["join 1"], t1]))
        elif k == 2:
            out.append(gen_chan(r))
        else:
            # CAS-guarded drop: exactly one of two threads drops the handle
            out.append("cfg x=1 | T0: anew 0; spawn 1; cas 0 0 1 ar acq; ifeq 1 ok:0 1; adrop 0; join 1 "
                       "| T1: cas 0 0 1 ar acq; ifeq 1 ok:0 1; adrop 0")
    return out


def race_sync_family(seed, quick):
    """C04, synchronisation through blocking primitives: the cell is written before / read after"""
    out = []
    idioms = [
        # (cfg, publisher ops after the write, subscriber ops before the read)
        ({"m": 1}, ["lock 0", "unlock 0"], ["lock 0", "unlock 0"]),
        ({"l": 1}, ["wr 0", "unwr 0"], ["rd 0", "unrd 0"]),
        ({"q": 1}, ["send 0 1"], ["recv 0"]),
        ({"q": 1}, ["send 0 1"], ["tryrecv 0"]),
        ({"n": 1}, ["nnotify 0"], ["nwait 0"]),
        ({}, ["unpark 1"], ["park"]),
        ({}, ["unpark 1"], []),
        ({}, [], []),
    ]
    for cfg, pub, sub in idioms:
        for wfirst in (True, False):
            c = dict(cfg)
            c["c"] = 1
            a = ["cwr 0 5"] if wfirst else ["crd 0"]
            b = ["crd 0"] if wfirst else ["cwr 0 6"]
            main = a + pub
            t1 = sub + b
            prog = frame([t1], main, [])
            if "q" in cfg:
                prog[1].append("droprx 0")
            out.append(render(c, prog))
            # the access placed before the synchronisation on the subscriber side: a race
            prog2 = frame([b + sub], main, [])
            if "q" in cfg:
                prog2[1].append("droprx 0")
            out.append(render(c, prog2))
    # join is an edge, spawn is an edge
    out.append("cfg c=1 | T0: cwr 0 1; spawn 1; join 1; crd 0 | T1: crd 0; cwr 0 2")
    out.append("cfg c=1 | T0: spawn 1; cwr 0 1; join 1 | T1: cwr 0 2")
    out.append("cfg c=1 | T0: spawn 1; spawn 2; join 1; join 2 | T1: crd 0 | T2: crd 0")
    return list(dict.fromkeys(out))

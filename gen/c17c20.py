"""Families for C17 (thread_local!, lazy_static!) and C20 (block_on, AtomicWaker)."""
import itertools
from gen.progs import Rng, render, frame


def c17_family(seed, quick):
    r = Rng(seed ^ 0xC17)
    out = []
    # (the counters are harness state without branch points: they are read only after the joins)
    tls_units = [["tls 0"], ["tls 1"], ["tlstry 0"], ["tlstry 1"], ["tlsnest 0 1"], ["tlsnest 1 0"], ["tls 0", "tls 0"],
                 ["tls 0", "tls 1"]]
    lazy_units = [["lazy 0"], ["lazy 1"], ["lazy 0", "lazy 0"], ["lazy 0", "lazy 1"], ["ld 1 rlx", "lazy 0"], ["lazy 0", "st 1 1 rlx"],
                  ["ld 0 rlx", "lazy 0"], ["ld 0 rlx", "lazy 1", "lazy 0"]]
    # (atomic 0 counts the runs of the lazy initialisers: a thread that reads it before its first access makes loom
    # explore the racing initialisation; the other accesses use atomic 1)
    # thread-locals: 1-3 threads, every order of accesses; counters read by main after the joins
    for n in (1, 2, 3):
        combos = list(itertools.product(range(len(tls_units)), repeat=n))
        if len(combos) > (40 if quick else 400):
            idx = sorted(range(len(combos)), key=lambda i: (r.next(), i))[: (40 if quick else 400)]
            combos = [combos[i] for i in sorted(idx)]
        for c in combos:
            bodies = [tls_units[i] for i in c]
            for dtor in (0, 2):
                cfg = {"tlsdtor": dtor} if dtor else {}
                post = ["tlsstat 0", "tlsstat 1"] + (["tlsobs 0", "tlsobs 1"] if dtor == 2 else [])
                main = bodies[0]
                prog = [[f"spawn {i+1}" for i in range(n - 1)] + main + [f"join {i+1}" for i in range(n - 1)] + post] \
                    + [list(b) for b in bodies[1:]]
                out.append(render(cfg, prog))
    # a destructor that performs a loom operation; with two keys the destructors run in initialisation order
    for body in (["tls 0"], ["tls 1"], ["tls 0", "tls 0"], ["tls 0", "tls 1"], ["tls 1", "tls 0"], ["tlsnest 1 0"]):
        out.append(render({"tlsdtor": 1, "x": 1}, frame([body], ["ld 0 rlx"], ["ld 0 rlx"])))
        out.append(render({"tlsdtor": 1, "x": 1}, [["tls 0", "spawn 1", "join 1", "ld 0 rlx"], body]))
    # lazy statics: 1-3 threads racing on the first access
    for n in (1, 2, 3):
        combos = list(itertools.product(range(len(lazy_units)), repeat=n))
        if len(combos) > (40 if quick else 300):
            idx = sorted(range(len(combos)), key=lambda i: (r.next(), i))[: (40 if quick else 300)]
            combos = [combos[i] for i in sorted(idx)]
        for c in combos:
            bodies = [lazy_units[i] for i in c]
            out.append(render({"x": 2}, frame(bodies[1:], bodies[0], ["lazystat 0", "lazystat 1", "ld 0 rlx"])))
    # initialisers without a scheduling point (no atomic declared)
    for c in ((0, 0), (0, 1), (2, 3), (0, 0, 1)):
        bodies = [lazy_units[i] for i in c]
        out.append(render({}, frame(bodies[1:], bodies[0], ["lazystat 0", "lazystat 1"])))
    # a thread that outlives the main closure and touches a static is reported (documented)
    out.append("cfg | T0: spawn 1; lazy 0 | T1: lazy 0")
    out.append("cfg | T0: spawn 1 | T1: lazy 0")
    return list(dict.fromkeys(out))


def c20_family(seed, quick):
    r = Rng(seed ^ 0xC20)
    out = []
    for mode in (0, 1):
        wk = "wake 0" if mode == 0 else "awwake 0"
        wakers = [[wk], ["st 0 1 rel"], [wk, wk], ["ld 0 rlx", wk]]
        if mode == 0:
            wakers += [["wakeref 0", "dropwaker 0"], ["wakeref 0", "wake 0"], ["dropwaker 0", "wake 0"], ["dropwaker 0"]]
        for w in wakers:
            # the blocked future in main, the waker in a spawned thread, and the other way round
            out.append(render({"x": 1, "f": 1}, frame([w], [f"blockon 0 {mode}"], [])))
            out.append(render({"x": 1, "f": 1}, frame([[f"blockon 0 {mode}"]], w, [])))
        # two waking threads
        for w1, w2 in itertools.product(wakers[:3], repeat=2):
            out.append(render({"x": 1, "f": 1}, frame([w1, w2], [f"blockon 0 {mode}"], [])))
        # wake before the future is polled at all
        out.append(render({"x": 1, "f": 1}, [[wk, "spawn 1", "join 1"], [f"blockon 0 {mode}"]]))
        # two futures, two block_on calls
        out.append(render({"x": 2, "f": 2}, frame([[f"blockon 1 {mode}", wk]], [f"blockon 0 {mode}", wk.replace(" 0", " 1")], [])))
    # two wakers whose payload (a relaxed counter) reaches the future only through the wake (mode 2)
    for w1, w2 in ((["fadd 0 1 rlx", "wakeq 0"], ["fadd 0 1 rlx", "wakeq 0"]),
                   (["fadd 0 1 rlx", "wakeq 0"], ["fadd 0 1 rlx", "wakeq 0", "wakeq 0"])):
        out.append(render({"x": 1, "f": 1}, frame([w1, w2], ["blockon 0 2"], [])))
        out.append(render({"x": 1, "f": 1}, frame([["blockon 0 2"], w2], w1, [])))
    out.append(render({"x": 1, "f": 1}, frame([["fadd 0 1 rlx", "wakeq 0", "fadd 0 1 rlx", "wakeq 0"]], ["blockon 0 2"], [])))
    # the same future driven by two consecutive block_on calls while a registration of the first call is still in
    # the shared AtomicWaker (mode 3): wake must reach the most recently registered waker
    for second in (3, 1):
        out.append(render({"x": 1, "f": 1}, [["blockon 0 4", "spawn 1", f"blockon 0 {second}", "join 1", "awtake 0"], ["awwake 0"]]))
        out.append(render({"x": 1, "f": 1}, [["spawn 1", "blockon 0 4", f"blockon 0 {second}", "join 1", "awtake 0"], ["awwake 0"]]))
    out.append(render({"x": 1, "f": 1}, [["blockon 0 4", "blockon 0 4", "spawn 1", "blockon 0 3", "join 1", "awtake 0"], ["awwake 0"]]))
    out.append(render({"x": 1, "f": 1}, [["spawn 1", "blockon 0 3", "join 1", "awtake 0"], ["awwake 0"]]))
    out.append(render({"x": 1, "f": 1}, [["blockon 0 4", "awtake 0"]]))
    out.append(render({"x": 1, "f": 1}, [["blockon 0 4"]]))          # the registration is leaked
    # a future that wakes itself by reference during its first poll, when no clone of the waker exists
    out.append(render({"x": 1, "f": 1}, [["blockon 0 5"]]))
    out.append(render({"x": 2, "f": 2}, [["spawn 1", "blockon 0 5", "join 1"], ["blockon 1 5"]]))
    out.append(render({"x": 2, "f": 2}, [["spawn 1", "blockon 0 5", "blockon 1 0", "join 1"], ["wake 1"]]))
    # nobody ever wakes: a deadlock must be reported
    out.append("cfg x=1 f=1 | T0: blockon 0 0")
    out.append("cfg x=1 f=1 | T0: blockon 0 1")
    if len(out) > (60 if quick else 10 ** 6):
        keep = out[-21:]
        idx = sorted(range(len(out) - 21), key=lambda i: (r.next(), i))[:39]
        out = [out[i] for i in sorted(idx)] + keep
    return list(dict.fromkeys(out))


def c20_bounded(seed, quick):
    """programs explored under a preemption bound (they are too large otherwise): only 'every explored execution
    shows an outcome of the reference' is judged.  Their visible results are RMW results and flags."""
    out = []
    two = ["wclone 0", "fadd 0 1 rlx", "wakeh 0"]
    for b in ((1, 2) if quick else (1, 2, 3)):
        # two wakers holding their own clones; what they publish (a relaxed counter) reaches the future only
        # through the wake: the second wake must carry its causality although the first is still pending
        out.append(render({"bound": b, "x": 1, "f": 1}, frame([two, two], ["blockon 0 2"], [])))
        out.append(render({"bound": b, "x": 1, "f": 1}, frame([two, ["wclone 0", "fadd 0 1 rlx", "wakeh 0", "wakeq 0"]], ["blockon 0 2"], [])))
        out.append(render({"bound": b, "x": 1, "f": 1}, frame([["blockon 0 2"], two], two, [])))
    return list(dict.fromkeys(out))

"""Litmus programs for C02 / C03 / C04: classic shapes under every ordering assignment from a
representative set, plus seeded random atomic programs (fewer than 7 stores per location)."""
import itertools
from gen.progs import Rng, render, frame, ValueSource, rand_atomic_op

LD = ["rlx", "acq", "sc"]
ST = ["rlx", "rel", "sc"]
RM = ["rlx", "ar", "sc"]
FE = ["acq", "rel", "ar", "sc"]
RN = ["rlx", "acq", "rel", "ar", "sc"]
EXHAUSTIVE = {"MPCASF", "MPCAS", "FRMW", "RELAY"}


def shapes():
    """(name, cfg, threads as op templates with {L}/{S}/{M}/{F} ordering slots)"""
    return [
        ("SB", {"x": 2}, [["st 0 1 {S}", "ld 1 {L}"], ["st 1 1 {S}", "ld 0 {L}"]]),
        ("MP", {"x": 2}, [["st 0 1 {S}", "st 1 1 {S}"], ["ld 1 {L}", "ld 0 {L}"]]),
        ("CoRR", {"x": 1}, [["st 0 1 {S}", "st 0 2 {S}"], ["ld 0 {L}", "ld 0 {L}"]]),
        ("CoWR", {"x": 1}, [["st 0 1 {S}", "ld 0 {L}"], ["st 0 2 {S}"]]),
        ("CoRW", {"x": 1}, [["ld 0 {L}", "st 0 1 {S}"], ["st 0 2 {S}", "ld 0 {L}"]]),
        ("2+2W", {"x": 2}, [["st 0 1 {S}", "st 1 2 {S}"], ["st 1 1 {S}", "st 0 2 {S}"]]),
        ("RMW", {"x": 1}, [["st 0 1 {S}"], ["swap 0 2 {M}"]]),
        ("INC", {"x": 1}, [["fadd 0 1 {M}"], ["fadd 0 1 {M}"]]),
        ("CAS", {"x": 1}, [["cas 0 0 1 {M} rlx"], ["cas 0 0 2 {M} rlx"]]),
        ("SBF", {"x": 2}, [["st 0 1 {S}", "fence {F}", "ld 1 {L}"], ["st 1 1 {S}", "fence {F}", "ld 0 {L}"]]),
        ("MPF", {"x": 2}, [["st 0 1 rlx", "fence {F}", "st 1 1 rlx"], ["ld 1 rlx", "fence {F}", "ld 0 rlx"]]),
        ("RSEQ", {"x": 2}, [["st 0 1 rlx", "st 1 1 {S}"], ["fadd 1 1 {M}"], ["ld 1 {L}", "ld 0 rlx"]]),
        ("WRC", {"x": 2}, [["st 0 1 {S}"], ["ld 0 {L}", "st 1 1 {S}"], ["ld 1 {L}", "ld 0 {L}"]]),
        ("RWC", {"x": 2}, [["st 0 1 {S}"], ["ld 0 {L}", "ld 1 {L}"], ["st 1 1 {S}", "ld 0 {L}"]]),
        ("IRIW", {"x": 2}, [["st 0 1 {S}"], ["st 1 1 {S}"], ["ld 0 {L}", "ld 1 {L}"], ["ld 1 {L}", "ld 0 {L}"]]),
        ("F2", {"x": 3}, [["st 1 1 rlx", "st 0 1 rel"], ["ld 0 rlx", "st 2 1 rel"], ["ld 2 acq", "fence {F}", "ld 1 rlx"]]),
        ("F3", {"x": 1}, [["st 0 1 {S}", "st 0 2 {S}"], ["st 0 3 {S}", "ld 0 {L}"]]),
        ("F16", {"x": 2}, [["st 0 1 {S}", "st 0 2 {S}", "st 1 1 rlx"], ["ld 1 rlx", "ld 0 {L}"]]),
        # a compare-exchange that fails / may fail under every success ordering (a failed one synchronises with
        # its failure ordering only)
        ("MPCASF", {"x": 2}, [["st 0 1 rlx", "st 1 1 {S}"], ["cas 1 7 8 {N} {L}", "ld 0 rlx"]]),
        ("MPCAS", {"x": 2}, [["st 0 1 rlx", "st 1 1 {S}"], ["cas 1 1 8 {N} {L}", "ld 0 rlx"]]),
        # a release fence followed by the write half of an RMW of any ordering
        ("FRMW", {"x": 2}, [["st 0 1 rlx", "fence {F}", "swap 1 1 {N}"], ["ld 1 {L}", "ld 0 rlx"]]),
        # relay through one fence between a relaxed load and a relaxed store
        ("RELAY", {"x": 3}, [["st 2 1 rlx", "st 0 1 {S}"], ["ld 0 rlx", "fence {F}", "st 1 1 rlx"], ["ld 1 {L}", "ld 2 rlx"]]),
    ]


def instantiate(name, cfg, threads, limit, r):
    slots = []
    for t in threads:
        for o in t:
            for k in ("{S}", "{L}", "{M}", "{F}", "{N}"):
                if k in o:
                    slots.append(k)
    choices = {"{S}": ST, "{L}": LD, "{M}": RM, "{F}": FE, "{N}": RN}
    combos = list(itertools.product(*[choices[k] for k in slots]))
    if len(combos) > limit:
        # always keep the uniform assignments, sample the rest
        uniform = [c for c in combos if len(set(c)) == 1 or all(x in ("rlx",) for x in c)]
        rest = [c for c in combos if c not in uniform]
        idx = sorted(range(len(rest)), key=lambda i: (r.next(), i))[:max(0, limit - len(uniform))]
        combos = uniform + [rest[i] for i in sorted(idx)]
    out = []
    for c in combos:
        it = iter(c)
        ths = []
        for t in threads:
            ops = []
            for o in t:
                for k in ("{S}", "{L}", "{M}", "{F}", "{N}"):
                    if k in o:
                        o = o.replace(k, next(it))
                ops.append(o)
            ths.append(ops)
        # epilogue: main reads every location after the joins (final state)
        post = [f"ld {x} rlx" for x in range(cfg["x"])]
        out.append(render(dict(cfg), frame(ths[1:], ths[0], post)))
    return out


def random_litmus(r, n):
    out = []
    for _ in range(n):
        nthreads = 2 + r.below(2)
        nx = 1 + r.below(2)
        vs = ValueSource()
        bodies = [[rand_atomic_op(r, nx, vs) for _ in range(1 + r.below(3 if nthreads == 2 else 2))]
                  for _ in range(nthreads - 1)]
        pre = [rand_atomic_op(r, nx, vs) for _ in range(r.below(3))]
        post = [f"ld {x} rlx" for x in range(nx)]
        out.append(render({"x": nx}, frame(bodies, pre, post)))
    return out


def family(seed, quick):
    r = Rng(seed ^ 0xC02)
    out = []
    per = 12 if quick else 100
    for name, cfg, threads in shapes():
        # (the shapes whose point is one particular ordering combination are instantiated exhaustively)
        out += instantiate(name, cfg, threads, 1000 if name in EXHAUSTIVE else per, r.fork(name))
    out += random_litmus(r.fork("rnd"), 120 if quick else 1000)
    return list(dict.fromkeys(out))


def race_family(seed, quick):
    """C04: message passing of a cell through atomics / fences / RMW chains, with the
    synchronisation present, weakened or absent"""
    r = Rng(seed ^ 0xC04)
    out = []
    pubs = [["st 0 1 {S}"], ["fence {F}", "st 0 1 rlx"], ["swap 0 1 {M}"], ["st 0 1 {S}", "fadd 0 1 rlx"]]
    subs = [["ld 0 {L}"], ["ld 0 rlx", "fence {F}"], ["fadd 0 0 {M}"]]
    for pub in pubs:
        for sub in subs:
            for wr_first in (True, False):
                writer = (["cwr 0 5"] if wr_first else ["crd 0"]) + pub
                reader = sub + ["ifeq 1 v:1 1" if len(sub) == 1 else "ifeq 2 v:1 1",
                                "crd 0" if wr_first else "cwr 0 6"]
                out += instantiate("MPC", {"x": 1, "c": 1}, [writer, reader], 12 if quick else 60, r)
    # two hops
    hop = [["cwr 0 5", "st 0 1 {S}"], ["ld 0 {L}", "ifeq 1 v:1 1", "st 1 1 {S}"],
           ["ld 1 {L}", "ifeq 1 v:1 1", "crd 0"]]
    out += instantiate("MP2", {"x": 2, "c": 1}, hop, 40 if quick else 300, r)
    # two hops, the middle thread relaying through ONE fence between a relaxed load and a relaxed store (the
    # acquire half must take effect before the release half publishes)
    relay = [["cwr 0 5", "st 0 1 {S}"], ["ld 0 rlx", "ifeq 1 v:1 2", "fence {F}", "st 1 1 rlx"],
             ["ld 1 {L}", "ifeq 1 v:1 1", "crd 0"]]
    out += instantiate("MPR", {"x": 2, "c": 1}, relay, 1000, r)
    relay2 = [["cwr 0 5", "fence {F}", "st 0 1 rlx"], ["ld 0 rlx", "ifeq 1 v:1 2", "fence {F}", "st 1 1 rlx"],
              ["ld 1 rlx", "fence {F}", "ifeq 2 v:1 1", "crd 0"]]
    out += instantiate("MPR2", {"x": 2, "c": 1}, relay2, 1000, r)
    return list(dict.fromkeys(out))

"""C12 family: single-thread operation sequences on one loom atomic of every type."""
from gen.progs import Rng

TYPES = ["u8", "u16", "u32", "u64", "usize", "i8", "i16", "i32", "i64", "isize", "bool", "ptr"]
BITS = {"u8": 8, "u16": 16, "u32": 32, "u64": 64, "usize": 64, "i8": 8, "i16": 16, "i32": 32,
        "i64": 64, "isize": 64, "bool": 1, "ptr": 64}
SIGNED = {"i8", "i16", "i32", "i64", "isize"}
LOAD_O = ["rlx", "acq", "sc"]
STORE_O = ["rlx", "rel", "sc"]
RMW_O = ["rlx", "acq", "rel", "ar", "sc"]
FAIL_O = ["rlx", "acq", "sc"]


def bounds(ty):
    b = BITS[ty]
    if ty in SIGNED:
        return -(1 << (b - 1)), (1 << (b - 1)) - 1
    return 0, (1 << b) - 1


def value(r, ty, recent):
    lo, hi = bounds(ty)
    if ty == "bool":
        return r.below(2)
    k = r.below(12)
    if k == 0:
        return 0
    if k == 1:
        return 1
    if k == 2:
        return hi
    if k == 3:
        return lo
    if k == 4:
        return max(lo, min(hi, -1)) if ty in SIGNED else hi - 1
    if k == 5:
        return hi - 1
    if k == 6:
        return lo + 1
    if k == 7 and recent:
        return r.choice(recent)          # so that compare_exchange can succeed
    if k == 8:
        # alternating bits
        pat = int("55" * 8, 16) & ((1 << BITS[ty]) - 1)
        return pat if pat <= hi else pat - (1 << BITS[ty])
    if k == 9:
        return (hi // 2) + 1 if ty not in SIGNED else 1 << (BITS[ty] - 2)
    return lo + r.below(hi - lo + 1)


def gen_seq(r, ty, nops):
    ops = []
    recent = [0]
    fetches = ["fadd", "fsub", "fand", "fnand", "for", "fxor", "fmax", "fmin"]
    if ty == "bool":
        fetches = ["fand", "fnand", "for", "fxor"]
    if ty == "ptr":
        fetches = []
    for _ in range(nops):
        k = r.below(100)
        v = value(r, ty, recent)
        if k < 12:
            ops.append(f"ld 0 {r.choice(LOAD_O)}")
        elif k < 30:
            ops.append(f"st 0 {v} {r.choice(STORE_O)}")
            recent.append(v)
        elif k < 38:
            ops.append(f"swap 0 {v} {r.choice(RMW_O)}")
            recent.append(v)
        elif k < 50:
            c = r.choice(recent) if r.chance(2, 3) else value(r, ty, recent)
            ops.append(f"cas 0 {c} {v} {r.choice(RMW_O)} {r.choice(FAIL_O)}")
            recent.append(v)
        elif k < 56:
            c = r.choice(recent) if r.chance(2, 3) else value(r, ty, recent)
            ops.append(f"cswp 0 {c} {v} {r.choice(RMW_O)}")
            recent.append(v)
        elif k < 82 and fetches:
            ops.append(f"{r.choice(fetches)} 0 {v} {r.choice(RMW_O)}")
        elif k < 90:
            j = r.below(3)
            f = "none" if j == 0 else (f"add:{v}" if j == 1 else f"addiflt:{v}:{value(r, ty, recent)}")
            ops.append(f"fupd 0 {f} {r.choice(RMW_O)} {r.choice(FAIL_O)}")
        elif k < 95 and ty != "bool":
            ops.append(f"wmut 0 {v}")
            recent.append(v)
        else:
            ops.append("uld 0")
    ops.append("uld 0")
    return f"cfg ty={ty} x=1 | T0: " + "; ".join(ops)


def family(seed, per_type):
    r = Rng(seed ^ 0xC12)
    out = []
    for ty in TYPES:
        rt = r.fork(ty)
        for i in range(per_type):
            n = 1 + rt.below(12) if i % 5 else 8 + rt.below(6)   # every 5th crosses the ring
            out.append(gen_seq(rt, ty, n))
    return list(dict.fromkeys(out))

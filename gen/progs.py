"""Program generators for the DSL (see lean/LoomVerif/Model/Prog.lean).

Every random choice derives from one splitmix64 state so that a run replays exactly.
A program is built as a Python structure and rendered to the one-line text format.
"""


class Rng:
    """splitmix64"""

    def __init__(self, seed):
        self.s = seed & 0xFFFFFFFFFFFFFFFF

    def next(self):
        self.s = (self.s + 0x9E3779B97F4A7C15) & 0xFFFFFFFFFFFFFFFF
        z = self.s
        z = ((z ^ (z >> 30)) * 0xBF58476D1CE4E5B9) & 0xFFFFFFFFFFFFFFFF
        z = ((z ^ (z >> 27)) * 0x94D049BB133111EB) & 0xFFFFFFFFFFFFFFFF
        return z ^ (z >> 31)

    def below(self, n):
        return self.next() % n

    def choice(self, xs):
        return xs[self.below(len(xs))]

    def chance(self, num, den):
        return self.below(den) < num

    def fork(self, tag):
        return Rng(self.next() ^ (hash_str(tag)))


def hash_str(s):
    h = 0xCBF29CE484222325
    for b in s.encode():
        h = ((h ^ b) * 0x100000001B3) & 0xFFFFFFFFFFFFFFFF
    return h


ORDS = ["rlx", "acq", "rel", "ar", "sc"]
LOAD_ORDS = ["rlx", "acq", "sc"]
STORE_ORDS = ["rlx", "rel", "sc"]
RMW_ORDS = ["rlx", "acq", "rel", "ar", "sc"]
FENCE_ORDS = ["acq", "rel", "ar", "sc"]


def render(cfg, threads):
    """cfg: dict of header items; threads: list of lists of op strings"""
    head = "cfg " + " ".join(f"{k}={v}" for k, v in cfg.items())
    return head + " | " + " | ".join((f"T{i}: " + "; ".join(ops)).rstrip() for i, ops in enumerate(threads))


def frame(bodies, main_pre=None, main_post=None, join=True):
    """main spawns threads 1..n (bodies), optionally runs its own ops, joins them"""
    n = len(bodies)
    main = [f"spawn {i+1}" for i in range(n)]
    main += list(main_pre or [])
    if join:
        main += [f"join {i+1}" for i in range(n)]
    main += list(main_post or [])
    return [main] + [list(b) for b in bodies]


class ValueSource:
    """distinct store values per location so that reads-from can be recovered from values"""

    def __init__(self):
        self.next = {}

    def fresh(self, x):
        v = self.next.get(x, 0) + 1
        self.next[x] = v
        return v


def rand_atomic_op(r, nx, vs, allow_rmw=True, allow_fence=True):
    x = r.below(nx)
    k = r.below(100)
    if k < 35:
        return f"ld {x} {r.choice(LOAD_ORDS)}"
    if k < 65:
        return f"st {x} {vs.fresh(x)} {r.choice(STORE_ORDS)}"
    if k < 75 and allow_fence:
        return f"fence {r.choice(FENCE_ORDS)}"
    if allow_rmw:
        j = r.below(5)
        o = r.choice(RMW_ORDS)
        if j == 0:
            return f"swap {x} {vs.fresh(x)} {o}"
        if j == 1:
            return f"fadd {x} 1 {o}"
        if j == 2:
            fo = r.choice(["rlx", "acq", "sc"])
            return f"cas {x} {r.below(3)} {vs.fresh(x)} {o} {fo}"
        if j == 3:
            return f"for {x} 4 {o}"
        return f"fupd {x} add:1 {o} {r.choice(['rlx','acq','sc'])}"
    return f"ld {x} {r.choice(LOAD_ORDS)}"


def gen_atomic(r, nthreads=None, nx=None, maxops=3):
    """random litmus-like program over atomics"""
    nthreads = nthreads or (2 + r.below(2))
    nx = nx or (1 + r.below(2))
    vs = ValueSource()
    bodies = []
    for _ in range(nthreads - 1):
        bodies.append([rand_atomic_op(r, nx, vs) for _ in range(1 + r.below(maxops))])
    pre = [rand_atomic_op(r, nx, vs) for _ in range(r.below(maxops + 1))]
    post = [f"ld {x} {r.choice(LOAD_ORDS)}" for x in range(nx) if r.chance(1, 2)]
    return render({"x": nx}, frame(bodies, pre, post))


def gen_sync(r, maxops=4, atomics=True):
    """random well-formed program over mutexes, rwlock, condvar-free blocking primitives, cells"""
    nthreads = 2 + r.below(2)
    nm, nl, nc, nx = 1 + r.below(2), r.below(2), 1, 1
    vs = ValueSource()
    bodies = []

    def body():
        ops = []
        held_m = []
        held_r = False
        held_w = False
        for _ in range(1 + r.below(maxops)):
            k = r.below(100)
            if k < 25 and len(held_m) < nm:
                cand = [m for m in range(nm) if m not in held_m]
                m = r.choice(cand)
                if r.chance(1, 4):
                    ops.append(f"trylock {m}")
                    ops.append("ifeq 1 v:1 2")
                    ops.append(f"cwr 0 {vs.fresh('c')}" if r.chance(1, 2) else "crd 0")
                    ops.append(f"unlock {m}")
                else:
                    ops.append(f"lock {m}")
                    held_m.append(m)
            elif k < 45 and held_m:
                m = held_m.pop()
                ops.append(f"unlock {m}")
            elif k < 60 and held_m:
                ops.append(f"cwr 0 {vs.fresh('c')}" if r.chance(1, 2) else "crd 0")
            elif k < 70 and nl and not held_r and not held_w:
                if r.chance(1, 2):
                    ops.append("rd 0")
                    held_r = True
                else:
                    ops.append("wr 0")
                    held_w = True
            elif k < 80 and (held_r or held_w):
                if held_r:
                    ops.append("unrd 0")
                    held_r = False
                else:
                    ops.append("unwr 0")
                    held_w = False
            elif atomics:
                ops.append(rand_atomic_op(r, nx, vs, allow_fence=False))
            elif held_m:
                ops.append(f"cwr 0 {vs.fresh('c')}" if r.chance(1, 2) else "crd 0")
        while held_m:
            ops.append(f"unlock {held_m.pop()}")
        if held_r:
            ops.append("unrd 0")
        if held_w:
            ops.append("unwr 0")
        return ops

    for _ in range(nthreads - 1):
        bodies.append(body())
    cfg = {"x": nx, "c": nc, "m": nm}
    if nl:
        cfg["l"] = nl
    return render(cfg, frame(bodies, body(), []))


def gen_wait(r, channels=True):
    """condvar / notify / park / channel programs (may deadlock: that is intended)"""
    nthreads = 2 + r.below(2)
    vs = ValueSource()
    kind = r.below(4 if channels else 3)
    bodies = []
    if kind == 0:
        # condvar with a flag cell protected by mutex 0
        waiter = ["lock 0", "crd 0", "ifeq 1 v:0 1", "cvwait 0 0", "unlock 0"]
        notifier = ["lock 0", "cwr 0 1", "unlock 0", r.choice(["cvone 0", "cvall 0"])]
        bodies = [waiter] + [notifier if r.chance(2, 3) else waiter for _ in range(nthreads - 2)]
        main = notifier if r.chance(2, 3) else waiter
        return render({"c": 1, "m": 1, "v": 1}, frame(bodies, main, []))
    if kind == 1:
        w = ["nwait 0"]
        n = ["nnotify 0"]
        bodies = [w] + [n for _ in range(nthreads - 2)]
        main = n if r.chance(3, 4) else []
        return render({"n": 1}, frame(bodies, main, []))
    if kind == 2:
        bodies = [["park", "crd 0"]] + [["crd 0"] for _ in range(nthreads - 2)]
        main = ["cwr 0 1", "unpark 1"]
        if r.chance(1, 3):
            main = ["unpark 1", "cwr 0 1"]
        return render({"c": 1}, frame(bodies, main, []))
    # channels
    nsend = 1 + r.below(3)
    sends = [[f"send 0 {vs.fresh('q')}" for _ in range(1 + r.below(2))] for _ in range(nthreads - 1)]
    total = sum(len(s) for s in sends)
    recvs = []
    for _ in range(total if r.chance(2, 3) else max(0, total - 1)):
        recvs.append(r.choice(["recv 0", "recv 0", "tryrecv 0"]))
    recvs.append("droprx 0")
    _ = nsend
    return render({"q": 1}, frame(sends, recvs, []))


def gen_arc(r):
    nthreads = 2 + r.below(2)
    bodies = []
    main = ["anew 0"]
    for t in range(1, nthreads):
        main.append(f"aclone 0 {t}")
    for t in range(1, nthreads):
        ops = []
        for _ in range(r.below(3)):
            ops.append(r.choice([f"acount {t}", f"agetmut {t}"]))
        ops.append(r.choice([f"adrop {t}", f"adrop {t}", f"aunwrap {t}"]))
        if ops[-1].startswith("aunwrap"):
            ops.append("ifeq 1 err:0 1")
            ops.append(f"adrop {t}")
        bodies.append(ops)
    spawn_first = [f"spawn {i+1}" for i in range(nthreads - 1)]
    mid = [r.choice(["acount 0", "agetmut 0"]) for _ in range(r.below(3))]
    tail = ["adrop 0"] if r.chance(4, 5) else []
    joins = [f"join {i+1}" for i in range(nthreads - 1)]
    if r.chance(1, 2):
        m = main + spawn_first + mid + joins + tail
    else:
        m = main + spawn_first + mid + tail + joins
    return render({}, [m] + bodies)


def gen_mixed(r):
    k = r.below(10)
    if k < 4:
        return gen_atomic(r)
    if k < 7:
        return gen_sync(r)
    if k < 9:
        return gen_wait(r)
    return gen_arc(r)

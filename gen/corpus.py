"""Hand-written programs that every run includes: idioms the random families may miss, and
minimised past disagreements."""

CORPUS = {
    "C07": [
        # two threads blocked in lock() when the holder releases: either of them may take the mutex next
        "cfg m=1 x=2 | T0: lock 0; spawn 1; spawn 2; ld 0 rlx; unlock 0; join 1; join 2 | T1: fadd 0 1 rlx; lock 0; fadd 1 1 rlx; unlock 0 | T2: fadd 0 1 rlx; lock 0; fadd 1 1 rlx; unlock 0",
        # a reader that holds its guard while waiting for another reader (pending at read() when the first acquires):
        # readers coexist, no deadlock; also after a completed write section
        "cfg l=1 | T0: spawn 1; rd 0; join 1; unrd 0 | T1: rd 0; unrd 0",
        "cfg l=1 c=1 x=1 | T0: spawn 1; spawn 2; join 1; join 2 | T1: wr 0; cwr 0 1; unwr 0; rd 0; await 0 1 acq; crd 0; unrd 0 | T2: rd 0; crd 0; unrd 0; st 0 1 rel",
        "cfg l=1 x=1 | T0: spawn 1; rd 0; fadd 0 1 rlx; join 1; unrd 0 | T1: fadd 0 1 rlx; rd 0; unrd 0",
        # a thread about to try must not be blocked by the acquisition (F9a, repaired)
        "cfg m=1 | T0: spawn 1; lock 0; join 1; unlock 0 | T1: trylock 0; ifeq 1 v:1 1; unlock 0",
        "cfg l=1 | T0: spawn 1; wr 0; join 1; unwr 0 | T1: tryrd 0; ifeq 1 v:1 1; unrd 0",
        "cfg l=1 | T0: spawn 1; rd 0; join 1; unrd 0 | T1: trywr 0; ifeq 1 v:1 1; unwr 0",
        "cfg m=1 | T0: spawn 1; lock 0; unpark 1; join 1; unlock 0 | T1: lock 0; unlock 0",
        "cfg l=1 | T0: spawn 1; wr 0; unpark 1; join 1; unwr 0 | T1: rd 0; unrd 0",
        # a failed try against a held lock must leave the lock held (same thread and another thread)
        "cfg l=1 | T0: wr 0; trywr 0; tryrd 0; trywr 0; unwr 0",
        "cfg l=1 | T0: rd 0; trywr 0; trywr 0; unrd 0; trywr 0; ifeq 1 v:1 1; unwr 0",
        "cfg m=1 | T0: lock 0; trylock 0; trylock 0; unlock 0; trylock 0; ifeq 1 v:1 1; unlock 0",
        "cfg l=1 c=1 x=1 | T0: spawn 1; spawn 2; wr 0; cwr 0 1; fadd 0 1 rlx; cwr 0 2; unwr 0; join 1; join 2 | T1: fadd 0 1 rlx; trywr 0; ifeq 1 v:1 1; unwr 0 | T2: fadd 0 1 rlx; rd 0; crd 0; unrd 0",
        "cfg l=1 c=1 x=1 | T0: spawn 1; spawn 2; wr 0; cwr 0 1; fadd 0 1 rlx; cwr 0 2; unwr 0; join 1; join 2 | T1: fadd 0 1 rlx; tryrd 0; ifeq 1 v:1 1; unrd 0 | T2: fadd 0 1 rlx; wr 0; cwr 0 3; unwr 0",
        # two overlapping readers (a branch point inside the read section) and a writer: every reader's
        # release must be ordered before the writer
        "cfg l=1 c=1 x=1 | T0: spawn 1; spawn 2; wr 0; cwr 0 9; unwr 0; join 1; join 2 | T1: rd 0; fadd 0 1 rlx; crd 0; unrd 0 | T2: rd 0; fadd 0 1 rlx; crd 0; unrd 0",
        "cfg l=1 c=1 x=1 | T0: spawn 1; spawn 2; rd 0; fadd 0 1 rlx; crd 0; unrd 0; join 1; join 2 | T1: rd 0; fadd 0 1 rlx; crd 0; unrd 0 | T2: wr 0; cwr 0 9; unwr 0",
        # writer then readers, reader then writer through try variants
        "cfg l=1 c=1 | T0: spawn 1; wr 0; cwr 0 1; unwr 0; join 1 | T1: tryrd 0; ifeq 1 v:1 2; crd 0; unrd 0",
        "cfg l=1 c=1 | T0: spawn 1; rd 0; crd 0; unrd 0; join 1 | T1: trywr 0; ifeq 1 v:1 2; cwr 0 1; unwr 0",
        # mutex hand-over chain through three threads
        "cfg m=1 c=1 | T0: spawn 1; spawn 2; lock 0; cwr 0 1; unlock 0; join 1; join 2 | T1: lock 0; cwr 0 2; unlock 0 | T2: lock 0; crd 0; unlock 0",
        # nested / overlapping sections
        "cfg m=2 c=1 | T0: spawn 1; lock 0; lock 1; cwr 0 1; unlock 0; unlock 1; join 1 | T1: lock 0; lock 1; crd 0; unlock 1; unlock 0",
    ],
    "C09": [
        # three sends, two of them by one sender: the other sender's message may arrive before, between and after
        "cfg q=1 | T0: spawn 1; spawn 2; join 1; join 2; recv 0; recv 0; recv 0; droprx 0 | T1: send 0 1; send 0 2 | T2: send 0 10",
        "cfg q=1 | T0: spawn 1; spawn 2; spawn 3; join 1; join 2; join 3; recv 0; recv 0; recv 0; droprx 0 | T1: send 0 1 | T2: send 0 2 | T3: send 0 3",
        "cfg q=1 | T0: spawn 1; spawn 2; recv 0; recv 0; recv 0; join 1; join 2; droprx 0 | T1: send 0 1; send 0 2 | T2: send 0 10",
        # every sender is dropped while messages are still queued: try_recv / recv must still deliver them, in order
        "cfg q=1 | T0: send 0 1; send 0 2; droptx 0; tryrecv 0; tryrecv 0; tryrecv 0; droprx 0",
        "cfg q=1 | T0: spawn 1; tryrecv 0; tryrecv 0; join 1; tryrecv 0; droprx 0 | T1: send 0 1; send 0 2; droptx 0",
        "cfg q=1 | T0: spawn 1; recv 0; join 1; tryrecv 0; droprx 0 | T1: send 0 1; send 0 2; droptx 0",
        "cfg q=1 | T0: send 0 1; droptx 0; recv 0; droprx 0",
        "cfg q=1 c=1 | T0: spawn 1; join 1; tryrecv 0; crd 0; droprx 0 | T1: cwr 0 5; send 0 1; droptx 0",
        # a message sent while another is still queued must carry its own sender's clock
        "cfg q=1 c=1 | T0: spawn 1; recv 0; recv 0; crd 0; join 1; droprx 0 | T1: send 0 1; cwr 0 5; send 0 2",
        "cfg q=1 c=2 | T0: spawn 1; spawn 2; recv 0; recv 0; crd 0; crd 1; join 1; join 2; droprx 0 | T1: cwr 0 5; send 0 1 | T2: cwr 1 6; send 0 2",
        "cfg q=1 c=1 | T0: spawn 1; recv 0; recv 0; recv 0; crd 0; join 1; droprx 0 | T1: send 0 1; send 0 2; cwr 0 5; send 0 3",
        # several messages queued when the first is received: the send must still happen-before its receive
        "cfg q=1 c=1 | T0: spawn 1; recv 0; crd 0; recv 0; join 1; droprx 0 | T1: cwr 0 5; send 0 1; send 0 2",
        "cfg q=1 c=2 | T0: spawn 1; spawn 2; recv 0; recv 0; crd 0; crd 1; join 1; join 2; droprx 0 | T1: cwr 0 5; send 0 1 | T2: cwr 1 6; send 0 2",
        "cfg q=1 x=1 | T0: spawn 1; recv 0; ld 0 rlx; recv 0; join 1; droprx 0 | T1: st 0 7 rlx; send 0 1; send 0 2",
        # two senders, the stamp of a message must be its own
        "cfg q=1 c=1 | T0: spawn 1; spawn 2; recv 0; ifeq 1 v:2 1; crd 0; recv 0; join 1; join 2; droprx 0 | T1: cwr 0 5; send 0 1 | T2: send 0 2",
        "cfg q=1 c=2 | T0: spawn 1; spawn 2; recv 0; ifeq 1 v:1 1; crd 0; ifeq 2 v:2 1; crd 1; recv 0; join 1; join 2; droprx 0 | T1: cwr 0 5; send 0 1 | T2: cwr 1 6; send 0 2",
    ],
    "C04": [
        # five threads: a cell handed to / from the fifth thread through release/acquire
        "cfg x=1 c=1 | T0: spawn 1; spawn 2; spawn 3; spawn 4; ld 0 acq; ifeq 1 v:1 1; crd 0; join 1; join 2; join 3; join 4 | T1: fence acq | T2: fence acq | T3: fence acq | T4: cwr 0 5; st 0 1 rel",
        "cfg m=1 c=1 | T0: spawn 1; spawn 2; spawn 3; spawn 4; lock 0; crd 0; unlock 0; join 1; join 2; join 3; join 4 | T1: fence acq | T2: fence acq | T3: fence acq | T4: lock 0; cwr 0 5; unlock 0",
        "cfg c=1 | T0: spawn 1; cwr 0 1; unpark 1; join 1 | T1: crd 0",
        # the same for the race detector: the second queued message's clock
        "cfg q=1 c=1 | T0: spawn 1; recv 0; recv 0; crd 0; join 1; droprx 0 | T1: send 0 1; cwr 0 5; send 0 2",
        # two overlapping read sections; the first reader leaves while the second is inside; the writer is ordered
        # after the START of the first reader's section and after the whole of the second's, but not after the END
        # of the first's: a race (W writes only when the overlap is certain)
        "cfg c=1 x=4 | T0: spawn 1; spawn 2; ld 0 acq; ifeq 1 v:1 3; ld 1 acq; ifeq 1 v:1 1; cwr 0 5; join 1; join 2 | T1: crdb 0; st 0 1 rel; ld 3 rlx; crde 0; ifeq 2 v:1 1; st 2 1 rlx | T2: crdb 0; st 3 1 rlx; ld 2 rlx; crde 0; ifeq 2 v:1 1; st 1 1 rel",
        # control: the same with a release/acquire hop after the first reader's end: no race
        "cfg c=1 x=4 | T0: spawn 1; spawn 2; ld 1 acq; ifeq 1 v:1 1; cwr 0 5; join 1; join 2 | T1: crdb 0; ld 3 rlx; crde 0; ifeq 2 v:1 1; st 2 1 rel | T2: crdb 0; st 3 1 rlx; ld 2 acq; crde 0; ifeq 2 v:1 1; st 1 1 rel",
        # sections and plain accesses
        "cfg c=1 | T0: spawn 1; crdb 0; crd 0; crde 0; join 1 | T1: crdb 0; crde 0",
        "cfg c=1 m=1 | T0: spawn 1; lock 0; cwrb 0 1; cwre 0; unlock 0; join 1 | T1: lock 0; crdb 0; crde 0; unlock 0",
        "cfg c=1 | T0: spawn 1; cwrb 0 1; cwre 0; join 1 | T1: crdb 0; crde 0",
        # two senders: receiving one sender's message orders nothing with the other sender
        "cfg q=1 c=1 | T0: spawn 1; spawn 2; recv 0; ifeq 1 v:2 1; crd 0; recv 0; join 1; join 2; droprx 0 | T1: cwr 0 5; send 0 1 | T2: send 0 2",
        # the cell is read only when the flag says T2 has already sent AND the first message is T1's: the
        # read races with T2's write (the receive of T1's message orders nothing with T2)
        "cfg q=1 c=1 x=1 | T0: spawn 1; spawn 2; ld 0 rlx; ifeq 1 v:1 3; recv 0; ifeq 1 v:1 1; crd 0; join 1; join 2; droprx 0 | T1: send 0 1 | T2: cwr 0 5; send 0 2; st 0 1 rlx",
    ],
    "C10": [
        # a leak that happens only when the other sender's message arrives BETWEEN the two messages of one sender
        "cfg q=1 | T0: spawn 1; spawn 2; join 1; join 2; recv 0; recv 0; ifeq 1 v:10 1; tnew 0; recv 0; droprx 0 | T1: send 0 1; send 0 2 | T2: send 0 10",
        # a raw block at a recycled address
        "cfg  | T0: alloc 0; dealloc 0; alloc 1",
        "cfg  | T0: alloc 0; dealloc 0; alloc 1; dealloc 1; alloc 2",
        "cfg  | T0: alloc 0; dealloc 0; alloc 1; dealloc 1",
        "cfg  | T0: spawn 1; alloc 0; dealloc 0; join 1 | T1: alloc 1; dealloc 1; alloc 2",
        # a clone racing with strong_count and a drop by another thread: nothing is leaked
        "cfg | T0: anew 0; aclone 0 1; spawn 1; aclone 0 2; adrop 2; adrop 0; join 1 | T1: acount 1; adrop 1",
        "cfg | T0: anew 0; aclone 0 1; spawn 1; aclone 0 2; join 1; adrop 2 | T1: acount 1; adrop 1; acount 0",
        "cfg | T0: anew 0; aclone 0 1; aclone 0 2; spawn 1; spawn 2; adrop 0; join 1; join 2 | T1: acount 1; adrop 1 | T2: aclone 2 3; adrop 3; adrop 2",
        # a leak that happens in one order only: a Track value is leaked when strong_count has already seen the other
        # thread's drop (after an earlier, ordered drop of a third handle); inspection by the main thread / a third thread
        "cfg | T0: anew 0; aclone 0 1; aclone 0 2; adrop 2; spawn 1; acount 0; ifeq 1 v:1 1; tnew 0; join 1; adrop 0 | T1: adrop 1",
        "cfg | T0: anew 0; aclone 0 1; aclone 0 2; adrop 2; spawn 1; spawn 2; join 1; join 2; adrop 0 | T1: acount 0; ifeq 1 v:1 1; tnew 0 | T2: adrop 1",
        "cfg | T0: anew 0; aclone 0 1; aclone 0 2; adrop 2; spawn 1; acount 0; ifeq 1 v:2 1; alloc 0; join 1; adrop 0 | T1: adrop 1",
        "cfg | T0: anew 0; aclone 0 1; spawn 1; acount 0; ifeq 1 v:1 1; tnew 0; join 1; adrop 0 | T1: adrop 1",
    ],
    "C11": [
        # the final drop happens-after EVERY earlier drop (three handles, two writers that are never joined before)
        "cfg c=2 | T0: anew 0; aclone 0 1; aclone 0 2; spawn 1; spawn 2; adrop 0; ifeq 1 v:1 2; crd 0; crd 1; join 1; join 2 | T1: cwr 0 5; adrop 1 | T2: cwr 1 6; adrop 2",
        "cfg c=2 | T0: anew 0; aclone 0 1; aclone 0 2; spawn 1; spawn 2; join 1; join 2 | T1: cwr 0 5; adrop 1; adrop 0; ifeq 1 v:1 1; crd 1 | T2: cwr 1 6; adrop 2",
        # an inspection racing with a drop after an earlier, ordered drop of another handle
        "cfg  | T0: anew 0; aclone 0 1; aclone 0 2; adrop 2; spawn 1; spawn 2; join 1; join 2; adrop 0 | T1: acount 0 | T2: adrop 1",
        "cfg  | T0: anew 0; aclone 0 1; aclone 0 2; adrop 2; spawn 1; spawn 2; join 1; join 2; adrop 0 | T1: adrop 1 | T2: acount 0",
        "cfg  | T0: anew 0; aclone 0 1; aclone 0 2; agetmut 2; adrop 2; spawn 1; spawn 2; join 1; join 2; adrop 0 | T1: acount 0 | T2: adrop 1",
        "cfg  | T0: anew 0; aclone 0 1; spawn 1; spawn 2; join 1; join 2; adrop 0 | T1: acount 0 | T2: adrop 1",
    ],
    "C15": [
        # two runnable threads at the very first schedule point (spawn before the first loom operation); matters at bound 0
        "cfg x=2 | T0: spawn 1; st 1 1 rlx; st 0 1 rlx; join 1; ld 0 rlx | T1: st 0 2 rlx; ld 0 rlx",
        "cfg x=2 | T0: spawn 1; spawn 2; st 1 1 rlx; fadd 0 1 rlx; join 1; join 2 | T1: fadd 0 1 rlx | T2: fadd 0 1 rlx",
        # a load / RMW directly followed by a possibly spurious Notify::wait, with preemptions before and after
        "cfg x=1 n=1 m=1 c=1 | T0: spawn 1; lock 0; crd 0; unlock 0; nnotify 0; ld 0 rlx; ifeq 1 v:0 1; nwait 0; lock 0; crd 0; unlock 0; join 1 | T1: lock 0; cwr 0 1; unlock 0; lock 0; cwr 0 2; unlock 0; lock 0; cwr 0 3; unlock 0",
        "cfg x=1 n=1 | T0: spawn 1; ld 0 rlx; nwait 0; ld 0 rlx; fadd 0 1 rlx; join 1 | T1: st 0 1 rlx; nnotify 0; fadd 0 1 rlx; fadd 0 1 rlx",
        "cfg x=1 n=1 | T0: spawn 1; nnotify 0; fadd 0 1 rlx; nwait 0; fadd 0 1 rlx; fadd 0 1 rlx; join 1 | T1: fadd 0 1 rlx; fadd 0 1 rlx; fadd 0 1 rlx",
    ],
    "C16": [
        # a thread that yields while it is alone, then spawns: iteration k must schedule like a fresh first iteration
        "cfg x=3 | T0: spawn 1; fadd 0 1 rlx; join 1; yield; spawn 2; st 1 1 rlx; fadd 2 1 rlx; join 2 | T1: fadd 0 1 rlx | T2: fadd 2 1 rlx; ld 1 rlx",
        "cfg x=3 | T0: spawn 1; ld 0 rlx; join 1; yield; spawn 2; st 1 1 rlx; ld 2 rlx; join 2 | T1: st 0 1 rlx | T2: st 2 1 rlx; ld 1 rlx",
        # skip_branch reached in one iteration only: its effect must end with that iteration (the later iterations are
        # explored as if it had never been called)
        "cfg x=2 | T0: spawn 1; ld 0 rlx; ifeq 1 v:0 1; skip; ld 1 rlx; join 1 | T1: st 0 1 rlx; st 1 1 rlx",
        "cfg x=2 | T0: spawn 1; ld 0 rlx; ifeq 1 v:1 1; skip; ld 1 rlx; ld 0 rlx; join 1 | T1: st 0 1 rlx; st 1 1 rlx",
        "cfg x=1 m=2 | T0: spawn 1; lock 0; unlock 0; ld 0 rlx; ifeq 1 v:0 1; skip; lock 1; unlock 1; join 1 | T1: lock 0; unlock 0; st 0 1 rlx; lock 1; unlock 1",
        "cfg explicit=1 x=2 | T0: explore; spawn 1; ld 0 rlx; ifeq 1 v:0 1; skip; ld 1 rlx; join 1 | T1: st 0 1 rlx; st 1 1 rlx",
        # SeqCst fences: the global fence clock must not survive an iteration
        "cfg x=2 c=1 | T0: spawn 1; fence sc; ld 0 rlx; ifeq 1 v:1 1; crd 0; join 1; fence sc | T1: cwr 0 1; st 0 1 rlx",
        "cfg x=2 | T0: spawn 1; st 0 1 rlx; fence sc; ld 1 rlx; join 1 | T1: st 1 1 rlx; fence sc; ld 0 rlx",
        "cfg x=2 | T0: spawn 1; st 0 1 rlx; st 1 1 rlx; join 1; fence sc | T1: fence sc; ld 1 rlx; ld 0 rlx",
    ],
    "C08": [
        # three waits on one Notify, each notification sent only after the previous wait has returned: at most one of
        # the returns may be spurious in any execution
        "cfg n=1 x=3 | T0: spawn 1; nwait 0; st 1 1 rlx; nwait 0; st 2 1 rlx; nwait 0; join 1 | T1: nnotify 0; await 1 1 rlx; nnotify 0; await 2 1 rlx; nnotify 0",
        "cfg n=1 x=3 | T0: spawn 1; nnotify 0; await 1 1 rlx; nnotify 0; await 2 1 rlx; nnotify 0; join 1 | T1: nwait 0; st 1 1 rlx; nwait 0; st 2 1 rlx; nwait 0",
        # a thread parks right after using a lock; another thread releases the same lock while it is parked: the park must
        # still wait for the unpark (what the unparker wrote before is visible afterwards)
        "cfg m=1 c=1 | T0: spawn 1; lock 0; unlock 0; cwr 0 5; unpark 1; join 1 | T1: lock 0; unlock 0; park; crd 0",
        "cfg l=1 c=1 | T0: spawn 1; wr 0; unwr 0; cwr 0 5; unpark 1; join 1 | T1: rd 0; unrd 0; park; crd 0",
        "cfg l=1 c=1 | T0: spawn 1; rd 0; unrd 0; cwr 0 5; unpark 1; join 1 | T1: wr 0; unwr 0; park; crd 0",
        "cfg m=1 x=1 | T0: spawn 1; lock 0; unlock 0; st 0 1 rlx; unpark 1; join 1 | T1: lock 0; unlock 0; park; ld 0 rlx",
        # two rounds of park/unpark: the first park really blocks; the second unpark arrives while the target runs (the
        # tickets on x1 make that order an explored one); the token must be kept for the second park
        "cfg x=2 | T0: spawn 1; park; st 0 1 rlx; fadd 1 1 rlx; park; join 1 | T1: unpark 0; await 0 1 rlx; fadd 1 1 rlx; unpark 0",
        "cfg x=2 | T0: spawn 1; spawn 2; join 1; join 2 | T1: park; st 0 1 rlx; fadd 1 1 rlx; park | T2: unpark 1; await 0 1 rlx; fadd 1 1 rlx; unpark 1",
        # two early unparks from two threads, both stored before the park: the park must receive what BOTH published
        "cfg c=2 x=1 | T0: spawn 1; spawn 2; ld 0 rlx; ifeq 1 v:2 3; park; crd 0; crd 1; join 1; join 2 | T1: cwr 0 1; unpark 0; fadd 0 1 rlx | T2: cwr 1 1; unpark 0; fadd 0 1 rlx",
        "cfg c=2 x=1 | T0: spawn 1; ld 0 rlx; ifeq 1 v:2 3; park; crd 0; crd 1; join 1 | T1: cwr 0 1; unpark 0; fadd 0 1 rlx; cwr 1 1; unpark 0; fadd 0 1 rlx",
        # an unpark orders nothing until a park consumes it (F17, repaired); a stored unpark is not a condvar
        # notification (F15, repaired)
        "cfg c=1 | T0: spawn 1; cwr 0 1; unpark 1; join 1 | T1: crd 0",
        "cfg c=1 | T0: spawn 1; cwr 0 1; unpark 1; join 1 | T1: park; crd 0",
        "cfg c=1 m=1 v=1 | T0: spawn 1; lock 0; cwr 0 1; unlock 0; cvone 0; join 1 | T1: unpark 1; lock 0; cvwait 0 0; crd 0; unlock 0",
        "cfg m=1 v=1 | T0: spawn 1; spawn 2; lock 0; cvwait 0 0; unlock 0; join 1; join 2 | T1: unpark 0; lock 0; cvone 0; unlock 0 | T2: lock 0; cvwait 0 0; unlock 0",
        # unpark must wake only a thread that is blocked in park, and its token must survive blocking on
        # something else (F5 / F6 / F18, repaired)
        "cfg  | T0: spawn 1; join 1 | T1: unpark 0",
        "cfg m=1 | T0: spawn 1; lock 0; unpark 1; join 1; unlock 0 | T1: lock 0; unlock 0",
        "cfg m=1 | T0: spawn 1; unpark 1; lock 0; unlock 0; join 1 | T1: lock 0; unlock 0; park",
        "cfg q=1 | T0: spawn 1; recv 0; join 1; droprx 0 | T1: unpark 0; send 0 1",
        "cfg n=1 | T0: spawn 1; nwait 0; join 1 | T1: unpark 0; nnotify 0",
        # two notifiers, the second arrives while the first notification is still pending: the waiter must still
        # receive what the second published (T0 waits only after it has seen that T2 has notified)
        # (two self-notify + wait rounds: at least one of the waits is not the spurious return)
        "cfg n=1 c=1 x=2 | T0: spawn 1; spawn 2; ld 1 rlx; ifeq 1 v:1 5; nnotify 0; nwait 0; nnotify 0; nwait 0; crd 0; join 1; join 2 | T1: nnotify 0 | T2: cwr 0 1; nnotify 0; st 1 1 rlx",
        "cfg n=1 c=1 x=2 | T0: spawn 1; ld 1 rlx; ifeq 1 v:1 5; nnotify 0; nwait 0; nnotify 0; nwait 0; crd 0; join 1 | T1: nnotify 0; cwr 0 1; nnotify 0; st 1 1 rlx",
        "cfg n=1 c=1 x=2 | T0: spawn 1; spawn 2; ld 1 acq; ifeq 1 v:1 2; nwait 0; crd 0; join 1; join 2 | T1: nnotify 0; st 1 1 rel | T2: cwr 0 1; nnotify 0",
        # a park token must survive a release of an object the thread merely used earlier (F18a, repaired)
        "cfg l=1 | T0: spawn 1; unpark 1; rd 0; unrd 0; join 1 | T1: rd 0; unrd 0; park",
        "cfg l=1 | T0: spawn 1; unpark 1; rd 0; unrd 0; join 1 | T1: tryrd 0; unrd 0; park",
        "cfg q=2 | T0: spawn 1; unpark 1; send 0 1; join 1; recv 0; recv 1; droprx 0; droprx 1 | T1: send 1 2; park",
        # unpark before park (token) and after park: the unparker's writes are visible after park
        "cfg c=1 x=1 | T0: spawn 1; ld 0 rlx; park; crd 0; join 1 | T1: cwr 0 1; st 0 1 rlx; unpark 0",
        "cfg c=1 | T0: spawn 1; cwr 0 1; unpark 1; join 1 | T1: park; crd 0",
        # notify before and after wait
        "cfg n=1 c=1 x=1 | T0: spawn 1; ld 0 rlx; nwait 0; crd 0; join 1 | T1: cwr 0 1; st 0 1 rlx; nnotify 0",
        # condvar: one notify_one, two waiters; notify_all
        "cfg m=1 c=1 v=1 | T0: spawn 1; spawn 2; lock 0; cwr 0 1; unlock 0; cvall 0; join 1; join 2 | T1: lock 0; crd 0; ifeq 1 v:0 1; cvwait 0 0; crd 0; unlock 0 | T2: lock 0; crd 0; ifeq 1 v:0 1; cvwait 0 0; crd 0; unlock 0",
        "cfg m=1 c=1 v=1 | T0: spawn 1; spawn 2; lock 0; cwr 0 1; unlock 0; cvone 0; cvone 0; join 1; join 2 | T1: lock 0; crd 0; ifeq 1 v:0 1; cvwait 0 0; unlock 0 | T2: lock 0; crd 0; ifeq 1 v:0 1; cvwait 0 0; unlock 0",
    ],
    "C05": [
        # two rounds of park/unpark: the first park really blocks; the second unpark arrives while the target runs (the
        # tickets on x1 make that order an explored one); the token must be kept for the second park
        "cfg x=2 | T0: spawn 1; park; st 0 1 rlx; fadd 1 1 rlx; park; join 1 | T1: unpark 0; await 0 1 rlx; fadd 1 1 rlx; unpark 0",
        "cfg x=2 | T0: spawn 1; spawn 2; join 1; join 2 | T1: park; st 0 1 rlx; fadd 1 1 rlx; park | T2: unpark 1; await 0 1 rlx; fadd 1 1 rlx; unpark 1",
        "cfg m=1 | T0: spawn 1; lock 0; join 1; unlock 0 | T1: trylock 0; ifeq 1 v:1 1; unlock 0",
        "cfg c=1 | T0: spawn 1; cwr 0 1; unpark 1; park; join 1 | T1: cwr 0 2",
        # unpark must wake only a thread that is blocked in park, and its token must survive blocking on
        # something else (F5 / F6 / F18, repaired)
        "cfg  | T0: spawn 1; join 1 | T1: unpark 0",
        "cfg m=1 | T0: spawn 1; lock 0; unpark 1; join 1; unlock 0 | T1: lock 0; unlock 0",
        "cfg m=1 | T0: spawn 1; unpark 1; lock 0; unlock 0; join 1 | T1: lock 0; unlock 0; park",
        "cfg q=1 | T0: spawn 1; recv 0; join 1; droprx 0 | T1: unpark 0; send 0 1",
        "cfg n=1 | T0: spawn 1; nwait 0; join 1 | T1: unpark 0; nnotify 0",
        # a park token must survive a release of an object the thread merely used earlier (F18a, repaired)
        "cfg l=1 | T0: spawn 1; unpark 1; rd 0; unrd 0; join 1 | T1: rd 0; unrd 0; park",
        "cfg l=1 | T0: spawn 1; unpark 1; rd 0; unrd 0; join 1 | T1: tryrd 0; unrd 0; park",
        "cfg q=2 | T0: spawn 1; unpark 1; send 0 1; join 1; recv 0; recv 1; droprx 0; droprx 1 | T1: send 1 2; park",
        # a thread parked after touching a channel / a lock must stay parked when that object is used again
        "cfg q=1 | T0: spawn 1; recv 0; send 0 2; recv 0; join 1; droprx 0 | T1: send 0 1; park",
        "cfg m=1 | T0: spawn 1; lock 0; unlock 0; lock 0; unlock 0; join 1 | T1: lock 0; unlock 0; park",
        "cfg n=1 | T0: spawn 1; nnotify 0; join 1 | T1: nnotify 0; park",
    ],
    "C03": [
        # a release fence BEFORE a spawn does not turn the child's relaxed store into a release (RC11: only stores
        # sequenced after the fence in the same thread): the sibling may acquire-read the child's store and still read the
        # parent's earlier write stale
        "cfg x=2 | T0: spawn 1; st 1 1 rlx; fence rel; spawn 2; join 1; join 2 | T1: ld 0 acq; ld 1 rlx | T2: st 0 1 rlx",
        "cfg x=2 | T0: spawn 1; st 1 1 rlx; fence sc; spawn 2; join 1; join 2 | T1: ld 0 acq; ld 1 rlx | T2: st 0 1 rlx",
        "cfg x=2 | T0: spawn 1; st 1 1 rlx; fence ar; spawn 2; join 1; join 2 | T1: ld 0 acq; ld 1 rlx | T2: fadd 0 1 rlx",
        # five threads (the last clock component): message passing from and to the fifth thread
        "cfg x=2 | T0: spawn 1; spawn 2; spawn 3; spawn 4; ld 1 acq; ld 0 rlx; join 1; join 2; join 3; join 4 | T1: fence acq | T2: fence acq | T3: fence acq | T4: st 0 1 rlx; st 1 1 rel",
        "cfg x=2 | T0: spawn 1; spawn 2; spawn 3; spawn 4; st 0 1 rlx; st 1 1 rel; join 1; join 2; join 3; join 4 | T1: fence acq | T2: fence acq | T3: fence acq | T4: ld 1 acq; ld 0 rlx",
        # relay through a fence that is both acquire and release: what the fence acquired must be published by a
        # later relaxed store
        "cfg x=3 | T0: spawn 1; spawn 2; ld 2 acq; ifeq 1 v:1 1; ld 0 rlx; join 1; join 2 | T1: st 0 1 rlx; st 1 1 rel | T2: ld 1 rlx; fence ar; ifeq 2 v:1 1; st 2 1 rlx",
        "cfg x=3 | T0: spawn 1; spawn 2; ld 2 acq; ifeq 1 v:1 1; ld 0 rlx; join 1; join 2 | T1: st 0 1 rlx; st 1 1 rel | T2: ld 1 rlx; fence sc; ifeq 2 v:1 1; st 2 1 rlx",
        "cfg x=3 | T0: spawn 1; spawn 2; ld 2 rlx; fence acq; ifeq 2 v:1 1; ld 0 rlx; join 1; join 2 | T1: st 0 1 rlx; fence rel; st 1 1 rlx | T2: ld 1 rlx; fence ar; ifeq 2 v:1 1; st 2 1 rlx",
        # a failed CAS observes a store: later loads / an acquire fence must respect it
        "cfg x=1 | T0: spawn 1; st 0 1 rlx; join 1 | T1: cas 0 5 6 rlx rlx; ld 0 rlx",
        "cfg x=2 | T0: spawn 1; st 1 42 rlx; st 0 1 rel; join 1 | T1: cas 0 5 6 rlx rlx; fence acq; ld 1 rlx",
        "cfg x=1 | T0: spawn 1; st 0 1 rlx; st 0 2 rlx; join 1 | T1: fupd 0 addiflt:1:0 rlx rlx; ld 0 rlx",
    ],
    "C01": [
        # a condvar notification sent while nobody waits yet races with a later wait: "wait first, woken by that early
        # notification" must be explored (the waiter returns with the predicate still false)
        "cfg m=1 v=1 c=1 | T0: spawn 1; cvone 0; lock 0; cwr 0 1; unlock 0; cvone 0; join 1 | T1: lock 0; crd 0; ifeq 1 v:0 1; cvwait 0 0; crd 0; unlock 0",
        "cfg m=1 v=1 c=1 | T0: spawn 1; cvall 0; lock 0; cwr 0 1; unlock 0; cvall 0; join 1 | T1: lock 0; crd 0; ifeq 1 v:0 1; cvwait 0 0; crd 0; unlock 0",
        # strong_count must observe a concurrent drop (F10a, repaired)
        "cfg  | T0: anew 0; aclone 0 1; spawn 1; acount 0; adrop 0; join 1 | T1: adrop 1",
        # a racing thread that is blocked at the backtrack point: all enabled threads must become alternatives
        "cfg q=1 x=1 | T0: spawn 1; spawn 2; recv 0; fadd 0 10 rlx; join 1; join 2; droprx 0 | T1: fadd 0 1 rlx | T2: send 0 1",
        "cfg m=1 x=1 | T0: spawn 1; spawn 2; lock 0; fadd 0 10 rlx; unlock 0; join 1; join 2 | T1: fadd 0 1 rlx | T2: lock 0; unlock 0",
    ],
}


def corpus(pid):
    return list(CORPUS.get(pid, []))

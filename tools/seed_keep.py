#!/usr/bin/env python3
"""archive a confirmed seeded change under /verif/seeded/<name>/ and remove its scratch worktree"""
import json, os, shutil, subprocess, sys
name, prop, needs, what, caught = sys.argv[1:6]
src = f"/tmp/seed/{name}"
dst = f"/verif/seeded/{name}"
os.makedirs(dst, exist_ok=True)
shutil.copy(f"/tmp/seed/{name}.patch", f"{dst}/patch.diff")
shutil.copy(f"{src}/tests/seed_demo.rs", f"{dst}/seed_demo.rs")
meta = {"breaks_property": prop, "what_changed": what, "needs_to_manifest": needs,
        "confirmed": {"existing_suite_passes_with_change": True, "demo_fails_with_change": True,
                      "demo_passes_without_change": True,
                      "how": "tools/seed_confirm.sh in the scratch worktree (cargo test --offline --no-fail-fast; "
                             "cargo test --offline --test seed_demo with and without the source change)"},
        "ran": f"tools/seed_run.sh /verif/seeded/{name}/patch.diff <checks> (git -C /repo apply; ./check …; git -C /repo checkout -- .)",
        "caught_by": json.loads(caught)}
json.dump(meta, open(f"{dst}/meta.json", "w"), indent=1)
subprocess.run(["git", "-C", "/repo", "worktree", "remove", "--force", src])
for f in (f"/tmp/seed/{name}.patch", f"/tmp/seed/{name}.patch.mine", f"/tmp/seed/{name}.prompt.txt"):
    if os.path.exists(f):
        os.remove(f)
print("kept", dst)

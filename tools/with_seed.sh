#!/bin/sh
# tools/with_seed.sh <patch> <command...>: run a command with a seeded patch applied to /repo, then undo it
PATCH=$1; shift
git -C /repo apply $PATCH || exit 1
"$@"
git -C /repo checkout -- .
git -C /repo status --short | head -3

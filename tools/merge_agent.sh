#!/bin/sh
# merge the new Lean files of an agent workspace into /verif/lean (Proofs, Props, Audit only)
set -e
SRC=$1
cd /verif/lean
for sub in Proofs Props Audit; do
  for f in $SRC/LoomVerif/$sub/*.lean; do
    b=$(basename $f)
    if [ ! -f LoomVerif/$sub/$b ] || ! cmp -s $f LoomVerif/$sub/$b; then
      cp $f LoomVerif/$sub/$b; echo "copied $sub/$b"
    fi
  done
done
grep '^import' $SRC/LoomVerif.lean | while read l; do
  grep -qxF "$l" LoomVerif.lean || { echo "$l" >> LoomVerif.lean; echo "added $l"; }
done
# files under Model/Spec/Oracle must be untouched by agents
for sub in Model Spec Oracle; do
  for f in $SRC/LoomVerif/$sub/*.lean; do
    b=$(basename $f)
    if [ -f LoomVerif/$sub/$b ] && ! cmp -s $f LoomVerif/$sub/$b; then echo "NOTE: $sub/$b differs from the agent's copy"; fi
    if [ ! -f LoomVerif/$sub/$b ]; then echo "NOTE: agent created $sub/$b (not copied)"; fi
  done
done
